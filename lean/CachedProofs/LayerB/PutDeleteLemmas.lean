/-
  Helper lemmas for LayerB/PutDelete.lean (C11: the un-awaited `put(k); delete(k)` of ONE caller, for all interleavings).

    1   tags: the key a command / a client position is aimed at (`cmdKey?`, `onK`), the positions of `shutdown()`
        (`shutPath`); `client_tags`: a client action never CREATES a tag
    2   one action, thread by thread (`stepB_issue_inv`, …)
    3   `Env`: the environment invariant — no `shutdown()` under way, no client but `i` works on a put / upsert / delete
        of `k` — and `env_step`
    4   the worker's takes, exactly (`takeW`, `worker_recv`), `WOff`
    5   the ledger and the fresh ids under one worker action
    6   `isForeignRemove` (evictions and sweeps of `k`), `Present`, `present_step`, `absent_step`
    7   `OtherEff`: what an action of a thread other than the worker does
    8   the worker inside ONE put command (`put_complete`, `PutEnd`, `occ_after_complete`)
    9   THE INVARIANT of the pair: `PDE` (EARLY: the `Delete` has not run its `store.remove`) and `PDL` (LATE); the
        steps of the other threads (`pde_other`, `pdl_other`)
    10  the worker's steps (`pde_worker`, `pdl_worker`)
    11  the two calls of client `i` (`put_call_step`, `del_call_step`, `pde_send`)
    12  histories: prefixes, reachability, the worker alive
    13  the scenario `Scen`, the invariant along the run `J`, `main_inv`
    14  reading the invariant (`pde_pending`, `pdl_answered`)
    15  `ShutQ`: in a running cache no `Shutdown` command waits
    16  `ret_ack_pending`: a call that returns a pending acknowledgement returned from its `cmd.send`
    17  `QSorted`, `LifeOf`, `Before`: one client's commands in the queue, `Sent`
    18  `PP`, `SoftK`, `ExactK`, `PastMark`, `good_at`, `after_putpoint`: the `delete.mark` and the put's `store.put`
-/
import CachedProofs.LayerB.History
import CachedProofs.LayerB.Bijection

namespace Cached
namespace B
namespace PD
open Hist

/-! ## 1  tags -/

/-- the key a command writes (`Put`, `PutWithTTL`, `Delete`) -/
def cmdKey? : Cmd → Option Nat
  | .put _ _ _ k _ => some k
  | .putTtl _ _ _ k _ _ => some k
  | .delete k => some k
  | _ => none

/-- no command of the list writes the key `k` -/
def KFree (k : Nat) (q : List (Cmd × Option Nat)) : Prop := ∀ p ∈ q, cmdKey? p.1 ≠ some k

theorem KFree.nil (k : Nat) : KFree k [] := fun _ h => by cases h

theorem KFree.append {k : Nat} {q q' : List (Cmd × Option Nat)} (h : KFree k q) (h' : KFree k q') : KFree k (q ++ q') := by
  intro p hp
  rcases List.mem_append.mp hp with hp | hp
  · exact h p hp
  · exact h' p hp

theorem KFree.one {k : Nat} {c : Cmd} {hh : Option Nat} (h : cmdKey? c ≠ some k) : KFree k [(c, hh)] := by
  intro p hp
  simp only [List.mem_singleton] at hp
  subst hp
  exact h

theorem KFree.tail {k : Nat} {x : Cmd × Option Nat} {q : List (Cmd × Option Nat)} (h : KFree k (x :: q)) : KFree k q :=
  fun p hp => h p (List.mem_cons_of_mem _ hp)

theorem KFree.head {k : Nat} {x : Cmd × Option Nat} {q : List (Cmd × Option Nat)} (h : KFree k (x :: q)) :
    cmdKey? x.1 ≠ some k := h x List.mem_cons_self

/-- the request is a put / upsert / delete of the key `k` -/
def reqOnK (k : Nat) : Req → Bool
  | .putW k' _ _ _ => k' == k
  | .upsert k' _ _ _ _ => k' == k
  | .delete k' => k' == k
  | _ => false

/-- the client stands inside a put / upsert / delete of `k`, at a position from which it may still write the store entry
    of `k` or send a command that writes `k` -/
def onK (k : Nat) : CPc → Bool
  | .start r => reqOnK k r
  | .putPresent k' _ _ _ => k' == k
  | .idNext k' _ _ _ => k' == k
  | .send cmd => cmdKey? cmd == some k
  | .delMark k' => k' == k
  | .upUpdate k' _ _ _ _ => k' == k
  | _ => false

/-- the client stands inside `shutdown()` (or is about to send a `Shutdown` command) -/
def shutPath : CPc → Bool
  | .start .shutdown => true
  | .shutCas => true
  | .send .shutdown => true
  | pc => pc.afterCas

theorem shutPath_of_afterCas {pc : CPc} (h : pc.afterCas = true) : shutPath pc = true := by
  cases pc <;> simp_all [shutPath, CPc.afterCas]

theorem cmdKey?_cmdOfPut (c : PutCmd) : cmdKey? (cmdOfPut c) = some c.k := by
  unfold cmdOfPut; split <;> rfl

/-- a client action from a position other than `start` and `upsert.update` creates no tag -/
theorem client_tags_other {b b' : BState} {i : Nat} {pc pc' : CPc} (ht : CTrans b i b')
    (hpc : b.cl[i]? = some pc) (hpc' : b'.cl[i]? = some pc')
    (h1 : ∀ r, pc ≠ .start r) (h2 : ∀ k v w ttl rm, pc ≠ .upUpdate k v w ttl rm) :
    (∀ k, onK k pc' = true → onK k pc = true) ∧ (shutPath pc' = true → shutPath pc = true) ∧
    (pc' = .send .shutdown → pc = .send .shutdown) := by
  have hne : ∀ {x : CPc}, b.cl[i]? = some x → pc = x := fun hx => Option.some.inj (hpc.symm.trans hx)
  cases ht
  case startPut k v w ttl hpc0 _ => exact absurd (hne hpc0) (h1 _)
  case startPlain r pc1 hpc0 _ => exact absurd (hne hpc0) (h1 _)
  case upPut k v w ttl rm val weight hpc0 _ _ => exact absurd (hne hpc0) (h2 _ _ _ _ _)
  case upUpdate k v w ttl rm e ne uw hpc0 _ _ => exact absurd (hne hpc0) (h2 _ _ _ _ _)
  case idNext k v w ttl hpc0 =>
    have := hne hpc0; subst this
    have := pc_of_set hpc'; subst this
    cases ttl <;> simp [onK, shutPath, cmdKey?, CPc.afterCas]
  case upWeightOfTtl id uw old new pc1 hpc0 hu _ _ =>
    have := pc_of_set hpc'; subst this
    cases pc' <;> simp [CPc.usedId?, onK, shutPath, CPc.afterCas] at hu ⊢
  case shutLocal pc0 pc1 g' hpc0 hac0 hac hg =>
    have := hne hpc0; subst this
    have := pc_of_set hpc'; subst this
    clear hg
    refine ⟨fun k hk => ?_, fun _ => shutPath_of_afterCas hac0, fun e => ?_⟩
    · cases pc' <;> simp [CPc.afterCas, onK] at hac hk
    · subst e; simp [CPc.afterCas] at hac
  case mgetStep pc0 pc1 g' hpc0 _ hm hg =>
    have := pc_of_set hpc'; subst this
    clear hg
    cases pc' <;> simp [CPc.isMget, onK, shutPath, CPc.afterCas] at hm ⊢
  case upAfterSame id uw old new hpc0 =>
    rcases upAfterIndex_spec b i id uw with ⟨_, e⟩ | ⟨_, _, e⟩ | e <;> rw [e] at hpc' <;>
      (have := pc_of_set hpc'; subst this; simp [onK, shutPath, cmdKey?, CPc.afterCas])
  case upAfterPut pc0 id e uw _ _ _ =>
    rcases upAfterIndex_spec { b with g := ttlPut b.g id e } i id uw with ⟨_, e⟩ | ⟨_, _, e⟩ | e <;> rw [e] at hpc' <;>
      (have := pc_of_set hpc'; subst this; simp [onK, shutPath, cmdKey?, CPc.afterCas])
  case upAfterDelete id e uw _ _ =>
    rcases upAfterIndex_spec { b with g := ttlDelete b.g id e } i id uw with ⟨_, e⟩ | ⟨_, _, e⟩ | e <;>
      rw [e] at hpc' <;> (have := pc_of_set hpc'; subst this; simp [onK, shutPath, cmdKey?, CPc.afterCas])
  all_goals
    have := hne (by assumption)
    subst this
    have := pc_of_set hpc'
    subst this
    simp [onK, shutPath, cmdKey?, CPc.afterCas]

/-- **a client action never creates a tag**: the position after it is aimed at `k` (stands inside `shutdown()`) only if
    the position before it was -/
theorem client_tags {b b' : BState} {i : Nat} {o o' : Oracle} {pc pc' : CPc}
    (hs : clientAct b i o = .ok (b', o')) (hpc : b.cl[i]? = some pc) (hpc' : b'.cl[i]? = some pc') :
    (∀ k, onK k pc' = true → onK k pc = true) ∧ (shutPath pc' = true → shutPath pc = true) ∧
    (pc' = .send .shutdown → pc = .send .shutdown) := by
  by_cases h1 : ∃ r, pc = .start r
  · obtain ⟨r, rfl⟩ := h1
    unfold clientAct at hs
    simp only [hpc] at hs
    split at hs
    · cases r <;> simp only [Except.ok.injEq, Prod.mk.injEq] at hs <;> obtain ⟨rfl, rfl⟩ := hs <;>
        first
        | (have := pc_of_set hpc'; subst this; simp [onK, shutPath, CPc.afterCas])
        | (rcases mgetStart_spec b i _ _ with ⟨_, _, e⟩ | ⟨_, e⟩ <;> rw [e] at hpc' <;>
            (have := pc_of_set hpc'; subst this; simp [onK, shutPath, CPc.afterCas]))
    · cases r with
      | putW k v w ttl =>
        simp only [] at hs
        split at hs <;> simp only [Except.ok.injEq, Prod.mk.injEq] at hs <;> obtain ⟨rfl, rfl⟩ := hs <;>
          (have := pc_of_set hpc'; subst this; simp [onK, shutPath, reqOnK, CPc.afterCas])
      | mget ks iter =>
        simp only [Except.ok.injEq, Prod.mk.injEq] at hs; obtain ⟨rfl, rfl⟩ := hs
        rcases mgetStart_spec b i ks iter with ⟨_, _, e⟩ | ⟨_, e⟩ <;> rw [e] at hpc' <;>
          (have := pc_of_set hpc'; subst this; simp [onK, shutPath, CPc.afterCas])
      | _ =>
        simp only [Except.ok.injEq, Prod.mk.injEq] at hs; obtain ⟨rfl, rfl⟩ := hs
        have := pc_of_set hpc'; subst this
        simp [onK, shutPath, reqOnK, CPc.afterCas]
  by_cases h2 : ∃ k v w ttl rm, pc = .upUpdate k v w ttl rm
  · obtain ⟨k, v, w, ttl, rm, rfl⟩ := h2
    unfold clientAct at hs
    simp only [hpc] at hs
    split at hs
    · cases hs
    · split at hs
      · split at hs
        · split at hs <;> simp only [Except.ok.injEq, Prod.mk.injEq] at hs <;> obtain ⟨rfl, rfl⟩ := hs <;>
            (have := pc_of_set hpc'; subst this; simp [onK, shutPath, CPc.afterCas])
        · simp only [Except.ok.injEq, Prod.mk.injEq] at hs; obtain ⟨rfl, rfl⟩ := hs
          have := pc_of_set hpc'; subst this
          simp [onK, shutPath, CPc.afterCas]
      · split at hs <;> simp only [Except.ok.injEq, Prod.mk.injEq] at hs <;> obtain ⟨rfl, rfl⟩ := hs <;>
          (have := pc_of_set hpc'; subst this; simp [onK, shutPath, CPc.afterCas])
  · exact client_tags_other (clientAct_trans hs) hpc hpc' (fun r e => h1 ⟨r, e⟩)
      (fun k v w ttl rm e => h2 ⟨k, v, w, ttl, rm, e⟩)

/-! ## 2  one action, thread by thread -/

theorem stepB_issue_inv {b b' : BState} {j : Nat} {r : Req} {o o' : Oracle}
    (h : stepB b (.issue j r) o = .ok (b', o')) : b.cl[j]? = some .idle ∧ b' = setClient b j (.start r) := by
  simp only [stepB] at h
  split at h
  · rename_i b1 hi
    simp only [Except.ok.injEq, Prod.mk.injEq] at h; obtain ⟨rfl, rfl⟩ := h
    unfold issue at hi
    split at hi
    · rename_i hidle
      simp only [Except.ok.injEq] at hi; subst hi
      exact ⟨hidle, rfl⟩
    · cases hi
  · cases h

theorem stepB_sweeper_inv {b b' : BState} {v : Option Nat} {o o' : Oracle}
    (h : stepB b (.sweeper v) o = .ok (b', o')) : sweeperAct b v = .ok b' := by
  simp only [stepB] at h
  split at h
  · rename_i b1 hs
    simp only [Except.ok.injEq, Prod.mk.injEq] at h
    rw [← h.1]; exact hs
  · cases h

theorem stepB_consumer_inv {b b' : BState} {o o' : Oracle} (h : stepB b .consumer o = .ok (b', o')) :
    ∃ g', b' = { b with g := g' } ∧
      g' = { b.g with bufq := g'.bufq, lfu := g'.lfu, consumerAlive := g'.consumerAlive } := by
  simp only [stepB] at h
  split at h
  · rename_i g' out o1 hc
    simp only [Except.ok.injEq, Prod.mk.injEq] at h; obtain ⟨rfl, rfl⟩ := h
    exact ⟨g', rfl, consumerStep_frame hc⟩
  · cases h

theorem stepB_advance_inv {b b' : BState} {d : Nat} {o o' : Oracle} (h : stepB b (.advance d) o = .ok (b', o')) :
    b' = { b with g := { b.g with now := b.g.now + d } } := by
  simp only [stepB, Except.ok.injEq, Prod.mk.injEq] at h
  exact h.1.symm

/-- the only client action that sets the shutdown flag is `shutdown.cas` -/
theorem ctrans_shutting_eq {b b' : BState} {i : Nat} (h : CTrans b i b') :
    b'.g.shutting = b.g.shutting ∨ b.cl[i]? = some .shutCas := by
  cases h
  case getPool hp => rw [poolAdd_frame hp]; simp [finishCall]
  case refPool hp => rw [poolAdd_frame hp]; simp [finishCall]
  case shutLocal hg => rw [hg]; simp [setClient]
  case mgetStep hg => rw [hg]; simp [setClient]
  case mgetFin hg => rw [hg]; simp [finishCall]
  case shutCas hpc _ => exact Or.inr hpc
  case upAfterSame => rcases upAfterIndex_spec b i _ _ with ⟨_, h⟩ | ⟨_, _, h⟩ | h <;> rw [h] <;> simp [finishCall, setClient, spotFinish]
  case upAfterPut id e uw _ _ _ =>
    rcases upAfterIndex_spec { b with g := ttlPut b.g id e } i id uw with ⟨_, h⟩ | ⟨_, _, h⟩ | h <;> rw [h] <;>
      simp [finishCall, setClient, spotFinish, ttlPut]
  case upAfterDelete id e uw _ _ =>
    rcases upAfterIndex_spec { b with g := ttlDelete b.g id e } i id uw with ⟨_, h⟩ | ⟨_, _, h⟩ | h <;> rw [h] <;>
      simp [finishCall, setClient, spotFinish, ttlDelete]
  all_goals simp [finishCall, setClient, spotFinish, ttlDelete]

/-! ## 3  the environment: no `shutdown()` under way, nobody but client `i` writes `k` -/

/-- **The environment invariant.**  The cache is running and nobody stands inside `shutdown()`; no `Shutdown` command
    waits; the worker is not draining; no client other than `i` stands inside a put / upsert / delete of `k`. -/
structure Env (i k : Nat) (b : BState) : Prop where
  flag : b.g.shutting = false
  noShut : ∀ (j : Nat) (pc : CPc), b.cl[j]? = some pc → shutPath pc = false
  queue : ∀ p ∈ b.g.queue, p.1 ≠ .shutdown
  drain : b.w ≠ .drain
  others : ∀ (j : Nat) (pc : CPc), j ≠ i → b.cl[j]? = some pc → onK k pc = false

/-- what the environment allows to be ISSUED: never `shutdown()`, and by a client other than `i` no put / upsert /
    delete of `k` -/
def IssueOk (i k : Nat) (a : Act) : Prop :=
  ∀ j r, a = .issue j r → r ≠ .shutdown ∧ (j ≠ i → reqOnK k r = false)

theorem bool_false_of_imp {x y : Bool} (h : x = true → y = true) (hy : y = false) : x = false := by
  cases x
  · rfl
  · rw [h rfl] at hy; cases hy

/-- a client's action in the environment: the position it leaves is not aimed at `shutdown()`; the flag stays down; the
    queue stays or takes the command the client was about to send (never `Shutdown`) -/
theorem env_client_queue {i k : Nat} {b b' : BState} {j : Nat} {o o' : Oracle} (he : Env i k b)
    (hs : clientAct b j o = .ok (b', o')) :
    b'.g.queue = b.g.queue ∨
    ∃ cmd, b.cl[j]? = some (.send cmd) ∧ cmd ≠ .shutdown ∧ b'.g.queue = b.g.queue ++ [(cmd, some b.g.acks.length)] ∧
      b'.g.acks = b.g.acks ++ [.pending] := by
  rcases ctrans_cstep (clientAct_trans hs) with ⟨hq, _⟩ | ⟨_, hq, _⟩ | ⟨cmd, hpc, hq, ha⟩ | ⟨hpc, _, _, _⟩
  · exact Or.inl hq
  · exact Or.inl hq
  · refine Or.inr ⟨cmd, hpc, ?_, hq, ha⟩
    rintro rfl
    have := he.noShut j _ hpc
    simp [shutPath] at this
  · have := he.noShut j _ hpc
    simp [shutPath, CPc.afterCas] at this

theorem env_step {i k : Nat} {b b' : BState} {a : Act} {o o' : Oracle} (he : Env i k b)
    (hs : stepB b a o = .ok (b', o')) (hok : IssueOk i k a) : Env i k b' := by
  cases a with
  | issue j r =>
    obtain ⟨_, rfl⟩ := stepB_issue_inv hs
    obtain ⟨hr, hk⟩ := hok j r rfl
    refine ⟨he.flag, ?_, he.queue, he.drain, ?_⟩
    · intro j' pc hpc
      by_cases hj : j' = j
      · subst hj
        have := pc_of_set hpc; subst this
        cases r <;> simp [shutPath, CPc.afterCas] at hr ⊢
      · simp only [setClient, List.getElem?_set_ne (Ne.symm hj)] at hpc
        exact he.noShut j' pc hpc
    · intro j' pc hj' hpc
      by_cases hj : j' = j
      · subst hj
        have := pc_of_set hpc; subst this
        exact hk hj'
      · simp only [setClient, List.getElem?_set_ne (Ne.symm hj)] at hpc
        exact he.others j' pc hj' hpc
  | client j =>
    simp only [stepB] at hs
    have ht := clientAct_trans hs
    obtain ⟨pc, pc', hpc, hcl, _, _⟩ := ctrans_cl ht
    have hsp : shutPath pc = false := he.noShut j pc hpc
    have hlt : j < b.cl.length := lt_of_getElem?_some hpc
    have hpc' : b'.cl[j]? = some pc' := by rw [hcl]; simp [hlt]
    obtain ⟨htk, hts, _⟩ := client_tags hs hpc hpc'
    refine ⟨?_, ?_, ?_, ?_, ?_⟩
    · rcases ctrans_shutting_eq ht with h | h
      · rw [h]; exact he.flag
      · rw [hpc] at h; cases h; simp [shutPath] at hsp
    · intro j' pc1 hpc1
      by_cases hj : j' = j
      · subst hj
        rw [hpc'] at hpc1; cases hpc1
        exact bool_false_of_imp hts hsp
      · rw [hcl, List.getElem?_set_ne (Ne.symm hj)] at hpc1
        exact he.noShut j' pc1 hpc1
    · intro p hp
      rcases env_client_queue he hs with hq | ⟨cmd, _, hne, hq, _⟩
      · rw [hq] at hp; exact he.queue p hp
      · rw [hq] at hp
        rcases List.mem_append.mp hp with hp | hp
        · exact he.queue p hp
        · simp only [List.mem_singleton] at hp; subst hp; exact hne
    · rw [(ctrans_frame ht).1]; exact he.drain
    · intro j' pc1 hj' hpc1
      by_cases hj : j' = j
      · subst hj
        rw [hpc'] at hpc1; cases hpc1
        exact bool_false_of_imp (htk k) (he.others j' pc hj' hpc)
      · rw [hcl, List.getElem?_set_ne (Ne.symm hj)] at hpc1
        exact he.others j' pc1 hj' hpc1
  | worker =>
    simp only [stepB] at hs
    have ht := workerAct_trans hs
    obtain ⟨hq, _⟩ := wtrans_prov ht
    refine ⟨by rw [wtrans_shutting ht]; exact he.flag, by rw [(wtrans_cl ht).1]; exact he.noShut,
      fun p hp => he.queue p (hq p hp), ?_, by rw [(wtrans_cl ht).1]; exact he.others⟩
    cases wtrans_wstep ht with
    | take _ _ _ _ _ _ hb => intro e; rw [e] at hb; cases hb
    | takeShutdown hh q hq0 => exact absurd rfl (he.queue (.shutdown, hh) (by rw [hq0]; exact List.mem_cons_self))
    | takeDrain _ _ _ _ _ hw => exact absurd hw he.drain
    | cont _ hb => intro e; rw [e] at hb; cases hb
    | complete _ _ hw => rw [hw]; simp
    | die _ hw => rw [hw]; simp
  | sweeper v =>
    have ht := sweeperAct_trans (stepB_sweeper_inv hs)
    obtain ⟨hw, hcl, hq, _⟩ := strans_frame ht
    exact ⟨by rw [(strans_frame2 ht).1]; exact he.flag, by rw [hcl]; exact he.noShut, by rw [hq]; exact he.queue,
      by rw [hw]; exact he.drain, by rw [hcl]; exact he.others⟩
  | consumer =>
    obtain ⟨g', rfl, hg⟩ := stepB_consumer_inv hs
    exact ⟨by show g'.shutting = false; rw [hg]; exact he.flag, he.noShut,
      by show ∀ p ∈ g'.queue, _; rw [hg]; exact he.queue, he.drain, he.others⟩
  | advance d =>
    rw [stepB_advance_inv hs]
    exact ⟨he.flag, he.noShut, he.queue, he.drain, he.others⟩

/-! ## 4  the worker's takes, exactly -/

theorem cmdOfPut_inj {c c' : PutCmd} (h : cmdOfPut c = cmdOfPut c') (hh : c.h = c'.h) : c = c' := by
  obtain ⟨id, hash, w, k, v, ttl, h1⟩ := c
  obtain ⟨id', hash', w', k', v', ttl', h1'⟩ := c'
  simp only at hh
  subst hh
  cases ttl <;> cases ttl' <;> simp only [cmdOfPut] at h <;> first | cases h; rfl | cases h

/-- where the worker stands after taking the command `cmd` with handle `hh` -/
def takeW : Cmd → Option Nat → WPc
  | .put id hash w k v, hh => .present ⟨id, hash, w, k, v, none, hh⟩
  | .putTtl id hash w k v t, hh => .present ⟨id, hash, w, k, v, some t, hh⟩
  | .updateWeight id w, hh => .update id w hh
  | .delete k, hh => .delStore k hh
  | .shutdown, _ => .drain

theorem takeW_cmdOfPut (c : PutCmd) : takeW (cmdOfPut c) c.h = .present c := by
  obtain ⟨id, hash, w, k, v, ttl, h1⟩ := c
  cases ttl <;> rfl

/-- the take of a command other than `Shutdown`: the head leaves the queue, nothing else changes -/
theorem worker_recv {b b' : BState} {o o' : Oracle} {cmd : Cmd} {hh : Option Nat} {q : List (Cmd × Option Nat)}
    (hw : b.w = .recv) (hq : b.g.queue = (cmd, hh) :: q) (hne : cmd ≠ .shutdown)
    (hs : workerAct b o = .ok (b', o')) : b' = { b with g := { b.g with queue := q }, w := takeW cmd hh } := by
  simp only [workerAct, hw, hq] at hs
  cases cmd <;> simp only [Except.ok.injEq, Prod.mk.injEq] at hs
  case shutdown => exact absurd rfl hne
  all_goals exact hs.1.symm

/-- what the worker holds after a take of a command that does not write `k` -/
theorem takeW_cmd {cmd : Cmd} {hh : Option Nat} {c : PutCmd} (h : (takeW cmd hh).cmd? = some c) : cmdKey? cmd = some c.k := by
  cases cmd <;> simp only [takeW, WPc.cmd?, Option.some.injEq, reduceCtorEq] at h <;> subst h <;> rfl

theorem takeW_delStore {cmd : Cmd} {hh hh' : Option Nat} {k : Nat} (h : takeW cmd hh = .delStore k hh') :
    cmd = .delete k ∧ hh' = hh := by
  cases cmd <;> simp only [takeW, WPc.delStore.injEq, reduceCtorEq] at h
  exact ⟨by rw [h.1], h.2.symm⟩

/-- the worker is not working on `k`: it holds no put of `k` and does not stand at the `store.remove` of a `Delete(k)` -/
def WOff (k : Nat) (w : WPc) : Prop := (∀ c, w.cmd? = some c → c.k ≠ k) ∧ (∀ hh, w ≠ .delStore k hh)

theorem woff_recv (k : Nat) : WOff k .recv := by
  constructor
  · intro c h; cases h
  · intro hh h; cases h

theorem woff_takeW {k : Nat} {cmd : Cmd} {hh : Option Nat} (h : cmdKey? cmd ≠ some k) : WOff k (takeW cmd hh) := by
  refine ⟨fun c hc e => h ?_, fun hh' e => h ?_⟩
  · rw [takeW_cmd hc, e]
  · rw [(takeW_delStore e).1]; rfl

set_option linter.unusedSimpArgs false in
/-- a worker action that is not a take keeps `WOff` -/
theorem woff_keep {k : Nat} {b b' : BState} (ht : WTrans b b') (hw : b.w ≠ .recv) (ho : WOff k b.w) : WOff k b'.w := by
  obtain ⟨h1, h2⟩ := ho
  cases ht
  case recvPut hw0 _ => exact absurd hw0 hw
  case recvUpdate hw0 _ => exact absurd hw0 hw
  case recvDelete hw0 _ => exact absurd hw0 hw
  case recvShutdown hw0 _ => exact absurd hw0 hw
  all_goals
    refine ⟨fun c hc => ?_, fun hh e => ?_⟩
    · first
        | (simp [WPc.cmd?, finishCmd, rejectCmd] at hc; done)
        | (apply h1; simp_all [WPc.cmd?, finishCmd, rejectCmd])
    · first
        | (simp [finishCmd, rejectCmd] at e; done)

/-- the positions of a `Delete` command after its `store.remove` -/
def delTail : WPc → Bool
  | .delKw _ _ _ | .delSub _ _ _ _ | .delTtl _ _ _ => true
  | _ => false

/-! ## 5  the ledger and the fresh ids under one worker action -/

/-- a worker action that is not the `kw.insert` of `id` keeps "the charge of `id`, if any, is a charge for `k`" -/
theorem wtrans_kw_key {k id : Nat} {b b' : BState} (ht : WTrans b b') (hins : ∀ c, b.w = .insert c → c.id ≠ id)
    (hk : ∀ wk, b.g.adm.kw.get? id = some wk → wk.key = k) :
    ∀ wk, b'.g.adm.kw.get? id = some wk → wk.key = k := by
  cases ht
  case insert c hw =>
    intro wk h
    simp only [] at h
    rw [AMap.get?_set_other _ _ (hins c hw)] at h
    exact hk wk h
  case evRemoveSome c e s victim wk0 hw hg =>
    intro wk h
    simp only [] at h
    rw [AMap.get?_del] at h
    split at h
    · cases h
    · exact hk wk h
  case delKwSome id' exp hh wk0 hw hg =>
    intro wk h
    simp only [] at h
    rw [AMap.get?_del] at h
    split at h
    · cases h
    · exact hk wk h
  case updateApplied id' w hh wk0 hw _ hg =>
    intro wk h
    simp only [finishCmd] at h
    rw [AMap.get?_set] at h
    split at h
    · rename_i e
      subst e
      cases h
      exact hk wk0 hg
    · exact hk wk h
  all_goals simpa [finishCmd, rejectCmd, ttlPut, ttlDelete] using hk

/-- a worker action that is not the `kw.insert` of `id` does not charge `id` -/
theorem wtrans_kw_none {id : Nat} {b b' : BState} (ht : WTrans b b') (hins : ∀ c, b.w = .insert c → c.id ≠ id)
    (hk : b.g.adm.kw.get? id = none) : b'.g.adm.kw.get? id = none := by
  cases ht
  case insert c hw =>
    simp only []
    rw [AMap.get?_set_other _ _ (hins c hw)]; exact hk
  case evRemoveSome c e s victim wk0 hw hg =>
    simp only []
    rw [AMap.get?_del]; split <;> simp [hk]
  case delKwSome id' exp hh wk0 hw hg =>
    simp only []
    rw [AMap.get?_del]; split <;> simp [hk]
  case updateApplied id' w hh wk0 hw _ hg =>
    simp only [finishCmd]
    rw [AMap.get?_set]
    split
    · rename_i e; subst e; rw [hk] at hg; cases hg
    · exact hk
  all_goals simpa [finishCmd, rejectCmd, ttlPut, ttlDelete] using hk

/-- an id that is nobody's fresh id is not the id of the put the worker is about to charge -/
theorem insert_ne_of_occ0 {b : BState} {id : Nat} (h0 : occ b id = 0) : ∀ c, b.w = .insert c → c.id ≠ id := by
  intro c hw e
  subst e
  simp [occ, hw, WPc.freshId?] at h0

/-! ## 6  removals of `k` that are not the work of a `Delete(k)`: evictions and the sweeper -/

/-- the action removes the entry of `k` from the store WITHOUT a `Delete(k)` command: the worker's `store.remove` of an
    eviction of `k` (inside another put's `create_space`), or the sweeper's `store.remove` of `k`
    (the second and third case of `Hist.isRemove`) -/
def isForeignRemove (k : Nat) (x : BState × Act) : Prop :=
  (x.2 = .worker ∧ ∃ c inc s id wk e, x.1.w = .evStore c inc s id wk ∧ wk.key = k ∧ x.1.g.store.get? k = some e) ∨
  (∃ vis now sh rest id wk e, x.2 = .sweeper vis ∧ x.1.sw = .store now sh rest id wk ∧ wk.key = k ∧
    x.1.g.store.get? k = some e ∧ e.id = id)

theorem isForeignRemove.isRemove {k : Nat} {x : BState × Act} (h : isForeignRemove k x) : isRemove k x := by
  rcases h with h | h
  · exact Or.inr (Or.inl h)
  · exact Or.inr (Or.inr (Or.inl h))

/-- an eviction / a sweep removed `k` at some action with index `≥ lo` -/
def FRSince (H : List (BState × Act)) (k lo : Nat) : Prop := ∃ n x, lo ≤ n ∧ At H n x ∧ isForeignRemove k x

theorem FRSince.mono {H : List (BState × Act)} {k lo : Nat} (y : BState × Act) (h : FRSince H k lo) :
    FRSince (y :: H) k lo := by
  obtain ⟨n, x, h1, h2, h3⟩ := h
  exact ⟨n, x, h1, (Sub.cons _ _).at h2, h3⟩

/-- the key is present, or was evicted / swept since `lo` -/
def Present (H : List (BState × Act)) (k lo : Nat) (b : BState) : Prop :=
  (∃ e, b.g.store.get? k = some e) ∨ FRSince H k lo

/-- **One action and the presence of `k`**: an action that is not the `store.remove` of a `Delete(k)` (and not
    `shutdown.store_clear`) leaves `k` present — unless it is an eviction / a sweep of `k`, which the history records. -/
theorem present_step {k lo : Nat} {H : List (BState × Act)} {b b' : BState} {a : Act} {o o' : Oracle}
    (hs : stepB b a o = .ok (b', o')) (hlo : lo ≤ H.length) (hdel : a = .worker → ∀ hh, b.w ≠ .delStore k hh)
    (hclear : ∀ j : Nat, b.cl[j]? ≠ some .shutStoreClear) (hp : Present H k lo b) : Present ((b, a) :: H) k lo b' := by
  rcases hp with ⟨e, he⟩ | hfr
  · have heff := stepB_storeEff hs
    cases heff
    case same hst => exact Or.inl ⟨e, by rw [hst]; exact he⟩
    case put c exp hw hexp _ hst =>
      by_cases hck : c.k = k
      · exact Or.inl ⟨_, by rw [hst, hck]; exact AMap.get?_set_same _ _ _⟩
      · exact Or.inl ⟨e, by rw [hst, AMap.get?_set_other _ _ hck]; exact he⟩
    case del k1 hh e1 hw he1 hst =>
      have hne : k1 ≠ k := fun e' => hdel rfl hh (e' ▸ hw)
      exact Or.inl ⟨e, by rw [hst, AMap.get?_del_other _ hne]; exact he⟩
    case evict c inc s id wk hw hst =>
      by_cases hck : wk.key = k
      · exact Or.inr ⟨H.length, (b, .worker), hlo, at_cons_self _ _, Or.inl ⟨rfl, c, inc, s, id, wk, e, hw, hck, he⟩⟩
      · exact Or.inl ⟨e, by rw [hst, AMap.get?_del_other _ hck]; exact he⟩
    case sweep v now sh rest id wk hw hm hst =>
      by_cases hck : wk.key = k
      · obtain ⟨en, hen, hid⟩ := hm
        rw [hck, he] at hen
        cases hen
        exact Or.inr ⟨H.length, (b, .sweeper v), hlo, at_cons_self _ _,
          Or.inr ⟨v, now, sh, rest, id, wk, e, rfl, hw, hck, he, hid⟩⟩
      · exact Or.inl ⟨e, by rw [hst, AMap.get?_del_other _ hck]; exact he⟩
    case mark i k1 e1 hpc he1 hst =>
      by_cases hck : k1 = k
      · exact Or.inl ⟨_, by rw [hst, hck]; exact AMap.get?_set_same _ _ _⟩
      · exact Or.inl ⟨e, by rw [hst, AMap.get?_set_other _ _ hck]; exact he⟩
    case upsert i k1 v w ttl rm e1 exp hpc he1 hexp hst =>
      by_cases hck : k1 = k
      · exact Or.inl ⟨_, by rw [hst, hck]; exact AMap.get?_set_same _ _ _⟩
      · exact Or.inl ⟨e, by rw [hst, AMap.get?_set_other _ _ hck]; exact he⟩
    case clear i hpc hst => exact absurd hpc (hclear i)
  · exact Or.inr (hfr.mono _)

/-- an action that is not the `store.put` of a put of `k` leaves `k` absent -/
theorem absent_step {k : Nat} {b b' : BState} {a : Act} {o o' : Oracle} (hs : stepB b a o = .ok (b', o'))
    (hput : ∀ c, b.w = .storePut c → c.k ≠ k) (hk : b.g.store.get? k = none) : b'.g.store.get? k = none := by
  have heff := stepB_storeEff hs
  cases heff
  case same hst => rw [hst]; exact hk
  case put c exp hw _ _ hst => rw [hst, AMap.get?_set_other _ _ (hput c hw)]; exact hk
  case del k' hh e hw he hst => rw [hst, AMap.get?_del]; split <;> simp [hk]
  case evict c inc s id wk hw hst => rw [hst, AMap.get?_del]; split <;> simp [hk]
  case sweep v now sh rest id wk hw hm hst => rw [hst, AMap.get?_del]; split <;> simp [hk]
  case mark i k' e hpc he hst =>
    rw [hst, AMap.get?_set]; split
    · rename_i hkk; subst hkk; rw [hk] at he; cases he
    · exact hk
  case upsert i k' v w ttl rm e exp hpc he hx hst =>
    rw [hst, AMap.get?_set]; split
    · rename_i hkk; subst hkk; rw [hk] at he; cases he
    · exact hk
  case clear i hpc hst => rw [hst]; rfl

/-! ## 7  what an action of a thread other than the worker does -/

/-- One action of a thread other than the worker, taken in the environment: the worker stands still; the queue grows by
    `x` (nothing, or the one command a client sends); no acknowledgement cell changes; no key id is charged; no id below
    the counter becomes fresh. -/
structure OtherEff (x : List (Cmd × Option Nat)) (b b' : BState) : Prop where
  w : b'.w = b.w
  queue : b'.g.queue = b.g.queue ++ x
  acks : ∀ (h : Nat) (st : Status), b.g.acks[h]? = some st → b'.g.acks[h]? = some st
  kw : ∀ id wk, b'.g.adm.kw.get? id = some wk → b.g.adm.kw.get? id = some wk
  occLe : ∀ f, f < b.g.nextId → occ b' f ≤ occ b f
  nextLe : b.g.nextId ≤ b'.g.nextId

theorem other_eff {i k : Nat} {b b' : BState} {a : Act} {o o' : Oracle} (he : Env i k b)
    (hs : stepB b a o = .ok (b', o')) (ha : a ≠ .worker) :
    ∃ x, OtherEff x b b' ∧
      (x = [] ∨ ∃ j cmd, a = .client j ∧ b.cl[j]? = some (.send cmd) ∧ x = [(cmd, some b.g.acks.length)] ∧
        b'.g.acks = b.g.acks ++ [.pending]) := by
  cases a with
  | worker => exact absurd rfl ha
  | issue j r =>
    obtain ⟨hidle, rfl⟩ := stepB_issue_inv hs
    have hi : issue b j r = .ok (setClient b j (.start r)) := by simp [issue, hidle]
    exact ⟨[], ⟨rfl, by simp [setClient], fun _ _ h => h, fun _ _ h => h, fun f _ => issue_occ hi f, Nat.le_refl _⟩,
      Or.inl rfl⟩
  | client j =>
    simp only [stepB] at hs
    have ht := clientAct_trans hs
    have hacks : ∀ (h : Nat) (st : Status), b.g.acks[h]? = some st → b'.g.acks[h]? = some st := by
      intro h st hst
      rcases ctrans_cstep ht with ⟨_, hacks⟩ | ⟨_, _, hacks⟩ | ⟨_, _, _, hacks⟩ | ⟨_, _, _, hacks⟩
      · rw [hacks]; exact hst
      · rw [hacks]; exact getElem?_append_some _ hst
      · rw [hacks]; exact getElem?_append_some _ hst
      · rw [hacks]; exact hst
    have hkw : ∀ id wk, b'.g.adm.kw.get? id = some wk → b.g.adm.kw.get? id = some wk := by
      intro id wk hg
      rcases ctrans_adm ht with h1 | ⟨pc0, hpc0, hac, _⟩
      · rw [h1] at hg; exact hg
      · have := he.noShut j pc0 hpc0
        rw [shutPath_of_afterCas hac] at this; cases this
    rcases env_client_queue he hs with hq | ⟨cmd, hsend, _, hq, hpend⟩
    · exact ⟨[], ⟨(ctrans_frame ht).1, by simp [hq], hacks, hkw, fun f hf => ctrans_occ ht f hf, ctrans_nextId ht⟩,
        Or.inl rfl⟩
    · exact ⟨_, ⟨(ctrans_frame ht).1, hq, hacks, hkw, fun f hf => ctrans_occ ht f hf, ctrans_nextId ht⟩,
        Or.inr ⟨j, cmd, rfl, hsend, rfl, hpend⟩⟩
  | sweeper v =>
    have ht := sweeperAct_trans (stepB_sweeper_inv hs)
    obtain ⟨hw, hcl', hq, hn, _⟩ := strans_frame ht
    refine ⟨[], ⟨hw, by simp [hq], ?_, fun id wk hg => strans_kw ht id wk hg,
      fun f _ => Nat.le_of_eq (occ_congr hq hcl' hw f), Nat.le_of_eq hn.symm⟩, Or.inl rfl⟩
    cases stepB_bstep hs with
    | worker ha' => cases ha'
    | client i' ha' => cases ha'
    | other _ _ _ hacks => intro h st hst; rw [hacks]; exact hst
  | consumer =>
    obtain ⟨g', rfl, hg⟩ := stepB_consumer_inv hs
    have hq : g'.queue = b.g.queue := by rw [hg]
    refine ⟨[], ⟨rfl, by simp [hq], ?_, ?_,
      fun f _ => Nat.le_of_eq (occ_congr (b' := { b with g := g' }) (b := b) hq rfl rfl f), ?_⟩, Or.inl rfl⟩
    · intro h st hst; show g'.acks[h]? = some st; rw [hg]; exact hst
    · intro id wk hk; have : g'.adm.kw.get? id = some wk := hk; rw [hg] at this; exact this
    · show b.g.nextId ≤ g'.nextId; rw [hg]; exact Nat.le_refl _
  | advance d =>
    rw [stepB_advance_inv hs]
    exact ⟨[], ⟨rfl, by simp, fun _ _ h => h, fun _ _ h => h, fun f _ => Nat.le_refl _, Nat.le_refl _⟩, Or.inl rfl⟩

/-- … by a client that is not inside a put / upsert / delete of `k`: what the queue grows by does not write `k` -/
theorem other_eff_kfree {i k : Nat} {b b' : BState} {a : Act} {o o' : Oracle} (he : Env i k b)
    (hs : stepB b a o = .ok (b', o')) (ha : a ≠ .worker)
    (hcl : ∀ j pc, a = .client j → b.cl[j]? = some pc → onK k pc = false) :
    ∃ x, OtherEff x b b' ∧ KFree k x := by
  obtain ⟨x, ho, rfl | ⟨j, cmd, rfl, hsend, rfl, _⟩⟩ := other_eff he hs ha
  · exact ⟨[], ho, KFree.nil k⟩
  · refine ⟨_, ho, KFree.one ?_⟩
    have := hcl j _ rfl hsend
    simpa [onK] using this

/-! ## 8  the worker inside ONE put command -/

set_option linter.unusedSimpArgs false in
/-- a worker action that leaves the worker busy keeps the put it is executing -/
theorem wtrans_cmd_cont {b b' : BState} {c : PutCmd} (ht : WTrans b b') (hc : b.w.cmd? = some c)
    (hb : b'.w.busy = true) : b'.w.cmd? = some c := by
  cases ht
  all_goals simp_all [WPc.cmd?, WPc.busy, finishCmd, rejectCmd]

/-- the worker arrives at `ttl.put` from `store.put` only, having stored the entry -/
theorem wtrans_to_ttlPut {b b' : BState} {c : PutCmd} {e : Nat} (h : WTrans b b') (hc : b'.w = .ttlPut c e) :
    b.w = .storePut c ∧ b'.g.adm = b.g.adm ∧
    b'.g.store = b.g.store.set c.k { value := c.v, id := c.id, expiry := some e, soft := false } := by
  cases h
  case storePutTtl c' t e' hw ht _ =>
    simp only [WPc.ttlPut.injEq] at hc; obtain ⟨rfl, rfl⟩ := hc; exact ⟨hw, rfl, rfl⟩
  all_goals simp [finishCmd, rejectCmd] at hc

theorem contains_iff {m : AMap Nat Entry} {k : Nat} : m.contains k = true ↔ ∃ e, m.get? k = some e := by
  unfold AMap.contains
  cases m.get? k <;> simp

theorem contains_false_iff {m : AMap Nat Entry} {k : Nat} : m.contains k = false ↔ m.get? k = none := by
  unfold AMap.contains
  cases m.get? k <;> simp

/-- how a put command ends (the worker back at `recv`): the answer, and what the store held / holds for the key -/
inductive PutEnd (b b' : BState) (c : PutCmd) : Status → Prop where
  | existsK (e : Entry) : b.g.store.get? c.k = some e → b'.g.store = b.g.store → b.w.pendId? = some c.id →
      PutEnd b b' c (.rejected .keyAlreadyExists)
  | tooHeavy : b.g.store.get? c.k = none → b'.g.store = b.g.store → b.w.pendId? = some c.id →
      PutEnd b b' c (.rejected .tooHeavy)
  | noSpace : b.w.applying? = some c → b'.g.store = b.g.store → b.w.pendId? = some c.id →
      PutEnd b b' c (.rejected .noSpace)
  | stored : b.w = .storePut c → c.ttl = none →
      b'.g.store = b.g.store.set c.k { value := c.v, id := c.id, expiry := none, soft := false } → PutEnd b b' c .accepted
  | indexed (e : Nat) : b.w = .ttlPut c e → b'.g.store = b.g.store → PutEnd b b' c .accepted

set_option linter.unusedSimpArgs false in
theorem put_complete {b b' : BState} {o o' : Oracle} {c : PutCmd} (hs : workerAct b o = .ok (b', o'))
    (hc : b.w.cmd? = some c) (hr : b'.w = .recv) :
    b'.g.queue = b.g.queue ∧ b'.cl = b.cl ∧ b'.g.adm.kw = b.g.adm.kw ∧ b'.g.nextId = b.g.nextId ∧
    ∃ st, b'.g.acks = setAck b.g.acks c.h st ∧ PutEnd b b' c st := by
  by_cases hp : b.w = .present c
  · obtain ⟨_, ⟨hcon, rfl⟩ | ⟨hcon, _, rfl⟩ | ⟨_, _, rfl⟩⟩ := ent_workerAct_present hp hs
    · obtain ⟨e, he⟩ := contains_iff.mp hcon
      exact ⟨rfl, rfl, rfl, rfl, _, rfl, .existsK e he rfl (by rw [hp]; rfl)⟩
    · exact ⟨rfl, rfl, rfl, rfl, _, rfl, .tooHeavy (contains_false_iff.mp hcon) rfl (by rw [hp]; rfl)⟩
    · cases hr
  · have ht := workerAct_trans hs
    cases ht
    case presentExists c' hw => rw [hw] at hc; simp only [WPc.cmd?, Option.some.injEq] at hc; subst hc; exact absurd hw hp
    case presentHeavy c' hw => rw [hw] at hc; simp only [WPc.cmd?, Option.some.injEq] at hc; subst hc; exact absurd hw hp
    case initReject c' e space hw =>
      rw [hw] at hc; simp only [WPc.cmd?, Option.some.injEq] at hc; subst hc
      exact ⟨rfl, rfl, rfl, rfl, _, rfl, .noSpace (by rw [hw]; rfl) rfl (by rw [hw]; rfl)⟩
    case fillReject c' e s space hw =>
      rw [hw] at hc; simp only [WPc.cmd?, Option.some.injEq] at hc; subst hc
      exact ⟨rfl, rfl, rfl, rfl, _, rfl, .noSpace (by rw [hw]; rfl) rfl (by rw [hw]; rfl)⟩
    case emptyReject c' hw _ =>
      rw [hw] at hc; simp only [WPc.cmd?, Option.some.injEq] at hc; subst hc
      exact ⟨rfl, rfl, rfl, rfl, _, rfl, .noSpace (by rw [hw]; rfl) rfl (by rw [hw]; rfl)⟩
    case storePutPlain c' hw httl _ =>
      rw [hw] at hc; simp only [WPc.cmd?, Option.some.injEq] at hc; subst hc
      exact ⟨rfl, rfl, rfl, rfl, _, rfl, .stored hw httl rfl⟩
    case ttlPut c' e hw _ =>
      rw [hw] at hc; simp only [WPc.cmd?, Option.some.injEq] at hc; subst hc
      exact ⟨rfl, rfl, rfl, rfl, _, rfl, .indexed e hw rfl⟩
    all_goals first
      | (exfalso; simp_all [WPc.cmd?, finishCmd, rejectCmd]; done)

/-- after the worker has finished the put `c`, the id of `c` is nobody's fresh id any more -/
theorem occ_after_complete {b b' : BState} {c : PutCmd} (hb : BInv b) (hc : b.w.cmd? = some c) (hr : b'.w = .recv)
    (hq : b'.g.queue = b.g.queue) (hcl : b'.cl = b.cl) : occ b' c.id = 0 ∧ c.id < b.g.nextId := by
  have h1 : occ b' c.id = qc b c.id := by
    rw [occ_eq, hr, qc_congr hq hcl]; simp [WPc.freshId?]
  by_cases hf : b.w.freshId? = some c.id
  · have h2 := hb.freshIds.1 c.id
    have hpos : 0 < occ b c.id := by rw [occ_eq, hf]; simp
    rw [occ_eq, hf] at h2
    simp only [Option.toList_some, List.count_cons_self, List.count_nil] at h2
    exact ⟨by omega, hb.freshIds.2.1 _ hpos⟩
  · have hw : b.w.usedId? = some c.id := by
      cases hw : b.w <;> simp_all [WPc.cmd?, WPc.freshId?, WPc.usedId?]
    have hu : c.id ∈ usedIds b := mem_usedIds.mpr (Or.inr (Or.inr (Or.inr (Or.inr hw))))
    obtain ⟨h0, hlt⟩ := hb.freshIds.2.2.2.2.1 c.id hu
    rw [occ_eq] at h0
    exact ⟨by omega, hlt⟩

/-! ## 9  the invariant of the un-awaited `put(k); delete(k)` -/

/-- the part of the queue BEHIND the put's command: before the `Delete(k)` is sent nothing in it writes `k`; afterwards
    it is `qb ++ Delete(k) :: qc` with nothing in `qb`, `qc` writing `k` -/
def RestOk (k : Nat) : Option Nat → List (Cmd × Option Nat) → Prop
  | none, rest => KFree k rest
  | some h₂, rest => ∃ qb qc, rest = qb ++ (Cmd.delete k, some h₂) :: qc ∧ KFree k qb ∧ KFree k qc

theorem RestOk.append {k : Nat} {ds : Option Nat} {rest x : List (Cmd × Option Nat)} (h : RestOk k ds rest)
    (hx : KFree k x) : RestOk k ds (rest ++ x) := by
  cases ds with
  | none => exact KFree.append h hx
  | some h₂ =>
    obtain ⟨qb, qc, rfl, h1, h2⟩ := h
    exact ⟨qb, qc ++ x, by simp, h1, KFree.append h2 hx⟩

/-- the answers a put can get, sorted by whether the key is in the store right after the command: `Accepted` (the put
    stored it) and `KeyAlreadyExists` (an older entry is there) — or not: `KeyWeightIsGreaterThanCacheWeight`,
    `EnoughSpaceIsNotAvailable…` -/
def OutOf (pres : Bool) (st : Status) : Prop :=
  (pres = true ∧ (st = .accepted ∨ st = .rejected .keyAlreadyExists)) ∨
  (pres = false ∧ (st = .rejected .tooHeavy ∨ st = .rejected .noSpace))

theorem OutOf.ne_pending {pres : Bool} {st : Status} (h : OutOf pres st) : st ≠ .pending := by
  rcases h with ⟨_, rfl | rfl⟩ | ⟨_, rfl | rfl⟩ <;> simp

/-- what is known once the put's command has been answered (`lo`: the index of the worker action that decided the
    presence of the key: the `store.put` of an accepted put, the re-check of a put refused as existing) -/
structure PutDone (k h₁ : Nat) (c₁ : PutCmd) (H : List (BState × Act)) (pres : Bool) (lo : Nat) (b : BState) : Prop where
  ack : ∃ st, b.g.acks[h₁]? = some st ∧ OutOf pres st
  born : b.g.acks[h₁]? = some .accepted → PutPoint H lo k c₁.id
  lo : lo ≤ H.length
  key : ∀ wk, b.g.adm.kw.get? c₁.id = some wk → wk.key = k
  occ0 : occ b c₁.id = 0
  idlt : c₁.id < b.g.nextId

theorem putPoint_mono {H : List (BState × Act)} {n k id : Nat} (y : BState × Act) (h : PutPoint H n k id) :
    PutPoint (y :: H) n k id := by
  obtain ⟨x, v, h1, h2⟩ := h
  exact ⟨x, v, (Sub.cons _ _).at h1, h2⟩

theorem PutDone.lift {k h₁ : Nat} {c₁ : PutCmd} {H : List (BState × Act)} {pres : Bool} {lo : Nat} {b b' : BState}
    (y : BState × Act) (hp : PutDone k h₁ c₁ H pres lo b)
    (hacks : ∀ st, b.g.acks[h₁]? = some st → st ≠ .pending → b'.g.acks[h₁]? = some st)
    (hkey : (∀ wk, b.g.adm.kw.get? c₁.id = some wk → wk.key = k) → ∀ wk, b'.g.adm.kw.get? c₁.id = some wk → wk.key = k)
    (hocc : occ b' c₁.id ≤ occ b c₁.id) (hnext : b.g.nextId ≤ b'.g.nextId) :
    PutDone k h₁ c₁ (y :: H) pres lo b' := by
  obtain ⟨st, hst, ho⟩ := hp.ack
  have hst' := hacks st hst ho.ne_pending
  refine ⟨⟨st, hst', ho⟩, ?_, ?_, hkey hp.key, ?_, ?_⟩
  · intro ha
    rw [hst'] at ha
    exact putPoint_mono y (hp.born (by rw [hst, ha]))
  · have := hp.lo; simp only [List.length_cons]; omega
  · have := hp.occ0; omega
  · have := hp.idlt; omega

/-- what the store holds for `k` after the put's command, until the `Delete`'s `store.remove` has run -/
def PresAt (H : List (BState × Act)) (k lo : Nat) (b : BState) : Bool → Prop
  | true => Present H k lo b
  | false => b.g.store.get? k = none

/-- the worker's `store.remove` of the `Delete(k)` command with handle `h₂` is the `d`-th action -/
def DelAt (H : List (BState × Act)) (d k h₂ : Nat) : Prop := ∃ sd, At H d (sd, .worker) ∧ sd.w = .delStore k (some h₂)

theorem DelAt.mono {H : List (BState × Act)} {d k h₂ : Nat} (y : BState × Act) (h : DelAt H d k h₂) : DelAt (y :: H) d k h₂ := by
  obtain ⟨sd, h1, h2⟩ := h
  exact ⟨sd, (Sub.cons _ _).at h1, h2⟩

/-- an eviction / a sweep removed `k` at an action with index in `[lo, hi)` -/
def FRBetween (H : List (BState × Act)) (k lo hi : Nat) : Prop :=
  ∃ n x, lo ≤ n ∧ n < hi ∧ At H n x ∧ isForeignRemove k x

theorem FRBetween.mono {H : List (BState × Act)} {k lo hi : Nat} (y : BState × Act) (h : FRBetween H k lo hi) :
    FRBetween (y :: H) k lo hi := by
  obtain ⟨n, x, h1, h2, h3, h4⟩ := h
  exact ⟨n, x, h1, h2, (Sub.cons _ _).at h3, h4⟩

/-- the answer of the `Delete(k)`, given what the store held after the put (`d`: the index of its `store.remove`):
    the key was there (`pres`) — `Accepted`, unless an eviction / a sweep took it away in between
    (`KeyDoesNotExist`, and the history holds that removal); the key was not there — `KeyDoesNotExist` -/
def DelRes (H : List (BState × Act)) (k lo d : Nat) (pres : Bool) (st₂ : Status) : Prop :=
  (pres = true ∧ (st₂ = .accepted ∨ (st₂ = .rejected .keyDoesNotExist ∧ FRBetween H k lo d))) ∨
  (pres = false ∧ st₂ = .rejected .keyDoesNotExist)

theorem DelRes.mono {H : List (BState × Act)} {k lo d : Nat} {pres : Bool} {st₂ : Status} (y : BState × Act)
    (h : DelRes H k lo d pres st₂) : DelRes (y :: H) k lo d pres st₂ := by
  rcases h with ⟨h1, h2 | ⟨h2, h3⟩⟩ | h
  · exact Or.inl ⟨h1, Or.inl h2⟩
  · exact Or.inl ⟨h1, Or.inr ⟨h2, h3.mono y⟩⟩
  · exact Or.inr h

theorem DelRes.ne_pending {H : List (BState × Act)} {k lo d : Nat} {pres : Bool} {st₂ : Status}
    (h : DelRes H k lo d pres st₂) : st₂ ≠ .pending := by
  rcases h with ⟨_, rfl | ⟨rfl, _⟩⟩ | ⟨_, rfl⟩ <;> simp

/-- the put's `ttl.put` window: the entry is stored (or already evicted / swept again), the id is charged for `k` -/
def TtlWin (k : Nat) (c₁ : PutCmd) (H : List (BState × Act)) (b : BState) : Prop :=
  ∀ e, b.w = .ttlPut c₁ e → ∃ lo, lo ≤ H.length ∧ Present H k lo b ∧ PutPoint H lo k c₁.id ∧
    ∀ wk, b.g.adm.kw.get? c₁.id = some wk → wk.key = k

/-- **EARLY**: the `Delete(k)` has not run its `store.remove` yet (`ds`: its handle, once it is sent).
    `pq` the put's command waits; `pw` the worker executes it; `pd` it is answered, the worker is not working on `k`;
    `dw0` the worker has taken the `Delete(k)` and stands at its `store.remove`. -/
inductive PDE (k h₁ : Nat) (c₁ : PutCmd) (H : List (BState × Act)) (ds : Option Nat) (b : BState) : Prop where
  | pq (qa rest : List (Cmd × Option Nat)) : b.g.queue = qa ++ (cmdOfPut c₁, some h₁) :: rest → RestOk k ds rest →
      PDE k h₁ c₁ H ds b
  | pw : b.w.cmd? = some c₁ → RestOk k ds b.g.queue → TtlWin k c₁ H b → PDE k h₁ c₁ H ds b
  | pd (pres : Bool) (lo : Nat) : PutDone k h₁ c₁ H pres lo b → PresAt H k lo b pres → WOff k b.w →
      RestOk k ds b.g.queue → PDE k h₁ c₁ H ds b
  | dw0 (h₂ : Nat) (pres : Bool) (lo : Nat) : ds = some h₂ → PutDone k h₁ c₁ H pres lo b → PresAt H k lo b pres →
      b.w = .delStore k (some h₂) → KFree k b.g.queue → PDE k h₁ c₁ H ds b

/-- **LATE**: the `Delete(k)` has run its `store.remove` (the `d`-th action): the key is absent.
    `dw1` the worker is still inside the command (`kw.remove`, `wu.sub`, `ttl.delete`); `dd` it is answered. -/
inductive PDL (k h₁ : Nat) (c₁ : PutCmd) (H : List (BState × Act)) (h₂ : Nat) (b : BState) : Prop where
  | dw1 (lo d : Nat) : PutDone k h₁ c₁ H true lo b → DelAt H d k h₂ → lo ≤ d → b.w.held = some h₂ → delTail b.w = true →
      KFree k b.g.queue → b.g.store.get? k = none → PDL k h₁ c₁ H h₂ b
  | dd (pres : Bool) (lo d : Nat) (st₂ : Status) : PutDone k h₁ c₁ H pres lo b → DelAt H d k h₂ → lo ≤ d →
      b.g.acks[h₂]? = some st₂ → DelRes H k lo d pres st₂ → KFree k b.g.queue → WOff k b.w →
      b.g.store.get? k = none → b.g.adm.kw.get? c₁.id = none → PDL k h₁ c₁ H h₂ b

theorem env_no_clear {i k : Nat} {b : BState} (he : Env i k b) : ∀ j : Nat, b.cl[j]? ≠ some .shutStoreClear := by
  intro j h
  have := he.noShut j _ h
  simp [shutPath, CPc.afterCas] at this

theorem woff_storePut {k : Nat} {w : WPc} (h : WOff k w) : ∀ c, w = .storePut c → c.k ≠ k :=
  fun c hw => h.1 c (by rw [hw]; rfl)

theorem PutDone.other {k h₁ : Nat} {c₁ : PutCmd} {H : List (BState × Act)} {pres : Bool} {lo : Nat} {b b' : BState}
    {x : List (Cmd × Option Nat)} (y : BState × Act) (hp : PutDone k h₁ c₁ H pres lo b) (ho : OtherEff x b b') :
    PutDone k h₁ c₁ (y :: H) pres lo b' :=
  hp.lift y (fun st h _ => ho.acks h₁ st h) (fun hk wk h => hk wk (ho.kw _ wk h)) (ho.occLe _ hp.idlt) ho.nextLe

/-- EARLY under an action of a thread other than the worker by which the queue grows by `x`; `ds ↦ ds'`: either the
    `Delete(k)` is not what is sent (`x` does not write `k`), or it is exactly what is sent -/
theorem pde_other_gen {i k h₁ : Nat} {c₁ : PutCmd} {H : List (BState × Act)} {ds ds' : Option Nat} {b b' : BState}
    {a : Act} {o o' : Oracle} {x : List (Cmd × Option Nat)} (he : Env i k b) (hs : stepB b a o = .ok (b', o'))
    (ha : a ≠ .worker) (ho : OtherEff x b b') (hrx : ∀ rest, RestOk k ds rest → RestOk k ds' (rest ++ x))
    (hdx : ∀ h₂, ds = some h₂ → ds' = some h₂ ∧ KFree k x) (hi : PDE k h₁ c₁ H ds b) :
    PDE k h₁ c₁ ((b, a) :: H) ds' b' := by
  have hqx := ho.queue
  have hnw : a = .worker → ∀ hh, b.w ≠ .delStore k hh := fun e => absurd e ha
  cases hi with
  | pq qa rest hq hrest =>
    exact .pq qa (rest ++ x) (by rw [hqx, hq]; simp) (hrx _ hrest)
  | pw hc hrest httl =>
    refine .pw (by rw [ho.w]; exact hc) (by rw [hqx]; exact hrx _ hrest) ?_
    intro e hw
    rw [ho.w] at hw
    obtain ⟨lo, h1, h2, h3, h4⟩ := httl e hw
    exact ⟨lo, by simp only [List.length_cons]; omega, present_step hs h1 hnw (env_no_clear he) h2, putPoint_mono _ h3,
      fun wk h => h4 wk (ho.kw _ wk h)⟩
  | pd pres lo hp hpres hoff hrest =>
    refine .pd pres lo (hp.other _ ho) ?_ (by rw [ho.w]; exact hoff) (by rw [hqx]; exact hrx _ hrest)
    cases pres with
    | true => exact present_step hs hp.lo hnw (env_no_clear he) hpres
    | false => exact absent_step hs (woff_storePut hoff) hpres
  | dw0 h₂ pres lo hds hp hpres hw hkf =>
    obtain ⟨hds', hkx⟩ := hdx h₂ hds
    refine .dw0 h₂ pres lo hds' (hp.other _ ho) ?_ (by rw [ho.w]; exact hw) (by rw [hqx]; exact hkf.append hkx)
    cases pres with
    | true => exact present_step hs hp.lo hnw (env_no_clear he) hpres
    | false => exact absent_step hs (fun c hc => by rw [hw] at hc; cases hc) hpres

/-- **EARLY is kept by every action of a thread other than the worker** (taken in the environment, by a client that
    is not inside a put / upsert / delete of `k`). -/
theorem pde_other {i k h₁ : Nat} {c₁ : PutCmd} {H : List (BState × Act)} {ds : Option Nat} {b b' : BState} {a : Act}
    {o o' : Oracle} (he : Env i k b) (hs : stepB b a o = .ok (b', o')) (ha : a ≠ .worker)
    (hcl : ∀ j pc, a = .client j → b.cl[j]? = some pc → onK k pc = false) (hi : PDE k h₁ c₁ H ds b) :
    PDE k h₁ c₁ ((b, a) :: H) ds b' := by
  obtain ⟨x, ho, hkx⟩ := other_eff_kfree he hs ha hcl
  exact pde_other_gen he hs ha ho (fun rest h => h.append hkx) (fun h₂ h => ⟨h, hkx⟩) hi

/-- **LATE is kept by every action of a thread other than the worker.** -/
theorem pdl_other {i k h₁ : Nat} {c₁ : PutCmd} {H : List (BState × Act)} {h₂ : Nat} {b b' : BState} {a : Act}
    {o o' : Oracle} (he : Env i k b) (hs : stepB b a o = .ok (b', o')) (ha : a ≠ .worker)
    (hcl : ∀ j pc, a = .client j → b.cl[j]? = some pc → onK k pc = false) (hi : PDL k h₁ c₁ H h₂ b) :
    PDL k h₁ c₁ ((b, a) :: H) h₂ b' := by
  obtain ⟨x, ho, hkx⟩ := other_eff_kfree he hs ha hcl
  have hqx := ho.queue
  cases hi with
  | dw1 lo d hp hd hlod hheld htail hkf hnone =>
    exact .dw1 lo d (hp.other _ ho) (hd.mono _) hlod (by rw [ho.w]; exact hheld) (by rw [ho.w]; exact htail)
      (by rw [hqx]; exact hkf.append hkx)
      (absent_step hs (fun c hc => by rw [hc] at htail; cases htail) hnone)
  | dd pres lo d st₂ hp hd hlod hack hres hkf hoff hnone hkw =>
    refine .dd pres lo d st₂ (hp.other _ ho) (hd.mono _) hlod (ho.acks _ _ hack) (hres.mono _)
      (by rw [hqx]; exact hkf.append hkx) (by rw [ho.w]; exact hoff) (absent_step hs (woff_storePut hoff) hnone) ?_
    cases hg : b'.g.adm.kw.get? c₁.id with
    | none => rfl
    | some wk => rw [ho.kw _ wk hg] at hkw; cases hkw

/-! ## 10  the worker's actions and the invariant -/

theorem held_of_cmd {w : WPc} {c : PutCmd} (h : w.cmd? = some c) : w.held = c.h := by
  cases w <;> simp only [WPc.cmd?, Option.some.injEq, reduceCtorEq] at h <;> subst h <;> rfl

/-- a worker action from a position inside a command leaves the queue alone (unless the worker dies) -/
theorem worker_busy_queue {b b' : BState} (ht : WTrans b b') (h1 : b.w ≠ .recv) (h2 : b.w ≠ .drain) (h3 : b'.w ≠ .dead) :
    b'.g.queue = b.g.queue := by
  cases wtrans_wstep ht with
  | take _ _ _ _ _ hw => exact absurd hw h1
  | takeShutdown _ _ _ _ hw => exact absurd hw h1
  | takeDrain _ _ _ _ _ hw => exact absurd hw h2
  | cont _ _ _ hq => exact hq
  | complete _ _ _ hq => exact hq
  | die _ hw => exact absurd hw h3

theorem PutDone.worker {k h₁ : Nat} {c₁ : PutCmd} {H : List (BState × Act)} {pres : Bool} {lo : Nat} {b b' : BState}
    {o o' : Oracle} (hp : PutDone k h₁ c₁ H pres lo b) (hh : HInv b) (hs : stepB b .worker o = .ok (b', o')) :
    PutDone k h₁ c₁ ((b, .worker) :: H) pres lo b' := by
  have ht := workerAct_trans (by simpa [stepB] using hs)
  exact hp.lift _ (fun st h hne => (C11_layerB_acks_grow hh hs).2 h₁ st h hne)
    (wtrans_kw_key ht (insert_ne_of_occ0 hp.occ0)) (wtrans_occ ht _) (Nat.le_of_eq (wtrans_nextId ht).symm)

/-- one worker action from a position that is not aimed at `k`, and what the store holds for `k` -/
theorem presAt_worker {i k lo : Nat} {H : List (BState × Act)} {pres : Bool} {b b' : BState} {o o' : Oracle}
    (he : Env i k b) (hs : stepB b .worker o = .ok (b', o')) (hlo : lo ≤ H.length) (hoff : WOff k b.w)
    (hp : PresAt H k lo b pres) : PresAt ((b, .worker) :: H) k lo b' pres := by
  cases pres with
  | true => exact present_step hs hlo (fun _ => hoff.2) (env_no_clear he) hp
  | false => exact absent_step hs (woff_storePut hoff) hp

/-- with the worker at rest: an id charged only for `k` is not charged when `k` is absent (`BBij`: charged ⇒ held) -/
theorem kw_none_of_bij {b : BState} {k id : Nat} (hbij : BBij b) (hr : b.w = .recv)
    (hkey : ∀ wk, b.g.adm.kw.get? id = some wk → wk.key = k) (hnone : b.g.store.get? k = none) :
    b.g.adm.kw.get? id = none := by
  cases h : b.g.adm.kw.get? id with
  | none => rfl
  | some wk =>
    exfalso
    rcases hbij.chargedHeld (by rw [hr]; simp) id wk h with ⟨e, he, _⟩ | ⟨c, hput, _⟩ | hdel
    · rw [hkey wk h, hnone] at he; cases he
    · rw [hr] at hput; simp [WPc.putting?] at hput
    · rw [hr] at hdel; simp [WPc.deleting?] at hdel

set_option linter.unusedSimpArgs false in
theorem delTail_cont {b b' : BState} (ht : WTrans b b') (h : delTail b.w = true) (hb : b'.w.busy = true) :
    delTail b'.w = true := by
  cases ht
  all_goals simp_all [delTail, WPc.busy, finishCmd, rejectCmd]

set_option linter.unusedSimpArgs false in
theorem delTail_complete {b b' : BState} (ht : WTrans b b') (h : delTail b.w = true) (hb : b'.w.busy = false)
    (hd : b'.w ≠ .dead) :
    b'.w = .recv ∧ b'.g.acks = setAck b.g.acks b.w.held .accepted ∧ b'.g.queue = b.g.queue ∧ b'.g.store = b.g.store := by
  cases ht
  all_goals simp_all [delTail, WPc.busy, WPc.held, finishCmd, rejectCmd, ttlDelete]

theorem delTail_store {b b' : BState} (ht : WTrans b b') (h : delTail b.w = true) : b'.g.store = b.g.store :=
  ent_wtrans_store_same ht (fun c hc => by rw [hc] at h; cases h) (fun k hh hc => by rw [hc] at h; cases h)
    (fun c e s i wk hc => by rw [hc] at h; cases h)

theorem present_same {H : List (BState × Act)} {k lo : Nat} {b b' : BState} (y : BState × Act)
    (hst : b'.g.store = b.g.store) (hp : Present H k lo b) : Present (y :: H) k lo b' := by
  rcases hp with ⟨e, he⟩ | h
  · exact Or.inl ⟨e, by rw [hst]; exact he⟩
  · exact Or.inr (h.mono y)

theorem worker_done_recv {b b' : BState} (ht : WTrans b b') (h1 : b.w.busy = true) (h2 : ¬ b'.w.busy = true)
    (h3 : b'.w ≠ .dead) : b'.w = .recv := by
  cases wtrans_wstep ht with
  | take _ _ _ _ _ hw => rw [hw] at h1; cases h1
  | takeShutdown _ _ _ _ hw => rw [hw] at h1; cases h1
  | takeDrain _ _ _ _ _ hw => rw [hw] at h1; cases h1
  | cont _ hb => exact absurd hb h2
  | complete _ _ hw => exact hw
  | die _ hw => exact absurd hw h3

theorem busy_of_cmd {w : WPc} {c : PutCmd} (h : w.cmd? = some c) : w.busy = true := by
  cases w <;> simp_all [WPc.cmd?, WPc.busy]

theorem busy_of_delTail {w : WPc} (h : delTail w = true) : w.busy = true := by
  cases w <;> simp_all [delTail, WPc.busy]

/-- **EARLY under a worker action**: it stays EARLY, or the action is the `store.remove` of the `Delete(k)` and it
    becomes LATE. -/
theorem pde_worker {i k h₁ : Nat} {c₁ : PutCmd} {H : List (BState × Act)} {ds : Option Nat} {b b' : BState}
    {o o' : Oracle} (hck : c₁.k = k) (hch : c₁.h = some h₁) (he : Env i k b) (hb : BInv b) (hwa : WAbsent b)
    (hh : HInv b) (hbij : BBij b) (hbij' : BBij b') (hs : stepB b .worker o = .ok (b', o')) (hd : b'.w ≠ .dead)
    (hi : PDE k h₁ c₁ H ds b) :
    PDE k h₁ c₁ ((b, .worker) :: H) ds b' ∨ ∃ h₂, ds = some h₂ ∧ PDL k h₁ c₁ ((b, .worker) :: H) h₂ b' := by
  have hsw : workerAct b o = .ok (b', o') := hs
  have ht := workerAct_trans hsw
  cases hi with
  | pq qa rest hq hrest =>
    left
    by_cases hrecv : b.w = .recv
    · cases qa with
      | nil =>
        simp only [List.nil_append] at hq
        have hb' := worker_recv hrecv hq (cmdOfPut_ne_shutdown c₁) hsw
        have htw : takeW (cmdOfPut c₁) (some h₁) = .present c₁ := by rw [← hch]; exact takeW_cmdOfPut c₁
        rw [htw] at hb'
        subst hb'
        exact .pw rfl hrest (fun e hw => by cases hw)
      | cons x qa' =>
        obtain ⟨cmd, hx⟩ := x
        simp only [List.cons_append] at hq
        have hne : cmd ≠ .shutdown := he.queue (cmd, hx) (by rw [hq]; exact List.mem_cons_self)
        have hb' := worker_recv hrecv hq hne hsw
        subst hb'
        exact .pq qa' rest rfl hrest
    · have hq' := worker_busy_queue ht hrecv he.drain hd
      exact .pq qa rest (by rw [hq']; exact hq) hrest
  | pw hc hrest httl =>
    left
    have hheld : b.w.held = some h₁ := by rw [held_of_cmd hc, hch]
    have hbusy : b.w.busy = true := busy_of_cmd hc
    have hrecv : b.w ≠ .recv := fun e => by rw [e] at hc; cases hc
    have hq' := worker_busy_queue ht hrecv he.drain hd
    by_cases hb' : b'.w.busy = true
    · refine .pw (wtrans_cmd_cont ht hc hb') (by rw [hq']; exact hrest) ?_
      intro e hw'
      obtain ⟨hw, hadm, hst⟩ := wtrans_to_ttlPut ht hw'
      obtain ⟨_, _, ⟨_, rfl⟩ | ⟨t, _, _, rfl⟩ | ⟨t, e', httl', hadd, rfl⟩⟩ := ent_workerAct_storePut hw hsw
      · simp [finishCmd] at hw'
      · cases hw'
      · refine ⟨H.length, by simp, Or.inl ⟨_, by simp only []; rw [hck]; exact AMap.get?_set_same _ _ _⟩, ?_, ?_⟩
        · exact ⟨(b, .worker), c₁.v, at_cons_self _ _, rfl, c₁, some e', hw, hck, rfl, rfl,
            by simp [putExpiry, httl', hadd]⟩
        · intro wk hg
          obtain ⟨wk0, hg0, hk0⟩ := hbij.putCharged c₁ (by rw [hw]; rfl)
          simp only [] at hg
          rw [hg0] at hg; cases hg; rw [hk0, hck]
    · have hr : b'.w = .recv := worker_done_recv ht hbusy hb' hd
      obtain ⟨hq2, hcl2, hkw2, hn2, st, hacks, hend⟩ := put_complete hsw hc hr
      obtain ⟨hocc0, hidlt⟩ := occ_after_complete hb hc hr hq2 hcl2
      have hlt : h₁ < b.g.acks.length := hh.lt_held hheld
      have hack : b'.g.acks[h₁]? = some st := by rw [hacks, hch]; exact setAck_get_self _ _ hlt
      have hidlt' : c₁.id < b'.g.nextId := by rw [hn2]; exact hidlt
      have hoff : WOff k b'.w := by rw [hr]; exact woff_recv k
      have hrest' : RestOk k ds b'.g.queue := by rw [hq2]; exact hrest
      cases hend with
      | existsK e hek hst hpend =>
        have hkn : b.g.adm.kw.get? c₁.id = none := hb.freshIds.2.2.2.1 _ hpend
        refine .pd true H.length ⟨⟨_, hack, Or.inl ⟨rfl, Or.inr rfl⟩⟩, ?_, by simp, ?_, hocc0, hidlt'⟩ ?_ hoff hrest'
        · intro ha; rw [hack] at ha; cases ha
        · intro wk hg; rw [hkw2, hkn] at hg; cases hg
        · exact Or.inl ⟨e, by rw [hst, ← hck]; exact hek⟩
      | tooHeavy hnone hst hpend =>
        have hkn : b.g.adm.kw.get? c₁.id = none := hb.freshIds.2.2.2.1 _ hpend
        refine .pd false H.length ⟨⟨_, hack, Or.inr ⟨rfl, Or.inl rfl⟩⟩, ?_, by simp, ?_, hocc0, hidlt'⟩ ?_ hoff hrest'
        · intro ha; rw [hack] at ha; cases ha
        · intro wk hg; rw [hkw2, hkn] at hg; cases hg
        · show b'.g.store.get? k = none
          rw [hst, ← hck]; exact hnone
      | noSpace happ hst hpend =>
        have hkn : b.g.adm.kw.get? c₁.id = none := hb.freshIds.2.2.2.1 _ hpend
        refine .pd false H.length ⟨⟨_, hack, Or.inr ⟨rfl, Or.inr rfl⟩⟩, ?_, by simp, ?_, hocc0, hidlt'⟩ ?_ hoff hrest'
        · intro ha; rw [hack] at ha; cases ha
        · intro wk hg; rw [hkw2, hkn] at hg; cases hg
        · show b'.g.store.get? k = none
          rw [hst, ← hck]; exact hwa c₁ happ
      | stored hw httl' hst =>
        obtain ⟨wk0, hg0, hk0⟩ := hbij.putCharged c₁ (by rw [hw]; rfl)
        refine .pd true H.length ⟨⟨_, hack, Or.inl ⟨rfl, Or.inl rfl⟩⟩, ?_, by simp, ?_, hocc0, hidlt'⟩ ?_ hoff hrest'
        · intro _
          exact ⟨(b, .worker), c₁.v, at_cons_self _ _, rfl, c₁, none, hw, hck, rfl, rfl, by rw [httl']; rfl⟩
        · intro wk hg; rw [hkw2, hg0] at hg; cases hg; rw [hk0, hck]
        · exact Or.inl ⟨_, by rw [hst, hck]; exact AMap.get?_set_same _ _ _⟩
      | indexed e hw hst =>
        obtain ⟨lo, hlo, hpres, hpp, hkey⟩ := httl e hw
        refine .pd true lo ⟨⟨_, hack, Or.inl ⟨rfl, Or.inl rfl⟩⟩, fun _ => putPoint_mono _ hpp,
          by simp only [List.length_cons]; omega, ?_, hocc0, hidlt'⟩ (present_same _ hst hpres) hoff hrest'
        intro wk hg; rw [hkw2] at hg; exact hkey wk hg
  | pd pres lo hp hpres hoff hrest =>
    left
    have hp' := hp.worker hh hs
    have hpres' := presAt_worker he hs hp.lo hoff hpres
    by_cases hrecv : b.w = .recv
    · cases hq : b.g.queue with
      | nil => simp [workerAct, hrecv, hq] at hsw
      | cons x q =>
        obtain ⟨cmd, hx⟩ := x
        have hne : cmd ≠ .shutdown := he.queue (cmd, hx) (by rw [hq]; exact List.mem_cons_self)
        have hb' := worker_recv hrecv hq hne hsw
        rw [hq] at hrest
        cases ds with
        | none =>
          have hkf : KFree k ((cmd, hx) :: q) := hrest
          refine .pd pres lo hp' hpres' ?_ ?_
          · rw [hb']; exact woff_takeW hkf.head
          · rw [hb']; exact hkf.tail
        | some h₂ =>
          obtain ⟨qb, qc, hqq, hkb, hkc⟩ := hrest
          cases qb with
          | nil =>
            simp only [List.nil_append, List.cons.injEq, Prod.mk.injEq] at hqq
            obtain ⟨⟨rfl, rfl⟩, rfl⟩ := hqq
            exact .dw0 h₂ pres lo rfl hp' hpres' (by rw [hb']; rfl) (by rw [hb']; exact hkc)
          | cons y qb' =>
            simp only [List.cons_append, List.cons.injEq] at hqq
            obtain ⟨rfl, rfl⟩ := hqq
            refine .pd pres lo hp' hpres' (by rw [hb']; exact woff_takeW hkb.head) ?_
            rw [hb']; exact ⟨qb', qc, rfl, hkb.tail, hkc⟩
    · exact .pd pres lo hp' hpres' (woff_keep ht hrecv hoff)
        (by rw [worker_busy_queue ht hrecv he.drain hd]; exact hrest)
  | dw0 h₂ pres lo hds hp hpres hw hkf =>
    right
    refine ⟨h₂, hds, ?_⟩
    have hp' := hp.worker hh hs
    have hheld : b.w.held = some h₂ := by rw [hw]; rfl
    have hlt := hh.lt_held hheld
    have hdel : DelAt ((b, .worker) :: H) H.length k h₂ := ⟨b, at_cons_self _ _, hw⟩
    obtain ⟨_, _, ⟨hnone, rfl⟩ | ⟨e, hsome, rfl⟩⟩ := ent_workerAct_delStore hw hsw
    · refine .dd pres lo H.length (.rejected .keyDoesNotExist) hp' hdel hp.lo
        (by simp only [finishCmd]; exact setAck_get_self _ _ hlt) ?_ hkf (woff_recv k) hnone ?_
      · cases pres with
        | true =>
          rcases hpres with ⟨e, he'⟩ | ⟨n, x, h1, h2, h3⟩
          · rw [hnone] at he'; cases he'
          · exact Or.inl ⟨rfl, Or.inr ⟨rfl, n, x, h1, h2.lt, (Sub.cons _ _).at h2, h3⟩⟩
        | false => exact Or.inr ⟨rfl, rfl⟩
      · exact kw_none_of_bij hbij' rfl hp'.key hnone
    · cases pres with
      | false =>
        have : b.g.store.get? k = none := hpres
        rw [this] at hsome; cases hsome
      | true => exact .dw1 lo H.length hp' hdel hp.lo rfl rfl hkf (by simp)

/-- **LATE is kept by every worker action.** -/
theorem pdl_worker {i k h₁ : Nat} {c₁ : PutCmd} {H : List (BState × Act)} {h₂ : Nat} {b b' : BState}
    {o o' : Oracle} (he : Env i k b) (hh : HInv b) (hbij' : BBij b') (hs : stepB b .worker o = .ok (b', o'))
    (hd : b'.w ≠ .dead) (hi : PDL k h₁ c₁ H h₂ b) : PDL k h₁ c₁ ((b, .worker) :: H) h₂ b' := by
  have hsw : workerAct b o = .ok (b', o') := hs
  have ht := workerAct_trans hsw
  cases hi with
  | dw1 lo d hp hdel hlod hheld htail hkf hnone =>
    have hp' := hp.worker hh hs
    have hst := delTail_store ht htail
    have hbusy : b.w.busy = true := busy_of_delTail htail
    by_cases hb' : b'.w.busy = true
    · obtain ⟨hheld', _, hq'⟩ := C11_layerB_keeps_handle hs hbusy hb'
      exact .dw1 lo d hp' (hdel.mono _) hlod (by rw [hheld']; exact hheld) (delTail_cont ht htail hb')
        (by rw [hq']; exact hkf) (by rw [hst]; exact hnone)
    · have hbf : b'.w.busy = false := by simpa using hb'
      obtain ⟨hr, hacks, hq', _⟩ := delTail_complete ht htail hbf hd
      have hlt := hh.lt_held hheld
      have hnone' : b'.g.store.get? k = none := by rw [hst]; exact hnone
      exact .dd true lo d .accepted hp' (hdel.mono _) hlod (by rw [hacks, hheld]; exact setAck_get_self _ _ hlt)
        (Or.inl ⟨rfl, Or.inl rfl⟩) (by rw [hq']; exact hkf) (by rw [hr]; exact woff_recv k) hnone'
        (kw_none_of_bij hbij' hr hp'.key hnone')
  | dd pres lo d st₂ hp hdel hlod hack hres hkf hoff hnone hkw =>
    have hp' := hp.worker hh hs
    have hnone' := absent_step hs (woff_storePut hoff) hnone
    have hkw' := wtrans_kw_none ht (insert_ne_of_occ0 hp.occ0) hkw
    have hack' := (C11_layerB_acks_grow hh hs).2 h₂ st₂ hack hres.ne_pending
    by_cases hrecv : b.w = .recv
    · cases hq : b.g.queue with
      | nil => simp [workerAct, hrecv, hq] at hsw
      | cons x q =>
        obtain ⟨cmd, hx⟩ := x
        have hne : cmd ≠ .shutdown := he.queue (cmd, hx) (by rw [hq]; exact List.mem_cons_self)
        have hb' := worker_recv hrecv hq hne hsw
        rw [hq] at hkf
        exact .dd pres lo d st₂ hp' (hdel.mono _) hlod hack' (hres.mono _) (by rw [hb']; exact hkf.tail)
          (by rw [hb']; exact woff_takeW hkf.head) hnone' hkw'
    · exact .dd pres lo d st₂ hp' (hdel.mono _) hlod hack' (hres.mono _)
        (by rw [worker_busy_queue ht hrecv he.drain hd]; exact hkf) (woff_keep ht hrecv hoff) hnone' hkw'

/-! ## 11  the two calls of client `i` -/

/-- client `i` stands inside its call `put_with_weight(k, v, w)` / `…_and_ttl(k, v, w, ttl)` -/
def InPut (i k v : Nat) (w : Int) (ttl : Option Nat) (b : BState) : Prop :=
  b.cl[i]? = some (.start (.putW k v w ttl)) ∨ b.cl[i]? = some (.putPresent k v w ttl) ∨
  b.cl[i]? = some (.idNext k v w ttl) ∨
  ∃ c : PutCmd, b.cl[i]? = some (.send (cmdOfPut c)) ∧ c.k = k ∧ c.v = v ∧ c.w = w ∧ c.ttl = ttl

theorem InPut.not_idle {i k v : Nat} {w : Int} {ttl : Option Nat} {b : BState} (h : InPut i k v w ttl b) :
    b.cl[i]? ≠ some .idle := by
  rcases h with h | h | h | ⟨c, h, _⟩ <;> rw [h] <;> simp

/-- the call returns `out` -/
def Ret (b b' : BState) (i : Nat) (out : Out) : Prop :=
  b'.cl[i]? = some .idle ∧ b'.res = b.res.set i (out :: b.res.getD i [])

theorem ret_finishCall {b : BState} {i : Nat} {pc : CPc} (hpc : b.cl[i]? = some pc) (g : State) (out : Out) :
    Ret b (finishCall { b with g := g } i out) i out := by
  have hlt : i < b.cl.length := lt_of_getElem?_some hpc
  exact ⟨by simp [finishCall, hlt], rfl⟩

theorem cmdOfPut_h (c : PutCmd) (hh : Option Nat) : cmdOfPut { c with h := hh } = cmdOfPut c := by
  obtain ⟨id, hash, w, k, v, ttl, h1⟩ := c
  cases ttl <;> rfl

/-- **One action of client `i` inside its put call** (cache running): the call goes on; or it returns with a pending
    acknowledgement `h = acks.length`, its command `Put(c)` enqueued at the tail with that handle; or it returns
    otherwise (answered on the spot, `Err`, panic) -/
theorem put_call_step {i k v : Nat} {w : Int} {ttl : Option Nat} {b b' : BState} {o o' : Oracle}
    (hs : clientAct b i o = .ok (b', o')) (hrun : b.g.shutting = false) (hin : InPut i k v w ttl b) :
    InPut i k v w ttl b' ∨
    ∃ out, Ret b b' i out ∧
      ((∃ c : PutCmd, c.k = k ∧ c.v = v ∧ c.w = w ∧ c.ttl = ttl ∧ c.h = some b.g.acks.length ∧
          b.cl[i]? = some (.send (cmdOfPut c)) ∧ out = .ack b.g.acks.length .pending ∧
          b'.g.queue = b.g.queue ++ [(cmdOfPut c, some b.g.acks.length)]) ∨
       ∀ h, out ≠ .ack h .pending) := by
  rcases hin with hpc | hpc | hpc | ⟨c, hpc, h1, h2, h3, h4⟩
  · have hlt : i < b.cl.length := lt_of_getElem?_some hpc
    unfold clientAct at hs
    simp only [hpc, hrun, Bool.false_eq_true, ↓reduceIte] at hs
    split at hs
    · simp only [Except.ok.injEq, Prod.mk.injEq] at hs; obtain ⟨rfl, rfl⟩ := hs
      exact Or.inr ⟨_, ret_finishCall hpc b.g _, Or.inr (fun h e => by cases e)⟩
    · simp only [Except.ok.injEq, Prod.mk.injEq] at hs; obtain ⟨rfl, rfl⟩ := hs
      exact Or.inl (Or.inr (Or.inl (by simp [setClient, hlt])))
  · have hlt : i < b.cl.length := lt_of_getElem?_some hpc
    unfold clientAct at hs
    simp only [hpc] at hs
    split at hs
    · simp only [Except.ok.injEq, Prod.mk.injEq] at hs; obtain ⟨rfl, rfl⟩ := hs
      exact Or.inr ⟨_, ret_finishCall hpc _ _, Or.inr (fun h e => by cases e)⟩
    · simp only [Except.ok.injEq, Prod.mk.injEq] at hs; obtain ⟨rfl, rfl⟩ := hs
      exact Or.inl (Or.inr (Or.inr (Or.inl (by simp [setClient, hlt]))))
  · have hlt : i < b.cl.length := lt_of_getElem?_some hpc
    unfold clientAct at hs
    simp only [hpc, Except.ok.injEq, Prod.mk.injEq] at hs; obtain ⟨rfl, rfl⟩ := hs
    refine Or.inl (Or.inr (Or.inr (Or.inr ⟨⟨b.g.nextId, b.g.cfg.hashOf k, w, k, v, ttl, none⟩, ?_, rfl, rfl, rfl, rfl⟩)))
    cases ttl <;> simp [setClient, hlt, cmdOfPut]
  · unfold clientAct at hs
    simp only [hpc] at hs
    split at hs
    · rename_i b1 hsend
      simp only [Except.ok.injEq, Prod.mk.injEq] at hs; obtain ⟨rfl, rfl⟩ := hs
      unfold sendAct at hsend
      simp only [] at hsend
      split at hsend
      · simp only [Except.ok.injEq] at hsend; subst hsend
        exact Or.inr ⟨_, ret_finishCall hpc b.g _, Or.inr (fun h e => by cases e)⟩
      · split at hsend
        · cases hsend
        · simp only [Except.ok.injEq] at hsend; subst hsend
          refine Or.inr ⟨_, ret_finishCall hpc _ _, Or.inl ⟨{ c with h := some b.g.acks.length }, h1, h2, h3, h4, rfl, ?_, rfl, ?_⟩⟩
          · rw [cmdOfPut_h]; exact hpc
          · rw [cmdOfPut_h]; rfl
    · cases hs

/-- client `i` stands inside its call `delete(k)` -/
def InDel (i k : Nat) (b : BState) : Prop :=
  b.cl[i]? = some (.start (.delete k)) ∨ b.cl[i]? = some (.delMark k) ∨ b.cl[i]? = some (.send (.delete k))

theorem InDel.not_idle {i k : Nat} {b : BState} (h : InDel i k b) : b.cl[i]? ≠ some .idle := by
  rcases h with h | h | h <;> rw [h] <;> simp

/-- **One action of client `i` inside its delete call** (cache running): the call goes on (and this action sent
    nothing); or it returns with a pending acknowledgement `h = acks.length`, `Delete(k)` enqueued at the tail with that
    handle; or it returns otherwise (`Err`) -/
theorem del_call_step {i k : Nat} {b b' : BState} {o o' : Oracle}
    (hs : clientAct b i o = .ok (b', o')) (hrun : b.g.shutting = false) (hin : InDel i k b) :
    (InDel i k b' ∧ ∀ cmd, b.cl[i]? ≠ some (.send cmd)) ∨
    ∃ out, Ret b b' i out ∧
      ((b.cl[i]? = some (.send (.delete k)) ∧ out = .ack b.g.acks.length .pending ∧
          b'.g.queue = b.g.queue ++ [(.delete k, some b.g.acks.length)]) ∨
       ∀ h, out ≠ .ack h .pending) := by
  rcases hin with hpc | hpc | hpc
  · have hlt : i < b.cl.length := lt_of_getElem?_some hpc
    unfold clientAct at hs
    simp only [hpc, hrun, Bool.false_eq_true, ↓reduceIte, Except.ok.injEq, Prod.mk.injEq] at hs; obtain ⟨rfl, rfl⟩ := hs
    exact Or.inl ⟨Or.inr (Or.inl (by simp [setClient, hlt])), fun cmd e => by rw [hpc] at e; cases e⟩
  · have hlt : i < b.cl.length := lt_of_getElem?_some hpc
    unfold clientAct at hs
    simp only [hpc] at hs
    split at hs
    · cases hs
    · simp only [Except.ok.injEq, Prod.mk.injEq] at hs; obtain ⟨rfl, rfl⟩ := hs
      exact Or.inl ⟨Or.inr (Or.inr (by simp [setClient, hlt])), fun cmd e => by rw [hpc] at e; cases e⟩
  · unfold clientAct at hs
    simp only [hpc] at hs
    split at hs
    · rename_i b1 hsend
      simp only [Except.ok.injEq, Prod.mk.injEq] at hs; obtain ⟨rfl, rfl⟩ := hs
      unfold sendAct at hsend
      simp only [] at hsend
      split at hsend
      · simp only [Except.ok.injEq] at hsend; subst hsend
        exact Or.inr ⟨_, ret_finishCall hpc b.g _, Or.inr (fun h e => by cases e)⟩
      · split at hsend
        · cases hsend
        · simp only [Except.ok.injEq] at hsend; subst hsend
          exact Or.inr ⟨_, ret_finishCall hpc _ _, Or.inl ⟨hpc, rfl, rfl⟩⟩
    · cases hs

/-- EARLY under an action of client `i` inside its delete call that sends nothing (`start`, `delete.mark`) -/
theorem pde_del_call {i k h₁ : Nat} {c₁ : PutCmd} {H : List (BState × Act)} {b b' : BState} {o o' : Oracle}
    (he : Env i k b) (hs : stepB b (.client i) o = .ok (b', o')) (hns : ∀ cmd, b.cl[i]? ≠ some (.send cmd))
    (hi : PDE k h₁ c₁ H none b) : PDE k h₁ c₁ ((b, .client i) :: H) none b' := by
  obtain ⟨x, ho, rfl | ⟨j, cmd, hj, hsend, _, _⟩⟩ := other_eff he hs (by simp)
  · exact pde_other_gen he hs (by simp) ho (fun rest h => h.append (KFree.nil k)) (fun h₂ h => by cases h) hi
  · cases hj
    exact absurd hsend (hns cmd)

/-- EARLY under the `cmd.send` of client `i`'s delete call: the `Delete(k)` is now behind the put's command -/
theorem pde_send {i k h₁ : Nat} {c₁ : PutCmd} {H : List (BState × Act)} {b b' : BState} {o o' : Oracle}
    (he : Env i k b) (hs : stepB b (.client i) o = .ok (b', o'))
    (hq : b'.g.queue = b.g.queue ++ [(.delete k, some b.g.acks.length)])
    (hi : PDE k h₁ c₁ H none b) : PDE k h₁ c₁ ((b, .client i) :: H) (some b.g.acks.length) b' := by
  obtain ⟨x, ho, _⟩ := other_eff he hs (by simp)
  have hx : x = [(.delete k, some b.g.acks.length)] := by
    have := ho.queue
    rw [hq] at this
    exact (List.append_cancel_left this).symm
  subst hx
  refine pde_other_gen he hs (by simp) ho (fun rest h => ?_) (fun h₂ h => by cases h) hi
  exact ⟨rest, [], rfl, h, KFree.nil k⟩

/-- client `i` stays outside every put / upsert / delete of `k` as long as it issues none -/
theorem ioff_step {i k : Nat} {b b' : BState} {a : Act} {o o' : Oracle} (hs : stepB b a o = .ok (b', o'))
    (hoff : ∀ pc, b.cl[i]? = some pc → onK k pc = false) (hiss : ∀ r, a = .issue i r → reqOnK k r = false) :
    ∀ pc, b'.cl[i]? = some pc → onK k pc = false := by
  intro pc' hpc'
  by_cases h1 : a = .client i
  · subst h1
    simp only [stepB] at hs
    cases hpc : b.cl[i]? with
    | none => simp [clientAct, hpc] at hs
    | some pc => exact bool_false_of_imp ((client_tags hs hpc hpc').1 k) (hoff pc hpc)
  · by_cases h2 : ∃ r, a = .issue i r
    · obtain ⟨r, rfl⟩ := h2
      obtain ⟨_, rfl⟩ := stepB_issue_inv hs
      have := pc_of_set hpc'; subst this
      exact hiss r rfl
    · rw [other_threads_keep_pc hs h1 (fun r e => h2 ⟨r, e⟩)] at hpc'
      exact hoff pc' hpc'

/-! ## 12  histories: prefixes, reachability, the worker alive -/

theorem sub_snoc {H h : List (BState × Act)} {y : BState × Act} (hsub : Sub H h) (hy : At h H.length y) :
    Sub (y :: H) h := by
  intro q x
  rw [at_cons]
  constructor
  · rintro (⟨rfl, rfl⟩ | hx)
    · exact ⟨by simp, hy⟩
    · obtain ⟨h1, h2⟩ := (hsub q x).mp hx
      exact ⟨by simp only [List.length_cons]; omega, h2⟩
  · rintro ⟨h1, h2⟩
    simp only [List.length_cons] at h1
    by_cases hq : q = H.length
    · subst hq
      exact Or.inl ⟨rfl, h2.inj hy⟩
    · exact Or.inr ((hsub q x).mpr ⟨by omega, h2⟩)

theorem runH_first {b0 b : BState} {h : List (BState × Act)} (hrun : RunH b0 h b) : StateAt h b 0 b0 := by
  induction hrun with
  | nil => exact Or.inl ⟨rfl, rfl⟩
  | @step b1 b' h1 a1 o o' _ _ ih =>
    rcases ih with ⟨e, rfl⟩ | ⟨a, ha⟩
    · have : h1 = [] := List.length_eq_zero_iff.mp e.symm
      subst this
      exact Or.inr ⟨a1, at_cons_self _ _⟩
    · exact Or.inr ⟨a, (Sub.cons _ _).at ha⟩

theorem stateAt_succ {b0 b : BState} {h : List (BState × Act)} (hrun : RunH b0 h b) {m : Nat} {s' : BState}
    (hst : StateAt h b (m + 1) s') :
    ∃ s a o o', At h m (s, a) ∧ stepB s a o = .ok (s', o') := by
  have hm : m < h.length := by
    rcases hst with ⟨e, _⟩ | ⟨a, ha⟩
    · omega
    · have := ha.lt; omega
  have hx : ∃ x, At h m x := by
    unfold At
    exact ⟨_, List.getElem?_eq_getElem (by simpa using hm)⟩
  obtain ⟨⟨s, a⟩, hx⟩ := hx
  obtain ⟨s'', o, o', _, hstep, hst'', _⟩ := runH_at hrun hx
  have := hst''.inj hst
  subst this
  exact ⟨s, a, o, o', hx, hstep⟩

theorem reach_runH' {cfg : Cfg} {now : Nat} {seeds : List Nat} {clients : Nat} {b0 b : BState}
    {h : List (BState × Act)} (hr : Reach cfg now seeds clients b0) (hrun : RunH b0 h b) :
    Reach cfg now seeds clients b := by
  induction hrun with
  | nil => exact hr
  | step _ hs ih => exact .step ih hs

theorem stateAt_reach {cfg : Cfg} {now : Nat} {seeds : List Nat} {clients : Nat} {b0 b : BState}
    {h : List (BState × Act)} (hr : Reach cfg now seeds clients b0) (hrun : RunH b0 h b) {m : Nat} {s : BState}
    (hst : StateAt h b m s) : Reach cfg now seeds clients s := by
  rcases hst with ⟨_, rfl⟩ | ⟨a, ha⟩
  · exact reach_runH' hr hrun
  · obtain ⟨_, _, _, h0, _, _, hr0, _, _⟩ := runH_at hrun ha
    exact reach_runH' hr hr0

theorem stateAt_alive {b0 b : BState} {h : List (BState × Act)} (hrun : RunH b0 h b) (hd : b.w ≠ .dead) {m : Nat}
    {s : BState} (hst : StateAt h b m s) : s.w ≠ .dead := by
  induction hrun with
  | nil =>
    rcases hst with ⟨_, rfl⟩ | ⟨a, ha⟩
    · exact hd
    · exact absurd ha.lt (by simp)
  | @step b1 b' h1 a1 o o' _ hs ih =>
    rcases hst with ⟨_, rfl⟩ | ⟨a, ha⟩
    · exact hd
    · rcases at_cons.mp ha with ⟨_, e⟩ | ha1
      · cases e
        exact alive_before hs hd
      · exact ih (alive_before hs hd) (Or.inr ⟨a, ha1⟩)

/-! ## 13  the scenario and the invariant along the run -/

/-- **The scenario**: in the history `hf` (final state `bf`) client `i` issues `put(k, v, w, ttl)` at `n₁`, the call
    returns at `r₁` with the pending acknowledgement `h₁`; client `i` issues nothing until it issues `delete(k)` at `n₂`,
    which returns at `r₂` with the pending acknowledgement `h₂`; afterwards client `i` issues no put / upsert / delete of
    `k`; no other client ever issues a put / upsert / delete of `k`; nobody issues `shutdown()`. -/
structure Scen (hf : List (BState × Act)) (bf : BState) (i k v : Nat) (w : Int) (ttl : Option Nat)
    (n₁ r₁ n₂ r₂ h₁ h₂ : Nat) : Prop where
  noShutdown : ∀ j n, ¬ Issued hf j .shutdown n
  others : ∀ j q r, j ≠ i → Issued hf j r q → reqOnK k r = false
  put : Issued hf i (.putW k v w ttl) n₁
  ret1 : Returned hf bf i r₁ (.ack h₁ .pending)
  lt1 : n₁ < r₁
  same1 : ∀ q r, n₁ < q → q < r₁ → ¬ Issued hf i r q
  del : Issued hf i (.delete k) n₂
  lt12 : r₁ < n₂
  between : ∀ q r, r₁ < q → q < n₂ → ¬ Issued hf i r q
  ret2 : Returned hf bf i r₂ (.ack h₂ .pending)
  lt2 : n₂ < r₂
  same2 : ∀ q r, n₂ < q → q < r₂ → ¬ Issued hf i r q
  after : ∀ q r, r₂ < q → Issued hf i r q → reqOnK k r = false

/-- `c₁` is THE command of the put: key, value, weight, time-to-live of the call, the handle `h₁`, and it is what
    client `i` stood to send in the action `r₁` that returned the call -/
def IsCmd (hf : List (BState × Act)) (i k v : Nat) (w : Int) (ttl : Option Nat) (r₁ h₁ : Nat) (c₁ : PutCmd) : Prop :=
  c₁.k = k ∧ c₁.v = v ∧ c₁.w = w ∧ c₁.ttl = ttl ∧ c₁.h = some h₁ ∧
  ∃ s, At hf r₁ (s, .client i) ∧ s.cl[i]? = some (.send (cmdOfPut c₁))

theorem IsCmd.unique {hf : List (BState × Act)} {i k v : Nat} {w : Int} {ttl : Option Nat} {r₁ h₁ : Nat}
    {c c' : PutCmd} (h : IsCmd hf i k v w ttl r₁ h₁ c) (h' : IsCmd hf i k v w ttl r₁ h₁ c') : c = c' := by
  obtain ⟨_, _, _, _, hh, s, hx, hpc⟩ := h
  obtain ⟨_, _, _, _, hh', s', hx', hpc'⟩ := h'
  have := hx.inj hx'
  cases this
  rw [hpc] at hpc'
  simp only [Option.some.injEq, CPc.send.injEq] at hpc'
  exact cmdOfPut_inj hpc' (by rw [hh, hh'])

/-- the invariant along the run, phase by phase (`H`: the history so far) -/
def J (hf : List (BState × Act)) (i k v : Nat) (w : Int) (ttl : Option Nat) (n₁ r₁ n₂ r₂ h₁ h₂ : Nat)
    (H : List (BState × Act)) (s : BState) : Prop :=
  Env i k s ∧
  (n₁ < H.length → H.length ≤ r₁ → InPut i k v w ttl s ∨ s.cl[i]? = some .idle) ∧
  (r₁ < H.length → H.length ≤ n₂ →
    s.cl[i]? = some .idle ∧ ∃ c₁, IsCmd hf i k v w ttl r₁ h₁ c₁ ∧ PDE k h₁ c₁ H none s) ∧
  (n₂ < H.length → H.length ≤ r₂ →
    (InDel i k s ∧ ∃ c₁, IsCmd hf i k v w ttl r₁ h₁ c₁ ∧ PDE k h₁ c₁ H none s) ∨ s.cl[i]? = some .idle) ∧
  (r₂ < H.length →
    (∀ pc, s.cl[i]? = some pc → onK k pc = false) ∧
    ∃ c₁, IsCmd hf i k v w ttl r₁ h₁ c₁ ∧ (PDE k h₁ c₁ H (some h₂) s ∨ PDL k h₁ c₁ H h₂ s))

theorem client_idle_stuck {b : BState} {i : Nat} {o : Oracle} {x : BState × Oracle} (h : b.cl[i]? = some .idle) :
    stepB b (.client i) o ≠ .ok x := by
  simp [stepB, clientAct, h]

theorem sub_nil (h : List (BState × Act)) : Sub [] h := by
  intro q x
  constructor
  · intro hx; exact absurd hx.lt (by simp)
  · rintro ⟨hq, _⟩; exact absurd hq (by simp)

theorem env_init {i k : Nat} {b0 : BState} (hidle : ∀ pc ∈ b0.cl, pc = .idle) (hrun0 : b0.g.shutting = false)
    (hq0 : ∀ p ∈ b0.g.queue, p.1 ≠ .shutdown) (hw0 : b0.w ≠ .drain) : Env i k b0 := by
  refine ⟨hrun0, ?_, hq0, hw0, ?_⟩
  · intro j pc hpc
    rw [hidle pc (List.mem_of_getElem? hpc)]; rfl
  · intro j pc _ hpc
    rw [hidle pc (List.mem_of_getElem? hpc)]; rfl

theorem ret_out {b b' : BState} {i : Nat} {out out' : Out} (hret : Ret b b' i out)
    (hres : b'.res[i]? = some (out' :: b.res.getD i [])) : out = out' := by
  rw [hret.2] at hres
  exact res_set_head hres

/-- **The invariant holds at every state of the history.** -/
theorem main_inv {cfg : Cfg} {now : Nat} {seeds : List Nat} {clients : Nat} {b0 bf : BState}
    {hf : List (BState × Act)} {i k v : Nat} {w : Int} {ttl : Option Nat} {n₁ r₁ n₂ r₂ h₁ h₂ : Nat}
    (hr0 : Reach cfg now seeds clients b0) (hidle : ∀ pc ∈ b0.cl, pc = .idle) (hrun0 : b0.g.shutting = false)
    (hq0 : ∀ p ∈ b0.g.queue, p.1 ≠ .shutdown) (hw0 : b0.w ≠ .drain) (hrun : RunH b0 hf bf) (hAlive : bf.w ≠ .dead)
    (sc : Scen hf bf i k v w ttl n₁ r₁ n₂ r₂ h₁ h₂) :
    ∀ m s, StateAt hf bf m s → ∃ H, Sub H hf ∧ H.length = m ∧ J hf i k v w ttl n₁ r₁ n₂ r₂ h₁ h₂ H s := by
  intro m
  induction m with
  | zero =>
    intro s hst
    have := hst.inj (runH_first hrun)
    subst this
    refine ⟨[], sub_nil _, rfl, env_init hidle hrun0 hq0 hw0, ?_, ?_, ?_, ?_⟩
    all_goals (intro h; exact absurd h (Nat.not_lt_zero _))
  | succ m ih =>
    intro s' hst'
    obtain ⟨s, a, o, o', hx, hstep⟩ := stateAt_succ hrun hst'
    have hst : StateAt hf bf m s := Or.inr ⟨a, hx⟩
    obtain ⟨H, hsub, hlen, he, hP1, hP2, hP3, hP4⟩ := ih s hst
    subst hlen
    refine ⟨(s, a) :: H, sub_snoc hsub hx, rfl, ?_⟩
    have hrs := stateAt_reach hr0 hrun hst
    have hrs' := stateAt_reach hr0 hrun hst'
    have hbinv := binv_reach hrs
    have hwab := wabsent_reach hrs
    have hhinv := hinv_reach hrs
    have hbij := bbij_reach hrs he.flag
    have halive' : s'.w ≠ .dead := stateAt_alive hrun hAlive hst'
    have hok : IssueOk i k a := by
      intro j r e
      subst e
      exact ⟨fun e' => sc.noShutdown j H.length (e' ▸ ⟨s, hx⟩), fun hj => sc.others j H.length r hj ⟨s, hx⟩⟩
    have he' := env_step he hstep hok
    have hbij' := bbij_reach hrs' he'.flag
    -- the two kinds of steps of the put / delete invariants
    have stepE : ∀ {c₁ : PutCmd} {ds : Option Nat}, c₁.k = k → c₁.h = some h₁ →
        (∀ j pc, a = .client j → s.cl[j]? = some pc → onK k pc = false) → PDE k h₁ c₁ H ds s →
        PDE k h₁ c₁ ((s, a) :: H) ds s' ∨ ∃ h₂', ds = some h₂' ∧ PDL k h₁ c₁ ((s, a) :: H) h₂' s' := by
      intro c₁ ds hck hch hcl hpde
      by_cases haw : a = .worker
      · subst haw
        exact pde_worker hck hch he hbinv hwab hhinv hbij hbij' hstep halive' hpde
      · exact Or.inl (pde_other he hstep haw hcl hpde)
    have stepL : ∀ {c₁ : PutCmd} {h₂' : Nat},
        (∀ j pc, a = .client j → s.cl[j]? = some pc → onK k pc = false) → PDL k h₁ c₁ H h₂' s →
        PDL k h₁ c₁ ((s, a) :: H) h₂' s' := by
      intro c₁ h₂' hcl hpdl
      by_cases haw : a = .worker
      · subst haw
        exact pdl_worker he hhinv hbij' hstep halive' hpdl
      · exact pdl_other he hstep haw hcl hpdl
    have hclO : a ≠ .client i → ∀ j pc, a = .client j → s.cl[j]? = some pc → onK k pc = false := by
      intro hai j pc e hpc
      exact he.others j pc (fun e' => hai (e' ▸ e)) hpc
    have hl1 := sc.lt1
    have hl12 := sc.lt12
    have hl2 := sc.lt2
    simp only [J, List.length_cons]
    refine ⟨he', ?_, ?_, ?_, ?_⟩
    · -- phase 1: inside the put call
      intro h1 h2
      by_cases hm : H.length = n₁
      · obtain ⟨s0, hx0⟩ := sc.put
        rw [← hm] at hx0
        have := hx.inj hx0
        cases this
        obtain ⟨hidle0, rfl⟩ := stepB_issue_inv hstep
        have hlt : i < s.cl.length := lt_of_getElem?_some hidle0
        exact Or.inl (Or.inl (by simp [setClient, hlt]))
      · have hni : ∀ r, a ≠ .issue i r := fun r e => sc.same1 H.length r (by omega) (by omega) ⟨s, e ▸ hx⟩
        by_cases hai : a = .client i
        · subst hai
          rcases hP1 (by omega) (by omega) with hin | hid
          · rcases put_call_step (by simpa [stepB] using hstep) he.flag hin with hin' | ⟨out, hret, _⟩
            · exact Or.inl hin'
            · exact Or.inr hret.1
          · exact absurd hstep (client_idle_stuck hid)
        · have hkeep := other_threads_keep_pc hstep hai hni
          rcases hP1 (by omega) (by omega) with hin | hid
          · left; unfold InPut at hin ⊢; rw [hkeep]; exact hin
          · right; rw [hkeep]; exact hid
    · -- phase 2: between the two calls
      intro h1 h2
      by_cases hm : H.length = r₁
      · obtain ⟨s0, s0', hx0, hst0', hidle0, hres0⟩ := sc.ret1
        rw [← hm] at hx0 hst0'
        have := hx.inj hx0
        cases this
        have := hst0'.inj hst'
        subst this
        refine ⟨hidle0, ?_⟩
        rcases hP1 (by omega) (by omega) with hin | hid
        · rcases put_call_step (by simpa [stepB] using hstep) he.flag hin with hin' | ⟨out, hret, hcase⟩
          · exact absurd hidle0 hin'.not_idle
          · have hout := ret_out hret hres0
            subst hout
            rcases hcase with ⟨c, hc1, hc2, hc3, hc4, hch, hsend, hout, hq⟩ | hno
            · simp only [Out.ack.injEq, and_true] at hout
              rw [← hout] at hch hq
              refine ⟨c, ⟨hc1, hc2, hc3, hc4, hch, s, hm ▸ hx, hsend⟩, ?_⟩
              exact .pq s.g.queue [] hq (KFree.nil k)
            · exact absurd rfl (hno h₁)
        · exact absurd hstep (client_idle_stuck hid)
      · obtain ⟨hid, c₁, hc, hpde⟩ := hP2 (by omega) (by omega)
        have hni : ∀ r, a ≠ .issue i r := fun r e => sc.between H.length r (by omega) (by omega) ⟨s, e ▸ hx⟩
        have hai : a ≠ .client i := fun e => by subst e; exact absurd hstep (client_idle_stuck hid)
        refine ⟨by rw [other_threads_keep_pc hstep hai hni]; exact hid, c₁, hc, ?_⟩
        rcases stepE hc.1 hc.2.2.2.2.1 (hclO hai) hpde with h | ⟨_, e, _⟩
        · exact h
        · cases e
    · -- phase 3: inside the delete call
      intro h1 h2
      by_cases hm : H.length = n₂
      · obtain ⟨s0, hx0⟩ := sc.del
        rw [← hm] at hx0
        have := hx.inj hx0
        cases this
        obtain ⟨hid, c₁, hc, hpde⟩ := hP2 (by have := sc.lt12; omega) (by omega)
        have hpde' := pde_other he hstep (by simp) (fun j pc e => by cases e) hpde
        obtain ⟨hidle0, rfl⟩ := stepB_issue_inv hstep
        have hlt : i < s.cl.length := lt_of_getElem?_some hidle0
        exact Or.inl ⟨Or.inl (by simp [setClient, hlt]), c₁, hc, hpde'⟩
      · have hni : ∀ r, a ≠ .issue i r := fun r e => sc.same2 H.length r (by omega) (by omega) ⟨s, e ▸ hx⟩
        rcases hP3 (by omega) (by omega) with ⟨hin, c₁, hc, hpde⟩ | hid
        · by_cases hai : a = .client i
          · subst hai
            rcases del_call_step (by simpa [stepB] using hstep) he.flag hin with ⟨hin', hns⟩ | ⟨out, hret, _⟩
            · exact Or.inl ⟨hin', c₁, hc, pde_del_call he hstep hns hpde⟩
            · exact Or.inr hret.1
          · have hkeep := other_threads_keep_pc hstep hai hni
            left
            refine ⟨by unfold InDel at hin ⊢; rw [hkeep]; exact hin, c₁, hc, ?_⟩
            rcases stepE hc.1 hc.2.2.2.2.1 (hclO hai) hpde with h | ⟨_, e, _⟩
            · exact h
            · cases e
        · have hai : a ≠ .client i := fun e => by subst e; exact absurd hstep (client_idle_stuck hid)
          exact Or.inr (by rw [other_threads_keep_pc hstep hai hni]; exact hid)
    · -- phase 4: after the delete call
      intro h1
      by_cases hm : H.length = r₂
      · obtain ⟨s0, s0', hx0, hst0', hidle0, hres0⟩ := sc.ret2
        rw [← hm] at hx0 hst0'
        have := hx.inj hx0
        cases this
        have := hst0'.inj hst'
        subst this
        refine ⟨fun pc hpc => by rw [hidle0] at hpc; cases hpc; rfl, ?_⟩
        rcases hP3 (by have := sc.lt2; omega) (by omega) with ⟨hin, c₁, hc, hpde⟩ | hid
        · rcases del_call_step (by simpa [stepB] using hstep) he.flag hin with ⟨hin', _⟩ | ⟨out, hret, hcase⟩
          · exact absurd hidle0 hin'.not_idle
          · have hout := ret_out hret hres0
            subst hout
            rcases hcase with ⟨_, hout, hq⟩ | hno
            · simp only [Out.ack.injEq, and_true] at hout
              have hpde' := pde_send he hstep hq hpde
              rw [← hout] at hpde'
              exact ⟨c₁, hc, Or.inl hpde'⟩
            · exact absurd rfl (hno h₂)
        · exact absurd hstep (client_idle_stuck hid)
      · obtain ⟨hoff, c₁, hc, hpd⟩ := hP4 (by omega)
        have hoff' := ioff_step hstep hoff (fun r e => sc.after H.length r (by omega) ⟨s, e ▸ hx⟩)
        have hclA : ∀ j pc, a = .client j → s.cl[j]? = some pc → onK k pc = false := by
          intro j pc e hpc
          by_cases hj : j = i
          · subst hj; exact hoff pc hpc
          · exact he.others j pc hj hpc
        refine ⟨hoff', c₁, hc, ?_⟩
        rcases hpd with hpde | hpdl
        · rcases stepE hc.1 hc.2.2.2.2.1 hclA hpde with h | ⟨h₂', e, h⟩
          · exact Or.inl h
          · cases e; exact Or.inr h
        · exact Or.inr (stepL hclA hpdl)

/-! ## 14  reading the invariant -/

/-- while the `Delete(k)` has not run its `store.remove`, its acknowledgement is pending -/
theorem pde_pending {k h₁ : Nat} {c₁ : PutCmd} {H : List (BState × Act)} {h₂ : Nat} {s : BState} (hh : HInv s)
    (hi : PDE k h₁ c₁ H (some h₂) s) : s.g.acks[h₂]? = some .pending := by
  have hq : ∀ {rest : List (Cmd × Option Nat)}, RestOk k (some h₂) rest → (∀ p ∈ rest, p ∈ s.g.queue) →
      s.g.acks[h₂]? = some .pending := by
    intro rest ⟨qb, qc, hr, _, _⟩ hsub
    refine hh.queued h₂ (mem_qHandles.mpr ⟨.delete k, hsub _ ?_⟩)
    rw [hr]; simp
  cases hi with
  | pq qa rest hq0 hrest => exact hq hrest (fun p hp => by rw [hq0]; simp [hp])
  | pw _ hrest _ => exact hq hrest (fun p hp => hp)
  | pd _ _ _ _ _ hrest => exact hq hrest (fun p hp => hp)
  | dw0 h₂' _ _ hds _ _ hw _ =>
    cases hds
    exact (hh.held h₂ (by rw [hw]; rfl)).1

/-- **What the invariant says once the `Delete(k)` is answered.** -/
theorem pdl_answered {k h₁ : Nat} {c₁ : PutCmd} {H : List (BState × Act)} {h₂ : Nat} {s : BState} (hh : HInv s)
    (hi : PDL k h₁ c₁ H h₂ s) (ha : Answered s h₂) :
    s.g.store.get? k = none ∧ s.g.adm.kw.get? c₁.id = none ∧
    ∃ pres lo d st₁ st₂, s.g.acks[h₁]? = some st₁ ∧ OutOf pres st₁ ∧ s.g.acks[h₂]? = some st₂ ∧
      lo ≤ d ∧ DelAt H d k h₂ ∧ (st₁ = .accepted → PutPoint H lo k c₁.id) ∧ DelRes H k lo d pres st₂ := by
  obtain ⟨st, hst, hne⟩ := ha
  cases hi with
  | dw1 lo d hp hd hlod hheld htail hkf hnone =>
    rw [(hh.held h₂ hheld).1] at hst
    cases hst
    exact absurd rfl hne
  | dd pres lo d st₂ hp hd hlod hack hres hkf hoff hnone hkw =>
    obtain ⟨st₁, hst₁, ho⟩ := hp.ack
    exact ⟨hnone, hkw, pres, lo, d, st₁, st₂, hst₁, ho, hack, hlod, hd, fun e => hp.born (e ▸ hst₁), hres⟩

/-! ## 15  a running cache at rest: no `Shutdown` command waits, the worker is not draining -/

/-- a `Shutdown` command in the queue, or a draining worker, means that the flag is set -/
structure ShutQ (b : BState) : Prop where
  queue : ∀ p ∈ b.g.queue, p.1 = .shutdown → b.g.shutting = true
  drain : b.w = .drain → b.g.shutting = true
  noSend : ∀ j : Nat, b.cl[j]? ≠ some (.send .shutdown)

theorem shutQ_step {b b' : BState} {a : Act} {o o' : Oracle} (hb : BInv b) (hi : ShutQ b)
    (hs : stepB b a o = .ok (b', o')) : ShutQ b' := by
  have hmono : b.g.shutting = true → b'.g.shutting = true := stepB_shutting_mono hs
  cases a with
  | issue j r =>
    obtain ⟨_, rfl⟩ := stepB_issue_inv hs
    refine ⟨hi.queue, hi.drain, ?_⟩
    intro j' hpc
    by_cases hj : j' = j
    · subst hj; have := pc_of_set hpc; cases this
    · simp only [setClient, List.getElem?_set_ne (Ne.symm hj)] at hpc
      exact hi.noSend j' hpc
  | client j =>
    have hs' : clientAct b j o = .ok (b', o') := hs
    have ht := clientAct_trans hs'
    obtain ⟨pc, pc', hpc, hcl, _, _⟩ := ctrans_cl ht
    refine ⟨?_, ?_, ?_⟩
    · intro p hp hsd
      rcases ctrans_cstep ht with ⟨hq, _⟩ | ⟨_, hq, _⟩ | ⟨cmd, hsend, hq, _⟩ | ⟨hsc, _, hq, _⟩
      · rw [hq] at hp; exact hmono (hi.queue p hp hsd)
      · rw [hq] at hp; exact hmono (hi.queue p hp hsd)
      · rw [hq] at hp
        rcases List.mem_append.mp hp with hp | hp
        · exact hmono (hi.queue p hp hsd)
        · simp only [List.mem_singleton] at hp; subst hp
          simp only at hsd; subst hsd
          exact absurd hsend (hi.noSend j)
      · rw [hq] at hp
        rcases List.mem_append.mp hp with hp | hp
        · exact hmono (hi.queue p hp hsd)
        · exact hmono (hb.shutFlag j _ hsc rfl)
    · intro hw
      rw [(ctrans_frame ht).1] at hw
      exact hmono (hi.drain hw)
    · intro j' hpc1
      by_cases hj : j' = j
      · subst hj
        have hlt : j' < b.cl.length := lt_of_getElem?_some hpc
        have hpc' : b'.cl[j']? = some pc' := by rw [hcl]; simp [hlt]
        rw [hpc'] at hpc1
        cases hpc1
        have := (client_tags hs' hpc hpc').2.2 rfl
        subst this
        exact hi.noSend j' hpc
      · rw [hcl, List.getElem?_set_ne (Ne.symm hj)] at hpc1
        exact hi.noSend j' hpc1
  | worker =>
    have ht := workerAct_trans (show workerAct b o = .ok (b', o') from hs)
    obtain ⟨hq, _⟩ := wtrans_prov ht
    refine ⟨fun p hp hsd => hmono (hi.queue p (hq p hp) hsd), ?_, by rw [(wtrans_cl ht).1]; exact hi.noSend⟩
    intro hw'
    cases wtrans_wstep ht with
    | take _ _ _ _ _ _ hb' => rw [hw'] at hb'; cases hb'
    | takeShutdown hh q hq0 => exact hmono (hi.queue (.shutdown, hh) (by rw [hq0]; exact List.mem_cons_self) rfl)
    | takeDrain _ _ _ _ _ hw => exact hmono (hi.drain hw)
    | cont _ hb' => rw [hw'] at hb'; cases hb'
    | complete _ _ hw => rw [hw] at hw'; cases hw'
    | die _ hw => rw [hw] at hw'; cases hw'
  | sweeper v =>
    have ht := sweeperAct_trans (stepB_sweeper_inv hs)
    obtain ⟨hw, hcl, hq, _⟩ := strans_frame ht
    exact ⟨fun p hp hsd => hmono (hi.queue p (hq ▸ hp) hsd), fun h => hmono (hi.drain (hw ▸ h)),
      by rw [hcl]; exact hi.noSend⟩
  | consumer =>
    obtain ⟨g', rfl, hg⟩ := stepB_consumer_inv hs
    have hq : g'.queue = b.g.queue := by rw [hg]
    exact ⟨fun p hp hsd => hmono (hi.queue p (by rw [← hq]; exact hp) hsd), fun h => hmono (hi.drain h), hi.noSend⟩
  | advance d =>
    rw [stepB_advance_inv hs]
    exact ⟨hi.queue, hi.drain, hi.noSend⟩

theorem shutQ_reach {cfg : Cfg} {now : Nat} {seeds : List Nat} {clients : Nat} {b : BState}
    (h : Reach cfg now seeds clients b) : ShutQ b := by
  induction h with
  | init sm =>
    refine ⟨by simp [BState.init, State.init], by simp [BState.init], ?_⟩
    intro j h
    have := List.mem_of_getElem? h
    simp [BState.init] at this
  | step hr hstep ih => exact shutQ_step (binv_reach hr) ih hstep

/-- **In a reachable state of a running cache no `Shutdown` command waits and the worker is not draining.** -/
theorem running_no_shutdown {cfg : Cfg} {now : Nat} {seeds : List Nat} {clients : Nat} {b0 : BState}
    (hr : Reach cfg now seeds clients b0) (hrun0 : b0.g.shutting = false) :
    (∀ p ∈ b0.g.queue, p.1 ≠ .shutdown) ∧ b0.w ≠ .drain := by
  have hq := shutQ_reach hr
  constructor
  · intro p hp e
    rw [hq.queue p hp e] at hrun0; cases hrun0
  · intro e
    rw [hq.drain e] at hrun0; cases hrun0

/-! ## 16  a call that returns a pending acknowledgement has sent its command -/

/-- the tail of `put_or_update` never returns a PENDING acknowledgement (it answers on the spot, panics, or goes on) -/
theorem upAfter_ack {b0 b : BState} {i id hh : Nat} {uw : Option Int} (hres0 : b0.res = b.res)
    (hidle : (upAfterIndex b0 i id uw).cl[i]? = some .idle)
    (hres : (upAfterIndex b0 i id uw).res[i]? = some (.ack hh .pending :: b.res.getD i [])) : False := by
  unfold upAfterIndex at hidle hres
  split at hres
  · split at hres
    · simp only [finishCall, hres0] at hres; have := res_set_head hres; cases this
    · split at hres
      · simp only [finishCall, hres0] at hres; have := res_set_head hres; cases this
      · rename_i h1 h2
        simp only [h1, h2, if_false] at hidle
        have := pc_of_set hidle; cases this
  · simp only [spotFinish, finishCall, hres0] at hres; have := res_set_head hres; cases this

/-- a multi-key read never returns an acknowledgement -/
theorem mgetNext_ack {b0 b : BState} {i hh : Nat} {ks : List Nat} {acc : List (Option Nat)} {iter : Bool}
    (hres0 : b0.res = b.res) (hidle : (mgetNext b0 i ks acc iter).cl[i]? = some .idle)
    (hres : (mgetNext b0 i ks acc iter).res[i]? = some (.ack hh .pending :: b.res.getD i [])) : False := by
  rw [mgetNext_idle hidle] at hres
  simp only [finishCall, hres0] at hres
  have := res_set_head hres; cases this

/-- … nor does its first action … -/
theorem mgetStart_ack {b : BState} {i hh : Nat} {ks : List Nat} {iter : Bool}
    (hidle : (mgetStart b i ks iter).cl[i]? = some .idle)
    (hres : (mgetStart b i ks iter).res[i]? = some (.ack hh .pending :: b.res.getD i [])) : False := by
  rcases mgetStart_spec b i ks iter with ⟨_, _, e⟩ | ⟨_, e⟩
  · rw [e] at hres
    have := res_set_head hres; cases this
  · rw [e] at hidle
    have := pc_of_set hidle; cases this

/-- … nor a load of the shutdown flag -/
theorem mgetFlagAct_ack {b : BState} {i hh : Nat} {outer : Bool} {ks : List Nat} {acc : List (Option Nat)} {iter : Bool}
    (hidle : (mgetFlagAct b i outer ks acc iter).cl[i]? = some .idle)
    (hres : (mgetFlagAct b i outer ks acc iter).res[i]? = some (.ack hh .pending :: b.res.getD i [])) : False := by
  rcases mgetFlagAct_spec b i outer ks acc iter with ⟨_, e⟩ | ⟨_, _, _, _, _, e⟩ | ⟨_, _, _, _, _, e⟩ |
    ⟨_, _, _, _, _, e⟩
  · rw [e] at hres
    have := res_set_head hres; cases this
  · rw [e] at hidle
    have := pc_of_set hidle; cases this
  · rw [e] at hidle hres
    exact mgetNext_ack rfl hidle hres
  · rw [e] at hidle
    have := pc_of_set hidle; cases this

set_option hygiene false in
macro "ack_leaf" : tactic => `(tactic| first
  | (exfalso; have := pc_of_set hidle; cases this; done)
  | (exfalso; have := res_set_head hres; cases this; done)
  | (exfalso; exact upAfter_ack rfl hidle hres)
  | (exfalso; exact mgetNext_ack rfl hidle hres)
  | (exfalso; exact mgetStart_ack hidle hres)
  | (exfalso; exact mgetFlagAct_ack hidle hres))

set_option hygiene false in
macro "ack_pos" : tactic => `(tactic| (
  try simp only [] at hs
  repeat' split at hs
  all_goals first
    | (cases hs; done)
    | (simp only [Except.ok.injEq, Prod.mk.injEq] at hs; obtain ⟨rfl, rfl⟩ := hs; ack_leaf)))

/-- **A call that returns a PENDING acknowledgement returned from `cmd.send`**: the action is the client's `cmd.send`, the
    handle is the next free cell, and the command went to the tail of the queue with that handle. -/
theorem ret_ack_pending {b b' : BState} {i hh : Nat} {o o' : Oracle} (hs : clientAct b i o = .ok (b', o'))
    (hidle : b'.cl[i]? = some .idle) (hres : b'.res[i]? = some (.ack hh .pending :: b.res.getD i [])) :
    ∃ cmd, b.cl[i]? = some (.send cmd) ∧ hh = b.g.acks.length ∧ b'.g.queue = b.g.queue ++ [(cmd, some hh)] ∧
      b'.g.acks = b.g.acks ++ [.pending] := by
  unfold clientAct at hs
  simp only [] at hs
  split at hs
  · cases hs
  · rename_i pc hpc
    cases pc with
    | idle => cases hs
    | start r =>
      simp only [] at hs
      split at hs
      · cases r <;> simp only [Except.ok.injEq, Prod.mk.injEq] at hs <;> obtain ⟨rfl, rfl⟩ := hs <;> ack_leaf
      · cases r <;> simp only [] at hs
        case putW k v w ttl =>
          split at hs
          all_goals simp only [Except.ok.injEq, Prod.mk.injEq] at hs; obtain ⟨rfl, rfl⟩ := hs
          all_goals ack_leaf
        all_goals simp only [Except.ok.injEq, Prod.mk.injEq] at hs; obtain ⟨rfl, rfl⟩ := hs
        all_goals ack_leaf
    | send cmd =>
      simp only [] at hs
      split at hs
      · rename_i b1 hsend
        simp only [Except.ok.injEq, Prod.mk.injEq] at hs; obtain ⟨rfl, rfl⟩ := hs
        unfold sendAct at hsend
        simp only [] at hsend
        split at hsend
        · simp only [Except.ok.injEq] at hsend; subst hsend
          exfalso; have := res_set_head hres; cases this
        · split at hsend
          · cases hsend
          · simp only [Except.ok.injEq] at hsend; subst hsend
            have := res_set_head hres
            simp only [Out.ack.injEq, and_true] at this
            subst this
            exact ⟨cmd, hpc, rfl, rfl, rfl⟩
      · cases hs
    | idNext k v w ttl => cases ttl <;> ack_pos
    | upWeightOf id uw old new =>
      simp only [] at hs
      split at hs
      all_goals simp only [Except.ok.injEq, Prod.mk.injEq] at hs; obtain ⟨rfl, rfl⟩ := hs
      all_goals ack_leaf
    | getPool k v =>
      simp only [] at hs
      split at hs
      · simp only [Except.ok.injEq, Prod.mk.injEq] at hs; obtain ⟨rfl, rfl⟩ := hs; ack_leaf
      · cases hs
    | refPool k v =>
      simp only [] at hs
      split at hs
      · simp only [Except.ok.injEq, Prod.mk.injEq] at hs; obtain ⟨rfl, rfl⟩ := hs; ack_leaf
      · cases hs
    | mgetPool k v ks acc iter =>
      simp only [] at hs
      split at hs
      · simp only [Except.ok.injEq, Prod.mk.injEq] at hs; obtain ⟨rfl, rfl⟩ := hs; ack_leaf
      · cases hs
    | _ => ack_pos

/-! ## 17  the queue is sorted by handle; a pending handle waits, is held, or was dropped by the dying worker -/

/-- the handles waiting in the queue are strictly increasing from head to tail -/
def QSorted (b : BState) : Prop := (qHandles b.g.queue).Pairwise (· < ·)

theorem qsorted_step {b b' : BState} {a : Act} {o o' : Oracle} (hi : HInv b) (hq : QSorted b)
    (hs : stepB b a o = .ok (b', o')) : QSorted b' := by
  unfold QSorted at hq ⊢
  have tl : ∀ {cmd : Cmd} {hh : Option Nat} {q : List (Cmd × Option Nat)}, b.g.queue = (cmd, hh) :: q → b'.g.queue = q →
      (qHandles b'.g.queue).Pairwise (· < ·) := by
    intro cmd hh q e e'
    rw [e, qHandles_cons] at hq
    rw [e']
    exact (List.pairwise_append.mp hq).2.1
  cases stepB_bstep hs with
  | worker _ hw =>
    cases hw with
    | take cmd hh q e e' => exact tl e e'
    | takeShutdown hh q e e' => exact tl e e'
    | takeDrain cmd hh q e e' => exact tl e e'
    | cont _ _ _ e => rw [e]; exact hq
    | complete _ _ _ e => rw [e]; exact hq
    | die _ _ e => rw [e]; exact List.Pairwise.nil
  | client i _ _ hc _ =>
    cases hc with
    | none e => rw [e]; exact hq
    | spot _ e => rw [e]; exact hq
    | send cmd _ e =>
      rw [e, qHandles_append_one]
      refine List.pairwise_append.mpr ⟨hq, by simp, ?_⟩
      intro x hx y hy
      simp only [Option.toList_some, List.mem_singleton] at hy
      subst hy
      exact hi.lt_queued hx
    | sendShutdown _ _ e => rw [e, qHandles_append_one]; simpa using hq
  | other _ _ e => rw [e]; exact hq

theorem qsorted_reach {cfg : Cfg} {now : Nat} {seeds : List Nat} {clients : Nat} {b : BState}
    (h : Reach cfg now seeds clients b) : QSorted b := by
  induction h with
  | init sm => simp [QSorted, BState.init, State.init, qHandles]
  | step hr hstep ih => exact qsorted_step (hinv_reach hr) ih hstep

/-- the life of ONE enqueued command (handle `hh`): it waits in the queue, or the worker is executing it, or it is
    answered — or the worker has died (then it is never executed and stays pending: findings D8 / D9) -/
def LifeOf (hh : Nat) (b : BState) : Prop :=
  hh ∈ qHandles b.g.queue ∨ b.w.held = some hh ∨ Answered b hh ∨ b.w = .dead

theorem lifeOf_step {hh : Nat} {b b' : BState} {a : Act} {o o' : Oracle} (hi : HInv b) (hl : LifeOf hh b)
    (hs : stepB b a o = .ok (b', o')) : LifeOf hh b' := by
  rcases hl with hq | hheld | hans | hdead
  · -- waiting
    have hlt := hi.lt_queued hq
    cases stepB_bstep hs with
    | worker _ hw =>
      have tk : ∀ {cmd : Cmd} {x : Option Nat} {q : List (Cmd × Option Nat)}, b.g.queue = (cmd, x) :: q →
          b'.g.queue = q → x = some hh ∨ hh ∈ qHandles b'.g.queue := by
        intro cmd x q e e'
        rw [e, qHandles_cons] at hq
        rcases List.mem_append.mp hq with h | h
        · left
          cases x with
          | none => simp at h
          | some y => simp only [Option.toList_some, List.mem_singleton] at h; rw [h]
        · right; rw [e']; exact h
      cases hw with
      | take cmd x q e e' _ _ hheld' =>
        rcases tk e e' with h | h
        · exact Or.inr (Or.inl (by rw [hheld', h]))
        · exact Or.inl h
      | takeShutdown x q e e' _ _ hacks =>
        rcases tk e e' with h | h
        · exact Or.inr (Or.inr (Or.inl ⟨.accepted, by rw [hacks, h]; exact setAck_get_self _ _ hlt, by simp⟩))
        · exact Or.inl h
      | takeDrain cmd x q e e' _ _ hacks =>
        rcases tk e e' with h | h
        · exact Or.inr (Or.inr (Or.inl ⟨.shuttingDown, by rw [hacks, h]; exact setAck_get_self _ _ hlt, by simp⟩))
        · exact Or.inl h
      | cont _ _ _ e => exact Or.inl (by rw [e]; exact hq)
      | complete _ _ _ e => exact Or.inl (by rw [e]; exact hq)
      | die _ hw' => exact Or.inr (Or.inr (Or.inr hw'))
    | client i _ _ hc _ =>
      cases hc with
      | none e => exact Or.inl (by rw [e]; exact hq)
      | spot _ e => exact Or.inl (by rw [e]; exact hq)
      | send cmd _ e => exact Or.inl (by rw [e, qHandles_append_one]; exact List.mem_append_left _ hq)
      | sendShutdown _ _ e => exact Or.inl (by rw [e, qHandles_append_one]; exact List.mem_append_left _ hq)
    | other _ _ e => exact Or.inl (by rw [e]; exact hq)
  · -- being executed
    have hlt := hi.lt_held hheld
    cases stepB_bstep hs with
    | worker _ hw =>
      cases hw with
      | take _ _ _ _ _ hw0 => rw [hw0] at hheld; cases hheld
      | takeShutdown _ _ _ _ hw0 => rw [hw0] at hheld; cases hheld
      | takeDrain _ _ _ _ _ hw0 => rw [hw0] at hheld; cases hheld
      | cont _ _ hh' => exact Or.inr (Or.inl (by rw [hh']; exact hheld))
      | complete st _ _ _ hne hacks =>
        exact Or.inr (Or.inr (Or.inl ⟨st, by rw [hacks, hheld]; exact setAck_get_self _ _ hlt, hne⟩))
      | die _ hw' => exact Or.inr (Or.inr (Or.inr hw'))
    | client i _ hw _ _ => exact Or.inr (Or.inl (by rw [hw]; exact hheld))
    | other _ hw _ _ => exact Or.inr (Or.inl (by rw [hw]; exact hheld))
  · exact Or.inr (Or.inr (Or.inl (answered_step hi hs hans)))
  · exact Or.inr (Or.inr (Or.inr (dead_step hs hdead)))

/-- **Per-client order, the step.**  `hA < hB` two handles, `hA` an enqueued command's (`LifeOf`): as long as `hA` is
    not answered, `hB` is neither held by the worker nor answered.  One action keeps this, provided `hB` is a cell. -/
def Before (hA hB : Nat) (b : BState) : Prop :=
  Answered b hA ∨ (b.g.acks[hB]? = some .pending ∧ b.w.held ≠ some hB)

theorem before_step {hA hB : Nat} {b b' : BState} {a : Act} {o o' : Oracle} (hlt : hA < hB) (hi : HInv b)
    (hq : QSorted b) (hl : LifeOf hA b) (hbf : Before hA hB b) (hs : stepB b a o = .ok (b', o')) :
    Before hA hB b' := by
  rcases hbf with hans | ⟨hp, hnh⟩
  · exact Or.inl (answered_step hi hs hans)
  · by_cases hansA : Answered b hA
    · exact Or.inl (answered_step hi hs hansA)
    -- `hA` is not answered: it waits (the worker not dead, not holding it — see below), so `hB` is not the head
    have hBlt : hB < b.g.acks.length := lt_of_getElem?_some hp
    have keep : b'.w.held ≠ some hB → b'.g.acks[hB]? = some .pending ∨ Answered b' hA →
        Before hA hB b' := by
      intro h1 h2
      rcases h2 with h2 | h2
      · exact Or.inr ⟨h2, h1⟩
      · exact Or.inl h2
    cases stepB_bstep hs with
    | worker _ hw =>
      -- the head of the queue is not `hB` while `hA` waits
      have head_ne : ∀ {cmd : Cmd} {x : Option Nat} {q : List (Cmd × Option Nat)}, b.g.queue = (cmd, x) :: q →
          (b.w = .recv ∨ b.w = .drain) → x ≠ some hB := by
        intro cmd x q e hw0 ex
        rcases hl with h | h | h | h
        · rw [e, qHandles_cons, ex] at h
          unfold QSorted at hq
          rw [e, qHandles_cons, ex] at hq
          simp only [Option.toList_some, List.singleton_append, List.mem_cons] at h
          rcases h with h | h
          · omega
          · have := (List.pairwise_cons.mp hq).1 hA h; omega
        · rcases hw0 with hw0 | hw0 <;> rw [hw0] at h <;> cases h
        · exact hansA h
        · rcases hw0 with hw0 | hw0 <;> rw [hw0] at h <;> cases h
      cases hw with
      | take cmd x q e e' hw0 _ hheld' hacks =>
        exact Or.inr ⟨by rw [hacks]; exact hp, by rw [hheld']; exact head_ne e (Or.inl hw0)⟩
      | takeShutdown x q e e' hw0 hw' hacks =>
        refine Or.inr ⟨?_, by rw [hw']; simp [WPc.held]⟩
        rw [hacks, setAck_get_ne _ _ (head_ne e (Or.inl hw0))]; exact hp
      | takeDrain cmd x q e e' hw0 hw' hacks =>
        refine Or.inr ⟨?_, by rw [hw']; simp [WPc.held]⟩
        rw [hacks, setAck_get_ne _ _ (head_ne e (Or.inr hw0))]; exact hp
      | cont _ _ hheld' _ hacks => exact Or.inr ⟨by rw [hacks]; exact hp, by rw [hheld']; exact hnh⟩
      | complete st _ hw' _ _ hacks =>
        refine Or.inr ⟨?_, by rw [hw']; simp [WPc.held]⟩
        rw [hacks, setAck_get_ne _ _ hnh]; exact hp
      | die _ hw' _ hacks => exact Or.inr ⟨by rw [hacks]; exact hp, by rw [hw']; simp [WPc.held]⟩
    | client i _ hw hc _ =>
      refine Or.inr ⟨?_, by rw [hw]; exact hnh⟩
      cases hc with
      | none _ hacks => rw [hacks]; exact hp
      | spot _ _ hacks => rw [hacks]; exact getElem?_append_some _ hp
      | send _ _ _ hacks => rw [hacks]; exact getElem?_append_some _ hp
      | sendShutdown _ _ _ hacks => rw [hacks]; exact hp
    | other _ hw _ hacks => exact Or.inr ⟨by rw [hacks]; exact hp, by rw [hw]; exact hnh⟩

/-- the acknowledgement cells only grow along a run -/
theorem acks_mono {cfg : Cfg} {now : Nat} {seeds : List Nat} {clients : Nat} {b0 b : BState}
    {h : List (BState × Act)} (hr0 : Reach cfg now seeds clients b0) (hrun : RunH b0 h b) {m : Nat} {s : BState}
    (hst : StateAt h b m s) : ∀ (d : Nat) (s' : BState), StateAt h b (m + d) s' → s.g.acks.length ≤ s'.g.acks.length := by
  intro d
  induction d with
  | zero => intro s' hst'; rw [hst.inj hst']; exact Nat.le_refl _
  | succ d ih =>
    intro s' hst'
    obtain ⟨s1, a, o, o', hx, hstep⟩ := stateAt_succ hrun (m := m + d) hst'
    have h1 := ih s1 (Or.inr ⟨a, hx⟩)
    have h2 := (C11_layerB_acks_grow (hinv_reach (stateAt_reach hr0 hrun (Or.inr ⟨a, hx⟩))) hstep).1
    omega

/-- induction along the rest of a run: a property kept by every action of every reachable state holds from the `m`-th
    state on -/
theorem run_induct {cfg : Cfg} {now : Nat} {seeds : List Nat} {clients : Nat} {b0 b : BState}
    {h : List (BState × Act)} (hr0 : Reach cfg now seeds clients b0) (hrun : RunH b0 h b) (P : BState → Prop)
    (hstep : ∀ (s s' : BState) (a : Act) (o o' : Oracle), Reach cfg now seeds clients s → P s →
      stepB s a o = .ok (s', o') → P s')
    {m : Nat} {s0 : BState} (hst0 : StateAt h b m s0) (h0 : P s0) :
    ∀ (d : Nat) (s : BState), StateAt h b (m + d) s → P s := by
  intro d
  induction d with
  | zero => intro s hst; rw [← hst0.inj hst]; exact h0
  | succ d ih =>
    intro s' hst'
    obtain ⟨s1, a, o, o', hx, hs⟩ := stateAt_succ hrun (m := m + d) hst'
    have hst1 : StateAt h b (m + d) s1 := Or.inr ⟨a, hx⟩
    exact hstep s1 s' a o o' (stateAt_reach hr0 hrun hst1) (ih s1 hst1) hs

/-- the `r`-th action is the `cmd.send` of client `i` that puts `cmd` at the TAIL of the queue, with the fresh handle
    `hh` (the next free acknowledgement cell) -/
def Sent (h : List (BState × Act)) (b : BState) (i r : Nat) (cmd : Cmd) (hh : Nat) : Prop :=
  ∃ s s', At h r (s, .client i) ∧ StateAt h b (r + 1) s' ∧ s.cl[i]? = some (.send cmd) ∧ hh = s.g.acks.length ∧
    s'.g.queue = s.g.queue ++ [(cmd, some hh)] ∧ s'.g.acks = s.g.acks ++ [.pending]

/-- a call that returns a PENDING acknowledgement returned from its `cmd.send` -/
theorem returned_sent {b0 b : BState} {h : List (BState × Act)} (hrun : RunH b0 h b) {i r hh : Nat}
    (hret : Returned h b i r (.ack hh .pending)) : ∃ cmd, Sent h b i r cmd hh := by
  obtain ⟨s, s', hx, hst', hidle, hres⟩ := hret
  obtain ⟨s'', o, o', _, hstep, hst'', _⟩ := runH_at hrun hx
  have := hst''.inj hst'
  subst this
  obtain ⟨cmd, hpc, h1, h2, h3⟩ := ret_ack_pending (by simpa [stepB] using hstep) hidle hres
  exact ⟨cmd, s, s'', hx, hst', hpc, h1, h2, h3⟩

/-! ## 18  the `delete.mark` and the put's `store.put`: hidden at once, or readable for a while -/

/-- the put's `store.put` has run: the worker stands at the put's `ttl.put`, or the put is answered -/
def PP (h₁ : Nat) (c₁ : PutCmd) (s : BState) : Prop := (∃ e, s.w = .ttlPut c₁ e) ∨ Answered s h₁

theorem pp_step {h₁ : Nat} {c₁ : PutCmd} {s s' : BState} {a : Act} {o o' : Oracle} (hch : c₁.h = some h₁)
    (hi : HInv s) (hpp : PP h₁ c₁ s) (hs : stepB s a o = .ok (s', o')) : PP h₁ c₁ s' := by
  rcases hpp with ⟨e, hw⟩ | hans
  · by_cases ha : a = .worker
    · subst ha
      have hheld : s.w.held = some h₁ := by rw [hw]; exact hch
      have hlt := hi.lt_held hheld
      have hsw : workerAct s o = .ok (s', o') := hs
      simp only [workerAct, hw] at hsw
      split at hsw
      · cases hsw
      · simp only [Except.ok.injEq, Prod.mk.injEq] at hsw
        obtain ⟨rfl, _⟩ := hsw
        exact Or.inr ⟨.accepted, by simp only [finishCmd, hch]; exact setAck_get_self _ _ (by simpa [ttlPut] using hlt),
          by simp⟩
    · exact Or.inl ⟨e, by rw [ent_stepB_w_other hs ha]; exact hw⟩
  · exact Or.inr (answered_step hi hs hans)

theorem cmdId?_cmdOfPut (c : PutCmd) : cmdId? (cmdOfPut c) = some c.id := by
  unfold cmdOfPut; split <;> rfl

/-- once the put's `store.put` has run, the worker never stands at the `store.put` of a put of `k` again -/
theorem nomoreput_pde {k h₁ : Nat} {c₁ : PutCmd} {H : List (BState × Act)} {ds : Option Nat} {s : BState}
    (hch : c₁.h = some h₁) (hh : HInv s) (hpp : PP h₁ c₁ s) (hi : PDE k h₁ c₁ H ds s) :
    ∀ c, s.w = .storePut c → c.k ≠ k := by
  intro c hw
  cases hi with
  | pq qa rest hq hrest =>
    exfalso
    rcases hpp with ⟨e, hw'⟩ | ⟨st, hst, hne⟩
    · rw [hw] at hw'; cases hw'
    · have : h₁ ∈ qHandles s.g.queue := mem_qHandles.mpr ⟨cmdOfPut c₁, by rw [hq]; simp⟩
      rw [hh.queued h₁ this] at hst
      cases hst; exact hne rfl
  | pw hc hrest httl =>
    exfalso
    rcases hpp with ⟨e, hw'⟩ | ⟨st, hst, hne⟩
    · rw [hw] at hw'; cases hw'
    · have hheld : s.w.held = some h₁ := by rw [held_of_cmd hc, hch]
      rw [(hh.held h₁ hheld).1] at hst
      cases hst; exact hne rfl
  | pd pres lo hp hpres hoff hrest => exact woff_storePut hoff c hw
  | dw0 h₂ pres lo hds hp hpres hw' hkf => rw [hw] at hw'; cases hw'

theorem nomoreput_pdl {k h₁ : Nat} {c₁ : PutCmd} {H : List (BState × Act)} {h₂ : Nat} {s : BState}
    (hi : PDL k h₁ c₁ H h₂ s) : ∀ c, s.w = .storePut c → c.k ≠ k := by
  intro c hw
  cases hi with
  | dw1 lo d hp hd hlod hheld htail hkf hnone => rw [hw] at htail; cases htail
  | dd pres lo d st₂ hp hd hlod hack hres hkf hoff hnone hkw => exact woff_storePut hoff c hw

/-- every entry of `k` in the store is soft-deleted (hidden from reads) -/
def SoftK (k : Nat) (s : BState) : Prop := ∀ e, s.g.store.get? k = some e → e.soft = true

theorem soft_step {k : Nat} {s s' : BState} {a : Act} {o o' : Oracle} (hs : stepB s a o = .ok (s', o'))
    (hnp : ∀ c, s.w = .storePut c → c.k ≠ k) (h : SoftK k s) : SoftK k s' := by
  intro e' he'
  have heff := stepB_storeEff hs
  cases heff
  case same hst => rw [hst] at he'; exact h e' he'
  case put c exp hw _ _ hst => rw [hst, AMap.get?_set_other _ _ (hnp c hw)] at he'; exact h e' he'
  case del k1 hh e1 hw he1 hst =>
    rw [hst, AMap.get?_del] at he'
    split at he'
    · cases he'
    · exact h e' he'
  case evict c inc sm id wk hw hst =>
    rw [hst, AMap.get?_del] at he'
    split at he'
    · cases he'
    · exact h e' he'
  case sweep v now sh rest id wk hw hm hst =>
    rw [hst, AMap.get?_del] at he'
    split at he'
    · cases he'
    · exact h e' he'
  case mark i k1 e1 hpc he1 hst =>
    rw [hst, AMap.get?_set] at he'
    split at he'
    · cases he'; rfl
    · exact h e' he'
  case upsert i k1 v w ttl rm e1 exp hpc he1 hexp hst =>
    rw [hst, AMap.get?_set] at he'
    split at he'
    · rename_i hkk; subst hkk; cases he'; exact h e1 he1
    · exact h e' he'
  case clear i hpc hst => rw [hst] at he'; cases he'

/-- every entry of `k` in the store is the put's: its value, its key id, not soft-deleted -/
def ExactK (k v id : Nat) (s : BState) : Prop :=
  ∀ e, s.g.store.get? k = some e → e.value = v ∧ e.id = id ∧ e.soft = false

theorem exact_step {k v id : Nat} {s s' : BState} {a : Act} {o o' : Oracle} (hs : stepB s a o = .ok (s', o'))
    (hnp : ∀ c, s.w = .storePut c → c.k ≠ k) (hnm : ∀ j : Nat, s.cl[j]? ≠ some (.delMark k))
    (hnu : ∀ (j : Nat) v' w ttl rm, s.cl[j]? ≠ some (.upUpdate k v' w ttl rm)) (h : ExactK k v id s) :
    ExactK k v id s' := by
  intro e' he'
  have heff := stepB_storeEff hs
  cases heff
  case same hst => rw [hst] at he'; exact h e' he'
  case put c exp hw _ _ hst => rw [hst, AMap.get?_set_other _ _ (hnp c hw)] at he'; exact h e' he'
  case del k1 hh e1 hw he1 hst =>
    rw [hst, AMap.get?_del] at he'
    split at he'
    · cases he'
    · exact h e' he'
  case evict c inc sm id' wk hw hst =>
    rw [hst, AMap.get?_del] at he'
    split at he'
    · cases he'
    · exact h e' he'
  case sweep v0 now sh rest id' wk hw hm hst =>
    rw [hst, AMap.get?_del] at he'
    split at he'
    · cases he'
    · exact h e' he'
  case mark i k1 e1 hpc he1 hst =>
    rw [hst, AMap.get?_set] at he'
    split at he'
    · rename_i hkk; subst hkk; exact absurd hpc (hnm i)
    · exact h e' he'
  case upsert i k1 v0 w ttl rm e1 exp hpc he1 hexp hst =>
    rw [hst, AMap.get?_set] at he'
    split at he'
    · rename_i hkk; subst hkk; exact absurd hpc (hnu i v0 w ttl rm)
    · exact h e' he'
  case clear i hpc hst => rw [hst] at he'; cases he'

/-- a client outside every put / upsert / delete of `k` stands neither at `delete.mark(k)` nor at `upsert.update(k)` -/
theorem off_no_mark {k : Nat} {pc : CPc} (h : onK k pc = false) :
    pc ≠ .delMark k ∧ ∀ v' w ttl rm, pc ≠ .upUpdate k v' w ttl rm := by
  constructor
  · rintro rfl; simp [onK] at h
  · rintro v' w ttl rm rfl; simp [onK] at h

/-- induction along the rest of a run, the action and its index at hand -/
theorem run_induct' {cfg : Cfg} {now : Nat} {seeds : List Nat} {clients : Nat} {b0 b : BState}
    {h : List (BState × Act)} (hr0 : Reach cfg now seeds clients b0) (hrun : RunH b0 h b) (P : BState → Prop)
    {m : Nat}
    (hstep : ∀ (d : Nat) (s s' : BState) (a : Act) (o o' : Oracle), At h (m + d) (s, a) → StateAt h b (m + d + 1) s' →
      P s → stepB s a o = .ok (s', o') → P s')
    {s0 : BState} (hst0 : StateAt h b m s0) (h0 : P s0) :
    ∀ (d : Nat) (s : BState), StateAt h b (m + d) s → P s := by
  have _ := hr0
  intro d
  induction d with
  | zero => intro s hst; rw [← hst0.inj hst]; exact h0
  | succ d ih =>
    intro s' hst'
    obtain ⟨s1, a, o, o', hx, hs⟩ := stateAt_succ hrun (m := m + d) hst'
    exact hstep d s1 s' a o o' hx hst' (ih s1 (Or.inr ⟨a, hx⟩)) hs

/-- an idle client stays idle as long as it issues nothing -/
theorem idle_persists {b0 b : BState} {h : List (BState × Act)} (hrun : RunH b0 h b) {i lo hi : Nat}
    (hno : ∀ q r, lo ≤ q → q < hi → ¬ Issued h i r q) {s : BState} (hst : StateAt h b lo s)
    (hid : s.cl[i]? = some .idle) :
    ∀ (d : Nat) (s' : BState), lo + d ≤ hi → StateAt h b (lo + d) s' → s'.cl[i]? = some .idle := by
  intro d
  induction d with
  | zero => intro s' _ hst'; rw [← hst.inj hst']; exact hid
  | succ d ih =>
    intro s' hle hst'
    obtain ⟨s1, a, o, o', hx, hs⟩ := stateAt_succ hrun (m := lo + d) hst'
    have hid1 := ih s1 (by omega) (Or.inr ⟨a, hx⟩)
    have hai : a ≠ .client i := fun e => by subst e; exact absurd hs (client_idle_stuck hid1)
    have hni : ∀ r, a ≠ .issue i r := fun r e => hno (lo + d) r (by omega) (by omega) ⟨s1, e ▸ hx⟩
    rw [other_threads_keep_pc hs hai hni]; exact hid1

/-- the invariant of the put / delete pair in one of its shapes -/
def Good (k h₁ : Nat) (c₁ : PutCmd) (s : BState) : Prop :=
  ∃ H, (∃ ds, PDE k h₁ c₁ H ds s) ∨ ∃ h₂', PDL k h₁ c₁ H h₂' s

theorem good_nomoreput {k h₁ : Nat} {c₁ : PutCmd} {s : BState} (hch : c₁.h = some h₁) (hh : HInv s)
    (hpp : PP h₁ c₁ s) (hg : Good k h₁ c₁ s) : ∀ c, s.w = .storePut c → c.k ≠ k := by
  obtain ⟨H, ⟨ds, h⟩ | ⟨h₂', h⟩⟩ := hg
  · exact nomoreput_pde hch hh hpp h
  · exact nomoreput_pdl h

/-- the worker at the `store.put` of a put of `k` under the key id of the put: it is THE put -/
theorem good_storePut {k h₁ : Nat} {c₁ : PutCmd} {s : BState} (hb : BInv s) (hg : Good k h₁ c₁ s) {c : PutCmd}
    (hw : s.w = .storePut c) (hk : c.k = k) (hid : c.id = c₁.id) : c = c₁ := by
  obtain ⟨H, ⟨ds, h⟩ | ⟨h₂', h⟩⟩ := hg
  · cases h with
    | pq qa rest hq hrest =>
      exfalso
      have h1 := hb.freshIds.1 c₁.id
      have h2 : 1 ≤ (qIds s.g.queue).count c₁.id := by
        rw [hq, qIds_append, qIds_cons, cmdId?_cmdOfPut]
        simp only [Option.toList_some, List.singleton_append, List.count_append, List.count_cons_self]
        omega
      rw [occ_eq, hw] at h1
      simp only [WPc.freshId?, hid, Option.toList_some, List.count_cons_self, List.count_nil, qc] at h1
      omega
    | pw hc hrest httl => rw [hw] at hc; simp only [WPc.cmd?, Option.some.injEq] at hc; exact hc
    | pd pres lo hp hpres hoff hrest => exact absurd hk (woff_storePut hoff c hw)
    | dw0 h₂ pres lo hds hp hpres hw' hkf => rw [hw] at hw'; cases hw'
  · cases h with
    | dw1 lo d hp hd hlod hheld htail hkf hnone => rw [hw] at htail; cases htail
    | dd pres lo d st₂ hp hd hlod hack hres hkf hoff hnone hkw => exact absurd hk (woff_storePut hoff c hw)

/-- while the `Delete(k)` has not run its `store.remove` it waits in the queue, or the worker stands at that action -/
theorem pde_waits {k h₁ : Nat} {c₁ : PutCmd} {H : List (BState × Act)} {h₂ : Nat} {s : BState}
    (hi : PDE k h₁ c₁ H (some h₂) s) : h₂ ∈ qHandles s.g.queue ∨ s.w = .delStore k (some h₂) := by
  have hq : ∀ {rest : List (Cmd × Option Nat)}, RestOk k (some h₂) rest → (∀ p ∈ rest, p ∈ s.g.queue) →
      h₂ ∈ qHandles s.g.queue := by
    intro rest ⟨qb, qc, hr, _, _⟩ hsub
    refine mem_qHandles.mpr ⟨.delete k, hsub _ ?_⟩
    rw [hr]; simp
  cases hi with
  | pq qa rest hq0 hrest => exact Or.inl (hq hrest (fun p hp => by rw [hq0]; simp [hp]))
  | pw _ hrest _ => exact Or.inl (hq hrest (fun p hp => hp))
  | pd _ _ _ _ _ hrest => exact Or.inl (hq hrest (fun p hp => hp))
  | dw0 h₂' _ _ hds _ _ hw _ => cases hds; exact Or.inr hw

theorem pdl_absent {k h₁ : Nat} {c₁ : PutCmd} {H : List (BState × Act)} {h₂ : Nat} {s : BState}
    (hi : PDL k h₁ c₁ H h₂ s) : s.g.store.get? k = none := by
  cases hi with
  | dw1 _ _ _ _ _ _ _ _ hnone => exact hnone
  | dd _ _ _ _ _ _ _ _ _ _ _ hnone _ => exact hnone

/-- the invariant, read at a state after the put returned: the environment, and the put / delete pair in one of its
    shapes (inside the delete call the degenerate branch "returned early" of `J` is excluded: the call returns at `r₂`) -/
theorem good_at {b0 bf : BState} {hf : List (BState × Act)} {i k v : Nat} {w : Int} {ttl : Option Nat}
    {n₁ r₁ n₂ r₂ h₁ h₂ : Nat} (hrun : RunH b0 hf bf) (sc : Scen hf bf i k v w ttl n₁ r₁ n₂ r₂ h₁ h₂)
    (hinv : ∀ m s, StateAt hf bf m s → ∃ H, Sub H hf ∧ H.length = m ∧ J hf i k v w ttl n₁ r₁ n₂ r₂ h₁ h₂ H s)
    {c₁ : PutCmd} (hc₁ : IsCmd hf i k v w ttl r₁ h₁ c₁) {m : Nat} {s : BState} (hm : r₁ < m)
    (hst : StateAt hf bf m s) :
    Env i k s ∧ Good k h₁ c₁ s ∧
    (r₂ < m → (∀ pc, s.cl[i]? = some pc → onK k pc = false) ∧
      ∃ H, PDE k h₁ c₁ H (some h₂) s ∨ PDL k h₁ c₁ H h₂ s) := by
  obtain ⟨H, _, hlen, he, _, hP2, hP3, hP4⟩ := hinv m s hst
  subst hlen
  refine ⟨he, ?_, ?_⟩
  · by_cases h2 : H.length ≤ n₂
    · obtain ⟨_, c₁', hc', hpde⟩ := hP2 hm h2
      have := hc₁.unique hc'; subst this
      exact ⟨H, Or.inl ⟨none, hpde⟩⟩
    · by_cases h3 : H.length ≤ r₂
      · rcases hP3 (by omega) h3 with ⟨_, c₁', hc', hpde⟩ | hid
        · have := hc₁.unique hc'; subst this
          exact ⟨H, Or.inl ⟨none, hpde⟩⟩
        · exfalso
          obtain ⟨sB, _, hxB, _⟩ := sc.ret2
          have hidB := idle_persists hrun (lo := H.length) (hi := r₂)
            (fun q r h1 h2' => sc.same2 q r (by omega) h2') hst hid (r₂ - H.length) sB (by omega)
            (by rw [show H.length + (r₂ - H.length) = r₂ by omega]; exact Or.inr ⟨_, hxB⟩)
          obtain ⟨s', o, o', _, hstep, _⟩ := runH_at hrun hxB
          exact client_idle_stuck hidB hstep
      · obtain ⟨_, c₁', hc', hpd⟩ := hP4 (by omega)
        have := hc₁.unique hc'; subst this
        rcases hpd with h | h
        · exact ⟨H, Or.inl ⟨_, h⟩⟩
        · exact ⟨H, Or.inr ⟨_, h⟩⟩
  · intro h4
    obtain ⟨hoff, c₁', hc', hpd⟩ := hP4 h4
    have := hc₁.unique hc'; subst this
    exact ⟨hoff, H, hpd⟩

/-- client `i` is past its `delete.mark(k)`: it stands at the `cmd.send` of the `Delete(k)`, or outside every put / upsert
    / delete of `k` -/
def PastMark (i k : Nat) (s : BState) : Prop :=
  ∀ pc, s.cl[i]? = some pc → pc = .send (.delete k) ∨ onK k pc = false

theorem pastMark_step {i k : Nat} {s s' : BState} {a : Act} {o o' : Oracle} (hrun : s.g.shutting = false)
    (hs : stepB s a o = .ok (s', o')) (hiss : ∀ r, a = .issue i r → reqOnK k r = false) (hq : PastMark i k s) :
    PastMark i k s' := by
  intro pc' hpc'
  by_cases h1 : a = .client i
  · subst h1
    have hs' : clientAct s i o = .ok (s', o') := hs
    cases hpc : s.cl[i]? with
    | none => simp [clientAct, hpc] at hs'
    | some pc =>
      rcases hq pc hpc with rfl | hoff
      · rcases del_call_step hs' hrun (Or.inr (Or.inr hpc)) with ⟨_, hns⟩ | ⟨out, hret, _⟩
        · exact absurd hpc (hns _)
        · rw [hret.1] at hpc'; cases hpc'; exact Or.inr rfl
      · exact Or.inr (bool_false_of_imp ((client_tags hs' hpc hpc').1 k) hoff)
  · by_cases h2 : ∃ r, a = .issue i r
    · obtain ⟨r, rfl⟩ := h2
      obtain ⟨_, rfl⟩ := stepB_issue_inv hs
      have := pc_of_set hpc'; subst this
      exact Or.inr (hiss r rfl)
    · rw [other_threads_keep_pc hs h1 (fun r e => h2 ⟨r, e⟩)] at hpc'
      exact hq pc' hpc'

theorem pastMark_no_mark {i k : Nat} {s : BState} (he : Env i k s) (hq : PastMark i k s) :
    (∀ j : Nat, s.cl[j]? ≠ some (.delMark k)) ∧ ∀ (j : Nat) v' w ttl rm, s.cl[j]? ≠ some (.upUpdate k v' w ttl rm) := by
  have key : ∀ (j : Nat) (pc : CPc), s.cl[j]? = some pc →
      pc ≠ .delMark k ∧ ∀ v' w ttl rm, pc ≠ .upUpdate k v' w ttl rm := by
    intro j pc hpc
    by_cases hj : j = i
    · subst hj
      rcases hq pc hpc with rfl | hoff
      · exact ⟨by simp, by simp⟩
      · exact off_no_mark hoff
    · exact off_no_mark (he.others j pc hj hpc)
  exact ⟨fun j h => (key j _ h).1 rfl, fun j v' w ttl rm h => (key j _ h).2 v' w ttl rm rfl⟩

/-- **Right after the put's `store.put`**: the put's `store.put` has run (`PP`), and the store holds for `k` the put's
    entry — its value, its key id, NOT soft-deleted. -/
theorem after_putpoint {cfg : Cfg} {now : Nat} {seeds : List Nat} {clients : Nat} {b0 b : BState}
    {h : List (BState × Act)} (hr0 : Reach cfg now seeds clients b0) (hrun : RunH b0 h b) {k h₁ v v' : Nat}
    {c₁ : PutCmd} (hck : c₁.k = k) (hcv : c₁.v = v) (hch : c₁.h = some h₁) {p : Nat} {x : BState × Act}
    (hx : At h p x) (hput : isPut k v' c₁.id x) (hg : Good k h₁ c₁ x.1) :
    ∃ s' exp, StateAt h b (p + 1) s' ∧ PP h₁ c₁ s' ∧
      s'.g.store.get? k = some { value := v, id := c₁.id, expiry := exp, soft := false } := by
  obtain ⟨sp, a⟩ := x
  obtain ⟨ha, c, exp, hw, hk, _, hid, hexp⟩ := hput
  simp only at ha hw hk hid hexp hg
  subst ha
  have hrs := stateAt_reach hr0 hrun (Or.inr ⟨_, hx⟩ : StateAt h b p sp)
  have := good_storePut (binv_reach hrs) hg hw hk hid
  subst this
  obtain ⟨s', o, o', _, hstep, hst', _⟩ := runH_at hrun hx
  have hheld : sp.w.held = some h₁ := by rw [hw]; exact hch
  have hlt := (hinv_reach hrs).lt_held hheld
  obtain ⟨_, _, ⟨_, rfl⟩ | ⟨t, ht, hadd, rfl⟩ | ⟨t, e, _, _, rfl⟩⟩ := ent_workerAct_storePut hw (by simpa [stepB] using hstep)
  · refine ⟨_, none, hst', Or.inr ⟨.accepted, ?_, by simp⟩, ?_⟩
    · simp only [finishCmd, hch]; exact setAck_get_self _ _ hlt
    · simp only [finishCmd]; rw [hck, hcv]; exact AMap.get?_set_same _ _ _
  · rw [ht] at hexp; simp [putExpiry, hadd] at hexp
  · refine ⟨_, some e, hst', Or.inl ⟨e, rfl⟩, ?_⟩
    simp only []; rw [hck, hcv]; exact AMap.get?_set_same _ _ _

end PD
end B
end Cached
