/-
  Lemmas for ClosedRunning.lean (helper names carry the prefix `cr_`).

    1  `CRInv`: the run invariant behind `weight_used ≤ i64::MAX` — the total is an `i64`, and what the command worker has
       checked (`c.w ≤ max_weight` at `store.present`, `max_weight - weight_used ≥ c.w` at a `wu.space`) is still good when
       it gets to `wu.add`, because everybody else moves the total DOWN (positive charges: `BInv.pendingPos`) or to ZERO
       (`shutdown.wu_zero`); preserved by every action of every thread (`cr_inv_step`).
    2  `CrShut`: the shutdown flag is clear and no client stands inside `shutdown()` (its `start` included); preserved
       by every action but the issue of a `shutdown` request (`cr_noShut_step`).
-/
import CachedProofs.LayerB.Closed

namespace Cached
namespace B

/-! ## 1  the total is an `i64` -/

/-- what the worker's position promises about the total `used` under the limit `mx`:
    * from `wu.space` (first read) to `kw.insert`: the incoming weight is within the limit (checked at `store.present`);
    * with a free space `space` read earlier in hand: `used + space ≤ mx` still, unless the total has been zeroed
      or driven below zero since (`shutdown()`);
    * at `kw.insert` / `wu.add`: the weight about to be added fits under the limit. -/
def cr_wOk (mx used : Int) : WPc → Prop
  | .space0 c | .evRemove c _ _ _ | .evSub c _ _ _ _ | .evStore c _ _ _ _ | .evSpace c _ _ | .emptySpace c => c.w ≤ mx
  | .sampleInit c space _ | .fill c _ _ space => c.w ≤ mx ∧ (used + space ≤ mx ∨ used ≤ 0)
  | .insert c | .add c => c.w ≤ mx ∧ used + c.w ≤ mx
  | _ => True

/-- a total that went down, or is not positive, keeps the promise -/
theorem cr_wOk_mono {mx u u' : Int} {w : WPc} (h : cr_wOk mx u w) (hu : u' ≤ u ∨ u' ≤ 0) : cr_wOk mx u' w := by
  cases w <;> simp only [cr_wOk] at * <;> omega

/-- **The invariant**: the total is at most `i64::MAX`, and the worker's position keeps its promise. -/
structure CRInv (b : BState) : Prop where
  usedI : b.g.adm.used ≤ i64Max
  wOk : cr_wOk b.g.adm.max b.g.adm.used b.w

theorem cr_inv_init (cfg : Cfg) (now : Nat) (seeds : List Nat) (clients : Nat) (shardMap : List (Nat × Nat)) :
    CRInv { BState.init cfg now seeds clients with storeShard := shardMap } := by
  refine ⟨?_, ?_⟩
  · show (0 : Int) ≤ i64Max
    decide
  · show cr_wOk _ _ WPc.recv
    trivial

/-- `store.present`: the worker goes on to `wu.space` only with a weight within the limit -/
theorem cr_present_le {b b' : BState} {o o' : Oracle} {c c' : PutCmd} (hw : b.w = .present c)
    (h : workerAct b o = .ok (b', o')) (hw' : b'.w = .space0 c') : c'.w ≤ b.g.adm.max := by
  simp only [workerAct, hw] at h
  split at h
  · simp only [Except.ok.injEq, Prod.mk.injEq] at h; obtain ⟨rfl, rfl⟩ := h
    simp [finishCmd] at hw'
  · split at h
    · simp only [Except.ok.injEq, Prod.mk.injEq] at h; obtain ⟨rfl, rfl⟩ := h
      simp [rejectCmd, finishCmd] at hw'
    · rename_i hle
      simp only [Except.ok.injEq, Prod.mk.injEq] at h; obtain ⟨rfl, rfl⟩ := h
      simp only [WPc.space0.injEq] at hw'
      subst hw'
      omega

/-- `kw.update` of a charged id: a worker that survives has checked the new total -/
theorem cr_update_le {b b' : BState} {o o' : Oracle} {id : Nat} {w : Int} {hh : Option Nat} {wk : WKey}
    (hw : b.w = .update id w hh) (hg : b.g.adm.kw.get? id = some wk) (h : workerAct b o = .ok (b', o'))
    (hnd : b'.w ≠ .dead) : b.g.adm.used + (w - wk.weight) ≤ i64Max := by
  rcases np_workerAct_update hw h with ⟨hp, _⟩ | ⟨_, hd, _⟩
  · rw [hg] at hp
    simp only [updatePre, inI64, Bool.and_eq_true, decide_eq_true_eq] at hp
    exact hp.2.2
  · exact absurd hd hnd

theorem cr_inv_worker {b b' : BState} {o o' : Oracle} (hb : BInv b) (hmI : b.g.adm.max ≤ i64Max) (hi : CRInv b)
    (h : workerAct b o = .ok (b', o')) : CRInv b' := by
  have hx1 : ∀ c, b.w = .present c → ∀ c', b'.w = .space0 c' → c'.w ≤ b.g.adm.max :=
    fun c hw c' hw' => cr_present_le hw h hw'
  have hx2 : ∀ id w hh wk, b.w = .update id w hh → b.g.adm.kw.get? id = some wk → b'.w ≠ .dead →
      b.g.adm.used + (w - wk.weight) ≤ i64Max := fun id w hh wk hw hg hnd => cr_update_le hw hg h hnd
  obtain ⟨hu, hw⟩ := hi
  obtain ⟨hp1, hp2, hp3, -⟩ := hb.pendingPos
  have ht := workerAct_trans h
  clear h
  cases ht
  all_goals refine ⟨?_, ?_⟩
  all_goals simp_all [cr_wOk, finishCmd, rejectCmd, ttlPut, ttlDelete, WPc.victim?]
  all_goals omega

/-- the sweeper only subtracts (positive charges) -/
theorem cr_strans_used {b b' : BState} (hb : BInv b) (h : STrans b b') : b'.g.adm.used ≤ b.g.adm.used := by
  obtain ⟨-, -, -, hp4⟩ := hb.pendingPos
  cases h
  all_goals (try unfold sweepNext)
  all_goals (try split)
  all_goals simp_all [SPc.victim?]
  all_goals omega

/-- **Every action of every thread preserves `CRInv`** (limit an `i64`). -/
theorem cr_inv_step {b b' : BState} {a : Act} {o o' : Oracle} (hb : BInv b) (hmI : b.g.adm.max ≤ i64Max)
    (hi : CRInv b) (h : stepB b a o = .ok (b', o')) : CRInv b' := by
  have hb' := binv_step hb h
  cases a with
  | issue i r =>
    simp only [stepB] at h
    split at h
    · rename_i b1 hiss
      simp only [Except.ok.injEq, Prod.mk.injEq] at h; obtain ⟨rfl, rfl⟩ := h
      obtain ⟨_, rfl⟩ := issue_spec hiss
      exact ⟨hi.usedI, hi.wOk⟩
    · cases h
  | client i =>
    obtain ⟨pc, pc', f⟩ := clientAct_flow (show clientAct b i o = .ok (b', o') from h)
    have hmx : b'.g.adm.max = b.g.adm.max := by rw [hb'.maxFixed, hb.maxFixed, f.cfg]
    have h0 : (0 : Int) ≤ i64Max := by decide
    obtain ⟨hu, hw⟩ := hi
    refine ⟨?_, ?_⟩
    · rcases f.used with e | e <;> rw [e] <;> assumption
    · rw [hmx, f.w]
      refine cr_wOk_mono hw ?_
      rcases f.used with e | e <;> rw [e]
      · exact Or.inl (Int.le_refl _)
      · exact Or.inr (Int.le_refl _)
  | worker => exact cr_inv_worker hb hmI hi h
  | sweeper v =>
    simp only [stepB] at h
    split at h
    · rename_i b1 hs
      simp only [Except.ok.injEq, Prod.mk.injEq] at h; obtain ⟨rfl, rfl⟩ := h
      have ht := sweeperAct_trans hs
      have hle := cr_strans_used hb ht
      obtain ⟨hw', -, -, -, -, hmx⟩ := strans_frame ht
      obtain ⟨hu, hw⟩ := hi
      refine ⟨by omega, ?_⟩
      rw [hmx, hw']
      exact cr_wOk_mono hw (Or.inl hle)
    · cases h
  | consumer =>
    simp only [stepB] at h
    split at h
    · rename_i g' out o1 hc
      simp only [Except.ok.injEq, Prod.mk.injEq] at h; obtain ⟨rfl, rfl⟩ := h
      have hf := consumerStep_frame hc
      have hadm : g'.adm = b.g.adm := by rw [hf]
      refine ⟨?_, ?_⟩
      · show g'.adm.used ≤ _; rw [hadm]; exact hi.usedI
      · show cr_wOk g'.adm.max g'.adm.used b.w; rw [hadm]; exact hi.wOk
    · cases h
  | advance d =>
    simp only [stepB, Except.ok.injEq, Prod.mk.injEq] at h; obtain ⟨rfl, rfl⟩ := h
    exact ⟨hi.usedI, hi.wOk⟩

/-- `CRInv` at every reachable state of every interleaving, for a configured limit that is an `i64` -/
theorem cr_inv_reach {cfg : Cfg} {now : Nat} {seeds : List Nat} {clients : Nat} {b : BState}
    (hr : Reach cfg now seeds clients b) (hcI : cfg.maxWeight ≤ i64Max) : CRInv b := by
  induction hr with
  | init shardMap => exact cr_inv_init cfg now seeds clients shardMap
  | step hr' hs ih =>
    have hb := binv_reach hr'
    exact cr_inv_step hb (by rw [hb.maxFixed, reach_cfg hr']; exact hcI) ih hs

/-! ## 2  no `shutdown()` under way -/

/-- the request is `shutdown()` -/
def Req.cr_isShut : Req → Bool
  | .shutdown => true
  | _ => false

/-- the positions of a client inside `shutdown()`, its `start` included -/
def CPc.cr_shut : CPc → Bool
  | .start .shutdown | .shutCas | .shutSendCmd | .shutSendBuf | .shutConsumerFlag | .shutTickerFlag | .shutStoreClear
  | .shutKwClear | .shutWuZero | .shutAfClear | .shutStatsClear | .shutTtlClear => true
  | _ => false

theorem cr_shut_of_afterCas {pc : CPc} (h : pc.afterCas = true) : pc.cr_shut = true := by
  cases pc <;> simp_all [CPc.afterCas, CPc.cr_shut]

theorem cr_shut_of_usedId {pc : CPc} {id : Nat} (h : pc.usedId? = some id) : pc.cr_shut = false := by
  cases pc <;> simp_all [CPc.usedId?, CPc.cr_shut]

theorem cr_shut_of_isMget {pc : CPc} (h : pc.isMget = true) : pc.cr_shut = false := by
  cases pc <;> simp_all [CPc.isMget, CPc.cr_shut]

/-- **The shutdown flag is clear and no client stands inside `shutdown()`.** -/
structure CrShut (b : BState) : Prop where
  flag : b.g.shutting = false
  cl : ∀ (i : Nat) (pc : CPc), b.cl[i]? = some pc → pc.cr_shut = false

theorem cr_noShut_init (cfg : Cfg) (now : Nat) (seeds : List Nat) (clients : Nat) (shardMap : List (Nat × Nat)) :
    CrShut { BState.init cfg now seeds clients with storeShard := shardMap } := by
  refine ⟨rfl, ?_⟩
  intro i pc h
  simp only [BState.init, List.getElem?_replicate] at h
  split at h
  · cases h; rfl
  · cases h

/-- the only client action that sets the shutdown flag is `shutdown.cas` -/
theorem cr_ctrans_shutting {b b' : BState} {i : Nat} (h : CTrans b i b') :
    b'.g.shutting = b.g.shutting ∨ b.cl[i]? = some .shutCas := by
  cases h
  case getPool hp => rw [poolAdd_frame hp]; simp [finishCall]
  case refPool hp => rw [poolAdd_frame hp]; simp [finishCall]
  case shutLocal hg => rw [hg]; simp [setClient]
  case mgetStep hg => rw [hg]; simp [setClient]
  case mgetFin hg => rw [hg]; simp [finishCall]
  case shutCas hpc _ => exact Or.inr hpc
  case upAfterSame => rcases upAfterIndex_spec b i _ _ with ⟨_, h⟩ | ⟨_, _, h⟩ | h <;> rw [h] <;> simp [finishCall, setClient, spotFinish]
  case upAfterPut id e uw _ _ _ =>
    rcases upAfterIndex_spec { b with g := ttlPut b.g id e } i id uw with ⟨_, h⟩ | ⟨_, _, h⟩ | h <;> rw [h] <;>
      simp [finishCall, setClient, spotFinish, ttlPut]
  case upAfterDelete id e uw _ _ =>
    rcases upAfterIndex_spec { b with g := ttlDelete b.g id e } i id uw with ⟨_, h⟩ | ⟨_, _, h⟩ | h <;> rw [h] <;>
      simp [finishCall, setClient, spotFinish, ttlDelete]
  all_goals simp [finishCall, setClient, spotFinish, ttlDelete]

/-- the first action of a call other than `shutdown()` does not lead into `shutdown()` -/
theorem cr_start_next {b b' : BState} {i : Nat} {o o' : Oracle} {r : Req} {pc' : CPc}
    (hpc : b.cl[i]? = some (.start r)) (hr : r.cr_isShut = false) (h : clientAct b i o = .ok (b', o'))
    (hpc' : b'.cl[i]? = some pc') : pc'.cr_shut = false := by
  have hlt : i < b.cl.length := (List.getElem?_eq_some_iff.mp hpc).1
  unfold clientAct at h
  simp only [hpc] at h
  split at h
  · cases r <;> simp only [Except.ok.injEq, Prod.mk.injEq] at h <;> obtain ⟨rfl, rfl⟩ := h
    case shutdown => cases hr
    case mget ks iter =>
      rcases mgetStart_spec b i ks iter with ⟨_, _, e⟩ | ⟨_, e⟩ <;> rw [e] at hpc' <;>
        simp [finishCall, setClient, hlt] at hpc' <;> subst hpc' <;> rfl
    all_goals (simp [finishCall, setClient, hlt] at hpc'; subst hpc'; rfl)
  · cases r <;> simp only [] at h
    case shutdown => cases hr
    case putW k v w ttl =>
      split at h
      all_goals simp only [Except.ok.injEq, Prod.mk.injEq] at h; obtain ⟨rfl, rfl⟩ := h
      all_goals (simp [finishCall, setClient, hlt] at hpc'; subst hpc'; rfl)
    case mget ks iter =>
      simp only [Except.ok.injEq, Prod.mk.injEq] at h; obtain ⟨rfl, rfl⟩ := h
      rcases mgetStart_spec b i ks iter with ⟨_, _, e⟩ | ⟨_, e⟩ <;> rw [e] at hpc' <;>
        simp [finishCall, setClient, hlt] at hpc' <;> subst hpc' <;> rfl
    all_goals simp only [Except.ok.injEq, Prod.mk.injEq] at h; obtain ⟨rfl, rfl⟩ := h
    all_goals (simp [setClient, hlt] at hpc'; subst hpc'; rfl)

/-- where client `i` stands after one of its actions, if it was not inside `shutdown()` before: not inside it -/
theorem cr_client_next {b b' : BState} {i : Nat} {o o' : Oracle} {pc pc' : CPc} (hpc : b.cl[i]? = some pc)
    (hq : pc.cr_shut = false) (h : clientAct b i o = .ok (b', o')) (hpc' : b'.cl[i]? = some pc') :
    pc'.cr_shut = false := by
  have hlt : i < b.cl.length := (List.getElem?_eq_some_iff.mp hpc).1
  have ht := clientAct_trans h
  cases ht
  case startPlain r pc1 hp1 _ =>
    rw [hpc] at hp1; cases hp1
    refine cr_start_next hpc ?_ h hpc'
    cases r <;> first | rfl | cases hq
  case upWeightOfTtl id uw old new pc1 _ hu _ _ =>
    simp [setClient, hlt] at hpc'; subst hpc'
    exact cr_shut_of_usedId hu
  case upAfterSame id uw old new _ =>
    rcases upAfterIndex_spec b i id uw with ⟨_, e⟩ | ⟨_, _, e⟩ | e <;> rw [e] at hpc' <;>
      simp [finishCall, setClient, spotFinish, hlt] at hpc' <;> subst hpc' <;> rfl
  case upAfterPut pc1 id e uw _ _ _ =>
    rcases upAfterIndex_spec { b with g := ttlPut b.g id e } i id uw with ⟨_, e⟩ | ⟨_, _, e⟩ | e <;> rw [e] at hpc' <;>
      simp [finishCall, setClient, spotFinish, hlt] at hpc' <;> subst hpc' <;> rfl
  case upAfterDelete id e uw _ _ =>
    rcases upAfterIndex_spec { b with g := ttlDelete b.g id e } i id uw with ⟨_, e⟩ | ⟨_, _, e⟩ | e <;> rw [e] at hpc' <;>
      simp [finishCall, setClient, spotFinish, hlt] at hpc' <;> subst hpc' <;> rfl
  case shutCas hp1 _ => rw [hpc] at hp1; cases hp1; cases hq
  case shutSendCmd hp1 _ => rw [hpc] at hp1; cases hp1; cases hq
  case shutLocal pc1 pc2 g' hp1 ha _ _ =>
    rw [hpc] at hp1; cases hp1
    rw [cr_shut_of_afterCas ha] at hq; cases hq
  case shutStoreClear hp1 _ => rw [hpc] at hp1; cases hp1; cases hq
  case shutKwClear hp1 => rw [hpc] at hp1; cases hp1; cases hq
  case shutWuZero hp1 _ => rw [hpc] at hp1; cases hp1; cases hq
  case shutTtlClear hp1 _ => rw [hpc] at hp1; cases hp1; cases hq
  case mgetStep pc1 pc2 g' _ _ hm _ =>
    simp [setClient, hlt] at hpc'; subst hpc'
    exact cr_shut_of_isMget hm
  all_goals (simp [finishCall, setClient, spotFinish, hlt] at hpc'; subst hpc'; rfl)

/-- one action of a client: `CrShut` is preserved -/
theorem cr_noShut_client {b b' : BState} {i : Nat} {o o' : Oracle} (hq : CrShut b)
    (h : clientAct b i o = .ok (b', o')) : CrShut b' := by
  obtain ⟨pc, pc', f⟩ := clientAct_flow h
  have hpcq := hq.cl i pc f.hpc
  refine ⟨?_, ?_⟩
  · rcases cr_ctrans_shutting (clientAct_trans h) with e | e
    · rw [e]; exact hq.flag
    · rw [f.hpc] at e; cases e; cases hpcq
  · intro j pcj hj
    by_cases hji : j = i
    · subst hji
      exact cr_client_next f.hpc hpcq h hj
    · rw [f.cl, List.getElem?_set_ne (fun e => hji e.symm)] at hj
      exact hq.cl j pcj hj

theorem cr_wtrans_shutting {b b' : BState} (h : WTrans b b') : b'.g.shutting = b.g.shutting := by
  cases h <;> simp [finishCmd, rejectCmd, ttlPut, ttlDelete]

/-- **Every action but the issue of a `shutdown` request preserves `CrShut`.** -/
theorem cr_noShut_step {b b' : BState} {a : Act} {o o' : Oracle} (hq : CrShut b)
    (ha : ∀ i r, a = .issue i r → r.cr_isShut = false) (h : stepB b a o = .ok (b', o')) : CrShut b' := by
  cases a with
  | issue i r =>
    simp only [stepB] at h
    split at h
    · rename_i b1 hiss
      simp only [Except.ok.injEq, Prod.mk.injEq] at h; obtain ⟨rfl, rfl⟩ := h
      obtain ⟨hidle, rfl⟩ := issue_spec hiss
      refine ⟨hq.flag, ?_⟩
      intro j pcj hj
      simp only [setClient, List.getElem?_set] at hj
      split at hj
      · split at hj
        · cases hj
          have := ha i r rfl
          cases r <;> first | rfl | cases this
        · cases hj
      · exact hq.cl j pcj hj
    · cases h
  | client i => exact cr_noShut_client hq h
  | worker =>
    have ht := workerAct_trans (show workerAct b o = .ok (b', o') from h)
    exact ⟨by rw [cr_wtrans_shutting ht]; exact hq.flag, by rw [(wtrans_cl ht).1]; exact hq.cl⟩
  | sweeper v =>
    simp only [stepB] at h
    split at h
    · rename_i b1 hs
      simp only [Except.ok.injEq, Prod.mk.injEq] at h; obtain ⟨rfl, rfl⟩ := h
      have ht := sweeperAct_trans hs
      exact ⟨by rw [(strans_frame2 ht).1]; exact hq.flag, by rw [(strans_frame ht).2.1]; exact hq.cl⟩
    · cases h
  | consumer =>
    simp only [stepB] at h
    split at h
    · rename_i g' out o1 hc
      simp only [Except.ok.injEq, Prod.mk.injEq] at h; obtain ⟨rfl, rfl⟩ := h
      have hf := consumerStep_frame hc
      exact ⟨by show g'.shutting = false; rw [hf]; exact hq.flag, hq.cl⟩
    · cases h
  | advance d =>
    simp only [stepB, Except.ok.injEq, Prod.mk.injEq] at h; obtain ⟨rfl, rfl⟩ := h
    exact ⟨hq.flag, hq.cl⟩

end B
end Cached
