/-
  C08 ("put_or_update changes exactly what was requested, or acts as put") at ACTION granularity: the caller-side
  programme of `put_or_update` is the chain of atomic actions
      upsert.update → upsert.weight_of → (ttl.put | ttl.delete | ttl.update.remove → ttl.update.insert)? → cmd.send
  of Layer B (CachedModel/LayerB.lean), and ANY other thread may run between two of them.

  Layout
    0  vocabulary: `upsB_deadline` (the requested deadline), `upExpiry` (Entries.lean) characterised
    1  `C08_layerB_update_step` (the `upsert.update` action, exactly: present / time overflow / absent → put programme /
       absent → panics), `C08_layerB_update_effect` (field by field)
    2  `upsB_uw2` (= Layer A's weight, `upsB_uw2_eq_upsertWeight`), `C08_layerB_weightOf_step`, `C08_layerB_after_index`,
       `C08_layerB_index_steps` (`upsB_index_eq_layerA`: = Layer A's index update), `C08_layerB_send_step`
    3  `C08_layerB_sends_update_weight`: along any run, the `UpdateWeight(id, w)` a client is about to send carries the
       id found at ITS `upsert.update` and the weight computed at ITS `upsert.weight_of` (history predicates
       `upsB_Updated`, `upsB_Weighed`, position invariant `upsB_PcInv`)
    4  `C08_layerB_only_upsert_changes_value_or_expiry` (one action; `…_reach`), `…_run` (between two states of a run;
       uses "ids are never reused", `upsB_spent_step`)
    5  concrete runs: non-vacuity of every implication, and the race observations
       `C08_layerB_race_observations` = `…_stale_weight` ∧ `…_delete` ∧ `…_index_leak`

  Nothing here is FALSE of the model as stated in the task; the observations of section 5 are consequences of the
  read–compute–send structure of `put_or_update` (see there).

  After fix c86efeb (`weight_of` answers an `Option`): `upsB_uw2` takes the charged weight as an `Option Int`
  (`chargedWeight?` of Lemmas/Upsert.lean) — a pure time-to-live change of a key id that is NOT charged at
  `upsert.weight_of` hands on NO weight, so nothing is sent and the call answers Accepted on the spot (it computed
  `0 ± 24` before, and panicked on `0 − 24`); see the example "not charged at `upsert.weight_of`" in section 5.  All
  race observations of section 5 evaluate as before: in each of them the id IS charged when `upsert.weight_of` runs, or a
  weight is given / recomputed.  The finding of Expiry.lean (D13) is repaired by fix 36c87dc
  (`C09_layerB_extension_race_keeps_key` there).
-/
import CachedProofs.LayerB.BijectionLemmas
import CachedProofs.Lemmas.Upsert

namespace Cached
namespace B

/-! ## 0  vocabulary -/

/-- the deadline a `put_or_update` asks for, the clock reading `now`: none (`remove_time_to_live`), `now + ttl`, or the
    old one -/
def upsB_deadline (now : Nat) (ttl : Option Nat) (rm : Bool) (old : Option Nat) : Option Nat :=
  if rm then none else match ttl with | some t => some (now + t) | none => old

theorem upsB_upExpiry_some {now : Nat} {ttl : Option Nat} {rm : Bool} {old exp : Option Nat}
    (h : upExpiry now ttl rm old = some exp) :
    exp = upsB_deadline now ttl rm old ∧ (∀ t, ttl = some t → rm = false → addTime now t = some (now + t)) := by
  unfold upExpiry at h
  unfold upsB_deadline
  cases rm with
  | true => exact ⟨by simpa using h.symm, fun t _ hr => by cases hr⟩
  | false =>
    cases ttl with
    | none => exact ⟨by simpa using h.symm, fun t ht _ => by cases ht⟩
    | some t =>
      simp only [Bool.false_eq_true, if_false] at h ⊢
      cases ha : addTime now t with
      | none => simp [ha] at h
      | some x =>
        simp only [ha, Option.some.injEq] at h
        have hx := addTime_eq_some ha
        subst hx
        refine ⟨h.symm, fun t' ht' _ => ?_⟩
        cases ht'; exact ha

theorem upsB_upExpiry_none {now : Nat} {ttl : Option Nat} {rm : Bool} {old : Option Nat}
    (h : upExpiry now ttl rm old = none) : rm = false ∧ ∃ t, ttl = some t ∧ addTime now t = none := by
  unfold upExpiry at h
  cases rm with
  | true => simp at h
  | false =>
    cases ttl with
    | none => simp at h
    | some t =>
      refine ⟨rfl, t, rfl, ?_⟩
      cases ha : addTime now t with
      | none => rfl
      | some x => simp [ha] at h

theorem upsB_upExpiry_of {now : Nat} {ttl : Option Nat} {rm : Bool} (old : Option Nat)
    (hov : ∀ t, ttl = some t → rm = false → addTime now t = some (now + t)) :
    upExpiry now ttl rm old = some (upsB_deadline now ttl rm old) := by
  unfold upExpiry upsB_deadline
  cases rm with
  | true => rfl
  | false =>
    cases ttl with
    | none => rfl
    | some t => simp [hov t rfl rfl]

theorem upsB_lt {b : BState} {i : Nat} {pc : CPc} (h : b.cl[i]? = some pc) : i < b.cl.length := by
  rcases Nat.lt_or_ge i b.cl.length with h' | h'
  · exact h'
  · rw [List.getElem?_eq_none h'] at h; cases h

theorem upsB_stepB_client {b : BState} {i : Nat} {o : Oracle} : stepB b (.client i) o = clientAct b i o := rfl

/-! ## 1  `upsert.update` -/

/-- **C08 (1): the `upsert.update` action, exactly.**  Client `i` stands at `upsert.update` of
    `put_or_update(k, value v, weight w, ttl, remove_ttl rm)`.  If the action runs, no OTHER thread keeps a read guard
    on the key's store shard (its enabling condition), no oracle value is consumed, and

    * key PHYSICALLY PRESENT (entry `e`), deadline representable: the entry is replaced by
      `{ e with value := v.getD e.value, expiry := requested deadline }` — same id, same deletion flag — NOTHING else of
      the shared state changes, and the client moves on to `upsert.weight_of` carrying the entry's id, the weight of the
      request (`upWeight`: explicit, else recomputed from the value, else none), the old and the new deadline;
    * key present, `now + ttl` not representable: the call panics (`timeOverflow`), nothing is changed;
    * key ABSENT, value given: the put programme — on to `id.next` with the value, the weight (explicit or computed; it
      is asserted positive first) and the time-to-live; `rm` is ignored;
    * key absent, no value: the documented precondition panic (`upsertValueMissing`), even if a weight was given. -/
theorem C08_layerB_update_step {b b' : BState} {i k : Nat} {v : Option Nat} {w : Option Int} {ttl : Option Nat}
    {rm : Bool} {o o' : Oracle} (hpc : b.cl[i]? = some (.upUpdate k v w ttl rm))
    (h : stepB b (.client i) o = .ok (b', o')) :
    storeWritable b k (some i) = true ∧ o' = o ∧
    ((∃ e, b.g.store.get? k = some e ∧
        (∀ t, ttl = some t → rm = false → addTime b.g.now t = some (b.g.now + t)) ∧
        b' = setClient { b with g := { b.g with store := b.g.store.set k { e with expiry := upsB_deadline b.g.now ttl rm e.expiry, value := v.getD e.value } } }
               i (.upWeightOf e.id (upWeight b.g.cfg v w ttl) e.expiry (upsB_deadline b.g.now ttl rm e.expiry))) ∨
     (∃ e t, b.g.store.get? k = some e ∧ rm = false ∧ ttl = some t ∧ addTime b.g.now t = none ∧
        b' = finishCall b i (.panic .timeOverflow)) ∨
     (b.g.store.get? k = none ∧ ∃ val weight, v = some val ∧ upWeight b.g.cfg v w ttl = some weight ∧ 0 < weight ∧
        b' = setClient b i (.idNext k val weight ttl)) ∨
     (b.g.store.get? k = none ∧ ∃ val weight, v = some val ∧ upWeight b.g.cfg v w ttl = some weight ∧ weight ≤ 0 ∧
        b' = finishCall b i (.panic .weightNotPositive)) ∨
     (b.g.store.get? k = none ∧ v = none ∧ b' = finishCall b i (.panic .upsertValueMissing))) := by
  rw [upsB_stepB_client] at h
  cases hk : b.g.store.get? k with
  | some e =>
    obtain ⟨hwr, ho, ⟨hk', _⟩ | ⟨e', hk', hx, hb'⟩ | ⟨e', exp, hk', hx, hb'⟩⟩ := ent_clientAct_upUpdate hpc h
    · rw [hk] at hk'; cases hk'
    · rw [hk] at hk'; cases hk'
      obtain ⟨hrm, t, ht, ha⟩ := upsB_upExpiry_none hx
      exact ⟨hwr, ho, Or.inr (Or.inl ⟨e, t, rfl, hrm, ht, ha, hb'⟩)⟩
    · rw [hk] at hk'; cases hk'
      obtain ⟨he, hov⟩ := upsB_upExpiry_some hx
      subst he
      exact ⟨hwr, ho, Or.inl ⟨e, rfl, hov, hb'⟩⟩
  | none =>
    unfold clientAct at h
    simp only [hpc, hk] at h
    split at h
    · cases h
    · rename_i hwr
      simp only [Bool.not_eq_true, Bool.not_eq_false'] at hwr
      refine ⟨hwr, ?_⟩
      cases v with
      | none =>
        cases w <;> simp only [Except.ok.injEq, Prod.mk.injEq] at h <;> obtain ⟨rfl, rfl⟩ := h <;>
          exact ⟨rfl, Or.inr (Or.inr (Or.inr (Or.inr ⟨rfl, rfl, rfl⟩)))⟩
      | some val =>
        cases w with
        | some x =>
          dsimp only at h
          split at h
          · rename_i hle
            simp only [Except.ok.injEq, Prod.mk.injEq] at h; obtain ⟨rfl, rfl⟩ := h
            exact ⟨rfl, Or.inr (Or.inr (Or.inr (Or.inl ⟨rfl, val, x, rfl, rfl, hle, rfl⟩)))⟩
          · rename_i hle
            simp only [Except.ok.injEq, Prod.mk.injEq] at h; obtain ⟨rfl, rfl⟩ := h
            exact ⟨rfl, Or.inr (Or.inr (Or.inl ⟨rfl, val, x, rfl, rfl, by omega, rfl⟩))⟩
        | none =>
          dsimp only [Option.map] at h
          split at h
          · rename_i hle
            simp only [Except.ok.injEq, Prod.mk.injEq] at h; obtain ⟨rfl, rfl⟩ := h
            exact ⟨rfl, Or.inr (Or.inr (Or.inr (Or.inl ⟨rfl, val, b.g.cfg.weightOf val ttl.isSome, rfl, rfl, hle, rfl⟩)))⟩
          · rename_i hle
            simp only [Except.ok.injEq, Prod.mk.injEq] at h; obtain ⟨rfl, rfl⟩ := h
            exact ⟨rfl, Or.inr (Or.inr (Or.inl ⟨rfl, val, b.g.cfg.weightOf val ttl.isSome, rfl, rfl, by omega, rfl⟩))⟩

/-- … field by field: what the `upsert.update` action on a physically present key leaves behind. -/
theorem C08_layerB_update_effect {b b' : BState} {i k : Nat} {v : Option Nat} {w : Option Int} {ttl : Option Nat}
    {rm : Bool} {o o' : Oracle} {e : Entry} (hpc : b.cl[i]? = some (.upUpdate k v w ttl rm))
    (h : stepB b (.client i) o = .ok (b', o')) (hk : b.g.store.get? k = some e)
    (hov : ∀ t, ttl = some t → rm = false → addTime b.g.now t = some (b.g.now + t)) :
    (∃ e', b'.g.store.get? k = some e' ∧ e'.id = e.id ∧ e'.soft = e.soft ∧ e'.value = v.getD e.value ∧
      e'.expiry = (if rm then none else match ttl with | some t => some (b.g.now + t) | none => e.expiry)) ∧
    (∀ k', k' ≠ k → b'.g.store.get? k' = b.g.store.get? k') ∧
    b'.g = { b.g with store := b'.g.store } ∧
    b'.g.adm = b.g.adm ∧ b'.g.ttl = b.g.ttl ∧ b'.g.queue = b.g.queue ∧ b'.g.acks = b.g.acks ∧ b'.g.now = b.g.now ∧
    b'.g.nextId = b.g.nextId ∧ b'.w = b.w ∧ b'.sw = b.sw ∧ b'.res = b.res ∧ (∀ j, j ≠ i → b'.cl[j]? = b.cl[j]?) ∧
    b'.cl[i]? = some (.upWeightOf e.id (upWeight b.g.cfg v w ttl) e.expiry (upsB_deadline b.g.now ttl rm e.expiry)) := by
  obtain ⟨_, _, ⟨e1, hk1, _, rfl⟩ | ⟨e1, t, _, hrm, ht, ha, _⟩ | ⟨hk1, _⟩ | ⟨hk1, _⟩ | ⟨hk1, _⟩⟩ :=
    C08_layerB_update_step hpc h
  · rw [hk] at hk1; cases hk1
    refine ⟨⟨_, AMap.get?_set_same _ _ _, rfl, rfl, rfl, rfl⟩, fun k' hk' => AMap.get?_set_other _ _ (Ne.symm hk'),
      rfl, rfl, rfl, rfl, rfl, rfl, rfl, rfl, rfl, rfl, fun j hj => ?_, ?_⟩
    · simp only [setClient]; exact List.getElem?_set_ne (Ne.symm hj)
    · simp only [setClient]; exact List.getElem?_set_self (upsB_lt hpc)
  · rw [hov t ht hrm] at ha; cases ha
  · rw [hk] at hk1; cases hk1
  · rw [hk] at hk1; cases hk1
  · rw [hk] at hk1; cases hk1

/-! ## 2  `upsert.weight_of` and the index actions -/

/-- the weight `put_or_update` hands on after `upsert.weight_of` (Layer A's `uw2`): the weight of the request if there
    is one (explicit, or recomputed from the new value); else the weight `existing` charged for the id at this very
    action `± ttl_ticker_entry_size` when a time-to-live is added to / removed from the key — if the id is charged at
    all (`existing = none`: no weight, fix c86efeb); else none -/
def upsB_uw2 (cfg : Cfg) (uw : Option Int) (existing : Option Int) (old new : Option Nat) : Option Int :=
  match typeOfExpiryUpdate old new with
  | .added _ => (match uw with | some x => some x | none => existing.map (· + cfg.ttlEntry))
  | .deleted _ => (match uw with | some x => some x | none => existing.map (· - cfg.ttlEntry))
  | .updated _ _ => uw
  | .nothing => uw

/-- it IS Layer A's weight (`upsertWeight` of Lemmas/Upsert.lean, the weight of `Cached.C08_weight_command`), with the
    charged weight (`chargedWeight?`: none if the id is not charged) read in the state `s` -/
theorem upsB_uw2_eq_upsertWeight (s : State) (e : Entry) (v : Option Nat) (w : Option Int) (ttl : Option Nat)
    (ne : Option Nat) :
    upsB_uw2 s.cfg (upWeight s.cfg v w ttl) (chargedWeight? s e.id) e.expiry ne = upsertWeight s e v w ttl ne := by
  unfold upsB_uw2 upWeight upsertWeight
  cases w with
  | some x => cases typeOfExpiryUpdate e.expiry ne <;> rfl
  | none =>
    cases v with
    | some val => cases typeOfExpiryUpdate e.expiry ne <;> rfl
    | none =>
      cases e.expiry with
      | none => cases ne <;> rfl
      | some a =>
        cases ne with
        | none => rfl
        | some c => by_cases hac : a = c <;> simp [typeOfExpiryUpdate, hac]

/-- the index actions of Layer B, run one after the other, are Layer A's index update (`upsertIndex`) -/
theorem upsB_index_eq_layerA (s : State) (id : Nat) (old new : Option Nat) :
    (match typeOfExpiryUpdate old new with
     | .added n => (ttlPut s id n).ttl
     | .deleted e => (ttlDelete s id e).ttl
     | .updated e n => (ttlPut (ttlDelete s id e) id n).ttl
     | .nothing => s.ttl) = upsertIndex s id old new := by
  unfold upsertIndex
  cases typeOfExpiryUpdate old new <;> rfl

/-- **C08 (2a): the `upsert.weight_of` action, exactly.**  It reads the weight charged for the id NOW (`chargedWeight?`:
    none if the id is not charged), changes nothing of the shared state, and moves on — carrying Layer A's `uw2` — to the index action
    `type_of_expiry_update(old, new)` asks for, or straight to the tail (`upAfterIndex`) when the index needs nothing. -/
theorem C08_layerB_weightOf_step {b b' : BState} {i id : Nat} {uw : Option Int} {old new : Option Nat} {o o' : Oracle}
    (hpc : b.cl[i]? = some (.upWeightOf id uw old new)) (h : stepB b (.client i) o = .ok (b', o')) :
    o' = o ∧
    (match typeOfExpiryUpdate old new with
     | .added n => b' = setClient b i (.upTtlPut id n (upsB_uw2 b.g.cfg uw (chargedWeight? b.g id) old new))
     | .deleted e => b' = setClient b i (.upTtlDelete id e (upsB_uw2 b.g.cfg uw (chargedWeight? b.g id) old new))
     | .updated e n => b' = setClient b i (.upTtlRemove id e n (upsB_uw2 b.g.cfg uw (chargedWeight? b.g id) old new))
     | .nothing => b' = upAfterIndex b i id (upsB_uw2 b.g.cfg uw (chargedWeight? b.g id) old new)) := by
  rw [upsB_stepB_client] at h
  unfold clientAct at h
  simp only [hpc] at h
  unfold upsB_uw2 chargedWeight?
  cases ht : typeOfExpiryUpdate old new <;> simp only [ht] at h ⊢ <;>
    simp only [Except.ok.injEq, Prod.mk.injEq] at h <;> obtain ⟨rfl, rfl⟩ := h <;> exact ⟨rfl, rfl⟩

/-- **The tail of `put_or_update`** (no schedule point between the last index action and it): a weight that is due is
    asserted to fit `i64` and to be positive — the call panics otherwise, AFTER entry and index were changed — and the
    client moves on to `cmd.send` of `UpdateWeight(id, weight)`; when no weight is due the call returns an Accepted
    acknowledgement on the spot and nothing is sent. -/
theorem C08_layerB_after_index (b : BState) (i id : Nat) (uw : Option Int) :
    (∀ weight, uw = some weight → inI64 weight = true → 0 < weight →
      upAfterIndex b i id uw = setClient b i (.send (.updateWeight id weight))) ∧
    (∀ weight, uw = some weight → inI64 weight = false →
      upAfterIndex b i id uw = finishCall b i (.panic .weightOverflow)) ∧
    (∀ weight, uw = some weight → inI64 weight = true → weight ≤ 0 →
      upAfterIndex b i id uw = finishCall b i (.panic .weightNotPositive)) ∧
    (uw = none → upAfterIndex b i id uw = spotFinish b i .accepted) := by
  refine ⟨?_, ?_, ?_, ?_⟩
  · intro weight hu h1 h2
    have : ¬ weight ≤ 0 := by omega
    simp [upAfterIndex, hu, h1, this]
  · intro weight hu h1
    simp [upAfterIndex, hu, h1]
  · intro weight hu h1 h2
    simp [upAfterIndex, hu, h1, h2]
  · intro hu
    simp [upAfterIndex, hu]

/-- the tail touches nothing of the shared state but the list of acknowledgements -/
theorem upsB_upAfterIndex_g (b : BState) (i id : Nat) (uw : Option Int) :
    (upAfterIndex b i id uw).g = { b.g with acks := (upAfterIndex b i id uw).g.acks } ∧
    (upAfterIndex b i id uw).w = b.w ∧ (upAfterIndex b i id uw).sw = b.sw := by
  rcases upAfterIndex_spec b i id uw with ⟨_, h⟩ | ⟨_, _, h⟩ | h <;> rw [h] <;> exact ⟨rfl, rfl, rfl⟩

/-- **C08 (2b): the index actions, exactly.**  Each of `ttl.put`, `ttl.delete`, `ttl.update.remove`,
    `ttl.update.insert` runs only while the sweeper does not hold the lock of the entry's shard, consumes no oracle
    value, and changes exactly ONE entry of the expiry index — the one of the id carried from `upsert.update`, in the
    shard of the deadline — as Layer A's `ttlPut` / `ttlDelete` / `ttlUpdate` (= `ttlDelete` then `ttlPut`) do; store
    and admission part are untouched; the weight is handed on unchanged, to the tail or to `ttl.update.insert`. -/
theorem C08_layerB_index_steps {b b' : BState} {i : Nat} {o o' : Oracle} (h : stepB b (.client i) o = .ok (b', o')) :
    (∀ id e uw, b.cl[i]? = some (.upTtlPut id e uw) →
      ttlFree b (shardOf b.g.cfg e) = true ∧ o' = o ∧ b' = upAfterIndex { b with g := ttlPut b.g id e } i id uw ∧
      b'.g.ttl = b.g.ttl.set (shardOf b.g.cfg e, id) e ∧ b'.g.store = b.g.store ∧ b'.g.adm = b.g.adm) ∧
    (∀ id e uw, b.cl[i]? = some (.upTtlDelete id e uw) →
      ttlFree b (shardOf b.g.cfg e) = true ∧ o' = o ∧ b' = upAfterIndex { b with g := ttlDelete b.g id e } i id uw ∧
      b'.g.ttl = b.g.ttl.del (shardOf b.g.cfg e, id) ∧ b'.g.store = b.g.store ∧ b'.g.adm = b.g.adm) ∧
    (∀ id old new uw, b.cl[i]? = some (.upTtlRemove id old new uw) →
      ttlFree b (shardOf b.g.cfg old) = true ∧ o' = o ∧
      b' = setClient { b with g := ttlDelete b.g id old } i (.upTtlInsert id new uw) ∧
      b'.g.ttl = b.g.ttl.del (shardOf b.g.cfg old, id) ∧ b'.g.store = b.g.store ∧ b'.g.adm = b.g.adm) ∧
    (∀ id new uw, b.cl[i]? = some (.upTtlInsert id new uw) →
      ttlFree b (shardOf b.g.cfg new) = true ∧ o' = o ∧ b' = upAfterIndex { b with g := ttlPut b.g id new } i id uw ∧
      b'.g.ttl = b.g.ttl.set (shardOf b.g.cfg new, id) new ∧ b'.g.store = b.g.store ∧ b'.g.adm = b.g.adm) := by
  rw [upsB_stepB_client] at h
  refine ⟨?_, ?_, ?_, ?_⟩
  · intro id e uw hpc
    unfold clientAct at h
    simp only [hpc] at h
    split at h
    · cases h
    · rename_i hf
      simp only [Bool.not_eq_true, Bool.not_eq_false'] at hf
      simp only [Except.ok.injEq, Prod.mk.injEq] at h; obtain ⟨rfl, rfl⟩ := h
      refine ⟨hf, rfl, rfl, ?_, ?_, ?_⟩ <;> rw [(upsB_upAfterIndex_g _ _ _ _).1] <;> rfl
  · intro id e uw hpc
    unfold clientAct at h
    simp only [hpc] at h
    split at h
    · cases h
    · rename_i hf
      simp only [Bool.not_eq_true, Bool.not_eq_false'] at hf
      simp only [Except.ok.injEq, Prod.mk.injEq] at h; obtain ⟨rfl, rfl⟩ := h
      refine ⟨hf, rfl, rfl, ?_, ?_, ?_⟩ <;> rw [(upsB_upAfterIndex_g _ _ _ _).1] <;> rfl
  · intro id old new uw hpc
    unfold clientAct at h
    simp only [hpc] at h
    split at h
    · cases h
    · rename_i hf
      simp only [Bool.not_eq_true, Bool.not_eq_false'] at hf
      simp only [Except.ok.injEq, Prod.mk.injEq] at h; obtain ⟨rfl, rfl⟩ := h
      exact ⟨hf, rfl, rfl, rfl, rfl, rfl⟩
  · intro id new uw hpc
    unfold clientAct at h
    simp only [hpc] at h
    split at h
    · cases h
    · rename_i hf
      simp only [Bool.not_eq_true, Bool.not_eq_false'] at hf
      simp only [Except.ok.injEq, Prod.mk.injEq] at h; obtain ⟨rfl, rfl⟩ := h
      refine ⟨hf, rfl, rfl, ?_, ?_, ?_⟩ <;> rw [(upsB_upAfterIndex_g _ _ _ _).1] <;> rfl

/-- "exactly one index entry": an index whose only change is `set` / `del` at one key answers every other key as before -/
theorem upsB_one_index_entry (t : AMap (Nat × Nat) Nat) (p : Nat × Nat) (e : Nat) :
    (∀ q, q ≠ p → (t.set p e).get? q = t.get? q) ∧ (∀ q, q ≠ p → (t.del p).get? q = t.get? q) ∧
    (t.set p e).get? p = some e ∧ (t.del p).get? p = none :=
  ⟨fun _ hq => AMap.get?_set_other _ _ (Ne.symm hq), fun _ hq => AMap.get?_del_other _ (Ne.symm hq),
   AMap.get?_set_same _ _ _, AMap.get?_del_same _ _⟩

/-- the `cmd.send` action, exactly: with a dead worker the call fails (`Err`), nothing changes; with a full queue it
    is not enabled (the call blocks); otherwise exactly the carried command is appended to the queue with a fresh
    pending acknowledgement, which the call returns. -/
theorem C08_layerB_send_step {b b' : BState} {i : Nat} {cmd : Cmd} {o o' : Oracle}
    (hpc : b.cl[i]? = some (.send cmd)) (h : stepB b (.client i) o = .ok (b', o')) :
    o' = o ∧
    ((b.g.worker = .dead ∧ b' = finishCall b i .err) ∨
     (b.g.worker ≠ .dead ∧ b.g.queue.length < b.g.cfg.cmdCap ∧
       b' = finishCall { b with g := { b.g with queue := b.g.queue ++ [(cmd, some b.g.acks.length)],
                                                 acks := b.g.acks ++ [.pending] } } i (.ack b.g.acks.length .pending))) := by
  rw [upsB_stepB_client] at h
  unfold clientAct at h
  simp only [hpc] at h
  cases hs : sendAct b i cmd with
  | error m => simp only [hs] at h; cases h
  | ok b1 =>
    simp only [hs, Except.ok.injEq, Prod.mk.injEq] at h; obtain ⟨rfl, rfl⟩ := h
    unfold sendAct at hs
    by_cases hd : b.g.worker = .dead
    · simp only [hd, if_true, Except.ok.injEq] at hs; subst hs
      exact ⟨rfl, Or.inl ⟨hd, rfl⟩⟩
    · simp only [hd, if_false] at hs
      split at hs
      · cases hs
      · rename_i hq
        simp only [Except.ok.injEq] at hs; subst hs
        exact ⟨rfl, Or.inr ⟨hd, by omega, rfl⟩⟩

/-! ## 3  the command that is sent, along any interleaving

  Between two actions of the call any other thread may run; the client's locals (its position) are touched by nobody
  else (`other_threads_keep_pc`).  `RunH b0 h b` (Theorems.lean) is a run with its history `h` = the pairs
  (state before the action, action), latest first. -/

/-- In the history `h` client `i` did — and has issued no new request since — the `upsert.update` action of a
    `put_or_update` that found the key physically present under id `id`; `uw` is the weight of the request, `old` the
    entry's deadline before and `new` the deadline written by that action. -/
def upsB_Updated (h : List (BState × Act)) (i id : Nat) (uw : Option Int) (old new : Option Nat) : Prop :=
  ∃ h1 h2 p, h = h2 ++ p :: h1 ∧ (∀ q ∈ h2, ∀ r, q.2 ≠ .issue i r) ∧
    ∃ k v w ttl rm e, p.2 = .client i ∧ p.1.cl[i]? = some (.upUpdate k v w ttl rm) ∧
      p.1.g.store.get? k = some e ∧ id = e.id ∧ uw = upWeight p.1.g.cfg v w ttl ∧ old = e.expiry ∧
      new = upsB_deadline p.1.g.now ttl rm e.expiry

/-- … and, after it, the `upsert.weight_of` action of the same call; `uw2` is Layer A's weight with the charged weight
    READ AT THAT ACTION. -/
def upsB_Weighed (h : List (BState × Act)) (i id : Nat) (uw2 : Option Int) (old new : Option Nat) : Prop :=
  ∃ h1 h2 p, h = h2 ++ p :: h1 ∧ (∀ q ∈ h2, ∀ r, q.2 ≠ .issue i r) ∧
    ∃ uw, p.2 = .client i ∧ p.1.cl[i]? = some (.upWeightOf id uw old new) ∧
      uw2 = upsB_uw2 p.1.g.cfg uw (chargedWeight? p.1.g id) old new ∧ upsB_Updated h1 i id uw old new

theorem upsB_Updated.mono {h : List (BState × Act)} {i id : Nat} {uw : Option Int} {old new : Option Nat}
    (x : BState × Act) (hx : ∀ r, x.2 ≠ .issue i r) (hh : upsB_Updated h i id uw old new) :
    upsB_Updated (x :: h) i id uw old new := by
  obtain ⟨h1, h2, p, rfl, hq, rest⟩ := hh
  refine ⟨h1, x :: h2, p, rfl, ?_, rest⟩
  intro q hq' r
  rcases List.mem_cons.mp hq' with rfl | hq'
  · exact hx r
  · exact hq q hq' r

theorem upsB_Weighed.mono {h : List (BState × Act)} {i id : Nat} {uw2 : Option Int} {old new : Option Nat}
    (x : BState × Act) (hx : ∀ r, x.2 ≠ .issue i r) (hh : upsB_Weighed h i id uw2 old new) :
    upsB_Weighed (x :: h) i id uw2 old new := by
  obtain ⟨h1, h2, p, rfl, hq, rest⟩ := hh
  refine ⟨h1, x :: h2, p, rfl, ?_, rest⟩
  intro q hq' r
  rcases List.mem_cons.mp hq' with rfl | hq'
  · exact hx r
  · exact hq q hq' r

/-- what the history says about the locals of client `i`, position by position -/
def upsB_PcInv (h : List (BState × Act)) (i : Nat) : CPc → Prop
  | .upWeightOf id uw old new => upsB_Updated h i id uw old new
  | .upTtlPut id n uw2 => ∃ old new, upsB_Weighed h i id uw2 old new ∧ typeOfExpiryUpdate old new = .added n
  | .upTtlDelete id e uw2 => ∃ old new, upsB_Weighed h i id uw2 old new ∧ typeOfExpiryUpdate old new = .deleted e
  | .upTtlRemove id e n uw2 => ∃ old new, upsB_Weighed h i id uw2 old new ∧ typeOfExpiryUpdate old new = .updated e n
  | .upTtlInsert id n uw2 => ∃ old new e, upsB_Weighed h i id uw2 old new ∧ typeOfExpiryUpdate old new = .updated e n
  | .send (.updateWeight id weight) => ∃ old new, upsB_Weighed h i id (some weight) old new
  | _ => True

theorem upsB_PcInv.mono {h : List (BState × Act)} {i : Nat} {pc : CPc} (x : BState × Act)
    (hx : ∀ r, x.2 ≠ .issue i r) (hh : upsB_PcInv h i pc) : upsB_PcInv (x :: h) i pc := by
  cases pc
  case upWeightOf => exact upsB_Updated.mono x hx hh
  case upTtlPut => obtain ⟨o, n, h1, h2⟩ := hh; exact ⟨o, n, h1.mono x hx, h2⟩
  case upTtlDelete => obtain ⟨o, n, h1, h2⟩ := hh; exact ⟨o, n, h1.mono x hx, h2⟩
  case upTtlRemove => obtain ⟨o, n, h1, h2⟩ := hh; exact ⟨o, n, h1.mono x hx, h2⟩
  case upTtlInsert => obtain ⟨o, n, e, h1, h2⟩ := hh; exact ⟨o, n, e, h1.mono x hx, h2⟩
  case send cmd =>
    cases cmd
    case updateWeight => obtain ⟨o, n, h1⟩ := hh; exact ⟨o, n, h1.mono x hx⟩
    all_goals trivial
  all_goals trivial

/-- the positions of the `put_or_update` chain before `cmd.send` -/
def CPc.upChain : CPc → Bool
  | .upUpdate _ _ _ _ _ | .upWeightOf _ _ _ _ | .upTtlPut _ _ _ | .upTtlDelete _ _ _ | .upTtlRemove _ _ _ _
  | .upTtlInsert _ _ _ => true
  | _ => false

theorem upsB_pc_of_set {cl : List CPc} {i : Nat} {x pc' : CPc} (hlt : i < cl.length)
    (h : (cl.set i x)[i]? = some pc') : pc' = x := by
  rw [List.getElem?_set_self hlt] at h
  exact (Option.some.inj h).symm

/-- where the tail leaves the client: idle (the call has returned), or at `cmd.send` of `UpdateWeight(id, weight)`
    with `weight` the weight that was due -/
theorem upsB_upAfterIndex_pc {b0 : BState} {i id : Nat} {uw : Option Int} {pc' : CPc} (hlt : i < b0.cl.length)
    (h : (upAfterIndex b0 i id uw).cl[i]? = some pc') :
    pc' = .idle ∨ ∃ weight, uw = some weight ∧ pc' = .send (.updateWeight id weight) := by
  unfold upAfterIndex at h
  split at h
  · rename_i weight
    split at h
    · exact Or.inl (upsB_pc_of_set hlt h)
    · split at h
      · exact Or.inl (upsB_pc_of_set hlt h)
      · exact Or.inr ⟨weight, rfl, upsB_pc_of_set hlt h⟩
  · exact Or.inl (upsB_pc_of_set hlt h)

theorem upsB_pcInv_upAfter {H : List (BState × Act)} {b0 : BState} {i id : Nat} {uw : Option Int} {old new : Option Nat}
    {pc' : CPc} (hlt : i < b0.cl.length) (hw : upsB_Weighed H i id uw old new)
    (h : (upAfterIndex b0 i id uw).cl[i]? = some pc') : upsB_PcInv H i pc' := by
  rcases upsB_upAfterIndex_pc hlt h with rfl | ⟨weight, rfl, rfl⟩
  · trivial
  · exact ⟨old, new, hw⟩

/-- an action of client `i` from a position outside the chain leads to a position about which nothing is claimed -/
theorem upsB_next_pc_trivial {b b' : BState} {i : Nat} {o o' : Oracle} {pc : CPc} (H : List (BState × Act))
    (h : clientAct b i o = .ok (b', o')) (hpc : b.cl[i]? = some pc) (hn : pc.upChain = false) :
    ∀ pc', b'.cl[i]? = some pc' → upsB_PcInv H i pc' := by
  have hlt := upsB_lt hpc
  intro pc' hp
  have ht := clientAct_trans h
  cases ht
  case upPut hpc0 _ _ => rw [hpc] at hpc0; cases hpc0; cases hn
  case upUpdate hpc0 _ _ => rw [hpc] at hpc0; cases hpc0; cases hn
  case upWeightOfTtl hpc0 _ _ _ => rw [hpc] at hpc0; cases hpc0; cases hn
  case upAfterSame hpc0 => rw [hpc] at hpc0; cases hpc0; cases hn
  case upAfterPut pc0 id e uw hpc0 hu _ =>
    rw [hpc] at hpc0; cases hpc0
    cases pc <;> simp [CPc.usedId?, CPc.upChain] at hu hn
  case upAfterDelete hpc0 _ => rw [hpc] at hpc0; cases hpc0; cases hn
  case upTtlRemove hpc0 _ => rw [hpc] at hpc0; cases hpc0; cases hn
  case startPlain r pc1 hpc0 hpl =>
    have := upsB_pc_of_set hlt hp; subst this
    cases pc' <;> first | trivial | cases hpl
  case shutLocal pc0 pc1 g' hpc0 h1 h2 hg =>
    have := upsB_pc_of_set hlt hp; subst this
    clear hg
    cases pc' <;> first | trivial | cases h2
  case mgetStep pc0 pc1 g' hpc0 h1 h2 hg =>
    have := upsB_pc_of_set hlt hp; subst this
    clear hg
    cases pc' <;> first | trivial | cases h2
  case idNext k v w ttl hpc0 =>
    have := upsB_pc_of_set hlt hp; subst this
    cases ttl <;> trivial
  all_goals
    have := upsB_pc_of_set hlt hp
    subst this
    trivial

/-- one action of any thread keeps `upsB_PcInv` for client `i` -/
theorem upsB_pcInv_step {H : List (BState × Act)} {b b' : BState} {a : Act} {o o' : Oracle} {i : Nat}
    (hi : ∀ pc, b.cl[i]? = some pc → upsB_PcInv H i pc) (hs : stepB b a o = .ok (b', o')) :
    ∀ pc', b'.cl[i]? = some pc' → upsB_PcInv ((b, a) :: H) i pc' := by
  intro pc' hp
  by_cases ha : a = .client i
  · subst ha
    have hx : ∀ r, ((b, Act.client i) : BState × Act).2 ≠ .issue i r := fun r hr => by cases hr
    obtain ⟨pc, pcn, hpc, -, -⟩ := ctrans_cl (clientAct_trans hs)
    clear pcn
    have hlt := upsB_lt hpc
    have hI := (hi pc hpc).mono (b, .client i) hx
    by_cases hch : pc.upChain = false
    · exact upsB_next_pc_trivial _ hs hpc hch pc' hp
    · cases pc <;> first | exact absurd rfl hch | skip
      case upUpdate k v w ttl rm =>
        obtain ⟨_, _, ⟨e, hk, _, rfl⟩ | ⟨e, t, _, _, _, _, rfl⟩ | ⟨_, val, weight, _, _, _, rfl⟩ |
          ⟨_, val, weight, _, _, _, rfl⟩ | ⟨_, _, rfl⟩⟩ := C08_layerB_update_step hpc hs
        · have := upsB_pc_of_set hlt hp; subst this
          exact ⟨H, [], (b, .client i), rfl, (fun q hq => by cases hq), k, v, w, ttl, rm, e, rfl, hpc, hk, rfl, rfl, rfl, rfl⟩
        · have := upsB_pc_of_set hlt hp; subst this; trivial
        · have := upsB_pc_of_set hlt hp; subst this; trivial
        · have := upsB_pc_of_set hlt hp; subst this; trivial
        · have := upsB_pc_of_set hlt hp; subst this; trivial
      case upWeightOf id uw old new =>
        have hW : upsB_Weighed ((b, .client i) :: H) i id (upsB_uw2 b.g.cfg uw (chargedWeight? b.g id) old new) old new :=
          ⟨H, [], (b, .client i), rfl, (fun q hq => by cases hq), uw, rfl, hpc, rfl, hi _ hpc⟩
        obtain ⟨_, hb'⟩ := C08_layerB_weightOf_step hpc hs
        cases ht : typeOfExpiryUpdate old new <;> simp only [ht] at hb' <;> subst hb'
        · exact upsB_pcInv_upAfter hlt hW hp
        · have := upsB_pc_of_set hlt hp; subst this
          exact ⟨old, new, hW, ht⟩
        · have := upsB_pc_of_set hlt hp; subst this
          exact ⟨old, new, hW, ht⟩
        · have := upsB_pc_of_set hlt hp; subst this
          exact ⟨old, new, hW, ht⟩
      case upTtlPut id e uw =>
        obtain ⟨_, _, rfl, _⟩ := (C08_layerB_index_steps hs).1 id e uw hpc
        obtain ⟨old, new, hW, _⟩ := hI
        exact upsB_pcInv_upAfter (b0 := { b with g := ttlPut b.g id e }) hlt hW hp
      case upTtlDelete id e uw =>
        obtain ⟨_, _, rfl, _⟩ := (C08_layerB_index_steps hs).2.1 id e uw hpc
        obtain ⟨old, new, hW, _⟩ := hI
        exact upsB_pcInv_upAfter (b0 := { b with g := ttlDelete b.g id e }) hlt hW hp
      case upTtlRemove id e n uw =>
        obtain ⟨_, _, rfl, _⟩ := (C08_layerB_index_steps hs).2.2.1 id e n uw hpc
        obtain ⟨old, new, hW, ht⟩ := hI
        have := upsB_pc_of_set hlt hp; subst this
        exact ⟨old, new, e, hW, ht⟩
      case upTtlInsert id n uw =>
        obtain ⟨_, _, rfl, _⟩ := (C08_layerB_index_steps hs).2.2.2 id n uw hpc
        obtain ⟨old, new, e, hW, _⟩ := hI
        exact upsB_pcInv_upAfter (b0 := { b with g := ttlPut b.g id n }) hlt hW hp
  · by_cases hiss : ∃ r, a = .issue i r
    · obtain ⟨r, rfl⟩ := hiss
      simp only [stepB] at hs
      split at hs
      · rename_i b1 hi1
        simp only [Except.ok.injEq, Prod.mk.injEq] at hs; obtain ⟨rfl, rfl⟩ := hs
        unfold issue at hi1
        split at hi1
        · rename_i hidle
          simp only [Except.ok.injEq] at hi1; subst hi1
          have := upsB_pc_of_set (upsB_lt hidle) hp; subst this
          trivial
        · cases hi1
      · cases hs
    · have hx : ∀ r, a ≠ .issue i r := fun r hr => hiss ⟨r, hr⟩
      have hkeep := other_threads_keep_pc hs ha hx
      rw [hkeep] at hp
      exact (hi pc' hp).mono (b, a) hx

theorem upsB_pcInv_run {b0 b : BState} {h : List (BState × Act)} {i : Nat} (hrun : RunH b0 h b)
    (h0 : ∀ pc, b0.cl[i]? = some pc → upsB_PcInv [] i pc) : ∀ pc, b.cl[i]? = some pc → upsB_PcInv h i pc := by
  induction hrun with
  | nil => exact h0
  | step _ hs ih => exact upsB_pcInv_step ih hs

/-- **C08 (3): the command this call sends.**  Along ANY run of Layer B (any interleaving of any threads) that starts
    with client `i` not inside a `put_or_update` (e.g. idle, as in the initial state): whenever client `i` stands at
    `cmd.send` with an `UpdateWeight(id, weight)` command — the next action of that client appends exactly this command
    to the queue, `C08_layerB_send_step` — the history holds, within the same call,
    * its `upsert.update` action, which found the key physically present under this very `id` (deadline `old`),
      replaced the entry and wrote the deadline `new` (`C08_layerB_update_step`), `uw` being the request's weight, and
    * after it, its `upsert.weight_of` action, and `some weight = upsB_uw2 cfg uw existing old new` with `existing` the
      weight charged for `id` in the state in which THAT action ran (`upsB_uw2_eq_upsertWeight`: Layer A's weight).
    When no weight is due (`upsB_uw2 … = none`) nothing is sent: the action that reaches the tail answers Accepted on
    the spot (`C08_layerB_after_index`, fourth clause).  At the index positions the history moreover says which index
    update is under way (`upsB_PcInv`). -/
theorem C08_layerB_sends_update_weight {b0 b : BState} {h : List (BState × Act)} {i : Nat} (hrun : RunH b0 h b)
    (h0 : ∀ pc, b0.cl[i]? = some pc → pc.upChain = false ∧ ∀ id w, pc ≠ .send (.updateWeight id w)) :
    (∀ id weight, b.cl[i]? = some (.send (.updateWeight id weight)) →
      ∃ old new, upsB_Weighed h i id (some weight) old new) ∧
    (∀ pc, b.cl[i]? = some pc → upsB_PcInv h i pc) := by
  have hall := upsB_pcInv_run hrun (i := i) (by
    intro pc hpc
    obtain ⟨h1, h2⟩ := h0 pc hpc
    cases pc <;> first | trivial | cases h1 | skip
    case send cmd =>
      cases cmd <;> first | trivial | skip
      case updateWeight id w => exact absurd rfl (h2 id w))
  exact ⟨fun id weight hpc => hall _ hpc, hall⟩

/-! ## 4  nobody else rewrites a stored entry in place -/

/-- **C08 (4): only `upsert.update` changes a stored value or deadline.**  For ANY action of ANY thread, in a state
    satisfying `WAbsent` (every reachable state does, `wabsent_reach`): if key `k` holds an entry before and after the
    action and its value or its deadline differ, then the action is the `upsert.update` action of a client whose request
    is a `put_or_update` of `k`; the id and the deletion flag are kept, the new value is the requested one (or the old
    one), the new deadline the requested one.  (`delete.mark` only sets the flag; `store.put` never meets an existing
    entry, C07; everything else removes the entry or leaves it alone, C03.) -/
theorem C08_layerB_only_upsert_changes_value_or_expiry {b b' : BState} {a : Act} {o o' : Oracle} {k : Nat}
    {e e' : Entry} (hi : WAbsent b) (h : stepB b a o = .ok (b', o')) (hk : b.g.store.get? k = some e)
    (hk' : b'.g.store.get? k = some e') (hne : e'.value ≠ e.value ∨ e'.expiry ≠ e.expiry) :
    e'.id = e.id ∧ e'.soft = e.soft ∧
    ∃ i v w ttl rm, a = .client i ∧ b.cl[i]? = some (.upUpdate k v w ttl rm) ∧ e'.value = v.getD e.value ∧
      e'.expiry = upsB_deadline b.g.now ttl rm e.expiry ∧
      (∀ t, ttl = some t → rm = false → addTime b.g.now t = some (b.g.now + t)) := by
  have hne' : e' ≠ e := by
    intro he; subst he
    rcases hne with h1 | h1 <;> exact h1 rfl
  obtain ⟨hid, ⟨i, v, w, ttl, rm, exp, rfl, hpc, hx, rfl⟩ | ⟨i, rfl, hpc, rfl⟩⟩ :=
    C03_layerB_only_these_alter hi h hk hk' hne'
  · obtain ⟨rfl, hov⟩ := upsB_upExpiry_some hx
    exact ⟨hid, rfl, i, v, w, ttl, rm, rfl, hpc, rfl, rfl, hov⟩
  · rcases hne with h1 | h1 <;> exact absurd rfl h1

theorem C08_layerB_only_upsert_changes_value_or_expiry_reach {cfg : Cfg} {now : Nat} {seeds : List Nat} {clients : Nat}
    {b b' : BState} {a : Act} {o o' : Oracle} {k : Nat} {e e' : Entry} (hr : Reach cfg now seeds clients b)
    (h : stepB b a o = .ok (b', o')) (hk : b.g.store.get? k = some e)
    (hk' : b'.g.store.get? k = some e') (hne : e'.value ≠ e.value ∨ e'.expiry ≠ e.expiry) :
    e'.id = e.id ∧ e'.soft = e.soft ∧
    ∃ i v w ttl rm, a = .client i ∧ b.cl[i]? = some (.upUpdate k v w ttl rm) ∧ e'.value = v.getD e.value ∧
      e'.expiry = upsB_deadline b.g.now ttl rm e.expiry ∧
      (∀ t, ttl = some t → rm = false → addTime b.g.now t = some (b.g.now + t)) :=
  C08_layerB_only_upsert_changes_value_or_expiry (wabsent_reach hr) h hk hk' hne

/-- the history holds an `upsert.update` action of some client on key `k` that found the key physically present -/
def upsB_UpdatedKey (h : List (BState × Act)) (k : Nat) : Prop :=
  ∃ p ∈ h, ∃ i v w ttl rm e, p.2 = .client i ∧ p.1.cl[i]? = some (.upUpdate k v w ttl rm) ∧
    p.1.g.store.get? k = some e

theorem upsB_UpdatedKey.mono {h : List (BState × Act)} {k : Nat} (x : BState × Act) (hh : upsB_UpdatedKey h k) :
    upsB_UpdatedKey (x :: h) k := by
  obtain ⟨p, hp, rest⟩ := hh
  exact ⟨p, List.mem_cons_of_mem _ hp, rest⟩

/-- the id counter never goes back -/
theorem upsB_nextId_mono {b b' : BState} {a : Act} {o o' : Oracle} (h : stepB b a o = .ok (b', o')) :
    b.g.nextId ≤ b'.g.nextId := by
  cases a with
  | issue i r =>
    simp only [stepB] at h
    split at h
    · rename_i b1 hi
      simp only [Except.ok.injEq, Prod.mk.injEq] at h; obtain ⟨rfl, rfl⟩ := h
      unfold issue at hi
      split at hi
      · simp only [Except.ok.injEq] at hi; subst hi; exact Nat.le_refl _
      · cases hi
    · cases h
  | client i => exact ctrans_nextId (clientAct_trans h)
  | worker => exact Nat.le_of_eq (wtrans_nextId (workerAct_trans h)).symm
  | sweeper v =>
    simp only [stepB] at h
    split at h
    · rename_i b1 hs'
      simp only [Except.ok.injEq, Prod.mk.injEq] at h; obtain ⟨rfl, rfl⟩ := h
      exact Nat.le_of_eq (strans_frame (sweeperAct_trans hs')).2.2.2.1.symm
    · cases h
  | consumer =>
    simp only [stepB] at h
    split at h
    · rename_i g' out o1 hc
      simp only [Except.ok.injEq, Prod.mk.injEq] at h; obtain ⟨rfl, rfl⟩ := h
      show b.g.nextId ≤ g'.nextId
      rw [consumerStep_frame hc]; exact Nat.le_refl _
    · cases h
  | advance d =>
    simp only [stepB, Except.ok.injEq, Prod.mk.injEq] at h; obtain ⟨rfl, rfl⟩ := h
    exact Nat.le_refl _

/-- an id below the id counter that is nobody's fresh id never becomes fresh again: ids are not reused -/
theorem upsB_spent_step {b b' : BState} {a : Act} {o o' : Oracle} (h : stepB b a o = .ok (b', o')) {f : Nat}
    (hf : f < b.g.nextId) (hocc : occ b f = 0) : f < b'.g.nextId ∧ occ b' f = 0 := by
  refine ⟨Nat.lt_of_lt_of_le hf (upsB_nextId_mono h), ?_⟩
  have hle : occ b' f ≤ occ b f := by
    cases a with
    | issue i r =>
      simp only [stepB] at h
      split at h
      · rename_i b1 hi
        simp only [Except.ok.injEq, Prod.mk.injEq] at h; obtain ⟨rfl, rfl⟩ := h
        exact issue_occ hi f
      · cases h
    | client i => exact ctrans_occ (clientAct_trans h) f hf
    | worker => exact wtrans_occ (workerAct_trans h) f
    | sweeper v =>
      simp only [stepB] at h
      split at h
      · rename_i b1 hs'
        simp only [Except.ok.injEq, Prod.mk.injEq] at h; obtain ⟨rfl, rfl⟩ := h
        obtain ⟨h1, h2, h3, _⟩ := strans_frame (sweeperAct_trans hs')
        exact Nat.le_of_eq (occ_congr h3 h2 h1 f)
      · cases h
    | consumer =>
      simp only [stepB] at h
      split at h
      · rename_i g' out o1 hc
        simp only [Except.ok.injEq, Prod.mk.injEq] at h; obtain ⟨rfl, rfl⟩ := h
        have hq : g'.queue = b.g.queue := by rw [consumerStep_frame hc]
        exact Nat.le_of_eq (occ_congr (b := b) (b' := { b with g := g' }) hq rfl rfl f)
      · cases h
    | advance d =>
      simp only [stepB, Except.ok.injEq, Prod.mk.injEq] at h; obtain ⟨rfl, rfl⟩ := h
      exact Nat.le_of_eq (occ_congr (b := b) (b' := { b with g := { b.g with now := b.g.now + d } }) rfl rfl rfl f)
  omega

/-- the invariant of the lift: the id `f` of the entry we started from is spent (never fresh again), and — unless the
    history holds an `upsert.update` of `k` — whatever entry `k` holds under id `f` has the value and deadline `v0`, `x0` -/
theorem upsB_value_run {cfg : Cfg} {now : Nat} {seeds : List Nat} {clients : Nat} {b0 b : BState}
    {h : List (BState × Act)} (hr : Reach cfg now seeds clients b0) (hrun : RunH b0 h b) {k : Nat} {e0 : Entry}
    (hk0 : b0.g.store.get? k = some e0) :
    Reach cfg now seeds clients b ∧ e0.id < b.g.nextId ∧ occ b e0.id = 0 ∧
    (upsB_UpdatedKey h k ∨ ∀ e, b.g.store.get? k = some e → e.id = e0.id → e.value = e0.value ∧ e.expiry = e0.expiry) := by
  induction hrun with
  | nil =>
    have hu := (binv_reach hr).freshIds.2.2.2.2.1 e0.id (store_id_used hk0)
    refine ⟨hr, hu.2, hu.1, Or.inr ?_⟩
    intro e he _
    rw [hk0] at he; cases he; exact ⟨rfl, rfl⟩
  | @step b1 b' h1 a o o' hrun1 hs ih =>
    obtain ⟨hr1, hlt, hocc, hsame⟩ := ih
    obtain ⟨hlt', hocc'⟩ := upsB_spent_step hs hlt hocc
    refine ⟨.step hr1 hs, hlt', hocc', ?_⟩
    rcases hsame with hu | hsame
    · exact Or.inl (hu.mono _)
    · by_cases hup : upsB_UpdatedKey ((b1, a) :: h1) k
      · exact Or.inl hup
      · refine Or.inr ?_
        intro e' hk' hid'
        cases hk1 : b1.g.store.get? k with
        | none =>
          exfalso
          obtain ⟨rfl, c, exp, hw, _, _, rfl⟩ := C07_layerB_only_worker_creates hs hk1 hk'
          have : 0 < occ b1 c.id := by simp [occ, hw, WPc.freshId?]
          simp only at hid'
          rw [hid'] at this
          omega
        | some e1 =>
          have hid1 : e'.id = e1.id := C07_layerB_id_never_replaced (wabsent_reach hr1) hs hk1 hk'
          obtain ⟨hv1, hx1⟩ := hsame e1 hk1 (hid1.symm.trans hid')
          by_cases hch : e'.value = e1.value ∧ e'.expiry = e1.expiry
          · exact ⟨hch.1.trans hv1, hch.2.trans hx1⟩
          · exfalso
            apply hup
            have hne : e'.value ≠ e1.value ∨ e'.expiry ≠ e1.expiry := by
              by_cases hv : e'.value = e1.value
              · exact Or.inr (fun hx => hch ⟨hv, hx⟩)
              · exact Or.inl hv
            obtain ⟨_, _, i, v, w, ttl, rm, rfl, hpc, _⟩ :=
              C08_layerB_only_upsert_changes_value_or_expiry (wabsent_reach hr1) hs hk1 hk' hne
            exact ⟨(b1, .client i), List.mem_cons_self, i, v, w, ttl, rm, e1, rfl, hpc, hk1⟩

/-- **C08 (4), along runs.**  Between two states of ANY run (any interleaving of any threads) that starts in a reachable
    state: if key `k` is stored under the SAME id at both ends and its value or its deadline differ, then in between
    some client performed the `upsert.update` action of a `put_or_update` of `k`, finding the key physically present.
    (Ids are never reused — `upsB_spent_step` — so "same id" means "same incarnation": a delete and a new put in between
    give the key another id.) -/
theorem C08_layerB_only_upsert_changes_value_or_expiry_run {cfg : Cfg} {now : Nat} {seeds : List Nat} {clients : Nat}
    {b0 b : BState} {h : List (BState × Act)} (hr : Reach cfg now seeds clients b0) (hrun : RunH b0 h b) {k : Nat}
    {e0 e : Entry} (hk0 : b0.g.store.get? k = some e0) (hk : b.g.store.get? k = some e) (hid : e.id = e0.id)
    (hne : e.value ≠ e0.value ∨ e.expiry ≠ e0.expiry) :
    ∃ p ∈ h, ∃ i v w ttl rm e1, p.2 = .client i ∧ p.1.cl[i]? = some (.upUpdate k v w ttl rm) ∧
      p.1.g.store.get? k = some e1 := by
  obtain ⟨_, _, _, hu | hsame⟩ := upsB_value_run hr hrun hk0
  · exact hu
  · obtain ⟨h1, h2⟩ := hsame e hk hid
    rcases hne with h | h
    · exact absurd h1 h
    · exact absurd h2 h

/-! ## 5  concrete interleavings: non-vacuity, and the race observations

  Configuration `upsB_cfg`: weight limit 1000, ONE expiry shard, `ttl_ticker_entry_size` 24, weight function
  `1 + 24·[ttl given]`; two clients. -/

def upsB_cfg : Cfg := { maxWeight := 1000, shards := 1, cmdCap := 4, poolSize := 1, bufSize := 2, counters := 2 }

def upsB_init : BState := BState.init upsB_cfg 0 [1, 2, 3, 4] 2

/-- evaluates a predicate at the end of a run from the initial state -/
def upsB_at (run : List (Act × Oracle)) (f : BState → Bool) : Bool :=
  match runB upsB_init run with
  | .ok b => f b
  | .error _ => false

theorem upsB_reach_run {l : List (Act × Oracle)} {b : BState} (h : runB upsB_init l = .ok b) :
    Reach upsB_cfg 0 [1, 2, 3, 4] 2 b :=
  reach_runB (b := { BState.init upsB_cfg 0 [1, 2, 3, 4] 2 with storeShard := [] }) l (.init []) h

/-- key 1 (value 100, id 1, weight 30, time-to-live 1000 from clock 0) is in; the clock stands at 7 -/
def upsB_setup : List (Act × Oracle) :=
  call 0 (.putW 1 100 30 (some 1000)) 4 ++ workerN 7 ++ [(.advance 7, noO)]

example : upsB_at upsB_setup (fun b =>
    decide (b.g.now = 7 ∧ b.g.store.get? 1 = some ⟨100, 1, some 1000, false⟩ ∧ b.g.adm.kw.get? 1 = some ⟨1, 1, 30⟩ ∧
            b.g.adm.used = 30 ∧ b.g.ttl = [((0, 1), 1000)] ∧ b.g.queue = [] ∧ b.g.acks = [.accepted])) = true := by decide

/-- **`C08_layerB_update_step` / `_update_effect`, present key.**  Client 1 stands at `upsert.update` of
    `put_or_update(1, value 111, ttl 500)`; the key is physically present; the action replaces the entry by
    (111, id 1, deadline 7 + 500) and touches nothing else; the client goes on with id 1, weight 25 (recomputed from the
    value, with the TTL surcharge), old deadline 1000, new deadline 507. -/
example : upsB_at (upsB_setup ++ call 1 (.upsert 1 (some 111) none (some 500) false) 1) (fun b =>
    (match b.cl[1]? with
     | some (CPc.upUpdate k v w ttl rm) => decide (k = 1 ∧ v = some 111 ∧ w = none ∧ ttl = some 500 ∧ rm = false)
     | _ => false) &&
    decide (b.g.store.get? 1 = some ⟨100, 1, some 1000, false⟩ ∧ addTime b.g.now 500 = some (b.g.now + 500)) &&
    (match stepB b (.client 1) noO with
     | .ok (b', _) =>
       decide (b'.g.store.get? 1 = some ⟨111, 1, some 507, false⟩ ∧ b'.g.adm.kw = b.g.adm.kw ∧
               b'.g.adm.used = b.g.adm.used ∧ b'.g.ttl = b.g.ttl ∧ b'.g.queue = b.g.queue ∧ b'.g.acks = b.g.acks) &&
       (match b'.cl[1]? with
        | some (CPc.upWeightOf id uw old new) => decide (id = 1 ∧ uw = some 25 ∧ old = some 1000 ∧ new = some 507)
        | _ => false)
     | _ => false)) = true := by decide

/-- … absent key with a value: on to `id.next` of the put programme (weight 25 computed, `remove_time_to_live` ignored),
    and the whole call with the worker's put: key 2 is in under a NEW id, deadline 7 + 500, charged 25 -/
example : upsB_at (upsB_setup ++ call 1 (.upsert 2 (some 222) none (some 500) true) 1) (fun b =>
    decide (b.g.store.get? 2 = none) &&
    (match stepB b (.client 1) noO with
     | .ok (b', _) =>
       decide (b'.g.store = b.g.store ∧ b'.g.ttl = b.g.ttl ∧ b'.g.adm.kw = b.g.adm.kw) &&
       (match b'.cl[1]? with
        | some (CPc.idNext k v w ttl) => decide (k = 2 ∧ v = 222 ∧ w = 25 ∧ ttl = some 500)
        | _ => false)
     | _ => false)) = true := by decide

example : upsB_at (upsB_setup ++ call 1 (.upsert 2 (some 222) none (some 500) true) 4 ++ workerN 7) (fun b =>
    decide (b.g.store.get? 2 = some ⟨222, 2, some 507, false⟩ ∧ b.g.adm.kw.get? 2 = some ⟨2, 2, 25⟩ ∧
            b.g.ttl = [((0, 2), 507), ((0, 1), 1000)] ∧ b.g.acks = [.accepted, .accepted] ∧
            b.g.store.get? 1 = some ⟨100, 1, some 1000, false⟩)) = true := by decide

/-- … absent key without a value: the precondition panic (even with an explicit weight); present key with a
    time-to-live whose deadline is not representable: `timeOverflow`, nothing changed -/
example : upsB_at (upsB_setup ++ call 1 (.upsert 2 none (some 5) (some 500) false) 2) (fun b =>
    (match b.res[1]? with | some [Out.panic p] => decide (p = .upsertValueMissing) | _ => false) &&
    decide (b.g.store.get? 2 = none ∧ b.g.queue = [] ∧ b.g.nextId = 2)) = true := by decide

example : upsB_at (upsB_setup ++ call 1 (.upsert 1 (some 111) none (some 18446744073709551615999999999) false) 2)
    (fun b =>
    (match b.res[1]? with | some [Out.panic p] => decide (p = .timeOverflow) | _ => false) &&
    decide (b.g.store.get? 1 = some ⟨100, 1, some 1000, false⟩)) = true := by decide

/-- **`C08_layerB_weightOf_step`, `C08_layerB_index_steps`: a deadline CHANGE** (`updated 1000 507`): `weight_of` hands
    on the request's weight 25 unchanged; `ttl.update.remove` takes `(0, 1) ↦ 1000` out of the index,
    `ttl.update.insert` puts `(0, 1) ↦ 507` in; then `cmd.send` of `UpdateWeight(1, 25)` (`C08_layerB_send_step`). -/
example : upsB_at (upsB_setup ++ call 1 (.upsert 1 (some 111) none (some 500) false) 3) (fun b =>
    (match b.cl[1]? with
     | some (CPc.upTtlRemove id old new uw) => decide (id = 1 ∧ old = 1000 ∧ new = 507 ∧ uw = some 25)
     | _ => false) &&
    (match stepB b (.client 1) noO with
     | .ok (b1, _) =>
       decide (b1.g.ttl = [] ∧ b1.g.store = b.g.store ∧ b1.g.adm.kw = b.g.adm.kw) &&
       (match b1.cl[1]? with
        | some (CPc.upTtlInsert id new uw) => decide (id = 1 ∧ new = 507 ∧ uw = some 25)
        | _ => false) &&
       (match stepB b1 (.client 1) noO with
        | .ok (b2, _) =>
          decide (b2.g.ttl = [((0, 1), 507)] ∧ b2.g.store = b.g.store ∧ b2.g.adm.kw = b.g.adm.kw ∧ b2.g.queue = []) &&
          (match b2.cl[1]? with
           | some (CPc.send (Cmd.updateWeight id w)) => decide (id = 1 ∧ w = 25)
           | _ => false) &&
          (match stepB b2 (.client 1) noO with
           | .ok (b3, _) =>
             decide (b3.g.queue = [(.updateWeight 1 25, some 1)] ∧ b3.g.acks = [.accepted, .pending]) &&
             (match b3.res[1]? with | some [Out.ack h st] => decide (h = 1 ∧ st = .pending) | _ => false)
           | _ => false)
        | _ => false)
     | _ => false)) = true := by decide

/-- … a deadline REMOVED (`deleted 1000`), no value, no weight: `weight_of` reads the charged weight 30 and hands on
    30 − 24 = 6; `ttl.delete` takes the index entry out -/
example : upsB_at (upsB_setup ++ call 1 (.upsert 1 none none none true) 2) (fun b =>
    (match b.cl[1]? with
     | some (CPc.upWeightOf id uw old new) => decide (id = 1 ∧ uw = none ∧ old = some 1000 ∧ new = none)
     | _ => false) &&
    decide (chargedWeight? b.g 1 = some 30 ∧ upsB_uw2 b.g.cfg none (some 30) (some 1000) none = some 6) &&
    (match stepB b (.client 1) noO with
     | .ok (b1, _) =>
       decide (b1.g.ttl = b.g.ttl ∧ b1.g.store = b.g.store) &&
       (match b1.cl[1]? with
        | some (CPc.upTtlDelete id e uw) => decide (id = 1 ∧ e = 1000 ∧ uw = some 6)
        | _ => false) &&
       (match stepB b1 (.client 1) noO with
        | .ok (b2, _) =>
          decide (b2.g.ttl = [] ∧ b2.g.store = b.g.store) &&
          (match b2.cl[1]? with
           | some (CPc.send (Cmd.updateWeight id w)) => decide (id = 1 ∧ w = 6)
           | _ => false)
        | _ => false)
     | _ => false)) = true := by decide

/-- … a deadline ADDED (`added 500`) to a key without one: `weight_of` hands on 30 + 24 = 54, `ttl.put` adds the index
    entry; the worker's `UpdateWeight` makes 54 the charged weight -/
example : upsB_at (call 0 (.putW 1 100 30 none) 4 ++ workerN 6 ++ call 1 (.upsert 1 none none (some 500) false) 3) (fun b =>
    (match b.cl[1]? with
     | some (CPc.upTtlPut id e uw) => decide (id = 1 ∧ e = 500 ∧ uw = some 54)
     | _ => false) &&
    decide (b.g.ttl = [] ∧ b.g.store.get? 1 = some ⟨100, 1, some 500, false⟩) &&
    (match runB b ([(.client 1, noO), (.client 1, noO)] ++ workerN 2) with
     | .ok b2 => decide (b2.g.ttl = [((0, 1), 500)] ∧ b2.g.adm.kw.get? 1 = some ⟨1, 1, 54⟩ ∧ b2.g.adm.used = 54 ∧
                         b2.g.acks = [.accepted, .accepted])
     | _ => false)) = true := by decide

/-- … a deadline changed and NOTHING else (no value, no weight): no weight is due (`upsB_uw2 … = none`), the call is
    answered Accepted on the spot by the action that reaches the tail (`ttl.update.insert`), nothing is sent -/
example : upsB_at (upsB_setup ++ call 1 (.upsert 1 none none (some 500) false) 4) (fun b =>
    (match b.cl[1]? with
     | some (CPc.upTtlInsert id new uw) => decide (id = 1 ∧ new = 507 ∧ uw = none)
     | _ => false) &&
    decide (upsB_uw2 b.g.cfg none (some 30) (some 1000) (some 507) = none) &&
    (match stepB b (.client 1) noO with
     | .ok (b1, _) =>
       decide (b1.g.queue = [] ∧ b1.g.acks = [.accepted, .accepted] ∧ b1.g.ttl = [((0, 1), 507)]) &&
       (match b1.cl[1]?, b1.res[1]? with
        | some CPc.idle, some [Out.ack h st] => decide (h = 1 ∧ st = .accepted)
        | _, _ => false)
     | _ => false)) = true := by decide

/-- **Not charged at `upsert.weight_of` (fix c86efeb): the `none` case of `upsB_uw2`.**  `delete(1)` is marked, queued and
    received; client 1's `put_or_update(1, remove_time_to_live)` (no value, no weight) does its `upsert.update` on the
    flagged entry; the worker's delete runs completely (entry and charge gone; it read "no deadline" from the updated
    entry, so the index entry stays).  Client 1's `upsert.weight_of` now finds id 1 NOT charged: it hands on NO weight
    (before the fix: `0 − 24`, and the call panicked); `ttl.delete` takes the index entry out and the call is answered
    Accepted on the spot, nothing is sent. -/
example : upsB_at (upsB_setup ++ call 0 (.delete 1) 3 ++ workerN 1 ++ call 1 (.upsert 1 none none none true) 2 ++
      workerN 3) (fun b =>
    (match b.cl[1]? with
     | some (CPc.upWeightOf id uw old new) => decide (id = 1 ∧ uw = none ∧ old = some 1000 ∧ new = none)
     | _ => false) &&
    decide (chargedWeight? b.g 1 = none ∧ upsB_uw2 b.g.cfg none none (some 1000) none = none ∧
            b.g.store.get? 1 = none ∧ b.g.ttl = [((0, 1), 1000)] ∧ b.g.acks = [.accepted, .accepted]) &&
    (match stepB b (.client 1) noO with
     | .ok (b1, _) =>
       (match b1.cl[1]? with
        | some (CPc.upTtlDelete id e uw) => decide (id = 1 ∧ e = 1000 ∧ uw = none)
        | _ => false) &&
       (match stepB b1 (.client 1) noO with
        | .ok (b2, _) =>
          decide (b2.g.queue = [] ∧ b2.g.acks = [.accepted, .accepted, .accepted] ∧ b2.g.ttl = [] ∧ b2.g.adm.kw = [] ∧
                  b2.g.adm.used = 0) &&
          (match b2.cl[1]?, b2.res[1]? with
           | some CPc.idle, some [Out.ack h st] => decide (h = 2 ∧ st = .accepted)
           | _, _ => false)
        | _ => false)
     | _ => false)) = true := by decide

/-- the run of race (i) below up to the moment client 0 stands at `cmd.send`: client 0's `put_or_update(1,
    remove_time_to_live)` does `upsert.update` and `upsert.weight_of` (reads 30), client 1's `put_or_update(1, weight 50)`
    runs completely and the worker applies it, then client 0 does its `ttl.delete` -/
def upsB_raceHead : List (Act × Oracle) :=
  call 0 (.upsert 1 none none none true) 3 ++ call 1 (.upsert 1 none (some 50) none false) 4 ++ workerN 2 ++
  [(.client 0, noO)]

/-- the state after `upsB_setup` -/
def upsB_b0 : BState :=
  match runB upsB_init upsB_setup with
  | .ok b => b
  | .error _ => upsB_init

/-- **Non-vacuity of `C08_layerB_sends_update_weight`**: a run (with its history) from a state in which both clients
    are idle, at whose end client 0 stands at `cmd.send` of `UpdateWeight(1, 6)` — with ANOTHER client's whole
    `put_or_update` and two worker actions between client 0's `upsert.weight_of` and its `ttl.delete`. -/
theorem C08_layerB_sends_update_weight_witness :
    ∃ h b, RunH upsB_b0 h b ∧ Reach upsB_cfg 0 [1, 2, 3, 4] 2 upsB_b0 ∧
      (∀ pc, upsB_b0.cl[0]? = some pc → pc.upChain = false ∧ ∀ id w, pc ≠ .send (.updateWeight id w)) ∧
      b.cl[0]? = some (.send (.updateWeight 1 6)) ∧ b.g.adm.kw.get? 1 = some ⟨1, 1, 50⟩ := by
  have hh : ∃ h b, histOf upsB_b0 upsB_raceHead [] = .ok (h, b) ∧
      (match b.cl[0]? with | some (CPc.send (Cmd.updateWeight id w)) => decide (id = 1 ∧ w = 6) | _ => false) = true ∧
      b.g.adm.kw.get? 1 = some ⟨1, 1, 50⟩ := ⟨_, _, rfl, by decide, by decide⟩
  obtain ⟨h, b, hrun, hpc, hkw⟩ := hh
  refine ⟨h, b, runH_histOf _ (.nil _) hrun, upsB_reach_run (l := upsB_setup) rfl, ?_, ?_, hkw⟩
  · intro pc hpc0
    have : upsB_b0.cl[0]? = some .idle := rfl
    rw [this] at hpc0; cases hpc0
    exact ⟨rfl, fun _ _ h => by cases h⟩
  · split at hpc
    · rename_i id w heq
      simp only [decide_eq_true_eq] at hpc
      rw [heq, hpc.1, hpc.2]
    · cases hpc

/-- **Non-vacuity of `C08_layerB_only_upsert_changes_value_or_expiry` (step and run).**  At the `upsert.update` action
    of E1 the entry of key 1 keeps its id and changes value and deadline; along the whole call, interleaved with the
    worker, key 1 is stored under id 1 at both ends with different (value, deadline). -/
example : upsB_at (upsB_setup ++ call 1 (.upsert 1 (some 111) none (some 500) false) 1) (fun b =>
    (match b.g.store.get? 1, stepB b (.client 1) noO with
     | some e, .ok (b', _) =>
       (match b'.g.store.get? 1 with
        | some e' => decide (e'.id = e.id ∧ e'.value ≠ e.value ∧ e'.expiry ≠ e.expiry)
        | none => false)
     | _, _ => false)) = true := by decide

theorem C08_layerB_only_upsert_run_witness :
    ∃ h b e0 e, RunH upsB_b0 h b ∧ Reach upsB_cfg 0 [1, 2, 3, 4] 2 upsB_b0 ∧ upsB_b0.g.store.get? 1 = some e0 ∧
      b.g.store.get? 1 = some e ∧ e.id = e0.id ∧ e.value ≠ e0.value ∧ e.expiry ≠ e0.expiry := by
  have hh : ∃ h b, histOf upsB_b0 (call 1 (.upsert 1 (some 111) none (some 500) false) 6 ++ workerN 2) [] = .ok (h, b) ∧
      b.g.store.get? 1 = some ⟨111, 1, some 507, false⟩ := ⟨_, _, rfl, by decide⟩
  obtain ⟨h, b, hrun, hk⟩ := hh
  exact ⟨h, b, ⟨100, 1, some 1000, false⟩, _, runH_histOf _ (.nil _) hrun, upsB_reach_run (l := upsB_setup) rfl,
    by decide, hk, rfl, by decide, by decide⟩

/-! ### the race observations -/

/-- **C08 (5.i): two overlapping `put_or_update`s of one key — the weight read at `upsert.weight_of` is stale when the
    command is applied; the LAST COMMAND QUEUED wins.**
    Key 1 is charged 30 and has a time-to-live.  Client 0 calls `put_or_update(1, remove_time_to_live)` (no value, no
    weight: the new weight is "charged − 24"); client 1 calls `put_or_update(1, weight 50)`.
    * Client 0 one after the other, then client 1: final charged weight 50.   Client 1, then client 0: 50 − 24 = 26.
    * The interleaving `upsB_raceHead`: client 0 reads the charged weight 30 at `upsert.weight_of`; client 1's call runs
      completely and the worker applies `UpdateWeight(1, 50)` (acknowledged Accepted, charged weight 50); client 0 goes
      on and sends `UpdateWeight(1, 6)` — 6 = the STALE 30 − 24; the worker applies it: acknowledged Accepted, final
      charged weight 6 and total 6.  That is the outcome of NEITHER serial order: client 1's accepted weight 50 is lost
      (no later command restores it), the key is charged 6 although the last explicit weight was 50.
    * With the two sends in the other order (client 0's command queued first) the final weight is 50: whichever
      `UpdateWeight` is queued last determines the charge.
    An observation about `put_or_update`'s read–compute–send on the caller's side; store, index and acknowledgements
    are consistent in all four runs (entry without deadline, empty index).
    (Re-evaluated after fix c86efeb: unchanged.  The fix only concerns an id that is NOT charged when `upsert.weight_of`
    runs — then no weight is handed on, see the example "not charged at `upsert.weight_of`" above; here id 1 is charged
    30 at that action, `chargedWeight? = some 30`, and the stale 30 − 24 = 6 is still sent and still wins.) -/
theorem C08_layerB_race_observations_stale_weight :
    -- serial: client 0, then client 1
    upsB_at (upsB_setup ++ call 0 (.upsert 1 none none none true) 5 ++ workerN 2 ++
             call 1 (.upsert 1 none (some 50) none false) 4 ++ workerN 2) (fun b =>
      decide (b.g.adm.kw.get? 1 = some ⟨1, 1, 50⟩ ∧ b.g.adm.used = 50 ∧ b.g.acks = [.accepted, .accepted, .accepted])) = true ∧
    -- serial: client 1, then client 0
    upsB_at (upsB_setup ++ call 1 (.upsert 1 none (some 50) none false) 4 ++ workerN 2 ++
             call 0 (.upsert 1 none none none true) 5 ++ workerN 2) (fun b =>
      decide (b.g.adm.kw.get? 1 = some ⟨1, 1, 26⟩ ∧ b.g.adm.used = 26 ∧ b.g.acks = [.accepted, .accepted, .accepted])) = true ∧
    -- the race: in the middle …
    upsB_at (upsB_setup ++ upsB_raceHead) (fun b =>
      decide (b.g.adm.kw.get? 1 = some ⟨1, 1, 50⟩ ∧ b.g.acks = [.accepted, .accepted]) &&
      (match b.cl[0]? with | some (CPc.send (Cmd.updateWeight id w)) => decide (id = 1 ∧ w = 6) | _ => false)) = true ∧
    -- … and at the end
    upsB_at (upsB_setup ++ upsB_raceHead ++ [(.client 0, noO)] ++ workerN 2) (fun b =>
      decide (b.g.adm.kw.get? 1 = some ⟨1, 1, 6⟩ ∧ b.g.adm.used = 6 ∧ b.g.acks = [.accepted, .accepted, .accepted] ∧
              b.g.store.get? 1 = some ⟨100, 1, none, false⟩ ∧ b.g.ttl = [] ∧ b.g.queue = []) &&
      (match b.cl[0]?, b.cl[1]? with | some CPc.idle, some CPc.idle => true | _, _ => false)) = true ∧
    -- the other order of the two sends: client 0 sends first, client 1 last
    upsB_at (upsB_setup ++ call 0 (.upsert 1 none none none true) 3 ++ call 1 (.upsert 1 none (some 50) none false) 3 ++
             [(.client 0, noO), (.client 0, noO), (.client 1, noO)] ++ workerN 4) (fun b =>
      decide (b.g.adm.kw.get? 1 = some ⟨1, 1, 50⟩ ∧ b.g.adm.used = 50 ∧ b.g.acks = [.accepted, .accepted, .accepted])) = true := by
  refine ⟨?_, ?_, ?_, ?_, ?_⟩ <;> decide

/-- **C08 (5.ii): a `put_or_update` overlapping the worker's `Delete` of the same key — the update is applied to the
    store, then removed, and acknowledged Accepted.**
    Client 0 calls `delete(1)`: `delete.mark` flags the entry, the command is queued, the worker receives it and stands
    at its `store.remove`.  Client 1 calls `put_or_update(1, value 111)`: its `upsert.update` finds the (flagged) entry
    physically present and writes 111 into it — it does NOT act as a put.  The worker removes the entry, its charge and
    its index entry, acknowledges the delete.  Client 1 goes on: `upsert.weight_of` reads "not charged" (none), the weight
    due is the recomputed 1, `UpdateWeight(1, 1)` is sent; the worker finds no charge for id 1 and answers Accepted.
    At the end: key 1 absent, nothing charged, empty index, all three acknowledgements Accepted — the accepted update
    is gone.  (The action-granularity form of `Cached.C08_counterexample_soft_deleted`.) -/
theorem C08_layerB_race_observations_delete :
    upsB_at (upsB_setup ++ call 0 (.delete 1) 3 ++ workerN 1 ++ call 1 (.upsert 1 (some 111) none none false) 2) (fun b =>
      (match b.w with | .delStore k _ => decide (k = 1) | _ => false) &&
      decide (b.g.store.get? 1 = some ⟨111, 1, some 1000, true⟩ ∧ b.g.acks = [.accepted, .pending]) &&
      (match b.cl[1]? with
       | some (CPc.upWeightOf id uw _ _) => decide (id = 1 ∧ uw = some 1)
       | _ => false)) = true ∧
    upsB_at (upsB_setup ++ call 0 (.delete 1) 3 ++ workerN 1 ++ call 1 (.upsert 1 (some 111) none none false) 2 ++
             workerN 4 ++ [(.client 1, noO), (.client 1, noO)] ++ workerN 2) (fun b =>
      decide (b.g.store.get? 1 = none ∧ b.g.adm.kw = [] ∧ b.g.adm.used = 0 ∧ b.g.ttl = [] ∧ b.g.queue = [] ∧
              b.g.acks = [.accepted, .accepted, .accepted]) &&
      (match b.res[1]? with | some [Out.ack h _] => decide (h = 2) | _ => false)) = true := by
  refine ⟨?_, ?_⟩ <;> decide

/-- **C08 (5.iii): the same overlap with a time-to-live being ADDED leaves an index entry for a dead id.**
    Key 1 has no time-to-live.  `delete(1)` is marked, queued and received; `put_or_update(1, ttl 500)` writes the
    deadline 500 into the (flagged) entry and stands before its `ttl.put`; the worker's delete removes the entry —
    reading the NEW deadline from it — the charge, and "the index entry" (there is none yet); then the client's
    `ttl.put` adds `(0, 1) ↦ 500` and its `UpdateWeight(1, 54)` is answered Accepted (no charge).  At the end: key absent,
    nothing charged, three Accepted acknowledgements, and an index entry for id 1 that no entry carries; it stays until
    the clock passes 500 and the sweeper visits it (`C10_layerB_stale_harmless`: nothing is subtracted then). -/
theorem C08_layerB_race_observations_index_leak :
    upsB_at (call 0 (.putW 1 100 30 none) 4 ++ workerN 6 ++ call 0 (.delete 1) 3 ++ workerN 1 ++
             call 1 (.upsert 1 none none (some 500) false) 3) (fun b =>
      (match b.w, b.cl[1]? with
       | .delStore k _, some (CPc.upTtlPut id e uw) => decide (k = 1 ∧ id = 1 ∧ e = 500 ∧ uw = some 54)
       | _, _ => false) &&
      decide (b.g.store.get? 1 = some ⟨100, 1, some 500, true⟩ ∧ b.g.ttl = [])) = true ∧
    upsB_at (call 0 (.putW 1 100 30 none) 4 ++ workerN 6 ++ call 0 (.delete 1) 3 ++ workerN 1 ++
             call 1 (.upsert 1 none none (some 500) false) 3 ++ workerN 4 ++ [(.client 1, noO), (.client 1, noO)] ++
             workerN 2) (fun b =>
      decide (b.g.store = [] ∧ b.g.adm.kw = [] ∧ b.g.adm.used = 0 ∧ b.g.ttl = [((0, 1), 500)] ∧ b.g.queue = [] ∧
              b.g.acks = [.accepted, .accepted, .accepted])) = true := by
  refine ⟨?_, ?_⟩ <;> decide

/-- **C08 (5)**: the three observations together -/
theorem C08_layerB_race_observations :
    -- (i) stale weight: the race ends with the charged weight 6 = (stale 30) − 24; the serial orders give 50 and 26
    (upsB_at (upsB_setup ++ upsB_raceHead ++ [(.client 0, noO)] ++ workerN 2) (fun b =>
      decide (b.g.adm.kw.get? 1 = some ⟨1, 1, 6⟩ ∧ b.g.adm.used = 6 ∧ b.g.acks = [.accepted, .accepted, .accepted])) = true ∧
     upsB_at (upsB_setup ++ call 0 (.upsert 1 none none none true) 5 ++ workerN 2 ++
              call 1 (.upsert 1 none (some 50) none false) 4 ++ workerN 2) (fun b =>
      decide (b.g.adm.kw.get? 1 = some ⟨1, 1, 50⟩)) = true ∧
     upsB_at (upsB_setup ++ call 1 (.upsert 1 none (some 50) none false) 4 ++ workerN 2 ++
              call 0 (.upsert 1 none none none true) 5 ++ workerN 2) (fun b =>
      decide (b.g.adm.kw.get? 1 = some ⟨1, 1, 26⟩)) = true) ∧
    -- (ii) update applied, then removed by the worker's `Delete`, acknowledged Accepted
    upsB_at (upsB_setup ++ call 0 (.delete 1) 3 ++ workerN 1 ++ call 1 (.upsert 1 (some 111) none none false) 2 ++
             workerN 4 ++ [(.client 1, noO), (.client 1, noO)] ++ workerN 2) (fun b =>
      decide (b.g.store.get? 1 = none ∧ b.g.adm.kw = [] ∧ b.g.acks = [.accepted, .accepted, .accepted])) = true ∧
    -- (iii) … and with a time-to-live being added: an index entry for a dead id is left behind
    upsB_at (call 0 (.putW 1 100 30 none) 4 ++ workerN 6 ++ call 0 (.delete 1) 3 ++ workerN 1 ++
             call 1 (.upsert 1 none none (some 500) false) 3 ++ workerN 4 ++ [(.client 1, noO), (.client 1, noO)] ++
             workerN 2) (fun b =>
      decide (b.g.store = [] ∧ b.g.adm.kw = [] ∧ b.g.ttl = [((0, 1), 500)])) = true := by
  refine ⟨⟨?_, ?_, ?_⟩, ?_, ?_⟩ <;> decide

/-- the states of these runs are reachable: `BInv`, `WAbsent` hold in them, the theorems above apply -/
example (b : BState) (h : runB upsB_init (upsB_setup ++ upsB_raceHead) = .ok b) : BInv b ∧ WAbsent b :=
  ⟨binv_reach (upsB_reach_run h), wabsent_reach (upsB_reach_run h)⟩

end B
end Cached
