/-
  Layer A is the NON-PREEMPTED fragment of Layer B.
-/
import CachedModel.LayerB
import CachedProofs.Properties.C06

namespace Cached
namespace B

/-! ## 0  runs -/

/-- the worker stands at the head of its loop (`recv`, `drain`) or has died -/
def WPc.atHead : WPc → Bool
  | .recv | .drain | .dead => true
  | _ => false

/-- Repeats `workerAct` (at least once) until the worker is back at the head of its loop. -/
def workerRun : Nat → BState → Oracle → Except String (BState × Oracle)
  | 0, _, _ => .error "fuel exhausted"
  | n + 1, b, o =>
    match workerAct b o with
    | .error m => .error m
    | .ok (b', o') => if b'.w.atHead then .ok (b', o') else workerRun n b' o'

/-- what `workerRun` does with the result of one action -/
def contRun (n : Nat) : Except String (BState × Oracle) → Except String (BState × Oracle)
  | .error m => .error m
  | .ok (b', o') => if b'.w.atHead then .ok (b', o') else workerRun n b' o'

theorem workerRun_succ (n : Nat) (b : BState) (o : Oracle) :
    workerRun (n + 1) b o = contRun n (workerAct b o) := by
  simp only [workerRun, contRun]

/-- where the worker of Layer B stands between two commands, given the mode Layer A records -/
def pcOfMode : WorkerMode → WPc
  | .running => .recv
  | .draining => .drain
  | .dead => .dead

/-- explicit sufficient fuel for one command -/
def workerFuel (b : BState) : Nat := 5 * b.g.adm.kw.length + 12

/-! ## 1  evictions only touch the store and the statistics -/

theorem applyEvict_frame (s : State) (e : Evicted) :
    applyEvict s e = { s with store := (applyEvict s e).store, stats := (applyEvict s e).stats } := by
  obtain ⟨id, key, w⟩ := e
  unfold applyEvict
  simp only []
  split <;> rfl

theorem applyEvict_adm (s : State) (a : Adm) (e : Evicted) :
    applyEvict { s with adm := a } e = { applyEvict s e with adm := a } := by
  obtain ⟨id, key, w⟩ := e
  unfold applyEvict
  simp only []
  split <;> rfl

theorem foldl_applyEvict_adm (evs : List Evicted) : ∀ (s : State) (a : Adm),
    evs.foldl applyEvict { s with adm := a } = { evs.foldl applyEvict s with adm := a } := by
  induction evs with
  | nil => intro s a; rfl
  | cons e rest ih =>
    intro s a
    show rest.foldl applyEvict (applyEvict { s with adm := a } e) = _
    rw [applyEvict_adm, ih]
    rfl

theorem foldl_applyEvict_frame (evs : List Evicted) : ∀ (s : State),
    evs.foldl applyEvict s =
      { s with store := (evs.foldl applyEvict s).store, stats := (evs.foldl applyEvict s).stats } := by
  induction evs with
  | nil => intro s; rfl
  | cons e rest ih =>
    intro s
    simp only [List.foldl_cons]
    rw [ih (applyEvict s e)]
    rw [applyEvict_frame s e]

@[simp] theorem applyEvict_lfu (s : State) (e : Evicted) : (applyEvict s e).lfu = s.lfu := by
  rw [applyEvict_frame]
@[simp] theorem applyEvict_cfg (s : State) (e : Evicted) : (applyEvict s e).cfg = s.cfg := by
  rw [applyEvict_frame]
@[simp] theorem applyEvict_adm' (s : State) (e : Evicted) : (applyEvict s e).adm = s.adm := by
  rw [applyEvict_frame]
@[simp] theorem foldl_applyEvict_lfu (evs : List Evicted) (s : State) : (evs.foldl applyEvict s).lfu = s.lfu := by
  rw [foldl_applyEvict_frame]
@[simp] theorem foldl_applyEvict_cfg (evs : List Evicted) (s : State) : (evs.foldl applyEvict s).cfg = s.cfg := by
  rw [foldl_applyEvict_frame]

/-! ## 2  the worker -/

/-- The result of a Layer B run of the worker agrees with the result of the Layer A step:
    same shared state, same oracle left over, the worker back at the head of its loop, no lock owned,
    nothing else touched; an illegal event / oracle on one side is one on the other side. -/
def WAgree (sw : SPc) (cl : List CPc) (res : List (List Out))
    (ra : Except String (State × Out × Oracle)) (rb : Except String (BState × Oracle)) : Prop :=
  match ra with
  | .ok (g', _, o') => rb = .ok (⟨g', pcOfMode g'.worker, sw, cl, res, none, none⟩, o')
  | .error _ => ∃ m, rb = .error m

theorem worker_update (g : State) (sw : SPc) (cl : List CPc) (res : List (List Out)) (o : Oracle) (n : Nat)
    (id : Nat) (w : Int) (h : Option Nat) (q : List (Cmd × Option Nat))
    (hrun : g.worker = .running) (hq : g.queue = (.updateWeight id w, h) :: q) :
    WAgree sw cl res (workerStep g o) (workerRun (n + 2) ⟨g, .recv, sw, cl, res, none, none⟩ o) := by
  simp only [workerRun, workerAct, hq, workerStep, hrun, workerUpdateWeight, WPc.atHead, wuFree]
  cases hk : g.adm.kw.get? id with
  | none => simp [WAgree, finishCmd, pcOfMode, hrun]
  | some wk =>
    by_cases hc : (!inI64 (w - wk.weight) || !inI64 (g.adm.used + (w - wk.weight))) = true
    · simp only [hc, if_true]; simp [WAgree, pcOfMode]
    · simp only [hc, if_false]; simp [WAgree, finishCmd, pcOfMode]

theorem worker_delete (g : State) (sw : SPc) (cl : List CPc) (res : List (List Out)) (o : Oracle) (n : Nat)
    (k : Nat) (h : Option Nat) (q : List (Cmd × Option Nat))
    (hrun : g.worker = .running) (hq : g.queue = (.delete k, h) :: q) :
    WAgree sw cl res (workerStep g o) (workerRun (n + 5) ⟨g, .recv, sw, cl, res, none, none⟩ o) := by
  simp only [workerRun, workerAct, hq, workerStep, hrun, workerDelete, WPc.atHead, wuFree, ttlFree]
  cases hk : g.store.get? k with
  | none => simp [WAgree, finishCmd, pcOfMode]
  | some e =>
    simp only []
    cases hkw : g.adm.kw.get? e.id with
    | none =>
      cases hx : e.expiry with
      | none => simp [WAgree, finishCmd, pcOfMode, Adm.delete, hkw]
      | some x => simp [WAgree, finishCmd, pcOfMode, Adm.delete, hkw, ttlDelete]
    | some wk =>
      cases hx : e.expiry with
      | none => simp [WAgree, finishCmd, pcOfMode, Adm.delete, hkw]
      | some x => simp [WAgree, finishCmd, pcOfMode, Adm.delete, hkw, ttlDelete]

/-- FINDING (model drift): on the `Shutdown` command Layer A records `worker := .draining` in the shared state,
    Layer B only moves its pc to `.drain` and leaves `g.worker = .running`. Everything else agrees. -/
theorem worker_shutdown (g : State) (sw : SPc) (cl : List CPc) (res : List (List Out)) (o : Oracle) (n : Nat)
    (h : Option Nat) (q : List (Cmd × Option Nat))
    (hrun : g.worker = .running) (hq : g.queue = (.shutdown, h) :: q) :
    ∃ g' out, workerStep g o = .ok (g', out, o) ∧ g'.worker = .draining ∧
      workerRun (n + 1) ⟨g, .recv, sw, cl, res, none, none⟩ o =
        .ok (⟨{ g' with worker := .running }, .drain, sw, cl, res, none, none⟩, o) := by
  simp [workerRun, workerAct, hq, workerStep, hrun, WPc.atHead, finishCmd]

theorem worker_drain (g : State) (sw : SPc) (cl : List CPc) (res : List (List Out)) (o : Oracle) (n : Nat)
    (hrun : g.worker = .draining) :
    WAgree sw cl res (workerStep g o) (workerRun (n + 1) ⟨g, .drain, sw, cl, res, none, none⟩ o) := by
  cases hq : g.queue with
  | nil => simp [workerRun, workerAct, hq, workerStep, hrun, WAgree]
  | cons c q =>
    obtain ⟨cmd, h⟩ := c
    simp [workerRun, workerAct, hq, workerStep, hrun, WPc.atHead, WAgree, finishCmd, pcOfMode]

theorem worker_dead (g : State) (sw : SPc) (cl : List CPc) (res : List (List Out)) (o : Oracle) (n : Nat)
    (hrun : g.worker = .dead) :
    WAgree sw cl res (workerStep g o) (workerRun (n + 1) ⟨g, .dead, sw, cl, res, none, none⟩ o) := by
  simp [workerRun, workerAct, workerStep, hrun, WAgree]

theorem worker_empty (g : State) (sw : SPc) (cl : List CPc) (res : List (List Out)) (o : Oracle) (n : Nat)
    (hrun : g.worker = .running) (hq : g.queue = []) :
    WAgree sw cl res (workerStep g o) (workerRun (n + 1) ⟨g, .recv, sw, cl, res, none, none⟩ o) := by
  simp [workerRun, workerAct, workerStep, hrun, hq, WAgree]

/-- After the `Shutdown` command Layer B stands at `.drain` with `g.worker = .running` (see `worker_shutdown`);
    from there it drains exactly as Layer A does in mode `.draining`. -/
theorem worker_drain_B (g : State) (sw : SPc) (cl : List CPc) (res : List (List Out)) (o : Oracle) (n : Nat)
    (hrun : g.worker = .running) :
    match workerStep { g with worker := .draining } o with
    | .ok (g', _, o') => workerRun (n + 1) ⟨g, .drain, sw, cl, res, none, none⟩ o =
        .ok (⟨{ g' with worker := .running }, .drain, sw, cl, res, none, none⟩, o')
    | .error _ => ∃ m, workerRun (n + 1) ⟨g, .drain, sw, cl, res, none, none⟩ o = .error m := by
  cases hq : g.queue with
  | nil => simp [workerRun, workerAct, hq, workerStep]
  | cons c q =>
    obtain ⟨cmd, h⟩ := c
    simp [workerRun, workerAct, hq, workerStep, hrun, WPc.atHead, finishCmd]

/-! ### puts -/

/-- What is left of a put command once `maybe_add` has decided (`st`), as a function of the shared state `g` in which
    the evictions are applied and `adm` is the admission state the loop ended in: the new shared state and
    where the worker stands. Written the way Layer A (`workerPut` + `finish`) does it. -/
def putEnd (g : State) (c : PutCmd) (st : Status) : State × WPc :=
  if st = .accepted then
    let s2 : State := { g with adm := g.adm.add c.id c.k c.hash c.w,
                               stats := { g.stats with weightAdded := (g.stats.weightAdded + c.w.toNat) % u64Mod } }
    match c.ttl with
    | none =>
      let s3 : State := { s2 with store := s2.store.set c.k { value := c.v, id := c.id, expiry := none, soft := false },
                                  stats := { s2.stats with keysAdded := s2.stats.keysAdded + 1 } }
      ({ s3 with acks := setAck s3.acks c.h .accepted }, .recv)
    | some t =>
      match addTime g.now t with
      | none => ({ s2 with worker := .dead, queue := [] }, .dead)
      | some e =>
        let s3 : State := { s2 with store := s2.store.set c.k { value := c.v, id := c.id, expiry := some e, soft := false },
                                    stats := { s2.stats with keysAdded := s2.stats.keysAdded + 1 } }
        let s4 := ttlPut s3 c.id e
        ({ s4 with acks := setAck s4.acks c.h .accepted }, .recv)
  else
    let s2 : State := { g with stats := { g.stats with keysRejected := g.stats.keysRejected + 1 } }
    ({ s2 with acks := setAck s2.acks c.h st }, .recv)

/-- Layer B from `insert` to the end of the command. -/
theorem run_insert (g : State) (sw : SPc) (cl : List CPc) (res : List (List Out)) (o : Oracle) (n : Nat)
    (c : PutCmd) (hn : 4 ≤ n) :
    workerRun n ⟨g, .insert c, sw, cl, res, none, none⟩ o =
      .ok (⟨(putEnd g c .accepted).1, (putEnd g c .accepted).2, sw, cl, res, none, none⟩, o) := by
  obtain ⟨m, rfl⟩ : ∃ m, n = m + 4 := ⟨n - 4, by omega⟩
  simp only [workerRun, workerAct, WPc.atHead, wuFree, ttlFree, putEnd]
  obtain ⟨id, hash, w, k, v, ttl, h⟩ := c
  cases ttl with
  | none => simp [finishCmd, Adm.add]
  | some t =>
    cases he : addTime g.now t with
    | none => simp [Adm.add, he]
    | some e => simp [finishCmd, Adm.add, ttlPut, he]

/-- Layer B through one eviction: `evRemove → evSub → evStore → evSpace → fill`, up to the next `loopDecide`. -/
theorem run_evict (g : State) (sw : SPc) (cl : List CPc) (res : List (List Out)) (o : Oracle) (m : Nat)
    (c : PutCmd) (incEst : Nat) (sample : List SKey) (k : SKey) (wk : WKey) (t : TinyLFU) (size : Nat)
    (hk : g.adm.kw.get? k.id = some wk) (ht : g.lfu = t) (hs : g.cfg.sampleSize = size) :
    workerRun (m + 5) ⟨g, .evRemove c incEst sample k, sw, cl, res, none, none⟩ o =
      match fillSample t (g.adm.kw.del k.id) (fillNeed size (g.adm.kw.del k.id) sample) sample o with
      | .error e => .error e
      | .ok (s'', o') =>
        contRun m (loopDecide
          ⟨applyEvict { g with adm := { g.adm with kw := g.adm.kw.del k.id, used := g.adm.used - wk.weight } }
              (k.id, wk.key, wk.weight),
            .fill c incEst sample (g.adm.max - (g.adm.used - wk.weight)), sw, cl, res, none, none⟩
          c incEst s'' (g.adm.max - (g.adm.used - wk.weight)) o') := by
  subst ht hs
  simp only [workerRun, workerAct, hk, contRun, WPc.atHead, wuFree]
  simp
  cases fillSample g.lfu (g.adm.kw.del k.id) (fillNeed g.cfg.sampleSize (g.adm.kw.del k.id) sample) sample o with
  | error e => rfl
  | ok r => rfl

/-- THE HEART: Layer A's `createLoop` (which threads `Adm` and collects the evictions) against Layer B's cycle
    `loopDecide → evRemove → evSub → evStore → evSpace → fill → loopDecide` (which applies each eviction at once),
    from an arbitrary intermediate state. `s0` is the shared state before the first eviction; the Layer B state has
    the evictions so far (`ev`, latest first) applied and `adm = a`. -/
theorem loop_sim (c : PutCmd) (incEst : Nat) (s0 : State) (sw : SPc) (cl : List CPc) (res : List (List Out)) :
    ∀ (fuelA : Nat) (a : Adm) (sample : List SKey) (o : Oracle) (ev : List Evicted) (pp : List SKey)
      (wpc : WPc) (n : Nat),
      SampleOK a.kw sample → a.kw.length < fuelA → 5 * fuelA ≤ n →
      match createLoop s0.lfu s0.cfg.sampleSize c.w incEst fuelA a sample o ev pp with
      | .ok r =>
        contRun n (loopDecide ⟨{ ev.reverse.foldl applyEvict s0 with adm := a }, wpc, sw, cl, res, none, none⟩
            c incEst sample (a.max - a.used) o) =
          .ok (⟨(putEnd { r.evicted.foldl applyEvict s0 with adm := r.adm } c r.status).1,
                (putEnd { r.evicted.foldl applyEvict s0 with adm := r.adm } c r.status).2,
                sw, cl, res, none, none⟩, r.oracle)
      | .error _ =>
        ∃ m, contRun n (loopDecide ⟨{ ev.reverse.foldl applyEvict s0 with adm := a }, wpc, sw, cl, res, none, none⟩
            c incEst sample (a.max - a.used) o) = .error m := by
  intro fuelA
  induction fuelA with
  | zero => intro a sample o ev pp wpc n _ hlen; omega
  | succ f ih =>
    intro a sample o ev pp wpc n hok hlen hn
    unfold createLoop loopDecide
    by_cases hsp : a.max - a.used ≥ c.w
    · simp only [hsp, if_true, contRun, WPc.atHead]
      simp only [Bool.false_eq_true, if_false]
      exact run_insert _ sw cl res o n c (by omega)
    · simp only [hsp, if_false]
      rcases hp : o.pops with _ | ⟨_ | id, pops⟩
      · simp [contRun]
      · by_cases he : (!sample.isEmpty) = true
        · simp [he, contRun]
        · obtain ⟨m, rfl⟩ : ∃ m, n = m + 1 := ⟨n - 1, by omega⟩
          simp only [he, if_false, contRun, WPc.atHead, workerRun, workerAct, wuFree]
          simp [hsp, rejectCmd, finishCmd, putEnd]
      · simp only []
        cases hf : sample.find? (fun x => x.id == id) with
        | none => simp [contRun]
        | some k =>
          simp only []
          by_cases hmax : (!k.isMaxOf sample) = true
          · simp [hmax, contRun]
          · simp only [hmax, Bool.false_eq_true, if_false]
            by_cases hest : incEst < k.est
            · simp [hest, contRun, rejectCmd, finishCmd, putEnd, WPc.atHead]
            · simp only [hest, if_false]
              obtain ⟨hmem, hid⟩ := find?_id_some hf
              subst hid
              obtain ⟨wk, hwk⟩ := Option.isSome_iff_exists.mp (hok k hmem)
              have hdel := Adm.delete_charged a k.id wk hwk
              have hok' := SampleOK.delete_filter hok k.id
              rw [hdel] at hok' ⊢
              simp only [] at hok' ⊢
              obtain ⟨m, rfl⟩ : ∃ m, n = m + 5 := ⟨n - 5, by omega⟩
              simp only [contRun, WPc.atHead, Bool.false_eq_true, if_false]
              rw [run_evict (g := { ev.reverse.foldl applyEvict s0 with adm := a })
                (t := s0.lfu) (size := s0.cfg.sampleSize) (hk := hwk)
                (ht := foldl_applyEvict_lfu _ _) (hs := by simp only [foldl_applyEvict_cfg])]
              simp only []
              cases hfs : fillSample s0.lfu (a.kw.del k.id)
                  (fillNeed s0.cfg.sampleSize (a.kw.del k.id) (sample.filter (fun x => x.id != k.id)))
                  (sample.filter (fun x => x.id != k.id)) { o with pops := pops } with
              | error e => exact ⟨_, rfl⟩
              | ok r =>
                obtain ⟨s'', o2⟩ := r
                simp only []
                have hok'' := fillSample_sampleOK hok' hfs
                have hlen' := AMap.length_del_lt a.kw k.id (by simp [hwk])
                have IH := ih { a with kw := a.kw.del k.id, used := a.used - wk.weight } s'' o2
                  ((k.id, wk.key, wk.weight) :: ev) (k :: pp)
                  (.fill c incEst (sample.filter (fun x => x.id != k.id)) (a.max - (a.used - wk.weight))) m
                  hok'' (by simp only []; omega) (by omega)
                have hX : ({ ((k.id, wk.key, wk.weight) :: ev).reverse.foldl applyEvict s0 with
                              adm := { a with kw := a.kw.del k.id, used := a.used - wk.weight } } : State) =
                    applyEvict { ev.reverse.foldl applyEvict s0 with
                              adm := { a with kw := a.kw.del k.id, used := a.used - wk.weight } }
                      (k.id, wk.key, wk.weight) := by
                  rw [applyEvict_adm, List.reverse_cons, List.foldl_append]
                  rfl
                rw [hX] at IH
                exact IH

/-- what Layer A's `finish` makes of the result of `workerPut`, as a Layer B state -/
def finishB (sw : SPc) (cl : List CPc) (res : List (List Out)) (h : Option Nat) : Exec → BState
  | .done s1 st _ _ _ => ⟨{ s1 with acks := setAck s1.acks h st }, .recv, sw, cl, res, none, none⟩
  | .panicked s1 _ => ⟨{ s1 with worker := .dead, queue := [] }, .dead, sw, cl, res, none, none⟩

/-- Layer A: the part of `workerPut` after `maybeAdd` has answered `r` (verbatim). -/
def putTailA (s : State) (id : Nat) (w : Int) (k v : Nat) (ttl : Option Nat) (r : AdmResult) : Exec :=
  let s1 := r.evicted.foldl applyEvict { s with adm := r.adm }
  if r.status = .accepted then
    let s2 := { s1 with stats := { s1.stats with weightAdded := (s1.stats.weightAdded + w.toNat) % u64Mod } }
    match ttl with
    | none =>
      let s3 := { s2 with store := s2.store.set k { value := v, id := id, expiry := none, soft := false },
                          stats := { s2.stats with keysAdded := s2.stats.keysAdded + 1 } }
      .done s3 .accepted r.incEst r.popped r.evicted
    | some t =>
      match addTime s.now t with
      | none => .panicked s2 .timeOverflow
      | some e =>
        let s3 := { s2 with store := s2.store.set k { value := v, id := id, expiry := some e, soft := false },
                            stats := { s2.stats with keysAdded := s2.stats.keysAdded + 1 } }
        .done (ttlPut s3 id e) .accepted r.incEst r.popped r.evicted
  else
    let s2 := { s1 with stats := { s1.stats with keysRejected := s1.stats.keysRejected + 1 } }
    .done s2 r.status r.incEst r.popped r.evicted

theorem workerPut_eq (s : State) (id hash : Nat) (w : Int) (k v : Nat) (ttl : Option Nat) (o : Oracle) :
    workerPut s id hash w k v ttl o =
      if s.store.contains k then .ok (.done s (.rejected .keyAlreadyExists) none [] [], o)
      else match maybeAdd s.lfu s.cfg.sampleSize s.adm id k hash w o with
        | .error m => .error m
        | .ok r => .ok (putTailA s id w k v ttl r, r.oracle) := by
  unfold workerPut putTailA
  by_cases hc : s.store.contains k = true
  · simp only [hc, if_true]
  · simp only [hc, Bool.false_eq_true, if_false]
    cases maybeAdd s.lfu s.cfg.sampleSize s.adm id k hash w o with
    | error m => rfl
    | ok r =>
      simp only []
      split
      · split
        · rfl
        · split <;> rfl
      · rfl

/-- The Layer A tail and the Layer B tail (`putEnd`) are the same function of the state with the evictions applied. -/
theorem putTailA_eq (s : State) (sw : SPc) (cl : List CPc) (res : List (List Out)) (c : PutCmd) (r : AdmResult)
    (a : Adm) (hr : r.adm = if r.status = .accepted then a.add c.id c.k c.hash c.w else a) :
    finishB sw cl res c.h (putTailA s c.id c.w c.k c.v c.ttl r) =
      ⟨(putEnd { r.evicted.foldl applyEvict s with adm := a } c r.status).1,
       (putEnd { r.evicted.foldl applyEvict s with adm := a } c r.status).2, sw, cl, res, none, none⟩ := by
  unfold putTailA putEnd
  rw [foldl_applyEvict_adm, hr]
  have hnow : (r.evicted.foldl applyEvict s).now = s.now := by rw [foldl_applyEvict_frame]
  generalize r.evicted.foldl applyEvict s = X at hnow ⊢
  by_cases hst : r.status = .accepted
  · simp only [hst, if_true]
    cases c.ttl with
    | none => simp [finishB, Adm.add]
    | some t =>
      simp only [hnow]
      cases addTime s.now t with
      | none => simp [finishB, Adm.add]
      | some e => simp [finishB, Adm.add, ttlPut]
  · simp [hst, finishB]

end B
end Cached
