/-
  Layer A is the NON-PREEMPTED fragment of Layer B.

  Layer A (`CachedModel/State.lean`) runs each client call, each worker command and each sweep atomically; Layer B
  (`CachedModel/LayerB.lean`) runs the same programs one atomic action at a time. This file proves that running one
  Layer B thread alone, from one Layer A event boundary to the next, is exactly the Layer A event.
  "Alone" includes: no lock is owned and nobody keeps a `get_ref` read guard (`storeReaders = []`) at the boundary —
  store writes are not enabled while another thread keeps a read guard on the shard (`storeWritable`).

  * §2 worker    `workerRun`, `worker_refines` (+ `_core`, `_drain`, `_shutdown`) for EVERY command, `Shutdown` included;
                 heart: `loop_sim` (`createLoop` against the cycle
                 `loopDecide → evRemove → evSub → evStore → evSpace → fill`), `put_sim`, `worker_put`;
  * §3 clients   `clientRun`, `client_refines` (`putW`, `delete`, `get`, `weight`, `upsert`, `getRef`, `shutdown`,
                 `mget`), `afterCall`; `getRef k` is Layer A's `.get k` (guard taken and released within the run:
                 `client_getRef`), `shutdown` is `clientShutdown` (`client_shutdown`, `run_shutSendCmd`,
                 `run_shutSendBuf`, `run_shutFinish`); `mget ks iter` (`multi_get` and the two iterators) is Layer A's
                 `.multiGet ks` (`run_mget`: induction over the keys against `readKeys`; `client_mget`;
                 `client_mget_iter_irrelevant`); fuel `4·|ks| + 3` (every load of the shutdown flag is an action);
                 `parked_is_send` / `parked_is_shutdown_send` / `parked_not_enabled` (Layer A's `.parked` = the Layer B
                 client at `.send cmd` / `.shutSendCmd` / `.shutSendBuf` with that queue full);
                 `resume_refines` (a parked call + `resume` = the Layer B client going on from that send);
  * §4 sweeper   `sweeperRun`, `sweeper_refines` for EVERY visiting order (`ValidVisits`), `sweepEntries_perm`,
                 `evictId_comm` (evictions of different ids commute);
  * §5           `atRest`, `runActs`, `layerA_step_is_layerB_run` (incl. `.shutdown c`), `shutdown_park_resume`.

  FINDINGS
  * FIXED in the model: on the `Shutdown` command Layer B used to leave `g.worker = .running` (it only moved its pc to
    `.drain`) while Layer A sets `g.worker := .draining`. `workerAct` now sets it too: `worker_shutdown`,
    `worker_shutdown_agrees`; `worker_refines` and `layerA_step_is_layerB_run` no longer exclude `Shutdown`.
  * the fuel `4 * |kw| + 12` is not enough for `workerRun` (example after `worker_refines`): an eviction is five
    actions; `workerFuel = 5 * |kw| + 12` is proved sufficient.
  * `sweeper_refines` needs the expiry index to have unique keys (`AMap.NoDup g.ttl`): on a duplicated key Layer B's
    `ttl.del` removes every copy, Layer A's `filter` only the due ones.
  * `shutdown` takes 12 actions; `clientRun` needs 13 iterations (the last one sees `.idle`), 12 are not enough
    (example in §5).
-/
import CachedModel.LayerB
import CachedProofs.Properties.C06
import CachedProofs.Lemmas.EvictId

namespace Cached
namespace B

/-! ## 0  runs -/

/-- the worker stands at the head of its loop (`recv`, `drain`) or has died -/
def WPc.atHead : WPc → Bool
  | .recv | .drain | .dead => true
  | _ => false

/-- Repeats `workerAct` (at least once) until the worker is back at the head of its loop. -/
def workerRun : Nat → BState → Oracle → Except String (BState × Oracle)
  | 0, _, _ => .error "fuel exhausted"
  | n + 1, b, o =>
    match workerAct b o with
    | .error m => .error m
    | .ok (b', o') => if b'.w.atHead then .ok (b', o') else workerRun n b' o'

/-- what `workerRun` does with the result of one action -/
def contRun (n : Nat) : Except String (BState × Oracle) → Except String (BState × Oracle)
  | .error m => .error m
  | .ok (b', o') => if b'.w.atHead then .ok (b', o') else workerRun n b' o'

theorem workerRun_succ (n : Nat) (b : BState) (o : Oracle) :
    workerRun (n + 1) b o = contRun n (workerAct b o) := by
  simp only [workerRun, contRun]

/-- where the worker of Layer B stands between two commands, given the mode Layer A records -/
def pcOfMode : WorkerMode → WPc
  | .running => .recv
  | .draining => .drain
  | .dead => .dead

/-- explicit sufficient fuel for one command -/
def workerFuel (b : BState) : Nat := 5 * b.g.adm.kw.length + 12

/-- nobody keeps a read guard (`get_ref` in the middle of its call): every store write is enabled -/
@[simp] theorem storeWritable_mk_nil (g : State) (w : WPc) (sw : SPc) (cl : List CPc) (res : List (List Out))
    (wu : Option Tid) (tt : Option Nat) (ss : List (Nat × Nat)) (k : Nat) (t : Option Nat) :
    storeWritable ⟨g, w, sw, cl, res, wu, tt, [], ss⟩ k t = true := rfl

theorem storeWritable_of_nil (b : BState) (k : Nat) (t : Option Nat) (h : b.storeReaders = []) :
    storeWritable b k t = true := by
  simp [storeWritable, h]

/-! ## 1  evictions only touch the store and the statistics -/

theorem applyEvict_frame (s : State) (e : Evicted) :
    applyEvict s e = { s with store := (applyEvict s e).store, stats := (applyEvict s e).stats } := by
  obtain ⟨id, key, w⟩ := e
  unfold applyEvict
  simp only []
  split <;> rfl

theorem applyEvict_setAdm (s : State) (a : Adm) (e : Evicted) :
    applyEvict { s with adm := a } e = { applyEvict s e with adm := a } := by
  obtain ⟨id, key, w⟩ := e
  unfold applyEvict
  simp only []
  split <;> rfl

theorem foldl_applyEvict_adm (evs : List Evicted) : ∀ (s : State) (a : Adm),
    evs.foldl applyEvict { s with adm := a } = { evs.foldl applyEvict s with adm := a } := by
  induction evs with
  | nil => intro s a; rfl
  | cons e rest ih =>
    intro s a
    show rest.foldl applyEvict (applyEvict { s with adm := a } e) = _
    rw [applyEvict_setAdm, ih]
    rfl

theorem foldl_applyEvict_frame (evs : List Evicted) : ∀ (s : State),
    evs.foldl applyEvict s =
      { s with store := (evs.foldl applyEvict s).store, stats := (evs.foldl applyEvict s).stats } := by
  induction evs with
  | nil => intro s; rfl
  | cons e rest ih =>
    intro s
    simp only [List.foldl_cons]
    rw [ih (applyEvict s e)]
    rw [applyEvict_frame s e]

@[simp] theorem applyEvict_lfu (s : State) (e : Evicted) : (applyEvict s e).lfu = s.lfu := by
  rw [applyEvict_frame]
@[simp] theorem applyEvict_cfg (s : State) (e : Evicted) : (applyEvict s e).cfg = s.cfg := by
  rw [applyEvict_frame]
@[simp] theorem applyEvict_adm_eq (s : State) (e : Evicted) : (applyEvict s e).adm = s.adm := by
  rw [applyEvict_frame]
@[simp] theorem foldl_applyEvict_lfu (evs : List Evicted) (s : State) : (evs.foldl applyEvict s).lfu = s.lfu := by
  rw [foldl_applyEvict_frame]
@[simp] theorem foldl_applyEvict_cfg (evs : List Evicted) (s : State) : (evs.foldl applyEvict s).cfg = s.cfg := by
  rw [foldl_applyEvict_frame]

/-! ## 2  the worker -/

/-- The result of a Layer B run of the worker agrees with the result of the Layer A step:
    same shared state, same oracle left over, the worker back at the head of its loop, no lock owned,
    nothing else touched; an illegal event / oracle on one side is one on the other side. -/
def WAgree (sw : SPc) (cl : List CPc) (res : List (List Out)) (ss : List (Nat × Nat)) (mode : WorkerMode)
    (ra : Except String (State × Out × Oracle)) (rb : Except String (BState × Oracle)) : Prop :=
  match ra with
  | .ok (g', out, o') => rb = .ok (⟨g', pcOfMode g'.worker, sw, cl, res, none, none, [], ss⟩, o') ∧
      (match out with | .workerPanic _ => g'.worker = .dead | _ => g'.worker = mode)
  | .error _ => ∃ m, rb = .error m

theorem worker_update (g : State) (sw : SPc) (cl : List CPc) (res : List (List Out)) (ss : List (Nat × Nat)) (o : Oracle) (n : Nat)
    (id : Nat) (w : Int) (h : Option Nat) (q : List (Cmd × Option Nat))
    (hrun : g.worker = .running) (hq : g.queue = (.updateWeight id w, h) :: q) :
    WAgree sw cl res ss .running (workerStep g o) (workerRun (n + 2) ⟨g, .recv, sw, cl, res, none, none, [], ss⟩ o) := by
  simp only [workerRun, workerAct, hq, workerStep, hrun, workerUpdateWeight, WPc.atHead, wuFree]
  cases hk : g.adm.kw.get? id with
  | none => simp [WAgree, finishCmd, pcOfMode, hrun]
  | some wk =>
    by_cases hc : (!inI64 (w - wk.weight) || !inI64 (g.adm.used + (w - wk.weight))) = true
    · simp only [hc, if_true]; simp [WAgree, pcOfMode]
    · simp only [hc, if_false]; simp [WAgree, finishCmd, pcOfMode]

theorem worker_delete (g : State) (sw : SPc) (cl : List CPc) (res : List (List Out)) (ss : List (Nat × Nat)) (o : Oracle) (n : Nat)
    (k : Nat) (h : Option Nat) (q : List (Cmd × Option Nat))
    (hrun : g.worker = .running) (hq : g.queue = (.delete k, h) :: q) :
    WAgree sw cl res ss .running (workerStep g o) (workerRun (n + 5) ⟨g, .recv, sw, cl, res, none, none, [], ss⟩ o) := by
  simp only [workerRun, workerAct, hq, workerStep, hrun, workerDelete, WPc.atHead, wuFree, ttlFree]
  cases hk : g.store.get? k with
  | none => simp [WAgree, finishCmd, pcOfMode]
  | some e =>
    simp only []
    cases hkw : g.adm.kw.get? e.id with
    | none =>
      cases hx : e.expiry with
      | none => simp [WAgree, finishCmd, pcOfMode, Adm.delete, hkw]
      | some x => simp [WAgree, finishCmd, pcOfMode, Adm.delete, hkw, ttlDelete]
    | some wk =>
      cases hx : e.expiry with
      | none => simp [WAgree, finishCmd, pcOfMode, Adm.delete, hkw]
      | some x => simp [WAgree, finishCmd, pcOfMode, Adm.delete, hkw, ttlDelete]

/-- The `Shutdown` command: one action; both layers record `worker := .draining` (Layer B's pc goes to `.drain`).
    (Before the model fix Layer B left `g.worker = .running` here — the drift reported earlier; it is gone.) -/
theorem worker_shutdown (g : State) (sw : SPc) (cl : List CPc) (res : List (List Out)) (ss : List (Nat × Nat)) (o : Oracle) (n : Nat)
    (h : Option Nat) (q : List (Cmd × Option Nat))
    (hrun : g.worker = .running) (hq : g.queue = (.shutdown, h) :: q) :
    WAgree sw cl res ss .draining (workerStep g o) (workerRun (n + 1) ⟨g, .recv, sw, cl, res, none, none, [], ss⟩ o) := by
  simp [WAgree, workerRun, workerAct, hq, workerStep, hrun, WPc.atHead, finishCmd, pcOfMode]

theorem worker_drain (g : State) (sw : SPc) (cl : List CPc) (res : List (List Out)) (ss : List (Nat × Nat)) (o : Oracle) (n : Nat)
    (hrun : g.worker = .draining) :
    WAgree sw cl res ss .draining (workerStep g o) (workerRun (n + 1) ⟨g, .drain, sw, cl, res, none, none, [], ss⟩ o) := by
  cases hq : g.queue with
  | nil => simp [workerRun, workerAct, hq, workerStep, hrun, WAgree]
  | cons c q =>
    obtain ⟨cmd, h⟩ := c
    simp [workerRun, workerAct, hq, workerStep, hrun, WPc.atHead, WAgree, finishCmd, pcOfMode]

theorem worker_dead (g : State) (sw : SPc) (cl : List CPc) (res : List (List Out)) (ss : List (Nat × Nat)) (o : Oracle) (n : Nat)
    (hrun : g.worker = .dead) :
    WAgree sw cl res ss .dead (workerStep g o) (workerRun (n + 1) ⟨g, .dead, sw, cl, res, none, none, [], ss⟩ o) := by
  simp [workerRun, workerAct, workerStep, hrun, WAgree]

theorem worker_empty (g : State) (sw : SPc) (cl : List CPc) (res : List (List Out)) (ss : List (Nat × Nat)) (o : Oracle) (n : Nat)
    (hrun : g.worker = .running) (hq : g.queue = []) :
    WAgree sw cl res ss .running (workerStep g o) (workerRun (n + 1) ⟨g, .recv, sw, cl, res, none, none, [], ss⟩ o) := by
  simp [workerRun, workerAct, workerStep, hrun, hq, WAgree]

/-- The drain action does not look at `g.worker`: a Layer B worker at `.drain` drains as Layer A does in mode
    `.draining` whatever the shared state records (since the model fix `.drain` and `g.worker = .draining` go together,
    see `worker_shutdown`; this lemma is kept from the time they did not). -/
theorem worker_drain_B (g : State) (sw : SPc) (cl : List CPc) (res : List (List Out)) (ss : List (Nat × Nat)) (o : Oracle) (n : Nat)
    (hrun : g.worker = .running) :
    match workerStep { g with worker := .draining } o with
    | .ok (g', _, o') => workerRun (n + 1) ⟨g, .drain, sw, cl, res, none, none, [], ss⟩ o =
        .ok (⟨{ g' with worker := .running }, .drain, sw, cl, res, none, none, [], ss⟩, o')
    | .error _ => ∃ m, workerRun (n + 1) ⟨g, .drain, sw, cl, res, none, none, [], ss⟩ o = .error m := by
  cases hq : g.queue with
  | nil => simp [workerRun, workerAct, hq, workerStep]
  | cons c q =>
    obtain ⟨cmd, h⟩ := c
    simp [workerRun, workerAct, hq, workerStep, hrun, WPc.atHead, finishCmd]

/-! ### puts -/

/-- What is left of a put command once `maybe_add` has decided (`st`), as a function of the shared state `g` in which
    the evictions are applied and `adm` is the admission state the loop ended in: the new shared state and
    where the worker stands. Written the way Layer A (`workerPut` + `finish`) does it. -/
def putEnd (g : State) (c : PutCmd) (st : Status) : State × WPc :=
  if st = .accepted then
    let s2 : State := { g with adm := g.adm.add c.id c.k c.hash c.w,
                               stats := { g.stats with weightAdded := (g.stats.weightAdded + c.w.toNat) % u64Mod } }
    match c.ttl with
    | none =>
      let s3 : State := { s2 with store := s2.store.set c.k { value := c.v, id := c.id, expiry := none, soft := false },
                                  stats := { s2.stats with keysAdded := s2.stats.keysAdded + 1 } }
      ({ s3 with acks := setAck s3.acks c.h .accepted }, .recv)
    | some t =>
      match addTime g.now t with
      | none => ({ s2 with worker := .dead, queue := [] }, .dead)
      | some e =>
        let s3 : State := { s2 with store := s2.store.set c.k { value := c.v, id := c.id, expiry := some e, soft := false },
                                    stats := { s2.stats with keysAdded := s2.stats.keysAdded + 1 } }
        let s4 := ttlPut s3 c.id e
        ({ s4 with acks := setAck s4.acks c.h .accepted }, .recv)
  else
    let s2 : State := { g with stats := { g.stats with keysRejected := g.stats.keysRejected + 1 } }
    ({ s2 with acks := setAck s2.acks c.h st }, .recv)

/-- … and where the worker's panic in `is_space_available_for` (`ovf`: `max_weight - weight_used` outside `i64`) leaves
    things instead: the worker dead where it stood, the queue dropped, the acknowledgement never completed. -/
def putEndO (g : State) (c : PutCmd) (st : Status) (ovf : Bool) : State × WPc :=
  if ovf then ({ g with worker := .dead, queue := [] }, .dead) else putEnd g c st

@[simp] theorem putEndO_false (g : State) (c : PutCmd) (st : Status) : putEndO g c st false = putEnd g c st := rfl

@[simp] theorem putEndO_true (g : State) (c : PutCmd) (st : Status) :
    putEndO g c st true = ({ g with worker := .dead, queue := [] }, .dead) := rfl

/-- Layer B from `insert` to the end of the command. -/
theorem run_insert (g : State) (sw : SPc) (cl : List CPc) (res : List (List Out)) (ss : List (Nat × Nat)) (o : Oracle) (n : Nat)
    (c : PutCmd) (hn : 4 ≤ n) :
    workerRun n ⟨g, .insert c, sw, cl, res, none, none, [], ss⟩ o =
      .ok (⟨(putEnd g c .accepted).1, (putEnd g c .accepted).2, sw, cl, res, none, none, [], ss⟩, o) := by
  obtain ⟨m, rfl⟩ : ∃ m, n = m + 4 := ⟨n - 4, by omega⟩
  simp only [workerRun, workerAct, WPc.atHead, wuFree, ttlFree, putEnd]
  obtain ⟨id, hash, w, k, v, ttl, h⟩ := c
  cases ttl with
  | none => simp [finishCmd, Adm.add]
  | some t =>
    cases he : addTime g.now t with
    | none => simp [Adm.add, he]
    | some e => simp [finishCmd, Adm.add, ttlPut, he]

/-- Layer B through one eviction: `evRemove → evSub → evStore → evSpace → fill`, up to the next `loopDecide`. -/
theorem run_evict (g : State) (sw : SPc) (cl : List CPc) (res : List (List Out)) (ss : List (Nat × Nat)) (o : Oracle) (m : Nat)
    (c : PutCmd) (incEst : Nat) (sample : List SKey) (k : SKey) (wk : WKey) (t : TinyLFU) (size : Nat)
    (hk : g.adm.kw.get? k.id = some wk) (ht : g.lfu = t) (hs : g.cfg.sampleSize = size) :
    workerRun (m + 5) ⟨g, .evRemove c incEst sample k, sw, cl, res, none, none, [], ss⟩ o =
      if ({ g.adm with kw := g.adm.kw.del k.id, used := g.adm.used - wk.weight } : Adm).spaceOverflow then
        -- the re-check after the eviction overflows: the worker dies at `evSpace`, before `maybe_fill_in`
        .ok (⟨{ applyEvict { g with adm := { g.adm with kw := g.adm.kw.del k.id, used := g.adm.used - wk.weight } }
                  (k.id, wk.key, wk.weight) with worker := .dead, queue := [] },
              .dead, sw, cl, res, none, none, [], ss⟩, o)
      else
      match fillSample t (g.adm.kw.del k.id) (fillNeed size (g.adm.kw.del k.id) sample) sample o with
      | .error e => .error e
      | .ok (s'', o') =>
        contRun m (loopDecide
          ⟨applyEvict { g with adm := { g.adm with kw := g.adm.kw.del k.id, used := g.adm.used - wk.weight } }
              (k.id, wk.key, wk.weight),
            .fill c incEst sample (g.adm.max - (g.adm.used - wk.weight)), sw, cl, res, none, none, [], ss⟩
          c incEst s'' (g.adm.max - (g.adm.used - wk.weight)) o') := by
  subst ht hs
  by_cases hov : ({ g.adm with kw := g.adm.kw.del k.id, used := g.adm.used - wk.weight } : Adm).spaceOverflow = true
  · simp only [hov, if_true]
    simp only [workerRun, workerAct, hk, contRun, WPc.atHead, wuFree]
    simp [hov, workerDies, Adm.spaceOverflow] at hov ⊢
    simp [Adm.spaceOverflow, hov, workerDies]
  · simp only [hov, if_false]
    simp only [workerRun, workerAct, hk, contRun, WPc.atHead, wuFree]
    simp [Adm.spaceOverflow] at hov ⊢
    simp [Adm.spaceOverflow, hov]
    cases fillSample g.lfu (g.adm.kw.del k.id) (fillNeed g.cfg.sampleSize (g.adm.kw.del k.id) sample) sample o with
    | error e => rfl
    | ok r => rfl

/-- a run of the loop that ended in the overflow panic did not accept -/
theorem createLoop_overflow_not_accepted {t : TinyLFU} {size : Nat} {w : Int} {incEst : Nat} :
    ∀ {fuel : Nat} {a : Adm} {sample : List SKey} {o : Oracle} {ev : List Evicted} {pp : List SKey} {r : LoopResult},
      createLoop t size w incEst fuel a sample o ev pp = .ok r → r.overflow = true → r.status ≠ .accepted := by
  intro fuel a sample o ev pp r h hov hacc
  obtain ⟨_, _, _, _, _, _, hiff⟩ := C06_loop_follows_rule t size w incEst fuel a sample o ev pp r h
  have := hiff.mp hov
  rw [hacc] at this; cases this

/-- THE HEART: Layer A's `createLoop` (which threads `Adm` and collects the evictions) against Layer B's cycle
    `loopDecide → evRemove → evSub → evStore → evSpace → fill → loopDecide` (which applies each eviction at once),
    from an arbitrary intermediate state. `s0` is the shared state before the first eviction; the Layer B state has
    the evictions so far (`ev`, latest first) applied and `adm = a`. `hnov`: the `is_space_available_for` that produced
    the `space` the loop head looks at did not overflow (the caller's first one, or the one after the last eviction) —
    Layer B repeats that call at `emptySpace` when the sample runs dry, Layer A (atomic: same total) does not. -/
theorem loop_sim (c : PutCmd) (incEst : Nat) (s0 : State) (sw : SPc) (cl : List CPc) (res : List (List Out)) (ss : List (Nat × Nat)) :
    ∀ (fuelA : Nat) (a : Adm) (sample : List SKey) (o : Oracle) (ev : List Evicted) (pp : List SKey)
      (wpc : WPc) (n : Nat),
      SampleOK a.kw sample → a.kw.length < fuelA → 5 * fuelA ≤ n → a.spaceOverflow = false →
      match createLoop s0.lfu s0.cfg.sampleSize c.w incEst fuelA a sample o ev pp with
      | .ok r =>
        contRun n (loopDecide ⟨{ ev.reverse.foldl applyEvict s0 with adm := a }, wpc, sw, cl, res, none, none, [], ss⟩
            c incEst sample (a.max - a.used) o) =
          .ok (⟨(putEndO { r.evicted.foldl applyEvict s0 with adm := r.adm } c r.status r.overflow).1,
                (putEndO { r.evicted.foldl applyEvict s0 with adm := r.adm } c r.status r.overflow).2,
                sw, cl, res, none, none, [], ss⟩, r.oracle)
      | .error _ =>
        ∃ m, contRun n (loopDecide ⟨{ ev.reverse.foldl applyEvict s0 with adm := a }, wpc, sw, cl, res, none, none, [], ss⟩
            c incEst sample (a.max - a.used) o) = .error m := by
  intro fuelA
  induction fuelA with
  | zero => intro a sample o ev pp wpc n _ hlen; omega
  | succ f ih =>
    intro a sample o ev pp wpc n hok hlen hn hnov
    unfold createLoop loopDecide
    by_cases hsp : a.max - a.used ≥ c.w
    · simp only [hsp, if_true, contRun, WPc.atHead]
      simp only [Bool.false_eq_true, if_false, putEndO_false]
      exact run_insert _ sw cl res ss o n c (by omega)
    · simp only [hsp, if_false]
      rcases hp : o.pops with _ | ⟨_ | id, pops⟩
      · simp [contRun]
      · by_cases he : (!sample.isEmpty) = true
        · simp [he, contRun]
        · obtain ⟨m, rfl⟩ : ∃ m, n = m + 1 := ⟨n - 1, by omega⟩
          simp only [he, if_false, contRun, WPc.atHead, workerRun, workerAct, wuFree]
          by_cases hov0 : a.spaceOverflow = true
          · -- (not reached from `maybeAdd`, whose last `is_space_available_for` did not overflow; Layer A's loop has no
            -- check of its own here, Layer B's `emptySpace` has: the two differ) — excluded by `hnov`
            exact absurd hov0 (by simpa using hnov)
          · simp [hsp, hov0, rejectCmd, finishCmd, putEnd]
      · simp only []
        cases hf : sample.find? (fun x => x.id == id) with
        | none => simp [contRun]
        | some k =>
          simp only []
          by_cases hmax : (!k.isMaxOf sample) = true
          · simp [hmax, contRun]
          · simp only [hmax, Bool.false_eq_true, if_false]
            by_cases hest : incEst < k.est
            · simp [hest, contRun, rejectCmd, finishCmd, putEnd, WPc.atHead]
            · simp only [hest, if_false]
              obtain ⟨hmem, hid⟩ := find?_id_some hf
              subst hid
              obtain ⟨wk, hwk⟩ := Option.isSome_iff_exists.mp (hok k hmem)
              have hdel := Adm.delete_charged a k.id wk hwk
              have hok' := SampleOK.delete_filter hok k.id
              rw [hdel] at hok' ⊢
              simp only [] at hok' ⊢
              obtain ⟨m, rfl⟩ : ∃ m, n = m + 5 := ⟨n - 5, by omega⟩
              simp only [contRun, WPc.atHead, Bool.false_eq_true, if_false]
              rw [run_evict (g := { ev.reverse.foldl applyEvict s0 with adm := a })
                (t := s0.lfu) (size := s0.cfg.sampleSize) (hk := hwk)
                (ht := foldl_applyEvict_lfu _ _) (hs := by simp only [foldl_applyEvict_cfg])]
              simp only []
              have hX : ({ ((k.id, wk.key, wk.weight) :: ev).reverse.foldl applyEvict s0 with
                            adm := { a with kw := a.kw.del k.id, used := a.used - wk.weight } } : State) =
                  applyEvict { ev.reverse.foldl applyEvict s0 with
                            adm := { a with kw := a.kw.del k.id, used := a.used - wk.weight } }
                    (k.id, wk.key, wk.weight) := by
                rw [applyEvict_setAdm, List.reverse_cons, List.foldl_append]
                rfl
              by_cases hov : ({ a with kw := a.kw.del k.id, used := a.used - wk.weight } : Adm).spaceOverflow = true
              · -- the re-check after the eviction overflows: both layers end with the worker dead, the victim gone
                simp only [hov, if_true]
                rw [hX]
                rfl
              simp only [hov, Bool.false_eq_true, if_false]
              cases hfs : fillSample s0.lfu (a.kw.del k.id)
                  (fillNeed s0.cfg.sampleSize (a.kw.del k.id) (sample.filter (fun x => x.id != k.id)))
                  (sample.filter (fun x => x.id != k.id)) { o with pops := pops } with
              | error e => exact ⟨_, rfl⟩
              | ok r =>
                obtain ⟨s'', o2⟩ := r
                simp only []
                have hok'' := fillSample_sampleOK hok' hfs
                have hlen' := AMap.length_del_lt a.kw k.id (by simp [hwk])
                have IH := ih { a with kw := a.kw.del k.id, used := a.used - wk.weight } s'' o2
                  ((k.id, wk.key, wk.weight) :: ev) (k :: pp)
                  (.fill c incEst (sample.filter (fun x => x.id != k.id)) (a.max - (a.used - wk.weight))) m
                  hok'' (by simp only []; omega) (by omega) (by simpa using hov)
                rw [hX] at IH
                exact IH

/-- what Layer A's `finish` makes of the result of `workerPut`, as a Layer B state -/
def finishB (sw : SPc) (cl : List CPc) (res : List (List Out)) (ss : List (Nat × Nat)) (h : Option Nat) : Exec → BState
  | .done s1 st _ _ _ => ⟨{ s1 with acks := setAck s1.acks h st }, .recv, sw, cl, res, none, none, [], ss⟩
  | .panicked s1 _ => ⟨{ s1 with worker := .dead, queue := [] }, .dead, sw, cl, res, none, none, [], ss⟩

/-- Layer A: the part of `workerPut` after `maybeAdd` has answered `r` (verbatim). -/
def putTailA (s : State) (id : Nat) (w : Int) (k v : Nat) (ttl : Option Nat) (r : AdmResult) : Exec :=
  let s1 := r.evicted.foldl applyEvict { s with adm := r.adm }
  if r.overflow then .panicked s1 .weightOverflow
  else if r.status = .accepted then
    let s2 := { s1 with stats := { s1.stats with weightAdded := (s1.stats.weightAdded + w.toNat) % u64Mod } }
    match ttl with
    | none =>
      let s3 := { s2 with store := s2.store.set k { value := v, id := id, expiry := none, soft := false },
                          stats := { s2.stats with keysAdded := s2.stats.keysAdded + 1 } }
      .done s3 .accepted r.incEst r.popped r.evicted
    | some t =>
      match addTime s.now t with
      | none => .panicked s2 .timeOverflow
      | some e =>
        let s3 := { s2 with store := s2.store.set k { value := v, id := id, expiry := some e, soft := false },
                            stats := { s2.stats with keysAdded := s2.stats.keysAdded + 1 } }
        .done (ttlPut s3 id e) .accepted r.incEst r.popped r.evicted
  else
    let s2 := { s1 with stats := { s1.stats with keysRejected := s1.stats.keysRejected + 1 } }
    .done s2 r.status r.incEst r.popped r.evicted

theorem workerPut_eq (s : State) (id hash : Nat) (w : Int) (k v : Nat) (ttl : Option Nat) (o : Oracle) :
    workerPut s id hash w k v ttl o =
      if s.store.contains k then .ok (.done s (.rejected .keyAlreadyExists) none [] [], o)
      else match maybeAdd s.lfu s.cfg.sampleSize s.adm id k hash w o with
        | .error m => .error m
        | .ok r => .ok (putTailA s id w k v ttl r, r.oracle) := by
  unfold workerPut putTailA
  by_cases hc : s.store.contains k = true
  · simp only [hc, if_true]
  · simp only [hc, Bool.false_eq_true, if_false]
    cases maybeAdd s.lfu s.cfg.sampleSize s.adm id k hash w o with
    | error m => rfl
    | ok r =>
      by_cases hov : r.overflow = true
      · simp only [hov, if_true]
      simp only [hov, Bool.false_eq_true, if_false]
      by_cases hst : r.status = .accepted
      · cases ttl with
        | none => simp only [hst, if_true]
        | some t => cases h : addTime s.now t <;> simp only [hst, if_true, h]
      · simp only [hst, if_false]

/-- The Layer A tail and the Layer B tail (`putEnd`) are the same function of the state with the evictions applied. -/
theorem putTailA_eq (s : State) (sw : SPc) (cl : List CPc) (res : List (List Out)) (ss : List (Nat × Nat)) (c : PutCmd) (r : AdmResult)
    (a : Adm) (hr : r.adm = if r.status = .accepted then a.add c.id c.k c.hash c.w else a)
    (hovst : r.overflow = true → r.status ≠ .accepted) :
    finishB sw cl res ss c.h (putTailA s c.id c.w c.k c.v c.ttl r) =
      ⟨(putEndO { r.evicted.foldl applyEvict s with adm := a } c r.status r.overflow).1,
       (putEndO { r.evicted.foldl applyEvict s with adm := a } c r.status r.overflow).2, sw, cl, res, none, none, [], ss⟩ := by
  unfold putTailA putEndO putEnd
  rw [foldl_applyEvict_adm, hr]
  have hnow : (r.evicted.foldl applyEvict s).now = s.now := by rw [foldl_applyEvict_frame]
  generalize r.evicted.foldl applyEvict s = X at hnow ⊢
  by_cases hov : r.overflow = true
  · have hst : r.status ≠ .accepted := hovst hov
    simp [hov, hst, finishB]
  simp only [hov, Bool.false_eq_true, if_false]
  by_cases hst : r.status = .accepted
  · simp only [hst, if_true]
    cases c.ttl with
    | none => simp [finishB, Adm.add]
    | some t =>
      simp only [hnow]
      cases addTime s.now t with
      | none => simp [finishB, Adm.add]
      | some e => simp [finishB, Adm.add, ttlPut]
  · simp [hst, finishB]

/-- A put command from `present` (the command is already taken off the queue) to its end. -/
theorem put_sim (s0 : State) (sw : SPc) (cl : List CPc) (res : List (List Out)) (ss : List (Nat × Nat)) (o : Oracle) (n : Nat)
    (c : PutCmd) (hn : 5 * s0.adm.kw.length + 8 ≤ n) :
    match workerPut s0 c.id c.hash c.w c.k c.v c.ttl o with
    | .ok (x, o') => workerRun n ⟨s0, .present c, sw, cl, res, none, none, [], ss⟩ o = .ok (finishB sw cl res ss c.h x, o')
    | .error _ => ∃ m, workerRun n ⟨s0, .present c, sw, cl, res, none, none, [], ss⟩ o = .error m := by
  obtain ⟨m, rfl⟩ : ∃ m, n = m + 3 := ⟨n - 3, by omega⟩
  rw [workerPut_eq]
  by_cases hc : s0.store.contains c.k = true
  · simp [hc, workerRun, workerAct, finishCmd, finishB, WPc.atHead]
  · simp only [hc, Bool.false_eq_true, if_false]
    unfold maybeAdd
    by_cases hh : c.w > s0.adm.max
    · simp only [hh, if_true]
      rw [putTailA_eq (a := s0.adm) (hr := by simp) (hovst := by simp)]
      simp [hh, hc, workerRun, workerAct, finishCmd, rejectCmd, putEnd, WPc.atHead]
    · simp only [hh, if_false]
      by_cases hov : s0.adm.spaceOverflow = true
      · -- the first `is_space_available_for` overflows: Layer A's worker panics, Layer B's dies at `space0`
        simp only [hov, if_true]
        rw [putTailA_eq (a := s0.adm) (hr := by simp) (hovst := by simp)]
        simp [hh, hc, hov, workerRun, workerAct, workerDies, WPc.atHead, wuFree]
      simp only [hov, Bool.false_eq_true, if_false]
      by_cases hfit : s0.adm.max - s0.adm.used ≥ c.w
      · simp only [hfit, if_true]
        rw [putTailA_eq (a := s0.adm) (hr := by simp) (hovst := by simp)]
        simp only [workerRun, workerAct, hc, hh, hov, hfit, WPc.atHead, wuFree, Option.isNone_none, Bool.true_or,
          Bool.not_true, Bool.false_eq_true, if_false, if_true, putEndO_false]
        exact run_insert s0 sw cl res ss o (m + 1) c (by omega)
      · simp only [hfit, if_false]
        cases hest : estimateO s0.lfu c.hash o with
        | error e =>
          simp [workerRun, workerAct, hc, hh, hov, hfit, hest, WPc.atHead, wuFree]
        | ok r1 =>
          obtain ⟨incEst, o1⟩ := r1
          simp only []
          cases hfs : fillSample s0.lfu s0.adm.kw (fillNeed s0.cfg.sampleSize s0.adm.kw []) [] o1 with
          | error e =>
            simp [workerRun, workerAct, hc, hh, hov, hfit, hest, hfs, WPc.atHead, wuFree]
          | ok r2 =>
            obtain ⟨sample, o2⟩ := r2
            simp only []
            have L := loop_sim c incEst s0 sw cl res ss (s0.adm.kw.length + 1) s0.adm sample o2 [] []
              (.sampleInit c (s0.adm.max - s0.adm.used) incEst) m
              (fillSample_sampleOK (SampleOK.nil _) hfs) (Nat.lt_succ_self _) (by omega) (by simpa using hov)
            have hB : workerRun (m + 3) ⟨s0, .present c, sw, cl, res, none, none, [], ss⟩ o =
                contRun m (loopDecide ⟨s0, .sampleInit c (s0.adm.max - s0.adm.used) incEst, sw, cl, res, none, none, [], ss⟩
                  c incEst sample (s0.adm.max - s0.adm.used) o2) := by
              simp only [workerRun, workerAct, hc, hh, hov, hfit, hest, hfs, WPc.atHead, wuFree, Option.isNone_none,
                Bool.true_or, Bool.not_true, Bool.false_eq_true, if_false, contRun]
            rw [hB]
            cases hcl : createLoop s0.lfu s0.cfg.sampleSize c.w incEst (s0.adm.kw.length + 1) s0.adm sample o2 [] [] with
            | error e =>
              rw [hcl] at L
              exact L
            | ok r =>
              rw [hcl] at L
              simp only [] at L ⊢
              rw [putTailA_eq (a := r.adm) (hr := rfl) (hovst := createLoop_overflow_not_accepted hcl)]
              exact L

theorem foldl_applyEvict_worker (evs : List Evicted) (s : State) : (evs.foldl applyEvict s).worker = s.worker := by
  rw [foldl_applyEvict_frame]

/-- a put that does not panic leaves the worker's mode alone -/
theorem workerPut_worker (s : State) (id hash : Nat) (w : Int) (k v : Nat) (ttl : Option Nat) (o o' : Oracle)
    (s1 : State) (st : Status) (ie : Option Nat) (pp : List SKey) (ev : List Evicted)
    (h : workerPut s id hash w k v ttl o = .ok (.done s1 st ie pp ev, o')) : s1.worker = s.worker := by
  rw [workerPut_eq] at h
  split at h
  · simp only [Except.ok.injEq, Prod.mk.injEq, Exec.done.injEq] at h
    rw [← h.1.1]
  · split at h
    · cases h
    · rename_i r _
      simp only [Except.ok.injEq, Prod.mk.injEq] at h
      have h1 := h.1
      unfold putTailA at h1
      simp only [] at h1
      split at h1
      · cases h1
      split at h1
      · split at h1
        · simp only [Exec.done.injEq] at h1
          rw [← h1.1]; simp [foldl_applyEvict_worker]
        · split at h1
          · cases h1
          · simp only [Exec.done.injEq] at h1
            rw [← h1.1]; simp [foldl_applyEvict_worker, ttlPut]
      · simp only [Exec.done.injEq] at h1
        rw [← h1.1]; simp [foldl_applyEvict_worker]

theorem worker_put (g : State) (sw : SPc) (cl : List CPc) (res : List (List Out)) (ss : List (Nat × Nat)) (o : Oracle) (n : Nat)
    (c : PutCmd) (q : List (Cmd × Option Nat))
    (hrun : g.worker = .running) (hq : g.queue = (cmdOfPut c, c.h) :: q) (hn : 5 * g.adm.kw.length + 9 ≤ n) :
    WAgree sw cl res ss .running (workerStep g o) (workerRun n ⟨g, .recv, sw, cl, res, none, none, [], ss⟩ o) := by
  obtain ⟨m, rfl⟩ : ∃ m, n = m + 1 := ⟨n - 1, by omega⟩
  have P := put_sim { g with queue := q, worker := .running } sw cl res ss o m c (by simp only []; omega)
  have hB : workerRun (m + 1) ⟨g, .recv, sw, cl, res, none, none, [], ss⟩ o =
      workerRun m ⟨{ g with queue := q, worker := .running }, .present c, sw, cl, res, none, none, [], ss⟩ o := by
    obtain ⟨id, hash, w, k, v, ttl, h⟩ := c
    cases ttl <;> simp [workerRun, workerAct, hq, hrun, cmdOfPut, WPc.atHead]
  rw [hB]
  have hA : workerStep g o =
      match workerPut { g with queue := q, worker := .running } c.id c.hash c.w c.k c.v c.ttl o with
      | .ok (.done s1 st ie pp ev, o') =>
        .ok ({ s1 with acks := setAck s1.acks c.h st },
             .worked (match c.ttl with | none => "Put" | some _ => "PutWithTTL") st ie pp ev, o')
      | .ok (.panicked s1 p, o') => .ok ({ s1 with worker := .dead, queue := [] }, .workerPanic p, o')
      | .error m => .error m := by
    obtain ⟨id, hash, w, k, v, ttl, h⟩ := c
    cases ttl with
    | none =>
      simp only [workerStep, hrun, hq, cmdOfPut]
      cases workerPut { g with queue := q, worker := .running } id hash w k v none o with
      | error e => rfl
      | ok r => obtain ⟨x, o'⟩ := r; cases x <;> rfl
    | some t =>
      simp only [workerStep, hrun, hq, cmdOfPut]
      cases workerPut { g with queue := q, worker := .running } id hash w k v (some t) o with
      | error e => rfl
      | ok r => obtain ⟨x, o'⟩ := r; cases x <;> rfl
  rw [hA]
  cases hwp : workerPut { g with queue := q, worker := .running } c.id c.hash c.w c.k c.v c.ttl o with
  | error e => rw [hwp] at P; exact P
  | ok r =>
    obtain ⟨x, o'⟩ := r
    rw [hwp] at P
    simp only [] at P
    cases x with
    | done s1 st ie pp ev =>
      have hw := workerPut_worker _ _ _ _ _ _ _ _ _ _ _ _ _ _ hwp
      simp [WAgree, P, finishB, hw, pcOfMode]
    | panicked s1 p =>
      simp [WAgree, P, finishB, pcOfMode]

/-- the command at the head of the queue is `Shutdown` -/
def headIsShutdown : List (Cmd × Option Nat) → Bool
  | (.shutdown, _) :: _ => true
  | _ => false

/-- the worker's mode after a step that does not panic: `Shutdown`, taken by a running worker, makes it drain -/
def nextMode (g : State) : WorkerMode :=
  if g.worker = .running ∧ headIsShutdown g.queue = true then .draining else g.worker

/-- **Worker, every command** (`Shutdown` included: `worker_shutdown`): the non-preempted Layer B run of the worker is
    the Layer A step. Any worker mode; no hypothesis on the queue (empty queue: both sides refuse). -/
theorem worker_refines_core (g : State) (sw : SPc) (cl : List CPc) (res : List (List Out)) (ss : List (Nat × Nat)) (o : Oracle) (n : Nat)
    (hn : 5 * g.adm.kw.length + 12 ≤ n) :
    WAgree sw cl res ss (nextMode g) (workerStep g o)
      (workerRun n ⟨g, pcOfMode g.worker, sw, cl, res, none, none, [], ss⟩ o) := by
  obtain ⟨m, rfl⟩ : ∃ m, n = m + 12 := ⟨n - 12, by omega⟩
  cases hm : g.worker with
  | dead =>
    have : nextMode g = .dead := by simp [nextMode, hm]
    rw [this]; exact worker_dead g sw cl res ss o (m + 11) hm
  | draining =>
    have : nextMode g = .draining := by simp [nextMode, hm]
    rw [this]; exact worker_drain g sw cl res ss o (m + 11) hm
  | running =>
    cases hq : g.queue with
    | nil =>
      have : nextMode g = .running := by simp [nextMode, hm, hq, headIsShutdown]
      rw [this]; exact worker_empty g sw cl res ss o (m + 11) hm hq
    | cons ch q =>
      obtain ⟨cmd, h⟩ := ch
      cases cmd with
      | shutdown =>
        have : nextMode g = .draining := by simp [nextMode, hm, hq, headIsShutdown]
        rw [this]; exact worker_shutdown g sw cl res ss o (m + 11) h q hm hq
      | updateWeight id w =>
        have : nextMode g = .running := by simp [nextMode, hm, hq, headIsShutdown]
        rw [this]; exact worker_update g sw cl res ss o (m + 10) id w h q hm hq
      | delete k =>
        have : nextMode g = .running := by simp [nextMode, hm, hq, headIsShutdown]
        rw [this]; exact worker_delete g sw cl res ss o (m + 7) k h q hm hq
      | put id hash w k v =>
        have : nextMode g = .running := by simp [nextMode, hm, hq, headIsShutdown]
        rw [this]
        exact worker_put g sw cl res ss o (m + 12) ⟨id, hash, w, k, v, none, h⟩ q hm hq (by omega)
      | putTtl id hash w k v t =>
        have : nextMode g = .running := by simp [nextMode, hm, hq, headIsShutdown]
        rw [this]
        exact worker_put g sw cl res ss o (m + 12) ⟨id, hash, w, k, v, some t, h⟩ q hm hq (by omega)

/-- Item 1 in the form asked for, now WITHOUT any hypothesis on the command at the head of the queue: since the model
    fix (`Shutdown` sets `g.worker := .draining` in Layer B as well) the `Shutdown` command is covered, with `b'.g = g'`
    exactly and `b'.w = .drain` (`= pcOfMode g'.worker`). No non-emptiness hypothesis is needed.
    `hsr`: nobody keeps a `get_ref` read guard (non-preempted fragment; the worker's store writes are not enabled
    otherwise). Fuel: `5 * |kw| + 12` (4 actions before the loop, 5 per eviction, 4 after it). -/
theorem worker_refines (b : BState) (o : Oracle) (fuel : Nat)
    (hw : b.w = .recv) (hrun : b.g.worker = .running) (hwu : b.wuOwner = none) (httl : b.ttlOwner = none)
    (hsr : b.storeReaders = []) (hfuel : workerFuel b ≤ fuel) :
    (∀ g' out o', workerStep b.g o = .ok (g', out, o') →
      ∃ b', workerRun fuel b o = .ok (b', o') ∧ b'.g = g' ∧ b'.wuOwner = none ∧ b'.ttlOwner = none ∧
        b'.storeReaders = [] ∧ b'.storeShard = b.storeShard ∧
        b'.sw = b.sw ∧ b'.cl = b.cl ∧ b'.res = b.res ∧ b'.w = pcOfMode g'.worker ∧
        (match out with
          | .workerPanic _ => b'.w = .dead
          | _ => b'.w = if headIsShutdown b.g.queue then .drain else .recv)) ∧
    (∀ m, workerStep b.g o = .error m → ∃ m', workerRun fuel b o = .error m') := by
  obtain ⟨g, w, sw, cl, res, wu, tt, sr, ss⟩ := b
  simp only at hw hrun hwu httl hsr
  subst hw hwu httl hsr
  have h := worker_refines_core g sw cl res ss o fuel hfuel
  rw [hrun] at h
  simp only [pcOfMode] at h
  constructor
  · intro g' out o' hA
    rw [hA] at h
    simp only [WAgree] at h
    refine ⟨_, h.1, rfl, rfl, rfl, rfl, rfl, rfl, rfl, rfl, rfl, ?_⟩
    have h2 := h.2
    simp only [nextMode, hrun, true_and] at h2
    cases out <;> simp only [] at h2 ⊢ <;> (try simp only [h2, pcOfMode]) <;>
      (cases hh : headIsShutdown g.queue <;> simp [hh, pcOfMode])
  · intro m hA
    rw [hA] at h
    exact h

/-- `worker_refines` for the `Shutdown` command, spelled out: the run ends with the worker draining in BOTH records. -/
theorem worker_refines_shutdown (b : BState) (o : Oracle) (fuel : Nat) (h : Option Nat) (q : List (Cmd × Option Nat))
    (hw : b.w = .recv) (hrun : b.g.worker = .running) (hwu : b.wuOwner = none) (httl : b.ttlOwner = none)
    (hsr : b.storeReaders = []) (hfuel : workerFuel b ≤ fuel) (hq : b.g.queue = (.shutdown, h) :: q) :
    ∃ g' out b', workerStep b.g o = .ok (g', out, o) ∧ workerRun fuel b o = .ok (b', o) ∧
      b'.g = g' ∧ b'.w = .drain ∧ g'.worker = .draining := by
  have hA : workerStep b.g o = .ok ({ b.g with queue := q, worker := .draining, acks := setAck b.g.acks h .accepted },
      .worked "Shutdown" .accepted none [] [], o) := by
    simp [workerStep, hrun, hq]
  obtain ⟨b', h1, h2, _, _, _, _, _, _, _, h3, _⟩ := (worker_refines b o fuel hw hrun hwu httl hsr hfuel).1 _ _ _ hA
  refine ⟨_, _, b', hA, h1, h2, ?_, rfl⟩
  rw [h3]; rfl

/-- The same for a worker that is draining (`b.w = .drain`, Layer A mode `.draining`). -/
theorem worker_refines_drain (b : BState) (o : Oracle) (fuel : Nat)
    (hw : b.w = .drain) (hrun : b.g.worker = .draining) (hwu : b.wuOwner = none) (httl : b.ttlOwner = none)
    (hsr : b.storeReaders = []) (hfuel : 1 ≤ fuel) :
    (∀ g' out o', workerStep b.g o = .ok (g', out, o') →
      ∃ b', workerRun fuel b o = .ok (b', o') ∧ b'.g = g' ∧ b'.wuOwner = none ∧ b'.ttlOwner = none ∧
        b'.storeReaders = [] ∧ b'.storeShard = b.storeShard ∧
        b'.sw = b.sw ∧ b'.cl = b.cl ∧ b'.res = b.res ∧ b'.w = .drain) ∧
    (∀ m, workerStep b.g o = .error m → ∃ m', workerRun fuel b o = .error m') := by
  obtain ⟨g, w, sw, cl, res, wu, tt, sr, ss⟩ := b
  simp only at hw hrun hwu httl hsr
  subst hw hwu httl hsr
  obtain ⟨n, rfl⟩ : ∃ n, fuel = n + 1 := ⟨fuel - 1, by omega⟩
  have h := worker_drain g sw cl res ss o n hrun
  constructor
  · intro g' out o' hA
    rw [hA] at h
    simp only [WAgree] at h
    have h2 : g'.worker = .draining := by
      -- a drain step never reports a panic
      simp only [workerStep, hrun] at hA
      split at hA
      · cases hA
      · cases hA
      · simp only [Except.ok.injEq, Prod.mk.injEq] at hA
        rw [← hA.1]
      · rename_i heq _; cases heq
    refine ⟨_, h.1, rfl, rfl, rfl, rfl, rfl, rfl, rfl, rfl, ?_⟩
    simp [h2, pcOfMode]
  · intro m hA
    rw [hA] at h
    exact h

/-! ### non-vacuity (item 5): a put that needs two evictions -/

/-- capacity 10, 9 used by three stored keys of weights 2, 4, 3; the queue holds a put of weight 6 -/
def exG : State :=
  { State.init { maxWeight := 10, shards := 4, cmdCap := 4, poolSize := 1, bufSize := 2, counters := 16 } 1000 [1, 2, 3, 4] with
    adm := exAdm
    store := [(101, ⟨1, 1, none, false⟩), (102, ⟨2, 2, none, false⟩), (103, ⟨3, 3, none, false⟩)]
    nextId := 5
    queue := [(.put 4 14 6 104 7, some 0)]
    acks := [.pending]
    -- the doorkeeper has seen one unrelated hash, so that a "present" answer for another hash is a legal false positive
    lfu := { TinyLFU.new 16 [1, 2, 3, 4] with dk := [99] } }

def exB : BState := { g := exG, cl := [.idle], res := [[]] }

def exO : Oracle := { dk := [true, false, false, true], ids := [1, 2, 3], pops := [some 2, some 1] }

/-- what the examples compare (the `TinyLFU` has no decidable equality; it is not touched by the worker) -/
structure GView where
  store : AMap Nat Entry
  used : Int
  kw : AMap Nat WKey
  ttl : AMap (Nat × Nat) Nat
  queue : List (Cmd × Option Nat)
  acks : List Status
  stats : List Nat
  worker : WorkerMode
  deriving DecidableEq

def gview (g : State) : GView := ⟨g.store, g.adm.used, g.adm.kw, g.ttl, g.queue, g.acks, g.stats.toList, g.worker⟩

/-- The hypotheses of `worker_refines` hold of `exB`; Layer A accepts the put after evicting keys 102 and 101. -/
example :
    exB.w = .recv ∧ exB.g.worker = .running ∧ exB.wuOwner = none ∧ exB.ttlOwner = none ∧
    exB.storeReaders = [] ∧
    (match workerStep exB.g exO with
      | .ok (g', .worked _ st _ _ ev, o') => some (st, ev, o'.isEmpty, gview g')
      | _ => none) =
      some (.accepted, [(2, 102, 4), (1, 101, 2)], true,
        ⟨[(104, ⟨7, 4, none, false⟩), (103, ⟨3, 3, none, false⟩)], 9,
         [(4, ⟨104, 14, 6⟩), (3, ⟨103, 13, 3⟩)], [], [], [.accepted], [0, 0, 1, 2, 0, 0, 6, 6, 0, 0], .running⟩) := by
  exact ⟨rfl, rfl, rfl, rfl, rfl, by decide⟩

/-- `workerRun` and `workerStep` give the same final shared state (here compared on all fields but the sketch,
    and as whole states by `rfl` below). -/
example :
    (match workerRun (workerFuel exB) exB exO with | .ok (b', o') => some (gview b'.g, b'.w.atHead, o'.isEmpty) | _ => none) =
    (match workerStep exB.g exO with | .ok (g', _, o') => some (gview g', true, o'.isEmpty) | _ => none) := by
  decide

example :
    (match workerRun (workerFuel exB) exB exO with | .ok (b', _) => some b'.g | _ => none) =
    (match workerStep exB.g exO with | .ok (g', _, _) => some g' | _ => none) := by
  rfl

/-- The former finding `worker_shutdown_drift`, now positive: after the `Shutdown` command both layers' shared states
    say `.draining` and agree on every field, and Layer B stands at `.drain`. -/
theorem worker_shutdown_agrees :
    let b : BState := { g := { exG with queue := [(.shutdown, none)] }, cl := [.idle], res := [[]] }
    (match workerStep b.g {} with | .ok (g', _, _) => some (gview g') | _ => none) =
      some { gview exG with queue := [], worker := .draining } ∧
    (match workerRun 1 b {} with | .ok (b', _) => some (gview b'.g, b'.w matches .drain) | _ => none) =
      some ({ gview exG with queue := [], worker := .draining }, true) ∧
    (match workerRun 1 b {}, workerStep b.g {} with | .ok (b', _), .ok (g', _, _) => some b'.g = some g' | _, _ => False) := by
  refine ⟨by decide, by decide, rfl⟩

/-- the hypotheses of `worker_refines_shutdown` hold of that state -/
example :
    let b : BState := { g := { exG with queue := [(.shutdown, none)] }, cl := [.idle], res := [[]] }
    b.w = .recv ∧ b.g.worker = .running ∧ b.wuOwner = none ∧ b.ttlOwner = none ∧ b.storeReaders = [] ∧
      b.g.queue = (.shutdown, none) :: [] := ⟨rfl, rfl, rfl, rfl, rfl, rfl⟩

/-- The fuel `4 * |kw| + 12` suggested in the task is NOT sufficient in general: each eviction costs five actions
    (`evRemove, evSub, evStore, evSpace, fill`). With six charged keys that all have to go, Layer A succeeds,
    Layer B needs 38 actions: fuel `4 * 6 + 12 = 36` runs out, `workerFuel = 5 * 6 + 12 = 42` is enough. -/
def exG6 : State :=
  { exG with
    adm := { max := 10, used := 6, kw := [(1, ⟨101, 11, 1⟩), (2, ⟨102, 12, 1⟩), (3, ⟨103, 13, 1⟩),
                                         (4, ⟨104, 14, 1⟩), (5, ⟨105, 15, 1⟩), (6, ⟨106, 16, 1⟩)] }
    store := [], nextId := 8, queue := [(.put 7 17 10 107 1, some 0)] }

def exO6 : Oracle :=
  { dk := [true, false, false, false, false, false, false], ids := [1, 2, 3, 4, 5, 6],
    pops := [some 1, some 2, some 3, some 4, some 5, some 6] }

example :
    (match workerStep exG6 exO6 with
      | .ok (g', .worked _ st _ _ ev, _) => some (st, ev.length, g'.adm.used)
      | _ => none) = some (.accepted, 6, 10) ∧
    (workerRun (4 * exG6.adm.kw.length + 12) { g := exG6, cl := [] } exO6).toOption.isNone = true ∧
    (match workerRun (workerFuel { g := exG6, cl := [] }) { g := exG6, cl := [] } exO6, workerStep exG6 exO6 with
      | .ok (b', _), .ok (g', _, _) => gview b'.g == gview g'
      | _, _ => false) = true := by
  decide

/-! ## 3  clients -/

/-- client `i` stands at one of its blocking sends and is not enabled there: at `.send cmd` or at `shutdown`'s
    `.shutSendCmd` with the command queue full (and the worker alive), or at `shutdown`'s `.shutSendBuf` with the buffer
    queue full (and the consumer alive): the call blocks -/
def parkedAt (b : BState) (i : Nat) : Bool :=
  match b.cl[i]? with
  | some (.send _) => b.g.worker != .dead && decide (b.g.queue.length ≥ b.g.cfg.cmdCap)
  | some .shutSendCmd => b.g.worker != .dead && decide (b.g.queue.length ≥ b.g.cfg.cmdCap)
  | some .shutSendBuf => b.g.consumerAlive && decide (b.g.bufq.length ≥ b.g.cfg.bufChanCap)
  | _ => false

/-- Runs client `i` alone until it is `.idle` again or blocks at a full queue. -/
def clientRun : Nat → BState → Nat → Oracle → Except String (BState × Oracle)
  | 0, _, _, _ => .error "fuel exhausted"
  | n + 1, b, i, o =>
    match b.cl[i]? with
    | some .idle => .ok (b, o)
    | _ =>
      if parkedAt b i then .ok (b, o)
      else match clientAct b i o with
        | .error m => .error m
        | .ok (b', o') => clientRun n b' i o'

/-- one action of a client that is neither idle nor at its send -/
theorem clientRun_act (n : Nat) (b : BState) (i : Nat) (o : Oracle) (pc : CPc) (hpc : b.cl[i]? = some pc)
    (h1 : pc ≠ .idle) (h2 : ∀ c, pc ≠ .send c) (h3 : pc ≠ .shutSendCmd ∧ pc ≠ .shutSendBuf := by simp) :
    clientRun (n + 1) b i o =
      match clientAct b i o with
      | .error m => .error m
      | .ok (b', o') => clientRun n b' i o' := by
  simp only [clientRun, parkedAt, hpc]
  cases pc <;> simp_all

theorem none_bne_some (x : Nat) : ((none : Option Nat) != some x) = true := rfl

theorem clientRun_act' (n : Nat) (g : State) (w : WPc) (sw : SPc) (cl : List CPc) (res : List (List Out)) (ss : List (Nat × Nat))
    (wu : Option Tid) (tt : Option Nat) (sr : List (Nat × Nat)) (i : Nat) (o : Oracle) (pc : CPc) (hi : i < cl.length)
    (h1 : pc ≠ .idle) (h2 : ∀ c, pc ≠ .send c) (h3 : pc ≠ .shutSendCmd ∧ pc ≠ .shutSendBuf := by simp) :
    clientRun (n + 1) ⟨g, w, sw, cl.set i pc, res, wu, tt, sr, ss⟩ i o =
      match clientAct ⟨g, w, sw, cl.set i pc, res, wu, tt, sr, ss⟩ i o with
      | .error m => .error m
      | .ok (b', o') => clientRun n b' i o' :=
  clientRun_act n _ i o pc (by simp [hi]) h1 h2 h3

/-- Layer B from `send cmd` on: `CommandExecutor::send`, against Layer A's `sendCmd`. -/
theorem run_send (g : State) (w : WPc) (sw : SPc) (cl : List CPc) (res : List (List Out)) (ss : List (Nat × Nat)) (wu : Option Tid)
    (tt : Option Nat) (sr : List (Nat × Nat)) (i : Nat) (cmd : Cmd) (o : Oracle) (n : Nat) (hi : i < cl.length) :
    clientRun (n + 2) ⟨g, w, sw, cl.set i (.send cmd), res, wu, tt, sr, ss⟩ i o =
      .ok (match (sendCmd g i cmd).2 with
           | .parked => ⟨g, w, sw, cl.set i (.send cmd), res, wu, tt, sr, ss⟩
           | out => ⟨(sendCmd g i cmd).1, w, sw, cl.set i .idle, res.set i (out :: res.getD i []), wu, tt, sr, ss⟩, o) := by
  unfold sendCmd
  by_cases hd : g.worker = .dead
  · simp [clientRun, clientAct, sendAct, parkedAt, finishCall, hd, hi, List.set_set]
  · by_cases hf : g.queue.length ≥ g.cfg.cmdCap
    · simp [clientRun, parkedAt, hd, hf, hi]
    · simp [clientRun, clientAct, sendAct, parkedAt, finishCall, hd, hf, hi, List.set_set]

/-- Layer A's event for a Layer B request of client `c` (`get_ref` is one of the single-key reads: Layer A's `.get`;
    `multi_get` and the two multi-get iterators are all Layer A's `.multiGet`: with nobody else moving the shutdown
    flag cannot change between two of its loads, so the only difference between them — which loads there are and what
    happens to the remaining keys once one of them finds the flag set — never shows: `client_mget`) -/
def reqEv (c : Nat) : Req → Ev
  | .putW k v w none => .putW c k v w
  | .putW k v w (some t) => .putWTtl c k v w t
  | .delete k => .delete c k
  | .get k => .get k
  | .weight => .weight
  | .upsert k v w ttl rm => .upsert c k v w ttl rm
  | .getRef k => .get k
  | .shutdown => .shutdown c
  | .mget ks _ => .multiGet ks

/-- where the Layer B client stands when Layer A has parked its call with `pend[c] = p` -/
def pcOfPending : Option Pending → CPc
  | some (.send cmd) => .send cmd
  | some .shutdownCmd => .shutSendCmd
  | some .shutdownBuf => .shutSendBuf
  | none => .idle

/-- The Layer B state after client `i` has run, alone, a call that Layer A renders as `(g', out)`:
    completed — shared state `g'`, the client idle, `out` recorded; or parked (Layer A: `out = .parked` and a `pend`
    entry, which Layer B does not keep) — the client stands at the send it blocks at (`.send cmd`; for `shutdown`:
    `.shutSendCmd` / `.shutSendBuf`) with all effects so far applied. -/
def afterCall (b : BState) (i : Nat) (g' : State) (out : Out) : BState :=
  match out with
  | .parked => { b with g := { g' with pend := b.g.pend }, cl := b.cl.set i (pcOfPending (g'.pend.get? i)) }
  | _ => { b with g := g', cl := b.cl.set i .idle, res := b.res.set i (out :: b.res.getD i []) }

def CAgree (b : BState) (i : Nat) (ra : Except String (State × Out × Oracle))
    (rb : Except String (BState × Oracle)) : Prop :=
  match ra with
  | .ok (g', out, o') => rb = .ok (afterCall b i g' out, o')
  | .error _ => ∃ m, rb = .error m

theorem client_get (g : State) (w : WPc) (sw : SPc) (cl : List CPc) (res : List (List Out)) (ss : List (Nat × Nat)) (i k : Nat) (o : Oracle)
    (n : Nat) (hi : i < cl.length) :
    CAgree ⟨g, w, sw, cl, res, none, none, [], ss⟩ i (step g (.get k) o)
      (clientRun (n + 4) ⟨g, w, sw, cl.set i (.start (.get k)), res, none, none, [], ss⟩ i o) := by
  simp only [step, clientGet, readKey]
  by_cases hs : g.shutting = true
  · simp [clientRun, clientAct, parkedAt, finishCall, setClient, hs, hi, List.set_set, CAgree, afterCall]
  · cases hk : g.store.get? k with
    | none =>
      simp [clientRun, clientAct, parkedAt, finishCall, setClient, hs, hi, hk, List.set_set, CAgree, afterCall]
    | some e =>
      by_cases ha : e.alive g.now = true
      · simp only [clientRun, clientAct, parkedAt, finishCall, setClient, hs, hi, hk, ha, List.set_set,
          List.getElem?_set_self, if_true, Bool.false_eq_true, if_false]
        generalize poolAdd _ _ _ = pr
        cases pr with
        | error m => simp [CAgree]
        | ok r =>
          obtain ⟨g1, o1⟩ := r
          simp [CAgree, afterCall, hi]
      · simp [clientRun, clientAct, parkedAt, finishCall, setClient, hs, hi, hk, ha, List.set_set, CAgree, afterCall]

theorem client_weight (g : State) (w : WPc) (sw : SPc) (cl : List CPc) (res : List (List Out)) (ss : List (Nat × Nat)) (i : Nat) (o : Oracle)
    (n : Nat) (hi : i < cl.length) :
    CAgree ⟨g, w, sw, cl, res, none, none, [], ss⟩ i (step g .weight o)
      (clientRun (n + 3) ⟨g, w, sw, cl.set i (.start .weight), res, none, none, [], ss⟩ i o) := by
  by_cases hs : g.shutting = true <;>
    simp [step, clientRun, clientAct, parkedAt, finishCall, setClient, wuFree, hs, hi, List.set_set, CAgree, afterCall]

/-- how a call that ends in `sendCmd g1 i cmd` looks in Layer B, once the client stands at `.send cmd` -/
theorem send_agree (g0 g1 : State) (w : WPc) (sw : SPc) (cl : List CPc) (res : List (List Out)) (ss : List (Nat × Nat)) (wu : Option Tid)
    (tt : Option Nat) (sr : List (Nat × Nat)) (i : Nat) (cmd : Cmd) (o : Oracle) (n : Nat) (hi : i < cl.length) (hp : g1.pend = g0.pend) :
    clientRun (n + 2) ⟨g1, w, sw, cl.set i (.send cmd), res, wu, tt, sr, ss⟩ i o =
      .ok (afterCall ⟨g0, w, sw, cl, res, wu, tt, sr, ss⟩ i (sendCmd g1 i cmd).1 (sendCmd g1 i cmd).2, o) := by
  rw [run_send (hi := hi)]
  unfold sendCmd
  by_cases hd : g1.worker = .dead
  · simp [hd, afterCall]
  · by_cases hf : g1.queue.length ≥ g1.cfg.cmdCap
    · simp [hd, hf, afterCall, pcOfPending, ← hp]
    · simp [hd, hf, afterCall]

theorem client_delete (g : State) (w : WPc) (sw : SPc) (cl : List CPc) (res : List (List Out)) (ss : List (Nat × Nat)) (i k : Nat) (o : Oracle)
    (n : Nat) (hi : i < cl.length) :
    CAgree ⟨g, w, sw, cl, res, none, none, [], ss⟩ i (step g (.delete i k) o)
      (clientRun (n + 4) ⟨g, w, sw, cl.set i (.start (.delete k)), res, none, none, [], ss⟩ i o) := by
  simp only [step, clientDelete]
  by_cases hs : g.shutting = true
  · simp [clientRun, clientAct, parkedAt, finishCall, setClient, hs, hi, List.set_set, CAgree, afterCall]
  · simp only [hs, Bool.false_eq_true, if_false, CAgree]
    refine Eq.trans ?_ (send_agree g _ w sw cl res ss none none [] i (.delete k) o n hi rfl)
    rw [clientRun_act (pc := .start (.delete k)) (hpc := by simp [hi]) (h1 := by simp) (h2 := by simp)]
    simp only [clientAct, hi, List.getElem?_set_self, hs, Bool.false_eq_true, if_false, setClient, List.set_set]
    rw [clientRun_act (pc := .delMark k) (hpc := by simp [hi]) (h1 := by simp) (h2 := by simp)]
    simp only [clientAct, hi, List.getElem?_set_self, hs, Bool.false_eq_true, if_false, setClient, List.set_set]
    rfl

theorem client_putW (g : State) (w : WPc) (sw : SPc) (cl : List CPc) (res : List (List Out)) (ss : List (Nat × Nat)) (i k v : Nat)
    (wt : Int) (ttl : Option Nat) (o : Oracle) (n : Nat) (hi : i < cl.length) :
    CAgree ⟨g, w, sw, cl, res, none, none, [], ss⟩ i (step g (reqEv i (.putW k v wt ttl)) o)
      (clientRun (n + 5) ⟨g, w, sw, cl.set i (.start (.putW k v wt ttl)), res, none, none, [], ss⟩ i o) := by
  have hA : step g (reqEv i (.putW k v wt ttl)) o =
      .ok ((if g.shutting then (g, Out.err) else if wt ≤ 0 then (g, .panic .weightNotPositive)
            else clientPutChecked g i k v wt ttl).1,
           (if g.shutting then (g, Out.err) else if wt ≤ 0 then (g, .panic .weightNotPositive)
            else clientPutChecked g i k v wt ttl).2, o) := by
    cases ttl <;> simp only [reqEv, step, clientPutW, clientPutWTtl]
  rw [hA]
  clear hA
  by_cases hs : g.shutting = true
  · simp [clientRun, clientAct, parkedAt, finishCall, setClient, hs, hi, List.set_set, CAgree, afterCall]
  · by_cases hw : wt ≤ 0
    · simp [clientRun, clientAct, parkedAt, finishCall, setClient, hs, hw, hi, List.set_set, CAgree, afterCall]
    · simp only [if_neg hs, if_neg hw, CAgree, clientPutChecked]
      by_cases hc : g.store.contains k = true
      · simp [clientRun, clientAct, parkedAt, finishCall, spotFinish, spotAck, setClient, hs, hw, hc, hi,
          List.set_set, afterCall]
      · simp only [if_neg hc]
        cases ttl with
        | none =>
          simp only []
          refine Eq.trans ?_ (send_agree g _ w sw cl res ss none none [] i _ o n hi rfl)
          rw [clientRun_act (pc := .start (.putW k v wt none)) (hpc := by simp [hi]) (h1 := by simp) (h2 := by simp)]
          simp only [clientAct, hi, List.getElem?_set_self, if_neg hs, if_neg hw, setClient, List.set_set]
          rw [clientRun_act (pc := .putPresent k v wt none) (hpc := by simp [hi]) (h1 := by simp) (h2 := by simp)]
          simp only [clientAct, hi, List.getElem?_set_self, if_neg hc, setClient, List.set_set]
          rw [clientRun_act (pc := .idNext k v wt none) (hpc := by simp [hi]) (h1 := by simp) (h2 := by simp)]
          simp only [clientAct, hi, List.getElem?_set_self, setClient, List.set_set]
        | some t =>
          simp only []
          refine Eq.trans ?_ (send_agree g _ w sw cl res ss none none [] i _ o n hi rfl)
          rw [clientRun_act (pc := .start (.putW k v wt (some t))) (hpc := by simp [hi]) (h1 := by simp) (h2 := by simp)]
          simp only [clientAct, hi, List.getElem?_set_self, if_neg hs, if_neg hw, setClient, List.set_set]
          rw [clientRun_act (pc := .putPresent k v wt (some t)) (hpc := by simp [hi]) (h1 := by simp) (h2 := by simp)]
          simp only [clientAct, hi, List.getElem?_set_self, if_neg hc, setClient, List.set_set]
          rw [clientRun_act (pc := .idNext k v wt (some t)) (hpc := by simp [hi]) (h1 := by simp) (h2 := by simp)]
          simp only [clientAct, hi, List.getElem?_set_self, setClient, List.set_set]

/-- Layer A: the tail of `put_or_update` once the expiry index is up to date (verbatim from `clientUpsert`). -/
def upTailA (s2 : State) (c id : Nat) (uw2 : Option Int) : State × Out :=
  match uw2 with
  | some weight =>
    if !inI64 weight then (s2, .panic .weightOverflow)
    else if weight ≤ 0 then (s2, .panic .weightNotPositive)
    else sendCmd s2 c (.updateWeight id weight)
  | none => spotAck s2 .accepted

theorem up_tail (g0 g2 : State) (w : WPc) (sw : SPc) (cl : List CPc) (res : List (List Out)) (ss : List (Nat × Nat)) (wu : Option Tid)
    (tt : Option Nat) (sr : List (Nat × Nat)) (i id : Nat) (uw : Option Int) (pc : CPc) (o : Oracle) (n : Nat) (hi : i < cl.length)
    (hp : g2.pend = g0.pend) :
    clientRun (n + 2) (upAfterIndex ⟨g2, w, sw, cl.set i pc, res, wu, tt, sr, ss⟩ i id uw) i o =
      .ok (afterCall ⟨g0, w, sw, cl, res, wu, tt, sr, ss⟩ i (upTailA g2 i id uw).1 (upTailA g2 i id uw).2, o) := by
  unfold upAfterIndex upTailA
  cases uw with
  | none => simp [spotFinish, spotAck, finishCall, clientRun, hi, List.set_set, afterCall]
  | some weight =>
    simp only []
    by_cases h1 : (!inI64 weight) = true
    · simp [h1, finishCall, clientRun, hi, List.set_set, afterCall]
    · by_cases h2 : weight ≤ 0
      · simp [h1, h2, finishCall, clientRun, hi, List.set_set, afterCall]
      · simp only [if_neg h1, if_neg h2, setClient, List.set_set]
        exact send_agree g0 g2 w sw cl res ss wu tt sr i _ o n hi hp

theorem run_idNext (g0 g : State) (w : WPc) (sw : SPc) (cl : List CPc) (res : List (List Out)) (ss : List (Nat × Nat)) (wu : Option Tid)
    (tt : Option Nat) (sr : List (Nat × Nat)) (i k val : Nat) (weight : Int) (ttl : Option Nat) (o : Oracle) (n : Nat) (hi : i < cl.length)
    (hp : g.pend = g0.pend) :
    clientRun (n + 3) ⟨g, w, sw, cl.set i (.idNext k val weight ttl), res, wu, tt, sr, ss⟩ i o =
      .ok (afterCall ⟨g0, w, sw, cl, res, wu, tt, sr, ss⟩ i
        (sendCmd { g with nextId := g.nextId + 1 } i
          (match ttl with
            | some t => .putTtl g.nextId (g.cfg.hashOf k) weight k val t
            | none => .put g.nextId (g.cfg.hashOf k) weight k val)).1
        (sendCmd { g with nextId := g.nextId + 1 } i
          (match ttl with
            | some t => .putTtl g.nextId (g.cfg.hashOf k) weight k val t
            | none => .put g.nextId (g.cfg.hashOf k) weight k val)).2, o) := by
  refine Eq.trans ?_ (send_agree g0 _ w sw cl res ss wu tt sr i _ o n hi hp)
  rw [clientRun_act (pc := .idNext k val weight ttl) (hpc := by simp [hi]) (h1 := by simp) (h2 := by simp)]
  cases ttl <;> simp only [clientAct, hi, List.getElem?_set_self, setClient, List.set_set]

/-- Layer A: bringing the expiry index up to date in `put_or_update` (verbatim from `clientUpsert`). -/
def upIndexA (s1 : State) (id : Nat) (uw : Option Int) (old new : Option Nat) : State × Option Int :=
  let existing : Option Int := (s1.adm.kw.get? id).map (·.weight)
  match typeOfExpiryUpdate old new with
  | .added n => (ttlPut s1 id n, match uw with | some x => some x | none => existing.map (· + s1.cfg.ttlEntry))
  | .deleted old => (ttlDelete s1 id old, match uw with | some x => some x | none => existing.map (· - s1.cfg.ttlEntry))
  | .updated old n => (ttlUpdate s1 id old n, uw)
  | .nothing => (s1, uw)

theorem run_upWeightOf (g0 g1 : State) (w : WPc) (sw : SPc) (cl : List CPc) (res : List (List Out)) (ss : List (Nat × Nat))
    (i id : Nat) (uw : Option Int) (old new : Option Nat) (o : Oracle) (n : Nat) (hi : i < cl.length)
    (hp : g1.pend = g0.pend) :
    clientRun (n + 5) ⟨g1, w, sw, cl.set i (.upWeightOf id uw old new), res, none, none, [], ss⟩ i o =
      .ok (afterCall ⟨g0, w, sw, cl, res, none, none, [], ss⟩ i
        (upTailA (upIndexA g1 id uw old new).1 i id (upIndexA g1 id uw old new).2).1
        (upTailA (upIndexA g1 id uw old new).1 i id (upIndexA g1 id uw old new).2).2, o) := by
  rw [clientRun_act (pc := .upWeightOf id uw old new) (hpc := by simp [hi]) (h1 := by simp) (h2 := by simp)]
  simp only [clientAct, hi, List.getElem?_set_self, setClient, List.set_set, upIndexA]
  cases typeOfExpiryUpdate old new with
  | nothing =>
    simp only []
    exact up_tail g0 g1 w sw cl res ss none none [] i id uw _ o (n + 2) hi hp
  | added e =>
    simp only []
    rw [clientRun_act' (hi := hi) (h1 := by simp) (h2 := by simp)]
    simp only [clientAct, hi, List.getElem?_set_self, ttlFree, none_bne_some, Bool.not_true, Bool.false_eq_true, if_false]
    exact up_tail g0 (ttlPut g1 id e) w sw cl res ss none none [] i id _ _ o (n + 1) hi hp
  | deleted e =>
    simp only []
    rw [clientRun_act' (hi := hi) (h1 := by simp) (h2 := by simp)]
    simp only [clientAct, hi, List.getElem?_set_self, ttlFree, none_bne_some, Bool.not_true, Bool.false_eq_true, if_false]
    exact up_tail g0 (ttlDelete g1 id e) w sw cl res ss none none [] i id _ _ o (n + 1) hi hp
  | updated e e' =>
    simp only []
    rw [clientRun_act' (hi := hi) (h1 := by simp) (h2 := by simp)]
    simp only [clientAct, hi, List.getElem?_set_self, ttlFree, none_bne_some, Bool.not_true, Bool.false_eq_true, if_false, setClient, List.set_set]
    rw [clientRun_act' (hi := hi) (h1 := by simp) (h2 := by simp)]
    simp only [clientAct, hi, List.getElem?_set_self, ttlFree, none_bne_some, Bool.not_true, Bool.false_eq_true, if_false]
    exact up_tail g0 (ttlUpdate g1 id e e') w sw cl res ss none none [] i id _ _ o n hi hp

theorem client_upsert (g : State) (w : WPc) (sw : SPc) (cl : List CPc) (res : List (List Out)) (ss : List (Nat × Nat)) (i k : Nat)
    (v : Option Nat) (wt : Option Int) (ttl : Option Nat) (rm : Bool) (o : Oracle) (n : Nat) (hi : i < cl.length) :
    CAgree ⟨g, w, sw, cl, res, none, none, [], ss⟩ i (step g (.upsert i k v wt ttl rm) o)
      (clientRun (n + 7) ⟨g, w, sw, cl.set i (.start (.upsert k v wt ttl rm)), res, none, none, [], ss⟩ i o) := by
  simp only [step, CAgree]
  unfold clientUpsert
  by_cases hs : g.shutting = true
  · simp [clientRun, clientAct, parkedAt, finishCall, setClient, hs, hi, List.set_set, afterCall]
  · simp only [if_neg hs]
    rw [clientRun_act (pc := .start (.upsert k v wt ttl rm)) (hpc := by simp [hi]) (h1 := by simp) (h2 := by simp)]
    simp only [clientAct, hi, List.getElem?_set_self, if_neg hs, setClient, List.set_set]
    rw [clientRun_act (pc := .upUpdate k v wt ttl rm) (hpc := by simp [hi]) (h1 := by simp) (h2 := by simp)]
    simp only [clientAct, hi, List.getElem?_set_self, setClient, List.set_set, storeWritable_mk_nil, Bool.not_true,
      Bool.false_eq_true, if_false]
    cases hk : g.store.get? k with
    | none =>
      simp only []
      cases v with
      | none =>
        cases wt <;> simp [finishCall, clientRun, hi, List.set_set, afterCall]
      | some val =>
        cases wt with
        | some x =>
          simp only []
          by_cases hx : x ≤ 0
          · simp [hx, finishCall, clientRun, hi, List.set_set, afterCall]
          · simp only [if_neg hx]
            rw [run_idNext g g w sw cl res ss none none [] i k val x ttl o (n + 2) hi rfl]
            cases ttl <;> rfl
        | none =>
          simp only [Option.map]
          by_cases hx : g.cfg.weightOf val ttl.isSome ≤ 0
          · simp [hx, finishCall, clientRun, hi, List.set_set, afterCall]
          · simp only [if_neg hx]
            rw [run_idNext g g w sw cl res ss none none [] i k val _ ttl o (n + 2) hi rfl]
            cases ttl <;> rfl
    | some e =>
      cases rm with
      | true =>
        simp only [if_true]
        exact run_upWeightOf g _ w sw cl res ss i e.id _ e.expiry none o n hi rfl
      | false =>
        simp only [Bool.false_eq_true, if_false]
        cases ttl with
        | none => exact run_upWeightOf g _ w sw cl res ss i e.id _ e.expiry e.expiry o n hi rfl
        | some t =>
          simp only []
          cases addTime g.now t with
          | none => simp [finishCall, clientRun, hi, List.set_set, afterCall]
          | some x => exact run_upWeightOf g _ w sw cl res ss i e.id _ e.expiry (some x) o n hi rfl

/-! ### `get_ref` -/

/-- `get_ref`: `refStore` takes the shard's read guard on a hit, `refPool` releases it — within the run; at the end
    `storeReaders` is `[]` again and everything else is as for `get`: one Layer A event `.get k`. -/
theorem client_getRef (g : State) (w : WPc) (sw : SPc) (cl : List CPc) (res : List (List Out)) (ss : List (Nat × Nat)) (i k : Nat) (o : Oracle)
    (n : Nat) (hi : i < cl.length) :
    CAgree ⟨g, w, sw, cl, res, none, none, [], ss⟩ i (step g (.get k) o)
      (clientRun (n + 4) ⟨g, w, sw, cl.set i (.start (.getRef k)), res, none, none, [], ss⟩ i o) := by
  simp only [step, clientGet, readKey]
  by_cases hs : g.shutting = true
  · simp [clientRun, clientAct, parkedAt, finishCall, setClient, hs, hi, List.set_set, CAgree, afterCall]
  · cases hk : g.store.get? k with
    | none =>
      simp [clientRun, clientAct, parkedAt, finishCall, setClient, hs, hi, hk, List.set_set, CAgree, afterCall]
    | some e =>
      by_cases ha : e.alive g.now = true
      · simp only [clientRun, clientAct, parkedAt, finishCall, setClient, hs, hi, hk, ha, List.set_set,
          List.getElem?_set_self, if_true, Bool.false_eq_true, if_false]
        generalize poolAdd _ _ _ = pr
        cases pr with
        | error m => simp [CAgree]
        | ok r =>
          obtain ⟨g1, o1⟩ := r
          simp [CAgree, afterCall, hi]
      · simp [clientRun, clientAct, parkedAt, finishCall, setClient, hs, hi, hk, ha, List.set_set, CAgree, afterCall]

/-! ### multi-key reads -/

theorem poolAdd_shutting (s : State) (h : Nat) (o : Oracle) (s2 : State) (o' : Oracle)
    (hp : poolAdd s h o = .ok (s2, o')) : s2.shutting = s.shutting := by
  unfold poolAdd at hp
  split at hp
  · cases hp
  · split at hp
    · cases hp
    · simp only [Except.ok.injEq, Prod.mk.injEq] at hp
      rw [← hp.1]
      simp only []
      split
      · simp only [acceptBuffer]; split <;> rfl
      · rfl

theorem poolAdd_cfg (s : State) (h : Nat) (o : Oracle) (s2 : State) (o' : Oracle)
    (hp : poolAdd s h o = .ok (s2, o')) : s2.cfg = s.cfg := by
  unfold poolAdd at hp
  split at hp
  · cases hp
  · split at hp
    · cases hp
    · simp only [Except.ok.injEq, Prod.mk.injEq] at hp
      rw [← hp.1]
      simp only []
      split
      · simp only [acceptBuffer]; split <;> rfl
      · rfl

/-- agreement of Layer A's `readKeys` with a Layer B run that ends in the state `mk g1 vs` -/
def MAgree (ra : Except String (State × List (Option Nat) × Oracle)) (rb : Except String (BState × Oracle))
    (mk : State → List (Option Nat) → BState) : Prop :=
  match ra with
  | .ok (g1, vs, o') => rb = .ok (mk g1 vs, o')
  | .error _ => ∃ m, rb = .error m

/-- Layer B from "on to the next key" (`mgetNext`) to the end of the multi-key read, with nobody else moving and the
    flag not set, against Layer A's `readKeys` (which gathers the results in reverse): at most four actions per key
    (the iterators: the load of `next()`, the load inside `get`, `store.get`, `pool.add`; `multi_get`: three) and the
    final idle test. Every load sees the flag clear, so `iter` plays no role for the outcome. -/
theorem run_mget (w : WPc) (sw : SPc) (res : List (List Out)) (ss : List (Nat × Nat)) (i : Nat) (iter : Bool) :
    ∀ (ks : List Nat) (g : State) (cl : List CPc) (accA : List (Option Nat)) (o : Oracle) (n : Nat),
      i < cl.length → g.shutting = false →
      MAgree (readKeys g ks o accA)
        (clientRun (n + 4 * ks.length + 1)
          (mgetNext ⟨g, w, sw, cl, res, none, none, [], ss⟩ i ks accA.reverse iter) i o)
        (fun g1 vs => ⟨g1, w, sw, cl.set i .idle, res.set i (.values vs :: res.getD i []), none, none, [], ss⟩) := by
  intro ks
  induction ks with
  | nil =>
    intro g cl accA o n hi hs
    simp [readKeys, MAgree, mgetNext, finishCall, clientRun, hi]
  | cons k ks ih =>
    intro g cl accA o n hi hs
    -- from the lookup of `k` on: `store.get`, on a hit `pool.add`, then the remaining keys
    have S : ∀ m : Nat, MAgree (readKeys g (k :: ks) o accA)
        (clientRun (m + 4 * ks.length + 3)
          ⟨g, w, sw, cl.set i (.mgetStore k ks accA.reverse iter), res, none, none, [], ss⟩ i o)
        (fun g1 vs => ⟨g1, w, sw, cl.set i .idle, res.set i (.values vs :: res.getD i []), none, none, [], ss⟩) := by
      intro m
      have hfuel : m + 4 * ks.length + 3 = (m + 4 * ks.length + 2) + 1 := by omega
      rw [hfuel]
      rw [clientRun_act (pc := .mgetStore k ks accA.reverse iter) (hpc := by simp [hi]) (h1 := by simp) (h2 := by simp)]
      simp only [readKeys, readKey]
      have e1 : m + 4 * ks.length + 2 = (m + 1) + 4 * ks.length + 1 := by omega
      cases hk : g.store.get? k with
      | none =>
        simp only [clientAct, hi, List.getElem?_set_self, hk]
        have := ih { g with stats := { g.stats with misses := g.stats.misses + 1 } }
          (cl.set i (.mgetStore k ks accA.reverse iter)) (none :: accA) o (m + 1) (by simp [hi]) hs
        simp only [List.reverse_cons, List.set_set] at this
        rw [e1]
        exact this
      | some e =>
        by_cases ha : e.alive g.now = true
        · simp only [clientAct, hi, List.getElem?_set_self, hk, ha, if_true, setClient, List.set_set]
          have e2 : m + 4 * ks.length + 2 = (m + 4 * ks.length + 1) + 1 := by omega
          rw [e2]
          rw [clientRun_act (pc := .mgetPool k e.value ks accA.reverse iter) (hpc := by simp [hi]) (h1 := by simp)
            (h2 := by simp)]
          simp only [clientAct, hi, List.getElem?_set_self]
          cases hp : poolAdd { g with stats := { g.stats with hits := g.stats.hits + 1 } } (g.cfg.hashOf k) o with
          | error m' => exact ⟨m', rfl⟩
          | ok r =>
            obtain ⟨g1, o1⟩ := r
            have hs1 : g1.shutting = false := (poolAdd_shutting _ _ _ _ _ hp).trans hs
            have := ih g1 (cl.set i (.mgetPool k e.value ks accA.reverse iter)) (some e.value :: accA) o1 m
              (by simp [hi]) hs1
            simp only [List.reverse_cons, List.set_set] at this
            exact this
        · simp only [clientAct, hi, List.getElem?_set_self, hk, ha, Bool.false_eq_true, if_false]
          have := ih { g with stats := { g.stats with misses := g.stats.misses + 1 } }
            (cl.set i (.mgetStore k ks accA.reverse iter)) (none :: accA) o (m + 1) (by simp [hi]) hs
          simp only [List.reverse_cons, List.set_set] at this
          rw [e1]
          exact this
    have hfuel : n + 4 * (k :: ks).length + 1 = (n + 4 * ks.length + 4) + 1 := by
      simp only [List.length_cons]; omega
    have hnext : mgetNext ⟨g, w, sw, cl, res, none, none, [], ss⟩ i (k :: ks) accA.reverse iter =
        ⟨g, w, sw, cl.set i (.mgetFlag iter (k :: ks) accA.reverse iter), res, none, none, [], ss⟩ := by
      simp [mgetNext, setClient]
    rw [hfuel, hnext]
    rw [clientRun_act (pc := .mgetFlag iter (k :: ks) accA.reverse iter) (hpc := by simp [hi]) (h1 := by simp) (h2 := by simp)]
    cases iter with
    | false =>
      -- `multi_get`: the load inside `get`, then the lookup
      simp only [clientAct, hi, List.getElem?_set_self, mgetFlagAct, hs, Bool.false_eq_true, if_false, setClient,
        List.set_set]
      have := S (n + 1)
      have e3 : n + 1 + 4 * ks.length + 3 = n + 4 * ks.length + 4 := by omega
      rw [e3] at this
      exact this
    | true =>
      -- the iterators: the load of `next()`, the load inside `get`, then the lookup
      simp only [clientAct, hi, List.getElem?_set_self, mgetFlagAct, hs, Bool.false_eq_true, if_false, if_true, setClient,
        List.set_set]
      have e4 : n + 4 * ks.length + 4 = (n + 4 * ks.length + 3) + 1 := by omega
      rw [e4]
      rw [clientRun_act (pc := .mgetFlag false (k :: ks) accA.reverse true) (hpc := by simp [hi]) (h1 := by simp)
        (h2 := by simp)]
      simp only [clientAct, hi, List.getElem?_set_self, mgetFlagAct, hs, Bool.false_eq_true, if_false, setClient,
        List.set_set]
      exact S n

/-- `multi_get` (`iter = false`) and the multi-get iterators (`iter = true`): client `i` running
    `start → mgetFlag* → (mgetFlag* → mgetStore → [mgetPool])*` alone is Layer A's single event `.multiGet ks`
    (`clientMultiGet`) — same shared state, same list of values, same oracle; with the flag set both answer `.values []`
    and touch nothing (run alone every load of the flag sees the same value: the `None`-without-lookup answers and the
    truncated iterations of `C13_layerB_mget_around_shutdown` need another thread's `shutdown.cas` in between).
    `4·|ks| + 3` iterations suffice (the first action; for the iterators two loads, the lookup and the access record per
    key; for `multi_get` the load at its entry and one load, the lookup and the access record per key; the final idle test).
    STATEMENT CHANGED with the model (every flag load its own action): the fuel was `2·|ks| + 2`. -/
theorem client_mget (g : State) (w : WPc) (sw : SPc) (cl : List CPc) (res : List (List Out)) (ss : List (Nat × Nat))
    (i : Nat) (ks : List Nat) (iter : Bool) (o : Oracle) (n : Nat) (hi : i < cl.length) :
    CAgree ⟨g, w, sw, cl, res, none, none, [], ss⟩ i (step g (.multiGet ks) o)
      (clientRun (n + 4 * ks.length + 3) ⟨g, w, sw, cl.set i (.start (.mget ks iter)), res, none, none, [], ss⟩ i o) := by
  simp only [step, clientMultiGet]
  have e : n + 4 * ks.length + 3 = (n + 4 * ks.length + 2) + 1 := rfl
  rw [e, clientRun_act (pc := .start (.mget ks iter)) (hpc := by simp [hi]) (h1 := by simp) (h2 := by simp)]
  by_cases hs : g.shutting = true
  · -- flag set: the first action looks at nothing, the outer load ends the call (an iterator over no keys: at once)
    cases ks with
    | nil =>
      cases iter <;>
        simp [clientRun, clientAct, mgetStart, mgetFlagAct, parkedAt, finishCall, setClient, hs, hi, List.set_set, CAgree,
          afterCall]
    | cons k rest =>
      cases iter <;>
        simp [clientRun, clientAct, mgetStart, mgetFlagAct, parkedAt, finishCall, setClient, hs, hi, List.set_set, CAgree,
          afterCall]
  · have hs' : g.shutting = false := by simpa using hs
    cases ks with
    | nil =>
      cases iter <;>
        simp [clientRun, clientAct, mgetStart, mgetFlagAct, parkedAt, finishCall, setClient, hs', hi, List.set_set, CAgree,
          afterCall, readKeys]
    | cons k rest =>
      have fin : ∀ (m : Nat) (rb : Except String (BState × Oracle)),
          MAgree (readKeys g (k :: rest) o []) rb
            (fun g1 vs => ⟨g1, w, sw, cl.set i .idle, res.set i (.values vs :: res.getD i []), none, none, [], ss⟩) →
          CAgree ⟨g, w, sw, cl, res, none, none, [], ss⟩ i
            (match readKeys g (k :: rest) o [] with
              | .ok (s1, vs, o') => .ok (s1, .values vs, o')
              | .error m => .error m) rb := by
        intro m rb this
        unfold MAgree at this
        cases hr : readKeys g (k :: rest) o [] with
        | error m => rw [hr] at this; exact this
        | ok r =>
          obtain ⟨g1, vs, o1⟩ := r
          rw [hr] at this
          simp only [CAgree, afterCall]
          exact this
      simp only [hs', Bool.false_eq_true, if_false]
      cases iter with
      | true =>
        -- `start` leaves the client before the load of `next()`: that is `mgetNext` of all keys
        simp only [clientAct, hi, List.getElem?_set_self, hs', Bool.false_eq_true, if_false, mgetStart, Bool.true_and,
          List.isEmpty_cons, setClient, List.set_set]
        have := run_mget w sw res ss i true (k :: rest) g (cl.set i (.start (.mget (k :: rest) true))) [] o (n + 1)
          (by simp [hi]) hs'
        simp only [List.reverse_nil, List.set_set, mgetNext, setClient] at this
        have e5 : n + 1 + 4 * (k :: rest).length + 1 = n + 4 * (k :: rest).length + 2 := by omega
        rw [e5] at this
        exact fin 0 _ this
      | false =>
        -- `start`, then the load at the entry of `multi_get`: that leaves `mgetNext` of all keys
        simp only [clientAct, hi, List.getElem?_set_self, hs', Bool.false_eq_true, if_false, mgetStart, Bool.false_and,
          setClient, List.set_set]
        have e6 : n + 4 * (k :: rest).length + 2 = (n + 4 * (k :: rest).length + 1) + 1 := by omega
        rw [e6]
        rw [clientRun_act (pc := .mgetFlag true (k :: rest) [] false) (hpc := by simp [hi]) (h1 := by simp) (h2 := by simp)]
        simp only [clientAct, hi, List.getElem?_set_self, mgetFlagAct, hs', Bool.false_eq_true, if_false, if_true, setClient,
          List.set_set]
        have := run_mget w sw res ss i false (k :: rest) g (cl.set i (.start (.mget (k :: rest) false))) [] o n
          (by simp [hi]) hs'
        simp only [List.reverse_nil, List.set_set, mgetNext, setClient] at this
        exact fin 0 _ this

/-! ### `shutdown` -/

/-- one action of a client that is neither idle nor blocked at one of its sends -/
theorem clientRun_step (n : Nat) (b : BState) (i : Nat) (o : Oracle) (h1 : b.cl[i]? ≠ some .idle)
    (h2 : parkedAt b i = false) :
    clientRun (n + 1) b i o =
      match clientAct b i o with
      | .error m => .error m
      | .ok (b', o') => clientRun n b' i o' := by
  simp only [clientRun, h2, Bool.false_eq_true, if_false]

/-- a client that is blocked at one of its sends does nothing -/
theorem clientRun_parked (n : Nat) (b : BState) (i : Nat) (o : Oracle) (h : parkedAt b i = true) :
    clientRun (n + 1) b i o = .ok (b, o) := by
  simp only [clientRun, h]
  split <;> rfl

/-- Layer B from `.shutConsumerFlag` to the end of `shutdown`: the eight actions after the two sends are
    `shutdownFinish` (no lock is owned and nobody keeps a read guard, so each of them is enabled). -/
theorem run_shutFinish (g : State) (w : WPc) (sw : SPc) (cl : List CPc) (res : List (List Out)) (ss : List (Nat × Nat))
    (i : Nat) (o : Oracle) (n : Nat) (hi : i < cl.length) :
    clientRun (n + 9) ⟨g, w, sw, cl.set i .shutConsumerFlag, res, none, none, [], ss⟩ i o =
      .ok (⟨shutdownFinish g, w, sw, cl.set i .idle, res.set i (.none :: res.getD i []), none, none, [], ss⟩, o) := by
  simp [clientRun, clientAct, parkedAt, finishCall, setClient, wuFree, hi, List.set_set, shutdownFinish]

/-- Layer B from `.shutSendBuf` on, against Layer A's `shutdownSendBuf` (`g0`: the state the call started in). -/
theorem run_shutSendBuf (g0 g1 : State) (w : WPc) (sw : SPc) (cl : List CPc) (res : List (List Out)) (ss : List (Nat × Nat))
    (i : Nat) (o : Oracle) (n : Nat) (hi : i < cl.length) (hp : g1.pend = g0.pend) :
    clientRun (n + 10) ⟨g1, w, sw, cl.set i .shutSendBuf, res, none, none, [], ss⟩ i o =
      .ok (afterCall ⟨g0, w, sw, cl, res, none, none, [], ss⟩ i (shutdownSendBuf g1 i).1 (shutdownSendBuf g1 i).2, o) := by
  unfold shutdownSendBuf
  by_cases hc : g1.consumerAlive = true
  · by_cases hf : g1.bufq.length ≥ g1.cfg.bufChanCap
    · rw [clientRun_parked (h := by simp [parkedAt, hi, hc, hf])]
      rw [if_neg (show ¬ ((!g1.consumerAlive) = true) by simp [hc]), if_pos hf]
      simp [afterCall, pcOfPending, ← hp]
    · rw [clientRun_step (h1 := by simp [hi]) (h2 := by simp [parkedAt, hi, hc, hf])]
      simp only [clientAct, hi, List.getElem?_set_self, hc, hf, setClient, List.set_set, Bool.not_true,
        Bool.false_eq_true, if_false]
      rw [run_shutFinish (hi := hi)]
      simp [afterCall]
  · rw [clientRun_step (h1 := by simp [hi]) (h2 := by simp [parkedAt, hi, hc])]
    simp only [clientAct, hi, List.getElem?_set_self, hc, setClient, List.set_set, Bool.not_false, if_true]
    rw [run_shutFinish (hi := hi)]
    simp [afterCall]

/-- Layer B from `.shutSendCmd` on, against Layer A's `shutdownSendCmd`. -/
theorem run_shutSendCmd (g0 g1 : State) (w : WPc) (sw : SPc) (cl : List CPc) (res : List (List Out)) (ss : List (Nat × Nat))
    (i : Nat) (o : Oracle) (n : Nat) (hi : i < cl.length) (hp : g1.pend = g0.pend) :
    clientRun (n + 11) ⟨g1, w, sw, cl.set i .shutSendCmd, res, none, none, [], ss⟩ i o =
      .ok (afterCall ⟨g0, w, sw, cl, res, none, none, [], ss⟩ i (shutdownSendCmd g1 i).1 (shutdownSendCmd g1 i).2, o) := by
  unfold shutdownSendCmd
  by_cases hd : g1.worker = .dead
  · rw [clientRun_step (h1 := by simp [hi]) (h2 := by simp [parkedAt, hi, hd])]
    simp only [clientAct, hi, List.getElem?_set_self, hd, setClient, List.set_set, if_true]
    exact run_shutSendBuf g0 g1 w sw cl res ss i o n hi hp
  · by_cases hf : g1.queue.length ≥ g1.cfg.cmdCap
    · simp [clientRun, parkedAt, hd, hf, hi, afterCall, pcOfPending, ← hp]
    · rw [clientRun_step (h1 := by simp [hi]) (h2 := by simp [parkedAt, hi, hd, hf])]
      simp only [clientAct, hi, List.getElem?_set_self, hd, hf, setClient, List.set_set, if_false]
      exact run_shutSendBuf g0 _ w sw cl res ss i o n hi hp

/-- `shutdown`: `start → shutCas → shutSendCmd → shutSendBuf → (eight clearing actions)` is `clientShutdown`;
    the run stops where Layer A parks (`afterCall`: at `.shutSendCmd` ↔ `pend[i] = .shutdownCmd`,
    at `.shutSendBuf` ↔ `pend[i] = .shutdownBuf`). 13 iterations suffice (12 actions and the final idle test). -/
theorem client_shutdown (g : State) (w : WPc) (sw : SPc) (cl : List CPc) (res : List (List Out)) (ss : List (Nat × Nat))
    (i : Nat) (o : Oracle) (n : Nat) (hi : i < cl.length) :
    CAgree ⟨g, w, sw, cl, res, none, none, [], ss⟩ i (step g (.shutdown i) o)
      (clientRun (n + 13) ⟨g, w, sw, cl.set i (.start .shutdown), res, none, none, [], ss⟩ i o) := by
  simp only [step, clientShutdown, CAgree]
  by_cases hs : g.shutting = true
  · simp [clientRun, clientAct, parkedAt, finishCall, setClient, hs, hi, List.set_set, afterCall]
  · simp only [if_neg hs]
    rw [clientRun_step (h1 := by simp [hi]) (h2 := by simp [parkedAt, hi])]
    simp only [clientAct, hi, List.getElem?_set_self, hs, setClient, List.set_set, Bool.false_eq_true, if_false]
    rw [clientRun_step (h1 := by simp [hi]) (h2 := by simp [parkedAt, hi])]
    simp only [clientAct, hi, List.getElem?_set_self, hs, setClient, List.set_set, Bool.false_eq_true, if_false]
    exact run_shutSendCmd g _ w sw cl res ss i o n hi rfl

/-- explicit sufficient fuel for one client call (iterations of `clientRun`) -/
def reqFuel : Req → Nat
  | .shutdown => 13
  | .mget ks _ => 4 * ks.length + 3
  | _ => 8

/-- the number of keys of a multi-key read (0 for every other request) -/
def Req.nkeys : Req → Nat
  | .mget ks _ => ks.length
  | _ => 0

/-- **Clients (item 3).** Client `i` runs request `r` with nobody else moving: same shared state, same recorded result
    as the Layer A call; a call that Layer A reports as `.parked` leaves the Layer B client at the send it blocks at
    (`.send cmd`, `.shutSendCmd`, `.shutSendBuf`) with that queue full and its effects so far applied (`afterCall`);
    illegal oracles are illegal on both sides. `getRef k` is Layer A's `.get k`, `shutdown` is `Ev.shutdown i`.
    `hsr`: nobody keeps a `get_ref` read guard when the call starts (non-preempted fragment); nobody does when it
    ends (`afterCall_storeReaders`). Fuel: 8 iterations, 13 for `shutdown`, `2·|ks| + 2` for a multi-key read of the
    keys `ks` (so `14 + 2·|ks| ≤ fuel` is enough for every request: `client_refines_14`).
    `mget ks iter` — `multi_get` and both iterators — is Layer A's `.multiGet ks`, whatever `iter` is. -/
theorem client_refines (b : BState) (i : Nat) (r : Req) (o : Oracle) (fuel : Nat) (hi : i < b.cl.length)
    (hwu : b.wuOwner = none) (httl : b.ttlOwner = none) (hsr : b.storeReaders = []) (hf : reqFuel r ≤ fuel) :
    CAgree b i (step b.g (reqEv i r) o) (clientRun fuel (setClient b i (.start r)) i o) := by
  obtain ⟨g, w, sw, cl, res, wu, tt, sr, ss⟩ := b
  simp only at hi hwu httl hsr
  subst hwu httl hsr
  cases r with
  | shutdown =>
    obtain ⟨n, rfl⟩ : ∃ n, fuel = n + 13 := ⟨fuel - 13, by simp only [reqFuel] at hf; omega⟩
    exact client_shutdown g w sw cl res ss i o n hi
  | putW k v wt ttl =>
    obtain ⟨n, rfl⟩ : ∃ n, fuel = n + 8 := ⟨fuel - 8, by simp only [reqFuel] at hf; omega⟩
    exact client_putW g w sw cl res ss i k v wt ttl o (n + 3) hi
  | delete k =>
    obtain ⟨n, rfl⟩ : ∃ n, fuel = n + 8 := ⟨fuel - 8, by simp only [reqFuel] at hf; omega⟩
    exact client_delete g w sw cl res ss i k o (n + 4) hi
  | get k =>
    obtain ⟨n, rfl⟩ : ∃ n, fuel = n + 8 := ⟨fuel - 8, by simp only [reqFuel] at hf; omega⟩
    exact client_get g w sw cl res ss i k o (n + 4) hi
  | weight =>
    obtain ⟨n, rfl⟩ : ∃ n, fuel = n + 8 := ⟨fuel - 8, by simp only [reqFuel] at hf; omega⟩
    exact client_weight g w sw cl res ss i o (n + 5) hi
  | upsert k v wt ttl rm =>
    obtain ⟨n, rfl⟩ : ∃ n, fuel = n + 8 := ⟨fuel - 8, by simp only [reqFuel] at hf; omega⟩
    exact client_upsert g w sw cl res ss i k v wt ttl rm o (n + 1) hi
  | getRef k =>
    obtain ⟨n, rfl⟩ : ∃ n, fuel = n + 8 := ⟨fuel - 8, by simp only [reqFuel] at hf; omega⟩
    exact client_getRef g w sw cl res ss i k o (n + 4) hi
  | mget ks iter =>
    obtain ⟨n, rfl⟩ : ∃ n, fuel = n + 4 * ks.length + 3 := ⟨fuel - (4 * ks.length + 3), by simp only [reqFuel] at hf; omega⟩
    exact client_mget g w sw cl res ss i ks iter o n hi

/-- the fuel bound: 14 for every request of bounded length; a multi-key read needs four more per key.
    (Was `reqFuel r ≤ 14` before `Req` had `mget`; for every other request `r.nkeys = 0` and this IS that statement.
    STATEMENT CHANGED with the model — every flag load of a multi-key read its own action: was `14 + 2 * r.nkeys`.) -/
theorem reqFuel_le (r : Req) : reqFuel r ≤ 14 + 4 * r.nkeys := by cases r <;> simp [reqFuel, Req.nkeys]; omega

/-- `client_refines` with one fuel bound for every request (for every request other than `mget`: `14 ≤ fuel`) -/
theorem client_refines_14 (b : BState) (i : Nat) (r : Req) (o : Oracle) (fuel : Nat) (hi : i < b.cl.length)
    (hwu : b.wuOwner = none) (httl : b.ttlOwner = none) (hsr : b.storeReaders = []) (hf : 14 + 4 * r.nkeys ≤ fuel) :
    CAgree b i (step b.g (reqEv i r) o) (clientRun fuel (setClient b i (.start r)) i o) :=
  client_refines b i r o fuel hi hwu httl hsr (Nat.le_trans (reqFuel_le r) hf)

/-- **The three multi-key reads are one Layer A event.** Run alone, `multi_get(ks)` and the multi-get iterators over
    `ks` end in the same Layer B state with the same recorded result: the shutdown flag — the only thing they treat
    differently — cannot change while nobody else moves. (Under interleaving they DO differ:
    `C13_layerB_mget_flag_outer`, `C13_layerB_mget_around_shutdown`.) Fuel: `4·|ks| + 3` (was `2·|ks| + 2` before every
    flag load became an action of its own). -/
theorem client_mget_iter_irrelevant (b : BState) (i : Nat) (ks : List Nat) (o : Oracle) (fuel : Nat) (hi : i < b.cl.length)
    (hwu : b.wuOwner = none) (httl : b.ttlOwner = none) (hsr : b.storeReaders = []) (hf : 4 * ks.length + 3 ≤ fuel) :
    (∃ m m', clientRun fuel (setClient b i (.start (.mget ks false))) i o = .error m ∧
             clientRun fuel (setClient b i (.start (.mget ks true))) i o = .error m') ∨
    (∃ r, clientRun fuel (setClient b i (.start (.mget ks false))) i o = .ok r ∧
          clientRun fuel (setClient b i (.start (.mget ks true))) i o = .ok r) := by
  have h1 := client_refines b i (.mget ks false) o fuel hi hwu httl hsr hf
  have h2 := client_refines b i (.mget ks true) o fuel hi hwu httl hsr hf
  simp only [reqEv] at h1 h2
  cases hA : step b.g (.multiGet ks) o with
  | error m =>
    rw [hA] at h1 h2
    obtain ⟨m1, e1⟩ := h1
    obtain ⟨m2, e2⟩ := h2
    exact Or.inl ⟨m1, m2, e1, e2⟩
  | ok r =>
    obtain ⟨g', out, o'⟩ := r
    rw [hA] at h1 h2
    exact Or.inr ⟨_, h1, h2⟩

/-- the read guard of `get_ref` does not outlive the run: `afterCall` leaves the locks and guards as they were -/
theorem afterCall_storeReaders (b : BState) (i : Nat) (g' : State) (out : Out) :
    (afterCall b i g' out).storeReaders = b.storeReaders ∧ (afterCall b i g' out).storeShard = b.storeShard ∧
    (afterCall b i g' out).wuOwner = b.wuOwner ∧ (afterCall b i g' out).ttlOwner = b.ttlOwner := by
  cases out <;> exact ⟨rfl, rfl, rfl, rfl⟩

/-! ## 4  the sweeper -/

/-- Repeats `sweeperAct` from `.begin` through the shard's entries to `.fin` and once more, back to `.begin`.
    `vs`: the ids `retain` visits, in order (the hash map's iteration order); all of them must be used. -/
def sweeperRun : Nat → BState → List Nat → Except String BState
  | 0, _, _ => .error "fuel exhausted"
  | n + 1, b, vs =>
    match b.sw with
    | .fin =>
      (match vs with
       | [] => sweeperAct b none
       | _ :: _ => .error "oracle: more visits than entries")
    | .entry _ _ _ =>
      (match vs with
       | [] => .error "oracle: visits exhausted"
       | v :: vs' =>
         match sweeperAct b (some v) with
         | .error m => .error m
         | .ok b' => sweeperRun n b' vs')
    | _ =>
      (match sweeperAct b none with
       | .error m => .error m
       | .ok b' => sweeperRun n b' vs)

/-- what the sweeper does to the shared state for one visited entry `(id, expiry)` of shard `shard` -/
def visitG (now shard : Nat) (g : State) (p : Nat × Nat) : State :=
  if now > p.2 then (sweepEvict { g with ttl := g.ttl.del (shard, p.1) } p.1).1 else g

/-- the entries of `rest` in the order in which `vs` visits them -/
def visitOrder (rest : List (Nat × Nat)) (vs : List Nat) : List (Nat × Nat) :=
  vs.filterMap (fun id => rest.find? (fun p => p.1 == id))

/-- `vs` visits every id of `rest` exactly once -/
def ValidVisits (rest : List (Nat × Nat)) (vs : List Nat) : Prop :=
  vs.Nodup ∧ ∀ id, id ∈ vs ↔ id ∈ rest.map Prod.fst

theorem sweeperRun_fin (n : Nat) (g : State) (w : WPc) (cl : List CPc) (res : List (List Out)) (ss : List (Nat × Nat)) (wu : Option Tid)
    (tt : Option Nat) (sr : List (Nat × Nat)) :
    sweeperRun (n + 1) ⟨g, w, .fin, cl, res, wu, tt, sr, ss⟩ [] =
      .ok ⟨{ g with sweeperAlive := g.sweeperKeep }, w, .begin, cl, res, wu, tt, sr, ss⟩ := by
  simp [sweeperRun, sweeperAct]

theorem sweeperRun_entry (n : Nat) (g : State) (w : WPc) (cl : List CPc) (res : List (List Out)) (ss : List (Nat × Nat)) (wu : Option Tid)
    (tt : Option Nat) (sr : List (Nat × Nat)) (now shard : Nat) (rest : List (Nat × Nat)) (v : Nat) (vs : List Nat) :
    sweeperRun (n + 1) ⟨g, w, .entry now shard rest, cl, res, wu, tt, sr, ss⟩ (v :: vs) =
      match sweeperAct ⟨g, w, .entry now shard rest, cl, res, wu, tt, sr, ss⟩ (some v) with
      | .error m => .error m
      | .ok b' => sweeperRun n b' vs := by
  simp only [sweeperRun]

theorem sweeperRun_other (n : Nat) (b : BState) (vs : List Nat) (h1 : ∀ a c r, b.sw ≠ .entry a c r) (h2 : b.sw ≠ .fin) :
    sweeperRun (n + 1) b vs =
      match sweeperAct b none with
      | .error m => .error m
      | .ok b' => sweeperRun n b' vs := by
  obtain ⟨g, w, sw, cl, res, wu, tt, sr, ss⟩ := b
  cases sw with
  | fin => exact absurd rfl h2
  | entry a c r => exact absurd rfl (h1 a c r)
  | _ => simp only [sweeperRun]

/-- One visited entry: `entry (→ kwRemove (→ sub → store))`, then whatever follows (`hcont`). -/
theorem run_visit (g : State) (w : WPc) (cl : List CPc) (res : List (List Out)) (ss : List (Nat × Nat)) (now shard : Nat)
    (rest : List (Nat × Nat)) (v e : Nat) (vs : List Nat) (n : Nat) (R : Except String BState)
    (hfind : rest.find? (fun p => p.1 == v) = some (v, e))
    (hcont : ∀ (sw0 : SPc) (n' : Nat), 4 * (rest.filter (fun p => p.1 != v)).length + 1 ≤ n' →
      sweeperRun n' (sweepNext ⟨visitG now shard g (v, e), w, sw0, cl, res, none, some shard, [], ss⟩ now shard
        (rest.filter (fun p => p.1 != v))) vs = R)
    (hn : 4 * (rest.filter (fun p => p.1 != v)).length + 5 ≤ n) :
    sweeperRun n ⟨g, w, .entry now shard rest, cl, res, none, some shard, [], ss⟩ (v :: vs) = R := by
  obtain ⟨m, rfl⟩ : ∃ m, n = m + 4 := ⟨n - 4, by omega⟩
  rw [sweeperRun_entry]
  simp only [sweeperAct, hfind]
  by_cases hdue : now > e
  · simp only [hdue, if_true]
    rw [sweeperRun_other _ _ _ (by simp) (by simp)]
    simp only [sweeperAct]
    cases hk : g.adm.kw.get? v with
    | none =>
      simp only []
      have := hcont (.kwRemove now shard (rest.filter (fun p => p.1 != v)) v) (m + 2) (by omega)
      simp only [visitG, hdue, if_true, sweepEvict, Adm.delete, hk] at this
      exact this
    | some wk =>
      simp only []
      by_cases hu : unexpiredWithId { g with ttl := g.ttl.del (shard, v) } wk.key v = true
      · -- the value stored under the key id has not itself expired: both layers leave it
        simp only [hu, if_true]
        have := hcont (.kwRemove now shard (rest.filter (fun p => p.1 != v)) v) (m + 2) (by omega)
        simp only [visitG, hdue, if_true, sweepEvict, hk, hu] at this
        exact this
      · simp only [hu, Bool.false_eq_true, if_false]
        rw [sweeperRun_other _ _ _ (by simp) (by simp)]
        simp only [sweeperAct, wuFree, Option.isNone_none, Bool.true_or, Bool.not_true, Bool.false_eq_true, if_false]
        rw [sweeperRun_other _ _ _ (by simp) (by simp)]
        simp only [sweeperAct]
        have := hcont (.store now shard (rest.filter (fun p => p.1 != v)) v wk) m (by omega)
        simp only [visitG, hdue, if_true, sweepEvict, Adm.delete, hk, hu, Bool.false_eq_true, if_false] at this
        exact this
  · simp only [hdue, if_false]
    have := hcont (.entry now shard rest) (m + 3) (by omega)
    simp only [visitG, hdue, if_false] at this
    exact this

theorem ValidVisits.nil_rest {rest : List (Nat × Nat)} (h : ValidVisits rest []) : rest = [] := by
  cases rest with
  | nil => rfl
  | cons p r =>
    have := (h.2 p.1).mpr (by simp)
    cases this

theorem find?_id_filter (rest : List (Nat × Nat)) {v id : Nat} (hne : id ≠ v) :
    (rest.filter (fun p => p.1 != v)).find? (fun p => p.1 == id) = rest.find? (fun p => p.1 == id) := by
  rw [List.find?_filter]
  congr 1
  funext p
  by_cases h : p.1 = id
  · simp [h, hne]
  · simp [h]

theorem filterMap_congr' {α β : Type} {f g : α → Option β} :
    ∀ {l : List α}, (∀ a ∈ l, f a = g a) → l.filterMap f = l.filterMap g
  | [], _ => rfl
  | a :: l, h => by
    simp only [List.filterMap_cons, h a (List.mem_cons_self ..)]
    rw [filterMap_congr' (fun b hb => h b (List.mem_cons_of_mem _ hb))]

theorem ValidVisits.cons_step {rest : List (Nat × Nat)} {v : Nat} {vs : List Nat} (h : ValidVisits rest (v :: vs)) :
    ∃ e, rest.find? (fun p => p.1 == v) = some (v, e) ∧ ValidVisits (rest.filter (fun p => p.1 != v)) vs ∧
      visitOrder rest (v :: vs) = (v, e) :: visitOrder (rest.filter (fun p => p.1 != v)) vs := by
  obtain ⟨hnd, hmem⟩ := h
  have hv : v ∈ rest.map Prod.fst := (hmem v).mp (by simp)
  have hsome : (rest.find? (fun p => p.1 == v)).isSome = true := by
    rw [List.find?_isSome]
    obtain ⟨p, hp, hpv⟩ := List.mem_map.mp hv
    exact ⟨p, hp, by simp [hpv]⟩
  obtain ⟨p, hp⟩ := Option.isSome_iff_exists.mp hsome
  have hp1 : p.1 = v := by simpa using List.find?_some hp
  obtain ⟨pv, e⟩ := p
  simp only at hp1
  subst hp1
  have hnd' := List.nodup_cons.mp hnd
  refine ⟨e, hp, ⟨hnd'.2, ?_⟩, ?_⟩
  · intro id
    constructor
    · intro hid
      have hne : id ≠ pv := fun h => hnd'.1 (h ▸ hid)
      obtain ⟨q, hq, hqid⟩ := List.mem_map.mp ((hmem id).mp (List.mem_cons_of_mem _ hid))
      exact List.mem_map.mpr ⟨q, List.mem_filter.mpr ⟨hq, by simp [hqid, hne]⟩, hqid⟩
    · intro hid
      obtain ⟨q, hq, hqid⟩ := List.mem_map.mp hid
      obtain ⟨hq1, hq2⟩ := List.mem_filter.mp hq
      have hne : id ≠ pv := by simpa [hqid] using hq2
      have := (hmem id).mpr (List.mem_map.mpr ⟨q, hq1, hqid⟩)
      rcases List.mem_cons.mp this with h | h
      · exact absurd h hne
      · exact h
  · simp only [visitOrder, List.filterMap_cons, hp]
    congr 1
    apply filterMap_congr'
    intro id hid
    have hne : id ≠ pv := fun h => hnd'.1 (h ▸ hid)
    exact (find?_id_filter rest hne).symm

theorem visitG_keep (now shard : Nat) (g : State) (p : Nat × Nat) :
    (visitG now shard g p).sweeperKeep = g.sweeperKeep := by
  unfold visitG sweepEvict
  split
  · simp only []
    split
    · split
      · rfl
      · split
        · exact applyEvictId_sweeperKeep _ _
        · rfl
    · rfl
  · rfl

theorem foldl_visitG_keep (now shard : Nat) (l : List (Nat × Nat)) : ∀ (g : State),
    (l.foldl (visitG now shard) g).sweeperKeep = g.sweeperKeep := by
  induction l with
  | nil => intro g; rfl
  | cons p r ih => intro g; rw [List.foldl_cons, ih, visitG_keep]

/-- The sweeper from its first entry to `.begin`, for ANY visiting order: the shared state is the fold of `visitG`
    over the entries in the order visited. -/
theorem sweep_entries_run (w : WPc) (cl : List CPc) (res : List (List Out)) (ss : List (Nat × Nat)) (now shard : Nat) :
    ∀ (vs : List Nat) (rest : List (Nat × Nat)) (g : State) (sw0 : SPc) (n : Nat),
      ValidVisits rest vs → 4 * rest.length + 1 ≤ n →
      sweeperRun n (sweepNext ⟨g, w, sw0, cl, res, none, some shard, [], ss⟩ now shard rest) vs =
        .ok ⟨{ (visitOrder rest vs).foldl (visitG now shard) g with sweeperAlive := g.sweeperKeep },
             w, .begin, cl, res, none, none, [], ss⟩ := by
  intro vs
  induction vs with
  | nil =>
    intro rest g sw0 n hv hn
    have := hv.nil_rest
    subst this
    obtain ⟨m, rfl⟩ : ∃ m, n = m + 1 := ⟨n - 1, by omega⟩
    simp only [sweepNext, visitOrder, List.filterMap_nil, List.foldl_nil]
    exact sweeperRun_fin m g w cl res ss none none []
  | cons v vs ih =>
    intro rest g sw0 n hv hn
    obtain ⟨e, hfind, hv', hord⟩ := hv.cons_step
    have hlen : (rest.filter (fun p => p.1 != v)).length < rest.length := by
      have hmem := List.mem_of_find?_eq_some hfind
      have : ¬ ((fun p : Nat × Nat => p.1 != v) (v, e)) = true := by simp
      exact List.length_filter_lt_length_iff_exists.mpr ⟨(v, e), hmem, this⟩
    cases rest with
    | nil => simp at hfind
    | cons p r =>
      simp only [sweepNext]
      rw [hord, List.foldl_cons]
      refine run_visit g w cl res ss now shard (p :: r) v e vs n _ hfind ?_ (by omega)
      intro sw1 n' hn'
      rw [ih _ _ sw1 n' hv' hn', visitG_keep]

/-! ### evictions of different ids commute -/

theorem amap_del_comm {α β : Type} [DecidableEq α] (m : AMap α β) (a b : α) :
    (m.del a).del b = (m.del b).del a := by
  induction m with
  | nil => rfl
  | cons p r ih =>
    obtain ⟨k, v⟩ := p
    by_cases h1 : k = a
    · by_cases h2 : k = b
      · subst h1; subst h2; simp [AMap.del, ih]
      · subst h1; simp [AMap.del, h2, ih]
    · by_cases h2 : k = b
      · subst h2; simp [AMap.del, h1, ih]
      · simp [AMap.del, h1, h2, ih]

theorem amap_del_absent {α β : Type} [DecidableEq α] (m : AMap α β) (a : α) (h : m.get? a = none) :
    m.del a = m := by
  induction m with
  | nil => rfl
  | cons p r ih =>
    obtain ⟨k, v⟩ := p
    by_cases h1 : k = a
    · simp [AMap.get?, h1] at h
    · simp only [AMap.get?, h1, if_false] at h
      simp [AMap.del, h1, ih h]

/-- `applyEvict` in closed form: the key leaves the store (if it is there), the statistics count it. -/
theorem applyEvict_eq (s : State) (id key : Nat) (w : Int) :
    applyEvict s (id, key, w) =
      { s with store := s.store.del key,
               stats := { s.stats with
                 keysDeleted := s.stats.keysDeleted + (if s.store.contains key then 1 else 0),
                 weightRemoved := (s.stats.weightRemoved + w.toNat) % u64Mod } } := by
  unfold applyEvict
  by_cases hc : s.store.contains key = true
  · simp [hc]
  · have : s.store.get? key = none := by
      simp only [AMap.contains] at hc
      cases h : s.store.get? key with
      | none => rfl
      | some x => simp [h] at hc
    simp [hc, amap_del_absent _ _ this]

/-- the shared state after the evict hook for `id` (`sweepEvict` without the report) -/
def evictId (g : State) (id : Nat) : State := (sweepEvict g id).1

theorem evictId_eq (g : State) (id : Nat) :
    evictId g id =
      match g.adm.kw.get? id with
      | none => g
      | some wk =>
        if unexpiredWithId g wk.key id then g      -- the value stored under the key id has not itself expired (fix 1)
        else
        { g with adm := { g.adm with kw := g.adm.kw.del id, used := g.adm.used - wk.weight },
                 store := if (g.store.get? wk.key).map (·.id) = some id then g.store.del wk.key else g.store,
                 stats := { g.stats with
                   keysDeleted := g.stats.keysDeleted +
                     (if (g.store.get? wk.key).map (·.id) = some id then 1 else 0),
                   weightRemoved := (g.stats.weightRemoved + wk.weight.toNat) % u64Mod } } := by
  unfold evictId sweepEvict Adm.delete
  cases h : g.adm.kw.get? id with
  | none => rfl
  | some wk =>
    simp only [applyEvictId_closed]
    split <;> rfl

theorem amap_contains_del {α β : Type} [DecidableEq α] (m : AMap α β) (a b : α) :
    (m.del a).contains b = if a = b then false else m.contains b := by
  unfold AMap.contains
  by_cases h : a = b
  · subst h; simp
  · simp [h, AMap.get?_del_other _ h]

theorem wr_comm (x a b : Nat) : ((x + a) % u64Mod + b) % u64Mod = ((x + b) % u64Mod + a) % u64Mod := by
  unfold u64Mod; omega

/-- The id check of the ticker's hook for `b` sees the same thing before and after the eviction of another id `a`:
    if that eviction removed `b`'s key, the entry carried `a`, not `b`. -/
theorem evictMatch_after (st : AMap Nat Entry) {a b : Nat} (ka kb : Nat) (hab : a ≠ b) :
    (((if (st.get? ka).map (·.id) = some a then st.del ka else st).get? kb).map (·.id) = some b) ↔
      ((st.get? kb).map (·.id) = some b) := by
  by_cases hm : (st.get? ka).map (·.id) = some a
  · rw [if_pos hm]
    by_cases hk : ka = kb
    · subst hk
      rw [AMap.get?_del_same, hm]
      simp only [Option.map_none, Option.some.injEq]
      constructor
      · intro h; cases h
      · intro h; exact absurd h hab
    · rw [AMap.get?_del_other _ hk]
  · rw [if_neg hm]

/-- the hook leaves a key id alone whose stored value has not itself expired -/
theorem evictId_skip (g : State) (id : Nat) (wk : WKey) (hk : g.adm.kw.get? id = some wk)
    (hu : unexpiredWithId g wk.key id = true) : evictId g id = g := by
  rw [evictId_eq, hk]
  simp only [hu, if_true]

/-- the hook for `a` does not touch the charge of another key id -/
theorem evictId_kw_other (g : State) {a b : Nat} (hab : a ≠ b) :
    (evictId g a).adm.kw.get? b = g.adm.kw.get? b := by
  rw [evictId_eq]
  split
  · rfl
  · split
    · rfl
    · exact AMap.get?_del_other _ hab

/-- **The re-validation of the ticker's hook for `b` sees the same thing before and after the hook for another id `a`**:
    the hook for `a` changes the store only at `a`'s key and only if the entry there carries `a` — and then the check for
    `b` at that key failed before (other id) and fails after (no entry). No hypothesis on the keys is needed. -/
theorem unexpired_after_evict (g : State) {a b : Nat} (kb : Nat) (hab : a ≠ b) :
    unexpiredWithId (evictId g a) kb b = unexpiredWithId g kb b := by
  rw [evictId_eq]
  split
  · rfl
  · rename_i wa _
    split
    · rfl
    · unfold unexpiredWithId
      simp only []
      by_cases hm : (g.store.get? wa.key).map (·.id) = some a
      · rw [if_pos hm]
        by_cases hk : wa.key = kb
        · subst hk
          rw [AMap.get?_del_same]
          cases hs : g.store.get? wa.key with
          | none => rfl
          | some e =>
            rw [hs] at hm
            simp only [Option.map_some, Option.some.injEq] at hm
            have : (e.id == b) = false := by rw [hm]; simpa using hab
            simp only [this, Bool.false_and]
        · rw [AMap.get?_del_other _ hk]
      · rw [if_neg hm]

theorem evictId_comm (g : State) (a b : Nat) : evictId (evictId g a) b = evictId (evictId g b) a := by
  by_cases hab : a = b
  · subst hab; rfl
  · have hba : b ≠ a := Ne.symm hab
    cases ha : g.adm.kw.get? a with
    | none =>
      have e1 : evictId g a = g := by rw [evictId_eq, ha]
      have e2 : (evictId g b).adm.kw.get? a = none := by rw [evictId_kw_other g hba, ha]
      rw [e1, evictId_eq (evictId g b) a, e2]
    | some wa =>
      cases hb : g.adm.kw.get? b with
      | none =>
        have e1 : evictId g b = g := by rw [evictId_eq, hb]
        have e2 : (evictId g a).adm.kw.get? b = none := by rw [evictId_kw_other g hab, hb]
        rw [e1, evictId_eq (evictId g a) b, e2]
      | some wb =>
        cases hua : unexpiredWithId g wa.key a with
        | true =>
          -- `a` is left alone, before and after the hook for `b`
          rw [evictId_skip g a wa ha hua,
            evictId_skip (evictId g b) a wa (by rw [evictId_kw_other g hba, ha])
              (by rw [unexpired_after_evict g wa.key hba, hua])]
        | false =>
          cases hub : unexpiredWithId g wb.key b with
          | true =>
            rw [evictId_skip g b wb hb hub,
              evictId_skip (evictId g a) b wb (by rw [evictId_kw_other g hab, hb])
                (by rw [unexpired_after_evict g wb.key hab, hub])]
          | false =>
            -- both are taken out: the checks of the second hooks fail as well, the two removals commute
            have ca := unexpired_after_evict g wb.key hab
            have cb := unexpired_after_evict g wa.key hba
            rw [hub] at ca
            rw [hua] at cb
            rw [evictId_eq g a, ha] at ca
            rw [evictId_eq g b, hb] at cb
            simp only [hua, hub, Bool.false_eq_true, if_false] at ca cb
            rw [evictId_eq g a, evictId_eq g b, ha, hb]
            simp only [hua, hub, Bool.false_eq_true, if_false]
            rw [evictId_eq, evictId_eq]
            have ma := evictMatch_after g.store wb.key wa.key hba
            have mb := evictMatch_after g.store wa.key wb.key hab
            simp only [AMap.get?_del_other _ hab, AMap.get?_del_other _ hba, ha, hb, ca, cb, Bool.false_eq_true, if_false,
              State.mk.injEq, Adm.mk.injEq, Stats.mk.injEq, true_and, and_true, ma, mb]
            refine ⟨?_, ⟨by omega, amap_del_comm _ _ _⟩, ?_, wr_comm _ _ _⟩
            · by_cases h1 : (g.store.get? wa.key).map (·.id) = some a <;>
                by_cases h2 : (g.store.get? wb.key).map (·.id) = some b <;>
                simp only [h1, h2, if_true, if_false]
              exact amap_del_comm _ _ _
            · omega

theorem evictId_ttl (g : State) (id : Nat) : (evictId g id).ttl = g.ttl := by
  rw [evictId_eq]
  split
  · rfl
  · split <;> rfl

theorem evictId_with_ttl (g : State) (t : AMap (Nat × Nat) Nat) (id : Nat) :
    evictId { g with ttl := t } id = { evictId g id with ttl := t } := by
  rw [evictId_eq, evictId_eq]
  have hu : ∀ k, unexpiredWithId { g with ttl := t } k id = unexpiredWithId g k id := fun _ => rfl
  simp only [hu]
  split
  · rfl
  · split <;> rfl

/-- what one visited entry does to the expiry index -/
def visitTtl (now shard : Nat) (t : AMap (Nat × Nat) Nat) (p : Nat × Nat) : AMap (Nat × Nat) Nat :=
  if now > p.2 then t.del (shard, p.1) else t

/-- the ids of the due entries, in order -/
def dueIds (now : Nat) (l : List (Nat × Nat)) : List Nat := (l.filter (fun p => decide (now > p.2))).map Prod.fst

theorem foldl_evictId_with_ttl (l : List Nat) : ∀ (g : State) (t : AMap (Nat × Nat) Nat),
    l.foldl evictId { g with ttl := t } = { l.foldl evictId g with ttl := t } := by
  induction l with
  | nil => intro g t; rfl
  | cons a r ih =>
    intro g t
    show r.foldl evictId (evictId { g with ttl := t } a) = _
    rw [evictId_with_ttl, ih]; rfl

theorem foldl_evictId_ttl (l : List Nat) : ∀ (g : State), (l.foldl evictId g).ttl = g.ttl := by
  induction l with
  | nil => intro g; rfl
  | cons a r ih => intro g; rw [List.foldl_cons, ih, evictId_ttl]

/-- The sweep splits into the evictions of the due ids and the update of the expiry index. -/
theorem foldl_visitG_eq (now shard : Nat) (l : List (Nat × Nat)) : ∀ (g : State),
    l.foldl (visitG now shard) g =
      { (dueIds now l).foldl evictId g with ttl := l.foldl (visitTtl now shard) g.ttl } := by
  induction l with
  | nil => intro g; rfl
  | cons p r ih =>
    intro g
    rw [List.foldl_cons, ih, List.foldl_cons]
    by_cases hd : now > p.2
    · have e1 : visitG now shard g p = { evictId g p.1 with ttl := g.ttl.del (shard, p.1) } := by
        simp only [visitG, hd, if_true]
        exact evictId_with_ttl g _ p.1
      have e2 : dueIds now (p :: r) = p.1 :: dueIds now r := by simp [dueIds, List.filter, hd]
      rw [e1, e2, List.foldl_cons, foldl_evictId_with_ttl]
      simp only [visitTtl, hd, if_true]
    · have e1 : visitG now shard g p = g := by simp only [visitG, hd, if_false]
      have e2 : dueIds now (p :: r) = dueIds now r := by simp [dueIds, List.filter, hd]
      rw [e1, e2]
      simp only [visitTtl, hd, if_false]

theorem sweepEntries_eq (l : List ((Nat × Nat) × Nat)) : ∀ (g : State) (acc : List Evicted),
    (sweepEntries g l acc).1 = (l.map (fun p => p.1.2)).foldl evictId g := by
  induction l with
  | nil => intro g acc; rfl
  | cons p r ih =>
    intro g acc
    obtain ⟨⟨sh, id⟩, e⟩ := p
    simp only [sweepEntries, List.map_cons, List.foldl_cons]
    rw [ih]; rfl

theorem amap_del_eq_filter {α β : Type} [DecidableEq α] (m : AMap α β) (a : α) :
    m.del a = m.filter (fun q => decide (q.1 ≠ a)) := by
  induction m with
  | nil => rfl
  | cons p r ih =>
    obtain ⟨k, v⟩ := p
    by_cases h : k = a <;> simp [AMap.del, List.filter, h, ih]

/-- the expiry index after the sweep, in closed form: the keys of the due visited entries are gone -/
theorem foldl_visitTtl_eq (now shard : Nat) (l : List (Nat × Nat)) : ∀ (t : AMap (Nat × Nat) Nat),
    l.foldl (visitTtl now shard) t =
      t.filter (fun q => !(l.any (fun p => decide (now > p.2) && decide ((shard, p.1) = q.1)))) := by
  induction l with
  | nil =>
    intro t
    simp only [List.foldl_nil, List.any_nil, Bool.not_false]
    exact (List.filter_eq_self.mpr (fun _ _ => rfl)).symm
  | cons p r ih =>
    intro t
    rw [List.foldl_cons, ih]
    by_cases hd : now > p.2
    · simp only [visitTtl, hd, if_true, amap_del_eq_filter, List.filter_filter]
      apply List.filter_congr
      intro q _
      by_cases hq : (shard, p.1) = q.1
      · simp [hd, hq]
      · have hq' : ¬ q.1 = (shard, p.1) := fun h => hq h.symm
        simp [hd, hq, hq']
    · simp only [visitTtl, hd, if_false]
      apply List.filter_congr
      intro q _
      simp [hd]

/-- the entries `(id, expiry)` of the shard the sweeper works on, in the order of the expiry index -/
def shardEntries (g : State) : List (Nat × Nat) :=
  (g.ttl.filter (fun p => p.1.1 == secsOf g.now % g.cfg.shards)).map (fun p => (p.1.2, p.2))

theorem find?_self_of_nodup : ∀ {E : List (Nat × Nat)}, (E.map Prod.fst).Nodup → ∀ p ∈ E,
    E.find? (fun q => q.1 == p.1) = some p
  | [], _, p, hp => by cases hp
  | q :: r, hnd, p, hp => by
    simp only [List.map_cons, List.nodup_cons] at hnd
    rcases List.mem_cons.mp hp with h | h
    · subst h; simp [List.find?]
    · have hne : ¬ q.1 = p.1 := fun e => hnd.1 (e ▸ List.mem_map.mpr ⟨p, h, rfl⟩)
      rw [List.find?_cons_of_neg (by simpa using hne)]
      exact find?_self_of_nodup hnd.2 p h

theorem filterMap_find?_self (E : List (Nat × Nat)) : ∀ (l : List (Nat × Nat)),
    (∀ p ∈ l, E.find? (fun q => q.1 == p.1) = some p) →
    (l.map Prod.fst).filterMap (fun id => E.find? (fun q => q.1 == id)) = l
  | [], _ => rfl
  | p :: r, h => by
    simp only [List.map_cons, List.filterMap_cons, h p (List.mem_cons_self ..)]
    rw [filterMap_find?_self E r (fun q hq => h q (List.mem_cons_of_mem _ hq))]

/-- every valid visiting order visits a permutation of the entries -/
theorem visitOrder_perm {E : List (Nat × Nat)} {vs : List Nat} (hv : ValidVisits E vs)
    (hnd : (E.map Prod.fst).Nodup) : (visitOrder E vs).Perm E := by
  have h1 : vs.Perm (E.map Prod.fst) := (List.perm_ext_iff_of_nodup hv.1 hnd).mpr hv.2
  have h2 := h1.filterMap (fun id => E.find? (fun q => q.1 == id))
  rw [filterMap_find?_self E E (find?_self_of_nodup hnd)] at h2
  exact h2

theorem shardEntries_nodup (g : State) (hnd : AMap.NoDup g.ttl) : ((shardEntries g).map Prod.fst).Nodup := by
  unfold shardEntries
  generalize secsOf g.now % g.cfg.shards = shard
  unfold AMap.NoDup at hnd
  generalize g.ttl = t at hnd
  induction t with
  | nil => simp
  | cons p r ih =>
    simp only [List.map_cons, List.nodup_cons] at hnd
    by_cases hp : p.1.1 = shard
    · rw [List.filter_cons_of_pos (by simpa using hp)]
      simp only [List.map_cons, List.nodup_cons]
      refine ⟨?_, ih hnd.2⟩
      intro hmem
      simp only [List.map_map, List.mem_map, List.mem_filter, beq_iff_eq, Function.comp] at hmem
      obtain ⟨q, ⟨hq, hqs⟩, hqid⟩ := hmem
      apply hnd.1
      have : q.1 = p.1 := Prod.ext (hqs.trans hp.symm) hqid
      exact List.mem_map.mpr ⟨q, hq, this⟩
    · rw [List.filter_cons_of_neg (by simpa using hp)]
      exact ih hnd.2

theorem evictId_keep (g : State) (id : Nat) : (evictId g id).sweeperKeep = g.sweeperKeep := by
  rw [evictId_eq]
  split
  · rfl
  · split <;> rfl

theorem foldl_evictId_keep (l : List Nat) : ∀ (g : State), (l.foldl evictId g).sweeperKeep = g.sweeperKeep := by
  induction l with
  | nil => intro g; rfl
  | cons a r ih => intro g; rw [List.foldl_cons, ih, evictId_keep]

/-- **The outcome of the evictions does not depend on the order** (`sweepEntries_perm`): evictions of different ids
    commute (`evictId_comm`), so any two orders of the same ids give the same shared state. -/
theorem sweepEntries_perm {l1 l2 : List Nat} (h : l1.Perm l2) (g : State) :
    l1.foldl evictId g = l2.foldl evictId g :=
  h.foldl_eq' (fun x _ y _ z => evictId_comm z x y) g

theorem dueIds_shardEntries (now shard : Nat) (t : AMap (Nat × Nat) Nat) :
    dueIds now ((t.filter (fun p => p.1.1 == shard)).map (fun p => (p.1.2, p.2))) =
      (t.filter (fun p => p.1.1 == shard && decide (now > p.2))).map (fun p => p.1.2) := by
  unfold dueIds
  induction t with
  | nil => rfl
  | cons p r ih =>
    by_cases hs : p.1.1 = shard
    · by_cases hd : now > p.2
      · rw [List.filter_cons_of_pos (by simpa using hs), List.filter_cons_of_pos (by simp [hs, hd]),
          List.map_cons, List.filter_cons_of_pos (by simpa using hd), List.map_cons, List.map_cons, ih]
      · rw [List.filter_cons_of_pos (by simpa using hs), List.filter_cons_of_neg (by simp [hs, hd]),
          List.map_cons, List.filter_cons_of_neg (by simpa using hd), ih]
    · rw [List.filter_cons_of_neg (by simpa using hs), List.filter_cons_of_neg (by simp [hs]), ih]

/-- with unique keys, the entries the sweep removes from the index are exactly the due ones of the shard -/
theorem any_due_iff (now shard : Nat) (t : AMap (Nat × Nat) Nat) (hnd : AMap.NoDup t) (q : (Nat × Nat) × Nat)
    (hq : q ∈ t) :
    ((t.filter (fun p => p.1.1 == shard)).map (fun p => (p.1.2, p.2))).any
        (fun p => decide (now > p.2) && decide ((shard, p.1) = q.1)) =
      (q.1.1 == shard && decide (now > q.2)) := by
  rw [Bool.eq_iff_iff]
  simp only [List.any_map, List.any_eq_true, List.mem_filter, Function.comp, beq_iff_eq, Bool.and_eq_true,
    decide_eq_true_eq]
  constructor
  · rintro ⟨r, ⟨hr, hrs⟩, hdue, hkey⟩
    have hk : r.1 = q.1 := by rw [← hkey]; exact Prod.ext hrs rfl
    have h1 := AMap.get?_of_mem hnd (a := r.1) (b := r.2) hr
    have h2 := AMap.get?_of_mem hnd (a := q.1) (b := q.2) hq
    rw [hk, h2] at h1
    have h3 : q.2 = r.2 := Option.some.inj h1
    exact ⟨by rw [← hk]; exact hrs, by rw [h3]; exact hdue⟩
  · rintro ⟨hs, hd⟩
    exact ⟨q, ⟨hq, hs⟩, hd, Prod.ext hs.symm rfl⟩

/-- the shared state after a sweep in visiting order `vs` is the one `sweepStep` computes -/
theorem sweep_state_eq (g : State) (vs : List Nat) (hnd : AMap.NoDup g.ttl)
    (hv : ValidVisits (shardEntries g) vs) (g' : State) (out : Out) (hA : sweepStep g = .ok (g', out)) :
    ({ (visitOrder (shardEntries g) vs).foldl (visitG g.now (secsOf g.now % g.cfg.shards)) g with
        sweeperAlive := g.sweeperKeep } : State) = g' := by
  have hP := visitOrder_perm hv (shardEntries_nodup g hnd)
  unfold sweepStep at hA
  split at hA
  · cases hA
  · simp only [Except.ok.injEq, Prod.mk.injEq] at hA
    rw [← hA.1]
    rw [foldl_visitG_eq, sweepEntries_eq, foldl_evictId_keep, foldl_evictId_ttl]
    have h1 : (dueIds g.now (visitOrder (shardEntries g) vs)).foldl evictId g =
        ((g.ttl.filter (fun p => p.1.1 == secsOf g.now % g.cfg.shards && decide (g.now > p.2))).map
          (fun p => p.1.2)).foldl evictId g := by
      rw [← dueIds_shardEntries]
      exact sweepEntries_perm ((hP.filter _).map _) g
    have h2 : (visitOrder (shardEntries g) vs).foldl (visitTtl g.now (secsOf g.now % g.cfg.shards)) g.ttl =
        g.ttl.filter (fun p => !(p.1.1 == secsOf g.now % g.cfg.shards && decide (g.now > p.2))) := by
      rw [foldl_visitTtl_eq]
      apply List.filter_congr
      intro q hq
      rw [hP.any_eq]
      exact congrArg _ (any_due_iff g.now _ g.ttl hnd q hq)
    rw [h1, h2]
    simp only [foldl_evictId_keep]

/-- Layer B alone: one sweep from `.begin` back to `.begin` in visiting order `vs` folds `visitG` over the entries
    in that order. -/
theorem sweeper_run (g : State) (w : WPc) (cl : List CPc) (res : List (List Out)) (ss : List (Nat × Nat)) (vs : List Nat) (n : Nat)
    (halive : g.sweeperAlive = true) (hv : ValidVisits (shardEntries g) vs)
    (hn : 4 * (shardEntries g).length + 2 ≤ n) :
    sweeperRun n ⟨g, w, .begin, cl, res, none, none, [], ss⟩ vs =
      .ok ⟨{ (visitOrder (shardEntries g) vs).foldl (visitG g.now (secsOf g.now % g.cfg.shards)) g with
              sweeperAlive := g.sweeperKeep }, w, .begin, cl, res, none, none, [], ss⟩ := by
  obtain ⟨m, rfl⟩ : ∃ m, n = m + 1 := ⟨n - 1, by omega⟩
  rw [sweeperRun_other _ _ _ (by simp) (by simp)]
  simp only [sweeperAct, halive, Bool.not_true, Bool.false_eq_true, if_false]
  exact sweep_entries_run w cl res ss g.now _ vs (shardEntries g) g .begin m hv (by omega)

/-- **Sweeper (item 2), full permutation statement.** For EVERY visiting order `vs` that visits each entry of the
    shard (due or not) exactly once, the non-preempted Layer B sweep ends in exactly the shared state of Layer A's
    `sweepStep` (which processes the entries in list order) — so the outcome of a sweep does not depend on the
    hash map's iteration order. `hnd`: the expiry index has unique keys (an invariant of reachable states;
    without it Layer B's `ttl.del` and Layer A's `filter` differ on duplicated keys). -/
theorem sweeper_refines (b : BState) (vs : List Nat) (fuel : Nat)
    (hsw : b.sw = .begin) (hwu : b.wuOwner = none) (httl : b.ttlOwner = none) (hsr : b.storeReaders = [])
    (hnd : AMap.NoDup b.g.ttl) (hv : ValidVisits (shardEntries b.g) vs)
    (hfuel : 4 * (shardEntries b.g).length + 2 ≤ fuel) :
    match sweepStep b.g with
    | .ok (g', _) => sweeperRun fuel b vs = .ok { b with g := g' }
    | .error _ => ∃ m, sweeperRun fuel b vs = .error m := by
  obtain ⟨g, w, sw, cl, res, wu, tt, sr, ss⟩ := b
  simp only at hsw hwu httl hsr hnd hv hfuel
  subst hsw hwu httl hsr
  by_cases halive : g.sweeperAlive = true
  · have hrun := sweeper_run g w cl res ss vs fuel halive hv hfuel
    cases hA : sweepStep g with
    | error m => simp [sweepStep, halive] at hA
    | ok r =>
      obtain ⟨g', out⟩ := r
      simp only []
      rw [hrun, sweep_state_eq g vs hnd hv g' out hA]
  · obtain ⟨m, rfl⟩ : ∃ m, fuel = m + 1 := ⟨fuel - 1, by omega⟩
    simp [sweepStep, halive, sweeperRun, sweeperAct]

/-- Non-vacuity: a shard with two due entries and one that is not due; both visiting orders of the three ids are
    valid, the index has unique keys, and both orders end in the state of `sweepStep`. The stored values carry the
    deadlines the index has (since fix 1 the sweeper looks at them: with `exG`'s store, whose values have no deadline,
    nothing is evicted — `exSStale` below). -/
def exS : State :=
  { exG with now := 5 * nsPerSec,
             store := [(101, ⟨1, 1, some 20, false⟩), (102, ⟨2, 2, some 10, false⟩), (103, ⟨3, 3, some (9 * nsPerSec), false⟩)],
             ttl := [((1, 2), 10), ((1, 1), 20), ((1, 3), 9 * nsPerSec), ((2, 7), 5)] }

example :
    (shardEntries exS = [(2, 10), (1, 20), (3, 9 * nsPerSec)]) ∧
    (match sweeperRun 14 { g := exS, cl := [] } [3, 1, 2], sweepStep exS with
      | .ok b', .ok (g', .swept ev) => some (gview b'.g == gview g', b'.sw matches .begin, ev)
      | _, _ => none) = some (true, true, [(2, 102, 4), (1, 101, 2)]) ∧
    (match sweeperRun 14 { g := exS, cl := [] } [2, 1, 3], sweepStep exS with
      | .ok b', .ok (g', _) => some (gview b'.g == gview g', b'.g.ttl)
      | _, _ => none) = some (true, [((1, 3), 9 * nsPerSec), ((2, 7), 5)]) := by
  decide

/-- The state this example used before fix 1: the same index over `exG`'s store, whose values have NO deadline (the
    index entries of ids 2 and 1 are stale — what an upsert that removed the deadline leaves behind until its
    `ttl.delete` runs). Before the fix both layers evicted keys 102 and 101 here; now the re-validation
    (`unexpiredWithId`) makes both layers leave them: nothing is evicted, the store and the charges are as they were,
    only the two due index entries go — and the two layers still agree, for both visiting orders. -/
def exSStale : State := { exS with store := exG.store }

example :
    (shardEntries exSStale = [(2, 10), (1, 20), (3, 9 * nsPerSec)]) ∧
    (match sweeperRun 14 { g := exSStale, cl := [] } [3, 1, 2], sweepStep exSStale with
      | .ok b', .ok (g', .swept ev) =>
        some (gview b'.g == gview g', b'.sw matches .begin, ev.length,
          gview g' == { gview exSStale with ttl := [((1, 3), 9 * nsPerSec), ((2, 7), 5)] })
      | _, _ => none) = some (true, true, 0, true) ∧
    (match sweeperRun 14 { g := exSStale, cl := [] } [2, 1, 3], sweepStep exSStale with
      | .ok b', .ok (g', _) => some (gview b'.g == gview g', b'.g.ttl)
      | _, _ => none) = some (true, [((1, 3), 9 * nsPerSec), ((2, 7), 5)]) := by
  decide

/-- the hypotheses of `evictId_skip` hold of `exSStale` and id 2 (charged, its stored value has no deadline); those of
    `unexpired_after_evict` / `evictId_kw_other` are only `a ≠ b` -/
example :
    exSStale.adm.kw.get? 2 = some ⟨102, 12, 4⟩ ∧ unexpiredWithId exSStale 102 2 = true ∧
    unexpiredWithId exS 102 2 = false ∧ gview (evictId exSStale 2) = gview exSStale ∧
    gview (evictId exS 2) ≠ gview exS := by
  decide

/-- `evictId_comm` / `unexpired_after_evict` need no hypothesis on the keys: here two charged ids share a key (id 2's
    charge names key 101 — a state no run reaches), the store entry of that key carries id 1 and has expired; the
    hooks for 1 and 2 commute, and the check for 1 is the same before and after the hook for 2. -/
example :
    let g : State := { exS with adm := { exS.adm with kw := [(1, ⟨101, 11, 2⟩), (2, ⟨101, 12, 4⟩), (3, ⟨103, 13, 3⟩)] } }
    gview (evictId (evictId g 1) 2) = gview (evictId (evictId g 2) 1) ∧
    unexpiredWithId (evictId g 2) 101 1 = unexpiredWithId g 101 1 ∧
    (evictId (evictId g 1) 2).store.contains 101 = false ∧ (evictId (evictId g 1) 2).adm.kw.length = 1 := by
  decide

/-! ### what `.parked` means -/

def isParked : Out → Bool
  | .parked => true
  | _ => false

/-- a Layer A result that, IF it is `.parked`, comes from a send of client `c` at a full queue -/
def ParkedOK (c : Nat) (x : State × Out) : Prop :=
  isParked x.2 = true →
    ∃ cmd, x.1.pend.get? c = some (.send cmd) ∧ x.1.worker ≠ .dead ∧ x.1.queue.length ≥ x.1.cfg.cmdCap

theorem sendCmd_parkedOK (s : State) (c : Nat) (cmd : Cmd) : ParkedOK c (sendCmd s c cmd) := by
  unfold sendCmd
  split
  · intro h; simp [isParked] at h
  · split
    · rename_i hd hf
      intro _
      exact ⟨cmd, by simp, hd, hf⟩
    · intro h; simp [isParked] at h

theorem upTailA_parkedOK (s : State) (c id : Nat) (uw : Option Int) : ParkedOK c (upTailA s c id uw) := by
  unfold upTailA
  split
  · split
    · intro h; simp [isParked] at h
    · split
      · intro h; simp [isParked] at h
      · exact sendCmd_parkedOK _ _ _
  · intro h; simp [isParked, spotAck] at h

/-- a Layer A result that, IF it is `.parked`, comes from one of the two sends of `shutdown()` of client `c`:
    of `Shutdown` at a full command queue, or of `BufferEvent::Shutdown` at a full buffer queue -/
def ParkedShut (c : Nat) (x : State × Out) : Prop :=
  isParked x.2 = true →
    (x.1.pend.get? c = some .shutdownCmd ∧ x.1.worker ≠ .dead ∧ x.1.queue.length ≥ x.1.cfg.cmdCap) ∨
    (x.1.pend.get? c = some .shutdownBuf ∧ x.1.consumerAlive = true ∧ x.1.bufq.length ≥ x.1.cfg.bufChanCap)

theorem shutdownSendBuf_parkedShut (s : State) (c : Nat) : ParkedShut c (shutdownSendBuf s c) := by
  unfold shutdownSendBuf
  split
  · intro h; simp [isParked] at h
  · split
    · rename_i hc hf
      intro _
      exact Or.inr ⟨by simp, by simpa using hc, hf⟩
    · intro h; simp [isParked] at h

theorem shutdownSendCmd_parkedShut (s : State) (c : Nat) : ParkedShut c (shutdownSendCmd s c) := by
  unfold shutdownSendCmd
  split
  · exact shutdownSendBuf_parkedShut _ _
  · split
    · rename_i hd hf
      intro _
      exact Or.inl ⟨by simp, hd, hf⟩
    · exact shutdownSendBuf_parkedShut _ _

/-- **`.parked` of a Layer A `shutdown` = the Layer B client at `.shutSendCmd` with the command queue full, or at
    `.shutSendBuf` with the buffer queue full** (`afterCall`/`pcOfPending` put the client there; it is not enabled). -/
theorem parked_is_shutdown_send (g : State) (c : Nat) (o : Oracle) (g' : State) (out : Out) (o' : Oracle)
    (h : step g (.shutdown c) o = .ok (g', out, o')) : ParkedShut c (g', out) := by
  simp only [step, clientShutdown, Except.ok.injEq, Prod.mk.injEq] at h
  rw [← h.1, ← h.2.1]
  split
  · intro h; simp [isParked] at h
  · exact shutdownSendCmd_parkedShut _ _

/-- **`.parked` in Layer A = the Layer B client at `.send cmd` with the queue full**: whenever a covered client call
    other than `shutdown` (for which see `parked_is_shutdown_send`) returns `.parked`, Layer A has recorded
    `pend[c] = .send cmd` (so `afterCall` puts the Layer B client at `.send cmd`), the worker is alive and the queue is
    full (so that client is indeed not enabled). `hr` is new only because `Req` has grown: for the five requests the
    theorem was stated for before (and for `getRef`) it is the old statement. -/
theorem parked_is_send (g : State) (c : Nat) (r : Req) (o : Oracle) (g' : State) (out : Out) (o' : Oracle)
    (hr : r ≠ .shutdown)
    (h : step g (reqEv c r) o = .ok (g', out, o')) : ParkedOK c (g', out) := by
  cases r with
  | shutdown => exact absurd rfl hr
  | mget ks iter =>
    simp only [reqEv, step, clientMultiGet] at h
    split at h
    · simp only [Except.ok.injEq, Prod.mk.injEq] at h; rw [← h.2.1]; intro h; simp [isParked] at h
    · split at h
      · simp only [Except.ok.injEq, Prod.mk.injEq] at h; rw [← h.2.1]; intro h; simp [isParked] at h
      · cases h
  | getRef k =>
    simp only [reqEv, step, clientGet] at h
    split at h
    · simp only [Except.ok.injEq, Prod.mk.injEq] at h; rw [← h.2.1]; intro h; simp [isParked] at h
    · split at h
      · simp only [Except.ok.injEq, Prod.mk.injEq] at h; rw [← h.2.1]; intro h; simp [isParked] at h
      · cases h
  | putW k v w ttl =>
    have : (g', out) = (if g.shutting then (g, Out.err) else if w ≤ 0 then (g, .panic .weightNotPositive)
            else clientPutChecked g c k v w ttl) := by
      cases ttl <;> simp only [reqEv, step, clientPutW, clientPutWTtl, Except.ok.injEq, Prod.mk.injEq] at h <;>
        exact Prod.ext h.1.symm h.2.1.symm
    rw [this]
    split
    · intro h; simp [isParked] at h
    · split
      · intro h; simp [isParked] at h
      · unfold clientPutChecked
        split
        · intro h; simp [isParked, spotAck] at h
        · simp only []
          split <;> exact sendCmd_parkedOK _ _ _
  | delete k =>
    simp only [reqEv, step, clientDelete, Except.ok.injEq, Prod.mk.injEq] at h
    rw [← h.1, ← h.2.1]
    split
    · intro h; simp [isParked] at h
    · exact sendCmd_parkedOK _ _ _
  | get k =>
    simp only [reqEv, step, clientGet] at h
    split at h
    · simp only [Except.ok.injEq, Prod.mk.injEq] at h; rw [← h.2.1]; intro h; simp [isParked] at h
    · split at h
      · simp only [Except.ok.injEq, Prod.mk.injEq] at h; rw [← h.2.1]; intro h; simp [isParked] at h
      · cases h
  | weight =>
    simp only [reqEv, step, Except.ok.injEq, Prod.mk.injEq] at h
    rw [← h.2.1]; intro h; simp [isParked] at h
  | upsert k v w ttl rm =>
    clear hr
    simp only [reqEv, step, Except.ok.injEq, Prod.mk.injEq] at h
    rw [← h.1, ← h.2.1]
    clear h
    show ParkedOK c (clientUpsert g c k v w ttl rm)
    unfold clientUpsert
    by_cases hs : g.shutting = true
    · simp only [if_pos hs]; intro h; simp [isParked] at h
    · simp only [if_neg hs]
      cases hk : g.store.get? k with
      | none =>
        simp only []
        cases v with
        | none => cases w <;> (intro h; simp [isParked] at h)
        | some val =>
          cases w with
          | some x =>
            simp only []
            split
            · intro h; simp [isParked] at h
            · cases ttl <;> exact sendCmd_parkedOK _ _ _
          | none =>
            simp only [Option.map]
            split
            · intro h; simp [isParked] at h
            · cases ttl <;> exact sendCmd_parkedOK _ _ _
      | some e =>
        have key : ∀ ne : Option Nat,
            ParkedOK c (upTailA (upIndexA { g with store := g.store.set k { e with expiry := ne, value := v.getD e.value } }
                e.id (match w with | some x => some x | none => v.map (fun val => g.cfg.weightOf val ttl.isSome))
                e.expiry ne).1 c e.id
              (upIndexA { g with store := g.store.set k { e with expiry := ne, value := v.getD e.value } }
                e.id (match w with | some x => some x | none => v.map (fun val => g.cfg.weightOf val ttl.isSome))
                e.expiry ne).2) := fun ne => upTailA_parkedOK _ _ _ _
        cases rm with
        | true => exact key none
        | false =>
          simp only [Bool.false_eq_true, if_false]
          cases ttl with
          | none => exact key e.expiry
          | some t =>
            simp only []
            cases addTime g.now t with
            | none => intro h; simp [isParked] at h
            | some x => exact key (some x)

/-- **Uniformly: a parked Layer A call is a Layer B client that is not enabled.** Whatever the request, if Layer A
    answers `.parked`, the Layer B client `afterCall` describes stands at one of its blocking sends with that queue
    full (`parkedAt`), i.e. `clientAct` is not enabled for it and `clientRun` stops there. -/
theorem parked_not_enabled (b : BState) (i : Nat) (r : Req) (o : Oracle) (g' : State) (out : Out) (o' : Oracle)
    (hi : i < b.cl.length) (h : step b.g (reqEv i r) o = .ok (g', out, o')) (hp : isParked out = true) :
    parkedAt (afterCall b i g' out) i = true := by
  have hout : out = .parked := by cases out <;> simp [isParked] at hp ⊢
  subst hout
  have key : (∃ cmd, g'.pend.get? i = some (.send cmd) ∧ g'.worker ≠ .dead ∧ g'.queue.length ≥ g'.cfg.cmdCap) ∨
      (g'.pend.get? i = some .shutdownCmd ∧ g'.worker ≠ .dead ∧ g'.queue.length ≥ g'.cfg.cmdCap) ∨
      (g'.pend.get? i = some .shutdownBuf ∧ g'.consumerAlive = true ∧ g'.bufq.length ≥ g'.cfg.bufChanCap) := by
    cases r with
    | shutdown => exact Or.inr (parked_is_shutdown_send _ _ _ _ _ _ h rfl)
    | putW k v w t => exact Or.inl (parked_is_send _ _ _ _ _ _ _ (fun e => by cases e) h rfl)
    | delete k => exact Or.inl (parked_is_send _ _ _ _ _ _ _ (fun e => by cases e) h rfl)
    | get k => exact Or.inl (parked_is_send _ _ _ _ _ _ _ (fun e => by cases e) h rfl)
    | weight => exact Or.inl (parked_is_send _ _ _ _ _ _ _ (fun e => by cases e) h rfl)
    | upsert k v w t rm => exact Or.inl (parked_is_send _ _ _ _ _ _ _ (fun e => by cases e) h rfl)
    | getRef k => exact Or.inl (parked_is_send _ _ _ _ _ _ _ (fun e => by cases e) h rfl)
    | mget ks iter => exact Or.inl (parked_is_send _ _ _ _ _ _ _ (fun e => by cases e) h rfl)
  rcases key with ⟨cmd, h1, h2, h3⟩ | ⟨h1, h2, h3⟩ | ⟨h1, h2, h3⟩
  · simp [parkedAt, afterCall, hi, h1, pcOfPending, h2, h3]
  · simp [parkedAt, afterCall, hi, h1, pcOfPending, h2, h3]
  · simp [parkedAt, afterCall, hi, h1, pcOfPending, h2, h3]

/-! ### `resume`: a parked call continues from the send it stands at -/

theorem afterCall_set (g0 g1 : State) (w : WPc) (sw : SPc) (cl : List CPc) (res : List (List Out)) (wu : Option Tid)
    (tt : Option Nat) (sr ss : List (Nat × Nat)) (i : Nat) (pc : CPc) (g' : State) (out : Out) (hp : g0.pend = g1.pend) :
    afterCall ⟨g0, w, sw, cl.set i pc, res, wu, tt, sr, ss⟩ i g' out =
      afterCall ⟨g1, w, sw, cl, res, wu, tt, sr, ss⟩ i g' out := by
  cases out <;> simp [afterCall, List.set_set, hp]

/-- **A parked Layer A call followed by `resume` = the Layer B client going on from the send it stands at.**
    `s` is a Layer A state in which the call of client `i` is parked (`pend[i] = p`), `b` a Layer B state with the same
    shared state (up to the `pend` entry, which Layer B does not keep: `hg`) in which client `i` stands at the
    corresponding send (`hpc`: `.send cmd` / `.shutSendCmd` / `.shutSendBuf`), nobody else in the middle of anything.
    Then `resume s i` is legal exactly if that client is enabled, and running it alone gives Layer A's result —
    completed (`shutdownFinish` applied for a `shutdown`), or parked again at the second send of `shutdown`.
    If `resume` is not legal (the queue is still full) the Layer B client is not enabled and `clientRun` does nothing. -/
theorem resume_refines (b : BState) (i : Nat) (s : State) (p : Pending) (o : Oracle) (fuel : Nat)
    (hwu : b.wuOwner = none) (httl : b.ttlOwner = none) (hsr : b.storeReaders = [])
    (hp : s.pend.get? i = some p) (hg : b.g = { s with pend := s.pend.del i })
    (hpc : b.cl[i]? = some (pcOfPending (some p))) (hf : 12 ≤ fuel) :
    match resume s i with
    | .ok r => clientRun fuel b i o = .ok (afterCall b i r.1 r.2, o)
    | .error _ => parkedAt b i = true ∧ clientRun fuel b i o = .ok (b, o) := by
  obtain ⟨g, w, sw, cl, res, wu, tt, sr, ss⟩ := b
  simp only at hwu httl hsr hg hpc
  subst hwu httl hsr hg
  obtain ⟨hi, heq⟩ := List.getElem?_eq_some_iff.mp hpc
  have hcl : cl.set i (pcOfPending (some p)) = cl := by rw [← heq]; exact List.set_getElem_self _
  obtain ⟨n, rfl⟩ : ∃ n, fuel = n + 12 := ⟨fuel - 12, by omega⟩
  clear hpc heq
  rw [← hcl]
  simp only [resume, hp]
  cases p with
  | send cmd =>
    simp only [pcOfPending]
    by_cases hd : s.worker = .dead
    · rw [if_neg (by simp [hd])]
      simp only []
      rw [afterCall_set (hp := rfl)]
      exact send_agree _ _ w sw cl res ss none none [] i cmd o (n + 10) hi rfl
    · by_cases hfull : s.queue.length ≥ s.cfg.cmdCap
      · rw [if_pos (by simp [hd, hfull])]
        simp only []
        have hpk : parkedAt ⟨{ s with pend := s.pend.del i }, w, sw, cl.set i (.send cmd), res, none, none, [], ss⟩ i = true := by
          simp [parkedAt, hi, hd, hfull]
        exact ⟨hpk, clientRun_parked _ _ _ _ hpk⟩
      · rw [if_neg (by simp [hfull])]
        simp only []
        rw [afterCall_set (hp := rfl)]
        exact send_agree _ _ w sw cl res ss none none [] i cmd o (n + 10) hi rfl
  | shutdownCmd =>
    simp only [pcOfPending]
    by_cases hd : s.worker = .dead
    · rw [if_neg (by simp [hd])]
      simp only []
      rw [afterCall_set (hp := rfl)]
      exact run_shutSendCmd _ _ w sw cl res ss i o (n + 1) hi rfl
    · by_cases hfull : s.queue.length ≥ s.cfg.cmdCap
      · rw [if_pos (by simp [hd, hfull])]
        simp only []
        have hpk : parkedAt ⟨{ s with pend := s.pend.del i }, w, sw, cl.set i .shutSendCmd, res, none, none, [], ss⟩ i = true := by
          simp [parkedAt, hi, hd, hfull]
        exact ⟨hpk, clientRun_parked _ _ _ _ hpk⟩
      · rw [if_neg (by simp [hfull])]
        simp only []
        rw [afterCall_set (hp := rfl)]
        exact run_shutSendCmd _ _ w sw cl res ss i o (n + 1) hi rfl
  | shutdownBuf =>
    simp only [pcOfPending]
    by_cases hc : s.consumerAlive = true
    · by_cases hfull : s.bufq.length ≥ s.cfg.bufChanCap
      · rw [if_pos (by simp [hc, hfull])]
        simp only []
        have hpk : parkedAt ⟨{ s with pend := s.pend.del i }, w, sw, cl.set i .shutSendBuf, res, none, none, [], ss⟩ i = true := by
          simp [parkedAt, hi, hc, hfull]
        exact ⟨hpk, clientRun_parked _ _ _ _ hpk⟩
      · rw [if_neg (by simp [hfull])]
        simp only []
        rw [afterCall_set (hp := rfl)]
        exact run_shutSendBuf _ _ w sw cl res ss i o (n + 2) hi rfl
    · rw [if_neg (by simp [hc])]
      simp only []
      rw [afterCall_set (hp := rfl)]
      exact run_shutSendBuf _ _ w sw cl res ss i o (n + 2) hi rfl

theorem amap_set_del_absent {α β : Type} [DecidableEq α] (m : AMap α β) (a : α) (x : β) (h : m.get? a = none) :
    (m.set a x).del a = m := by
  simp [AMap.set, AMap.del, amap_del_absent _ _ h]

/-- a parked `shutdown` has recorded exactly one new `pend` entry, for the caller -/
theorem shutdown_parked_pend (g : State) (c : Nat) (o : Oracle) (g' : State) (o' : Oracle)
    (h : step g (.shutdown c) o = .ok (g', .parked, o')) :
    g'.pend = g.pend.set c .shutdownCmd ∨ g'.pend = g.pend.set c .shutdownBuf := by
  simp only [step, clientShutdown, Except.ok.injEq, Prod.mk.injEq] at h
  obtain ⟨h1, h2, _⟩ := h
  split at h1
  · rename_i hs; rw [if_pos hs] at h2; cases h2
  · rename_i hs
    rw [if_neg hs] at h2
    revert h1 h2
    unfold shutdownSendCmd shutdownSendBuf
    simp only []
    repeat' split
    all_goals intro h1 h2
    all_goals first
      | (cases h1; done)
      | (rw [← h2]; exact Or.inl rfl)
      | (rw [← h2]; exact Or.inr rfl)

/-! ### non-vacuity for the clients -/

def pcCmd : CPc → Option Cmd
  | .send c => some c
  | _ => none

/-- `exG` with a full command queue -/
def exFull : State :=
  { exG with queue := [(.delete 1, none), (.delete 2, none), (.delete 3, none), (.delete 4, none)] }

/-- A put at a full queue: Layer A answers `.parked` and records `pend[0] = send (put 5 …)`; the Layer B client stops at
    `.send (put 5 …)` with the id already taken (`nextId = 6`) and everything else unchanged. -/
def exBFull : BState := { g := exFull, cl := [.idle], res := [[]] }
def exB2 : BState := { g := exG, cl := [.idle, .idle], res := [[], []] }

example :
    (0 < exBFull.cl.length ∧ exBFull.wuOwner = none ∧ exBFull.ttlOwner = none) ∧
    (match step exFull (.putW 0 200 9 3) {} with
      | .ok (g', out, _) => some (isParked out, g'.pend.get? 0, g'.nextId)
      | _ => none) = some (true, some (.send (.put 5 200 3 200 9)), 6) ∧
    (match clientRun 8 (setClient exBFull 0 (.start (.putW 200 9 3 none))) 0 {} with
      | .ok (b', _) => some ((b'.cl[0]?).bind pcCmd, b'.g.nextId, b'.g.pend, gview b'.g == gview exFull)
      | _ => none) = some (some (.put 5 200 3 200 9), 6, [], true) := by
  decide

/-- An upsert that gives key 101 a TTL (index entry added, weight update sent) and a hit: Layer B alone = Layer A. -/
example :
    (match clientRun 8 (setClient exB2 1 (.start (.upsert 101 (some 7) none (some 50) false))) 1 {},
           step exG (.upsert 1 101 (some 7) none (some 50) false) {} with
      | .ok (b', _), .ok (g', .ack h _, _) => some (gview b'.g == gview g', b'.g.ttl, h)
      | _, _ => none) = some (true, [((0, 1), 1050)], 1) ∧
    (match clientRun 8 (setClient exB2 1 (.start (.upsert 101 (some 7) none (some 50) false))) 1 {},
           step exG (.upsert 1 101 (some 7) none (some 50) false) {} with
      | .ok (b', _), .ok (_, .ack _ st, _) => some (st, (b'.g.queue.getLast?).map (·.1), (b'.cl[1]?).bind pcCmd)
      | _, _ => none) = some (.pending, some (.updateWeight 1 25), none) := by
  decide

example :
    (match clientRun 8 (setClient exB2 0 (.start (.get 102))) 0 { pool := [0] }, step exG (.get 102) { pool := [0] } with
      | .ok (b', o1), .ok (g', .value v, o2) => some (gview b'.g == gview g', b'.g.pool, v, o1.isEmpty && o2.isEmpty)
      | _, _ => none) = some (true, [[102]], some 2, true) := by
  decide

/-- A multi-key read of a stored key, an absent key and another stored key (`multi_get` and the iterator): Layer B
    alone = Layer A's `.multiGet` — same state, `[Some(2), None, Some(3)]`, two pool indices consumed; 15 iterations
    (`4·3 + 3`) suffice for both; `multi_get` needs 11 (the run is `start, load; 102: load+store+pool, 7: load+store,
    103: load+store+pool`, then the idle test: 10 do not suffice), the iterator 13 (one more load per key). -/
example :
    (match clientRun 15 (setClient exB2 0 (.start (.mget [102, 7, 103] false))) 0 { pool := [0, 0] },
           step exG (.multiGet [102, 7, 103]) { pool := [0, 0] } with
      | .ok (b', o1), .ok (g', .values vs, o2) =>
        some (gview b'.g == gview g', b'.g.pool, vs, b'.res[0]?.map (·.length), o1.isEmpty && o2.isEmpty)
      | _, _ => none) = some (true, [[102, 103]], [some 2, none, some 3], some 1, true) ∧
    (match clientRun 15 (setClient exB2 0 (.start (.mget [102, 7, 103] true))) 0 { pool := [0, 0] },
           clientRun 15 (setClient exB2 0 (.start (.mget [102, 7, 103] false))) 0 { pool := [0, 0] } with
      | .ok (b1, _), .ok (b2, _) => gview b1.g == gview b2.g &&
          (match b1.res[0]?, b2.res[0]? with
           | some [Out.values v1], some [Out.values v2] => v1 == v2
           | _, _ => false)
      | _, _ => false) = true ∧
    (match clientRun 10 (setClient exB2 0 (.start (.mget [102, 7, 103] false))) 0 { pool := [0, 0] } with
      | .error m => m == "fuel exhausted"
      | _ => false) = true ∧
    (match clientRun 11 (setClient exB2 0 (.start (.mget [102, 7, 103] false))) 0 { pool := [0, 0] },
           clientRun 12 (setClient exB2 0 (.start (.mget [102, 7, 103] true))) 0 { pool := [0, 0] },
           clientRun 13 (setClient exB2 0 (.start (.mget [102, 7, 103] true))) 0 { pool := [0, 0] } with
      | .ok _, .error m, .ok _ => m == "fuel exhausted"
      | _, _, _ => false) = true ∧
    reqFuel (.mget [102, 7, 103] false) = 15 := by
  decide

/-- the hypotheses of `sweeper_refines` hold of the example state and the visiting order `[3, 1, 2]` -/
example : AMap.NoDup exS.ttl ∧ ValidVisits (shardEntries exS) [3, 1, 2] ∧ exS.sweeperAlive = true := by
  have h : shardEntries exS = [(2, 10), (1, 20), (3, 9 * nsPerSec)] := by decide
  refine ⟨by unfold AMap.NoDup; decide, ⟨by decide, ?_⟩, rfl⟩
  intro id
  rw [h]
  simp only [List.map_cons, List.map_nil, List.mem_cons, List.not_mem_nil, or_false]
  omega

/-! ## 5  every Layer A step is a Layer B run -/

/-- executes a list of Layer B actions -/
def runActs : BState → List Act → Oracle → Except String (BState × Oracle)
  | b, [], o => .ok (b, o)
  | b, a :: as, o =>
    match stepB b a o with
    | .error m => .error m
    | .ok (b', o') => runActs b' as o'

theorem runActs_worker : ∀ (n : Nat) (b : BState) (o : Oracle) (b' : BState) (o' : Oracle),
    workerRun n b o = .ok (b', o') → ∃ k, runActs b (List.replicate k .worker) o = .ok (b', o')
  | 0, _, _, _, _, h => by simp [workerRun] at h
  | n + 1, b, o, b', o', h => by
    simp only [workerRun] at h
    cases hact : workerAct b o with
    | error m => simp [hact] at h
    | ok r =>
      obtain ⟨b1, o1⟩ := r
      simp only [hact] at h
      by_cases hh : b1.w.atHead = true
      · simp only [hh, if_true, Except.ok.injEq, Prod.mk.injEq] at h
        refine ⟨1, ?_⟩
        simp [runActs, stepB, hact, h.1, h.2]
      · simp only [hh, if_false] at h
        obtain ⟨k, hk⟩ := runActs_worker n b1 o1 b' o' h
        refine ⟨k + 1, ?_⟩
        simp [List.replicate, runActs, stepB, hact, hk]

theorem runActs_client : ∀ (n : Nat) (b : BState) (i : Nat) (o : Oracle) (b' : BState) (o' : Oracle),
    clientRun n b i o = .ok (b', o') → ∃ k, runActs b (List.replicate k (.client i)) o = .ok (b', o')
  | 0, _, _, _, _, _, h => by simp [clientRun] at h
  | n + 1, b, i, o, b', o', h => by
    have key : (b = b' ∧ o = o') ∨
        ∃ b1 o1, clientAct b i o = .ok (b1, o1) ∧ clientRun n b1 i o1 = .ok (b', o') := by
      simp only [clientRun] at h
      split at h
      · simp only [Except.ok.injEq, Prod.mk.injEq] at h; exact Or.inl h
      · split at h
        · simp only [Except.ok.injEq, Prod.mk.injEq] at h; exact Or.inl h
        · split at h
          · cases h
          · rename_i b1 o1 hact; exact Or.inr ⟨b1, o1, hact, h⟩
    rcases key with ⟨rfl, rfl⟩ | ⟨b1, o1, hact, hrest⟩
    · exact ⟨0, rfl⟩
    · obtain ⟨k, hk⟩ := runActs_client n b1 i o1 b' o' hrest
      refine ⟨k + 1, ?_⟩
      simp [List.replicate, runActs, stepB, hact, hk]

theorem runActs_sweeper : ∀ (n : Nat) (b : BState) (vs : List Nat) (o : Oracle) (b' : BState),
    sweeperRun n b vs = .ok b' → ∃ acts, runActs b acts o = .ok (b', o)
  | 0, _, _, _, _, h => by simp [sweeperRun] at h
  | n + 1, b, vs, o, b', h => by
    have key : (∃ v, sweeperAct b v = .ok b') ∨
        ∃ v b1 vs1, sweeperAct b v = .ok b1 ∧ sweeperRun n b1 vs1 = .ok b' := by
      unfold sweeperRun at h
      split at h
      · split at h
        · exact Or.inl ⟨none, h⟩
        · cases h
      · split at h
        · cases h
        · split at h
          · cases h
          · rename_i v vs' _ b1 hact; exact Or.inr ⟨some v, b1, vs', hact, h⟩
      · split at h
        · cases h
        · rename_i b1 hact; exact Or.inr ⟨none, b1, vs, hact, h⟩
    rcases key with ⟨v, hact⟩ | ⟨v, b1, vs1, hact, hrest⟩
    · exact ⟨[.sweeper v], by simp [runActs, stepB, hact]⟩
    · obtain ⟨acts, hk⟩ := runActs_sweeper n b1 vs1 o b' hrest
      exact ⟨.sweeper v :: acts, by simp [runActs, stepB, hact, hk]⟩

theorem sendCmd_worker (s : State) (c : Nat) (cmd : Cmd) : (sendCmd s c cmd).1.worker = s.worker := by
  unfold sendCmd; split
  · rfl
  · split <;> rfl

theorem upTailA_worker (s : State) (c id : Nat) (uw : Option Int) : (upTailA s c id uw).1.worker = s.worker := by
  unfold upTailA
  split
  · split
    · rfl
    · split
      · rfl
      · exact sendCmd_worker _ _ _
  · rfl

theorem upIndexA_worker (s : State) (id : Nat) (uw : Option Int) (old new : Option Nat) :
    (upIndexA s id uw old new).1.worker = s.worker := by
  unfold upIndexA
  simp only []
  split <;> rfl

theorem poolAdd_worker (s : State) (h : Nat) (o : Oracle) (s2 : State) (o' : Oracle)
    (hp : poolAdd s h o = .ok (s2, o')) : s2.worker = s.worker := by
  unfold poolAdd at hp
  split at hp
  · cases hp
  · split at hp
    · cases hp
    · simp only [Except.ok.injEq, Prod.mk.injEq] at hp
      rw [← hp.1]
      simp only []
      split
      · simp only [acceptBuffer]; split <;> rfl
      · rfl

theorem readKey_worker (s : State) (k : Nat) (o : Oracle) (s1 : State) (v : Option Nat) (o1 : Oracle)
    (hr : readKey s k o = .ok (s1, v, o1)) : s1.worker = s.worker := by
  unfold readKey at hr
  split at hr
  · split at hr
    · simp only [] at hr
      split at hr
      · rename_i s2 o2 hp
        simp only [Except.ok.injEq, Prod.mk.injEq] at hr
        rw [← hr.1]
        exact (poolAdd_worker _ _ _ _ _ hp).trans rfl
      · cases hr
    · simp only [Except.ok.injEq, Prod.mk.injEq] at hr; rw [← hr.1]
  · simp only [Except.ok.injEq, Prod.mk.injEq] at hr; rw [← hr.1]

theorem shutdownSendBuf_worker (s : State) (c : Nat) : (shutdownSendBuf s c).1.worker = s.worker := by
  unfold shutdownSendBuf; split
  · rfl
  · split <;> rfl

theorem shutdownSendCmd_worker (s : State) (c : Nat) : (shutdownSendCmd s c).1.worker = s.worker := by
  unfold shutdownSendCmd; split
  · exact shutdownSendBuf_worker _ _
  · split
    · rfl
    · exact (shutdownSendBuf_worker _ _).trans rfl

theorem readKeys_worker : ∀ (ks : List Nat) (s : State) (o : Oracle) (acc : List (Option Nat)) (s1 : State)
    (vs : List (Option Nat)) (o1 : Oracle), readKeys s ks o acc = .ok (s1, vs, o1) → s1.worker = s.worker
  | [], s, o, acc, s1, vs, o1, h => by
    simp only [readKeys, Except.ok.injEq, Prod.mk.injEq] at h; rw [← h.1]
  | k :: ks, s, o, acc, s1, vs, o1, h => by
    simp only [readKeys] at h
    split at h
    · rename_i s2 v o2 hr
      exact (readKeys_worker ks s2 o2 _ s1 vs o1 h).trans (readKey_worker _ _ _ _ _ _ hr)
    · cases h

/-- client calls do not touch the worker's mode -/
theorem step_client_worker (g : State) (c : Nat) (r : Req) (o : Oracle) (g' : State) (out : Out) (o' : Oracle)
    (h : step g (reqEv c r) o = .ok (g', out, o')) : g'.worker = g.worker := by
  cases r with
  | shutdown =>
    simp only [reqEv, step, clientShutdown, Except.ok.injEq, Prod.mk.injEq] at h
    rw [← h.1]
    split
    · rfl
    · exact (shutdownSendCmd_worker _ _).trans rfl
  | mget ks iter =>
    simp only [reqEv, step, clientMultiGet] at h
    split at h
    · simp only [Except.ok.injEq, Prod.mk.injEq] at h; rw [← h.1]
    · split at h
      · rename_i s1 vs o1 hr
        simp only [Except.ok.injEq, Prod.mk.injEq] at h
        rw [← h.1]
        exact readKeys_worker _ _ _ _ _ _ _ hr
      · cases h
  | getRef k =>
    simp only [reqEv, step, clientGet] at h
    split at h
    · simp only [Except.ok.injEq, Prod.mk.injEq] at h; rw [← h.1]
    · split at h
      · rename_i s1 v o1 hr
        simp only [Except.ok.injEq, Prod.mk.injEq] at h
        rw [← h.1]
        exact readKey_worker _ _ _ _ _ _ hr
      · cases h
  | putW k v w ttl =>
    have : g' = (if g.shutting then (g, Out.err) else if w ≤ 0 then (g, .panic .weightNotPositive)
            else clientPutChecked g c k v w ttl).1 := by
      cases ttl <;> simp only [reqEv, step, clientPutW, clientPutWTtl, Except.ok.injEq, Prod.mk.injEq] at h <;>
        exact h.1.symm
    rw [this]
    split
    · rfl
    · split
      · rfl
      · unfold clientPutChecked
        split
        · rfl
        · simp only []
          split <;> exact sendCmd_worker _ _ _
  | delete k =>
    simp only [reqEv, step, clientDelete, Except.ok.injEq, Prod.mk.injEq] at h
    rw [← h.1]
    split
    · rfl
    · exact sendCmd_worker _ _ _
  | get k =>
    simp only [reqEv, step, clientGet] at h
    split at h
    · simp only [Except.ok.injEq, Prod.mk.injEq] at h; rw [← h.1]
    · split at h
      · rename_i s1 v o1 hr
        simp only [Except.ok.injEq, Prod.mk.injEq] at h
        rw [← h.1]
        exact readKey_worker _ _ _ _ _ _ hr
      · cases h
  | weight =>
    simp only [reqEv, step, Except.ok.injEq, Prod.mk.injEq] at h
    rw [← h.1]
  | upsert k v w ttl rm =>
    simp only [reqEv, step, Except.ok.injEq, Prod.mk.injEq] at h
    rw [← h.1]
    clear h
    unfold clientUpsert
    by_cases hs : g.shutting = true
    · simp only [if_pos hs]
    · simp only [if_neg hs]
      cases hk : g.store.get? k with
      | none =>
        simp only []
        cases v with
        | none => cases w <;> rfl
        | some val =>
          cases w with
          | some x =>
            simp only []
            split
            · rfl
            · cases ttl <;> exact sendCmd_worker _ _ _
          | none =>
            simp only [Option.map]
            split
            · rfl
            · cases ttl <;> exact sendCmd_worker _ _ _
      | some e =>
        have key : ∀ ne : Option Nat,
            (upTailA (upIndexA { g with store := g.store.set k { e with expiry := ne, value := v.getD e.value } }
                e.id (match w with | some x => some x | none => v.map (fun val => g.cfg.weightOf val ttl.isSome))
                e.expiry ne).1 c e.id
              (upIndexA { g with store := g.store.set k { e with expiry := ne, value := v.getD e.value } }
                e.id (match w with | some x => some x | none => v.map (fun val => g.cfg.weightOf val ttl.isSome))
                e.expiry ne).2).1.worker = g.worker := fun ne =>
          (upTailA_worker _ _ _ _).trans (upIndexA_worker _ _ _ _ _)
        cases rm with
        | true => exact key none
        | false =>
          simp only [Bool.false_eq_true, if_false]
          cases ttl with
          | none => exact key e.expiry
          | some t =>
            simp only []
            cases addTime g.now t with
            | none => rfl
            | some x => exact key (some x)

theorem evictId_worker (g : State) (id : Nat) : (evictId g id).worker = g.worker := by
  rw [evictId_eq]
  split
  · rfl
  · split <;> rfl

theorem foldl_evictId_worker (l : List Nat) : ∀ (g : State), (l.foldl evictId g).worker = g.worker := by
  induction l with
  | nil => intro g; rfl
  | cons a r ih => intro g; rw [List.foldl_cons, ih, evictId_worker]

theorem sweepStep_worker (g g' : State) (out : Out) (h : sweepStep g = .ok (g', out)) : g'.worker = g.worker := by
  unfold sweepStep at h
  split at h
  · cases h
  · simp only [Except.ok.injEq, Prod.mk.injEq] at h
    rw [← h.1]
    show (sweepEntries g _ []).1.worker = g.worker
    rw [sweepEntries_eq, foldl_evictId_worker]

theorem consumerStep_worker (g g' : State) (o o' : Oracle) (out : Out) (h : consumerStep g o = .ok (g', out, o')) :
    g'.worker = g.worker := by
  unfold consumerStep at h
  split at h
  · cases h
  · split at h
    · cases h
    · simp only [Except.ok.injEq, Prod.mk.injEq] at h; rw [← h.1]
    · split at h
      · cases h
      · split at h <;> (simp only [Except.ok.injEq, Prod.mk.injEq] at h; rw [← h.1])

/-- Layer B is at rest: every thread stands between two Layer A events, no lock is owned and no read guard is kept.
    The worker's pc is the one that belongs to the mode the shared state records. -/
def atRest (b : BState) : Prop :=
  b.w = pcOfMode b.g.worker ∧ b.sw = .begin ∧ (∀ pc ∈ b.cl, pc = .idle) ∧ b.wuOwner = none ∧ b.ttlOwner = none ∧
    b.storeReaders = []

/-- the Layer A events covered (`put`/`putTtl` compute a weight and call these; `stats`, `poll` are not
    programs of Layer B; `resume`: see `resume_refines`) -/
inductive Covered : Ev → Prop
  | putW (c k v w) : Covered (.putW c k v w)
  | putWTtl (c k v w t) : Covered (.putWTtl c k v w t)
  | delete (c k) : Covered (.delete c k)
  | get (k) : Covered (.get k)
  | weight : Covered .weight
  | upsert (c k v w t rm) : Covered (.upsert c k v w t rm)
  | worker : Covered .worker
  | sweep : Covered .sweep
  | consumer : Covered .consumer
  | advance (d) : Covered (.advance d)
  | shutdown (c) : Covered (.shutdown c)
  | multiGet (ks) : Covered (.multiGet ks)

/-- the client thread an event belongs to (`get`, `multiGet` and `weight` carry none in Layer A: thread 0 runs them) -/
def evClient : Ev → Nat
  | .putW c _ _ _ | .putWTtl c _ _ _ _ | .delete c _ | .upsert c _ _ _ _ _ | .shutdown c => c
  | _ => 0

theorem afterCall_atRest (b : BState) (i : Nat) (g' : State) (out : Out) (hb : atRest b)
    (hw : g'.worker = b.g.worker) (hnp : isParked out = false) :
    atRest (afterCall b i g' out) ∧ (afterCall b i g' out).g = g' := by
  obtain ⟨h1, h2, h3, h4, h5, h6⟩ := hb
  have hcl : ∀ pc ∈ b.cl.set i .idle, pc = .idle := by
    intro pc hpc
    rcases List.mem_or_eq_of_mem_set hpc with h | h
    · exact h3 pc h
    · exact h
  cases out <;> first
    | (simp [isParked] at hnp; done)
    | exact ⟨⟨by simp only [afterCall, hw, h1], h2, hcl, h4, h5, h6⟩, rfl⟩

theorem client_event_run (b : BState) (i : Nat) (r : Req) (o : Oracle) (g' : State) (out : Out) (o' : Oracle)
    (hb : atRest b) (hi : i < b.cl.length) (h : step b.g (reqEv i r) o = .ok (g', out, o'))
    (hnp : isParked out = false) :
    ∃ acts b', runActs b acts o = .ok (b', o') ∧ atRest b' ∧ b'.g = g' := by
  have C := client_refines b i r o (reqFuel r) hi hb.2.2.2.1 hb.2.2.2.2.1 hb.2.2.2.2.2 (Nat.le_refl _)
  rw [h] at C
  simp only [CAgree] at C
  obtain ⟨k, hk⟩ := runActs_client _ _ _ _ _ _ C
  have hidle : b.cl[i]? = some .idle := by
    rw [List.getElem?_eq_getElem hi]
    exact congrArg some (hb.2.2.1 _ (List.getElem_mem hi))
  have hR := afterCall_atRest b i g' out hb (step_client_worker _ _ _ _ _ _ _ h) hnp
  refine ⟨.issue i r :: List.replicate k (.client i), _, ?_, hR.1, hR.2⟩
  simp [runActs, stepB, issue, hidle, hk]

/-- **Item 4.** Every covered Layer A event — `shutdown` and the worker's `Shutdown` command included —, taken from a
    Layer B state at rest, is the execution of a list of Layer B actions that ends at rest with the same shared state.
    Side conditions (each one necessary):
    * `hcl`  the calling client thread exists (`get`/`weight`: thread 0);
    * `hnp`  the call does not block at a full queue — then Layer A writes a `pend` entry that Layer B does not keep and
             the Layer B client stands at its send, not at rest: that case is `client_refines`/`afterCall`, and its
             continuation is `resume_refines`;
    * `hnd`  for a sweep, the expiry index has unique keys.
    (The former side condition `hns`, "the worker event does not process `Shutdown`", is gone with the model fix.) -/
theorem layerA_step_is_layerB_run (b : BState) (ev : Ev) (o : Oracle) (g' : State) (out : Out) (o' : Oracle)
    (hcov : Covered ev) (hb : atRest b) (h : step b.g ev o = .ok (g', out, o'))
    (hcl : evClient ev < b.cl.length) (hnp : isParked out = false)
    (hnd : ev = .sweep → AMap.NoDup b.g.ttl) :
    ∃ acts b', runActs b acts o = .ok (b', o') ∧ atRest b' ∧ b'.g = g' := by
  cases hcov with
  | putW c k v w => exact client_event_run b c (.putW k v w none) o g' out o' hb hcl h hnp
  | putWTtl c k v w t => exact client_event_run b c (.putW k v w (some t)) o g' out o' hb hcl h hnp
  | delete c k => exact client_event_run b c (.delete k) o g' out o' hb hcl h hnp
  | get k => exact client_event_run b 0 (.get k) o g' out o' hb hcl h hnp
  | weight => exact client_event_run b 0 .weight o g' out o' hb hcl h hnp
  | upsert c k v w t rm => exact client_event_run b c (.upsert k v w t rm) o g' out o' hb hcl h hnp
  | shutdown c => exact client_event_run b c .shutdown o g' out o' hb hcl h hnp
  | multiGet ks => exact client_event_run b 0 (.mget ks false) o g' out o' hb hcl h hnp
  | worker =>
    obtain ⟨g, w, sw, cl, res, wu, tt, sr, ss⟩ := b
    obtain ⟨h1, h2, h3, h4, h5, h6⟩ := hb
    simp only at h1 h2 h3 h4 h5 h6 h
    subst h1 h2 h4 h5 h6
    have W := worker_refines_core g .begin cl res ss o (5 * g.adm.kw.length + 12) (Nat.le_refl _)
    simp only [step] at h
    rw [h] at W
    obtain ⟨k, hk⟩ := runActs_worker _ _ _ _ _ W.1
    exact ⟨_, _, hk, ⟨rfl, rfl, h3, rfl, rfl, rfl⟩, rfl⟩
  | sweep =>
    obtain ⟨h1, h2, h3, h4, h5, h6⟩ := hb
    simp only [step] at h
    cases hS : sweepStep b.g with
    | error m => simp [hS] at h
    | ok r =>
      obtain ⟨g1, out1⟩ := r
      simp only [hS, Except.ok.injEq, Prod.mk.injEq] at h
      obtain ⟨rfl, rfl, rfl⟩ := h
      have hnodup := shardEntries_nodup b.g (hnd rfl)
      have hv : ValidVisits (shardEntries b.g) ((shardEntries b.g).map Prod.fst) := ⟨hnodup, fun _ => Iff.rfl⟩
      have S := sweeper_refines b _ _ h2 h4 h5 h6 (hnd rfl) hv (Nat.le_refl _)
      rw [hS] at S
      obtain ⟨acts, hk⟩ := runActs_sweeper _ _ _ o _ S
      refine ⟨acts, _, hk, ⟨?_, h2, h3, h4, h5, h6⟩, rfl⟩
      simp only [sweepStep_worker _ _ _ hS, h1]
  | consumer =>
    obtain ⟨h1, h2, h3, h4, h5, h6⟩ := hb
    simp only [step] at h
    refine ⟨[.consumer], { b with g := g' }, by simp [runActs, stepB, h], ⟨?_, h2, h3, h4, h5, h6⟩, rfl⟩
    simp only [consumerStep_worker _ _ _ _ _ h, h1]
  | advance d =>
    obtain ⟨h1, h2, h3, h4, h5, h6⟩ := hb
    simp only [step, Except.ok.injEq, Prod.mk.injEq] at h
    obtain ⟨rfl, _, rfl⟩ := h
    exact ⟨[.advance d], { b with g := { b.g with now := b.g.now + d } }, by simp [runActs, stepB],
      ⟨h1, h2, h3, h4, h5, h6⟩, rfl⟩

/-- **`shutdown` parks, then resumes.** From a state at rest in which nothing is parked for client `i`, a Layer A
    `shutdown i` that parks leaves (by `client_refines`) the Layer B client at its send in the state `b1`; `b1` and
    Layer A's `g1` satisfy the hypotheses of `resume_refines`: the `resume` is the Layer B client going on. -/
theorem shutdown_park_resume (b : BState) (i : Nat) (o : Oracle) (g1 : State) (o1 : Oracle) (o2 : Oracle) (fuel : Nat)
    (hb : atRest b) (hi : i < b.cl.length) (hnone : b.g.pend.get? i = none)
    (h : step b.g (.shutdown i) o = .ok (g1, .parked, o1)) (hf : 12 ≤ fuel) :
    clientRun 13 (setClient b i (.start .shutdown)) i o = .ok (afterCall b i g1 .parked, o1) ∧
    match resume g1 i with
    | .ok r => clientRun fuel (afterCall b i g1 .parked) i o2 =
        .ok (afterCall (afterCall b i g1 .parked) i r.1 r.2, o2)
    | .error _ => parkedAt (afterCall b i g1 .parked) i = true ∧
        clientRun fuel (afterCall b i g1 .parked) i o2 = .ok (afterCall b i g1 .parked, o2) := by
  obtain ⟨_, _, _, hwu, httl, hsr⟩ := hb
  constructor
  · have C := client_refines b i .shutdown o 13 hi hwu httl hsr (Nat.le_refl _)
    simp only [reqEv] at C
    rw [h] at C
    exact C
  · have hpend := shutdown_parked_pend _ _ _ _ _ h
    have key : ∃ p, (p = Pending.shutdownCmd ∨ p = .shutdownBuf) ∧ g1.pend = b.g.pend.set i p := by
      rcases hpend with h | h
      · exact ⟨_, Or.inl rfl, h⟩
      · exact ⟨_, Or.inr rfl, h⟩
    obtain ⟨p, _, hp⟩ := key
    have hget : g1.pend.get? i = some p := by rw [hp]; simp
    refine resume_refines (afterCall b i g1 .parked) i g1 p o2 fuel hwu httl hsr hget ?_ ?_ hf
    · simp only [afterCall]
      rw [hp, amap_set_del_absent _ _ _ hnone]
    · simp [afterCall, hi, hget]

/-- the hypotheses of `layerA_step_is_layerB_run` hold of `exB` and the worker event with the two-eviction put -/
example :
    atRest exB ∧ Covered .worker ∧ evClient .worker < exB.cl.length ∧
    (match step exB.g .worker exO with | .ok (_, out, _) => isParked out == false | _ => false) = true := by
  refine ⟨⟨rfl, rfl, ?_, rfl, rfl, rfl⟩, .worker, by decide, by decide⟩
  intro pc hpc
  simp only [exB, List.mem_cons, List.not_mem_nil, or_false] at hpc
  exact hpc

/-- `get_ref` of a stored key: after two actions the client holds the read guard of the key's shard
    (`storeReaders = [(0, 3)]`, key 102 living in store shard 3) and the worker's store write to that shard would not be
    enabled; at the end of the run the guard is gone and the state is the one of Layer A's `.get 102`. -/
def outIsNone : Out → Bool
  | .none => true
  | _ => false

def exBRef : BState := { g := exG, cl := [.idle, .idle], res := [[], []], storeShard := [(102, 3)] }

example :
    (0 < exBRef.cl.length ∧ exBRef.wuOwner = none ∧ exBRef.ttlOwner = none ∧ exBRef.storeReaders = []) ∧
    (match runActs exBRef [.issue 0 (.getRef 102), .client 0, .client 0] { pool := [0] } with
      | .ok (b', _) => some (b'.storeReaders, b'.cl[0]? matches some (CPc.refPool 102 2), storeWritable b' 102 none,
          storeWritable b' 102 (some 0), storeWritable b' 101 none)
      | _ => none) = some ([(0, 3)], true, false, true, true) ∧
    (match clientRun 8 (setClient exBRef 0 (.start (.getRef 102))) 0 { pool := [0] }, step exG (.get 102) { pool := [0] } with
      | .ok (b', o1), .ok (g', .value v, o2) =>
        some (gview b'.g == gview g' && o1.isEmpty && o2.isEmpty && (b'.cl[0]? matches some CPc.idle),
          b'.g.pool, v, b'.storeReaders)
      | _, _ => none) = some (true, [[102]], some 2, []) := by
  exact ⟨by decide, by decide, by decide⟩

/-- `shutdown` with room in both queues (`cmdCap = 4`, one command queued): client 1 runs all twelve actions; the result
    is Layer A's `clientShutdown` (= `shutdownFinish` after the two sends) — compared field by field on `gview` and as
    whole states by `rfl`. -/
example :
    (1 < exB2.cl.length ∧ exB2.wuOwner = none ∧ exB2.ttlOwner = none ∧ exB2.storeReaders = [] ∧ reqFuel .shutdown ≤ 14) ∧
    (match step exG (.shutdown 1) {} with
      | .ok (g', out, _) => some (isParked out || !g'.shutting || g'.consumerKeep || g'.sweeperKeep, gview g', g'.bufq)
      | _ => none) =
      some (false,
        ⟨[], 0, [], [], [(.put 4 14 6 104 7, some 0), (.shutdown, none)], [.pending], [0, 0, 0, 0, 0, 0, 0, 0, 0, 0], .running⟩,
        [.shutdown]) ∧
    (match clientRun 14 (setClient exB2 1 (.start .shutdown)) 1 {}, step exG (.shutdown 1) {} with
      | .ok (b', _), .ok (g', _, _) => some (gview b'.g == gview g', b'.cl[1]? matches some CPc.idle, b'.res.map (·.map outIsNone))
      | _, _ => none) = some (true, true, [[], [true]]) ∧
    (clientRun 12 (setClient exB2 1 (.start .shutdown)) 1 {}).toOption.isNone = true := by
  exact ⟨by decide, by decide, by decide, by decide⟩

example :
    (match clientRun 14 (setClient exB2 1 (.start .shutdown)) 1 {} with | .ok (b', _) => some b'.g | _ => none) =
    (match step exG (.shutdown 1) {} with | .ok (g', _, _) => some g' | _ => none) := by
  rfl

/-- `exG` with a command queue of capacity 1, which the queued put fills -/
def exCap1 : State := { exG with cfg := { exG.cfg with cmdCap := 1 } }
def exBCap1 : BState := { g := exCap1, cl := [.idle], res := [[]] }

/-- `shutdown` PARKS at the command queue (`cmdCap := 1`, one command queued): Layer A answers `.parked` with
    `pend[0] = .shutdownCmd` and `shutting = true`; the Layer B client has done `start` and `shutCas` and stands at
    `.shutSendCmd`, not enabled (`parkedAt`), with `shutting = true`, nothing sent, nothing cleared. -/
example :
    (match step exCap1 (.shutdown 0) {} with
      | .ok (g', out, _) => some (isParked out, g'.pend, g'.shutting, g'.queue.length, g'.store.length)
      | _ => none) = some (true, [(0, .shutdownCmd)], true, 1, 3) ∧
    (match clientRun 14 (setClient exBCap1 0 (.start .shutdown)) 0 {}, step exCap1 (.shutdown 0) {} with
      | .ok (b', _), .ok (g', _, _) =>
        some ((b'.cl[0]? matches some CPc.shutSendCmd) && parkedAt b' 0 && b'.g.shutting && gview b'.g == gview g',
          b'.g.pend, b'.res.map (·.length), b'.g.bufq)
      | _, _ => none) = some (true, [], [0], []) := by
  exact ⟨by decide, by decide⟩

/-- … and resumes: the worker takes the queued put (two evictions, oracle `exO`), which makes room; Layer A's
    `resume 0` then is the Layer B client going on from `.shutSendCmd` to the end of `shutdown`. Both layers, event by
    event, end in the same shared state. Before the worker has run, `resume` is illegal and the client not enabled. -/
example :
    (match step exCap1 (.shutdown 0) {} with
      | .ok (g1, _, _) => some ((resume g1 0).toOption.isNone)
      | _ => none) = some true ∧
    (match step exCap1 (.shutdown 0) {} with
      | .ok (g1, _, _) =>
        (match step g1 .worker exO with
         | .ok (g2, _, _) =>
           (match step g2 (.resume 0) {} with
            | .ok (g3, out, _) => some (isParked out, gview g3, g3.bufq, g3.pend)
            | _ => none)
         | _ => none)
      | _ => none) =
      some (false, ⟨[], 0, [], [], [(.shutdown, none)], [.accepted], [0, 0, 0, 0, 0, 0, 0, 0, 0, 0], .running⟩,
        [.shutdown], []) ∧
    (match clientRun 14 (setClient exBCap1 0 (.start .shutdown)) 0 {} with
      | .ok (b1, _) =>
        (match workerRun (workerFuel b1) b1 exO with
         | .ok (b2, _) =>
           (match clientRun 12 b2 0 {} with
            | .ok (b3, _) => some (gview b3.g, b3.g.bufq, b3.g.pend, (b3.cl[0]? matches some CPc.idle) && b3.res.map (·.map outIsNone) == [[true]])
            | _ => none)
         | _ => none)
      | _ => none) =
      some (⟨[], 0, [], [], [(.shutdown, none)], [.accepted], [0, 0, 0, 0, 0, 0, 0, 0, 0, 0], .running⟩,
        [.shutdown], [], true) := by
  exact ⟨by decide, by decide, by decide⟩

/-- the hypotheses of `shutdown_park_resume` hold of `exBCap1` -/
example :
    atRest exBCap1 ∧ 0 < exBCap1.cl.length ∧ exBCap1.g.pend.get? 0 = none ∧
    (match step exBCap1.g (.shutdown 0) {} with | .ok (_, out, _) => isParked out | _ => false) = true := by
  refine ⟨⟨rfl, rfl, ?_, rfl, rfl, rfl⟩, by decide, rfl, by decide⟩
  intro pc hpc
  simp only [exBCap1, List.mem_cons, List.not_mem_nil, or_false] at hpc
  exact hpc

/-- … and the hypotheses of `layerA_step_is_layerB_run` for `.shutdown 1` (which does not park) of `exB2` -/
example :
    atRest exB2 ∧ Covered (.shutdown 1) ∧ evClient (.shutdown 1) < exB2.cl.length ∧
    (match step exB2.g (.shutdown 1) {} with | .ok (_, out, _) => isParked out == false | _ => false) = true := by
  refine ⟨⟨rfl, rfl, ?_, rfl, rfl, rfl⟩, .shutdown 1, by decide, by decide⟩
  intro pc hpc
  simp only [exB2, List.mem_cons, List.not_mem_nil, or_false] at hpc
  rcases hpc with h | h <;> exact h

end B
end Cached
