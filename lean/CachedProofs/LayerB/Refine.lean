/-
  Layer A is the NON-PREEMPTED fragment of Layer B.
-/
import CachedModel.LayerB
import CachedProofs.Properties.C06

namespace Cached
namespace B

/-! ## 0  runs -/

/-- the worker stands at the head of its loop (`recv`, `drain`) or has died -/
def WPc.atHead : WPc → Bool
  | .recv | .drain | .dead => true
  | _ => false

/-- Repeats `workerAct` (at least once) until the worker is back at the head of its loop. -/
def workerRun : Nat → BState → Oracle → Except String (BState × Oracle)
  | 0, _, _ => .error "fuel exhausted"
  | n + 1, b, o =>
    match workerAct b o with
    | .error m => .error m
    | .ok (b', o') => if b'.w.atHead then .ok (b', o') else workerRun n b' o'

/-- what `workerRun` does with the result of one action -/
def contRun (n : Nat) : Except String (BState × Oracle) → Except String (BState × Oracle)
  | .error m => .error m
  | .ok (b', o') => if b'.w.atHead then .ok (b', o') else workerRun n b' o'

theorem workerRun_succ (n : Nat) (b : BState) (o : Oracle) :
    workerRun (n + 1) b o = contRun n (workerAct b o) := by
  simp only [workerRun, contRun]

/-- where the worker of Layer B stands between two commands, given the mode Layer A records -/
def pcOfMode : WorkerMode → WPc
  | .running => .recv
  | .draining => .drain
  | .dead => .dead

/-- explicit sufficient fuel for one command -/
def workerFuel (b : BState) : Nat := 5 * b.g.adm.kw.length + 12

/-! ## 1  evictions only touch the store and the statistics -/

theorem applyEvict_frame (s : State) (e : Evicted) :
    applyEvict s e = { s with store := (applyEvict s e).store, stats := (applyEvict s e).stats } := by
  obtain ⟨id, key, w⟩ := e
  unfold applyEvict
  simp only []
  split <;> rfl

theorem applyEvict_adm (s : State) (a : Adm) (e : Evicted) :
    applyEvict { s with adm := a } e = { applyEvict s e with adm := a } := by
  obtain ⟨id, key, w⟩ := e
  unfold applyEvict
  simp only []
  split <;> rfl

theorem foldl_applyEvict_adm (evs : List Evicted) : ∀ (s : State) (a : Adm),
    evs.foldl applyEvict { s with adm := a } = { evs.foldl applyEvict s with adm := a } := by
  induction evs with
  | nil => intro s a; rfl
  | cons e rest ih =>
    intro s a
    show rest.foldl applyEvict (applyEvict { s with adm := a } e) = _
    rw [applyEvict_adm, ih]
    rfl

theorem foldl_applyEvict_frame (evs : List Evicted) : ∀ (s : State),
    evs.foldl applyEvict s =
      { s with store := (evs.foldl applyEvict s).store, stats := (evs.foldl applyEvict s).stats } := by
  induction evs with
  | nil => intro s; rfl
  | cons e rest ih =>
    intro s
    simp only [List.foldl_cons]
    rw [ih (applyEvict s e)]
    rw [applyEvict_frame s e]

end B
end Cached
