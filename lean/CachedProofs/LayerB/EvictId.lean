/-
  The TTL ticker's evict hook checks the key id (cached.rs `ttl_ticker`, store/mod.rs `delete_if_key_id_matches`;
  `applyEvictId` in CachedModel/State.lean, used by `sweepEvict` of Layer A and by the sweeper's `store.remove` action of
  Layer B): the key leaves the store only if the stored entry still carries the id being evicted.

    * `applyEvictId_keeps_other_ids`, `applyEvictId_removes_matching`   the hook itself;
    * `sweeper_store_removes_only_own_id`   the sweeper's `store.remove` action, in EVERY state of Layer B: an eviction
      on behalf of key id `id` never removes or changes an entry carrying another id
      (`sweeper_store_removes_matching`: and it does remove the entry that carries `id`);
    * a concrete witness that the OLD hook `applyEvict` (`store.delete(&key)`, still the worker's hook) would remove a
      newer incarnation of the key, and the reachable state of `swB_raceRun` (Sweep.lean) where that used to happen.

  The general facts about `applyEvictId` (case split against `applyEvict`, frame lemmas) are in
  CachedProofs/Lemmas/EvictId.lean.
-/
import CachedProofs.LayerB.Sweep

namespace Cached
namespace B

/-- An eviction on behalf of key id `e.1` never removes or changes an entry carrying another id — whatever its key. -/
theorem applyEvictId_keeps_other_ids (s : State) (e : Evicted) {k : Nat} {en : Entry}
    (h : s.store.get? k = some en) (hid : en.id ≠ e.1) : (applyEvictId s e).store.get? k = some en :=
  Cached.applyEvictId_get?_of_id_ne s e h hid

/-- If the entry of the evicted key carries the evicted id, the key is gone afterwards. -/
theorem applyEvictId_removes_matching (s : State) (e : Evicted) {en : Entry}
    (h : s.store.get? e.2.1 = some en) (hid : en.id = e.1) : (applyEvictId s e).store.get? e.2.1 = none :=
  Cached.applyEvictId_get?_of_matches s e h hid

/-- **The sweeper's `store.remove` removes only its own id.**  In every state `b` of Layer B in which the sweeper stands
    at `store.remove` of the eviction of `id` (charge `wk`), for the action `sweeperAct b visit = .ok b'`: every stored
    entry that carries another id — under `wk.key` or any other key — is still there, unchanged. -/
theorem sweeper_store_removes_only_own_id {b b' : BState} {visit : Option Nat} {now shard : Nat}
    {rest : List (Nat × Nat)} {id : Nat} {wk : WKey} (hs : b.sw = .store now shard rest id wk)
    (h : sweeperAct b visit = .ok b') :
    ∀ k en, b.g.store.get? k = some en → en.id ≠ id → b'.g.store.get? k = some en := by
  intro k en hk hid
  obtain ⟨_, rfl⟩ := swB_store_spec hs h
  rw [sweepNext_g]
  exact applyEvictId_keeps_other_ids b.g (id, wk.key, wk.weight) hk hid

/-- … and it does remove the entry of `wk.key` if that entry carries `id`. -/
theorem sweeper_store_removes_matching {b b' : BState} {visit : Option Nat} {now shard : Nat}
    {rest : List (Nat × Nat)} {id : Nat} {wk : WKey} {en : Entry} (hs : b.sw = .store now shard rest id wk)
    (h : sweeperAct b visit = .ok b') (hk : b.g.store.get? wk.key = some en) (hid : en.id = id) :
    b'.g.store.get? wk.key = none := by
  obtain ⟨_, rfl⟩ := swB_store_spec hs h
  rw [sweepNext_g]
  exact applyEvictId_removes_matching b.g (id, wk.key, wk.weight) hk hid

/-- the same for a step of the whole system -/
theorem stepB_sweeper_store_removes_only_own_id {b b' : BState} {visit : Option Nat} {o o' : Oracle} {now shard : Nat}
    {rest : List (Nat × Nat)} {id : Nat} {wk : WKey} (hs : b.sw = .store now shard rest id wk)
    (h : stepB b (.sweeper visit) o = .ok (b', o')) :
    ∀ k en, b.g.store.get? k = some en → en.id ≠ id → b'.g.store.get? k = some en :=
  sweeper_store_removes_only_own_id hs (swB_sweeper_step h)

/-! ### concrete witnesses -/

/-- a store that holds key 1 under the (newer) id 2 -/
def evictIdState : State :=
  { State.init { maxWeight := 10, shards := 1, cmdCap := 1, poolSize := 0, bufSize := 1, counters := 2 } 0 [] with
    store := [(1, { value := 7, id := 2, expiry := none, soft := false })] }

/-- **The old hook would remove a newer incarnation.**  The store holds key 1 with id 2; evicting `(id 1, key 1,
    weight 3)` with `applyEvict` (`store.delete(&key)`) deletes it, with `applyEvictId` it stays — both count the
    weight as removed, only the old hook counts a deleted key. -/
example :
    evictIdState.store.get? 1 = some { value := 7, id := 2, expiry := none, soft := false } ∧
    (applyEvict evictIdState (1, 1, 3)).store.get? 1 = none ∧
    (applyEvictId evictIdState (1, 1, 3)).store.get? 1 = some { value := 7, id := 2, expiry := none, soft := false } ∧
    (applyEvict evictIdState (1, 1, 3)).stats.keysDeleted = 1 ∧
    (applyEvictId evictIdState (1, 1, 3)).stats.keysDeleted = 0 ∧
    (applyEvict evictIdState (1, 1, 3)).stats.weightRemoved = 3 ∧
    (applyEvictId evictIdState (1, 1, 3)).stats.weightRemoved = 3 := by
  decide

/-- hypotheses of `applyEvictId_keeps_other_ids` (entry with another id) and of `applyEvictId_removes_matching`
    (entry with the evicted id) on that state -/
example :
    (evictIdState.store.get? 1 = some { value := 7, id := 2, expiry := none, soft := false } ∧ (2 : Nat) ≠ 1) ∧
    (applyEvictId evictIdState (2, 1, 3)).store.get? 1 = none := by
  decide

/-- the sweeper of Layer B at `store.remove` of id 1 over that store: the action is enabled and keeps key 1
    (hypotheses and conclusion of `sweeper_store_removes_only_own_id`); at `store.remove` of id 2 it removes it
    (`sweeper_store_removes_matching`) -/
example :
    (match sweeperAct { g := evictIdState, sw := .store 10 0 [] 1 ⟨1, 1, 3⟩, cl := [] } none with
     | .ok b' => decide (b'.g.store.get? 1 = some { value := 7, id := 2, expiry := none, soft := false })
     | .error _ => false) = true ∧
    (match sweeperAct { g := evictIdState, sw := .store 10 0 [] 2 ⟨1, 1, 3⟩, cl := [] } none with
     | .ok b' => decide (b'.g.store.get? 1 = none)
     | .error _ => false) = true := by
  decide

/-- The hypotheses hold in a REACHABLE state (the race `swB_raceRun` of Sweep.lean: key 1 deleted and put again under
    id 2 while the sweeper is in the middle of evicting id 1): the sweeper stands at `store.remove` of id 1, key 1 is
    stored under id 2, and the action keeps it — the old hook would have removed it. -/
example : ∃ b b', Reach cfgEx 0 [1, 2, 3, 4] 2 b ∧ stepB b (.sweeper none) noO = .ok (b', noO) ∧
    b.sw = .store 10 0 [] 1 ⟨1, 1, 3⟩ ∧ b.g.store.get? 1 = some ⟨111, 2, none, false⟩ ∧
    b'.g.store.get? 1 = some ⟨111, 2, none, false⟩ ∧ (applyEvict b.g (1, 1, 3)).store.get? 1 = none := by
  obtain ⟨b, b', hr, hs, hsw, hk, _, _, _, _, hold⟩ := C10_layerB_race_keeps_new_incarnation
  exact ⟨b, b', hr, hs, hsw, hk,
    stepB_sweeper_store_removes_only_own_id hsw hs 1 _ hk (by decide), hold⟩

/-! ### under the property's name (C05: a charge is released together with ITS entry, never with another incarnation's;
    the failed case of this statement on the pinned tree was defect D11, repaired by 9fbef16) -/

theorem C05_layerB_sweeper_removes_only_own_id {b b' : BState} {visit : Option Nat} {o o' : Oracle} {now shard : Nat}
    {rest : List (Nat × Nat)} {id : Nat} {wk : WKey} (hs : b.sw = .store now shard rest id wk)
    (h : stepB b (.sweeper visit) o = .ok (b', o')) :
    ∀ k en, b.g.store.get? k = some en → en.id ≠ id → b'.g.store.get? k = some en :=
  stepB_sweeper_store_removes_only_own_id hs h

end B
end Cached
