/-
  C11 at ACTION granularity, for ONE CALLER: the un-awaited `put(k); delete(k)`, for ALL interleavings with the other
  threads (other clients working on other keys or READING `k`, the worker, the sweeper, the consumer, clock moves).

  C11 (English): "Writes are applied exactly once, one at a time, in submission order: commands are executed by a
  single worker in the order in which they were enqueued; in particular a put followed WITHOUT AWAITING by a delete of
  the same key by the same caller always leaves the key absent, and the delete is not answered 'key does not exist'
  when the put was accepted."

  The Layer A theorem `C11_put_then_delete` (Properties/C11.lean) assumes the two commands ADJACENT at the head of the
  queue.  Here: histories `RunH b0 h b` of Layer B from a reachable start state with the clients idle and the cache
  running; the scenario is `PD.Scen` (PutDeleteLemmas.lean), spelled out in the hypotheses of the theorems below.
  The machinery (the invariant `PD.PDE` / `PD.PDL` of the pair of commands, `PD.main_inv`) is in PutDeleteLemmas.lean.

  Theorems
    `C11_layerB_put_then_delete_partial`   the strongest TRUE form: key absent, id not charged, `h₁` answered before `h₂`,
                                           and the answer of the delete EXACTLY as the model gives it
    `C11_layerB_put_then_delete`           the literal clause, under the additional named hypothesis "no eviction / sweep
                                           of `k` in the history"
    `C11_layerB_delete_mark_hits_nothing_or_the_put`
                                           the `delete.mark` before / after the put's `store.put`: readable for a while /
                                           hidden at once; after the `Delete`'s `store.remove`: never
    `C11_layerB_queue_order_is_issue_order_per_client`
                                           one client's commands are enqueued, executed and answered in the order of its
                                           calls (any two calls, any run from a reachable state, no side condition)
  FINDING
    `C11_layerB_put_then_delete_counterexample`   the clause "the delete is not answered 'key does not exist' when the
        put was accepted" is FALSE of the model: another client's put, queued BETWEEN the two commands, evicts the key
        (so does the sweeper for a put with a time-to-live whose deadline passes in between); the delete is answered
        `KeyDoesNotExist` although the put was `Accepted`.  The key is absent all the same.
  Concrete runs (three clients): `…_witness` (non-vacuity: other clients' commands in between, reads of `k`, a sweeper
    tick, a clock move), `…_needs_no_other_writer`, `…_delete_mark_after_put_witness`, `…_exists_witness`,
    `…_tooHeavy_witness`.

  Hypotheses, and why (all NAMED in the statements):
    * `hAlive : b.w ≠ .dead` — the worker is alive at the END of the history (known findings D8 / D9: a put whose
      deadline is not representable, an `UpdateWeight` overflow, kill the worker; queued commands are then dropped and
      stay pending for ever).  It is used only to rule the dying action out of the induction; a history in which the
      worker dies AFTER everything is covered through its prefix before the death (a prefix of a run is a run).
    * `hNoShutdown` — nobody issues `shutdown()`; with `hrunning : b0.g.shutting = false`.  That no `Shutdown` command
      waits in `b0` and that its worker is not draining FOLLOWS from `Reach` and `hrunning` (`PD.running_no_shutdown`).
    * `hOthers`, `hAfter` — no other client, and after `r₂` not client `i` either, issues a put / upsert / delete of `k`.
    * In `C11_layerB_delete_mark_hits_nothing_or_the_put`: the index `m₂` of the `delete.mark` action and the index `p`
      of the put's `store.put` (`r₁ < p`) are GIVEN (hypotheses `hmark`, `PutPoint h p k c₁.id`), not constructed.
-/
import CachedProofs.LayerB.PutDeleteLemmas

namespace Cached
namespace B
open Hist PD

/-- **C11 for the un-awaited `put(k); delete(k)` of one caller — the strongest TRUE form** (the literal English clause
    "the delete is not answered `KeyDoesNotExist` when the put was accepted" is FALSE of the model, hence of the code:
    `C11_layerB_put_then_delete_counterexample`).

    Take ANY history `RunH b0 h b` from a reachable start state `b0` in which every client is idle and the cache is
    running (`shutting = false`).  Client `i` issues `put(k, v, w, ttl)` at `n₁`; that call returns at `r₁` with the
    PENDING acknowledgement `h₁` (`Returned … (.ack h₁ .pending)`: the command was enqueued, not answered on the spot);
    client `i` issues nothing until it issues `delete(k)` at `n₂ > r₁`; that call returns at `r₂` with the pending
    acknowledgement `h₂`.

    NAMED side conditions:
    * `hAlive`      the worker is alive at the end of the history (known findings D8 / D9: a put whose deadline is not
                    representable, or an `UpdateWeight` overflow, kills the worker; every queued command is then dropped
                    and its acknowledgement stays pending for ever);
    * `hNoShutdown` nobody issues `shutdown()` in the history (a draining worker answers `ShuttingDown` and executes
                    nothing);
    * `hOthers`     no OTHER client issues a put / upsert / delete of `k` anywhere in the history (needed:
                    `C11_layerB_put_then_delete_needs_no_other_writer`); reads of `k` and any traffic on other keys
                    are allowed;
    * `hAfter`      client `i` itself issues no put / upsert / delete of `k` after `r₂` ("as long as no later request
                    on `k` is issued").
    What client `i` (or anybody) did BEFORE the history — commands on `k` still waiting in `b0.g.queue` — is NOT
    restricted: they are ahead of the put's command in the queue.  (A put of `k` by client `i` still in flight then
    makes the worker refuse this put as `KeyAlreadyExists`; the `Delete` removes the older entry.)

    Then there is THE command `c₁` of the put (key `k`, value `v`, weight `w`, time-to-live `ttl`, handle `h₁`; it is what
    client `i` sent in the action `r₁`), and in EVERY state `s` of the history after `r₂` in which `h₂` is answered:
    * `k` is ABSENT from the store;
    * the key id `c₁.id` of the put is NOT CHARGED;
    * `h₁` is answered as well (submission order: `h₁` before `h₂`), with `Accepted`, `KeyAlreadyExists`,
      `KeyWeightIsGreaterThanCacheWeight` or `EnoughSpaceIsNotAvailable…`;
    * the `Delete(k)` ran its `store.remove` at some action `d`, and
      - if the put was `Accepted` (its `store.put` is the action `lo`: `PutPoint`), or refused as `KeyAlreadyExists`
        (`lo`: the worker's re-check, which found an older entry): the delete is answered `Accepted` — OR it is answered
        `KeyDoesNotExist` and the history holds, at an action in `[lo, d)`, an EVICTION of `k` (the worker's
        `store.remove` inside the `create_space` of another key's put queued in between) or a SWEEP of `k`
        (`FRBetween`: the finding);
      - if the put was refused by admission (`tooHeavy`, `noSpace`): the delete is answered `KeyDoesNotExist`. -/
theorem C11_layerB_put_then_delete_partial {cfg : Cfg} {now : Nat} {seeds : List Nat} {clients : Nat}
    {b0 b : BState} {h : List (BState × Act)} (hr0 : Reach cfg now seeds clients b0)
    (hidle : ∀ pc ∈ b0.cl, pc = .idle) (hrunning : b0.g.shutting = false) (hrun : RunH b0 h b)
    (hAlive : b.w ≠ .dead) (hNoShutdown : ∀ j n, ¬ Issued h j .shutdown n)
    {i k v : Nat} {w : Int} {ttl : Option Nat} {n₁ r₁ n₂ r₂ h₁ h₂ : Nat}
    (hOthers : ∀ j q r, j ≠ i → Issued h j r q → reqOnK k r = false)
    (hput : Issued h i (.putW k v w ttl) n₁) (hret₁ : Returned h b i r₁ (.ack h₁ .pending)) (hlt₁ : n₁ < r₁)
    (hsame₁ : ∀ q r, n₁ < q → q < r₁ → ¬ Issued h i r q)
    (hdel : Issued h i (.delete k) n₂) (hlt₁₂ : r₁ < n₂) (hbetween : ∀ q r, r₁ < q → q < n₂ → ¬ Issued h i r q)
    (hret₂ : Returned h b i r₂ (.ack h₂ .pending)) (hlt₂ : n₂ < r₂)
    (hsame₂ : ∀ q r, n₂ < q → q < r₂ → ¬ Issued h i r q)
    (hAfter : ∀ q r, r₂ < q → Issued h i r q → reqOnK k r = false) :
    ∃ c₁ : PutCmd, IsCmd h i k v w ttl r₁ h₁ c₁ ∧
      ∀ m s, r₂ < m → StateAt h b m s → Answered s h₂ →
        s.g.store.get? k = none ∧ s.g.adm.kw.get? c₁.id = none ∧
        ∃ st₁ st₂ lo d, s.g.acks[h₁]? = some st₁ ∧ s.g.acks[h₂]? = some st₂ ∧ st₁ ≠ .pending ∧
          lo ≤ d ∧ d < m ∧ DelAt h d k h₂ ∧ (st₁ = .accepted → PutPoint h lo k c₁.id) ∧
          (((st₁ = .accepted ∨ st₁ = .rejected .keyAlreadyExists) ∧
              (st₂ = .accepted ∨ (st₂ = .rejected .keyDoesNotExist ∧ FRBetween h k lo d))) ∨
           ((st₁ = .rejected .tooHeavy ∨ st₁ = .rejected .noSpace) ∧ st₂ = .rejected .keyDoesNotExist)) := by
  obtain ⟨hq0, hw0⟩ := running_no_shutdown hr0 hrunning
  have sc : Scen h b i k v w ttl n₁ r₁ n₂ r₂ h₁ h₂ :=
    ⟨hNoShutdown, hOthers, hput, hret₁, hlt₁, hsame₁, hdel, hlt₁₂, hbetween, hret₂, hlt₂, hsame₂, hAfter⟩
  have hinv := main_inv hr0 hidle hrunning hq0 hw0 hrun hAlive sc
  -- the command, from the state right after the put returned
  obtain ⟨s0, s0', hx0, hst0', _, _⟩ := hret₁
  obtain ⟨H0, _, hlen0, _, _, hP2, _, _⟩ := hinv (r₁ + 1) s0' hst0'
  obtain ⟨_, c₁, hc₁, _⟩ := hP2 (by omega) (by omega)
  refine ⟨c₁, hc₁, ?_⟩
  intro m s hm hst hans
  obtain ⟨H, hsub, hlen, _, _, _, _, hP4⟩ := hinv m s hst
  obtain ⟨_, c₁', hc₁', hpd⟩ := hP4 (by omega)
  have := hc₁.unique hc₁'
  subst this
  have hh := hinv_reach (stateAt_reach hr0 hrun hst)
  rcases hpd with hpde | hpdl
  · obtain ⟨st, hst', hne⟩ := hans
    rw [pde_pending hh hpde] at hst'
    cases hst'
    exact absurd rfl hne
  · obtain ⟨hnone, hkw, pres, lo, d, st₁, st₂, hs₁, ho, hs₂, hlod, hd, hborn, hres⟩ := pdl_answered hh hpdl hans
    refine ⟨hnone, hkw, st₁, st₂, lo, d, hs₁, hs₂, ho.ne_pending, hlod, ?_, ?_, ?_, ?_⟩
    · obtain ⟨sd, hat, _⟩ := hd
      have := hat.lt; omega
    · obtain ⟨sd, hat, hw⟩ := hd
      exact ⟨sd, hsub.at hat, hw⟩
    · intro e
      obtain ⟨x, v', hat, hp⟩ := hborn e
      exact ⟨x, v', hsub.at hat, hp⟩
    · rcases ho with ⟨rfl, ho⟩ | ⟨rfl, ho⟩
      · rcases hres with ⟨_, hres⟩ | ⟨e, _⟩
        · refine Or.inl ⟨ho, ?_⟩
          rcases hres with e | ⟨e, n, x, h1, h2, hat, hfr⟩
          · exact Or.inl e
          · exact Or.inr ⟨e, n, x, h1, h2, hsub.at hat, hfr⟩
        · cases e
      · rcases hres with ⟨e, _⟩ | ⟨_, hres⟩
        · cases e
        · exact Or.inr ⟨ho, hres⟩

/-- **C11, the literal clause — under the one additional NAMED hypothesis it needs.**  Same history and side conditions
    as `C11_layerB_put_then_delete_partial`, and
    * `hNoEviction`  no eviction and no sweep removes an entry of `k` anywhere in the history (`isForeignRemove`: the
                     worker's `store.remove` inside the `create_space` of another put, the sweeper's `store.remove`).
    Then in every state after `r₂` in which `h₂` is answered: the key is absent, the put's id is not charged, `h₁` is
    answered — and if the put was `Accepted` the delete is `Accepted`: NOT answered `KeyDoesNotExist`.
    Without `hNoEviction` the last clause is false: `C11_layerB_put_then_delete_counterexample`. -/
theorem C11_layerB_put_then_delete {cfg : Cfg} {now : Nat} {seeds : List Nat} {clients : Nat}
    {b0 b : BState} {h : List (BState × Act)} (hr0 : Reach cfg now seeds clients b0)
    (hidle : ∀ pc ∈ b0.cl, pc = .idle) (hrunning : b0.g.shutting = false) (hrun : RunH b0 h b)
    (hAlive : b.w ≠ .dead) (hNoShutdown : ∀ j n, ¬ Issued h j .shutdown n)
    {i k v : Nat} {w : Int} {ttl : Option Nat} {n₁ r₁ n₂ r₂ h₁ h₂ : Nat}
    (hOthers : ∀ j q r, j ≠ i → Issued h j r q → reqOnK k r = false)
    (hNoEviction : ∀ n x, At h n x → ¬ isForeignRemove k x)
    (hput : Issued h i (.putW k v w ttl) n₁) (hret₁ : Returned h b i r₁ (.ack h₁ .pending)) (hlt₁ : n₁ < r₁)
    (hsame₁ : ∀ q r, n₁ < q → q < r₁ → ¬ Issued h i r q)
    (hdel : Issued h i (.delete k) n₂) (hlt₁₂ : r₁ < n₂) (hbetween : ∀ q r, r₁ < q → q < n₂ → ¬ Issued h i r q)
    (hret₂ : Returned h b i r₂ (.ack h₂ .pending)) (hlt₂ : n₂ < r₂)
    (hsame₂ : ∀ q r, n₂ < q → q < r₂ → ¬ Issued h i r q)
    (hAfter : ∀ q r, r₂ < q → Issued h i r q → reqOnK k r = false) :
    ∃ c₁ : PutCmd, IsCmd h i k v w ttl r₁ h₁ c₁ ∧
      ∀ m s, r₂ < m → StateAt h b m s → Answered s h₂ →
        s.g.store.get? k = none ∧ s.g.adm.kw.get? c₁.id = none ∧ Answered s h₁ ∧
        (s.g.acks[h₁]? = some .accepted → s.g.acks[h₂]? = some .accepted) := by
  obtain ⟨c₁, hc₁, hall⟩ := C11_layerB_put_then_delete_partial hr0 hidle hrunning hrun hAlive hNoShutdown hOthers
    hput hret₁ hlt₁ hsame₁ hdel hlt₁₂ hbetween hret₂ hlt₂ hsame₂ hAfter
  refine ⟨c₁, hc₁, ?_⟩
  intro m s hm hst hans
  obtain ⟨hnone, hkw, st₁, st₂, lo, d, hs₁, hs₂, hne, _, _, _, _, hcase⟩ := hall m s hm hst hans
  refine ⟨hnone, hkw, ⟨st₁, hs₁, hne⟩, ?_⟩
  intro hacc
  rw [hs₁] at hacc
  cases hacc
  rcases hcase with ⟨_, h2 | ⟨_, n, x, _, _, hat, hfr⟩⟩ | ⟨h1 | h1, _⟩
  · rw [hs₂, h2]
  · exact absurd hfr (hNoEviction n x hat)
  · cases h1
  · cases h1

/-! ## the `delete.mark` of the un-awaited delete: before or after the put's `store.put` -/

/-- **C11 / C04: the `delete.mark` of the un-awaited delete hits nothing, or the put — and the `Delete` command removes
    the entry either way.**  Same history, same NAMED side conditions as `C11_layerB_put_then_delete_partial`.
    `m₂` is the `delete.mark` action of the delete call (`hmark`: the `m₂`-th action is an action of client `i`, which
    stands at `delete.mark(k)`; it lies inside the call).  `c₁` is the put's command.  Then

    * (AFTER the `Delete`'s `store.remove`: never)  in every state after `r₂` in which the `Delete(k)` command neither
      waits in the queue nor is about to run its `store.remove` — i.e. from its `store.remove` on — `k` is ABSENT:
      every read finds nothing;
    and for the put's `store.put`, the action `p` (`PutPoint h p k c₁.id`, after the call returned: `r₁ < p`):
    * right after it the store holds the put's entry, value `v`, NOT soft-deleted;
    * (mark BEFORE the `store.put`, `m₂ < p`: it marked nothing of the put)  in every later state the entry of `k`, as
      long as there is one, is the put's — value `v`, key id `c₁.id`, NOT hidden: a read returns `v` (unless the entry
      has expired) although `delete(k)` has been called and may have RETURNED (`Spec.delete_returns_readable`) — until
      the `Delete` command, queued behind the put's, removes it (first clause);
    * (mark AFTER the `store.put`, `p < m₂`: it hits the put)  in every state after the mark the entry of `k`, as long
      as there is one, is soft-deleted: hidden AT ONCE, and for good. -/
theorem C11_layerB_delete_mark_hits_nothing_or_the_put {cfg : Cfg} {now : Nat} {seeds : List Nat} {clients : Nat}
    {b0 b : BState} {h : List (BState × Act)} (hr0 : Reach cfg now seeds clients b0)
    (hidle : ∀ pc ∈ b0.cl, pc = .idle) (hrunning : b0.g.shutting = false) (hrun : RunH b0 h b)
    (hAlive : b.w ≠ .dead) (hNoShutdown : ∀ j n, ¬ Issued h j .shutdown n)
    {i k v : Nat} {w : Int} {ttl : Option Nat} {n₁ r₁ n₂ r₂ h₁ h₂ : Nat}
    (hOthers : ∀ j q r, j ≠ i → Issued h j r q → reqOnK k r = false)
    (hput : Issued h i (.putW k v w ttl) n₁) (hret₁ : Returned h b i r₁ (.ack h₁ .pending)) (hlt₁ : n₁ < r₁)
    (hsame₁ : ∀ q r, n₁ < q → q < r₁ → ¬ Issued h i r q)
    (hdel : Issued h i (.delete k) n₂) (hlt₁₂ : r₁ < n₂) (hbetween : ∀ q r, r₁ < q → q < n₂ → ¬ Issued h i r q)
    (hret₂ : Returned h b i r₂ (.ack h₂ .pending)) (hlt₂ : n₂ < r₂)
    (hsame₂ : ∀ q r, n₂ < q → q < r₂ → ¬ Issued h i r q)
    (hAfter : ∀ q r, r₂ < q → Issued h i r q → reqOnK k r = false)
    {m₂ : Nat} {sm : BState} (hmark : At h m₂ (sm, .client i)) (hmpc : sm.cl[i]? = some (.delMark k))
    (hm₂ : n₂ < m₂ ∧ m₂ < r₂) :
    ∃ c₁ : PutCmd, IsCmd h i k v w ttl r₁ h₁ c₁ ∧
      (∀ m s, r₂ < m → StateAt h b m s → h₂ ∉ qHandles s.g.queue → s.w ≠ .delStore k (some h₂) →
        s.g.store.get? k = none) ∧
      ∀ p, r₁ < p → PutPoint h p k c₁.id →
        (∃ s' exp, StateAt h b (p + 1) s' ∧
          s'.g.store.get? k = some { value := v, id := c₁.id, expiry := exp, soft := false }) ∧
        (m₂ < p → ∀ m s, p < m → StateAt h b m s →
          ∀ e, s.g.store.get? k = some e → e.value = v ∧ e.id = c₁.id ∧ e.soft = false) ∧
        (p < m₂ → ∀ m s, m₂ < m → StateAt h b m s → ∀ e, s.g.store.get? k = some e → e.soft = true) := by
  obtain ⟨hq0, hw0⟩ := running_no_shutdown hr0 hrunning
  have sc : Scen h b i k v w ttl n₁ r₁ n₂ r₂ h₁ h₂ :=
    ⟨hNoShutdown, hOthers, hput, hret₁, hlt₁, hsame₁, hdel, hlt₁₂, hbetween, hret₂, hlt₂, hsame₂, hAfter⟩
  have hinv := main_inv hr0 hidle hrunning hq0 hw0 hrun hAlive sc
  obtain ⟨s0, s0', hx0, hst0', _, _⟩ := hret₁
  obtain ⟨H0, _, hlen0, _, _, hP2, _, _⟩ := hinv (r₁ + 1) s0' hst0'
  obtain ⟨_, c₁, hc₁, _⟩ := hP2 (by omega) (by omega)
  obtain ⟨hck, hcv, _, _, hch, _⟩ := hc₁
  have hc₁ : IsCmd h i k v w ttl r₁ h₁ c₁ := ⟨hck, hcv, by assumption, by assumption, hch, by assumption⟩
  have good := fun {m s} (hm : r₁ < m) (hst : StateAt h b m s) => good_at hrun sc hinv hc₁ hm hst
  obtain ⟨sR, _, hxR, _⟩ := hret₂
  -- what client `i` may issue after the mark
  have issOk : ∀ q s r, m₂ < q → At h q (s, .issue i r) → reqOnK k r = false := by
    intro q s r hq hx
    rcases Nat.lt_trichotomy q r₂ with hlt | heq | hgt
    · exact absurd ⟨s, hx⟩ (hsame₂ q r (by omega) hlt)
    · rw [heq] at hx; have := hx.inj hxR; cases this
    · exact hAfter q r hgt ⟨s, hx⟩
  -- right after the mark: client `i` stands at the `cmd.send` of the `Delete`, and whatever entry `k` has is hidden
  obtain ⟨sm', om, om', _, hstepm, hstm', _⟩ := runH_at hrun hmark
  have hltm : i < sm.cl.length := lt_of_getElem?_some hmpc
  have hmark' : PastMark i k sm' ∧ SoftK k sm' := by
    obtain ⟨_, _, ⟨hn, rfl⟩ | ⟨e, he, rfl⟩⟩ := ent_clientAct_delMark hmpc (by simpa [stepB] using hstepm)
    · refine ⟨fun pc hpc => Or.inl ?_, fun e he => ?_⟩
      · simp only [setClient, List.getElem?_set_self hltm, Option.some.injEq] at hpc; exact hpc.symm
      · simp only [setClient] at he; rw [hn] at he; cases he
    · refine ⟨fun pc hpc => Or.inl ?_, fun e' he' => ?_⟩
      · simp only [setClient, List.getElem?_set_self hltm, Option.some.injEq] at hpc; exact hpc.symm
      · simp only [setClient, AMap.get?_set_same, Option.some.injEq] at he'; rw [← he']
  have pastMark : ∀ d s, StateAt h b (m₂ + 1 + d) s → PastMark i k s := by
    refine run_induct' hr0 hrun (PastMark i k) ?_ hstm' hmark'.1
    intro d s s' a o o' hx _ hq hs
    have hst : StateAt h b (m₂ + 1 + d) s := Or.inr ⟨a, hx⟩
    exact pastMark_step (good (by omega) hst).1.flag hs (fun r e => issOk _ s r (by omega) (e ▸ hx)) hq
  refine ⟨c₁, hc₁, ?_, ?_⟩
  · intro m s hm hst hnq hnw
    obtain ⟨_, _, h4⟩ := good (by omega) hst
    obtain ⟨_, H, hpd⟩ := h4 hm
    rcases hpd with hpde | hpdl
    · rcases pde_waits hpde with hq | hw'
      · exact absurd hq hnq
      · exact absurd hw' hnw
    · exact pdl_absent hpdl
  · intro p hp ⟨x, v', hx, hisput⟩
    have hstp : StateAt h b p x.1 := Or.inr ⟨x.2, hx⟩
    obtain ⟨sp', exp, hstp', hpp', hent⟩ := after_putpoint hr0 hrun hck hcv hch hx hisput (good hp hstp).2.1
    -- from the `store.put` on: the put's `store.put` has run
    have pp : ∀ d s, StateAt h b (p + 1 + d) s → PP h₁ c₁ s :=
      run_induct hr0 hrun (PP h₁ c₁) (fun s s' a o o' hr hq hs => pp_step hch (hinv_reach hr) hq hs) hstp' hpp'
    refine ⟨⟨sp', exp, hstp', hent⟩, ?_, ?_⟩
    · -- the mark came first: the entry stays the put's, not hidden
      intro hmp
      have key : ∀ d s, StateAt h b (p + 1 + d) s → PP h₁ c₁ s ∧ ExactK k v c₁.id s ∧ PastMark i k s := by
        refine run_induct' hr0 hrun (fun s => PP h₁ c₁ s ∧ ExactK k v c₁.id s ∧ PastMark i k s) ?_ hstp' ⟨hpp', ?_, ?_⟩
        · intro d s s' a o o' hx' _ ⟨hq1, hq2, hq3⟩ hs
          have hst : StateAt h b (p + 1 + d) s := Or.inr ⟨a, hx'⟩
          have hrs := stateAt_reach hr0 hrun hst
          obtain ⟨he, hg, _⟩ := good (by omega) hst
          have hnp := good_nomoreput hch (hinv_reach hrs) hq1 hg
          obtain ⟨hnm, hnu⟩ := pastMark_no_mark he hq3
          exact ⟨pp_step hch (hinv_reach hrs) hq1 hs, exact_step hs hnp hnm hnu hq2,
            pastMark_step he.flag hs (fun r e => issOk _ s r (by omega) (e ▸ hx')) hq3⟩
        · intro e he; rw [hent] at he; cases he; exact ⟨rfl, rfl, rfl⟩
        · exact pastMark (p - m₂) sp' (by rw [show m₂ + 1 + (p - m₂) = p + 1 by omega]; exact hstp')
      intro m s hm hst
      exact (key (m - (p + 1)) s (by rw [show p + 1 + (m - (p + 1)) = m by omega]; exact hst)).2.1
    · -- the `store.put` came first: the mark hides the entry, for good
      intro hpm
      have key : ∀ d s, StateAt h b (m₂ + 1 + d) s → PP h₁ c₁ s ∧ SoftK k s := by
        refine run_induct' hr0 hrun (fun s => PP h₁ c₁ s ∧ SoftK k s) ?_ hstm' ⟨?_, hmark'.2⟩
        · intro d s s' a o o' hx' _ ⟨hq1, hq2⟩ hs
          have hst : StateAt h b (m₂ + 1 + d) s := Or.inr ⟨a, hx'⟩
          have hrs := stateAt_reach hr0 hrun hst
          obtain ⟨_, hg, _⟩ := good (by omega) hst
          have hnp := good_nomoreput hch (hinv_reach hrs) hq1 hg
          exact ⟨pp_step hch (hinv_reach hrs) hq1 hs, soft_step hs hnp hq2⟩
        · exact pp (m₂ - p) sm' (by rw [show p + 1 + (m₂ - p) = m₂ + 1 by omega]; exact hstm')
      intro m s hm hst
      exact (key (m - (m₂ + 1)) s (by rw [show m₂ + 1 + (m - (m₂ + 1)) = m by omega]; exact hst)).2

/-! ## C11: one client's commands are enqueued, executed and answered in the order of its calls -/

/-- **C11 (submission order, per client).**  ANY run from a reachable state.  Client `i` makes the call `reqA` (issued at
    `nA`, returns at `rA` with the pending acknowledgement `hA`: its command was enqueued) and the call `reqB` (issued at
    `nB`, returns at `rB` with the pending acknowledgement `hB`), `reqA` FIRST (`nA < nB`).  Then
    * the second call was issued only after the first had returned (`rA < nB`): a client thread runs one call at a time;
    * each call returned from its `cmd.send`, which put its command at the TAIL of the queue (`Sent`), with the next free
      handle — and `hA < hB`;
    * in EVERY state of the history the handles waiting in the queue are strictly increasing from head to tail: while
      both commands wait, A's is AHEAD of B's (with `C11_layerB_queue_step`: sends at the tail, takes at the head —
      and `C11_layerB_fifo`: the worker takes exactly in that order);
    * in every state after `rB`: if the worker holds B's command or has answered it, A's is ANSWERED — executed and
      answered in the order of the calls.
    No side condition: a dying worker answers neither (both stay pending), a draining worker answers both, in order. -/
theorem C11_layerB_queue_order_is_issue_order_per_client {cfg : Cfg} {now : Nat} {seeds : List Nat} {clients : Nat}
    {b0 b : BState} {h : List (BState × Act)} (hr0 : Reach cfg now seeds clients b0) (hrun : RunH b0 h b)
    {i nA rA nB rB hA hB : Nat} {reqA reqB : Req}
    (hissA : Issued h i reqA nA) (hretA : Returned h b i rA (.ack hA .pending)) (hltA : nA < rA)
    (hsameA : ∀ q r, nA < q → q < rA → ¬ Issued h i r q)
    (hissB : Issued h i reqB nB) (hretB : Returned h b i rB (.ack hB .pending)) (hltB : nB < rB) (hAB : nA < nB) :
    rA < nB ∧ hA < hB ∧ ∃ cA cB, Sent h b i rA cA hA ∧ Sent h b i rB cB hB ∧
      ∀ m s, StateAt h b m s →
        (qHandles s.g.queue).Pairwise (· < ·) ∧
        (rB < m → (s.w.held = some hB ∨ Answered s hB) → Answered s hA) := by
  have _ := hissA
  have _ := hltA
  -- a client's second call is issued only after its first returned
  have h1 : rA < nB := by
    rcases Nat.lt_trichotomy nB rA with hlt | heq | hgt
    · exact absurd hissB (hsameA nB reqB hAB hlt)
    · exfalso
      obtain ⟨s, hx⟩ := hissB
      obtain ⟨s0, _, hx0, _⟩ := hretA
      rw [heq] at hx
      have := hx.inj hx0
      cases this
    · exact hgt
  obtain ⟨cA, hsA⟩ := returned_sent hrun hretA
  obtain ⟨cB, hsB⟩ := returned_sent hrun hretB
  obtain ⟨sA, sA', hxA, hstA', hpcA, hhA, hqA, haA⟩ := hsA
  obtain ⟨sB, sB', hxB, hstB', hpcB, hhB, hqB, haB⟩ := hsB
  have hstB : StateAt h b rB sB := Or.inr ⟨_, hxB⟩
  -- the handles
  have h2 : hA < hB := by
    have := acks_mono hr0 hrun hstA' (rB - (rA + 1)) sB (by rw [show rA + 1 + (rB - (rA + 1)) = rB by omega]; exact hstB)
    rw [haA] at this
    simp only [List.length_append, List.length_singleton] at this
    omega
  refine ⟨h1, h2, cA, cB, ⟨sA, sA', hxA, hstA', hpcA, hhA, hqA, haA⟩, ⟨sB, sB', hxB, hstB', hpcB, hhB, hqB, haB⟩, ?_⟩
  intro m s hst
  refine ⟨qsorted_reach (stateAt_reach hr0 hrun hst), ?_⟩
  intro hm hB'
  -- A's command lives: from `rA + 1` on
  have lifeA : ∀ d s, StateAt h b (rA + 1 + d) s → LifeOf hA s :=
    run_induct hr0 hrun (LifeOf hA) (fun s s' a o o' hr hl hs => lifeOf_step (hinv_reach hr) hl hs) hstA'
      (Or.inl (by rw [hqA, qHandles_append_one]; simp))
  -- B's command is neither held nor answered while A's is not answered: from `rB + 1` on
  have hinvB' := hinv_reach (stateAt_reach hr0 hrun hstB')
  have hBq : hB ∈ qHandles sB'.g.queue := by rw [hqB, qHandles_append_one]; simp
  have bef : ∀ d s, StateAt h b (rB + 1 + d) s → LifeOf hA s ∧ Before hA hB s := by
    refine run_induct hr0 hrun (fun s => LifeOf hA s ∧ Before hA hB s) ?_ hstB' ⟨?_, ?_⟩
    · intro s s' a o o' hr ⟨hl, hbf⟩ hs
      exact ⟨lifeOf_step (hinv_reach hr) hl hs, before_step h2 (hinv_reach hr) (qsorted_reach hr) hl hbf hs⟩
    · exact lifeA (rB - rA) sB' (by rw [show rA + 1 + (rB - rA) = rB + 1 by omega]; exact hstB')
    · exact Or.inr ⟨hinvB'.queued hB hBq, fun e => (hinvB'.held hB e).2 hBq⟩
  obtain ⟨_, hbf⟩ := bef (m - (rB + 1)) s (by rw [show rB + 1 + (m - (rB + 1)) = m by omega]; exact hst)
  rcases hbf with hans | ⟨hp, hnh⟩
  · exact hans
  · rcases hB' with e | ⟨st, hst', hne⟩
    · exact absurd e hnh
    · rw [hp] at hst'; cases hst'; exact absurd rfl hne

/-! ## concrete runs: three clients (`cfgEx`: capacity 10, one expiry shard, command queue of 4) -/

namespace PD

def pdInit : BState := BState.init cfgEx 0 [1, 2, 3, 4] 3

def pdHist (l : List (Act × Oracle)) : List (BState × Act) :=
  match histOf pdInit l [] with
  | .ok (h, _) => h
  | .error _ => []

def pdFinal (l : List (Act × Oracle)) : BState :=
  match histOf pdInit l [] with
  | .ok (_, b) => b
  | .error _ => pdInit

def pdOk (l : List (Act × Oracle)) : Bool :=
  match histOf pdInit l [] with
  | .ok _ => true
  | .error _ => false

theorem pdRun {l : List (Act × Oracle)} (hok : pdOk l = true) : RunH pdInit (pdHist l) (pdFinal l) := by
  unfold pdOk at hok
  unfold pdHist pdFinal
  cases hh : histOf pdInit l [] with
  | error m => rw [hh] at hok; cases hok
  | ok p =>
    obtain ⟨h, b⟩ := p
    exact runH_histOf l (.nil _) hh

theorem pdIdle : ∀ pc ∈ pdInit.cl, pc = .idle := by
  intro pc hpc
  simp only [pdInit, BState.init, List.mem_replicate] at hpc
  exact hpc.2

theorem pdReach : Reach cfgEx 0 [1, 2, 3, 4] 3 pdInit := .init []

/-- a checkable form of "every `issue j r` of the history satisfies `P q j r`" (`q`: its index) -/
def issueAll (h : List (BState × Act)) (P : Nat → Nat → Req → Bool) : Bool :=
  (List.range h.length).all fun q =>
    match h.reverse[q]? with
    | some (_, .issue j r) => P q j r
    | _ => true

theorem issueAll_spec {h : List (BState × Act)} {P : Nat → Nat → Req → Bool} (hc : issueAll h P = true) :
    ∀ j q r, Issued h j r q → P q j r = true := by
  rintro j q r ⟨s, hx⟩
  have hq := hx.lt
  unfold issueAll at hc
  rw [List.all_eq_true] at hc
  have := hc q (List.mem_range.mpr hq)
  unfold At at hx
  rw [hx] at this
  exact this

def isShutdownReq : Req → Bool
  | .shutdown => true
  | _ => false

theorem noShutdown_check {h : List (BState × Act)} (hc : issueAll h (fun _ _ r => !isShutdownReq r) = true) :
    ∀ j n, ¬ Issued h j .shutdown n := by
  intro j n hi
  have := issueAll_spec hc j n _ hi
  simp [isShutdownReq] at this

theorem others_check {h : List (BState × Act)} {i k : Nat}
    (hc : issueAll h (fun _ j r => j == i || !reqOnK k r) = true) :
    ∀ j q r, j ≠ i → Issued h j r q → reqOnK k r = false := by
  intro j q r hj hi
  have := issueAll_spec hc j q r hi
  simpa [hj] using this

theorem after_check {h : List (BState × Act)} {i k r₂ : Nat}
    (hc : issueAll h (fun q j r => !(j == i && decide (r₂ < q)) || !reqOnK k r) = true) :
    ∀ q r, r₂ < q → Issued h i r q → reqOnK k r = false := by
  intro q r hq hi
  have := issueAll_spec hc i q r hi
  simpa [hq] using this

theorem alive_check {b : BState} (h : b.w.isDead = false) : b.w ≠ .dead := (WPc.isDead_false_iff _).mp h

/-- **The run of the finding.**  Client 0: `put(1)` (weight 3), returns at 4 with handle 0.  Client 1: `put(2)` with
    weight 8, handle 1 — queued BETWEEN.  Client 0: `delete(1)` un-awaited (issued at 10, returns at 13 with handle 2).
    The worker applies `put(1)` (`store.put` = action 19, `Accepted`); `put(2)` does not fit (free space 7 < 8): its
    `create_space` evicts key 1 (`store.remove` of the eviction = action 26), `put(2)` is accepted (31); then the
    `Delete(1)` command runs its `store.remove` (33), finds nothing and is answered `KeyDoesNotExist`. -/
def cex : List (Act × Oracle) :=
  call 0 (.putW 1 100 3 none) 4 ++ call 1 (.putW 2 200 8 none) 4 ++ call 0 (.delete 1) 3 ++ workerN 6 ++
  [(.worker, noO), (.worker, noO), (.worker, { dk := [false] }),
   (.worker, { dk := [false], ids := [1], pops := [some 1] })] ++ workerN 10

end PD

open PD in
/-- **FINDING: the literal clause of C11 is FALSE of the model (hence of the code).**  "A put followed without awaiting
    by a delete of the same key by the same caller … the delete is not answered 'key does not exist' when the put was
    accepted": in this history every hypothesis of `C11_layerB_put_then_delete_partial` holds — reachable start, clients
    idle, cache running, worker alive, no `shutdown()`, nobody else writes key 1, client 0 issues `put(1)`, gets the
    pending acknowledgement 0, then `delete(1)`, gets the pending acknowledgement 2 — the put IS `Accepted`, and the delete
    IS answered `KeyDoesNotExist`: another client's put, queued BETWEEN the two commands, evicted key 1 (action 26,
    between the put's `store.put` 19 and the `Delete`'s `store.remove` 33).  The caller cannot tell this from a put that
    never happened.  (The key is absent all the same, and its id is not charged: the partial theorem.) -/
theorem C11_layerB_put_then_delete_counterexample :
    RunH pdInit (pdHist cex) (pdFinal cex) ∧ Reach cfgEx 0 [1, 2, 3, 4] 3 pdInit ∧ (∀ pc ∈ pdInit.cl, pc = .idle) ∧
    pdInit.g.shutting = false ∧ (pdFinal cex).w ≠ .dead ∧ (∀ j n, ¬ Issued (pdHist cex) j .shutdown n) ∧
    (∀ j q r, j ≠ 0 → Issued (pdHist cex) j r q → reqOnK 1 r = false) ∧
    Issued (pdHist cex) 0 (.putW 1 100 3 none) 0 ∧ Returned (pdHist cex) (pdFinal cex) 0 4 (.ack 0 .pending) ∧
    (∀ q r, 0 < q → q < 4 → ¬ Issued (pdHist cex) 0 r q) ∧
    Issued (pdHist cex) 0 (.delete 1) 10 ∧ (∀ q r, 4 < q → q < 10 → ¬ Issued (pdHist cex) 0 r q) ∧
    Returned (pdHist cex) (pdFinal cex) 0 13 (.ack 2 .pending) ∧
    (∀ q r, 10 < q → q < 13 → ¬ Issued (pdHist cex) 0 r q) ∧
    (∀ q r, 13 < q → Issued (pdHist cex) 0 r q → reqOnK 1 r = false) ∧
    -- … and yet
    (pdFinal cex).g.acks[0]? = some .accepted ∧ (pdFinal cex).g.acks[2]? = some (.rejected .keyDoesNotExist) ∧
    PutPoint (pdHist cex) 19 1 1 ∧ DelAt (pdHist cex) 33 1 2 ∧ FRBetween (pdHist cex) 1 19 33 ∧
    (pdFinal cex).g.store.get? 1 = none ∧ (pdFinal cex).g.adm.kw.get? 1 = none := by
  refine ⟨pdRun (by decide), pdReach, pdIdle, rfl, alive_check (by decide), noShutdown_check (by decide),
    others_check (by decide), ⟨_, rfl⟩, ⟨_, _, rfl, Or.inr ⟨_, rfl⟩, rfl, rfl⟩, noIssue_check (by decide),
    ⟨_, rfl⟩, noIssue_check (by decide), ⟨_, _, rfl, Or.inr ⟨_, rfl⟩, rfl, rfl⟩, noIssue_check (by decide),
    after_check (by decide), by decide, by decide, ?_, ⟨_, rfl, rfl⟩, ?_, by decide, by decide⟩
  · exact ⟨_, 100, rfl, rfl, _, none, rfl, rfl, rfl, rfl, rfl⟩
  · exact ⟨26, _, by decide, by decide, rfl, Or.inl ⟨rfl, _, _, _, _, _, _, rfl, rfl, rfl⟩⟩

namespace PD

/-- **The run of the finding, sweeper variant** (one client suffices).  Client 0: `put(1)` with a time-to-live of 5 ns,
    `delete(1)` un-awaited (handles 0, 1).  The worker applies the put (`store.put` = action 14, `Accepted` at 15); the
    clock passes the deadline (16); a sweeper tick (17..22) evicts key 1 (its `store.remove` = action 21); the
    `Delete(1)` command (`store.remove` = action 24) finds nothing: `KeyDoesNotExist`. -/
def cexSweep : List (Act × Oracle) :=
  call 0 (.putW 1 100 3 (some 5)) 4 ++ call 0 (.delete 1) 3 ++ workerN 7 ++ [(.advance 10, noO)] ++
  [(.sweeper none, noO), (.sweeper (some 1), noO), (.sweeper none, noO), (.sweeper none, noO), (.sweeper none, noO),
   (.sweeper none, noO)] ++ workerN 2

end PD

open PD in
/-- **FINDING, sweeper variant**: the same with no other client at all — the put carries a time-to-live, the deadline
    passes before the worker reaches the `Delete`, the sweeper removes the entry (action 21), the delete is answered
    `KeyDoesNotExist` although the put was `Accepted`. -/
theorem C11_layerB_put_then_delete_counterexample_sweeper :
    RunH pdInit (pdHist cexSweep) (pdFinal cexSweep) ∧ (pdFinal cexSweep).w ≠ .dead ∧
    (∀ j n, ¬ Issued (pdHist cexSweep) j .shutdown n) ∧
    (∀ j q r, j ≠ 0 → Issued (pdHist cexSweep) j r q → reqOnK 1 r = false) ∧
    Issued (pdHist cexSweep) 0 (.putW 1 100 3 (some 5)) 0 ∧
    Returned (pdHist cexSweep) (pdFinal cexSweep) 0 4 (.ack 0 .pending) ∧
    (∀ q r, 0 < q → q < 4 → ¬ Issued (pdHist cexSweep) 0 r q) ∧
    Issued (pdHist cexSweep) 0 (.delete 1) 5 ∧ (∀ q r, 4 < q → q < 5 → ¬ Issued (pdHist cexSweep) 0 r q) ∧
    Returned (pdHist cexSweep) (pdFinal cexSweep) 0 8 (.ack 1 .pending) ∧
    (∀ q r, 5 < q → q < 8 → ¬ Issued (pdHist cexSweep) 0 r q) ∧
    (∀ q r, 8 < q → Issued (pdHist cexSweep) 0 r q → reqOnK 1 r = false) ∧
    (pdFinal cexSweep).g.acks = [.accepted, .rejected .keyDoesNotExist] ∧
    PutPoint (pdHist cexSweep) 14 1 1 ∧ DelAt (pdHist cexSweep) 24 1 1 ∧ FRBetween (pdHist cexSweep) 1 14 24 := by
  refine ⟨pdRun (by decide), alive_check (by decide), noShutdown_check (by decide), others_check (by decide),
    ⟨_, rfl⟩, ⟨_, _, rfl, Or.inr ⟨_, rfl⟩, rfl, rfl⟩, noIssue_check (by decide), ⟨_, rfl⟩, noIssue_check (by decide),
    ⟨_, _, rfl, Or.inr ⟨_, rfl⟩, rfl, rfl⟩, noIssue_check (by decide), after_check (by decide), by decide, ?_,
    ⟨_, rfl, rfl⟩, ?_⟩
  · exact ⟨_, 100, rfl, rfl, _, some 5, rfl, rfl, rfl, rfl, rfl⟩
  · exact ⟨21, _, by decide, by decide, rfl, Or.inr ⟨_, _, _, _, _, _, _, rfl, rfl, rfl, rfl, rfl⟩⟩

/-- … and what `C11_layerB_put_then_delete_partial` says about that run: the key is absent, the id not charged, the put
    answered first — and the `KeyDoesNotExist` comes with the eviction in the history. -/
example : ∃ c₁ : PutCmd, IsCmd (PD.pdHist PD.cex) 0 1 100 3 none 4 0 c₁ ∧
    ∀ m s, 13 < m → StateAt (PD.pdHist PD.cex) (PD.pdFinal PD.cex) m s → Answered s 2 →
      s.g.store.get? 1 = none ∧ s.g.adm.kw.get? c₁.id = none ∧
      ∃ st₁ st₂ lo d, s.g.acks[0]? = some st₁ ∧ s.g.acks[2]? = some st₂ ∧ st₁ ≠ .pending ∧
        lo ≤ d ∧ d < m ∧ DelAt (PD.pdHist PD.cex) d 1 2 ∧ (st₁ = .accepted → PutPoint (PD.pdHist PD.cex) lo 1 c₁.id) ∧
        (((st₁ = .accepted ∨ st₁ = .rejected .keyAlreadyExists) ∧
            (st₂ = .accepted ∨ (st₂ = .rejected .keyDoesNotExist ∧ FRBetween (PD.pdHist PD.cex) 1 lo d))) ∨
         ((st₁ = .rejected .tooHeavy ∨ st₁ = .rejected .noSpace) ∧ st₂ = .rejected .keyDoesNotExist)) :=
  have w := C11_layerB_put_then_delete_counterexample
  C11_layerB_put_then_delete_partial w.2.1 w.2.2.1 w.2.2.2.1 w.1 w.2.2.2.2.1 w.2.2.2.2.2.1 w.2.2.2.2.2.2.1
    w.2.2.2.2.2.2.2.1 w.2.2.2.2.2.2.2.2.1 (by decide) w.2.2.2.2.2.2.2.2.2.1 w.2.2.2.2.2.2.2.2.2.2.1 (by decide)
    w.2.2.2.2.2.2.2.2.2.2.2.1 w.2.2.2.2.2.2.2.2.2.2.2.2.1 (by decide) w.2.2.2.2.2.2.2.2.2.2.2.2.2.1
    w.2.2.2.2.2.2.2.2.2.2.2.2.2.2.1

namespace PD

/-- **The run of the non-vacuity example**: three clients.  Client 0 does `put(1); delete(1)` un-awaited; clients 1 and 2
    enqueue commands on other keys IN BETWEEN client 0's two commands and read key 1 at various moments; the sweeper
    ticks; the clock moves.  The queue, when the `Delete(1)` is sent: `Put(1)`, `Put(2)`, `Put(3)`, `Delete(1)`. -/
def nv : List (Act × Oracle) :=
  call 0 (.putW 1 100 3 none) 4 ++                       -- 0..4   put(1) of client 0: returns at 4 with handle 0
  call 1 (.putW 2 200 2 none) 4 ++                       -- 5..9   client 1: put(2), handle 1 — queued BETWEEN
  call 2 (.get 1) 2 ++                                   -- 10..12 client 2 reads key 1: nothing yet
  [(.issue 0 (.delete 1), noO), (.client 0, noO), (.client 0, noO)] ++   -- 13 issue; 14; 15 = delete.mark: marks nothing
  call 2 (.putW 3 300 2 none) 4 ++                       -- 16..20 client 2: put(3), handle 2 — queued BETWEEN
  [(.client 0, noO)] ++                                  -- 21     cmd.send of Delete(1): handle 3; the call returns
  workerN 6 ++                                           -- 22..27 the worker applies put(1): store.put = 27
  [(.sweeper none, noO), (.sweeper none, noO)] ++        -- 28, 29 a sweeper tick
  [(.issue 1 (.get 1), noO), (.client 1, noO), (.client 1, noO), (.client 1, { pool := [0] })] ++
                                                         -- 30..33 client 1 reads key 1: `Some(100)` — the window
  [(.advance 5, noO)] ++                                 -- 34     the clock moves
  workerN 6 ++ workerN 6 ++                              -- 35..46 the worker applies put(2), put(3)
  workerN 4 ++                                           -- 47..50 Delete(1): take, store.remove = 48, kw.remove, wu.sub
  call 2 (.get 1) 2                                      -- 51..53 client 2 reads key 1: nothing

end PD

open PD in
/-- **Non-vacuity of `C11_layerB_put_then_delete_partial`**: every hypothesis holds in the run `nv` (three clients,
    other clients' commands between the two commands, reads of key 1, a sweeper tick, a clock move), both commands are
    answered `Accepted`, in submission order, and between the put's `store.put` (27) and the `Delete`'s `store.remove`
    (48) another client READS the value (`Some(100)`, returned at 33: the `delete.mark` at 15 came before the
    `store.put` and marked nothing); after the `store.remove` a read finds nothing. -/
theorem C11_layerB_put_then_delete_witness :
    RunH pdInit (pdHist nv) (pdFinal nv) ∧ Reach cfgEx 0 [1, 2, 3, 4] 3 pdInit ∧ (∀ pc ∈ pdInit.cl, pc = .idle) ∧
    pdInit.g.shutting = false ∧ (pdFinal nv).w ≠ .dead ∧ (∀ j n, ¬ Issued (pdHist nv) j .shutdown n) ∧
    (∀ j q r, j ≠ 0 → Issued (pdHist nv) j r q → reqOnK 1 r = false) ∧
    Issued (pdHist nv) 0 (.putW 1 100 3 none) 0 ∧ Returned (pdHist nv) (pdFinal nv) 0 4 (.ack 0 .pending) ∧
    (∀ q r, 0 < q → q < 4 → ¬ Issued (pdHist nv) 0 r q) ∧
    Issued (pdHist nv) 0 (.delete 1) 13 ∧ (∀ q r, 4 < q → q < 13 → ¬ Issued (pdHist nv) 0 r q) ∧
    Returned (pdHist nv) (pdFinal nv) 0 21 (.ack 3 .pending) ∧
    (∀ q r, 13 < q → q < 21 → ¬ Issued (pdHist nv) 0 r q) ∧
    (∀ q r, 21 < q → Issued (pdHist nv) 0 r q → reqOnK 1 r = false) ∧
    -- other clients' commands BETWEEN the two, reads of key 1
    Returned (pdHist nv) (pdFinal nv) 1 9 (.ack 1 .pending) ∧ Returned (pdHist nv) (pdFinal nv) 2 20 (.ack 2 .pending) ∧
    Returned (pdHist nv) (pdFinal nv) 2 12 (.value none) ∧ Returned (pdHist nv) (pdFinal nv) 1 33 (.value (some 100)) ∧
    Returned (pdHist nv) (pdFinal nv) 2 53 (.value none) ∧
    -- the outcome
    (pdFinal nv).g.acks = [.accepted, .accepted, .accepted, .accepted] ∧
    PutPoint (pdHist nv) 27 1 1 ∧ DelAt (pdHist nv) 48 1 3 ∧
    (pdFinal nv).g.store.get? 1 = none ∧ (pdFinal nv).g.adm.kw.get? 1 = none := by
  refine ⟨pdRun (by decide), pdReach, pdIdle, rfl, alive_check (by decide), noShutdown_check (by decide),
    others_check (by decide), ⟨_, rfl⟩, ⟨_, _, rfl, Or.inr ⟨_, rfl⟩, rfl, rfl⟩, noIssue_check (by decide),
    ⟨_, rfl⟩, noIssue_check (by decide), ⟨_, _, rfl, Or.inr ⟨_, rfl⟩, rfl, rfl⟩, noIssue_check (by decide),
    after_check (by decide), ⟨_, _, rfl, Or.inr ⟨_, rfl⟩, rfl, rfl⟩, ⟨_, _, rfl, Or.inr ⟨_, rfl⟩, rfl, rfl⟩,
    ⟨_, _, rfl, Or.inr ⟨_, rfl⟩, rfl, rfl⟩, ⟨_, _, rfl, Or.inr ⟨_, rfl⟩, rfl, rfl⟩,
    ⟨_, _, rfl, Or.inl ⟨rfl, rfl⟩, rfl, rfl⟩, by decide, ?_, ⟨_, rfl, rfl⟩, by decide, by decide⟩
  exact ⟨_, 100, rfl, rfl, _, none, rfl, rfl, rfl, rfl, rfl⟩

/-- the conclusion of `C11_layerB_put_then_delete_partial` for that run -/
example : ∃ c₁ : PutCmd, IsCmd (PD.pdHist PD.nv) 0 1 100 3 none 4 0 c₁ ∧
    ∀ m s, 21 < m → StateAt (PD.pdHist PD.nv) (PD.pdFinal PD.nv) m s → Answered s 3 →
      s.g.store.get? 1 = none ∧ s.g.adm.kw.get? c₁.id = none ∧
      ∃ st₁ st₂ lo d, s.g.acks[0]? = some st₁ ∧ s.g.acks[3]? = some st₂ ∧ st₁ ≠ .pending ∧
        lo ≤ d ∧ d < m ∧ DelAt (PD.pdHist PD.nv) d 1 3 ∧ (st₁ = .accepted → PutPoint (PD.pdHist PD.nv) lo 1 c₁.id) ∧
        (((st₁ = .accepted ∨ st₁ = .rejected .keyAlreadyExists) ∧
            (st₂ = .accepted ∨ (st₂ = .rejected .keyDoesNotExist ∧ FRBetween (PD.pdHist PD.nv) 1 lo d))) ∨
         ((st₁ = .rejected .tooHeavy ∨ st₁ = .rejected .noSpace) ∧ st₂ = .rejected .keyDoesNotExist)) :=
  have w := C11_layerB_put_then_delete_witness
  C11_layerB_put_then_delete_partial w.2.1 w.2.2.1 w.2.2.2.1 w.1 w.2.2.2.2.1 w.2.2.2.2.2.1 w.2.2.2.2.2.2.1
    w.2.2.2.2.2.2.2.1 w.2.2.2.2.2.2.2.2.1 (by decide) w.2.2.2.2.2.2.2.2.2.1 w.2.2.2.2.2.2.2.2.2.2.1 (by decide)
    w.2.2.2.2.2.2.2.2.2.2.2.1 w.2.2.2.2.2.2.2.2.2.2.2.2.1 (by decide) w.2.2.2.2.2.2.2.2.2.2.2.2.2.1
    w.2.2.2.2.2.2.2.2.2.2.2.2.2.2.1

namespace PD

/-- client 0: `put(1); delete(1)` un-awaited, both executed; THEN client 1 puts key 1 -/
def otherWriter : List (Act × Oracle) :=
  call 0 (.putW 1 100 3 none) 4 ++ call 0 (.delete 1) 3 ++ workerN 6 ++ workerN 4 ++
  call 1 (.putW 1 111 3 none) 4 ++ workerN 6

end PD

open PD in
/-- **The hypothesis "no OTHER client issues a put / upsert / delete of `k`" is needed**: in this history every other
    hypothesis holds, `h₂ = 1` is answered (`Accepted`) — and in the final state key 1 is PRESENT, because client 1 put
    it afterwards (issued at 19). -/
theorem C11_layerB_put_then_delete_needs_no_other_writer :
    RunH pdInit (pdHist otherWriter) (pdFinal otherWriter) ∧ (pdFinal otherWriter).w ≠ .dead ∧
    (∀ j n, ¬ Issued (pdHist otherWriter) j .shutdown n) ∧
    Issued (pdHist otherWriter) 0 (.putW 1 100 3 none) 0 ∧
    Returned (pdHist otherWriter) (pdFinal otherWriter) 0 4 (.ack 0 .pending) ∧
    (∀ q r, 0 < q → q < 4 → ¬ Issued (pdHist otherWriter) 0 r q) ∧
    Issued (pdHist otherWriter) 0 (.delete 1) 5 ∧ (∀ q r, 4 < q → q < 5 → ¬ Issued (pdHist otherWriter) 0 r q) ∧
    Returned (pdHist otherWriter) (pdFinal otherWriter) 0 8 (.ack 1 .pending) ∧
    (∀ q r, 5 < q → q < 8 → ¬ Issued (pdHist otherWriter) 0 r q) ∧
    (∀ q r, 8 < q → Issued (pdHist otherWriter) 0 r q → reqOnK 1 r = false) ∧
    -- the hypothesis that fails: client 1 issues `put(1)` at 19
    Issued (pdHist otherWriter) 1 (.putW 1 111 3 none) 19 ∧
    -- `h₂` is answered, and the key is present
    Answered (pdFinal otherWriter) 1 ∧
    (pdFinal otherWriter).g.store.get? 1 = some ⟨111, 2, none, false⟩ := by
  refine ⟨pdRun (by decide), alive_check (by decide), noShutdown_check (by decide), ⟨_, rfl⟩,
    ⟨_, _, rfl, Or.inr ⟨_, rfl⟩, rfl, rfl⟩, noIssue_check (by decide), ⟨_, rfl⟩, noIssue_check (by decide),
    ⟨_, _, rfl, Or.inr ⟨_, rfl⟩, rfl, rfl⟩, noIssue_check (by decide), after_check (by decide), ⟨_, rfl⟩,
    ⟨.accepted, by decide, by decide⟩, by decide⟩

/-! ### the two orders of `delete.mark` and `store.put`; the order of one client's commands -/

/-- `C11_layerB_delete_mark_hits_nothing_or_the_put` on the run `nv`: the `delete.mark` (action 15) comes BEFORE the
    put's `store.put` (action 27) — every hypothesis holds, and the conclusion for `p = 27`. -/
example : ∃ c₁ : PutCmd, IsCmd (PD.pdHist PD.nv) 0 1 100 3 none 4 0 c₁ ∧
    (∀ m s, 21 < m → StateAt (PD.pdHist PD.nv) (PD.pdFinal PD.nv) m s → 3 ∉ qHandles s.g.queue →
      s.w ≠ .delStore 1 (some 3) → s.g.store.get? 1 = none) ∧
    ∀ p, 4 < p → PutPoint (PD.pdHist PD.nv) p 1 c₁.id →
      (∃ s' exp, StateAt (PD.pdHist PD.nv) (PD.pdFinal PD.nv) (p + 1) s' ∧
        s'.g.store.get? 1 = some { value := 100, id := c₁.id, expiry := exp, soft := false }) ∧
      (15 < p → ∀ m s, p < m → StateAt (PD.pdHist PD.nv) (PD.pdFinal PD.nv) m s →
        ∀ e, s.g.store.get? 1 = some e → e.value = 100 ∧ e.id = c₁.id ∧ e.soft = false) ∧
      (p < 15 → ∀ m s, 15 < m → StateAt (PD.pdHist PD.nv) (PD.pdFinal PD.nv) m s →
        ∀ e, s.g.store.get? 1 = some e → e.soft = true) := by
  obtain ⟨a1, a2, a3, a4, a5, a6, a7, a8, a9, a10, a11, a12, a13, a14, a15, _⟩ := C11_layerB_put_then_delete_witness
  exact C11_layerB_delete_mark_hits_nothing_or_the_put a2 a3 a4 a1 a5 a6 a7 a8 a9 (by decide) a10 a11 (by decide) a12
    a13 (by decide) a14 a15 (m₂ := 15) (sm := _) (show At (PD.pdHist PD.nv) 15 (_, .client 0) from rfl) rfl
    ⟨by decide, by decide⟩

namespace PD

/-- the OTHER order: the worker applies `put(1)` (`store.put` = action 10) BEFORE client 0 calls `delete(1)`: the
    `delete.mark` (action 13) hits the put's entry; client 1's read (14..16) finds nothing although the entry is still in
    the store; the `Delete(1)` command (sent at 17, handle 1) removes it (`store.remove` = action 19). -/
def hid : List (Act × Oracle) :=
  call 0 (.putW 1 100 3 none) 4 ++ workerN 6 ++
  [(.issue 0 (.delete 1), noO), (.client 0, noO), (.client 0, noO)] ++
  call 1 (.get 1) 2 ++ [(.client 0, noO)] ++ workerN 4 ++ call 2 (.get 1) 2

end PD

open PD in
/-- **Non-vacuity, the other order** (`store.put` 10 < `delete.mark` 13): every hypothesis of
    `C11_layerB_delete_mark_hits_nothing_or_the_put` holds in the run `hid`; after the mark the entry is in the store,
    soft-deleted, and a read returns nothing. -/
theorem C11_layerB_delete_mark_after_put_witness :
    RunH pdInit (pdHist hid) (pdFinal hid) ∧ Reach cfgEx 0 [1, 2, 3, 4] 3 pdInit ∧ (∀ pc ∈ pdInit.cl, pc = .idle) ∧
    pdInit.g.shutting = false ∧ (pdFinal hid).w ≠ .dead ∧ (∀ j n, ¬ Issued (pdHist hid) j .shutdown n) ∧
    (∀ j q r, j ≠ 0 → Issued (pdHist hid) j r q → reqOnK 1 r = false) ∧
    Issued (pdHist hid) 0 (.putW 1 100 3 none) 0 ∧ Returned (pdHist hid) (pdFinal hid) 0 4 (.ack 0 .pending) ∧
    (∀ q r, 0 < q → q < 4 → ¬ Issued (pdHist hid) 0 r q) ∧
    Issued (pdHist hid) 0 (.delete 1) 11 ∧ (∀ q r, 4 < q → q < 11 → ¬ Issued (pdHist hid) 0 r q) ∧
    Returned (pdHist hid) (pdFinal hid) 0 17 (.ack 1 .pending) ∧
    (∀ q r, 11 < q → q < 17 → ¬ Issued (pdHist hid) 0 r q) ∧
    (∀ q r, 17 < q → Issued (pdHist hid) 0 r q → reqOnK 1 r = false) ∧
    PutPoint (pdHist hid) 10 1 1 ∧ MarkPoint (pdHist hid) 13 1 ∧ DelAt (pdHist hid) 19 1 1 ∧
    (∃ s, StateAt (pdHist hid) (pdFinal hid) 14 s ∧ s.g.store.get? 1 = some ⟨100, 1, none, true⟩) ∧
    Returned (pdHist hid) (pdFinal hid) 1 16 (.value none) ∧
    (pdFinal hid).g.acks = [.accepted, .accepted] ∧ (pdFinal hid).g.store.get? 1 = none := by
  refine ⟨pdRun (by decide), pdReach, pdIdle, rfl, alive_check (by decide), noShutdown_check (by decide),
    others_check (by decide), ⟨_, rfl⟩, ⟨_, _, rfl, Or.inr ⟨_, rfl⟩, rfl, rfl⟩, noIssue_check (by decide),
    ⟨_, rfl⟩, noIssue_check (by decide), ⟨_, _, rfl, Or.inr ⟨_, rfl⟩, rfl, rfl⟩, noIssue_check (by decide),
    after_check (by decide), ?_, ⟨_, rfl, 0, _, rfl, rfl, rfl⟩, ⟨_, rfl, rfl⟩, ⟨_, Or.inr ⟨_, rfl⟩, by decide⟩,
    ⟨_, _, rfl, Or.inr ⟨_, rfl⟩, rfl, rfl⟩, by decide, by decide⟩
  exact ⟨_, 100, rfl, rfl, _, none, rfl, rfl, rfl, rfl, rfl⟩

/-- … and the conclusion for `p = 10`, `m₂ = 13`: from the mark on every entry of key 1 is hidden -/
example : ∀ m s, 13 < m → StateAt (PD.pdHist PD.hid) (PD.pdFinal PD.hid) m s →
    ∀ e, s.g.store.get? 1 = some e → e.soft = true := by
  obtain ⟨a1, a2, a3, a4, a5, a6, a7, a8, a9, a10, a11, a12, a13, a14, a15, a16, _⟩ :=
    C11_layerB_delete_mark_after_put_witness
  obtain ⟨c₁, hc₁, _, hp⟩ := C11_layerB_delete_mark_hits_nothing_or_the_put a2 a3 a4 a1 a5 a6 a7 a8 a9 (by decide) a10
    a11 (by decide) a12 a13 (by decide) a14 a15 (m₂ := 13) (sm := _)
    (show At (PD.pdHist PD.hid) 13 (_, .client 0) from rfl) rfl ⟨by decide, by decide⟩
  -- the put's command carries the key id 1
  have hid1 : c₁.id = 1 := by
    obtain ⟨_, _, _, _, _, s, hx, hpc⟩ := hc₁
    have hx' : At (PD.pdHist PD.hid) 4 (_, .client 0) := rfl
    have := hx.inj hx'
    cases this
    have hpc' : (PD.pdHist PD.hid).reverse[4]?.map (fun x => x.1.cl[0]?) = some (some (.send (.put 1 1 3 1 100))) := rfl
    obtain ⟨id, hash, w, k, v, ttl, hh⟩ := c₁
    cases ttl <;> simp_all [cmdOfPut, At]
  exact (hp 10 (by decide) (hid1 ▸ a16)).2.2 (by decide)

/-- `C11_layerB_queue_order_is_issue_order_per_client` on the run `nv`: client 0's `put(1)` (0..4, handle 0) and
    `delete(1)` (13..21, handle 3) -/
example : 4 < 13 ∧ 0 < 3 ∧ ∃ cA cB, Sent (PD.pdHist PD.nv) (PD.pdFinal PD.nv) 0 4 cA 0 ∧
    Sent (PD.pdHist PD.nv) (PD.pdFinal PD.nv) 0 21 cB 3 ∧
    ∀ m s, StateAt (PD.pdHist PD.nv) (PD.pdFinal PD.nv) m s →
      (qHandles s.g.queue).Pairwise (· < ·) ∧ (21 < m → (s.w.held = some 3 ∨ Answered s 3) → Answered s 0) := by
  obtain ⟨a1, a2, _, _, _, _, _, a8, a9, a10, a11, _, a13, _⟩ := C11_layerB_put_then_delete_witness
  exact C11_layerB_queue_order_is_issue_order_per_client a2 a1 a8 a9 (by decide) a10 a11 a13 (by decide) (by decide)

/-! ### the two refusals of the put -/

namespace PD

/-- client 0: `put(1, 100)`, `put(1, 111)`, `delete(1)` — none awaited.  The second put passes the caller's presence
    check (the first is not applied yet); the worker accepts the first, refuses the second as `KeyAlreadyExists`, and
    the `Delete(1)` removes the FIRST put's entry: `Accepted`. -/
def putPutDel : List (Act × Oracle) :=
  call 0 (.putW 1 100 3 none) 4 ++ call 0 (.putW 1 111 3 none) 4 ++ call 0 (.delete 1) 3 ++ workerN 6 ++ workerN 2 ++
  workerN 4

/-- client 0: a put heavier than the cache (weight 11 > 10), then `delete(1)`: `tooHeavy`, then `KeyDoesNotExist` -/
def heavy : List (Act × Oracle) :=
  call 0 (.putW 1 100 11 none) 4 ++ call 0 (.delete 1) 3 ++ workerN 2 ++ workerN 2

end PD

open PD in
/-- **Non-vacuity of the `KeyAlreadyExists` branch** ("a put queued BEFORE by the same client is in flight"): the scenario
    is the SECOND put (issued at 5, handle 1) and the delete (issued at 10, handle 2); every hypothesis holds; the put is
    refused as existing, the delete is `Accepted`. -/
theorem C11_layerB_put_then_delete_exists_witness :
    RunH pdInit (pdHist putPutDel) (pdFinal putPutDel) ∧ (pdFinal putPutDel).w ≠ .dead ∧
    (∀ j n, ¬ Issued (pdHist putPutDel) j .shutdown n) ∧
    (∀ j q r, j ≠ 0 → Issued (pdHist putPutDel) j r q → reqOnK 1 r = false) ∧
    Issued (pdHist putPutDel) 0 (.putW 1 111 3 none) 5 ∧ Returned (pdHist putPutDel) (pdFinal putPutDel) 0 9 (.ack 1 .pending) ∧
    (∀ q r, 5 < q → q < 9 → ¬ Issued (pdHist putPutDel) 0 r q) ∧
    Issued (pdHist putPutDel) 0 (.delete 1) 10 ∧ (∀ q r, 9 < q → q < 10 → ¬ Issued (pdHist putPutDel) 0 r q) ∧
    Returned (pdHist putPutDel) (pdFinal putPutDel) 0 13 (.ack 2 .pending) ∧
    (∀ q r, 10 < q → q < 13 → ¬ Issued (pdHist putPutDel) 0 r q) ∧
    (∀ q r, 13 < q → Issued (pdHist putPutDel) 0 r q → reqOnK 1 r = false) ∧
    (pdFinal putPutDel).g.acks = [.accepted, .rejected .keyAlreadyExists, .accepted] ∧
    (pdFinal putPutDel).g.store.get? 1 = none := by
  refine ⟨pdRun (by decide), alive_check (by decide), noShutdown_check (by decide), others_check (by decide),
    ⟨_, rfl⟩, ⟨_, _, rfl, Or.inr ⟨_, rfl⟩, rfl, rfl⟩, noIssue_check (by decide), ⟨_, rfl⟩, noIssue_check (by decide),
    ⟨_, _, rfl, Or.inr ⟨_, rfl⟩, rfl, rfl⟩, noIssue_check (by decide), after_check (by decide), by decide, by decide⟩

/-- … `C11_layerB_put_then_delete_partial` applies to it -/
example : ∃ c₁ : PutCmd, IsCmd (PD.pdHist PD.putPutDel) 0 1 111 3 none 9 1 c₁ ∧
    ∀ m s, 13 < m → StateAt (PD.pdHist PD.putPutDel) (PD.pdFinal PD.putPutDel) m s → Answered s 2 →
      s.g.store.get? 1 = none ∧ s.g.adm.kw.get? c₁.id = none ∧ Answered s 1 := by
  obtain ⟨a1, a2, a3, a4, a5, a6, a7, a8, a9, a10, a11, a12, _⟩ := C11_layerB_put_then_delete_exists_witness
  obtain ⟨c₁, hc₁, hall⟩ := C11_layerB_put_then_delete_partial PD.pdReach PD.pdIdle rfl a1 a2 a3 a4 a5 a6 (by decide) a7
    a8 (by decide) a9 a10 (by decide) a11 a12
  refine ⟨c₁, hc₁, fun m s hm hst hans => ?_⟩
  obtain ⟨h1, h2, st₁, _, _, _, hs₁, _, hne, _⟩ := hall m s hm hst hans
  exact ⟨h1, h2, st₁, hs₁, hne⟩

open PD in
/-- **Non-vacuity of the admission-refusal branch**: the put is refused as too heavy, the delete is answered
    `KeyDoesNotExist` — every hypothesis of `C11_layerB_put_then_delete_partial` holds. -/
theorem C11_layerB_put_then_delete_tooHeavy_witness :
    RunH pdInit (pdHist heavy) (pdFinal heavy) ∧ (pdFinal heavy).w ≠ .dead ∧
    (∀ j n, ¬ Issued (pdHist heavy) j .shutdown n) ∧
    (∀ j q r, j ≠ 0 → Issued (pdHist heavy) j r q → reqOnK 1 r = false) ∧
    Issued (pdHist heavy) 0 (.putW 1 100 11 none) 0 ∧ Returned (pdHist heavy) (pdFinal heavy) 0 4 (.ack 0 .pending) ∧
    (∀ q r, 0 < q → q < 4 → ¬ Issued (pdHist heavy) 0 r q) ∧
    Issued (pdHist heavy) 0 (.delete 1) 5 ∧ (∀ q r, 4 < q → q < 5 → ¬ Issued (pdHist heavy) 0 r q) ∧
    Returned (pdHist heavy) (pdFinal heavy) 0 8 (.ack 1 .pending) ∧
    (∀ q r, 5 < q → q < 8 → ¬ Issued (pdHist heavy) 0 r q) ∧
    (∀ q r, 8 < q → Issued (pdHist heavy) 0 r q → reqOnK 1 r = false) ∧
    (pdFinal heavy).g.acks = [.rejected .tooHeavy, .rejected .keyDoesNotExist] := by
  refine ⟨pdRun (by decide), alive_check (by decide), noShutdown_check (by decide), others_check (by decide),
    ⟨_, rfl⟩, ⟨_, _, rfl, Or.inr ⟨_, rfl⟩, rfl, rfl⟩, noIssue_check (by decide), ⟨_, rfl⟩, noIssue_check (by decide),
    ⟨_, _, rfl, Or.inr ⟨_, rfl⟩, rfl, rfl⟩, noIssue_check (by decide), after_check (by decide), by decide⟩

end B
end Cached
