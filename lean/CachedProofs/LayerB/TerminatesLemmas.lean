/-
  C18 at ACTION granularity, TERMINATION of the internal actions — definitions and the per-thread lemmas.
  (The theorems are in `CachedProofs/LayerB/Terminates.lean`.)

    1  lists and association lists: sums over `List.set`, `tm_stale` (sample entries whose id is no longer charged)
    2  the parts of the measure: `tm_own`, `tm_cmds` (clients), `tm_sw` (sweeper), `tm_S`, `tm_U`, `tm_ins`, `tm_cur`,
       `tm_Wf` (worker), `mu`
    3  the invariant `tm_VND` (the worker's sample, WITH the victim in hand at `kw.remove`, has pairwise distinct ids)
    4  one step of each thread: what it does to the parts (`tm_client_step`, `tm_sweeper_step`, `tm_consumer_step`,
       `tm_worker_step`)
-/
import CachedProofs.LayerB.NoDeadlock

namespace Cached
namespace B

/-! ## 1  lists -/

theorem tm_sum_set (f : CPc → Nat) : ∀ (cl : List CPc) (i : Nat) (pc pc' : CPc), cl[i]? = some pc →
    ((cl.set i pc').map f).sum + f pc = (cl.map f).sum + f pc' := by
  intro cl
  induction cl with
  | nil => intro i pc pc' h; simp at h
  | cons x rest ih =>
    intro i pc pc' h
    cases i with
    | zero =>
      simp only [List.getElem?_cons_zero, Option.some.injEq] at h
      subst h
      simp only [List.set_cons_zero, List.map_cons, List.sum_cons]
      omega
    | succ j =>
      simp only [List.getElem?_cons_succ] at h
      have := ih j pc pc' h
      simp only [List.set_cons_succ, List.map_cons, List.sum_cons]
      omega

/-- sample entries whose id is not charged (any more): another thread has taken the id out of `key_weights` since the
    entry was sampled -/
def tm_stale (kw : AMap Nat WKey) (S : List SKey) : Nat := S.countP (fun x => !(kw.contains x.id))

@[simp] theorem tm_stale_nil (kw : AMap Nat WKey) : tm_stale kw [] = 0 := rfl

theorem tm_stale_cons (kw : AMap Nat WKey) (x : SKey) (S : List SKey) :
    tm_stale kw (x :: S) = tm_stale kw S + (!kw.contains x.id).toNat := by
  unfold tm_stale
  rw [List.countP_cons]
  cases kw.contains x.id <;> simp

/-- taking an id out of `kw` makes stale at most the sample entries that carry it -/
theorem tm_stale_del (kw : AMap Nat WKey) (id : Nat) (S : List SKey) :
    tm_stale (kw.del id) S ≤ tm_stale kw S + S.countP (fun x => x.id == id) := by
  induction S with
  | nil => simp
  | cons x rest ih =>
    rw [tm_stale_cons, tm_stale_cons, List.countP_cons]
    by_cases hx : x.id = id
    · subst hx
      have h1 : (kw.del x.id).contains x.id = false := by simp [AMap.contains]
      rw [h1]
      cases kw.contains x.id <;> simp <;> omega
    · have h0 : (x.id == id) = false := by simpa using hx
      have h1 : (kw.del id).contains x.id = kw.contains x.id := by
        simp only [AMap.contains, AMap.get?_del_other kw (fun e => hx e.symm)]
      rw [h1, h0]
      simp only [Bool.false_eq_true, if_false]
      omega

theorem tm_countP_id_of_nd {S : List SKey} (h : SampleND S) (id : Nat) : S.countP (fun x => x.id == id) ≤ 1 := by
  induction S with
  | nil => simp
  | cons x rest ih =>
    unfold SampleND at h
    rw [List.map_cons, List.nodup_cons] at h
    rw [List.countP_cons]
    by_cases hx : x.id = id
    · have hz : rest.countP (fun y => y.id == id) = 0 := by
        rw [List.countP_eq_zero]
        intro y hy hid
        have : y.id = id := by simpa using hid
        exact h.1 (by rw [hx, ← this]; exact List.mem_map.mpr ⟨y, hy, rfl⟩)
      simp [hx, hz]
    · have : (x.id == id) = false := by simpa using hx
      simp only [this, Bool.false_eq_true, if_false]
      exact ih h.2

theorem tm_countP_id_zero {S : List SKey} {x : SKey} (h : SampleND (x :: S)) : S.countP (fun y => y.id == x.id) = 0 := by
  unfold SampleND at h
  rw [List.map_cons, List.nodup_cons] at h
  rw [List.countP_eq_zero]
  intro y hy hid
  have : y.id = x.id := by simpa using hid
  exact h.1 (by rw [← this]; exact List.mem_map.mpr ⟨y, hy, rfl⟩)

/-- pigeonhole: the entries of a sample with pairwise distinct ids that ARE charged are at most `|kw|` -/
theorem tm_charged_le : ∀ (S : List SKey), SampleND S → ∀ (kw : AMap Nat WKey),
    S.countP (fun x => kw.contains x.id) ≤ kw.length := by
  intro S
  induction S with
  | nil => intro _ kw; simp
  | cons x rest ih =>
    intro h kw
    have hnd := h
    unfold SampleND at h
    rw [List.map_cons, List.nodup_cons] at h
    rw [List.countP_cons]
    cases hc : kw.contains x.id with
    | false =>
      simp only [Bool.false_eq_true, if_false, Nat.add_zero]
      exact ih h.2 kw
    | true =>
      simp only [if_true]
      have hlt := AMap.length_del_lt kw x.id hc
      have hih := ih h.2 (kw.del x.id)
      have heq : rest.countP (fun y => kw.contains y.id) = rest.countP (fun y => (kw.del x.id).contains y.id) := by
        apply List.countP_congr
        intro y hy
        have hne : x.id ≠ y.id := fun e => h.1 (by rw [e]; exact List.mem_map.mpr ⟨y, hy, rfl⟩)
        simp only [AMap.contains, AMap.get?_del_other kw hne]
      omega

/-- with `kw` cleared every sample entry is stale — no more than there were ids in `kw` and stale entries together -/
theorem tm_stale_clear {S : List SKey} (h : SampleND S) (kw : AMap Nat WKey) :
    ([] : AMap Nat WKey).length + tm_stale [] S ≤ kw.length + tm_stale kw S := by
  have h1 := tm_charged_le S h kw
  have h2 : S.length = S.countP (fun x => kw.contains x.id) + tm_stale kw S := by
    unfold tm_stale
    rw [List.length_eq_countP_add_countP (fun x => kw.contains x.id)]
    congr 1
    apply List.countP_congr
    intro y _
    simp
  have h3 : tm_stale [] S ≤ S.length := List.countP_le_length
  simp only [List.length_nil]
  omega

/-- the pop of `loopDecide`: the victim leaves the sample -/
theorem tm_stale_pop (kw : AMap Nat WKey) {S : List SKey} {k : SKey} (hk : k ∈ S) :
    tm_stale kw (k :: S.filter (fun x => x.id != k.id)) ≤ tm_stale kw S := by
  induction S with
  | nil => cases hk
  | cons x rest ih =>
    rw [tm_stale_cons] at ih ⊢
    rw [tm_stale_cons kw x rest]
    have hfl : tm_stale kw (rest.filter (fun y => y.id != k.id)) ≤ tm_stale kw rest := by
      unfold tm_stale
      rw [List.countP_filter]
      apply List.countP_mono_left
      intro y _ hy
      simp only [Bool.and_eq_true] at hy
      exact hy.1
    by_cases hx : x.id = k.id
    · have : (x.id != k.id) = false := by simp [hx]
      rw [List.filter_cons, this]
      simp only [Bool.false_eq_true, if_false]
      rw [hx]
      omega
    · have : (x.id != k.id) = true := by simpa using hx
      rw [List.filter_cons, this]
      simp only [if_true]
      rw [tm_stale_cons]
      rw [List.mem_cons] at hk
      rcases hk with e | hk
      · exact absurd (by rw [e]) hx
      · have := ih hk
        omega

/-- `fillSample` pushes charged ids only -/
theorem tm_stale_fill {t : TinyLFU} {kw : AMap Nat WKey} :
    ∀ (n : Nat) (sample : List SKey) (o : Oracle) (s' : List SKey) (o' : Oracle),
      fillSample t kw n sample o = .ok (s', o') → tm_stale kw s' ≤ tm_stale kw sample := by
  intro n
  induction n with
  | zero =>
    intro sample o s' o' h
    simp only [fillSample, Except.ok.injEq, Prod.mk.injEq] at h
    obtain ⟨rfl, _⟩ := h
    exact Nat.le_refl _
  | succ n ih =>
    intro sample o s' o' h
    unfold fillSample at h
    split at h
    · cases h
    · split at h
      · cases h
      · rename_i id ids _ wk hget
        split at h
        · cases h
        · split at h
          · cases h
          · have := ih _ _ _ _ h
            rw [tm_stale_cons] at this
            simp only [AMap.contains, hget, Option.isSome_some, Bool.not_true, Bool.toNat_false] at this
            omega

theorem tm_length_set_le (kw : AMap Nat WKey) (id : Nat) (v : WKey) : (kw.set id v).length ≤ kw.length + 1 := by
  have := AMap.length_del_le kw id
  simp only [AMap.set, List.length_cons]
  omega

/-! ## 2  the parts of the measure -/

/-- own actions a client still has to take in its call, plus one for every hand-over of a full buffer its `pool.add`
    (or its `buf.send_shutdown`) may still put into the consumer's queue.  A multi-key read: five per key still to do
    (the outer flag load of the iterator, the flag load inside `get`, the lookup, the access record and the buffer it
    may hand over), one for the flag load in hand, one for the outer load, one for the first step. -/
def tm_own : CPc → Nat
  | .idle => 0
  | .start r =>
    (match r with
     | .putW _ _ _ _ => 5
     | .delete _ => 4
     | .get _ => 5
     | .weight => 3
     | .upsert _ _ _ _ _ => 7
     | .getRef _ => 5
     | .shutdown => 14
     | .mget ks _ => 5 * ks.length + 3)
  | .putPresent _ _ _ _ => 3
  | .idNext _ _ _ _ => 2
  | .send _ => 1
  | .delMark _ => 2
  | .getStore _ => 3
  | .getPool _ _ => 2
  | .weightRead => 1
  | .upUpdate _ _ _ _ _ => 5
  | .upWeightOf _ _ _ _ => 4
  | .upTtlPut _ _ _ => 2
  | .upTtlDelete _ _ _ => 2
  | .upTtlRemove _ _ _ _ => 3
  | .upTtlInsert _ _ _ => 2
  | .refStore _ => 3
  | .refPool _ _ => 2
  | .shutCas => 12
  | .shutSendCmd => 11
  | .shutSendBuf => 10
  | .shutConsumerFlag => 8
  | .shutTickerFlag => 7
  | .shutStoreClear => 6
  | .shutKwClear => 5
  | .shutWuZero => 4
  | .shutAfClear => 3
  | .shutStatsClear => 2
  | .shutTtlClear => 1
  | .mgetStore _ ks _ _ => 5 * ks.length + 5
  | .mgetPool _ _ ks _ _ => 5 * ks.length + 4
  | .mgetFlag true ks _ _ => 5 * ks.length + 2
  | .mgetFlag false ks _ _ => 5 * ks.length + 1

theorem tm_own_mgetFlag (outer : Bool) (ks : List Nat) (acc : List (Option Nat)) (iter : Bool) :
    tm_own (.mgetFlag outer ks acc iter) = 5 * ks.length + 1 + outer.toNat := by
  cases outer <;> rfl

/-- commands the client may still put into the command queue in its call (0 or 1) -/
def tm_cmds : CPc → Nat
  | .start _ | .putPresent _ _ _ _ | .idNext _ _ _ _ | .send _ | .delMark _ | .upUpdate _ _ _ _ _
  | .upWeightOf _ _ _ _ | .upTtlPut _ _ _ | .upTtlDelete _ _ _ | .upTtlRemove _ _ _ _ | .upTtlInsert _ _ _
  | .shutCas | .shutSendCmd => 1
  | _ => 0

/-- actions the sweeper still has to take in its sweep: four per entry not yet visited (`sweep.entry`, `kw.remove`,
    `wu.sub`, `store.remove`) and `sweep.end` -/
def tm_sw : SPc → Nat
  | .begin => 0
  | .fin => 1
  | .entry _ _ rest => 4 * rest.length + 1
  | .kwRemove _ _ rest _ => 4 * rest.length + 4
  | .sub _ _ rest _ _ => 4 * rest.length + 3
  | .store _ _ rest _ _ => 4 * rest.length + 2

/-- the sample the worker carries, with the victim it has in hand at `kw.remove` -/
def tm_S : WPc → List SKey
  | .evRemove _ _ s v => v :: s
  | .evSub _ _ s _ _ | .evStore _ _ s _ _ | .evSpace _ _ s | .fill _ _ s _ => s
  | _ => []

/-- the ids the eviction loop can still pop: the charged ones and those of the stale sample entries -/
def tm_U (b : BState) : Nat := b.g.adm.kw.length + tm_stale b.g.adm.kw (tm_S b.w)

/-- the worker is executing a command that may still charge an id -/
def tm_ins : WPc → Nat
  | .present _ | .space0 _ | .sampleInit _ _ _ | .evRemove _ _ _ _ | .evSub _ _ _ _ _ | .evStore _ _ _ _ _
  | .evSpace _ _ _ | .fill _ _ _ _ | .emptySpace _ | .insert _ | .update _ _ _ => 1
  | _ => 0

/-- actions the worker still has to take in the command it is executing, `u` ids being left to pop: every round of
    the eviction loop (`kw.remove`, `wu.sub`, `store.remove`, `wu.space`, `sample.fill`) uses one of them up -/
def tm_cur (w : WPc) (u : Nat) : Nat :=
  match w with
  | .recv | .drain | .dead => 0
  | .ttlPut _ _ => 1
  | .storePut _ => 2
  | .add _ => 3
  | .insert _ => 4
  | .emptySpace _ => 5
  | .evRemove _ _ _ _ => 6 + 5 * u
  | .fill _ _ _ _ => 7 + 5 * u
  | .evSpace _ _ _ => 8 + 5 * u
  | .evStore _ _ _ _ _ => 9 + 5 * u
  | .evSub _ _ _ _ _ => 10 + 5 * u
  | .sampleInit _ _ _ => 7 + 5 * u
  | .space0 _ => 8 + 5 * u
  | .present _ => 9 + 5 * u
  | .update _ _ _ => 1
  | .delTtl _ _ _ => 1
  | .delSub _ _ _ _ => 2
  | .delKw _ _ _ => 3
  | .delStore _ _ => 4

/-- commands still to be received: those in the queue and those the clients may still send -/
def tm_Q (b : BState) : Nat := b.g.queue.length + (b.cl.map tm_cmds).sum

/-- the worker's part: `q` commands to come, each within `10 + 5·k` actions where `k = u + q + tm_ins w` bounds the
    charged ids at any later time (every command charges at most one); plus the rest of the command in hand -/
def tm_Wf (q u : Nat) (w : WPc) : Nat := q * (10 + 5 * (u + q + tm_ins w)) + tm_cur w u

/-- **The measure.** -/
def mu (b : BState) : Nat :=
  (b.cl.map tm_own).sum + b.g.bufq.length + tm_sw b.sw + tm_Wf (tm_Q b) (tm_U b) b.w

theorem tm_cur_mono (w : WPc) {u u' : Nat} (h : u' ≤ u) : tm_cur w u' ≤ tm_cur w u := by
  cases w <;> simp only [tm_cur] <;> omega

theorem tm_Wf_mono (w : WPc) {q q' u u' : Nat} (hq : q' ≤ q) (hu : u' ≤ u) : tm_Wf q' u' w ≤ tm_Wf q u w := by
  unfold tm_Wf
  have h1 := tm_cur_mono w hu
  have h2 : q' * (10 + 5 * (u' + q' + tm_ins w)) ≤ q * (10 + 5 * (u + q + tm_ins w)) :=
    Nat.mul_le_mul hq (by omega)
  omega

/-- the worker goes on in its command (or ends it): the rest of the command gets shorter, nothing else grows -/
theorem tm_Wf_step {w w' : WPc} {q q' u u' : Nat} (hq : q' ≤ q) (hk : u' + tm_ins w' ≤ u + tm_ins w)
    (hc : tm_cur w' u' < tm_cur w u) : tm_Wf q' u' w' < tm_Wf q u w := by
  unfold tm_Wf
  have h2 : q' * (10 + 5 * (u' + q' + tm_ins w')) ≤ q * (10 + 5 * (u + q + tm_ins w)) :=
    Nat.mul_le_mul hq (by omega)
  omega

/-- the worker receives a command: one command less to come, and the new command in hand fits into its share -/
theorem tm_Wf_recv {w w' : WPc} {q q' u u' : Nat} (hq : q' + 1 ≤ q) (hk : u' + tm_ins w' ≤ u + tm_ins w + 1)
    (hc : tm_cur w' u' < 10 + 5 * (u' + tm_ins w')) (hw : tm_cur w u = 0) : tm_Wf q' u' w' < tm_Wf q u w := by
  unfold tm_Wf
  have h2 : (q' + 1) * (10 + 5 * (u' + q' + tm_ins w')) ≤ q * (10 + 5 * (u + q + tm_ins w)) :=
    Nat.mul_le_mul hq (by omega)
  rw [Nat.add_mul] at h2
  omega

/-! ## 3  the invariant: distinct ids in the sample, the victim in hand included -/

/-- the ways `loopDecide` can end, with the victim branch spelled out -/
theorem tm_loopDecide {b : BState} {c : PutCmd} {e : Nat} {s : List SKey} {space : Int} {o : Oracle}
    {b' : BState} {o' : Oracle} (h : loopDecide b c e s space o = .ok (b', o')) :
    b' = { b with w := .insert c } ∨ b' = { b with w := .emptySpace c } ∨
    b' = rejectCmd b c.h (.rejected .noSpace) ∨
    ∃ k, k ∈ s ∧ b' = { b with w := .evRemove c e (s.filter (fun x => x.id != k.id)) k } := by
  unfold loopDecide at h
  split at h
  · simp only [Except.ok.injEq, Prod.mk.injEq] at h
    exact Or.inl h.1.symm
  · split at h
    · cases h
    · split at h
      · cases h
      · simp only [Except.ok.injEq, Prod.mk.injEq] at h
        exact Or.inr (Or.inl h.1.symm)
    · split at h
      · cases h
      · rename_i id pops _ k hfind
        obtain ⟨hmem, hid⟩ := find?_id_some hfind
        split at h
        · cases h
        · split at h
          · simp only [Except.ok.injEq, Prod.mk.injEq] at h
            exact Or.inr (Or.inr (Or.inl h.1.symm))
          · simp only [Except.ok.injEq, Prod.mk.injEq] at h
            subst hid
            exact Or.inr (Or.inr (Or.inr ⟨k, hmem, h.1.symm⟩))

/-- Invariant: the sample the worker carries — with the victim it has in hand at `kw.remove` — has pairwise distinct
    ids (`WSampleND` without the victim is `wsampleND_reach`). -/
def tm_VND (b : BState) : Prop := SampleND (tm_S b.w)

theorem tm_nd_pop {S : List SKey} (h : SampleND S) {k : SKey} :
    SampleND (k :: S.filter (fun x => x.id != k.id)) := by
  refine SampleND.cons (h.filter _) ?_
  rw [List.any_eq_false]
  intro y hy
  have := (List.mem_filter.mp hy).2
  simpa using this

theorem tm_nd_tail {x : SKey} {S : List SKey} (h : SampleND (x :: S)) : SampleND S := by
  unfold SampleND at h ⊢
  rw [List.map_cons, List.nodup_cons] at h
  exact h.2

theorem tm_vnd_loopDecide {b : BState} {c : PutCmd} {e : Nat} {s : List SKey} {space : Int} {o : Oracle}
    {b' : BState} {o' : Oracle} (h : loopDecide b c e s space o = .ok (b', o')) (hs : SampleND s) : tm_VND b' := by
  rcases tm_loopDecide h with rfl | rfl | rfl | ⟨k, _, rfl⟩
  · exact SampleND.nil
  · exact SampleND.nil
  · exact SampleND.nil
  · exact tm_nd_pop hs

theorem tm_vnd_workerAct {b b' : BState} {o o' : Oracle} (hs : tm_VND b) (h : workerAct b o = .ok (b', o')) :
    tm_VND b' := by
  have ht := workerAct_trans h
  unfold tm_VND at hs
  cases ht
  case initVictim c e space s' k hw =>
    simp only [workerAct, hw] at h
    split at h
    · cases h
    · rename_i sample o2 hfill
      exact tm_vnd_loopDecide h (fillSample_sampleND _ _ _ _ _ SampleND.nil hfill)
  case fillVictim c e s space s' k hw =>
    simp only [workerAct, hw] at h
    split at h
    · cases h
    · rename_i sample o2 hfill
      rw [hw] at hs
      exact tm_vnd_loopDecide h (fillSample_sampleND _ _ _ _ _ hs hfill)
  all_goals
    first
      | exact SampleND.nil
      | (have hw := ‹b.w = _›; rw [hw] at hs; exact hs)
      | (have hw := ‹b.w = _›; rw [hw] at hs; exact tm_nd_tail hs)

theorem tm_vnd_step {b b' : BState} {a : Act} {o o' : Oracle} (hs : tm_VND b) (h : stepB b a o = .ok (b', o')) :
    tm_VND b' := by
  have keep : b'.w = b.w → tm_VND b' := by
    intro hw
    unfold tm_VND
    rw [hw]
    exact hs
  cases a with
  | worker => exact tm_vnd_workerAct hs h
  | issue i r =>
    simp only [stepB] at h
    split at h
    · rename_i b1 hi
      simp only [Except.ok.injEq, Prod.mk.injEq] at h
      obtain ⟨rfl, -⟩ := h
      unfold issue at hi
      split at hi
      · simp only [Except.ok.injEq] at hi
        subst hi
        exact hs
      · cases hi
    · cases h
  | client i => exact keep (ctrans_frame (clientAct_trans h)).1
  | sweeper v =>
    simp only [stepB] at h
    split at h
    · rename_i b1 hs'
      simp only [Except.ok.injEq, Prod.mk.injEq] at h
      obtain ⟨rfl, -⟩ := h
      exact keep (strans_frame (sweeperAct_trans hs')).1
    · cases h
  | consumer =>
    simp only [stepB] at h
    split at h
    · simp only [Except.ok.injEq, Prod.mk.injEq] at h
      obtain ⟨rfl, -⟩ := h
      exact hs
    · cases h
  | advance d =>
    simp only [stepB, Except.ok.injEq, Prod.mk.injEq] at h
    obtain ⟨rfl, -⟩ := h
    exact hs

/-- at every reachable state the worker's sample, the victim in hand included, has pairwise distinct ids -/
theorem tm_vnd_reach {cfg : Cfg} {now : Nat} {seeds : List Nat} {clients : Nat} {b : BState}
    (h : Reach cfg now seeds clients b) : tm_VND b := by
  induction h with
  | init m => exact SampleND.nil
  | step _ hstep ih => exact tm_vnd_step ih hstep

/-! ## 4  one step of each thread -/

/-- the `U` part after `kw` has lost a charged id (sweeper, worker's delete) or has been cleared (`shutdown()`) -/
theorem tm_U_del {kw : AMap Nat WKey} {S : List SKey} (hnd : SampleND S) {id : Nat} {wk : WKey}
    (hget : kw.get? id = some wk) : (kw.del id).length + tm_stale (kw.del id) S ≤ kw.length + tm_stale kw S := by
  have h1 := AMap.length_del_lt kw id (by rw [hget]; rfl)
  have h2 := tm_stale_del kw id S
  have h3 := tm_countP_id_of_nd hnd id
  omega

theorem tm_sweepNext_sw (b : BState) (now shard : Nat) (rest : List (Nat × Nat)) :
    tm_sw (sweepNext b now shard rest).sw = 4 * rest.length + 1 := by
  unfold sweepNext
  split <;> simp [tm_sw]

theorem tm_sweepNext_frame (b : BState) (now shard : Nat) (rest : List (Nat × Nat)) :
    (sweepNext b now shard rest).g = b.g ∧ (sweepNext b now shard rest).cl = b.cl ∧
    (sweepNext b now shard rest).w = b.w := by
  unfold sweepNext
  split <;> simp

theorem tm_filter_lt {rest : List (Nat × Nat)} {id : Nat} {p : Nat × Nat}
    (h : rest.find? (fun p => p.1 == id) = some p) : (rest.filter (fun p => p.1 != id)).length < rest.length := by
  have hm := List.mem_of_find?_eq_some h
  have hp := List.find?_some h
  have h1 : (rest.filter (fun p => p.1 != id)).length = rest.countP (fun p => p.1 != id) := by
    rw [List.countP_eq_length_filter]
  rw [h1]
  apply Nat.lt_of_le_of_ne List.countP_le_length
  intro e
  have := (List.countP_eq_length.mp e) p hm
  simp at this hp
  exact this hp

/-- **One action of the sweeper inside a sweep**: its own part goes down, the clients, the worker's position and both
    queues stay, and `kw` stays or loses one charged id. -/
theorem tm_sweeper_step {b b' : BState} {v : Option Nat} (h : sweeperAct b v = .ok b') (hi : b.sw.atBegin = false) :
    b'.cl = b.cl ∧ b'.w = b.w ∧ b'.g.queue = b.g.queue ∧ b'.g.bufq = b.g.bufq ∧ tm_sw b'.sw < tm_sw b.sw ∧
    (b'.g.adm.kw = b.g.adm.kw ∨ ∃ id wk, b.g.adm.kw.get? id = some wk ∧ b'.g.adm.kw = b.g.adm.kw.del id) := by
  have ht := sweeperAct_trans h
  cases ht
  case begin _ hs => simp [hs, SPc.atBegin] at hi
  case entryExpired now shard rest id p hf hs =>
    refine ⟨rfl, rfl, rfl, rfl, ?_, Or.inl rfl⟩
    have := tm_filter_lt hf
    simp only [hs, tm_sw]
    omega
  case entryKeep now shard rest id p hf hs =>
    obtain ⟨hg, hcl, hw⟩ := tm_sweepNext_frame b now shard (rest.filter (fun p => p.1 != id))
    refine ⟨hcl, hw, by rw [hg], by rw [hg], ?_, Or.inl (by rw [hg])⟩
    have := tm_filter_lt hf
    rw [tm_sweepNext_sw]
    simp only [hs, tm_sw]
    omega
  case kwRemoveSome now shard rest id wk hget hs _ =>
    refine ⟨rfl, rfl, rfl, rfl, ?_, Or.inr ⟨id, wk, hget, rfl⟩⟩
    simp only [hs, tm_sw]
    omega
  case kwRemoveSkip now shard rest id wk hget hs _ =>
    obtain ⟨hg, hcl, hw⟩ := tm_sweepNext_frame b now shard rest
    refine ⟨hcl, hw, by rw [hg], by rw [hg], ?_, Or.inl (by rw [hg])⟩
    rw [tm_sweepNext_sw]
    simp only [hs, tm_sw]
    omega
  case kwRemoveNone now shard rest id hget hs =>
    obtain ⟨hg, hcl, hw⟩ := tm_sweepNext_frame b now shard rest
    refine ⟨hcl, hw, by rw [hg], by rw [hg], ?_, Or.inl (by rw [hg])⟩
    rw [tm_sweepNext_sw]
    simp only [hs, tm_sw]
    omega
  case sub now shard rest id wk _ hs =>
    refine ⟨rfl, rfl, rfl, rfl, ?_, Or.inl rfl⟩
    simp only [hs, tm_sw]
    omega
  case store now shard rest id wk hs _ =>
    obtain ⟨hg, hcl, hw⟩ := tm_sweepNext_frame
      { b with g := applyEvictId b.g (id, wk.key, wk.weight), wuOwner := none } now shard rest
    have hev : (applyEvictId b.g (id, wk.key, wk.weight)).adm = b.g.adm ∧
        (applyEvictId b.g (id, wk.key, wk.weight)).queue = b.g.queue ∧
        (applyEvictId b.g (id, wk.key, wk.weight)).bufq = b.g.bufq :=
      ⟨applyEvictId_adm _ _, applyEvictId_queue _ _, applyEvictId_bufq _ _⟩
    refine ⟨hcl, hw, by rw [hg]; exact hev.2.1, by rw [hg]; exact hev.2.2, ?_, Or.inl (by rw [hg]; simp only [hev.1])⟩
    rw [tm_sweepNext_sw]
    simp only [hs, tm_sw]
    omega
  case fin hs =>
    refine ⟨rfl, rfl, rfl, rfl, ?_, Or.inl rfl⟩
    simp only [hs, tm_sw]
    omega

/-- **One action of the consumer**: it takes at least one event out of its queue and touches nothing else the measure
    looks at. -/
theorem tm_consumer_step {g g' : State} {o o' : Oracle} {out : Out} (h : consumerStep g o = .ok (g', out, o')) :
    g'.bufq.length < g.bufq.length ∧ g'.queue = g.queue ∧ g'.adm = g.adm := by
  have hf := consumerStep_frame h
  refine ⟨?_, by rw [hf], by rw [hf]⟩
  unfold consumerStep at h
  split at h
  · cases h
  · split at h
    · cases h
    · rename_i hq
      simp only [Except.ok.injEq, Prod.mk.injEq] at h
      obtain ⟨rfl, _⟩ := h
      simp [hq]
    · rename_i hs q hq
      split at h
      · cases h
      · split at h
        all_goals simp only [Except.ok.injEq, Prod.mk.injEq] at h
        all_goals obtain ⟨rfl, _⟩ := h
        all_goals simp [hq]

/-- the victim branch of the eviction loop, after a (re)fill that pushed charged ids only: the ids left to pop do not
    grow, and the worker stands at `kw.remove` -/
theorem tm_worker_loop {b b' : BState} {c : PutCmd} {e : Nat} {s s0 : List SKey} {space : Int} {o o' : Oracle}
    (h : loopDecide b c e s space o = .ok (b', o')) (hst : tm_stale b.g.adm.kw s ≤ tm_stale b.g.adm.kw s0)
    (hins : tm_ins b.w = 1) (hcur : tm_cur b.w (b.g.adm.kw.length + tm_stale b.g.adm.kw s0) =
      7 + 5 * (b.g.adm.kw.length + tm_stale b.g.adm.kw s0)) (hS : tm_S b.w = s0) :
    b'.cl = b.cl ∧ b'.sw = b.sw ∧ b'.g.bufq = b.g.bufq ∧
    tm_Wf (tm_Q b') (tm_U b') b'.w < tm_Wf (tm_Q b) (tm_U b) b.w := by
  have hU : tm_U b = b.g.adm.kw.length + tm_stale b.g.adm.kw s0 := by simp only [tm_U, hS]
  rcases tm_loopDecide h with rfl | rfl | rfl | ⟨k, hk, rfl⟩
  · refine ⟨rfl, rfl, rfl, tm_Wf_step (Nat.le_refl _) ?_ ?_⟩
    · rw [hU, hins]; simp only [tm_U, tm_S, tm_stale_nil, tm_ins]; omega
    · rw [hU, hcur]; simp only [tm_cur]; omega
  · refine ⟨rfl, rfl, rfl, tm_Wf_step (Nat.le_refl _) ?_ ?_⟩
    · rw [hU, hins]; simp only [tm_U, tm_S, tm_stale_nil, tm_ins]; omega
    · rw [hU, hcur]; simp only [tm_cur]; omega
  · refine ⟨rfl, rfl, rfl, tm_Wf_step (Nat.le_refl _) ?_ ?_⟩
    · rw [hU, hins]; simp only [tm_U, rejectCmd, finishCmd, tm_S, tm_stale_nil, tm_ins]; omega
    · rw [hU, hcur]; simp only [rejectCmd, finishCmd, tm_cur]; omega
  · have hpop := tm_stale_pop b.g.adm.kw hk
    refine ⟨rfl, rfl, rfl, tm_Wf_step (Nat.le_refl _) ?_ ?_⟩
    · rw [hU, hins]; simp only [tm_U, tm_S, tm_ins]; omega
    · rw [hU, hcur]; simp only [tm_U, tm_S, tm_cur]; omega

/-- **One action of the worker**: its part of the measure goes down; the clients, the sweeper and the consumer's queue
    stay. -/
theorem tm_worker_step {b b' : BState} {o o' : Oracle} (hv : tm_VND b) (h : workerAct b o = .ok (b', o')) :
    b'.cl = b.cl ∧ b'.sw = b.sw ∧ b'.g.bufq = b.g.bufq ∧
    tm_Wf (tm_Q b') (tm_U b') b'.w < tm_Wf (tm_Q b) (tm_U b) b.w := by
  have ht := workerAct_trans h
  unfold tm_VND at hv
  cases ht
  case initVictim c e space s' k hw =>
    simp only [workerAct, hw] at h
    split at h
    · cases h
    · rename_i sample o2 hfill
      exact tm_worker_loop h (tm_stale_fill _ _ _ _ _ hfill) (by rw [hw]; rfl) (by rw [hw]; rfl) (by rw [hw]; rfl)
  case fillVictim c e s space s' k hw =>
    simp only [workerAct, hw] at h
    split at h
    · cases h
    · rename_i sample o2 hfill
      exact tm_worker_loop h (tm_stale_fill _ _ _ _ _ hfill) (by rw [hw]; rfl) (by rw [hw]; rfl) (by rw [hw]; rfl)
  case recvPut c q hw hq =>
    refine ⟨rfl, rfl, rfl, tm_Wf_recv ?_ ?_ ?_ ?_⟩
    · simp only [tm_Q, hq, List.length_cons]; omega
    · simp only [tm_U, tm_S, hw, tm_ins]; omega
    · simp only [tm_cur, tm_ins]; omega
    · simp only [hw, tm_cur]
  case recvUpdate id w hh q hw hq =>
    refine ⟨rfl, rfl, rfl, tm_Wf_recv ?_ ?_ ?_ ?_⟩
    · simp only [tm_Q, hq, List.length_cons]; omega
    · simp only [tm_U, tm_S, hw, tm_ins]; omega
    · simp only [tm_cur, tm_ins]; omega
    · simp only [hw, tm_cur]
  case recvDelete k hh q hw hq =>
    refine ⟨rfl, rfl, rfl, tm_Wf_recv ?_ ?_ ?_ ?_⟩
    · simp only [tm_Q, hq, List.length_cons]; omega
    · simp only [tm_U, tm_S, hw, tm_ins]; omega
    · simp only [tm_cur, tm_ins]; omega
    · simp only [hw, tm_cur]
  case recvShutdown hh q hw hq =>
    refine ⟨rfl, rfl, rfl, tm_Wf_recv ?_ ?_ ?_ ?_⟩
    · simp only [tm_Q, hq, List.length_cons]; omega
    · simp only [tm_U, tm_S, hw, tm_ins]; omega
    · simp only [tm_cur, tm_ins]; omega
    · simp only [hw, tm_cur]
  case drain cmd hh q hw hq =>
    refine ⟨rfl, rfl, rfl, tm_Wf_recv ?_ ?_ ?_ ?_⟩
    · simp only [tm_Q, hq, List.length_cons]; omega
    · simp only [tm_U, tm_S, hw, tm_ins]; omega
    · simp only [tm_cur, tm_ins]; omega
    · simp only [hw, tm_cur]
  case insert c hw =>
    have := tm_length_set_le b.g.adm.kw c.id { key := c.k, hash := c.hash, weight := c.w }
    refine ⟨rfl, rfl, rfl, tm_Wf_step (Nat.le_refl _) ?_ ?_⟩
    · simp only [tm_U, tm_S, hw, tm_ins, tm_stale_nil]; omega
    · simp only [hw, tm_cur]; omega
  case updateApplied id w hh wk hw _ hget =>
    have := tm_length_set_le b.g.adm.kw id { wk with weight := w }
    refine ⟨rfl, rfl, rfl, tm_Wf_step (Nat.le_refl _) ?_ ?_⟩
    · simp only [tm_U, finishCmd, tm_S, hw, tm_ins, tm_stale_nil]; omega
    · simp only [hw, finishCmd, tm_cur]; omega
  case evRemoveSome c e s victim wk hw hget =>
    rw [hw] at hv
    simp only [tm_S] at hv
    have h1 := AMap.length_del_lt b.g.adm.kw victim.id (by rw [hget]; rfl)
    have h2 := tm_stale_del b.g.adm.kw victim.id s
    have h3 := tm_countP_id_zero hv
    have h4 : tm_stale b.g.adm.kw (victim :: s) = tm_stale b.g.adm.kw s := by
      rw [tm_stale_cons]
      simp [AMap.contains, hget]
    refine ⟨rfl, rfl, rfl, tm_Wf_step (Nat.le_refl _) ?_ ?_⟩
    · simp only [tm_U, tm_S, hw, tm_ins, h4]; omega
    · simp only [hw, tm_U, tm_S, tm_cur, h4]; omega
  case evRemoveNone c e s victim hw hget =>
    have h4 : tm_stale b.g.adm.kw (victim :: s) = tm_stale b.g.adm.kw s + 1 := by
      rw [tm_stale_cons]
      simp [AMap.contains, hget]
    refine ⟨rfl, rfl, rfl, tm_Wf_step (Nat.le_refl _) ?_ ?_⟩
    · simp only [tm_U, tm_S, hw, tm_ins, h4]; omega
    · simp only [hw, tm_U, tm_S, tm_cur, h4]; omega
  case evStore c e s id wk hw _ =>
    have hadm : (applyEvict b.g (id, wk.key, wk.weight)).adm = b.g.adm := (applyEvict_rest _ _).2.2.1
    have hq : (applyEvict b.g (id, wk.key, wk.weight)).queue = b.g.queue := (applyEvict_rest _ _).2.2.2.2.1
    have hbq : (applyEvict b.g (id, wk.key, wk.weight)).bufq = b.g.bufq := (applyEvict_rest _ _).2.2.2.2.2.2.2.2.2.1
    refine ⟨rfl, rfl, hbq, tm_Wf_step (Nat.le_of_eq ?_) ?_ ?_⟩
    · simp only [tm_Q, hq]
    · simp only [tm_U, tm_S, hw, tm_ins, hadm]; omega
    · simp only [hw, tm_U, tm_S, tm_cur, hadm]; omega
  case delKwSome id exp hh wk hw hget =>
    have := AMap.length_del_le b.g.adm.kw id
    refine ⟨rfl, rfl, rfl, tm_Wf_step (Nat.le_refl _) ?_ ?_⟩
    · simp only [tm_U, tm_S, hw, tm_ins, tm_stale_nil]; omega
    · simp only [hw, tm_cur]; omega
  case storePutPanic c t hw _ _ =>
    refine ⟨rfl, rfl, rfl, tm_Wf_step ?_ ?_ ?_⟩
    · simp only [tm_Q, List.length_nil]; omega
    · simp only [tm_U, tm_S, hw, tm_ins, tm_stale_nil]; omega
    · simp only [hw, tm_cur]; omega
  case updatePanic id w hh hw _ =>
    refine ⟨rfl, rfl, rfl, tm_Wf_step ?_ ?_ ?_⟩
    · simp only [tm_Q, List.length_nil]; omega
    · simp only [tm_U, tm_S, hw, tm_ins, tm_stale_nil]; omega
    · simp only [hw, tm_cur]; omega
  case space0Overflow c hw _ _ =>
    refine ⟨rfl, rfl, rfl, tm_Wf_step ?_ ?_ ?_⟩
    · simp only [tm_Q, List.length_nil]; omega
    · simp only [tm_U, tm_S, hw, tm_ins, tm_stale_nil]; omega
    · simp only [hw, tm_cur]; omega
  case evSpaceOverflow c e s hw _ _ =>
    refine ⟨rfl, rfl, rfl, tm_Wf_step ?_ ?_ ?_⟩
    · simp only [tm_Q, List.length_nil]; omega
    · simp only [tm_U, tm_S, hw, tm_ins, tm_stale_nil]; omega
    · simp only [hw, tm_cur]; omega
  case emptyOverflow c hw _ _ =>
    refine ⟨rfl, rfl, rfl, tm_Wf_step ?_ ?_ ?_⟩
    · simp only [tm_Q, List.length_nil]; omega
    · simp only [tm_U, tm_S, hw, tm_ins, tm_stale_nil]; omega
    · simp only [hw, tm_cur]; omega
  all_goals
    have hw := ‹b.w = _›
    refine ⟨rfl, rfl, rfl, tm_Wf_step (Nat.le_refl _) ?_ ?_⟩
    · simp only [tm_U, finishCmd, rejectCmd, ttlPut, ttlDelete, tm_S, hw, tm_ins, tm_stale_nil]; omega
    · simp only [hw, tm_U, finishCmd, rejectCmd, ttlPut, ttlDelete, tm_S, tm_stale_nil, tm_cur]; omega

/-! ### clients -/

/-- what one action of client `i`, standing at `pc`, does to the parts of the measure: the client moves to some `pc'`
    (nobody else moves), `kw` stays or is cleared, the command queue grows only by a command the client was still
    counted for, and its own part pays for the action and for the event it may hand to the consumer -/
def tm_CR (b : BState) (i : Nat) (pc : CPc) (b' : BState) : Prop :=
  ∃ pc', b'.cl = b.cl.set i pc' ∧ b'.w = b.w ∧ b'.sw = b.sw ∧
    (b'.g.adm.kw = b.g.adm.kw ∨ b'.g.adm.kw = []) ∧
    b'.g.queue.length + tm_cmds pc' ≤ b.g.queue.length + tm_cmds pc ∧
    b'.g.bufq.length + tm_own pc' + 1 ≤ b.g.bufq.length + tm_own pc

theorem tm_cr_set {b : BState} {i : Nat} {pc : CPc} (b0 : BState) (pc' : CPc) (hcl : b0.cl = b.cl) (hw : b0.w = b.w)
    (hsw : b0.sw = b.sw) (hkw : b0.g.adm.kw = b.g.adm.kw ∨ b0.g.adm.kw = [])
    (hq : b0.g.queue.length + tm_cmds pc' ≤ b.g.queue.length + tm_cmds pc)
    (hb : b0.g.bufq.length + tm_own pc' + 1 ≤ b.g.bufq.length + tm_own pc) : tm_CR b i pc (setClient b0 i pc') :=
  ⟨pc', by simp only [setClient, hcl], hw, hsw, hkw, hq, hb⟩

theorem tm_cr_fin {b : BState} {i : Nat} {pc : CPc} (b0 : BState) (out : Out) (hcl : b0.cl = b.cl) (hw : b0.w = b.w)
    (hsw : b0.sw = b.sw) (hkw : b0.g.adm.kw = b.g.adm.kw ∨ b0.g.adm.kw = [])
    (hq : b0.g.queue.length ≤ b.g.queue.length + tm_cmds pc)
    (hb : b0.g.bufq.length + 1 ≤ b.g.bufq.length + tm_own pc) : tm_CR b i pc (finishCall b0 i out) :=
  ⟨.idle, by simp only [finishCall, hcl], hw, hsw, hkw, hq, hb⟩

theorem tm_cr_spot {b : BState} {i : Nat} {pc : CPc} (b0 : BState) (st : Status) (hcl : b0.cl = b.cl) (hw : b0.w = b.w)
    (hsw : b0.sw = b.sw) (hkw : b0.g.adm.kw = b.g.adm.kw ∨ b0.g.adm.kw = [])
    (hq : b0.g.queue.length ≤ b.g.queue.length + tm_cmds pc)
    (hb : b0.g.bufq.length + 1 ≤ b.g.bufq.length + tm_own pc) : tm_CR b i pc (spotFinish b0 i st) :=
  tm_cr_fin (pc := pc) { b0 with g := { b0.g with acks := b0.g.acks ++ [st] } } _ hcl hw hsw hkw hq hb

/-- the tail of `put_or_update`: the call returns, or stands at `cmd.send` -/
theorem tm_cr_upAfter {b : BState} {i : Nat} {pc : CPc} (b0 : BState) (id : Nat) (uw : Option Int) (hcl : b0.cl = b.cl)
    (hw : b0.w = b.w) (hsw : b0.sw = b.sw) (hkw : b0.g.adm.kw = b.g.adm.kw ∨ b0.g.adm.kw = [])
    (hq : b0.g.queue.length + 1 ≤ b.g.queue.length + tm_cmds pc)
    (hb : b0.g.bufq.length + 2 ≤ b.g.bufq.length + tm_own pc) : tm_CR b i pc (upAfterIndex b0 i id uw) := by
  rcases upAfterIndex_spec b0 i id uw with ⟨out, e⟩ | ⟨w, _, e⟩ | e <;> rw [e]
  · exact tm_cr_fin b0 out hcl hw hsw hkw (by omega) (by omega)
  · refine tm_cr_set b0 _ hcl hw hsw hkw ?_ ?_
    · have : tm_cmds (.send (.updateWeight id w)) = 1 := rfl
      omega
    · have : tm_own (.send (.updateWeight id w)) = 1 := rfl
      omega
  · exact tm_cr_spot b0 _ hcl hw hsw hkw (by omega) (by omega)

/-- a multi-key read moves on: the call returns, or stands before the first flag load of the next key -/
theorem tm_cr_mgetNext {b : BState} {i : Nat} {pc : CPc} (b0 : BState) (ks : List Nat) (acc : List (Option Nat))
    (iter : Bool) (hcl : b0.cl = b.cl) (hw : b0.w = b.w) (hsw : b0.sw = b.sw)
    (hkw : b0.g.adm.kw = b.g.adm.kw ∨ b0.g.adm.kw = [])
    (hq : b0.g.queue.length ≤ b.g.queue.length + tm_cmds pc)
    (hb : b0.g.bufq.length + 5 * ks.length + 3 ≤ b.g.bufq.length + tm_own pc) :
    tm_CR b i pc (mgetNext b0 i ks acc iter) := by
  rcases mgetNext_spec b0 i ks acc iter with ⟨_, e⟩ | ⟨k, rest, hks, e⟩ <;> rw [e]
  · exact tm_cr_fin b0 _ hcl hw hsw hkw hq (by omega)
  · subst hks
    refine tm_cr_set b0 _ hcl hw hsw hkw ?_ ?_
    · have : tm_cmds (.mgetFlag iter (k :: rest) acc iter) = 0 := rfl
      omega
    · have h1 := tm_own_mgetFlag iter (k :: rest) acc iter
      have h2 : iter.toNat ≤ 1 := Bool.toNat_le iter
      omega

/-- the first step of a multi-key read: the call returns (an iterator over no keys), or stands before the outer flag
    load -/
theorem tm_cr_mgetStart {b : BState} {i : Nat} {pc : CPc} (b0 : BState) (ks : List Nat) (iter : Bool)
    (hcl : b0.cl = b.cl) (hw : b0.w = b.w) (hsw : b0.sw = b.sw)
    (hkw : b0.g.adm.kw = b.g.adm.kw ∨ b0.g.adm.kw = [])
    (hq : b0.g.queue.length ≤ b.g.queue.length + tm_cmds pc)
    (hb : b0.g.bufq.length + 5 * ks.length + 3 ≤ b.g.bufq.length + tm_own pc) :
    tm_CR b i pc (mgetStart b0 i ks iter) := by
  rcases mgetStart_spec b0 i ks iter with ⟨_, _, e⟩ | ⟨_, e⟩ <;> rw [e]
  · exact tm_cr_fin b0 _ hcl hw hsw hkw hq (by omega)
  · refine tm_cr_set b0 _ hcl hw hsw hkw ?_ ?_
    · have : tm_cmds (.mgetFlag true ks [] iter) = 0 := rfl
      omega
    · have : tm_own (.mgetFlag true ks [] iter) = 5 * ks.length + 2 := rfl
      omega

/-- one flag load of a multi-key read: the call returns, or stands before the load inside `get`, or moves on to the
    next key (`get` answered `None` without a lookup), or stands at the lookup -/
theorem tm_cr_mgetFlagAct {b : BState} {i : Nat} {pc : CPc} (b0 : BState) (outer : Bool) (ks : List Nat)
    (acc : List (Option Nat)) (iter : Bool) (hcl : b0.cl = b.cl) (hw : b0.w = b.w) (hsw : b0.sw = b.sw)
    (hkw : b0.g.adm.kw = b.g.adm.kw ∨ b0.g.adm.kw = [])
    (hq : b0.g.queue.length ≤ b.g.queue.length + tm_cmds pc)
    (hb : b0.g.bufq.length + tm_own (.mgetFlag outer ks acc iter) ≤ b.g.bufq.length + tm_own pc) :
    tm_CR b i pc (mgetFlagAct b0 i outer ks acc iter) := by
  rw [tm_own_mgetFlag] at hb
  rcases mgetFlagAct_spec b0 i outer ks acc iter with
    ⟨_, e⟩ | ⟨k, rest, hks, ho, _, e⟩ | ⟨k, rest, hks, ho, _, e⟩ | ⟨k, rest, hks, ho, _, e⟩ <;> rw [e]
  · exact tm_cr_fin b0 _ hcl hw hsw hkw hq (by omega)
  · subst hks ho
    refine tm_cr_set b0 _ hcl hw hsw hkw ?_ ?_
    · have : tm_cmds (.mgetFlag false (k :: rest) acc iter) = 0 := rfl
      omega
    · have : tm_own (.mgetFlag false (k :: rest) acc iter) = 5 * (k :: rest).length + 1 := rfl
      simp only [Bool.toNat_true] at hb
      omega
  · subst hks ho
    simp only [List.length_cons] at hb
    exact tm_cr_mgetNext b0 rest _ iter hcl hw hsw hkw hq (by omega)
  · subst hks ho
    refine tm_cr_set b0 _ hcl hw hsw hkw ?_ ?_
    · have : tm_cmds (.mgetStore k rest acc iter) = 0 := rfl
      omega
    · have : tm_own (.mgetStore k rest acc iter) = 5 * rest.length + 5 := rfl
      simp only [List.length_cons] at hb
      omega

/-- `Pool::add` hands at most one full buffer over to the consumer and leaves the command queue and `kw` alone -/
theorem tm_poolAdd {g g1 : State} {h : Nat} {o o' : Oracle} (hp : poolAdd g h o = .ok (g1, o')) :
    g1.adm = g.adm ∧ g1.queue = g.queue ∧ g1.bufq.length ≤ g.bufq.length + 1 := by
  unfold poolAdd at hp
  split at hp
  · cases hp
  · split at hp
    · cases hp
    · simp only [] at hp
      split at hp
      · simp only [Except.ok.injEq, Prod.mk.injEq] at hp
        obtain ⟨rfl, _⟩ := hp
        unfold acceptBuffer
        split <;> simp
      · simp only [Except.ok.injEq, Prod.mk.injEq] at hp
        obtain ⟨rfl, _⟩ := hp
        simp

local macro "tm_num" : tactic =>
  `(tactic| ((try simp only [tm_cmds, tm_own, ttlPut, ttlDelete, List.length_append, List.length_cons, List.length_nil]); omega))

local macro "tm_close" h:ident : tactic =>
  `(tactic| (simp only [Except.ok.injEq, Prod.mk.injEq] at $h:ident
             have tm_h1 := And.left $h:ident
             subst tm_h1
             first
               | (refine tm_cr_set _ _ rfl rfl rfl (Or.inl rfl) ?_ ?_ <;> tm_num)
               | (refine tm_cr_fin _ _ rfl rfl rfl (Or.inl rfl) ?_ ?_ <;> tm_num)
               | (refine tm_cr_spot _ _ rfl rfl rfl (Or.inl rfl) ?_ ?_ <;> tm_num)
               | (refine tm_cr_upAfter _ _ _ rfl rfl rfl (Or.inl rfl) ?_ ?_ <;> tm_num)
               | (refine tm_cr_mgetNext _ _ _ _ rfl rfl rfl (Or.inl rfl) ?_ ?_ <;> tm_num)
               | (refine tm_cr_mgetStart _ _ _ rfl rfl rfl (Or.inl rfl) ?_ ?_ <;> tm_num)))

/-- **One action of a client** (`tm_CR`). -/
theorem tm_client_step {b b' : BState} {i : Nat} {o o' : Oracle} (h : clientAct b i o = .ok (b', o')) :
    ∃ pc, b.cl[i]? = some pc ∧ tm_CR b i pc b' := by
  unfold clientAct at h
  simp only [] at h
  split at h
  · cases h
  · rename_i pc hpc
    refine ⟨pc, hpc, ?_⟩
    cases pc with
    | idle => cases h
    | start r =>
      cases r <;> simp only [] at h <;> split at h <;> (try split at h) <;> tm_close h
    | putPresent k v w ttl =>
      simp only [] at h
      split at h <;> tm_close h
    | idNext k v w ttl =>
      simp only [] at h
      tm_close h
    | send cmd =>
      simp only [] at h
      split at h
      · rename_i b1 hs
        simp only [Except.ok.injEq, Prod.mk.injEq] at h
        obtain ⟨rfl, -⟩ := h
        unfold sendAct at hs
        simp only [] at hs
        split at hs
        · simp only [Except.ok.injEq] at hs
          subst hs
          refine tm_cr_fin _ _ rfl rfl rfl (Or.inl rfl) ?_ ?_ <;> tm_num
        · split at hs
          · cases hs
          · simp only [Except.ok.injEq] at hs
            subst hs
            refine tm_cr_fin _ _ rfl rfl rfl (Or.inl rfl) ?_ ?_ <;> tm_num
      · cases h
    | delMark k =>
      simp only [] at h
      split at h
      · cases h
      · tm_close h
    | getStore k =>
      simp only [] at h
      split at h
      · split at h <;> tm_close h
      · tm_close h
    | getPool k v =>
      simp only [] at h
      split at h
      · rename_i g1 o1 hp
        obtain ⟨ha, hq, hb⟩ := tm_poolAdd hp
        simp only [Except.ok.injEq, Prod.mk.injEq] at h
        obtain ⟨rfl, -⟩ := h
        refine tm_cr_fin _ _ rfl rfl rfl (Or.inl (congrArg Adm.kw ha)) ?_ ?_
        · simp only [hq]; omega
        · simp only [tm_own]; omega
      · cases h
    | weightRead =>
      simp only [] at h
      split at h
      · cases h
      · tm_close h
    | upUpdate k v w ttl rm =>
      simp only [] at h
      split at h
      · cases h
      · split at h
        · split at h
          · split at h <;> tm_close h
          · tm_close h
        · split at h <;> tm_close h
    | upWeightOf id uw old new =>
      simp only [] at h
      split at h <;> tm_close h
    | upTtlPut id e uw =>
      simp only [] at h
      split at h
      · cases h
      · tm_close h
    | upTtlDelete id e uw =>
      simp only [] at h
      split at h
      · cases h
      · tm_close h
    | upTtlRemove id old new uw =>
      simp only [] at h
      split at h
      · cases h
      · tm_close h
    | upTtlInsert id new uw =>
      simp only [] at h
      split at h
      · cases h
      · tm_close h
    | refStore k =>
      simp only [] at h
      split at h
      · split at h <;> tm_close h
      · tm_close h
    | refPool k v =>
      simp only [] at h
      split at h
      · rename_i g1 o1 hp
        obtain ⟨ha, hq, hb⟩ := tm_poolAdd hp
        simp only [Except.ok.injEq, Prod.mk.injEq] at h
        obtain ⟨rfl, -⟩ := h
        refine tm_cr_fin _ _ rfl rfl rfl (Or.inl (congrArg Adm.kw ha)) ?_ ?_
        · simp only [hq]; omega
        · simp only [tm_own]; omega
      · cases h
    | shutCas =>
      simp only [] at h
      split at h <;> tm_close h
    | shutSendCmd =>
      simp only [] at h
      split at h
      · tm_close h
      · split at h
        · cases h
        · tm_close h
    | shutSendBuf =>
      simp only [] at h
      split at h
      · tm_close h
      · split at h
        · cases h
        · tm_close h
    | shutConsumerFlag =>
      simp only [] at h
      tm_close h
    | shutTickerFlag =>
      simp only [] at h
      tm_close h
    | shutStoreClear =>
      simp only [] at h
      split at h
      · cases h
      · tm_close h
    | shutKwClear =>
      simp only [Except.ok.injEq, Prod.mk.injEq] at h
      obtain ⟨rfl, -⟩ := h
      refine tm_cr_set _ _ rfl rfl rfl (Or.inr rfl) ?_ ?_ <;> tm_num
    | shutWuZero =>
      simp only [] at h
      split at h
      · cases h
      · tm_close h
    | shutAfClear =>
      simp only [] at h
      tm_close h
    | shutStatsClear =>
      simp only [] at h
      tm_close h
    | shutTtlClear =>
      simp only [] at h
      split at h
      · cases h
      · tm_close h
    | mgetStore k ks acc iter =>
      simp only [] at h
      split at h
      · split at h <;> tm_close h
      · tm_close h
    | mgetPool k v ks acc iter =>
      simp only [] at h
      split at h
      · rename_i g1 o1 hp
        obtain ⟨ha, hq, hb⟩ := tm_poolAdd hp
        simp only [Except.ok.injEq, Prod.mk.injEq] at h
        obtain ⟨rfl, -⟩ := h
        refine tm_cr_mgetNext _ _ _ _ rfl rfl rfl (Or.inl (congrArg Adm.kw ha)) ?_ ?_
        · simp only [hq]; omega
        · simp only [tm_own]; omega
      · cases h
    | mgetFlag outer ks acc iter =>
      simp only [Except.ok.injEq, Prod.mk.injEq] at h
      obtain ⟨rfl, -⟩ := h
      refine tm_cr_mgetFlagAct _ _ _ _ _ rfl rfl rfl (Or.inl rfl) ?_ ?_
      · simp only [tm_cmds]; omega
      · exact Nat.le_refl _


/-! ## 5  every internal action lowers the measure -/

/-- **Every internal action lowers `mu`** — at every state with the invariant `tm_VND` (`tm_vnd_reach`). -/
theorem tm_mu_step {b b' : BState} {a : Act} {o o' : Oracle} (hv : tm_VND b) (hi : a.isInternal b = true)
    (hs : stepB b a o = .ok (b', o')) : mu b' < mu b := by
  cases a with
  | issue i r => simp [Act.isInternal] at hi
  | advance d => simp [Act.isInternal] at hi
  | client i =>
    obtain ⟨pc, hpc, pc', hcl, hw, hsw, hkw, hq, hb⟩ := tm_client_step hs
    have h1 := tm_sum_set tm_own b.cl i pc pc' hpc
    have h2 := tm_sum_set tm_cmds b.cl i pc pc' hpc
    have hQ : tm_Q b' ≤ tm_Q b := by
      simp only [tm_Q, hcl]
      omega
    have hU : tm_U b' ≤ tm_U b := by
      simp only [tm_U, hw]
      rcases hkw with e | e <;> rw [e]
      · exact Nat.le_refl _
      · exact tm_stale_clear hv _
    have hW := tm_Wf_mono b.w hQ hU
    simp only [mu, hcl, hw, hsw]
    omega
  | worker =>
    obtain ⟨hcl, hsw, hbq, hW⟩ := tm_worker_step hv hs
    simp only [mu, hcl, hsw, hbq]
    omega
  | sweeper v =>
    simp only [Act.isInternal, Bool.not_eq_true'] at hi
    simp only [stepB] at hs
    split at hs
    · rename_i b1 hs'
      simp only [Except.ok.injEq, Prod.mk.injEq] at hs
      obtain ⟨rfl, -⟩ := hs
      obtain ⟨hcl, hw, hq, hbq, hlt, hkw⟩ := tm_sweeper_step hs' hi
      have hQ : tm_Q b1 ≤ tm_Q b := by
        simp only [tm_Q, hcl, hq]
        exact Nat.le_refl _
      have hU : tm_U b1 ≤ tm_U b := by
        simp only [tm_U, hw]
        rcases hkw with e | ⟨id, wk, hget, e⟩ <;> rw [e]
        · exact Nat.le_refl _
        · exact tm_U_del hv hget
      have hW := tm_Wf_mono b.w hQ hU
      simp only [mu, hcl, hw, hbq]
      omega
    · cases hs
  | consumer =>
    simp only [stepB] at hs
    split at hs
    · rename_i g' out o1 hc
      simp only [Except.ok.injEq, Prod.mk.injEq] at hs
      obtain ⟨rfl, -⟩ := hs
      obtain ⟨hlt, hq, hadm⟩ := tm_consumer_step hc
      simp only [mu, tm_Q, tm_U, hq, hadm]
      omega
    · cases hs

end B
end Cached
