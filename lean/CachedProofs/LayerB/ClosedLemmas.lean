/-
  Helper definitions and run invariants for the CLOSED (input-level) form of C17 at action granularity
  (CachedProofs/LayerB/Closed.lean).

    1  what a thread carries: `cmdOk`, `pcOk` (weights / time-to-live durations in commands and client positions),
       the slack of a client position (`CPc.slackA`, `CPc.slackR`: a `put_or_update` without weight and value that may
       still ADD / REMOVE `ttl_ticker_entry_size` to / from the charge it will read), its credit (`CPc.cr`: the call may
       still make the worker change `weight_used`)
    2  sums over the client list (`slk`), the queue (`qcr`), the ledger (`kcr`)
    3  `WAll cfg T P b`: every weight anywhere in `b` satisfies `P`, every time-to-live duration is `≤ T`;
       preserved by the worker and the sweeper (`wall_wtrans`, `wall_strans`)
    4  `clientAct_flow`: what one client action does to the client's position, the queue, the ledger and the total
    5  `UInv M B b`: `|weight_used|` is bounded by the budget `B` minus the credit still outstanding;
       preserved by every thread
-/
import CachedProofs.LayerB.NoPanic

namespace Cached
namespace B

/-! ## 1  what commands and client positions carry -/

/-- an optional weight satisfies `P` -/
def optP (P : Int → Prop) : Option Int → Prop
  | some x => P x
  | none => True

/-- an optional duration is at most `T` -/
def optLe (T : Nat) : Option Nat → Prop
  | some t => t ≤ T
  | none => True

instance (T : Nat) : (o : Option Nat) → Decidable (optLe T o)
  | some t => inferInstanceAs (Decidable (t ≤ T))
  | none => inferInstanceAs (Decidable True)

theorem optP.mono {P Q : Int → Prop} (h : ∀ x, P x → Q x) : ∀ {o : Option Int}, optP P o → optP Q o
  | some x, hp => h x hp
  | none, _ => trivial

/-- the weight of a command satisfies `P`, its time-to-live is at most `T` -/
def cmdOk (T : Nat) (P : Int → Prop) : Cmd → Prop
  | .put _ _ w _ _ => P w
  | .putTtl _ _ w _ _ t => P w ∧ t ≤ T
  | .updateWeight _ w => P w
  | _ => True

theorem cmdOk.mono {T : Nat} {P Q : Int → Prop} (h : ∀ x, P x → Q x) : ∀ {c : Cmd}, cmdOk T P c → cmdOk T Q c
  | .put .., hp => h _ hp
  | .putTtl .., hp => ⟨h _ hp.1, hp.2⟩
  | .updateWeight .., hp => h _ hp
  | .delete _, _ => trivial
  | .shutdown, _ => trivial

@[simp] theorem cmdOk_cmdOfPut (T : Nat) (P : Int → Prop) (c : PutCmd) :
    cmdOk T P (cmdOfPut c) ↔ P c.w ∧ optLe T c.ttl := by
  unfold cmdOfPut; split <;> simp [cmdOk, optLe, *]

/-- the request: its weight (explicit, or computed by the weight function) satisfies `P`, its time-to-live is `≤ T` -/
def reqOk (cfg : Cfg) (T : Nat) (P : Int → Prop) : Req → Prop
  | .putW _ _ w ttl => P w ∧ optLe T ttl
  | .upsert _ v w ttl _ => optP P (upsertW cfg v w ttl) ∧ optLe T ttl
  | _ => True

/-- every weight a client position carries towards a command satisfies `P`, every duration is `≤ T` -/
def pcOk (cfg : Cfg) (T : Nat) (P : Int → Prop) : CPc → Prop
  | .start r => reqOk cfg T P r
  | .putPresent _ _ w ttl | .idNext _ _ w ttl => P w ∧ optLe T ttl
  | .send cmd => cmdOk T P cmd
  | .upUpdate _ v w ttl _ => optP P (upsertW cfg v w ttl) ∧ optLe T ttl
  | .upWeightOf _ uw _ _ | .upTtlPut _ _ uw | .upTtlDelete _ _ uw | .upTtlRemove _ _ _ uw | .upTtlInsert _ _ uw => optP P uw
  | _ => True

/-- a `put_or_update` without weight and value that sets a time-to-live: `upsert.weight_of` may ADD
    `ttl_ticker_entry_size` to the charge it reads -/
def Req.addDerive : Req → Bool
  | .upsert _ none none (some _) false => true
  | _ => false

/-- a `put_or_update` without weight and value that removes the time-to-live: `upsert.weight_of` may SUBTRACT
    `ttl_ticker_entry_size` from the charge it reads (the request of the known finding D4) -/
def Req.rmDerive : Req → Bool
  | .upsert _ none none _ true => true
  | _ => false

/-- the call standing here may still add `ttl_ticker_entry_size` to a charge -/
def CPc.slackA : CPc → Bool
  | .start r => r.addDerive
  | .upUpdate _ none none (some _) false => true
  | .upWeightOf _ none none (some _) => true
  | _ => false

/-- the call standing here may still subtract `ttl_ticker_entry_size` from a charge -/
def CPc.slackR : CPc → Bool
  | .start r => r.rmDerive
  | .upUpdate _ none none _ true => true
  | .upWeightOf _ none (some _) none => true
  | _ => false

/-- the call standing here is a `put_or_update` WITHOUT A VALUE that has not yet looked its key up -/
def CPc.noVal : CPc → Bool
  | .start (.upsert _ none _ _ _) => true
  | .upUpdate _ none _ _ _ => true
  | _ => false

/-- a command that makes the worker change `weight_used` -/
def cmdIsW : Cmd → Bool
  | .put .. | .putTtl .. | .updateWeight .. => true
  | _ => false

/-- the call standing here may still send a command that makes the worker change `weight_used` -/
def CPc.cr : CPc → Bool
  | .start (.putW ..) | .start (.upsert ..) | .putPresent .. | .idNext .. | .upUpdate .. | .upWeightOf ..
  | .upTtlPut .. | .upTtlDelete .. | .upTtlRemove .. | .upTtlInsert .. => true
  | .send cmd => cmdIsW cmd
  | _ => false

/-- the weight `upsert.weight_of` derives from the charge it reads -/
def Derived (kw : AMap Nat WKey) (E : Int) (pc : CPc) (x : Int) : Prop :=
  ∃ id old new wk, pc = .upWeightOf id none old new ∧ kw.get? id = some wk ∧
    ((∃ n, old = none ∧ new = some n ∧ x = wk.weight + E) ∨ (∃ e, old = some e ∧ new = none ∧ x = wk.weight - E))

/-! ## 2  sums -/

/-- `M` if the flag is set -/
def bM (M : Int) (c : Bool) : Int := if c then M else 0

@[simp] theorem bM_true (M : Int) : bM M true = M := rfl
@[simp] theorem bM_false (M : Int) : bM M false = 0 := rfl

theorem bM_nonneg {M : Int} (hM : 0 ≤ M) (c : Bool) : 0 ≤ bM M c := by cases c <;> simp [hM]
theorem bM_le {M : Int} (hM : 0 ≤ M) (c : Bool) : bM M c ≤ M := by cases c <;> simp [hM]
theorem bM_mono {M : Int} (hM : 0 ≤ M) {c c' : Bool} (h : c' = true → c = true) : bM M c' ≤ bM M c := by
  cases c' <;> cases c <;> simp_all

/-- `E` for every client position with the flag `f` -/
def slk (E : Int) (f : CPc → Bool) : List CPc → Int
  | [] => 0
  | pc :: r => bM E (f pc) + slk E f r

theorem slk_nonneg {E : Int} (hE : 0 ≤ E) (f : CPc → Bool) : ∀ l, 0 ≤ slk E f l
  | [] => by simp [slk]
  | pc :: r => by
    have := slk_nonneg hE f r
    have := bM_nonneg hE (f pc)
    simp only [slk]; omega

theorem slk_set (E : Int) (f : CPc → Bool) : ∀ (l : List CPc) (i : Nat) (pc pc' : CPc), l[i]? = some pc →
    slk E f (l.set i pc') = slk E f l - bM E (f pc) + bM E (f pc')
  | [], i, pc, pc', h => by simp at h
  | x :: r, 0, pc, pc', h => by
    simp only [List.getElem?_cons_zero, Option.some.injEq] at h; subst h
    simp only [List.set_cons_zero, slk]; omega
  | x :: r, i + 1, pc, pc', h => by
    simp only [List.getElem?_cons_succ] at h
    have := slk_set E f r i pc pc' h
    simp only [List.set_cons_succ, slk]; omega

theorem slk_replicate_idle (E : Int) (f : CPc → Bool) (hf : f .idle = false) : ∀ n, slk E f (List.replicate n .idle) = 0
  | 0 => rfl
  | n + 1 => by simp [List.replicate_succ, slk, hf, slk_replicate_idle E f hf n]

/-- `M` for every queued command that makes the worker change `weight_used` -/
def qcr (M : Int) : List (Cmd × Option Nat) → Int
  | [] => 0
  | p :: r => bM M (cmdIsW p.1) + qcr M r

theorem qcr_nonneg {M : Int} (hM : 0 ≤ M) : ∀ q, 0 ≤ qcr M q
  | [] => by simp [qcr]
  | p :: r => by
    have := qcr_nonneg hM r
    have := bM_nonneg hM (cmdIsW p.1)
    simp only [qcr]; omega

theorem qcr_append (M : Int) : ∀ (q q' : List (Cmd × Option Nat)), qcr M (q ++ q') = qcr M q + qcr M q'
  | [], q' => by simp [qcr]
  | p :: r, q' => by simp only [List.cons_append, qcr, qcr_append M r q']; omega

@[simp] theorem cmdIsW_cmdOfPut (c : PutCmd) : cmdIsW (cmdOfPut c) = true := by
  unfold cmdOfPut; split <;> rfl

/-- `M` for every charged key id -/
def kcr (M : Int) : AMap Nat WKey → Int
  | [] => 0
  | _ :: r => M + kcr M r

theorem kcr_nonneg {M : Int} (hM : 0 ≤ M) : ∀ m, 0 ≤ kcr M m
  | [] => by simp [kcr]
  | _ :: r => by have := kcr_nonneg hM r; simp only [kcr]; omega

theorem kcr_del_le {M : Int} (hM : 0 ≤ M) (a : Nat) : ∀ m : AMap Nat WKey, kcr M (m.del a) ≤ kcr M m
  | [] => by simp [AMap.del, kcr]
  | (k, v) :: r => by
    have := kcr_del_le hM a r
    simp only [AMap.del]; split <;> simp only [kcr] <;> omega

theorem kcr_del_some {M : Int} (hM : 0 ≤ M) (a : Nat) : ∀ (m : AMap Nat WKey) (wk : WKey), m.get? a = some wk →
    kcr M (m.del a) + M ≤ kcr M m
  | [], wk, h => by simp [AMap.get?] at h
  | (k, v) :: r, wk, h => by
    simp only [AMap.get?] at h
    simp only [AMap.del]
    split
    · have := kcr_del_le hM a r
      simp only [kcr]; omega
    · rename_i hne
      rw [if_neg hne] at h
      have := kcr_del_some hM a r wk h
      simp only [kcr]; omega

theorem kcr_set_le {M : Int} (hM : 0 ≤ M) (m : AMap Nat WKey) (a : Nat) (v : WKey) : kcr M (m.set a v) ≤ kcr M m + M := by
  have := kcr_del_le hM a m
  simp only [AMap.set, kcr]; omega

theorem kcr_set_some {M : Int} (hM : 0 ≤ M) (m : AMap Nat WKey) (a : Nat) (v wk : WKey) (h : m.get? a = some wk) :
    kcr M (m.set a v) ≤ kcr M m := by
  have := kcr_del_some hM a m wk h
  simp only [AMap.set, kcr]; omega

/-! ## 3  every weight satisfies `P`, every duration is at most `T` -/

structure WAll (cfg : Cfg) (T : Nat) (P : Int → Prop) (b : BState) : Prop where
  kw : ∀ p ∈ b.g.adm.kw, P p.2.weight
  queue : ∀ p ∈ b.g.queue, cmdOk T P p.1
  clients : ∀ (i : Nat) (pc : CPc), b.cl[i]? = some pc → pcOk cfg T P pc
  wcmd : ∀ c, b.w.cmd? = some c → P c.w ∧ optLe T c.ttl
  wupd : ∀ w, b.w.updW? = some w → P w
  wvic : ∀ wk, b.w.victim? = some wk → P wk.weight
  svic : ∀ wk, b.sw.victim? = some wk → P wk.weight

theorem reqOk.mono {cfg : Cfg} {T : Nat} {P Q : Int → Prop} (h : ∀ x, P x → Q x) :
    ∀ {r : Req}, reqOk cfg T P r → reqOk cfg T Q r := by
  intro r hr
  cases r <;> first | trivial | exact ⟨h _ hr.1, hr.2⟩ | exact ⟨optP.mono h hr.1, hr.2⟩

theorem pcOk.mono {cfg : Cfg} {T : Nat} {P Q : Int → Prop} (h : ∀ x, P x → Q x) :
    ∀ {pc : CPc}, pcOk cfg T P pc → pcOk cfg T Q pc := by
  intro pc hp
  cases pc <;> first
    | trivial
    | exact reqOk.mono h hp
    | exact cmdOk.mono h hp
    | exact ⟨h _ hp.1, hp.2⟩
    | exact ⟨optP.mono h hp.1, hp.2⟩
    | exact optP.mono h hp

theorem WAll.mono {cfg : Cfg} {T : Nat} {P Q : Int → Prop} {b : BState} (hb : WAll cfg T P b) (h : ∀ x, P x → Q x) :
    WAll cfg T Q b :=
  ⟨fun p hp => h _ (hb.kw p hp), fun p hp => cmdOk.mono h (hb.queue p hp), fun i pc hpc => pcOk.mono h (hb.clients i pc hpc),
    fun c hc => ⟨h _ (hb.wcmd c hc).1, (hb.wcmd c hc).2⟩, fun w hw => h _ (hb.wupd w hw), fun wk hw => h _ (hb.wvic wk hw),
    fun wk hw => h _ (hb.svic wk hw)⟩

theorem kwAll_del {P : Int → Prop} {kw : AMap Nat WKey} (h : ∀ p ∈ kw, P p.2.weight) (a : Nat) :
    ∀ p ∈ kw.del a, P p.2.weight := fun p hp => h p (AMap.mem_del' hp)

theorem kwAll_set {P : Int → Prop} {kw : AMap Nat WKey} (h : ∀ p ∈ kw, P p.2.weight) (a : Nat) (v : WKey) (hv : P v.weight) :
    ∀ p ∈ kw.set a v, P p.2.weight := by
  intro p hp
  simp only [AMap.set, List.mem_cons] at hp
  rcases hp with rfl | hp
  · exact hv
  · exact h p (AMap.mem_del' hp)

theorem kwAll_get {P : Int → Prop} {kw : AMap Nat WKey} (h : ∀ p ∈ kw, P p.2.weight) {a : Nat} {wk : WKey}
    (hg : kw.get? a = some wk) : P wk.weight := h (a, wk) (AMap.mem_of_get? hg)

theorem wall_wtrans {cfg : Cfg} {T : Nat} {P : Int → Prop} {b b' : BState} (hi : WAll cfg T P b) (h : WTrans b b') :
    WAll cfg T P b' := by
  obtain ⟨h1, h2, h3, h4, h5, h6, h7⟩ := hi
  cases h
  all_goals constructor
  all_goals (try simp only [finishCmd, rejectCmd, ttlPut, ttlDelete])
  all_goals (try assumption)
  all_goals simp_all [WPc.cmd?, WPc.updW?, WPc.victim?]
  all_goals first
    | assumption
    | exact h2.2
    | exact h2.1
    | exact h1 _ _ (AMap.mem_of_get? (by assumption))
    | (intro a v hm; exact h1 a v (AMap.mem_del' hm))
    | (intro a v hm
       simp only [AMap.set, List.mem_cons, Prod.mk.injEq] at hm
       rcases hm with ⟨rfl, rfl⟩ | hm
       · first | exact h4.1 | exact h5
       · exact h1 a v (AMap.mem_del' hm))

theorem wall_strans {cfg : Cfg} {T : Nat} {P : Int → Prop} {b b' : BState} (hi : WAll cfg T P b) (h : STrans b b') :
    WAll cfg T P b' := by
  obtain ⟨h1, h2, h3, h4, h5, h6, h7⟩ := hi
  cases h
  all_goals (try unfold sweepNext)
  all_goals (try split)
  all_goals constructor
  all_goals (try assumption)
  all_goals simp_all [SPc.victim?]
  all_goals first
    | assumption
    | exact h1 _ _ (AMap.mem_of_get? (by assumption))
    | (intro a v hm; exact h1 a v (AMap.mem_del' hm))

/-! ## 4  one client action -/

/-- the tail of `put_or_update`, with the weight it sends -/
theorem upAfterIndex_spec' (b : BState) (i id : Nat) (uw : Option Int) :
    (∃ out, upAfterIndex b i id uw = finishCall b i out) ∨
    (∃ w, uw = some w ∧ upAfterIndex b i id uw = setClient b i (.send (.updateWeight id w))) ∨
    upAfterIndex b i id uw = spotFinish b i .accepted := by
  unfold upAfterIndex
  split
  · split
    · exact Or.inl ⟨_, rfl⟩
    · split
      · exact Or.inl ⟨_, rfl⟩
      · exact Or.inr (Or.inl ⟨_, rfl, rfl⟩)
  · exact Or.inr (Or.inr rfl)

theorem poolAdd_keeps {g g1 : State} {h : Nat} {o o' : Oracle} (hp : poolAdd g h o = .ok (g1, o')) :
    g1.cfg = g.cfg ∧ g1.now = g.now ∧ g1.adm = g.adm ∧ g1.queue = g.queue := by
  refine ⟨?_, ?_, ?_, ?_⟩ <;> rw [poolAdd_frame hp]

/-- What one action of client `i` does to everything the closed form of C17 looks at: the client moves from `pc` to
    `pc'`; the worker's and the sweeper's positions, the configuration and the clock stay; the ledger stays or is
    cleared, the total stays or is zeroed (`shutdown()`); slack and credit do not grow; every weight / duration `pc'`
    carries was carried by `pc` or is derived by `upsert.weight_of`; the queue stays, or takes the command `pc` was
    about to send, or takes `Shutdown`. -/
structure CFlow (b b' : BState) (i : Nat) (pc pc' : CPc) : Prop where
  hpc : b.cl[i]? = some pc
  cl : b'.cl = b.cl.set i pc'
  w : b'.w = b.w
  sw : b'.sw = b.sw
  cfg : b'.g.cfg = b.g.cfg
  now : b'.g.now = b.g.now
  kw : b'.g.adm.kw = b.g.adm.kw ∨ b'.g.adm.kw = []
  used : b'.g.adm.used = b.g.adm.used ∨ b'.g.adm.used = 0
  sA : pc'.slackA = true → pc.slackA = true
  sR : pc'.slackR = true → pc.slackR = true
  cr : pc'.cr = true → pc.cr = true
  nv : pc'.noVal = true → pc.noVal = true
  /-- past `upsert.weight_of` the call derives nothing any more -/
  rel : ∀ id uw old new, pc = .upWeightOf id uw old new → pc'.slackA = false ∧ pc'.slackR = false
  ok : ∀ (T : Nat) (P Q : Int → Prop), (∀ x, P x → Q x) → (∀ x, Derived b.g.adm.kw b.g.cfg.ttlEntry pc x → Q x) →
    pcOk b.g.cfg T P pc → pcOk b.g.cfg T Q pc'
  queue : b'.g.queue = b.g.queue ∨ (∃ cmd h, pc = .send cmd ∧ pc' = .idle ∧ b'.g.queue = b.g.queue ++ [(cmd, h)]) ∨
    b'.g.queue = b.g.queue ++ [(.shutdown, none)]

set_option hygiene false in
/-- closes a leaf of the case analysis of `clientAct` for `clientAct_flow` -/
macro "flow_leaf" : tactic => `(tactic|
  exact ⟨_, _, {
    hpc := hpc, cl := rfl, w := rfl, sw := rfl,
    cfg := by first | rfl | exact (poolAdd_keeps (by assumption)).1
    now := by first | rfl | exact (poolAdd_keeps (by assumption)).2.1
    kw := by first | exact Or.inl rfl | exact Or.inr rfl | exact Or.inl (congrArg Adm.kw (poolAdd_keeps (by assumption)).2.2.1)
    used := by first | exact Or.inl rfl | exact Or.inr rfl | exact Or.inl (congrArg Adm.used (poolAdd_keeps (by assumption)).2.2.1)
    sA := by simp [CPc.slackA, Req.addDerive]
    sR := by simp [CPc.slackR, Req.rmDerive]
    cr := by simp [CPc.cr, cmdIsW]
    nv := by simp [CPc.noVal]
    rel := by first | exact fun _ _ _ _ _ => ⟨rfl, rfl⟩ | (intro _ _ _ _ h; cases h)
    ok := by first
      | exact fun _ _ _ _ _ _ => trivial
      | exact fun _ _ _ hPQ _ hp => pcOk.mono hPQ hp
      | exact fun _ _ _ hPQ _ hp => hPQ _ hp.1
      | exact fun _ _ _ hPQ _ hp => hPQ _ hp
      | exact fun _ _ _ hPQ _ hp => optP.mono hPQ hp.1
    queue := by first
      | exact Or.inl rfl
      | exact Or.inl (poolAdd_keeps (by assumption)).2.2.2
      | exact Or.inr (Or.inl ⟨_, _, rfl, rfl, rfl⟩)
      | exact Or.inr (Or.inr rfl) }⟩)

set_option hygiene false in
macro "flow_pos" h:ident : tactic => `(tactic| (
  try simp only [] at $h:ident
  repeat' split at $h:ident
  all_goals first
    | (cases $h:ident; done)
    | (simp only [Except.ok.injEq, Prod.mk.injEq] at $h:ident; obtain ⟨rfl, rfl⟩ := $h:ident; flow_leaf)))

theorem clientAct_flow {b b' : BState} {i : Nat} {o o' : Oracle} (h : clientAct b i o = .ok (b', o')) :
    ∃ pc pc', CFlow b b' i pc pc' := by
  unfold clientAct at h
  simp only [] at h
  split at h
  · cases h
  · rename_i pc hpc
    cases pc with
    | idle => cases h
    | start r =>
      simp only [] at h
      split at h
      · cases r <;> simp only [Except.ok.injEq, Prod.mk.injEq] at h <;> obtain ⟨rfl, rfl⟩ := h
        case mget ks iter =>
          rcases mgetStart_spec b i ks iter with ⟨_, _, e⟩ | ⟨_, e⟩ <;> rw [e] <;> flow_leaf
        all_goals flow_leaf
      · cases r <;> simp only [] at h
        case putW k v w ttl =>
          split at h
          all_goals simp only [Except.ok.injEq, Prod.mk.injEq] at h; obtain ⟨rfl, rfl⟩ := h
          all_goals flow_leaf
        case upsert k v w ttl rm =>
          simp only [Except.ok.injEq, Prod.mk.injEq] at h; obtain ⟨rfl, rfl⟩ := h
          cases v <;> cases w <;> cases ttl <;> cases rm <;> flow_leaf
        case mget ks iter =>
          simp only [Except.ok.injEq, Prod.mk.injEq] at h; obtain ⟨rfl, rfl⟩ := h
          rcases mgetStart_spec b i ks iter with ⟨_, _, e⟩ | ⟨_, e⟩ <;> rw [e] <;> flow_leaf
        all_goals simp only [Except.ok.injEq, Prod.mk.injEq] at h; obtain ⟨rfl, rfl⟩ := h
        all_goals flow_leaf
    | putPresent k v w ttl => flow_pos h
    | idNext k v w ttl =>
      cases ttl <;> flow_pos h
    | send cmd =>
      simp only [] at h
      split at h
      · rename_i b1 hs
        simp only [Except.ok.injEq, Prod.mk.injEq] at h; obtain ⟨rfl, rfl⟩ := h
        unfold sendAct at hs
        simp only [] at hs
        repeat' split at hs
        all_goals first
          | (cases hs; done)
          | (simp only [Except.ok.injEq] at hs; subst hs; flow_leaf)
      · cases h
    | delMark k => flow_pos h
    | getStore k => flow_pos h
    | getPool k v => flow_pos h
    | weightRead => flow_pos h
    | upUpdate k v w ttl rm =>
      simp only [] at h
      split at h
      · cases h
      · cases hk : b.g.store.get? k with
        | none =>
          simp only [hk] at h
          cases v with
          | none =>
            simp only [Except.ok.injEq, Prod.mk.injEq] at h; obtain ⟨rfl, rfl⟩ := h
            flow_leaf
          | some val =>
            cases w with
            | some x =>
              simp only [] at h
              split at h
              all_goals simp only [Except.ok.injEq, Prod.mk.injEq] at h; obtain ⟨rfl, rfl⟩ := h
              all_goals flow_leaf
            | none =>
              simp only [Option.map_some] at h
              split at h
              all_goals simp only [Except.ok.injEq, Prod.mk.injEq] at h; obtain ⟨rfl, rfl⟩ := h
              all_goals flow_leaf
        | some e =>
          obtain ⟨eval, eid, eexp, esoft⟩ := e
          simp only [hk] at h
          cases rm with
          | true =>
            simp only [if_true] at h
            simp only [Except.ok.injEq, Prod.mk.injEq] at h; obtain ⟨rfl, rfl⟩ := h
            cases v <;> cases w <;> cases ttl <;> cases eexp <;> flow_leaf
          | false =>
            cases ttl with
            | none =>
              simp only [Bool.false_eq_true, if_false] at h
              simp only [Except.ok.injEq, Prod.mk.injEq] at h; obtain ⟨rfl, rfl⟩ := h
              cases v <;> cases w <;> cases eexp <;> flow_leaf
            | some t =>
              cases hadd : addTime b.g.now t with
              | none =>
                simp only [Bool.false_eq_true, if_false, hadd] at h
                simp only [Except.ok.injEq, Prod.mk.injEq] at h; obtain ⟨rfl, rfl⟩ := h
                flow_leaf
              | some x =>
                simp only [Bool.false_eq_true, if_false, hadd] at h
                simp only [Except.ok.injEq, Prod.mk.injEq] at h; obtain ⟨rfl, rfl⟩ := h
                cases v <;> cases w <;> cases eexp <;> flow_leaf
    | upWeightOf id uw old new =>
      simp only [] at h
      cases old with
      | none =>
        cases new with
        | none =>
          simp only [typeOfExpiryUpdate, Except.ok.injEq, Prod.mk.injEq] at h; obtain ⟨rfl, rfl⟩ := h
          rcases upAfterIndex_spec' b i id uw with ⟨out, e1⟩ | ⟨x, rfl, e1⟩ | e1 <;> rw [e1] <;> flow_leaf
        | some n =>
          cases uw with
          | some x =>
            simp only [typeOfExpiryUpdate, Except.ok.injEq, Prod.mk.injEq] at h; obtain ⟨rfl, rfl⟩ := h
            flow_leaf
          | none =>
            cases hkw : b.g.adm.kw.get? id with
            | none =>
              simp only [typeOfExpiryUpdate, hkw, Option.map_none, Except.ok.injEq, Prod.mk.injEq] at h; obtain ⟨rfl, rfl⟩ := h
              flow_leaf
            | some wk =>
              simp only [typeOfExpiryUpdate, hkw, Option.map_some, Except.ok.injEq, Prod.mk.injEq] at h; obtain ⟨rfl, rfl⟩ := h
              exact ⟨_, _, {
                hpc := hpc, cl := rfl, w := rfl, sw := rfl, cfg := rfl, now := rfl, kw := Or.inl rfl,
                used := Or.inl rfl, sA := by simp [CPc.slackA], sR := by simp [CPc.slackR], cr := by simp [CPc.cr],
                rel := fun _ _ _ _ _ => ⟨rfl, rfl⟩, nv := by simp [CPc.noVal],
                ok := fun _ _ _ _ hD _ => hD _ ⟨id, none, some n, wk, rfl, hkw, Or.inl ⟨n, rfl, rfl, rfl⟩⟩,
                queue := Or.inl rfl }⟩
      | some e =>
        cases new with
        | none =>
          cases uw with
          | some x =>
            simp only [typeOfExpiryUpdate, Except.ok.injEq, Prod.mk.injEq] at h; obtain ⟨rfl, rfl⟩ := h
            flow_leaf
          | none =>
            cases hkw : b.g.adm.kw.get? id with
            | none =>
              simp only [typeOfExpiryUpdate, hkw, Option.map_none, Except.ok.injEq, Prod.mk.injEq] at h; obtain ⟨rfl, rfl⟩ := h
              flow_leaf
            | some wk =>
              simp only [typeOfExpiryUpdate, hkw, Option.map_some, Except.ok.injEq, Prod.mk.injEq] at h; obtain ⟨rfl, rfl⟩ := h
              exact ⟨_, _, {
                hpc := hpc, cl := rfl, w := rfl, sw := rfl, cfg := rfl, now := rfl, kw := Or.inl rfl,
                used := Or.inl rfl, sA := by simp [CPc.slackA], sR := by simp [CPc.slackR], cr := by simp [CPc.cr],
                rel := fun _ _ _ _ _ => ⟨rfl, rfl⟩, nv := by simp [CPc.noVal],
                ok := fun _ _ _ _ hD _ => hD _ ⟨id, some e, none, wk, rfl, hkw, Or.inr ⟨e, rfl, rfl, rfl⟩⟩,
                queue := Or.inl rfl }⟩
        | some n =>
          by_cases hne : e = n
          · subst hne
            simp only [typeOfExpiryUpdate, ne_eq, not_true_eq_false, if_false, Except.ok.injEq, Prod.mk.injEq] at h
            obtain ⟨rfl, rfl⟩ := h
            rcases upAfterIndex_spec' b i id uw with ⟨out, e1⟩ | ⟨x, rfl, e1⟩ | e1 <;> rw [e1] <;> flow_leaf
          · simp only [typeOfExpiryUpdate, ne_eq, hne, not_false_eq_true, if_true, Except.ok.injEq, Prod.mk.injEq] at h
            obtain ⟨rfl, rfl⟩ := h
            flow_leaf
    | upTtlPut id e uw =>
      simp only [] at h
      split at h
      · cases h
      · simp only [Except.ok.injEq, Prod.mk.injEq] at h; obtain ⟨rfl, rfl⟩ := h
        rcases upAfterIndex_spec' { b with g := ttlPut b.g id e } i id uw with ⟨out, e1⟩ | ⟨x, rfl, e1⟩ | e1 <;> rw [e1] <;> flow_leaf
    | upTtlDelete id e uw =>
      simp only [] at h
      split at h
      · cases h
      · simp only [Except.ok.injEq, Prod.mk.injEq] at h; obtain ⟨rfl, rfl⟩ := h
        rcases upAfterIndex_spec' { b with g := ttlDelete b.g id e } i id uw with ⟨out, e1⟩ | ⟨x, rfl, e1⟩ | e1 <;> rw [e1] <;> flow_leaf
    | upTtlRemove id old new uw => flow_pos h
    | upTtlInsert id new uw =>
      simp only [] at h
      split at h
      · cases h
      · simp only [Except.ok.injEq, Prod.mk.injEq] at h; obtain ⟨rfl, rfl⟩ := h
        rcases upAfterIndex_spec' { b with g := ttlPut b.g id new } i id uw with ⟨out, e1⟩ | ⟨x, rfl, e1⟩ | e1 <;> rw [e1] <;> flow_leaf
    | refStore k => flow_pos h
    | refPool k v => flow_pos h
    | shutCas => flow_pos h
    | shutSendCmd => flow_pos h
    | shutSendBuf => flow_pos h
    | shutConsumerFlag => flow_pos h
    | shutTickerFlag => flow_pos h
    | shutStoreClear => flow_pos h
    | shutKwClear => flow_pos h
    | shutWuZero => flow_pos h
    | shutAfClear => flow_pos h
    | shutStatsClear => flow_pos h
    | shutTtlClear => flow_pos h
    | mgetStore k ks acc iter =>
      simp only [] at h
      repeat' split at h
      all_goals simp only [Except.ok.injEq, Prod.mk.injEq] at h; obtain ⟨rfl, rfl⟩ := h
      · flow_leaf
      · rcases mgetNext_spec { b with g := { b.g with stats := { b.g.stats with misses := b.g.stats.misses + 1 } } } i ks (acc ++ [none]) iter
          with ⟨out, e⟩ | ⟨k, rest, _, e⟩ <;> rw [e] <;> flow_leaf
      · rcases mgetNext_spec { b with g := { b.g with stats := { b.g.stats with misses := b.g.stats.misses + 1 } } } i ks (acc ++ [none]) iter
          with ⟨out, e⟩ | ⟨k, rest, _, e⟩ <;> rw [e] <;> flow_leaf
    | mgetPool k v ks acc iter =>
      simp only [] at h
      split at h
      · rename_i g1 o1 hp
        simp only [Except.ok.injEq, Prod.mk.injEq] at h; obtain ⟨rfl, rfl⟩ := h
        rcases mgetNext_spec { b with g := g1 } i ks (acc ++ [some v]) iter with ⟨out, e⟩ | ⟨k, rest, _, e⟩ <;> rw [e] <;> flow_leaf
      · cases h
    | mgetFlag outer ks acc iter =>
      simp only [Except.ok.injEq, Prod.mk.injEq] at h; obtain ⟨rfl, rfl⟩ := h
      rcases mgetFlagAct_spec b i outer ks acc iter with ⟨_, e⟩ | ⟨_, _, _, _, _, e⟩ | ⟨_, rest', _, _, _, e⟩ |
        ⟨_, _, _, _, _, e⟩ <;> rw [e]
      · flow_leaf
      · flow_leaf
      · rcases mgetNext_spec b i rest' (acc ++ [none]) iter with ⟨out, e2⟩ | ⟨k2, rest2, _, e2⟩ <;> rw [e2] <;> flow_leaf
      · flow_leaf

theorem wall_client {cfg : Cfg} {T : Nat} {P Q : Int → Prop} {b b' : BState} {i : Nat} {pc pc' : CPc}
    (hb : WAll cfg T P b) (hcfg : b.g.cfg = cfg) (f : CFlow b b' i pc pc') (hPQ : ∀ x, P x → Q x)
    (hD : ∀ x, Derived b.g.adm.kw b.g.cfg.ttlEntry pc x → Q x) : WAll cfg T Q b' := by
  have hpc : pcOk cfg T P pc := hb.clients i pc f.hpc
  refine ⟨?_, ?_, ?_, ?_, ?_, ?_, ?_⟩
  · rcases f.kw with e | e <;> rw [e]
    · exact fun p hp => hPQ _ (hb.kw p hp)
    · intro p hp; cases hp
  · rcases f.queue with e | ⟨cmd, h, rfl, _, e⟩ | e <;> rw [e]
    · exact fun p hp => cmdOk.mono hPQ (hb.queue p hp)
    · intro p hp
      rcases List.mem_append.mp hp with hp | hp
      · exact cmdOk.mono hPQ (hb.queue p hp)
      · simp only [List.mem_singleton] at hp; subst hp
        exact cmdOk.mono hPQ hpc
    · intro p hp
      rcases List.mem_append.mp hp with hp | hp
      · exact cmdOk.mono hPQ (hb.queue p hp)
      · simp only [List.mem_singleton] at hp; subst hp; trivial
  · intro j pcj hj
    rw [f.cl, List.getElem?_set] at hj
    split at hj
    · split at hj
      · cases hj
        have := f.ok T P Q hPQ hD (hcfg ▸ hpc)
        rw [hcfg] at this; exact this
      · cases hj
    · exact pcOk.mono hPQ (hb.clients j pcj hj)
  · rw [f.w]; exact fun c hc => ⟨hPQ _ (hb.wcmd c hc).1, (hb.wcmd c hc).2⟩
  · rw [f.w]; exact fun w hw => hPQ _ (hb.wupd w hw)
  · rw [f.w]; exact fun wk hw => hPQ _ (hb.wvic wk hw)
  · rw [f.sw]; exact fun wk hw => hPQ _ (hb.svic wk hw)

theorem wall_issue {cfg : Cfg} {T : Nat} {P : Int → Prop} {b b' : BState} {i : Nat} {r : Req}
    (hb : WAll cfg T P b) (h : issue b i r = .ok b') (hr : reqOk cfg T P r) : WAll cfg T P b' := by
  unfold issue at h
  split at h
  · simp only [Except.ok.injEq] at h; subst h
    refine ⟨hb.kw, hb.queue, ?_, hb.wcmd, hb.wupd, hb.wvic, hb.svic⟩
    intro j pcj hj
    simp only [setClient, List.getElem?_set] at hj
    split at hj
    · split at hj
      · cases hj; exact hr
      · cases hj
    · exact hb.clients j pcj hj
  · cases h

theorem WAll.frame {cfg : Cfg} {T : Nat} {P : Int → Prop} {b b' : BState} (hb : WAll cfg T P b)
    (hkw : b'.g.adm.kw = b.g.adm.kw) (hq : b'.g.queue = b.g.queue) (hcl : b'.cl = b.cl) (hw : b'.w = b.w)
    (hsw : b'.sw = b.sw) : WAll cfg T P b' :=
  ⟨by rw [hkw]; exact hb.kw, by rw [hq]; exact hb.queue, by rw [hcl]; exact hb.clients, by rw [hw]; exact hb.wcmd,
    by rw [hw]; exact hb.wupd, by rw [hw]; exact hb.wvic, by rw [hsw]; exact hb.svic⟩

theorem wall_init (cfg : Cfg) (T : Nat) (P : Int → Prop) (now : Nat) (seeds : List Nat) (clients : Nat)
    (shardMap : List (Nat × Nat)) :
    WAll cfg T P { BState.init cfg now seeds clients with storeShard := shardMap } := by
  refine ⟨by simp [BState.init, State.init], by simp [BState.init, State.init], ?_, by simp [BState.init, WPc.cmd?],
    by simp [BState.init, WPc.updW?], by simp [BState.init, WPc.victim?], by simp [BState.init, SPc.victim?]⟩
  intro i pc h
  simp only [BState.init, List.getElem?_replicate] at h
  split at h
  · cases h; trivial
  · cases h

/-! ## 5  the total is bounded by the budget of the requests issued so far -/

/-- the worker is executing a command that may still ADD to `weight_used` -/
def WPc.crI : WPc → Bool
  | .present _ | .space0 _ | .sampleInit .. | .evRemove .. | .evSub .. | .evStore .. | .evSpace .. | .fill ..
  | .emptySpace _ | .insert _ | .add _ | .update .. => true
  | _ => false

/-- the worker is executing a command that may still charge a key id (later subtracted) or lower a charge -/
def WPc.crD : WPc → Bool
  | .present _ | .space0 _ | .sampleInit .. | .evRemove .. | .evSub .. | .evStore .. | .evSpace .. | .fill ..
  | .emptySpace _ | .insert _ | .update .. => true
  | _ => false

/-- the worker holds a charge it has taken out of the ledger and not yet subtracted -/
def WPc.crV : WPc → Bool
  | .evSub .. | .delSub .. => true
  | _ => false

/-- the sweeper holds a charge it has taken out of the ledger and not yet subtracted -/
def SPc.crV : SPc → Bool
  | .sub .. => true
  | _ => false

/-- what may still be ADDED to `weight_used` on behalf of the requests issued so far (in units of the largest weight) -/
def cI (M : Int) (b : BState) : Int := slk M CPc.cr b.cl + qcr M b.g.queue + bM M b.w.crI

/-- what may still be SUBTRACTED from `weight_used` -/
def cD (M : Int) (b : BState) : Int :=
  slk M CPc.cr b.cl + qcr M b.g.queue + bM M b.w.crD + bM M b.w.crV + bM M b.sw.crV + kcr M b.g.adm.kw

/-- `-B ≤ weight_used ≤ B`, with room for everything that is still outstanding -/
structure UInv (M B : Int) (b : BState) : Prop where
  up : b.g.adm.used + cI M b ≤ B
  up0 : cI M b ≤ B
  lo : cD M b ≤ B + b.g.adm.used
  lo0 : cD M b ≤ B

/-- what one step does to the total and to the outstanding credit: the credit to add does not grow and pays for every
    increase of the total; the credit to subtract does not grow and pays for every decrease -/
def Delta (M : Int) (b b' : BState) : Prop :=
  cI M b' ≤ cI M b ∧ b'.g.adm.used + cI M b' ≤ b.g.adm.used + cI M b ∧ cD M b' ≤ cD M b ∧
  cD M b' + b.g.adm.used ≤ cD M b + b'.g.adm.used

theorem UInv.step {M B : Int} {b b' : BState} (hi : UInv M B b) (hd : Delta M b b') : UInv M B b' := by
  obtain ⟨u1, u2, u3, u4⟩ := hi
  obtain ⟨d1, d2, d3, d4⟩ := hd
  exact ⟨by omega, by omega, by omega, by omega⟩

theorem wtrans_delta {cfg : Cfg} {T : Nat} {M : Int} {b b' : BState} (hM : 0 ≤ M)
    (hw : WAll cfg T (fun x => 0 ≤ x ∧ x ≤ M) b) (h : WTrans b b') : Delta M b b' := by
  obtain ⟨h1, -, -, h4, h5, h6, -⟩ := hw
  have hq := qcr_nonneg hM b.g.queue
  unfold Delta
  cases h
  case recvPut c q hw hqq =>
    simp_all [cI, cD, WPc.crI, WPc.crD, WPc.crV, qcr]
    omega
  case drain cmd hh q hw hqq =>
    have := bM_nonneg hM (cmdIsW cmd)
    simp_all [cI, cD, WPc.crI, WPc.crD, WPc.crV, qcr]
    omega
  case evRemoveSome c e s victim wk hw hg =>
    have := kcr_del_some hM victim.id b.g.adm.kw wk hg
    simp_all [cI, cD, WPc.crI, WPc.crD, WPc.crV]
    omega
  case delKwSome id exp hh wk hw hg =>
    have := kcr_del_some hM id b.g.adm.kw wk hg
    simp_all [cI, cD, WPc.crI, WPc.crD, WPc.crV]
    omega
  case insert c hw =>
    have := kcr_set_le hM b.g.adm.kw c.id { key := c.k, hash := c.hash, weight := c.w }
    simp_all [cI, cD, WPc.crI, WPc.crD, WPc.crV]
    omega
  case updateApplied id w hh wk hw hf hg =>
    have := kcr_set_some hM b.g.adm.kw id { wk with weight := w } wk hg
    have := kwAll_get (P := fun x => 0 ≤ x ∧ x ≤ M) h1 hg
    simp_all [cI, cD, WPc.crI, WPc.crD, WPc.crV, WPc.updW?, finishCmd]
    omega
  all_goals simp_all [cI, cD, WPc.crI, WPc.crD, WPc.crV, WPc.cmd?, WPc.updW?, WPc.victim?, qcr, cmdIsW, finishCmd, rejectCmd, ttlPut, ttlDelete]
  all_goals omega

theorem strans_delta {cfg : Cfg} {T : Nat} {M : Int} {b b' : BState} (hM : 0 ≤ M)
    (hw : WAll cfg T (fun x => 0 ≤ x ∧ x ≤ M) b) (h : STrans b b') : Delta M b b' := by
  obtain ⟨-, -, -, -, -, -, h7⟩ := hw
  unfold Delta
  cases h
  case kwRemoveSome now shard rest id wk hg hs hu =>
    have := kcr_del_some hM id b.g.adm.kw wk hg
    simp_all [cI, cD, SPc.crV]
    omega
  all_goals (try unfold sweepNext)
  all_goals (try split)
  all_goals simp_all [cI, cD, SPc.crV, SPc.victim?]
  all_goals omega

theorem uinv_client {M B : Int} {b b' : BState} {i : Nat} {pc pc' : CPc} (hM : 0 ≤ M) (hi : UInv M B b)
    (f : CFlow b b' i pc pc') : UInv M B b' := by
  obtain ⟨u1, u2, u3, u4⟩ := hi
  have hs : slk M CPc.cr b'.cl = slk M CPc.cr b.cl - bM M pc.cr + bM M pc'.cr := by
    rw [f.cl]; exact slk_set M CPc.cr b.cl i pc pc' f.hpc
  have hcr := bM_mono hM f.cr
  have hk : kcr M b'.g.adm.kw ≤ kcr M b.g.adm.kw := by
    rcases f.kw with e | e <;> rw [e]
    · exact Int.le_refl _
    · exact kcr_nonneg hM _
  have hq : qcr M b'.g.queue + bM M pc'.cr ≤ qcr M b.g.queue + bM M pc.cr := by
    rcases f.queue with e | ⟨cmd, h, rfl, rfl, e⟩ | e <;> rw [e]
    · omega
    · simp [qcr_append, qcr, CPc.cr]
    · simp only [qcr_append, qcr, cmdIsW, bM_false]; omega
  have hI : cI M b' ≤ cI M b := by simp only [cI, hs, f.w]; omega
  have hD : cD M b' ≤ cD M b := by simp only [cD, hs, f.w, f.sw]; omega
  rcases f.used with e | e <;> exact ⟨by rw [e]; omega, by omega, by rw [e]; omega, by omega⟩

theorem uinv_issue {M B : Int} {b b' : BState} {i : Nat} {r : Req} (hM : 0 ≤ M) (hi : UInv M B b)
    (h : issue b i r = .ok b') : UInv M (B + M) b' := by
  obtain ⟨u1, u2, u3, u4⟩ := hi
  unfold issue at h
  split at h
  · rename_i hidle
    simp only [Except.ok.injEq] at h; subst h
    have hs : slk M CPc.cr (setClient b i (.start r)).cl = slk M CPc.cr b.cl - bM M CPc.idle.cr + bM M (CPc.start r).cr :=
      slk_set M CPc.cr b.cl i .idle (.start r) hidle
    have := bM_le hM (CPc.start r).cr
    have h0 : CPc.idle.cr = false := rfl
    rw [h0, bM_false] at hs
    have hI : cI M (setClient b i (.start r)) ≤ cI M b + M := by
      simp only [cI, hs]; simp only [setClient]; omega
    have hD : cD M (setClient b i (.start r)) ≤ cD M b + M := by
      simp only [cD, hs]; simp only [setClient]; omega
    refine ⟨?_, by omega, ?_, by omega⟩
    · show b.g.adm.used + _ ≤ _; omega
    · show _ ≤ B + M + b.g.adm.used; omega
  · cases h

theorem UInv.frame {M B : Int} {b b' : BState} (hi : UInv M B b) (hadm : b'.g.adm = b.g.adm)
    (hq : b'.g.queue = b.g.queue) (hcl : b'.cl = b.cl) (hw : b'.w = b.w) (hsw : b'.sw = b.sw) : UInv M B b' := by
  obtain ⟨u1, u2, u3, u4⟩ := hi
  have hI : cI M b' = cI M b := by simp only [cI, hq, hcl, hw]
  have hD : cD M b' = cD M b := by simp only [cD, hq, hcl, hw, hsw, hadm]
  exact ⟨by rw [hadm, hI]; exact u1, by rw [hI]; exact u2, by rw [hadm, hD]; exact u3, by rw [hD]; exact u4⟩

theorem UInv.weaken {M B B' : Int} {b : BState} (hi : UInv M B b) (h : B ≤ B') : UInv M B' b := by
  obtain ⟨u1, u2, u3, u4⟩ := hi
  exact ⟨by omega, by omega, by omega, by omega⟩

theorem uinv_init (M : Int) (cfg : Cfg) (now : Nat) (seeds : List Nat) (clients : Nat) (shardMap : List (Nat × Nat)) :
    UInv M 0 { BState.init cfg now seeds clients with storeShard := shardMap } := by
  have hs := slk_replicate_idle M CPc.cr rfl clients
  refine ⟨?_, ?_, ?_, ?_⟩ <;>
    simp [cI, cD, BState.init, State.init, hs, qcr, kcr, WPc.crI, WPc.crD, WPc.crV, SPc.crV]

theorem wtrans_now' {b b' : BState} (h : WTrans b b') : b'.g.now = b.g.now := by
  cases h
  case evStore c e s id wk _ _ => exact (applyEvict_rest b.g (id, wk.key, wk.weight)).2.1
  all_goals simp [finishCmd, rejectCmd, ttlPut, ttlDelete]

theorem strans_now' {b b' : BState} (h : STrans b b') : b'.g.now = b.g.now := by
  cases h
  all_goals (try unfold sweepNext)
  all_goals (try split)
  all_goals simp

end B
end Cached
