/-
  LayerB/ReviewSmall: two small gaps named by an independent review.

    1. `C18_layerB_worker_makes_room_for_shutdown` (namespace `Cached.B`)
         `C18_layerB_worker_makes_room` (NoDeadlock.lean) speaks of the clients at `.send cmd` only.  `shutdown()` sends
         its own `Shutdown` command into the SAME bounded queue from the position `.shutSendCmd`; in the model
         (`clientAct`, CachedModel/LayerB.lean) that send has the same three branches as `sendAct`: worker dead → goes on
         at once (to `.shutSendBuf`, nothing queued); queue full → not enabled; otherwise → the command is appended.
         So the statement carries over unchanged: same hypotheses, after the worker's `recv`/`drain` action every client
         at `.shutSendCmd` is enabled.  `C18_layerB_worker_makes_room_all_senders` puts the two together (every client
         whose position is a `cmd.send`, `CPc.sendsCmd`), and `rs_shutSendCmd_enabled_unless_full` is the counterpart of
         `C18_layerB_put_enabled_unless_full` for this position (its only wait is `cmdRoom`, for the worker).

    2. the iterator examples of Extra/Iter.lean on a REACHABLE state (namespace `Cached`)
         `iterState` there is hand-built (store filled while `adm.kw = []`), so `Inv` fails on it.  Here the state is
         the result of `runEvents` (puts + worker steps) from `State.init` with the same configuration:
           `rs_iterState_run`     `runEvents rs_iterInit rs_iterRun = .ok rs_iterState`
           `rs_iterState_reach`   `Reach rs_iterCfg 0 [1, 2] rs_iterState`
           `rs_iterState_inv`     `Inv rs_iterState`
           `rs_iterState_facts`   both puts accepted, both keys charged in `adm.kw`, not shutting down
         and the four scenarios (all `decide`):
           `rs_iter_first_next`          (a) `next()` yields `some (some 100)` for key 1
           `rs_iter_sees_upsert`         (b) an `upsert` of key 2 between two calls: the second yields the NEW value
           `rs_iter_ends_at_shutdown`    (c) a `shutdown` between them: the second yields `none` and keeps its keys
           `rs_iter_sees_delete`         (d) a `delete` of key 2 between them: the second yields `some none`
         In each scenario the state in which the second `next()` is called is reachable too (`rs_reach_after`).
-/
import CachedProofs.LayerB.NoDeadlock
import CachedProofs.Extra.Iter

/-! ## 1. the worker makes room for `shutdown()`'s own send -/

namespace Cached
namespace B

/-- `shutdown()`'s `cmd.send` (position `.shutSendCmd`) is enabled for every oracle unless the worker's receiver is
    alive and the command queue is full; then the client `WaitsFor` the worker (`cmdRoom`).  A dead worker does not
    block it: the send fails at once and `shutdown()` goes on to its next action (`.shutSendBuf`). -/
theorem rs_shutSendCmd_enabled_unless_full {b : BState} {i : Nat} (hpc : b.cl[i]? = some .shutSendCmd) (o : Oracle) :
    (∃ r, clientAct b i o = .ok r) ∨
    (b.g.worker ≠ .dead ∧ b.g.queue.length ≥ b.g.cfg.cmdCap ∧ WaitsFor b (.client i) .worker) := by
  by_cases hd : b.g.worker = .dead
  · left
    simp only [clientAct, hpc, hd, if_true]
    exact ⟨_, rfl⟩
  · by_cases hq : b.g.queue.length ≥ b.g.cfg.cmdCap
    · exact Or.inr ⟨hd, hq, .cmdRoom i _ hpc rfl hd hq⟩
    · left
      simp only [clientAct, hpc, hd, hq, if_false]
      exact ⟨_, rfl⟩

/-- what the enabled send does: with a dead worker nothing is queued, otherwise `Shutdown` is appended to the queue;
    either way the client goes on at `.shutSendBuf` -/
theorem rs_shutSendCmd_act {b : BState} {i : Nat} (hpc : b.cl[i]? = some .shutSendCmd) (o : Oracle)
    (hroom : b.g.worker = .dead ∨ b.g.queue.length < b.g.cfg.cmdCap) :
    clientAct b i o =
      .ok (if b.g.worker = .dead then setClient b i .shutSendBuf
           else setClient { b with g := { b.g with queue := b.g.queue ++ [(.shutdown, none)] } } i .shutSendBuf, o) := by
  by_cases hd : b.g.worker = .dead
  · simp only [clientAct, hpc, hd, if_true]
  · have hq : ¬ b.g.queue.length ≥ b.g.cfg.cmdCap := by
      rcases hroom with h | h
      · exact absurd h hd
      · omega
    simp only [clientAct, hpc, hd, hq, if_false]

/-- **The worker makes room for `shutdown()` too**: at a reachable state, an action of the worker at `worker.recv` /
    `worker.drain` takes one command out of the queue; afterwards the queue is not full, so EVERY client standing at
    `shutdown()`'s own `cmd.send` (position `.shutSendCmd`) is enabled, for every oracle.  Same hypotheses and same
    first two conclusions as `C18_layerB_worker_makes_room`; the model's `.shutSendCmd` has the same three branches as
    `sendAct` (dead worker: go on without queueing; full queue: wait; else: append), so nothing had to be changed. -/
theorem C18_layerB_worker_makes_room_for_shutdown {cfg : Cfg} {now : Nat} {seeds : List Nat} {clients : Nat}
    {b b' : BState} {o o' : Oracle} (hr : Reach cfg now seeds clients b) (hrest : b.w = .recv ∨ b.w = .drain)
    (h : stepB b .worker o = .ok (b', o')) :
    b'.g.queue.length + 1 = b.g.queue.length ∧ b'.g.queue.length < b'.g.cfg.cmdCap ∧
    ∀ (i : Nat) (oc : Oracle), b'.cl[i]? = some .shutSendCmd → ∃ r, stepB b' (.client i) oc = .ok r := by
  obtain ⟨hlen, hlt, _⟩ := C18_layerB_worker_makes_room hr hrest h
  refine ⟨hlen, hlt, ?_⟩
  intro i oc hpc
  rcases rs_shutSendCmd_enabled_unless_full hpc oc with hen | ⟨_, hq, _⟩
  · exact hen
  · omega

/-- … and the client's action then leaves it at `.shutSendBuf`, with `Shutdown` queued behind what was there unless
    the worker is dead -/
theorem C18_layerB_worker_makes_room_for_shutdown_act {cfg : Cfg} {now : Nat} {seeds : List Nat} {clients : Nat}
    {b b' : BState} {o o' : Oracle} (hr : Reach cfg now seeds clients b) (hrest : b.w = .recv ∨ b.w = .drain)
    (h : stepB b .worker o = .ok (b', o')) (i : Nat) (oc : Oracle) (hpc : b'.cl[i]? = some .shutSendCmd) :
    stepB b' (.client i) oc =
      .ok (if b'.g.worker = .dead then setClient b' i .shutSendBuf
           else setClient { b' with g := { b'.g with queue := b'.g.queue ++ [(.shutdown, none)] } } i .shutSendBuf, oc) :=
  rs_shutSendCmd_act hpc oc (Or.inr (C18_layerB_worker_makes_room hr hrest h).2.1)

/-- both kinds of sender at once: after the worker's `recv` every client whose position is a `cmd.send`
    (`CPc.sendsCmd`: `.send _` of a put / delete / upsert, or `.shutSendCmd` of `shutdown()`) is enabled -/
theorem C18_layerB_worker_makes_room_all_senders {cfg : Cfg} {now : Nat} {seeds : List Nat} {clients : Nat}
    {b b' : BState} {o o' : Oracle} (hr : Reach cfg now seeds clients b) (hrest : b.w = .recv ∨ b.w = .drain)
    (h : stepB b .worker o = .ok (b', o')) (i : Nat) (pc : CPc) (oc : Oracle) (hpc : b'.cl[i]? = some pc)
    (hs : pc.sendsCmd = true) : ∃ r, stepB b' (.client i) oc = .ok r := by
  cases pc with
  | send cmd => exact (C18_layerB_worker_makes_room hr hrest h).2.2 i cmd oc hpc
  | shutSendCmd => exact (C18_layerB_worker_makes_room_for_shutdown hr hrest h).2.2 i oc hpc
  | _ => simp [CPc.sendsCmd] at hs

end B

/-! ## 2. the iterator examples of Extra/Iter.lean, on a reachable state -/

/-- the configuration of `iterState` -/
def rs_iterCfg : Cfg := { maxWeight := 100, shards := 4, cmdCap := 4, poolSize := 1, bufSize := 4, counters := 16 }

def rs_iterInit : State := State.init rs_iterCfg 0 [1, 2]

/-- `put(1, 100)` and `put(2, 200)` (weight 1 each), each executed by the worker -/
def rs_iterRun : List (Ev × Oracle) :=
  [(.putW 0 1 100 1, {}), (.worker, {}), (.putW 0 2 200 1, {}), (.worker, {})]

/-- the state of a successful run (the default otherwise) -/
def rs_okOr (r : Except String State) (d : State) : State :=
  match r with
  | .ok s => s
  | .error _ => d

theorem rs_okOr_spec (r : Except String State) (d : State)
    (h : (match r with | .ok _ => true | .error _ => false) = true) : r = .ok (rs_okOr r d) := by
  cases r with
  | ok s => rfl
  | error m => cases h

/-- the state after the run: keys 1 ↦ 100 and 2 ↦ 200 held AND charged -/
def rs_iterState : State := rs_okOr (runEvents rs_iterInit rs_iterRun) rs_iterInit

/-- `rs_iterState` is the result of running `rs_iterRun` from the initial state -/
theorem rs_iterState_run : runEvents rs_iterInit rs_iterRun = .ok rs_iterState :=
  rs_okOr_spec _ _ (by decide)

/-- hence reachable … -/
theorem rs_iterState_reach : Reach rs_iterCfg 0 [1, 2] rs_iterState :=
  reach_runEvents _ Reach.init rs_iterState_run

/-- … and the Layer A invariant holds on it (it does not on the hand-built `iterState`) -/
theorem rs_iterState_inv : Inv rs_iterState := inv_reach rs_iterState_reach

/-- what the state holds: the entries of `iterState` (same values, same ids), but with both ids charged by the admission policy, both puts
    acknowledged, nothing queued, not shutting down -/
theorem rs_iterState_facts :
    rs_iterState.store = [(2, { value := 200, id := 2, expiry := none, soft := false }),
                          (1, { value := 100, id := 1, expiry := none, soft := false })] ∧
    rs_iterState.store.get? 1 = iterState.store.get? 1 ∧ rs_iterState.store.get? 2 = iterState.store.get? 2 ∧
    rs_iterState.adm.used = 2 ∧ (rs_iterState.adm.kw.get? 1).isSome = true ∧ (rs_iterState.adm.kw.get? 2).isSome = true ∧
    rs_iterState.acks = [.accepted, .accepted] ∧ rs_iterState.queue.length = 0 ∧ rs_iterState.shutting = false ∧
    visible rs_iterState 1 = some 100 ∧ visible rs_iterState 2 = some 200 := by decide

/-- the hand-built state is charged for nothing although it holds two keys -/
example : iterState.adm.used = 0 ∧ iterState.adm.kw.get? 1 = none ∧ iterState.adm.kw.get? 2 = none := by decide

/-- a state one event after a reachable one is reachable -/
theorem rs_reach_after {s s' : State} {ev : Ev} {o o' : Oracle} {out : Out}
    (hs : Reach rs_iterCfg 0 [1, 2] s) (h : step s ev o = .ok (s', out, o')) : Reach rs_iterCfg 0 [1, 2] s' :=
  Reach.step hs h

/-- an `iterNext` that yields an item is a `get` (`iter_next_item`): the state after it is reachable -/
theorem rs_reach_iterNext {s s' : State} {keys keys' : List Nat} {o o' : Oracle} {a : Option (Option Nat)}
    (hs : Reach rs_iterCfg 0 [1, 2] s) (h : iterNext s keys o = .ok (s', a, keys', o')) :
    Reach rs_iterCfg 0 [1, 2] s' := by
  cases a with
  | none =>
    obtain ⟨rfl, _, _⟩ := C16_iter_next_end_counts_nothing s s' keys keys' o o' h
    exact hs
  | some v =>
    obtain ⟨_, k, _, hg⟩ := iter_next_item s s' keys keys' o o' v h
    exact Reach.step hs hg

/-- (a) the first `next()` of an iterator over `[1, 2]` yields `Some(Some(100))` and leaves key 2 -/
theorem rs_iter_first_next :
    iterShow (iterNext rs_iterState [1, 2] { pool := [0] }) = some (some (some 100), [2]) := by decide

/-- (a), with what else the call does: one hit, the pool index consumed -/
example :
    (match iterNext rs_iterState [1, 2] { pool := [0] } with
     | .ok (s1, a1, keys1, o1) =>
       decide (a1 = some (some 100) ∧ keys1 = [2] ∧ o1.pool = [] ∧ s1.stats.hits = 1 ∧ s1.stats.misses = 0)
     | .error _ => false) = true := by decide

/-- `multi_get [1, 2]` and the iterator drained at once, on the reachable state: both `[100, 200]` -/
example :
    (match step rs_iterState (.multiGet [1, 2]) { pool := [0, 0] } with
     | .ok (s', .values vs, o') => decide (vs = [some 100, some 200] ∧ o'.pool = [] ∧ s'.stats.hits = 2)
     | _ => false) = true ∧
    (match iterDrain rs_iterState [1, 2] { pool := [0, 0] } with
     | .ok (s', vs, ks', o') => decide (vs = [some 100, some 200] ∧ ks' = [] ∧ o'.pool = [] ∧ s'.stats.hits = 2)
     | .error _ => false) = true := by decide

/-- (b) **An overwrite between two calls is seen by the second**, on a reachable state.  Open `[1, 2]`; the first
    `next()` yields `100`; then `put_or_update(2, 201)` returns; the second `next()` yields the NEW value `201`, not the
    `200` the state held when the iterator was opened; the third `next()` ends the iteration. -/
theorem rs_iter_sees_upsert :
    visible rs_iterState 2 = some 200 ∧
    (match iterNext rs_iterState [1, 2] { pool := [0] } with
     | .ok (s1, a1, keys1, _) =>
       decide (a1 = some (some 100) ∧ keys1 = [2]) &&
       (match step s1 (.upsert 0 2 (some 201) none none false) {} with
        | .ok (s2, _, _) =>
          decide (s2.shutting = false) &&
          (match iterNext s2 keys1 { pool := [0] } with
           | .ok (s3, a2, keys2, o3) =>
             decide (a2 = some (some 201) ∧ keys2 = [] ∧ o3.pool = [] ∧ s3.stats.hits = 2) &&
             decide (iterShow (iterNext s3 keys2 {}) = some (none, []))
           | .error _ => false)
        | .error _ => false)
     | .error _ => false) = true := by decide

/-- (c) **A `shutdown()` between two calls ends the iteration**, on a reachable state.  Open `[1, 2]`; the first
    `next()` yields `100`; then `shutdown()`; the second `next()` answers `None` (end) and keeps its key, although key 2
    was readable when the iterator was opened. -/
theorem rs_iter_ends_at_shutdown :
    visible rs_iterState 2 = some 200 ∧
    (match iterNext rs_iterState [1, 2] { pool := [0] } with
     | .ok (s1, a1, keys1, _) =>
       decide (a1 = some (some 100) ∧ keys1 = [2]) &&
       (match step s1 (.shutdown 0) {} with
        | .ok (s2, _, _) =>
          decide (s2.shutting = true) &&
          decide (iterShow (iterNext s2 keys1 { pool := [0] }) = some (none, [2])) &&
          (match iterDrain s2 keys1 { pool := [0] } with
           | .ok (_, vs, ks', o') => decide (vs = [] ∧ ks' = [2] ∧ o'.pool = [0])
           | .error _ => false)
        | .error _ => false)
     | .error _ => false) = true := by decide

/-- (d) **A delete between two calls**, on a reachable state (the call has returned, the worker has not run): the
    second item is absent, `Some(None)`. -/
theorem rs_iter_sees_delete :
    visible rs_iterState 2 = some 200 ∧
    (match iterNext rs_iterState [1, 2] { pool := [0] } with
     | .ok (s1, a1, keys1, _) =>
       decide (a1 = some (some 100) ∧ keys1 = [2]) &&
       (match step s1 (.delete 0 2) {} with
        | .ok (s2, _, _) => decide (iterShow (iterNext s2 keys1 {}) = some (some none, []))
        | .error _ => false)
     | .error _ => false) = true := by decide

/-- the states in which the second `next()` of (b), (c), (d) is called are reachable: whatever `s1` the first `next()`
    leaves and whatever `s2` the event in between leads to -/
theorem rs_iter_second_call_reachable {s1 s2 : State} {a1 : Option (Option Nat)} {keys1 : List Nat} {o1 o2 : Oracle}
    {ev : Ev} {out : Out} (h1 : iterNext rs_iterState [1, 2] { pool := [0] } = .ok (s1, a1, keys1, o1))
    (h2 : step s1 ev {} = .ok (s2, out, o2)) : Reach rs_iterCfg 0 [1, 2] s2 ∧ Inv s2 :=
  have hr := rs_reach_after (rs_reach_iterNext rs_iterState_reach h1) h2
  ⟨hr, inv_reach hr⟩

end Cached
