/-
  C02 over HISTORIES with call begin / return events: regularity of reads, for ALL interleavings of Layer B.

  C02 (English): "Reads return only the current value of the key, never stale or foreign: a read of key k returns a
  value only if that value was written by a put/upsert of k that began before the read ended, and no later overwrite or
  delete of k had completed before the read began; a read never returns a value written for another key, a value that
  was never written, or a value of an incarnation deleted before the read began."

  The per-ACTION theorems (`C02_layerB_read_current`, `C02_layerB_get_store`, `C02_layerB_mget_current`, …) say what one
  lookup action finds in ITS state.  Here the statement is about a whole run `RunH b0 h b` (Theorems.lean): `h` is the
  list of (state before the action, action), latest first; events are addressed by their index counted from the OLDEST
  action (`Hist.At h n x`: `x` is the `n`-th action, `n = 0` the first).

  Events (HistoryLemmas.lean):
    `Issued h i req n`        the `n`-th action is `issue i req`                       — the call BEGINS
    `Returned h b i n out`    the `n`-th action is the action of client `i` after which it is idle again, `out` recorded
                                                                                       — the call RETURNS
    `SLookup h i k n e`       the `n`-th action is the `store.get` of `get(k)` / `get_ref(k)` of client `i`; it finds the
                              alive entry `e`                                          — the LOOKUP of a read
    `MLookup h i j k n e`     … of position `j` (key `k`) of a multi-key read
    `WritePoint h n k v`      the `n`-th action is the worker's `store.put` of a put of `k` with value `v`, or a client's
                              `upsert.update` of `put_or_update(k, Some(v), ..)` that finds the key — a WRITE POINT
    `PutPoint h n k id`       … the worker's `store.put` of a put of `k` under key id `id`  — an incarnation is BORN
    `MarkPoint h n k`         a client's `delete.mark` of `delete(k)` that finds the key — the HIDE POINT of a delete
    `RemovePoint h n k`       the worker's `store.remove` of a `Delete(k)` / of an eviction of `k`, the sweeper's
                              `store.remove` of `k`, `shutdown.store_clear` — each finding the key

  Theorems (all for EVERY run from EVERY start state in which the clients are idle — reachable or not, at rest or not:
  the hypotheses `Reach` and `atRest` of the task are not needed; `C02_layerB_regular_atRest` is the instance):
    `C02_layerB_regular`            a completed `get(k)` / `get_ref(k)` (begun at `n₀`, returned `Some(v)` at `n₂`) has
                                    its lookup at some `n₁`, `n₀ < n₁ < n₂`, and
                                    (value)        `v` is the value of the LATEST write point of `k` before `n₁`
                                                   (`LatestWrite`: no write point of `k` AT ALL in between), and
                                    (incarnation)  the entry read was stored by the latest `store.put` of `k` before
                                                   `n₁`, and between that and `n₁` no removal of `k` and no delete mark
                                                   of `k` ran (`LiveIncarnation`);
                                    in both parts the NAMED alternative is "from the start state": the entry (value)
                                    stood in `b0` already and no write point (no birth, removal, mark) ran before `n₁`.
    `C02_layerB_regular_literal`    the same in one clause: between the write point `p` of the value read and the lookup
                                    there is no write point, no hide point and no removal of `k`.
    `C02_layerB_regular_mget`       the same for every position of a multi-key read, each at its own lookup.
    `C02_layerB_no_stale_after_write_point`, `C02_layerB_no_stale_after_completed_overwrite`,
    `C02_layerB_no_deleted_incarnation`, `C02_layerB_never_foreign`, `C02_layerB_never_unwritten`,
    `C02_layerB_written_by_a_call`  the English real-time clauses.

  The value-less upsert on an expired, unswept entry (known finding D3; fourth case of `Spec.no_foreign_valueB`) is
  NOT an exception of this formulation: `upsert.update` without a value is no write point, it keeps the value — so the
  value read afterwards is still the value of the latest write point (`C02_layerB_regular_revived`: the run).  What D3
  breaks is C09 (expiry), not regularity.

  What the theorem does NOT say, because it is false of the model and of the code: that a put which RETURNED before the
  read began is visible to the read.  `put` returns when its command is queued; its write point is the worker's
  `store.put`, later (`C02_layerB_put_returns_before_write_point`).  The real-time order is between WRITE POINTS (and
  hide points) and the lookup; for `put_or_update` on a present key and for `delete` the write / hide point lies
  inside the call, so "returned before the read began" implies "write point before the lookup".
-/
import CachedProofs.LayerB.HistoryLemmas
import CachedProofs.LayerB.Refine

namespace Cached
namespace B
open Hist

namespace Hist

/-- the `n`-th action is a WRITE POINT of key `k` with value `v` -/
def WritePoint (h : List (BState × Act)) (n k v : Nat) : Prop := ∃ x, At h n x ∧ isWrite k v x

/-- the `n`-th action is the `store.put` that stores `k` under key id `id`: an incarnation of `k` is born -/
def PutPoint (h : List (BState × Act)) (n k id : Nat) : Prop := ∃ x v, At h n x ∧ isPut k v id x

/-- the `n`-th action is the HIDE POINT (`delete.mark`) of a `delete(k)` that finds the key -/
def MarkPoint (h : List (BState × Act)) (n k : Nat) : Prop := ∃ x, At h n x ∧ isMark k x

/-- the `n`-th action removes the entry of `k` from the store -/
def RemovePoint (h : List (BState × Act)) (n k : Nat) : Prop := ∃ x, At h n x ∧ isRemove k x

/-- NAMED alternative of `LatestWrite`: the value stood in the start state and no write point of `k` ran since -/
def StartValue (h : List (BState × Act)) (b0 : BState) (k v n : Nat) : Prop :=
  ∃ e0, b0.g.store.get? k = some e0 ∧ e0.value = v ∧ ∀ q, q < n → ∀ v', ¬ WritePoint h q k v'

/-- `v` is the value of the LATEST write point of `k` before the `n`-th action: a write point `p < n` of `k` with
    value `v`, and NO write point of `k` (whatever its value) strictly between `p` and `n` -/
def LatestWrite (h : List (BState × Act)) (b0 : BState) (k v n : Nat) : Prop :=
  (∃ p, p < n ∧ WritePoint h p k v ∧ ∀ q, p < q → q < n → ∀ v', ¬ WritePoint h q k v') ∨ StartValue h b0 k v n

/-- between `lo` (inclusive) and `hi` (exclusive): no `store.put` of `k`, no removal of `k`, no delete mark of `k` -/
def Undisturbed (h : List (BState × Act)) (k lo hi : Nat) : Prop :=
  ∀ q, lo ≤ q → q < hi → (∀ id, ¬ PutPoint h q k id) ∧ ¬ RemovePoint h q k ∧ ¬ MarkPoint h q k

/-- the incarnation of `k` with key id `id` is LIVE at the `n`-th action: it was stored by the `store.put` action `c`
    (NAMED alternative: it stood, not soft-deleted, in the start state) and nothing has ended or hidden it since -/
def LiveIncarnation (h : List (BState × Act)) (b0 : BState) (k id n : Nat) : Prop :=
  (∃ c, c < n ∧ PutPoint h c k id ∧ Undisturbed h k (c + 1) n) ∨
  (∃ e0, b0.g.store.get? k = some e0 ∧ e0.id = id ∧ e0.soft = false ∧ Undisturbed h k 0 n)

theorem ValSrc.latest {h : List (BState × Act)} {b0 : BState} {k v n : Nat} (hv : ValSrc h b0 k v n) :
    LatestWrite h b0 k v n := by
  rcases hv with ⟨p, hp, hx, hq⟩ | ⟨e0, h1, h2, hq⟩
  · exact Or.inl ⟨p, hp, hx, fun q hq1 hq2 v' ⟨x, hx', hw⟩ => hq q x (by omega) hq2 hx' ⟨v', hw⟩⟩
  · exact Or.inr ⟨e0, h1, h2, fun q hq2 v' ⟨x, hx', hw⟩ => hq q x (Nat.zero_le _) hq2 hx' ⟨v', hw⟩⟩

theorem Silent.undisturbed {h : List (BState × Act)} {k lo hi : Nat} (hq : Silent h (isDisturb k false) lo hi) :
    Undisturbed h k lo hi := by
  intro q h1 h2
  refine ⟨?_, ?_, ?_⟩
  · rintro id ⟨x, v, hx, hp⟩; exact hq q x h1 h2 hx (Or.inl ⟨v, id, hp⟩)
  · rintro ⟨x, hx, hr⟩; exact hq q x h1 h2 hx (Or.inr (Or.inl hr))
  · rintro ⟨x, hx, hm⟩; exact hq q x h1 h2 hx (Or.inr (Or.inr ⟨rfl, hm⟩))

theorem IncSrc.live {h : List (BState × Act)} {b0 : BState} {k id n : Nat} (hv : IncSrc h b0 k id false n) :
    LiveIncarnation h b0 k id n := by
  rcases hv with ⟨c, hc, ⟨x, v, hx, hp⟩, hq⟩ | ⟨e0, h1, h2, h3, hq⟩
  · exact Or.inl ⟨c, hc, ⟨x, v, hx, hp⟩, hq.undisturbed⟩
  · exact Or.inr ⟨e0, h1, h2, h3 rfl, hq.undisturbed⟩

theorem Src.regular {h : List (BState × Act)} {b0 : BState} {k n : Nat} {e : Entry} {now : Nat}
    (hs : Src h b0 k e n) (hal : e.alive now = true) :
    LatestWrite h b0 k e.value n ∧ LiveIncarnation h b0 k e.id n := by
  have hsoft := alive_not_soft hal
  obtain ⟨hv, hi⟩ := hs
  rw [hsoft] at hi
  exact ⟨hv.latest, hi.live⟩

end Hist

/-! ## the theorem -/

/-- **C02 over histories: reads are regular.**  Take ANY run `RunH b0 h b` of Layer B — any interleaving of any number
    of clients with the worker, the sweeper, the consumer and the clock — from a start state in which every client is
    idle.  Let client `i` begin a `get(k)` or `get_ref(k)` at `n₀` (`Issued`) and let that call return `Some(v)` at `n₂`
    (`Returned`; `hsame`: the client began no other call in between, so it IS that call).  Then the call did its store
    lookup at some `n₁` with `n₀ < n₁ < n₂`, found there an alive entry `e` of `k` with value `v`, and

    * `LatestWrite h b0 k v n₁`: there is a write point `p < n₁` OF KEY `k` with value `v` — the worker's `store.put`
      of a put of `k`, or the `upsert.update` of a `put_or_update(k, Some(v))` that found the key — and NO write point
      of `k` whatever lies strictly between `p` and `n₁`: `v` is the value of the latest write before the lookup
      (a fortiori the writing call BEGAN before the read ENDED: `p < n₁ < n₂`);
      named alternative `StartValue`: the value stood in `b0` and no write point of `k` ran before `n₁`;
    * `LiveIncarnation h b0 k e.id n₁`: the entry read was stored by the `store.put` action `c < n₁`, and strictly
      between `c` and `n₁` there is no other `store.put` of `k`, no removal of `k` (Delete command, eviction, sweeper,
      `shutdown.store_clear`) and no HIDE POINT (`delete.mark`) of `k`: the incarnation read was not hidden by a
      delete mark, nor removed, before the lookup;
      named alternative: it stood in `b0`, not soft-deleted, and none of these ran before `n₁`. -/
theorem C02_layerB_regular {b0 b : BState} {h : List (BState × Act)} (hidle : ∀ pc ∈ b0.cl, pc = .idle)
    (hrun : RunH b0 h b) {i k v n₀ n₂ : Nat} {req : Req} (hreq : req = .get k ∨ req = .getRef k)
    (hiss : Issued h i req n₀) (hret : Returned h b i n₂ (.value (some v))) (hlt : n₀ < n₂)
    (hsame : ∀ q r, n₀ < q → q < n₂ → ¬ Issued h i r q) :
    ∃ n₁ e, n₀ < n₁ ∧ n₁ < n₂ ∧ SLookup h i k n₁ e ∧ e.value = v ∧
      LatestWrite h b0 k v n₁ ∧ LiveIncarnation h b0 k e.id n₁ := by
  obtain ⟨s, s'', hx, hst'', hidle', hres⟩ := hret
  obtain ⟨s', o, o', h0, pc, hs, hst, hsub, hlen, hpc, hread⟩ := call_at hidle hrun hiss hx hlt hsame
  have := hst.inj hst''
  subst this
  obtain ⟨n₁, e, h1, hlook, hval, hsrc⟩ := single_return hreq hs hpc hread hidle' hres
  have hn1 : n₁ < n₂ := by have := hlook.lt; omega
  obtain ⟨s1, _, _, _, hal⟩ := hlook
  obtain ⟨hv, hi⟩ := (hsrc.sub hsub (by omega)).regular hal
  exact ⟨n₁, e, h1, hn1, SLookup.sub hsub ⟨s1, by assumption, by assumption, by assumption, hal⟩, hval, hval ▸ hv, hi⟩

/-- **… for every position of a multi-key read** (`multi_get`, `multi_get_iterator`, `multi_get_map_iterator`).
    A multi-key read is not a snapshot (`Spec.mget_not_a_snapshot`): each position has its OWN lookup `n₁`, and the value
    returned at position `j` is, for the key `ks[j]`, regular at THAT lookup. -/
theorem C02_layerB_regular_mget {b0 b : BState} {h : List (BState × Act)} (hidle : ∀ pc ∈ b0.cl, pc = .idle)
    (hrun : RunH b0 h b) {i n₀ n₂ : Nat} {ks : List Nat} {iter : Bool} {outs : List (Option Nat)}
    (hiss : Issued h i (.mget ks iter) n₀) (hret : Returned h b i n₂ (.values outs)) (hlt : n₀ < n₂)
    (hsame : ∀ q r, n₀ < q → q < n₂ → ¬ Issued h i r q) :
    ∀ j v, outs[j]? = some (some v) →
      ∃ k n₁ e, ks[j]? = some k ∧ n₀ < n₁ ∧ n₁ < n₂ ∧ MLookup h i j k n₁ e ∧ e.value = v ∧
        LatestWrite h b0 k v n₁ ∧ LiveIncarnation h b0 k e.id n₁ := by
  obtain ⟨s, s'', hx, hst'', hidle', hres⟩ := hret
  obtain ⟨s', o, o', h0, pc, hs, hst, hsub, hlen, hpc, hread⟩ := call_at hidle hrun hiss hx hlt hsame
  have := hst.inj hst''
  subst this
  have hacc := mget_return hs hpc hread hidle' hres
  intro j v hj
  obtain ⟨k, hk, n₁, e, h1, hlook, hval, hsrc⟩ := hacc j v hj
  have hn1 : n₁ < n₂ := by have := hlook.lt; omega
  obtain ⟨hv, hi⟩ : LatestWrite h b0 k e.value n₁ ∧ LiveIncarnation h b0 k e.id n₁ := by
    obtain ⟨_, _, _, _, _, _, _, _, hal⟩ := hlook
    exact (hsrc.sub hsub (by omega)).regular hal
  exact ⟨k, n₁, e, hk, h1, hn1, hlook.sub hsub, hval, hval ▸ hv, hi⟩

/-- **… in the literal form of the task**: the write point `p` of the value read, and strictly between `p` and the
    lookup `n₁` NO write point of `k` (of any value), NO hide point (`delete.mark`) of `k` and NO removal of `k`;
    named alternative: value and entry stood in the start state and none of these ran before `n₁`. -/
theorem C02_layerB_regular_literal {b0 b : BState} {h : List (BState × Act)} (hidle : ∀ pc ∈ b0.cl, pc = .idle)
    (hrun : RunH b0 h b) {i k v n₀ n₂ : Nat} {req : Req} (hreq : req = .get k ∨ req = .getRef k)
    (hiss : Issued h i req n₀) (hret : Returned h b i n₂ (.value (some v))) (hlt : n₀ < n₂)
    (hsame : ∀ q r, n₀ < q → q < n₂ → ¬ Issued h i r q) :
    ∃ n₁ e, n₀ < n₁ ∧ n₁ < n₂ ∧ SLookup h i k n₁ e ∧ e.value = v ∧
      ((∃ p, p < n₁ ∧ WritePoint h p k v ∧
          ∀ q, p < q → q < n₁ → (∀ v', ¬ WritePoint h q k v') ∧ ¬ MarkPoint h q k ∧ ¬ RemovePoint h q k) ∨
       (StartValue h b0 k v n₁ ∧ ∀ q, q < n₁ → ¬ MarkPoint h q k ∧ ¬ RemovePoint h q k)) := by
  obtain ⟨n₁, e, h1, h2, h3, h4, hl, hi⟩ := C02_layerB_regular hidle hrun hreq hiss hret hlt hsame
  refine ⟨n₁, e, h1, h2, h3, h4, ?_⟩
  -- a birth is a write point
  have hput : ∀ c id, PutPoint h c k id → ∃ v', WritePoint h c k v' :=
    fun c id ⟨x, v', hx, hp⟩ => ⟨v', x, hx, Or.inl ⟨id, hp⟩⟩
  rcases hl with ⟨p, hp, hw, hno⟩ | hstart
  · refine Or.inl ⟨p, hp, hw, fun q hq1 hq2 => ⟨hno q hq1 hq2, ?_⟩⟩
    rcases hi with ⟨c, hc, hpc, hu⟩ | ⟨_, _, _, _, hu⟩
    · have hcp : c ≤ p := by
        rcases Nat.lt_or_ge p c with hlt' | hge
        · obtain ⟨v', hw'⟩ := hput c _ hpc
          exact absurd hw' (hno c hlt' hc v')
        · exact hge
      exact (hu q (by omega) hq2).2.symm
    · exact (hu q (Nat.zero_le _) hq2).2.symm
  · refine Or.inr ⟨hstart, fun q hq => ?_⟩
    obtain ⟨_, _, _, hno⟩ := hstart
    rcases hi with ⟨c, hc, hpc, _⟩ | ⟨_, _, _, _, hu⟩
    · obtain ⟨v', hw'⟩ := hput c _ hpc
      exact absurd hw' (hno c hc v')
    · exact (hu q (Nat.zero_le _) hq).2.symm

/-- the instance asked for: a REACHABLE start state AT REST (`atRest`, Refine.lean: worker between two commands, the
    sweeper between two ticks, every client idle, no lock owned, no read guard kept).  Neither `Reach` nor the rest of
    `atRest` is used: only that the clients are idle. -/
theorem C02_layerB_regular_atRest {cfg : Cfg} {now : Nat} {seeds : List Nat} {clients : Nat} {b0 b : BState}
    {h : List (BState × Act)} (_hr : Reach cfg now seeds clients b0) (hrest : atRest b0) (hrun : RunH b0 h b)
    {i k v n₀ n₂ : Nat} {req : Req} (hreq : req = .get k ∨ req = .getRef k)
    (hiss : Issued h i req n₀) (hret : Returned h b i n₂ (.value (some v))) (hlt : n₀ < n₂)
    (hsame : ∀ q r, n₀ < q → q < n₂ → ¬ Issued h i r q) :
    ∃ n₁ e, n₀ < n₁ ∧ n₁ < n₂ ∧ SLookup h i k n₁ e ∧ e.value = v ∧
      LatestWrite h b0 k v n₁ ∧ LiveIncarnation h b0 k e.id n₁ :=
  C02_layerB_regular hrest.2.2.1 hrun hreq hiss hret hlt hsame

/-! ## the real-time clauses of C02, as corollaries

  First in LINEARIZATION form, about any lookup index `n` at which `LatestWrite` / `LiveIncarnation` hold (single-key
  or one position of a multi-key read alike); then in the ENGLISH form, with the begin / return events of the other
  call. -/

namespace Hist

/-- a write point writes ONE value -/
theorem isWrite_inj {k v v' : Nat} {x : BState × Act} (h1 : isWrite k v x) (h2 : isWrite k v' x) : v = v' := by
  rcases h1 with ⟨id, ha, c, exp, hw, _, rfl, _⟩ | ⟨i, w, ttl, rm, e, exp, ha, hpc, _⟩ <;>
    rcases h2 with ⟨id', ha', c', exp', hw', _, rfl, _⟩ | ⟨i', w', ttl', rm', e', exp', ha', hpc', _⟩
  · rw [hw] at hw'; cases hw'; rfl
  · rw [ha] at ha'; cases ha'
  · rw [ha] at ha'; cases ha'
  · rw [ha] at ha'; cases ha'
    rw [hpc] at hpc'; cases hpc'; rfl

/-- the value read is not the value of an OLDER write point: after a write point `q` of another value, `v` was
    written again -/
theorem LatestWrite.after_write {h : List (BState × Act)} {b0 : BState} {k v n q v' : Nat}
    (hl : LatestWrite h b0 k v n) (hq : WritePoint h q k v') (hqn : q < n) (hne : v' ≠ v) :
    ∃ p, q < p ∧ p < n ∧ WritePoint h p k v := by
  rcases hl with ⟨p, hp, hw, hno⟩ | ⟨e0, _, _, hno⟩
  · rcases Nat.lt_trichotomy p q with hpq | rfl | hqp
    · exact absurd hq (hno q hpq hqn v')
    · obtain ⟨x, hx, hwx⟩ := hw
      obtain ⟨x', hx', hwx'⟩ := hq
      cases hx.inj hx'
      exact absurd (isWrite_inj hwx' hwx) hne
    · exact ⟨p, hqp, hp, hw⟩
  · exact absurd hq (hno q hqn v')

/-- the incarnation read is not one that a delete had MARKED: it was born after the mark -/
theorem LiveIncarnation.after_mark {h : List (BState × Act)} {b0 : BState} {k id n q : Nat}
    (hl : LiveIncarnation h b0 k id n) (hq : MarkPoint h q k) (hqn : q < n) :
    ∃ c, q < c ∧ c < n ∧ PutPoint h c k id ∧ Undisturbed h k (c + 1) n := by
  rcases hl with ⟨c, hc, hp, hu⟩ | ⟨e0, _, _, _, hu⟩
  · rcases Nat.lt_trichotomy c q with hcq | rfl | hqc
    · exact absurd hq (hu q hcq hqn).2.2
    · obtain ⟨x, v, hx, ha, _⟩ := hp
      obtain ⟨x', hx', j, e, ha', _⟩ := hq
      cases hx.inj hx'
      rw [ha] at ha'; cases ha'
    · exact ⟨c, hqc, hc, hp, hu⟩
  · exact absurd hq (hu q (Nat.zero_le _) hqn).2.2

/-- … nor one that had been REMOVED (by the worker's `Delete`, an eviction, the sweeper, `shutdown()`) -/
theorem LiveIncarnation.after_remove {h : List (BState × Act)} {b0 : BState} {k id n q : Nat}
    (hl : LiveIncarnation h b0 k id n) (hq : RemovePoint h q k) (hqn : q < n) :
    ∃ c, q < c ∧ c < n ∧ PutPoint h c k id ∧ Undisturbed h k (c + 1) n := by
  rcases hl with ⟨c, hc, hp, hu⟩ | ⟨e0, _, _, _, hu⟩
  · rcases Nat.lt_trichotomy c q with hcq | rfl | hqc
    · exact absurd hq (hu q hcq hqn).2.1
    · obtain ⟨x, v, hx, ha, c0, exp, hw, _⟩ := hp
      obtain ⟨x', hx', hr⟩ := hq
      cases hx.inj hx'
      rcases hr with ⟨_, hh, e, hw', _⟩ | ⟨_, c1, inc, s, id1, wk, e, hw', _⟩ |
        ⟨vis, now, sh, rest, id1, wk, e, ha', _⟩ | ⟨j, e, ha', _⟩
      · rw [hw] at hw'; cases hw'
      · rw [hw] at hw'; cases hw'
      · rw [ha] at ha'; cases ha'
      · rw [ha] at ha'; cases ha'
    · exact ⟨c, hqc, hc, hp, hu⟩
  · exact absurd hq (hu q (Nat.zero_le _) hqn).2.1

end Hist

/-- **No stale value after a write point** (linearization form): if a write point of `k` with another value `v'` lies
    before the read BEGAN, the read returns `v` only because a LATER write point (`q < p`, before the lookup) wrote
    `v` again. -/
theorem C02_layerB_no_stale_after_write_point {b0 b : BState} {h : List (BState × Act)}
    (hidle : ∀ pc ∈ b0.cl, pc = .idle) (hrun : RunH b0 h b) {i k v n₀ n₂ : Nat} {req : Req}
    (hreq : req = .get k ∨ req = .getRef k) (hiss : Issued h i req n₀) (hret : Returned h b i n₂ (.value (some v)))
    (hlt : n₀ < n₂) (hsame : ∀ q r, n₀ < q → q < n₂ → ¬ Issued h i r q)
    {q v' : Nat} (hq : WritePoint h q k v') (hqlt : q < n₀) (hne : v' ≠ v) :
    ∃ n₁ p, n₀ < n₁ ∧ n₁ < n₂ ∧ q < p ∧ p < n₁ ∧ WritePoint h p k v := by
  obtain ⟨n₁, e, h1, h2, _, _, hl, _⟩ := C02_layerB_regular hidle hrun hreq hiss hret hlt hsame
  obtain ⟨p, hp1, hp2, hp3⟩ := hl.after_write hq (by omega) hne
  exact ⟨n₁, p, h1, h2, hp1, hp2, hp3⟩

/-- **No stale value after a COMPLETED overwrite** (English form): client `j` began a `put_or_update(k, Some(v'))` at
    `m₀`, it performed its write point at `q` (its `upsert.update` found the key) and RETURNED at `m₂`, before the read
    BEGAN (`m₂ < n₀`); `v' ≠ v`.  Then the read returns `v` only because a write point LATER than that overwrite
    wrote `v` again. -/
theorem C02_layerB_no_stale_after_completed_overwrite {b0 b : BState} {h : List (BState × Act)}
    (hidle : ∀ pc ∈ b0.cl, pc = .idle) (hrun : RunH b0 h b) {i k v n₀ n₂ : Nat} {req : Req}
    (hreq : req = .get k ∨ req = .getRef k) (hiss : Issued h i req n₀) (hret : Returned h b i n₂ (.value (some v)))
    (hlt : n₀ < n₂) (hsame : ∀ q r, n₀ < q → q < n₂ → ¬ Issued h i r q)
    {j m₀ q m₂ v' : Nat} {w : Option Int} {ttl : Option Nat} {rm : Bool} {out' : Out}
    (_hissu : Issued h j (.upsert k (some v') w ttl rm) m₀) (_hm : m₀ < q)
    (hwp : ∃ x, At h q x ∧ x.2 = .client j ∧ isUpsert k v' x) (hqm : q < m₂)
    (_hretu : Returned h b j m₂ out') (hbefore : m₂ < n₀) (hne : v' ≠ v) :
    ∃ n₁ p, n₀ < n₁ ∧ n₁ < n₂ ∧ q < p ∧ p < n₁ ∧ WritePoint h p k v := by
  obtain ⟨x, hx, _, hu⟩ := hwp
  exact C02_layerB_no_stale_after_write_point hidle hrun hreq hiss hret hlt hsame ⟨x, hx, Or.inr hu⟩ (by omega) hne

/-- **No value of a deleted incarnation** (English form): client `j` began a `delete(k)` at `m₀`, its `delete.mark`
    ran at `q` and found the key, and the call RETURNED at `m₂`, before the read BEGAN (`m₂ < n₀`).  Then the entry the
    read returns was stored by a `store.put` action `c` AFTER that mark (`q < c`): it is not the incarnation — nor any
    incarnation — that was stored when the delete's mark ran; and nothing removed or marked it between `c` and the
    lookup. -/
theorem C02_layerB_no_deleted_incarnation {b0 b : BState} {h : List (BState × Act)}
    (hidle : ∀ pc ∈ b0.cl, pc = .idle) (hrun : RunH b0 h b) {i k v n₀ n₂ : Nat} {req : Req}
    (hreq : req = .get k ∨ req = .getRef k) (hiss : Issued h i req n₀) (hret : Returned h b i n₂ (.value (some v)))
    (hlt : n₀ < n₂) (hsame : ∀ q r, n₀ < q → q < n₂ → ¬ Issued h i r q)
    {j m₀ q m₂ : Nat} {out' : Out} (_hissd : Issued h j (.delete k) m₀) (_hm : m₀ < q)
    (hmark : ∃ x, At h q x ∧ x.2 = .client j ∧ isMark k x) (hqm : q < m₂)
    (_hretd : Returned h b j m₂ out') (hbefore : m₂ < n₀) :
    ∃ n₁ e c, n₀ < n₁ ∧ n₁ < n₂ ∧ SLookup h i k n₁ e ∧ e.value = v ∧ q < c ∧ c < n₁ ∧ PutPoint h c k e.id ∧
      Undisturbed h k (c + 1) n₁ := by
  obtain ⟨x, hx, _, hm⟩ := hmark
  obtain ⟨n₁, e, h1, h2, h3, h4, _, hl⟩ := C02_layerB_regular hidle hrun hreq hiss hret hlt hsame
  obtain ⟨c, hc1, hc2, hc3, hc4⟩ := hl.after_mark ⟨x, hx, hm⟩ (by omega)
  exact ⟨n₁, e, c, h1, h2, h3, h4, hc1, hc2, hc3, hc4⟩

/-- **Never foreign**: the value returned by a read of `k` was written FOR `k` — before the lookup the worker ran the
    `store.put` of a put command whose key is `k` and whose value is `v`, or a client ran the `upsert.update` of a
    `put_or_update(k, Some(v), ..)`; or (named) `k` held `v` in the start state. -/
theorem C02_layerB_never_foreign {b0 b : BState} {h : List (BState × Act)}
    (hidle : ∀ pc ∈ b0.cl, pc = .idle) (hrun : RunH b0 h b) {i k v n₀ n₂ : Nat} {req : Req}
    (hreq : req = .get k ∨ req = .getRef k) (hiss : Issued h i req n₀) (hret : Returned h b i n₂ (.value (some v)))
    (hlt : n₀ < n₂) (hsame : ∀ q r, n₀ < q → q < n₂ → ¬ Issued h i r q) :
    (∃ p x, p < n₂ ∧ At h p x ∧
      ((x.2 = .worker ∧ ∃ c, x.1.w = .storePut c ∧ c.k = k ∧ c.v = v) ∨
       (∃ j w ttl rm, x.2 = .client j ∧ x.1.cl[j]? = some (.upUpdate k (some v) w ttl rm)))) ∨
    (∃ e0, b0.g.store.get? k = some e0 ∧ e0.value = v) := by
  obtain ⟨n₁, e, _, h2, _, _, hl, _⟩ := C02_layerB_regular hidle hrun hreq hiss hret hlt hsame
  rcases hl with ⟨p, hp, ⟨x, hx, hw⟩, _⟩ | ⟨e0, h1, h2, _⟩
  · refine Or.inl ⟨p, x, by omega, hx, ?_⟩
    rcases hw with ⟨id, ha, c, exp, hw, hk, hv, _⟩ | ⟨j, w, ttl, rm, e', exp, ha, hpc, _⟩
    · exact Or.inl ⟨ha, c, hw, hk, hv⟩
    · exact Or.inr ⟨j, w, ttl, rm, ha, hpc⟩
  · exact Or.inr ⟨e0, h1, h2⟩

/-- **Never unwritten**: the value returned was WRITTEN BY A CALL THAT BEGAN BEFORE THE READ ENDED — a write point
    `p` of `k` with value `v` before the lookup, and a call `put*(k, v)` / `put_or_update(k, Some(v), ..)` ISSUED at
    some `m < p` (`m < p < n₁ < n₂`).  Named alternatives, all about the start state `b0`: the put command of `(k, v)`
    stood in its queue, or under its worker's hands; or `k` held `v` in it. -/
theorem C02_layerB_never_unwritten {b0 b : BState} {h : List (BState × Act)}
    (hidle : ∀ pc ∈ b0.cl, pc = .idle) (hrun : RunH b0 h b) {i k v n₀ n₂ : Nat} {req : Req}
    (hreq : req = .get k ∨ req = .getRef k) (hiss : Issued h i req n₀) (hret : Returned h b i n₂ (.value (some v)))
    (hlt : n₀ < n₂) (hsame : ∀ q r, n₀ < q → q < n₂ → ¬ Issued h i r q) :
    (∃ p, p < n₂ ∧ WritePoint h p k v ∧
      ((∃ j m req', m < p ∧ Issued h j req' m ∧ WritesReq req' k v) ∨
       (∃ c ∈ b0.g.queue, cmdKV c.1 = some (k, v)) ∨ (∃ c, b0.w.cmd? = some c ∧ c.k = k ∧ c.v = v))) ∨
    (∃ e0, b0.g.store.get? k = some e0 ∧ e0.value = v) := by
  obtain ⟨n₁, e, _, h2, _, _, hl, _⟩ := C02_layerB_regular hidle hrun hreq hiss hret hlt hsame
  rcases hl with ⟨p, hp, ⟨x, hx, hw⟩, _⟩ | ⟨e0, h1, h2, _⟩
  · exact Or.inl ⟨p, by omega, ⟨x, hx, hw⟩, write_origin hidle hrun hx hw⟩
  · exact Or.inr ⟨e0, h1, h2⟩

/-- **… from a fresh cache** (empty store, empty queue, the worker between two commands, the clients idle — e.g.
    `BState.init`): no alternative is left.  A read of `k` that returns `Some(v)` at `n₂` is preceded by a write
    point `p` of `k` with value `v`, and that by the ISSUE `m` of a call `put*(k, v)` / `put_or_update(k, Some(v))`:
    `m < p < n₂` — the value was written by a put/upsert of `k` that began before the read ended. -/
theorem C02_layerB_written_by_a_call {b0 b : BState} {h : List (BState × Act)}
    (hidle : ∀ pc ∈ b0.cl, pc = .idle) (hstore : b0.g.store = []) (hqueue : b0.g.queue = [])
    (hw0 : b0.w.cmd? = none) (hrun : RunH b0 h b) {i k v n₀ n₂ : Nat} {req : Req}
    (hreq : req = .get k ∨ req = .getRef k) (hiss : Issued h i req n₀) (hret : Returned h b i n₂ (.value (some v)))
    (hlt : n₀ < n₂) (hsame : ∀ q r, n₀ < q → q < n₂ → ¬ Issued h i r q) :
    ∃ p j m req', m < p ∧ p < n₂ ∧ Issued h j req' m ∧ WritesReq req' k v ∧ WritePoint h p k v := by
  rcases C02_layerB_never_unwritten hidle hrun hreq hiss hret hlt hsame with
    ⟨p, hp, hwp, ⟨j, m, req', h1, h2, h3⟩ | ⟨c, hc, _⟩ | ⟨c, hc, _⟩⟩ | ⟨e0, h1, _⟩
  · exact ⟨p, j, m, req', h1, hp, h2, h3, hwp⟩
  · rw [hqueue] at hc; cases hc
  · rw [hw0] at hc; cases hc
  · rw [hstore] at h1; cases h1

/-! ## concrete runs: the hypotheses are satisfiable, both outcomes of a race are reachable

  Configuration `cfgEx` (Theorems.lean; `counters := 2`), two clients, a fresh cache.  `exHist l` is the history of the
  run of the action list `l` (`histOf`, Theorems.lean), `exFinal l` its final state. -/

namespace Hist

def exInit : BState := BState.init cfgEx 0 [1, 2, 3, 4] 2

def exHist (l : List (Act × Oracle)) : List (BState × Act) :=
  match histOf exInit l [] with
  | .ok (h, _) => h
  | .error _ => []

def exFinal (l : List (Act × Oracle)) : BState :=
  match histOf exInit l [] with
  | .ok (_, b) => b
  | .error _ => exInit

def exOk (l : List (Act × Oracle)) : Bool :=
  match histOf exInit l [] with
  | .ok _ => true
  | .error _ => false

theorem exRun {l : List (Act × Oracle)} (hok : exOk l = true) : RunH exInit (exHist l) (exFinal l) := by
  unfold exOk at hok
  unfold exHist exFinal
  cases hh : histOf exInit l [] with
  | error m => rw [hh] at hok; cases hok
  | ok p =>
    obtain ⟨h, b⟩ := p
    exact runH_histOf l (.nil _) hh

theorem exIdle : ∀ pc ∈ exInit.cl, pc = .idle := by
  intro pc hpc
  simp only [exInit, BState.init, List.mem_replicate] at hpc
  exact hpc.2

/-- a checkable form of "client `i` begins no call strictly between `lo` and `hi`" -/
theorem noIssue_check {h : List (BState × Act)} {i lo hi : Nat}
    (hc : ∀ q, q < hi → lo < q → (h.reverse[q]?).map (fun x => isIssueOf i x.2) ≠ some true) :
    ∀ q r, lo < q → q < hi → ¬ Issued h i r q := by
  rintro q r h1 h2 ⟨s, hx⟩
  apply hc q h2 h1
  unfold At at hx
  rw [hx]
  simp [isIssueOf]

/-- key 1 is put with value 100 (issue, four client actions; six worker actions, the last one `store.put`: index 10) -/
def exBase : List (Act × Oracle) := call 0 (.putW 1 100 5 none) 4 ++ workerN 6

/-- (i-a) client 1 reads key 1 WHILE client 0 upserts it to 200 — the lookup (14) runs BEFORE the upsert's write point (16) -/
def exOld : List (Act × Oracle) :=
  exBase ++ [(.issue 1 (.get 1), noO), (.issue 0 (.upsert 1 (some 200) none none false), noO),
    (.client 1, noO), (.client 1, noO), (.client 0, noO), (.client 0, noO), (.client 1, { pool := [0] }),
    (.client 0, noO), (.client 0, noO)]

end Hist

/-- **Non-vacuity (i-a): an upsert overlapping a read, the read returns the OLD value.**  The read begins at 11, the
    upsert at 12; the read's lookup is action 14, the upsert's write point action 16, the read returns `Some(100)` at
    17, the upsert returns at 19.  Every hypothesis of `C02_layerB_regular` holds; the latest write point before the
    lookup is the `store.put` of the first put, action 10. -/
theorem C02_layerB_regular_witness_old :
    RunH exInit (exHist exOld) (exFinal exOld) ∧ (∀ pc ∈ exInit.cl, pc = .idle) ∧
    Issued (exHist exOld) 1 (.get 1) 11 ∧ Returned (exHist exOld) (exFinal exOld) 1 17 (.value (some 100)) ∧
    (∀ q r, 11 < q → q < 17 → ¬ Issued (exHist exOld) 1 r q) ∧
    Issued (exHist exOld) 0 (.upsert 1 (some 200) none none false) 12 ∧ WritePoint (exHist exOld) 16 1 200 ∧
    (∃ out, Returned (exHist exOld) (exFinal exOld) 0 19 out) ∧
    (∃ e, SLookup (exHist exOld) 1 1 14 e ∧ e.value = 100) ∧ WritePoint (exHist exOld) 10 1 100 := by
  refine ⟨exRun (by decide), exIdle, ⟨_, rfl⟩, ⟨_, _, rfl, Or.inr ⟨_, rfl⟩, rfl, rfl⟩, noIssue_check (by decide),
    ⟨_, rfl⟩, ⟨_, rfl, Or.inr ⟨0, none, none, false, _, _, rfl, rfl, rfl, rfl⟩⟩,
    ⟨_, _, _, rfl, Or.inl ⟨rfl, rfl⟩, rfl, rfl⟩, ⟨_, ⟨_, rfl, Or.inl rfl, rfl, rfl⟩, rfl⟩,
    ⟨_, rfl, Or.inl ⟨_, rfl, _, _, rfl, rfl, rfl, rfl, rfl⟩⟩⟩

/-- … and the conclusion of `C02_layerB_regular` for that run -/
example : ∃ n₁ e, 11 < n₁ ∧ n₁ < 17 ∧ SLookup (exHist exOld) 1 1 n₁ e ∧ e.value = 100 ∧
    LatestWrite (exHist exOld) exInit 1 100 n₁ ∧ LiveIncarnation (exHist exOld) exInit 1 e.id n₁ :=
  have w := C02_layerB_regular_witness_old
  C02_layerB_regular w.2.1 w.1 (Or.inl rfl) w.2.2.1 w.2.2.2.1 (by decide) w.2.2.2.2.1

namespace Hist

/-- (i-b) the same two calls, the other outcome: the upsert's write point (14) runs BEFORE the read's lookup (16) -/
def exNew : List (Act × Oracle) :=
  exBase ++ [(.issue 1 (.get 1), noO), (.issue 0 (.upsert 1 (some 200) none none false), noO),
    (.client 0, noO), (.client 0, noO), (.client 1, noO), (.client 1, noO), (.client 1, { pool := [0] }),
    (.client 0, noO), (.client 0, noO)]

end Hist

/-- **Non-vacuity (i-b): the same overlap, the read returns the NEW value.**  Read begun at 11, upsert at 12; write
    point 14, lookup 16; the read returns `Some(200)` at 17, the upsert at 19.  The latest write point before the lookup
    is the upsert's, action 14 — later than the `store.put` 10 of the old value (`…no_stale_after_write_point`). -/
theorem C02_layerB_regular_witness_new :
    RunH exInit (exHist exNew) (exFinal exNew) ∧ (∀ pc ∈ exInit.cl, pc = .idle) ∧
    Issued (exHist exNew) 1 (.get 1) 11 ∧ Returned (exHist exNew) (exFinal exNew) 1 17 (.value (some 200)) ∧
    (∀ q r, 11 < q → q < 17 → ¬ Issued (exHist exNew) 1 r q) ∧
    Issued (exHist exNew) 0 (.upsert 1 (some 200) none none false) 12 ∧ WritePoint (exHist exNew) 14 1 200 ∧
    (∃ out, Returned (exHist exNew) (exFinal exNew) 0 19 out) ∧
    (∃ e, SLookup (exHist exNew) 1 1 16 e ∧ e.value = 200) ∧ WritePoint (exHist exNew) 10 1 100 := by
  refine ⟨exRun (by decide), exIdle, ⟨_, rfl⟩, ⟨_, _, rfl, Or.inr ⟨_, rfl⟩, rfl, rfl⟩, noIssue_check (by decide),
    ⟨_, rfl⟩, ⟨_, rfl, Or.inr ⟨0, none, none, false, _, _, rfl, rfl, rfl, rfl⟩⟩,
    ⟨_, _, _, rfl, Or.inl ⟨rfl, rfl⟩, rfl, rfl⟩, ⟨_, ⟨_, rfl, Or.inl rfl, rfl, rfl⟩, rfl⟩,
    ⟨_, rfl, Or.inl ⟨_, rfl, _, _, rfl, rfl, rfl, rfl, rfl⟩⟩⟩

example : ∃ n₁ e, 11 < n₁ ∧ n₁ < 17 ∧ SLookup (exHist exNew) 1 1 n₁ e ∧ e.value = 200 ∧
    LatestWrite (exHist exNew) exInit 1 200 n₁ ∧ LiveIncarnation (exHist exNew) exInit 1 e.id n₁ :=
  have w := C02_layerB_regular_witness_new
  C02_layerB_regular w.2.1 w.1 (Or.inl rfl) w.2.2.1 w.2.2.2.1 (by decide) w.2.2.2.2.1

/-- the write point of the OLD value (10) lies before the read began (11): the new value is there only because a
    later write point wrote it -/
example : ∃ n₁ p, 11 < n₁ ∧ n₁ < 17 ∧ 10 < p ∧ p < n₁ ∧ WritePoint (exHist exNew) p 1 200 :=
  have w := C02_layerB_regular_witness_new
  C02_layerB_no_stale_after_write_point w.2.1 w.1 (Or.inl rfl) w.2.2.1 w.2.2.2.1 (by decide) w.2.2.2.2.1
    w.2.2.2.2.2.2.2.2.2 (by decide) (by decide)

namespace Hist

/-- two upserts (200, then 300) of client 0, each COMPLETED, then a read of client 1 -/
def exTwo : List (Act × Oracle) :=
  exBase ++ call 0 (.upsert 1 (some 200) none none false) 4 ++ call 0 (.upsert 1 (some 300) none none false) 4 ++
    [(.issue 1 (.get 1), noO), (.client 1, noO), (.client 1, noO), (.client 1, { pool := [0] })]

end Hist

/-- **Non-vacuity of `C02_layerB_no_stale_after_completed_overwrite`**: `put_or_update(1, 200)` begins at 11, its write
    point is action 13, it returns at 15; a second one (300: 16, 18, 20); the read begins at 21 and returns `Some(300)` at
    24. -/
theorem C02_layerB_no_stale_witness :
    RunH exInit (exHist exTwo) (exFinal exTwo) ∧
    Issued (exHist exTwo) 1 (.get 1) 21 ∧ Returned (exHist exTwo) (exFinal exTwo) 1 24 (.value (some 300)) ∧
    (∀ q r, 21 < q → q < 24 → ¬ Issued (exHist exTwo) 1 r q) ∧
    Issued (exHist exTwo) 0 (.upsert 1 (some 200) none none false) 11 ∧
    (∃ x, At (exHist exTwo) 13 x ∧ x.2 = .client 0 ∧ isUpsert 1 200 x) ∧
    (∃ out, Returned (exHist exTwo) (exFinal exTwo) 0 15 out) := by
  refine ⟨exRun (by decide), ⟨_, rfl⟩, ⟨_, _, rfl, Or.inl ⟨rfl, rfl⟩, rfl, rfl⟩, noIssue_check (by decide), ⟨_, rfl⟩,
    ⟨_, rfl, rfl, 0, none, none, false, _, _, rfl, rfl, rfl, rfl⟩, ⟨_, _, _, rfl, Or.inr ⟨_, rfl⟩, rfl, rfl⟩⟩

example : ∃ n₁ p, 21 < n₁ ∧ n₁ < 24 ∧ 13 < p ∧ p < n₁ ∧ WritePoint (exHist exTwo) p 1 300 := by
  obtain ⟨hrun, hiss, hret, hsame, hissu, hwp, out, hretu⟩ := C02_layerB_no_stale_witness
  exact C02_layerB_no_stale_after_completed_overwrite exIdle hrun (Or.inl rfl) hiss hret (by decide) hsame
    hissu (by decide) hwp (by decide) hretu (by decide) (by decide)

namespace Hist

/-- (ii) put(1, 100) → delete(1) → put(1, 300), with a read after the delete RETURNED (it finds the key soft-deleted:
    `None`) and a read after the second put was stored -/
def exPDP : List (Act × Oracle) :=
  exBase ++ call 0 (.delete 1) 3 ++ call 1 (.get 1) 2 ++ workerN 4 ++ call 0 (.putW 1 300 5 none) 4 ++ workerN 6 ++
    [(.issue 1 (.get 1), noO), (.client 1, noO), (.client 1, noO), (.client 1, { pool := [0] })]

end Hist

/-- **Non-vacuity (ii): put → delete → put of the same key, reads in between.**  `store.put` of the first put: 10.
    `delete(1)`: begins 11, `delete.mark` 13, returns 14.  First read: begins 15, returns `None` at 17 (the entry is
    soft-deleted; the worker has not removed it yet).  The worker's `store.remove`: 19.  Second put: begins 22, its
    `store.put` is action 32.  Second read: begins 33, returns `Some(300)` at 36. -/
theorem C02_layerB_put_delete_put_witness :
    RunH exInit (exHist exPDP) (exFinal exPDP) ∧
    WritePoint (exHist exPDP) 10 1 100 ∧
    Issued (exHist exPDP) 0 (.delete 1) 11 ∧ (∃ x, At (exHist exPDP) 13 x ∧ x.2 = .client 0 ∧ isMark 1 x) ∧
    (∃ out, Returned (exHist exPDP) (exFinal exPDP) 0 14 out) ∧
    Issued (exHist exPDP) 1 (.get 1) 15 ∧ Returned (exHist exPDP) (exFinal exPDP) 1 17 (.value none) ∧
    RemovePoint (exHist exPDP) 19 1 ∧ (∃ id, PutPoint (exHist exPDP) 32 1 id) ∧ WritePoint (exHist exPDP) 32 1 300 ∧
    Issued (exHist exPDP) 1 (.get 1) 33 ∧ Returned (exHist exPDP) (exFinal exPDP) 1 36 (.value (some 300)) ∧
    (∀ q r, 33 < q → q < 36 → ¬ Issued (exHist exPDP) 1 r q) := by
  refine ⟨exRun (by decide), ⟨_, rfl, Or.inl ⟨_, rfl, _, _, rfl, rfl, rfl, rfl, rfl⟩⟩, ⟨_, rfl⟩,
    ⟨_, rfl, rfl, 0, _, rfl, rfl, rfl⟩, ⟨_, _, _, rfl, Or.inr ⟨_, rfl⟩, rfl, rfl⟩, ⟨_, rfl⟩,
    ⟨_, _, rfl, Or.inr ⟨_, rfl⟩, rfl, rfl⟩, ⟨_, rfl, Or.inl ⟨rfl, _, _, rfl, rfl⟩⟩,
    ⟨_, _, _, rfl, rfl, _, _, rfl, rfl, rfl, rfl, rfl⟩, ⟨_, rfl, Or.inl ⟨_, rfl, _, _, rfl, rfl, rfl, rfl, rfl⟩⟩,
    ⟨_, rfl⟩, ⟨_, _, rfl, Or.inl ⟨rfl, rfl⟩, rfl, rfl⟩, noIssue_check (by decide)⟩

/-- the second read returns the incarnation born at 32 — after the delete's mark (13): `C02_layerB_no_deleted_incarnation` -/
example : ∃ n₁ e c, 33 < n₁ ∧ n₁ < 36 ∧ SLookup (exHist exPDP) 1 1 n₁ e ∧ e.value = 300 ∧ 13 < c ∧ c < n₁ ∧
    PutPoint (exHist exPDP) c 1 e.id ∧ Undisturbed (exHist exPDP) 1 (c + 1) n₁ := by
  obtain ⟨hrun, _, hissd, hmark, ⟨out, hretd⟩, _, _, _, _, _, hiss, hret, hsame⟩ := C02_layerB_put_delete_put_witness
  exact C02_layerB_no_deleted_incarnation exIdle hrun (Or.inl rfl) hiss hret (by decide) hsame
    hissd (by decide) hmark (by decide) hretd (by decide)

/-- … and it was written by a call: `C02_layerB_written_by_a_call` (fresh cache) -/
example : ∃ p j m req', m < p ∧ p < 36 ∧ Issued (exHist exPDP) j req' m ∧ WritesReq req' 1 300 ∧
    WritePoint (exHist exPDP) p 1 300 := by
  obtain ⟨hrun, _, _, _, _, _, _, _, _, _, hiss, hret, hsame⟩ := C02_layerB_put_delete_put_witness
  exact C02_layerB_written_by_a_call exIdle rfl rfl rfl hrun (Or.inl rfl) hiss hret (by decide) hsame

namespace Hist

/-- (iii) `multi_get([1, 2])` of client 1; client 0 and the worker put key 2 BETWEEN the two lookups -/
def exMget : List (Act × Oracle) :=
  exBase ++ [(.issue 1 (.mget [1, 2] false), noO), (.client 1, noO), (.client 1, noO), (.client 1, noO), (.client 1, noO),
      (.client 1, { pool := [0] })] ++
    call 0 (.putW 2 200 3 none) 4 ++ workerN 6 ++ [(.client 1, noO), (.client 1, noO), (.client 1, { pool := [0] })]

end Hist

/-- **Non-vacuity (iii): a multi-key read, per position.**  `multi_get([1, 2])` begins at 11 (first action 12, the load
    at its entry 13, the load inside `get(1)` 14); position 0 (key 1) is looked up at 15; the put of key 2 begins at 17 —
    AFTER the read began — and is stored at 27; (the load inside `get(2)` 28;) position 1 (key 2) is looked up at 29; the
    read returns `[Some(100), Some(200)]` at 30: no snapshot, each position regular at its own lookup. -/
theorem C02_layerB_regular_mget_witness :
    RunH exInit (exHist exMget) (exFinal exMget) ∧
    Issued (exHist exMget) 1 (.mget [1, 2] false) 11 ∧
    Returned (exHist exMget) (exFinal exMget) 1 30 (.values [some 100, some 200]) ∧
    (∀ q r, 11 < q → q < 30 → ¬ Issued (exHist exMget) 1 r q) ∧
    (∃ e, MLookup (exHist exMget) 1 0 1 15 e ∧ e.value = 100) ∧
    Issued (exHist exMget) 0 (.putW 2 200 3 none) 17 ∧ WritePoint (exHist exMget) 27 2 200 ∧
    (∃ e, MLookup (exHist exMget) 1 1 2 29 e ∧ e.value = 200) := by
  refine ⟨exRun (by decide), ⟨_, rfl⟩, ⟨_, _, rfl, Or.inl ⟨rfl, rfl⟩, rfl, rfl⟩, noIssue_check (by decide),
    ⟨_, ⟨_, _, _, _, rfl, rfl, rfl, rfl, rfl⟩, rfl⟩, ⟨_, rfl⟩,
    ⟨_, rfl, Or.inl ⟨_, rfl, _, _, rfl, rfl, rfl, rfl, rfl⟩⟩, ⟨_, ⟨_, _, _, _, rfl, rfl, rfl, rfl, rfl⟩, rfl⟩⟩

example : ∀ j v, [some 100, some 200][j]? = some (some v) →
    ∃ k n₁ e, [1, 2][j]? = some k ∧ 11 < n₁ ∧ n₁ < 30 ∧ MLookup (exHist exMget) 1 j k n₁ e ∧ e.value = v ∧
      LatestWrite (exHist exMget) exInit k v n₁ ∧ LiveIncarnation (exHist exMget) exInit k e.id n₁ := by
  obtain ⟨hrun, hiss, hret, hsame, _⟩ := C02_layerB_regular_mget_witness
  exact C02_layerB_regular_mget exIdle hrun hiss hret (by decide) hsame

namespace Hist

/-- (iv) known finding D3: key 1 is put with a TTL of 5 ns, expires (clock + 10) and is NOT swept; a read finds nothing;
    a `put_or_update(1, None, ttl 1000)` — no value — gives the entry a new deadline; a read returns the OLD value -/
def exRevive : List (Act × Oracle) :=
  call 0 (.putW 1 100 3 (some 5)) 4 ++ workerN 7 ++ [(.advance 10, noO)] ++ call 1 (.get 1) 2 ++
    call 0 (.upsert 1 none none (some 1000) false) 5 ++
    [(.issue 1 (.get 1), noO), (.client 1, noO), (.client 1, noO), (.client 1, { pool := [0] })]

end Hist

/-- **D3 is not an exception of regularity.**  `store.put` of the put: action 10.  The clock passes the deadline (12).
    A read (13 … 15) returns `None`.  The value-less upsert (16 … 21) rewrites the deadline.  A read (22 … 25) returns
    `Some(100)`: every hypothesis of `C02_layerB_regular` holds, and `100` IS the value of the latest write point (10)
    — the value-less `upsert.update` is no write point.  What the run violates is C09 (an expired value is served
    again), not C02's "never stale or foreign". -/
theorem C02_layerB_regular_revived :
    RunH exInit (exHist exRevive) (exFinal exRevive) ∧ WritePoint (exHist exRevive) 10 1 100 ∧
    Issued (exHist exRevive) 1 (.get 1) 13 ∧ Returned (exHist exRevive) (exFinal exRevive) 1 15 (.value none) ∧
    Issued (exHist exRevive) 0 (.upsert 1 none none (some 1000) false) 16 ∧
    (∃ out, Returned (exHist exRevive) (exFinal exRevive) 0 21 out) ∧
    Issued (exHist exRevive) 1 (.get 1) 22 ∧ Returned (exHist exRevive) (exFinal exRevive) 1 25 (.value (some 100)) ∧
    (∀ q r, 22 < q → q < 25 → ¬ Issued (exHist exRevive) 1 r q) := by
  refine ⟨exRun (by decide), ⟨_, rfl, Or.inl ⟨_, rfl, _, _, rfl, rfl, rfl, rfl, rfl⟩⟩, ⟨_, rfl⟩,
    ⟨_, _, rfl, Or.inr ⟨_, rfl⟩, rfl, rfl⟩, ⟨_, rfl⟩, ⟨_, _, _, rfl, Or.inr ⟨_, rfl⟩, rfl, rfl⟩, ⟨_, rfl⟩,
    ⟨_, _, rfl, Or.inl ⟨rfl, rfl⟩, rfl, rfl⟩, noIssue_check (by decide)⟩

example : ∃ n₁ e, 22 < n₁ ∧ n₁ < 25 ∧ SLookup (exHist exRevive) 1 1 n₁ e ∧ e.value = 100 ∧
    LatestWrite (exHist exRevive) exInit 1 100 n₁ ∧ LiveIncarnation (exHist exRevive) exInit 1 e.id n₁ := by
  obtain ⟨hrun, _, _, _, _, _, hiss, hret, hsame⟩ := C02_layerB_regular_revived
  exact C02_layerB_regular exIdle hrun (Or.inl rfl) hiss hret (by decide) hsame

namespace Hist

/-- (v) a put RETURNS (its command is queued) before the worker has stored anything; a read that begins after that
    return finds nothing; the worker stores; a later read finds the value -/
def exEarly : List (Act × Oracle) :=
  call 0 (.putW 1 100 5 none) 4 ++ call 1 (.get 1) 2 ++ workerN 6 ++
    [(.issue 1 (.get 1), noO), (.client 1, noO), (.client 1, noO), (.client 1, { pool := [0] })]

end Hist

/-- **What regularity does NOT say (and the code does not do): a put that RETURNED is not yet visible.**  `put(1, 100)`
    begins at 0 and returns at 4 with a pending acknowledgement; a read begun at 5 returns `None` at 7; the put's write
    point — the worker's `store.put` — is action 13; a read begun at 14 returns `Some(100)` at 17.  The real-time order
    of C02 is between WRITE POINTS and lookups, not between a put's return and the read's begin. -/
theorem C02_layerB_put_returns_before_write_point :
    RunH exInit (exHist exEarly) (exFinal exEarly) ∧
    Issued (exHist exEarly) 0 (.putW 1 100 5 none) 0 ∧
    Returned (exHist exEarly) (exFinal exEarly) 0 4 (.ack 0 .pending) ∧
    Issued (exHist exEarly) 1 (.get 1) 5 ∧ Returned (exHist exEarly) (exFinal exEarly) 1 7 (.value none) ∧
    WritePoint (exHist exEarly) 13 1 100 ∧
    Issued (exHist exEarly) 1 (.get 1) 14 ∧ Returned (exHist exEarly) (exFinal exEarly) 1 17 (.value (some 100)) := by
  refine ⟨exRun (by decide), ⟨_, rfl⟩, ⟨_, _, rfl, Or.inr ⟨_, rfl⟩, rfl, rfl⟩, ⟨_, rfl⟩,
    ⟨_, _, rfl, Or.inr ⟨_, rfl⟩, rfl, rfl⟩, ⟨_, rfl, Or.inl ⟨_, rfl, _, _, rfl, rfl, rfl, rfl, rfl⟩⟩, ⟨_, rfl⟩,
    ⟨_, _, rfl, Or.inl ⟨rfl, rfl⟩, rfl, rfl⟩⟩

end B
end Cached
