/-
  C18 at ACTION granularity, the GLOBAL statement — definitions and the per-thread lemmas.
  (The theorems are in `CachedProofs/LayerB/NoDeadlock.lean`.)

    1  `Quiescent`, `Act.isInternal`, `HasWork`, `Enabled`, the position classifiers, `WaitsFor`, `Chain`, `waitRank`
    2  `DeadW` (the worker's mode says `dead` exactly when its thread stands at `dead`), `LiveInv` (what the proofs use of
       a reachable state), `liveInv_reach`
    3  the dichotomy, thread by thread: a thread that has work to do is enabled for some oracle, or `WaitsFor` another
       (`consumer_progress`, `sweeper_progress`, `worker_progress`, `client_progress`, `thread_progress`)
    4  `waitsFor_blocked` (who waits is not enabled), `waitsFor_hasWork` (who is waited for has work to do),
       `waitsFor_rank` (every wait edge goes strictly down in `waitRank`), `no_work_blocked`
    5  `qbound_reach` (the command queue never holds more than `cmdCap` commands)
    6  `exited_sweeper_at_begin`
-/
import CachedProofs.Extra.Progress
import CachedProofs.LayerB.Records

namespace Cached
namespace B

/-! ## 1  definitions -/

def CPc.atIdle : CPc → Bool
  | .idle => true
  | _ => false

def WPc.exited : WPc → Bool
  | .dead => true
  | _ => false

/-- the worker waits for a command (`worker.recv`, `worker.drain`) or has exited -/
def WPc.atRest : WPc → Bool
  | .recv | .drain | .dead => true
  | _ => false

def SPc.atBegin : SPc → Bool
  | .begin => true
  | _ => false

/-- **Quiescent**: nothing is left to do except for new requests, clock moves and the sweeper's next tick.
    Every client stands at `.idle`; the command queue is empty (or the worker has exited); the hand-over queue to
    the consumer is empty (or the consumer has exited); the worker stands at `worker.recv` / `worker.drain` (or is
    dead); the sweeper stands at `sweep.begin` (a sweeper that has exited stands there, at every reachable state:
    `exited_sweeper_at_begin`). -/
def Quiescent (b : BState) : Prop :=
  (∀ pc ∈ b.cl, pc.atIdle = true) ∧ (b.g.queue = [] ∨ b.w.exited = true) ∧
  (b.g.bufq = [] ∨ b.g.consumerAlive = false) ∧ b.w.atRest = true ∧ b.sw.atBegin = true

instance (b : BState) : Decidable (Quiescent b) :=
  inferInstanceAs (Decidable ((∀ pc ∈ b.cl, pc.atIdle = true) ∧ (b.g.queue = [] ∨ b.w.exited = true) ∧
    (b.g.bufq = [] ∨ b.g.consumerAlive = false) ∧ b.w.atRest = true ∧ b.sw.atBegin = true))

/-- The INTERNAL actions: everything except the moves of the environment — a new request (`issue`), a clock move
    (`advance`), and the sweeper's timer tick (its action while it stands at `sweep.begin`). -/
def Act.isInternal (a : Act) (b : BState) : Bool :=
  match a with
  | .issue _ _ => false
  | .advance _ => false
  | .sweeper _ => !b.sw.atBegin
  | _ => true

/-- the action of a thread (`v`: the id the sweeper's `retain` visits next) -/
def Tid.act (v : Option Nat) : Tid → Act
  | .worker => .worker
  | .sweeper => .sweeper v
  | .consumer => .consumer
  | .client i => .client i

/-- the thread's next action can be taken, for some oracle -/
def Enabled (b : BState) (t : Tid) : Prop := ∃ (v : Option Nat) (o : Oracle) (r : BState × Oracle), stepB b (t.act v) o = .ok r

/-- the thread has something to do that does not depend on the environment: a client inside a call; a live worker
    that is executing a command or has one to receive; a live consumer with an event to take; the sweeper inside a
    sweep (its next tick, at `sweep.begin`, is the environment's). -/
def HasWork (b : BState) : Tid → Prop
  | .client i => ∃ pc, b.cl[i]? = some pc ∧ pc.atIdle = false
  | .worker => b.w.exited = false ∧ (b.w.atRest = true → b.g.queue ≠ [])
  | .consumer => b.g.consumerAlive = true ∧ b.g.bufq ≠ []
  | .sweeper => b.sw.atBegin = false

/-! ### what a position needs -/

/-- worker positions whose action takes `weight_used` -/
def WPc.needsWu : WPc → Bool
  | .space0 _ | .evSub _ _ _ _ _ | .evSpace _ _ _ | .emptySpace _ | .add _ | .update _ _ _ | .delSub _ _ _ _ => true
  | _ => false

/-- worker positions whose action writes the store shard of a key -/
def WPc.storeKey? : WPc → Option Nat
  | .evStore _ _ _ _ wk => some wk.key
  | .storePut c => some c.k
  | .delStore k _ => some k
  | _ => none

/-- worker positions whose action takes the lock of the expiry shard of a deadline -/
def WPc.ttlExpiry? : WPc → Option Nat
  | .ttlPut _ e => some e
  | .delTtl _ e _ => some e
  | _ => none

def CPc.needsWu : CPc → Bool
  | .weightRead | .shutWuZero => true
  | _ => false

def CPc.storeKey? : CPc → Option Nat
  | .delMark k => some k
  | .upUpdate k _ _ _ _ => some k
  | _ => none

def CPc.ttlExpiry? : CPc → Option Nat
  | .upTtlPut _ e _ => some e
  | .upTtlDelete _ e _ => some e
  | .upTtlRemove _ old _ _ => some old
  | .upTtlInsert _ new _ => some new
  | _ => none

/-- client positions that send on the command queue (blocking) -/
def CPc.sendsCmd : CPc → Bool
  | .send _ | .shutSendCmd => true
  | _ => false

/-- **`WaitsFor b t t'`**: in state `b` thread `t` stands at a position whose action needs something that thread `t'`
    holds (a lock) or must provide (room in a queue).  By cases:

    lock `weight_used` (owner `wuOwner`)
      * `workerWu`   the worker at `wu.space` (three places), `wu.sub` (eviction, delete), `wu.add`, `kw.update`
      * `sweeperWu`  the sweeper at `wu.sub`
      * `clientWu`   a client at `wu.read` (`total_weight_used`) or `shutdown.wu_zero`
    lock of an expiry shard (owner: the sweeper, `ttlOwner`)
      * `workerShard`      the worker at `ttl.put` / `ttl.delete`
      * `clientShard`      a client of `put_or_update` at `ttl.put` / `ttl.delete` / `ttl.update.remove` / `.insert`
      * `clientAllShards`  a client at `shutdown.ttl_clear` (takes every shard)
    write access to a store shard (held off by the read guard of a `get_ref`, holder: a client at `pool.add`)
      * `workerGuard`      the worker at `store.remove` (eviction, delete) or `store.put`
      * `sweeperGuard`     the sweeper at `store.remove`
      * `clientGuard`      a client at `delete.mark` or `upsert.update` (another client's guard)
      * `clientAllGuards`  a client at `shutdown.store_clear` (takes every store shard)
    room in a queue
      * `cmdRoom`    a client at `cmd.send` (of any command, also of `Shutdown`) with the command queue full and the
                     worker's receiver alive: the worker must take a command
      * `bufRoom`    a client at `buf.send_shutdown` with the hand-over queue full and the consumer alive: the consumer
                     must take an event -/
inductive WaitsFor (b : BState) : Tid → Tid → Prop where
  | workerWu (t' : Tid) : b.w.needsWu = true → b.wuOwner = some t' → t' ≠ .worker → WaitsFor b .worker t'
  | sweeperWu (n sh : Nat) (r : List (Nat × Nat)) (id : Nat) (wk : WKey) (t' : Tid) :
      b.sw = .sub n sh r id wk → b.wuOwner = some t' → t' ≠ .sweeper → WaitsFor b .sweeper t'
  | clientWu (i : Nat) (pc : CPc) (t' : Tid) : b.cl[i]? = some pc → pc.needsWu = true → b.wuOwner = some t' →
      t' ≠ .client i → WaitsFor b (.client i) t'
  | workerShard (e : Nat) : b.w.ttlExpiry? = some e → b.ttlOwner = some (shardOf b.g.cfg e) → WaitsFor b .worker .sweeper
  | clientShard (i : Nat) (pc : CPc) (e : Nat) : b.cl[i]? = some pc → pc.ttlExpiry? = some e →
      b.ttlOwner = some (shardOf b.g.cfg e) → WaitsFor b (.client i) .sweeper
  | clientAllShards (i sh : Nat) : b.cl[i]? = some .shutTtlClear → b.ttlOwner = some sh → WaitsFor b (.client i) .sweeper
  | workerGuard (k j : Nat) : b.w.storeKey? = some k → HoldsGuard b j (storeShardOf b k) → WaitsFor b .worker (.client j)
  | sweeperGuard (n sh : Nat) (r : List (Nat × Nat)) (id : Nat) (wk : WKey) (j : Nat) :
      b.sw = .store n sh r id wk → HoldsGuard b j (storeShardOf b wk.key) → WaitsFor b .sweeper (.client j)
  | clientGuard (i : Nat) (pc : CPc) (k j : Nat) : b.cl[i]? = some pc → pc.storeKey? = some k → j ≠ i →
      HoldsGuard b j (storeShardOf b k) → WaitsFor b (.client i) (.client j)
  | clientAllGuards (i j sh : Nat) : b.cl[i]? = some .shutStoreClear → j ≠ i → HoldsGuard b j sh →
      WaitsFor b (.client i) (.client j)
  | cmdRoom (i : Nat) (pc : CPc) : b.cl[i]? = some pc → pc.sendsCmd = true → b.g.worker ≠ .dead →
      b.g.queue.length ≥ b.g.cfg.cmdCap → WaitsFor b (.client i) .worker
  | bufRoom (i : Nat) : b.cl[i]? = some .shutSendBuf → b.g.consumerAlive = true →
      b.g.bufq.length ≥ b.g.cfg.bufChanCap → WaitsFor b (.client i) .consumer

/-- a wait chain of `n` links starting at a thread and ending at a thread that is enabled -/
inductive Chain (b : BState) : Nat → Tid → Prop where
  | done {t : Tid} : Enabled b t → Chain b 0 t
  | link {n : Nat} {t t' : Tid} : WaitsFor b t t' → Chain b n t' → Chain b (n + 1) t

/-- the length of the longest wait chain that can start at a client position -/
def CPc.waitRank : CPc → Nat
  | .delMark _ | .upUpdate _ _ _ _ _ | .shutStoreClear | .shutSendBuf => 1
  | .weightRead | .shutWuZero => 2
  | .upTtlPut _ _ _ | .upTtlDelete _ _ _ | .upTtlRemove _ _ _ _ | .upTtlInsert _ _ _ | .shutTtlClear => 3
  | .send _ | .shutSendCmd => 3
  | _ => 0

def WPc.waitRank : WPc → Nat
  | .evStore _ _ _ _ _ | .storePut _ | .delStore _ _ => 1
  | .space0 _ | .evSub _ _ _ _ _ | .evSpace _ _ _ | .emptySpace _ | .add _ | .update _ _ _ | .delSub _ _ _ _ => 2
  | .ttlPut _ _ | .delTtl _ _ _ => 2
  | _ => 0

/-- the length of the longest wait chain that can start at a thread: every `WaitsFor` edge goes strictly down
    (`waitsFor_rank`), so the relation has no cycle and no chain is longer than 3 -/
def waitRank (b : BState) : Tid → Nat
  | .client i => (match b.cl[i]? with | some pc => pc.waitRank | none => 0)
  | .worker => b.w.waitRank
  | .sweeper => (match b.sw with
      | .sub _ _ _ _ _ => if b.wuOwner = some .worker then 2 else 0
      | .store _ _ _ _ _ => 1
      | _ => 0)
  | .consumer => 0

/-! ## 2  the invariants used -/

/-- the worker's mode says `dead` exactly when its thread stands at `dead` -/
def DeadW (b : BState) : Prop := b.g.worker = .dead ↔ b.w = .dead

theorem deadW_step {b b' : BState} {a : Act} {o o' : Oracle} (hd : DeadW b) (h : stepB b a o = .ok (b', o')) :
    DeadW b' := by
  unfold DeadW at hd ⊢
  cases a with
  | issue i r =>
    simp only [stepB] at h
    split at h
    · rename_i b1 hi
      simp only [Except.ok.injEq, Prod.mk.injEq] at h; obtain ⟨rfl, rfl⟩ := h
      unfold issue at hi
      split at hi
      · simp only [Except.ok.injEq] at hi; subst hi; exact hd
      · cases hi
    · cases h
  | client i =>
    have ht := clientAct_trans h
    rw [(ctrans_frame ht).1, ctrans_worker ht]; exact hd
  | worker =>
    have ht := workerAct_trans h
    cases ht
    all_goals simp [finishCmd, rejectCmd, ttlPut, ttlDelete, *] at *
    all_goals assumption
  | sweeper v =>
    simp only [stepB] at h
    split at h
    · rename_i b1 hs'
      simp only [Except.ok.injEq, Prod.mk.injEq] at h; obtain ⟨rfl, rfl⟩ := h
      have ht := sweeperAct_trans hs'
      have hw : b1.g.worker = b.g.worker := by
        cases ht
        all_goals simp [sweepNext_g]
      rw [(strans_frame ht).1, hw]; exact hd
    · cases h
  | consumer =>
    simp only [stepB] at h
    split at h
    · rename_i g' out o1 hc
      simp only [Except.ok.injEq, Prod.mk.injEq] at h; obtain ⟨rfl, rfl⟩ := h
      show g'.worker = .dead ↔ b.w = .dead
      rw [consumerStep_frame hc]; exact hd
    · cases h
  | advance d =>
    simp only [stepB, Except.ok.injEq, Prod.mk.injEq] at h; obtain ⟨rfl, rfl⟩ := h
    exact hd

theorem deadW_reach {cfg : Cfg} {now : Nat} {seeds : List Nat} {clients : Nat} {b : BState}
    (h : Reach cfg now seeds clients b) : DeadW b := by
  induction h with
  | init _ => simp [DeadW, BState.init, State.init]
  | step _ hs ih => exact deadW_step ih hs

/-- What the proofs below use of a reachable state: the Layer B invariant, a sample with distinct ids, a well-formed
    sketch, `DeadW`, a pool with at least one buffer and queues with room for at least one element (the crate's
    builder asserts `pool_size > 0` and `command_buffer_size > 0`; `CHANNEL_CAPACITY` is 10). -/
structure LiveInv (b : BState) : Prop where
  inv : BInv b
  sample : WSampleND b
  wf : b.g.lfu.fc.WF
  dead : DeadW b
  pool : 0 < b.g.pool.length
  cmdCap : 0 < b.g.cfg.cmdCap
  bufCap : 0 < b.g.cfg.bufChanCap

theorem liveInv_reach {cfg : Cfg} {now : Nat} {seeds : List Nat} {clients : Nat} {b : BState}
    (hseeds : seeds ≠ []) (hcmd : 0 < cfg.cmdCap) (hbuf : 0 < cfg.bufChanCap) (hpool : 0 < cfg.poolSize)
    (hr : Reach cfg now seeds clients b) : LiveInv b :=
  { inv := binv_reach hr
    sample := wsampleND_reach hr
    wf := (C17_layerB_no_sketch_panic hseeds hr (.advance 0) {}).1
    dead := deadW_reach hr
    pool := by rw [recB_pool_length hr]; exact hpool
    cmdCap := by rw [reach_cfg hr]; exact hcmd
    bufCap := by rw [reach_cfg hr]; exact hbuf }

/-! ## 3  the dichotomy, thread by thread -/

/-- a legal answer of `add_if_missing` always exists -/
theorem TinyLFU.addLegal_exact (t : TinyLFU) (h : Nat) : t.addLegal h (!t.dk.contains h) = true := by
  unfold TinyLFU.addLegal
  cases hd : t.dk with
  | nil => simp
  | cons a l => cases (a :: l).contains h <;> simp

/-- the consumer's batch can always be counted: legal doorkeeper answers exist, and a well-formed sketch has every
    index in range -/
theorem incrementAll_exists : ∀ (hs : List Nat) (t : TinyLFU), t.fc.WF →
    ∃ (o : Oracle) (r : TinyLFU × Oracle), incrementAll t hs o = .ok r := by
  intro hs
  induction hs with
  | nil => intro t _; exact ⟨{}, _, rfl⟩
  | cons h hs ih =>
    intro t wf
    obtain ⟨t', ht'⟩ := TinyLFU.incrementFor_isSome t wf h (!t.dk.contains h)
    obtain ⟨o1, r, h1⟩ := ih t' (TinyLFU.incrementFor_wf wf ht')
    refine ⟨{ o1 with dkAdd := (!t.dk.contains h) :: o1.dkAdd }, r, ?_⟩
    unfold incrementAll
    simp only [TinyLFU.addLegal_exact, Bool.not_true, Bool.false_eq_true, if_false, ht']
    exact h1

/-- the consumer, alive and with an event in its queue, is enabled -/
theorem consumer_progress {b : BState} (wf : b.g.lfu.fc.WF) (hw : HasWork b .consumer) : Enabled b .consumer := by
  obtain ⟨hal, hq⟩ := hw
  cases hbq : b.g.bufq with
  | nil => exact absurd hbq hq
  | cons ev q =>
    cases ev with
    | shutdown =>
      refine ⟨none, {}, ?_⟩
      simp only [Tid.act, stepB, consumerStep, hal, hbq]
      exact ⟨_, rfl⟩
    | full hs =>
      obtain ⟨o, r, hr⟩ := incrementAll_exists hs b.g.lfu wf
      refine ⟨none, o, ?_⟩
      simp only [Tid.act, stepB, consumerStep, hal, hbq, hr]
      cases b.g.consumerKeep <;> exact ⟨_, rfl⟩

/-- the sweeper inside a sweep is enabled (for a suitable visit), or waits for `weight_used` or for a read guard -/
theorem sweeper_progress {b : BState} (hb : BInv b) (hw : HasWork b .sweeper) :
    (∃ v b', sweeperAct b v = .ok b') ∨ ∃ t', WaitsFor b .sweeper t' := by
  cases hs : b.sw with
  | begin => simp [HasWork, hs, SPc.atBegin] at hw
  | fin => exact Or.inl ⟨none, by simp only [sweeperAct, hs]; exact ⟨_, rfl⟩⟩
  | entry now sh rest =>
    have hne := hb.sweepEntry _ _ _ hs
    cases rest with
    | nil => exact absurd rfl hne
    | cons p rest =>
      left
      refine ⟨some p.1, ?_⟩
      simp only [sweeperAct, hs, List.find?_cons, beq_self_eq_true]
      split <;> exact ⟨_, rfl⟩
  | kwRemove now sh rest id =>
    left
    refine ⟨none, ?_⟩
    simp only [sweeperAct, hs]
    split
    · split <;> exact ⟨_, rfl⟩
    · exact ⟨_, rfl⟩
  | sub now sh rest id wk =>
    cases hf : wuFree b .sweeper with
    | true =>
      left
      refine ⟨none, ?_⟩
      simp only [sweeperAct, hs, hf]
      exact ⟨_, rfl⟩
    | false =>
      right
      unfold wuFree at hf
      cases ho : b.wuOwner with
      | none => simp [ho] at hf
      | some t' =>
        refine ⟨t', .sweeperWu now sh rest id wk t' hs ho ?_⟩
        intro e
        subst e
        simp [ho] at hf
  | store now sh rest id wk =>
    cases hwr : storeWritable b wk.key none with
    | true =>
      left
      refine ⟨none, ?_⟩
      simp only [sweeperAct, hs, hwr]
      exact ⟨_, rfl⟩
    | false =>
      obtain ⟨j, _, hj⟩ := blocked_by_guard hb hwr
      exact Or.inr ⟨_, .sweeperGuard now sh rest id wk j hs hj⟩

/-- The worker with work to do is enabled for some oracle — whatever the position: receiving, the worker-side
    re-check, every action of `maybe_add` / `create_space` including the sampling and the pops, the store and
    expiry-index writes, weight update, every action of a delete, draining — or stands at a position that takes a lock
    which is not free: `weight_used`, a store shard read-locked by a `get_ref` guard, an expiry shard.
    (The case analysis of `C13_layerB_worker_enabled_of_inv`, with the lock the POSITION needs kept in the result.) -/
theorem worker_progress {b : BState} (hb : BInv b) (hs : WSampleND b) (wf : b.g.lfu.fc.WF) (hwk : HasWork b .worker) :
    (∃ (o : Oracle) (r : BState × Oracle), stepB b .worker o = .ok r) ∨ ∃ t', WaitsFor b .worker t' := by
  have hd : b.w ≠ .dead := by
    intro e
    have := hwk.1
    rw [e] at this
    cases this
  have hq : b.w = .recv ∨ b.w = .drain → b.g.queue ≠ [] := by
    intro e
    exact hwk.2 (by rcases e with e | e <;> rw [e] <;> rfl)
  have wuCase : b.w.needsWu = true → wuFree b .worker = false → ∃ t', WaitsFor b .worker t' := by
    intro hn hf
    unfold wuFree at hf
    cases ho : b.wuOwner with
    | none => simp [ho] at hf
    | some t' =>
      refine ⟨t', .workerWu t' hn ho ?_⟩
      intro e
      subst e
      simp [ho] at hf
  have guardCase : ∀ k, b.w.storeKey? = some k → storeWritable b k none = false → ∃ t', WaitsFor b .worker t' := by
    intro k hk h
    obtain ⟨j, _, hj⟩ := blocked_by_guard hb h
    exact ⟨_, .workerGuard k j hk hj⟩
  have ttlCase : ∀ e, b.w.ttlExpiry? = some e → ttlFree b (shardOf b.g.cfg e) = false →
      ∃ t', WaitsFor b .worker t' := by
    intro e he h
    have ho : b.ttlOwner = some (shardOf b.g.cfg e) := by
      unfold ttlFree at h
      simpa using h
    exact ⟨_, .workerShard e he ho⟩
  cases hw : b.w with
  | dead => exact absurd hw hd
  | recv =>
    left
    cases hqq : b.g.queue with
    | nil => exact absurd hqq (hq (Or.inl hw))
    | cons x q =>
      obtain ⟨cmd, h⟩ := x
      refine ⟨{}, ?_⟩
      simp only [stepB, workerAct, hw, hqq]
      cases cmd <;> exact ⟨_, rfl⟩
  | drain =>
    left
    cases hqq : b.g.queue with
    | nil => exact absurd hqq (hq (Or.inr hw))
    | cons x q =>
      obtain ⟨cmd, h⟩ := x
      refine ⟨{}, ?_⟩
      simp only [stepB, workerAct, hw, hqq]
      exact ⟨_, rfl⟩
  | present c =>
    left
    refine ⟨{}, ?_⟩
    simp only [stepB, workerAct, hw]
    split
    · exact ⟨_, rfl⟩
    · split <;> exact ⟨_, rfl⟩
  | space0 c =>
    cases hf : wuFree b .worker with
    | false => exact Or.inr (wuCase (by rw [hw]; rfl) hf)
    | true =>
      left
      by_cases hov : b.g.adm.spaceOverflow = true
      · refine ⟨{}, ?_⟩
        simp only [stepB, workerAct, hw, hf, Bool.not_true, Bool.false_eq_true, if_false, hov, if_true]
        exact ⟨_, rfl⟩
      by_cases hfit : b.g.adm.max - b.g.adm.used ≥ c.w
      · refine ⟨{}, ?_⟩
        simp only [stepB, workerAct, hw, hf, Bool.not_true, Bool.false_eq_true, if_false, hov, hfit, if_true]
        exact ⟨_, rfl⟩
      · obtain ⟨e, he⟩ := estimateO_exists b.g.lfu wf c.hash
        refine ⟨{ ({} : Oracle) with dk := b.g.lfu.dk.contains c.hash :: ({} : Oracle).dk }, ?_⟩
        simp only [stepB, workerAct, hw, hf, Bool.not_true, Bool.false_eq_true, if_false, hov, hfit, he {}]
        exact ⟨_, rfl⟩
  | sampleInit c space incEst =>
    left
    obtain ⟨s', hs'⟩ := fillSample_exists b.g.lfu wf hb.kwNoDup (fillNeed b.g.cfg.sampleSize b.g.adm.kw []) []
      (Nat.min_le_right _ _)
    obtain ⟨o0, ho0⟩ := hs' {}
    have hnd := fillSample_sampleND _ _ _ _ _ SampleND.nil ho0
    obtain ⟨o1, b1, h1⟩ := loopDecide_exists b c incEst s' space hnd {}
    obtain ⟨o2, ho2⟩ := hs' o1
    refine ⟨o2, (b1, {}), ?_⟩
    simp only [stepB, workerAct, hw, ho2, h1]
  | fill c incEst sample space =>
    left
    obtain ⟨s', hs'⟩ := fillSample_exists b.g.lfu wf hb.kwNoDup (fillNeed b.g.cfg.sampleSize b.g.adm.kw sample)
      sample (Nat.min_le_right _ _)
    obtain ⟨o0, ho0⟩ := hs' {}
    have hnd := fillSample_sampleND _ _ _ _ _ (hs sample (by rw [hw]; rfl)) ho0
    obtain ⟨o1, b1, h1⟩ := loopDecide_exists b c incEst s' space hnd {}
    obtain ⟨o2, ho2⟩ := hs' o1
    refine ⟨o2, (b1, {}), ?_⟩
    simp only [stepB, workerAct, hw, ho2, h1]
  | evRemove c incEst sample victim =>
    left
    refine ⟨{}, ?_⟩
    simp only [stepB, workerAct, hw]
    split <;> exact ⟨_, rfl⟩
  | evSub c incEst sample id wk =>
    cases hf : wuFree b .worker with
    | false => exact Or.inr (wuCase (by rw [hw]; rfl) hf)
    | true =>
      left
      refine ⟨{}, ?_⟩
      simp only [stepB, workerAct, hw, hf, Bool.not_true, Bool.false_eq_true, if_false]
      exact ⟨_, rfl⟩
  | evStore c incEst sample id wk =>
    cases hf : storeWritable b wk.key none with
    | false => exact Or.inr (guardCase _ (by rw [hw]; rfl) hf)
    | true =>
      left
      refine ⟨{}, ?_⟩
      simp only [stepB, workerAct, hw, hf, Bool.not_true, Bool.false_eq_true, if_false]
      exact ⟨_, rfl⟩
  | evSpace c incEst sample =>
    cases hf : wuFree b .worker with
    | false => exact Or.inr (wuCase (by rw [hw]; rfl) hf)
    | true =>
      left
      refine ⟨{}, ?_⟩
      simp only [stepB, workerAct, hw, hf, Bool.not_true, Bool.false_eq_true, if_false]
      split <;> exact ⟨_, rfl⟩
  | emptySpace c =>
    cases hf : wuFree b .worker with
    | false => exact Or.inr (wuCase (by rw [hw]; rfl) hf)
    | true =>
      left
      refine ⟨{}, ?_⟩
      simp only [stepB, workerAct, hw, hf, Bool.not_true, Bool.false_eq_true, if_false]
      split
      · exact ⟨_, rfl⟩
      · split <;> exact ⟨_, rfl⟩
  | insert c =>
    left
    refine ⟨{}, ?_⟩
    simp only [stepB, workerAct, hw]
    exact ⟨_, rfl⟩
  | add c =>
    cases hf : wuFree b .worker with
    | false => exact Or.inr (wuCase (by rw [hw]; rfl) hf)
    | true =>
      left
      refine ⟨{}, ?_⟩
      simp only [stepB, workerAct, hw, hf, Bool.not_true, Bool.false_eq_true, if_false]
      exact ⟨_, rfl⟩
  | storePut c =>
    cases hf : storeWritable b c.k none with
    | false => exact Or.inr (guardCase _ (by rw [hw]; rfl) hf)
    | true =>
      left
      refine ⟨{}, ?_⟩
      simp only [stepB, workerAct, hw, hf, Bool.not_true, Bool.false_eq_true, if_false]
      split
      · exact ⟨_, rfl⟩
      · split <;> exact ⟨_, rfl⟩
  | ttlPut c e =>
    cases hf : ttlFree b (shardOf b.g.cfg e) with
    | false => exact Or.inr (ttlCase _ (by rw [hw]; rfl) hf)
    | true =>
      left
      refine ⟨{}, ?_⟩
      simp only [stepB, workerAct, hw, hf, Bool.not_true, Bool.false_eq_true, if_false]
      exact ⟨_, rfl⟩
  | update id w h =>
    cases hf : wuFree b .worker with
    | false => exact Or.inr (wuCase (by rw [hw]; rfl) hf)
    | true =>
      left
      refine ⟨{}, ?_⟩
      simp only [stepB, workerAct, hw, hf, Bool.not_true, Bool.false_eq_true, if_false]
      split <;> exact ⟨_, rfl⟩
  | delStore k h =>
    cases hf : storeWritable b k none with
    | false => exact Or.inr (guardCase _ (by rw [hw]; rfl) hf)
    | true =>
      left
      refine ⟨{}, ?_⟩
      simp only [stepB, workerAct, hw, hf, Bool.not_true, Bool.false_eq_true, if_false]
      split <;> exact ⟨_, rfl⟩
  | delKw id exp h =>
    left
    refine ⟨{}, ?_⟩
    simp only [stepB, workerAct, hw]
    split
    · exact ⟨_, rfl⟩
    · split <;> exact ⟨_, rfl⟩
  | delSub id wk exp h =>
    cases hf : wuFree b .worker with
    | false => exact Or.inr (wuCase (by rw [hw]; rfl) hf)
    | true =>
      left
      refine ⟨{}, ?_⟩
      simp only [stepB, workerAct, hw, hf, Bool.not_true, Bool.false_eq_true, if_false]
      split <;> exact ⟨_, rfl⟩
  | delTtl id e h =>
    cases hf : ttlFree b (shardOf b.g.cfg e) with
    | false => exact Or.inr (ttlCase _ (by rw [hw]; rfl) hf)
    | true =>
      left
      refine ⟨{}, ?_⟩
      simp only [stepB, workerAct, hw, hf, Bool.not_true, Bool.false_eq_true, if_false]
      exact ⟨_, rfl⟩

/-- `Pool::add` is enabled as soon as the pool has a buffer: the oracle names buffer 0 -/
theorem poolAdd_exists (g : State) (h : Nat) (hp : 0 < g.pool.length) :
    ∃ g1 o', poolAdd g h { pool := [0] } = .ok (g1, o') := by
  unfold poolAdd
  simp only [List.getElem?_eq_getElem hp]
  exact ⟨_, _, rfl⟩

/-- A client inside a call is enabled for some oracle, or stands at a position that needs something another thread
    holds or must provide: `weight_used`, an expiry shard, a store shard read-locked by ANOTHER client's `get_ref`
    guard, room in the command queue (worker alive), room in the hand-over queue (consumer alive). -/
theorem client_progress {b : BState} (hg : LiveInv b) {i : Nat} (hw : HasWork b (.client i)) :
    (∃ (o : Oracle) (r : BState × Oracle), clientAct b i o = .ok r) ∨ ∃ t', WaitsFor b (.client i) t' := by
  obtain ⟨pc, hpc, hni⟩ := hw
  have hb := hg.inv
  have wuCase : pc.needsWu = true → wuFree b (.client i) = false → ∃ t', WaitsFor b (.client i) t' := by
    intro hn hf
    unfold wuFree at hf
    cases ho : b.wuOwner with
    | none => simp [ho] at hf
    | some t' =>
      refine ⟨t', .clientWu i pc t' hpc hn ho ?_⟩
      intro e
      subst e
      simp [ho] at hf
  have guardCase : ∀ k, pc.storeKey? = some k → storeWritable b k (some i) = false →
      ∃ t', WaitsFor b (.client i) t' := by
    intro k hk h
    obtain ⟨j, hne, hj⟩ := blocked_by_guard hb h
    exact ⟨_, .clientGuard i pc k j hpc hk (fun e => hne (by rw [e])) hj⟩
  have ttlCase : ∀ e, pc.ttlExpiry? = some e → ttlFree b (shardOf b.g.cfg e) = false →
      ∃ t', WaitsFor b (.client i) t' := by
    intro e he h
    have ho : b.ttlOwner = some (shardOf b.g.cfg e) := by
      unfold ttlFree at h
      simpa using h
    exact ⟨_, .clientShard i pc e hpc he ho⟩
  have shutCase : pc = .shutCas ∨ pc.afterCas = true →
      (∃ (o : Oracle) (r : BState × Oracle), clientAct b i o = .ok r) ∨ ∃ t', WaitsFor b (.client i) t' := by
    intro hsd
    rcases C18_layerB_shutdown_progress hb hpc hsd {} with h | ⟨e, hd, hq⟩ | ⟨e, ha, hq⟩ | ⟨e, j, sh, hj, hh⟩ |
      ⟨e, ho⟩ | ⟨e, sh, hsh⟩
    · exact Or.inl ⟨{}, h⟩
    · subst e; exact Or.inr ⟨_, .cmdRoom i _ hpc rfl hd hq⟩
    · subst e; exact Or.inr ⟨_, .bufRoom i hpc ha hq⟩
    · subst e; exact Or.inr ⟨_, .clientAllGuards i j sh hpc hj hh⟩
    · subst e
      rcases ho with ho | ho
      · exact Or.inr ⟨_, .clientWu i _ _ hpc rfl ho (by simp)⟩
      · exact Or.inr ⟨_, .clientWu i _ _ hpc rfl ho (by simp)⟩
    · subst e; exact Or.inr ⟨_, .clientAllShards i sh hpc hsh⟩
  cases pc with
  | idle => simp [CPc.atIdle] at hni
  | start r =>
    left
    refine ⟨{}, ?_⟩
    cases r <;> simp only [clientAct, hpc] <;> (repeat' split) <;> exact ⟨_, rfl⟩
  | putPresent k v w ttl =>
    left
    refine ⟨{}, ?_⟩
    simp only [clientAct, hpc]
    split <;> exact ⟨_, rfl⟩
  | idNext k v w ttl =>
    left
    refine ⟨{}, ?_⟩
    simp only [clientAct, hpc]
    exact ⟨_, rfl⟩
  | send cmd =>
    by_cases hd : b.g.worker = .dead
    · left
      refine ⟨{}, ?_⟩
      simp only [clientAct, hpc, sendAct, hd, if_true]
      exact ⟨_, rfl⟩
    · by_cases hq : b.g.queue.length ≥ b.g.cfg.cmdCap
      · exact Or.inr ⟨_, .cmdRoom i _ hpc rfl hd hq⟩
      · left
        refine ⟨{}, ?_⟩
        simp only [clientAct, hpc, sendAct, hd, hq, if_false]
        exact ⟨_, rfl⟩
  | delMark k =>
    cases hf : storeWritable b k (some i) with
    | false => exact Or.inr (guardCase k rfl hf)
    | true =>
      left
      refine ⟨{}, ?_⟩
      simp only [clientAct, hpc, hf, Bool.not_true, Bool.false_eq_true, if_false]
      exact ⟨_, rfl⟩
  | getStore k =>
    left
    refine ⟨{}, ?_⟩
    simp only [clientAct, hpc]
    (repeat' split) <;> exact ⟨_, rfl⟩
  | getPool k v =>
    obtain ⟨g1, o', hp⟩ := poolAdd_exists b.g (b.g.cfg.hashOf k) hg.pool
    left
    refine ⟨{ pool := [0] }, ?_⟩
    simp only [clientAct, hpc, hp]
    exact ⟨_, rfl⟩
  | weightRead =>
    cases hf : wuFree b (.client i) with
    | false => exact Or.inr (wuCase rfl hf)
    | true =>
      left
      refine ⟨{}, ?_⟩
      simp only [clientAct, hpc, hf, Bool.not_true, Bool.false_eq_true, if_false]
      exact ⟨_, rfl⟩
  | upUpdate k v w ttl rm =>
    cases hf : storeWritable b k (some i) with
    | false => exact Or.inr (guardCase k rfl hf)
    | true =>
      left
      refine ⟨{}, ?_⟩
      simp only [clientAct, hpc, hf, Bool.not_true, Bool.false_eq_true, if_false]
      (repeat' split) <;> exact ⟨_, rfl⟩
  | upWeightOf id uw old new =>
    left
    refine ⟨{}, ?_⟩
    simp only [clientAct, hpc]
    split <;> exact ⟨_, rfl⟩
  | upTtlPut id e uw =>
    cases hf : ttlFree b (shardOf b.g.cfg e) with
    | false => exact Or.inr (ttlCase e rfl hf)
    | true =>
      left
      refine ⟨{}, ?_⟩
      simp only [clientAct, hpc, hf, Bool.not_true, Bool.false_eq_true, if_false]
      exact ⟨_, rfl⟩
  | upTtlDelete id e uw =>
    cases hf : ttlFree b (shardOf b.g.cfg e) with
    | false => exact Or.inr (ttlCase e rfl hf)
    | true =>
      left
      refine ⟨{}, ?_⟩
      simp only [clientAct, hpc, hf, Bool.not_true, Bool.false_eq_true, if_false]
      exact ⟨_, rfl⟩
  | upTtlRemove id old new uw =>
    cases hf : ttlFree b (shardOf b.g.cfg old) with
    | false => exact Or.inr (ttlCase old rfl hf)
    | true =>
      left
      refine ⟨{}, ?_⟩
      simp only [clientAct, hpc, hf, Bool.not_true, Bool.false_eq_true, if_false]
      exact ⟨_, rfl⟩
  | upTtlInsert id new uw =>
    cases hf : ttlFree b (shardOf b.g.cfg new) with
    | false => exact Or.inr (ttlCase new rfl hf)
    | true =>
      left
      refine ⟨{}, ?_⟩
      simp only [clientAct, hpc, hf, Bool.not_true, Bool.false_eq_true, if_false]
      exact ⟨_, rfl⟩
  | refStore k =>
    left
    refine ⟨{}, ?_⟩
    simp only [clientAct, hpc]
    (repeat' split) <;> exact ⟨_, rfl⟩
  | refPool k v =>
    obtain ⟨b', o', h1, _⟩ := C18_layerB_guard_holder_enabled hpc ({ pool := [0] } : Oracle) rfl hg.pool
    exact Or.inl ⟨_, _, h1⟩
  | shutCas => exact shutCase (Or.inl rfl)
  | shutSendCmd => exact shutCase (Or.inr rfl)
  | shutSendBuf => exact shutCase (Or.inr rfl)
  | shutConsumerFlag => exact shutCase (Or.inr rfl)
  | shutTickerFlag => exact shutCase (Or.inr rfl)
  | shutStoreClear => exact shutCase (Or.inr rfl)
  | shutKwClear => exact shutCase (Or.inr rfl)
  | shutWuZero => exact shutCase (Or.inr rfl)
  | shutAfClear => exact shutCase (Or.inr rfl)
  | shutStatsClear => exact shutCase (Or.inr rfl)
  | shutTtlClear => exact shutCase (Or.inr rfl)
  | mgetStore k ks acc iter =>
    left
    refine ⟨{}, ?_⟩
    simp only [clientAct, hpc]
    (repeat' split) <;> exact ⟨_, rfl⟩
  | mgetPool k v ks acc iter =>
    obtain ⟨g1, o', hp⟩ := poolAdd_exists b.g (b.g.cfg.hashOf k) hg.pool
    left
    refine ⟨{ pool := [0] }, ?_⟩
    simp only [clientAct, hpc, hp]
    exact ⟨_, rfl⟩
  | mgetFlag outer ks acc iter =>
    -- a load of the shutdown flag waits for nobody
    left
    refine ⟨{}, ?_⟩
    simp only [clientAct, hpc]
    exact ⟨_, rfl⟩

/-- **The dichotomy.**  Every thread that has work to do is enabled for some oracle, or waits for another thread. -/
theorem thread_progress {b : BState} (hg : LiveInv b) (t : Tid) (hw : HasWork b t) :
    Enabled b t ∨ ∃ t', WaitsFor b t t' := by
  cases t with
  | worker =>
    rcases worker_progress hg.inv hg.sample hg.wf hw with ⟨o, r, h⟩ | h
    · exact Or.inl ⟨none, o, r, h⟩
    · exact Or.inr h
  | sweeper =>
    rcases sweeper_progress hg.inv hw with ⟨v, b', h⟩ | h
    · exact Or.inl ⟨v, {}, (b', {}), by simp only [Tid.act, stepB, h]⟩
    · exact Or.inr h
  | consumer => exact Or.inl (consumer_progress hg.wf hw)
  | client i =>
    rcases client_progress hg hw with ⟨o, r, h⟩ | h
    · exact Or.inl ⟨none, o, r, h⟩
    · exact Or.inr h

/-! ## 4  the wait relation: who waits is blocked, who is waited for has work, every edge goes down in rank -/

theorem WPc.exited_false_of_ne {w : WPc} (h : w ≠ .dead) : w.exited = false := by
  cases w <;> simp_all [WPc.exited]

/-- the owner of `weight_used` stands inside an eviction: it has work to do -/
theorem wuOwner_hasWork {b : BState} (hb : BInv b) {t' : Tid} (ho : b.wuOwner = some t') : HasWork b t' := by
  cases t' with
  | worker =>
    obtain ⟨c, e, s, i, wk, hw⟩ := hb.wuWorker.mp ho
    simp [HasWork, hw, WPc.exited, WPc.atRest]
  | sweeper =>
    obtain ⟨n, sh, r, i, wk, hs⟩ := hb.wuSweeper.mp ho
    simp [HasWork, hs, SPc.atBegin]
  | consumer => exact absurd ho (hb.wuClients 0).2
  | client i => exact absurd ho (hb.wuClients i).1

/-- the owner of an expiry shard (the sweeper) stands inside a sweep -/
theorem ttlOwner_hasWork {b : BState} (hb : BInv b) {sh : Nat} (ho : b.ttlOwner = some sh) : HasWork b .sweeper := by
  have := hb.ttlSweeper.2 sh ho
  show b.sw.atBegin = false
  cases hs : b.sw <;> simp [hs, SPc.shard?, SPc.atBegin] at this ⊢

theorem guard_hasWork {b : BState} {j sh : Nat} (h : HoldsGuard b j sh) : HasWork b (.client j) := by
  obtain ⟨k, v, hcl, _, _⟩ := h
  exact ⟨_, hcl, rfl⟩

/-- whoever is waited for has work to do (so the dichotomy applies to it in turn) -/
theorem waitsFor_hasWork {b : BState} (hg : LiveInv b) {t t' : Tid} (h : WaitsFor b t t') : HasWork b t' := by
  have hb := hg.inv
  cases h with
  | workerWu t' _ ho _ => exact wuOwner_hasWork hb ho
  | sweeperWu n sh r id wk t' _ ho _ => exact wuOwner_hasWork hb ho
  | clientWu i pc t' _ _ ho _ => exact wuOwner_hasWork hb ho
  | workerShard e _ ho => exact ttlOwner_hasWork hb ho
  | clientShard i pc e _ _ ho => exact ttlOwner_hasWork hb ho
  | clientAllShards i sh _ ho => exact ttlOwner_hasWork hb ho
  | workerGuard k j _ hj => exact guard_hasWork hj
  | sweeperGuard n sh r id wk j _ hj => exact guard_hasWork hj
  | clientGuard i pc k j _ _ _ hj => exact guard_hasWork hj
  | clientAllGuards i j sh _ _ hj => exact guard_hasWork hj
  | cmdRoom i pc _ _ hd hq =>
    have hnd : b.w ≠ .dead := fun e => hd (hg.dead.mpr e)
    refine ⟨WPc.exited_false_of_ne hnd, fun _ e => ?_⟩
    have := hg.cmdCap
    rw [e] at hq
    simp only [List.length_nil] at hq
    omega
  | bufRoom i _ ha hq =>
    refine ⟨ha, fun e => ?_⟩
    have := hg.bufCap
    rw [e] at hq
    simp only [List.length_nil] at hq
    omega

/-! ### ranks -/

theorem WPc.waitRank_of_needsWu {w : WPc} (h : w.needsWu = true) : w.waitRank = 2 := by
  cases w <;> simp_all [WPc.needsWu, WPc.waitRank]

theorem WPc.waitRank_of_storeKey {w : WPc} {k : Nat} (h : w.storeKey? = some k) : w.waitRank = 1 := by
  cases w <;> simp_all [WPc.storeKey?, WPc.waitRank]

theorem WPc.waitRank_of_ttl {w : WPc} {e : Nat} (h : w.ttlExpiry? = some e) : w.waitRank = 2 := by
  cases w <;> simp_all [WPc.ttlExpiry?, WPc.waitRank]

theorem WPc.waitRank_le (w : WPc) : w.waitRank ≤ 2 := by
  cases w <;> simp [WPc.waitRank]

theorem CPc.waitRank_of_needsWu {pc : CPc} (h : pc.needsWu = true) : pc.waitRank = 2 := by
  cases pc <;> simp_all [CPc.needsWu, CPc.waitRank]

theorem CPc.waitRank_of_storeKey {pc : CPc} {k : Nat} (h : pc.storeKey? = some k) : pc.waitRank = 1 := by
  cases pc <;> simp_all [CPc.storeKey?, CPc.waitRank]

theorem CPc.waitRank_of_ttl {pc : CPc} {e : Nat} (h : pc.ttlExpiry? = some e) : pc.waitRank = 3 := by
  cases pc <;> simp_all [CPc.ttlExpiry?, CPc.waitRank]

theorem CPc.waitRank_of_sendsCmd {pc : CPc} (h : pc.sendsCmd = true) : pc.waitRank = 3 := by
  cases pc <;> simp_all [CPc.sendsCmd, CPc.waitRank]

theorem CPc.waitRank_le (pc : CPc) : pc.waitRank ≤ 3 := by
  cases pc <;> simp [CPc.waitRank]

theorem waitRank_client {b : BState} {i : Nat} {pc : CPc} (hpc : b.cl[i]? = some pc) :
    waitRank b (.client i) = pc.waitRank := by
  simp only [waitRank, hpc]

theorem waitRank_sweeper_le (b : BState) : waitRank b .sweeper ≤ 2 := by
  simp only [waitRank]
  split
  · split <;> omega
  · omega
  · omega

/-- no wait chain is longer than three links -/
theorem waitRank_le (b : BState) (t : Tid) : waitRank b t ≤ 3 := by
  cases t with
  | worker => have := WPc.waitRank_le b.w; simp only [waitRank]; omega
  | sweeper => have := waitRank_sweeper_le b; omega
  | consumer => simp [waitRank]
  | client i =>
    simp only [waitRank]
    split
    · rename_i pc _; exact CPc.waitRank_le pc
    · omega

theorem wuOwner_rank {b : BState} (hb : BInv b) {t' : Tid} (ho : b.wuOwner = some t') : waitRank b t' = 1 := by
  cases t' with
  | worker =>
    obtain ⟨c, e, s, i, wk, hw⟩ := hb.wuWorker.mp ho
    simp [waitRank, hw, WPc.waitRank]
  | sweeper =>
    obtain ⟨n, sh, r, i, wk, hs⟩ := hb.wuSweeper.mp ho
    simp [waitRank, hs]
  | consumer => exact absurd ho (hb.wuClients 0).2
  | client i => exact absurd ho (hb.wuClients i).1

theorem guard_rank {b : BState} {j sh : Nat} (h : HoldsGuard b j sh) : waitRank b (.client j) = 0 := by
  obtain ⟨k, v, hcl, _, _⟩ := h
  rw [waitRank_client hcl]
  rfl

/-- **Every wait edge goes strictly down in `waitRank`** — so `WaitsFor b` has no cycle, at any state with the invariant:
    a `get_ref` guard holder waits for nothing (rank 0); the owner of `weight_used` only for a guard holder (1); the
    sweeper at `wu.sub` only for the worker owning `weight_used` (2); whoever needs `weight_used` for its owner (2);
    whoever needs an expiry shard for the sweeper — which then is not stuck behind THIS thread (the worker at an
    expiry-index write does not own `weight_used`); a sender for the worker (3). -/
theorem waitsFor_rank {b : BState} (hg : LiveInv b) {t t' : Tid} (h : WaitsFor b t t') :
    waitRank b t' < waitRank b t := by
  have hb := hg.inv
  cases h with
  | workerWu t' hn ho _ =>
    rw [wuOwner_rank hb ho]
    show 1 < b.w.waitRank
    rw [WPc.waitRank_of_needsWu hn]
    omega
  | sweeperWu n sh r id wk t' hs ho hne =>
    rw [wuOwner_rank hb ho]
    have hw : b.wuOwner = some .worker := by
      cases t' with
      | worker => exact ho
      | sweeper => exact absurd rfl hne
      | consumer => exact absurd ho (hb.wuClients 0).2
      | client i => exact absurd ho (hb.wuClients i).1
    simp [waitRank, hs, hw]
  | clientWu i pc t' hpc hn ho _ =>
    rw [wuOwner_rank hb ho, waitRank_client hpc, CPc.waitRank_of_needsWu hn]
    omega
  | workerShard e he ho =>
    show waitRank b .sweeper < b.w.waitRank
    rw [WPc.waitRank_of_ttl he]
    have hnw : b.wuOwner ≠ some .worker := by
      intro h
      obtain ⟨c, e', s, i, wk, hw⟩ := hb.wuWorker.mp h
      rw [hw] at he
      simp [WPc.ttlExpiry?] at he
    simp only [waitRank]
    split
    · simp [hnw]
    · omega
    · omega
  | clientShard i pc e hpc he ho =>
    have := waitRank_sweeper_le b
    rw [waitRank_client hpc, CPc.waitRank_of_ttl he]
    omega
  | clientAllShards i sh hpc ho =>
    have := waitRank_sweeper_le b
    rw [waitRank_client hpc]
    show _ < 3
    omega
  | workerGuard k j hk hj =>
    rw [guard_rank hj]
    show 0 < b.w.waitRank
    rw [WPc.waitRank_of_storeKey hk]
    omega
  | sweeperGuard n sh r id wk j hs hj =>
    rw [guard_rank hj]
    simp [waitRank, hs]
  | clientGuard i pc k j hpc hk _ hj =>
    rw [guard_rank hj, waitRank_client hpc, CPc.waitRank_of_storeKey hk]
    omega
  | clientAllGuards i j sh hpc _ hj =>
    rw [guard_rank hj, waitRank_client hpc]
    show 0 < 1
    omega
  | cmdRoom i pc hpc hs _ _ =>
    have := WPc.waitRank_le b.w
    rw [waitRank_client hpc, CPc.waitRank_of_sendsCmd hs]
    show b.w.waitRank < 3
    omega
  | bufRoom i hpc _ _ =>
    rw [waitRank_client hpc]
    show 0 < 1
    omega

/-! ### who waits is blocked -/

theorem wu_blocks {b : BState} {t t' : Tid} (ho : b.wuOwner = some t') (hne : t' ≠ t) : wuFree b t = false := by
  simp [wuFree, ho, hne]

theorem ttl_blocks {b : BState} {sh : Nat} (ho : b.ttlOwner = some sh) : ttlFree b sh = false := by
  simp [ttlFree, ho]

theorem guard_blocks {b : BState} {j k : Nat} {t : Option Nat} (h : HoldsGuard b j (storeShardOf b k)) (ht : some j ≠ t) :
    storeWritable b k t = false := by
  obtain ⟨k', v, _, _, hm⟩ := h
  unfold storeWritable
  simp only [Bool.not_eq_false', List.any_eq_true, Bool.and_eq_true, beq_iff_eq, bne_iff_ne, ne_eq]
  exact ⟨_, hm, rfl, ht⟩

/-- `WaitsFor` means what it says: the waiting thread's action is not enabled, whatever the oracle (in EVERY state) -/
theorem waitsFor_blocked {b : BState} {t t' : Tid} (h : WaitsFor b t t') : ¬ Enabled b t := by
  rintro ⟨v, o, r, hstep⟩
  cases h with
  | workerWu t' hn ho hne =>
    have hf := wu_blocks ho hne
    cases hw : b.w <;> simp [hw, WPc.needsWu] at hn <;> simp [Tid.act, stepB, workerAct, hw, hf] at hstep
  | sweeperWu n sh r id wk t' hs ho hne =>
    have hf := wu_blocks ho hne
    simp [Tid.act, stepB, sweeperAct, hs, hf] at hstep
  | clientWu i pc t' hpc hn ho hne =>
    have hf := wu_blocks ho hne
    cases pc <;> simp [CPc.needsWu] at hn <;> simp [Tid.act, stepB, clientAct, hpc, hf] at hstep
  | workerShard e he ho =>
    have hf := ttl_blocks ho
    cases hw : b.w <;> simp [hw, WPc.ttlExpiry?] at he <;>
      (subst he; simp [Tid.act, stepB, workerAct, hw, hf] at hstep)
  | clientShard i pc e hpc he ho =>
    have hf := ttl_blocks ho
    cases pc <;> simp [CPc.ttlExpiry?] at he <;>
      (subst he; simp [Tid.act, stepB, clientAct, hpc, hf] at hstep)
  | clientAllShards i sh hpc ho =>
    simp [Tid.act, stepB, clientAct, hpc, ho] at hstep
  | workerGuard k j hk hj =>
    have hf := guard_blocks hj (t := none) (by simp)
    cases hw : b.w <;> simp [hw, WPc.storeKey?] at hk <;>
      (subst hk; simp [Tid.act, stepB, workerAct, hw, hf] at hstep)
  | sweeperGuard n sh r id wk j hs hj =>
    have hf := guard_blocks hj (t := none) (by simp)
    simp [Tid.act, stepB, sweeperAct, hs, hf] at hstep
  | clientGuard i pc k j hpc hk hne hj =>
    have hf := guard_blocks hj (t := some i) (by simp [hne])
    cases pc <;> simp [CPc.storeKey?] at hk <;>
      (subst hk; simp [Tid.act, stepB, clientAct, hpc, hf] at hstep)
  | clientAllGuards i j sh hpc hne hj =>
    obtain ⟨k, v, _, _, hm⟩ := hj
    have hany : b.storeReaders.any (fun p => p.1 != i) = true := by
      simp only [List.any_eq_true, bne_iff_ne, ne_eq]
      exact ⟨_, hm, hne⟩
    simp [Tid.act, stepB, clientAct, hpc, hany] at hstep
  | cmdRoom i pc hpc hs hd hq =>
    cases pc <;> simp [CPc.sendsCmd] at hs <;>
      simp [Tid.act, stepB, clientAct, sendAct, hpc, hd, hq] at hstep
  | bufRoom i hpc ha hq =>
    simp [Tid.act, stepB, clientAct, hpc, ha, hq] at hstep

/-- a thread without work (other than the sweeper, whose tick is the environment's) is not enabled: its action
    answers "not enabled" — it waits for a request, a command, an event, or has exited -/
theorem no_work_blocked {b : BState} {t : Tid} (hnw : ¬ HasWork b t) (ht : t ≠ .sweeper) : ¬ Enabled b t := by
  rintro ⟨v, o, r, hstep⟩
  cases t with
  | sweeper => exact ht rfl
  | worker =>
    simp only [Tid.act, stepB] at hstep
    cases hw : b.w with
    | dead => simp [workerAct, hw] at hstep
    | recv =>
      cases hq : b.g.queue with
      | nil => simp [workerAct, hw, hq] at hstep
      | cons x q => exact hnw ⟨by simp [hw, WPc.exited], fun _ => by simp [hq]⟩
    | drain =>
      cases hq : b.g.queue with
      | nil => simp [workerAct, hw, hq] at hstep
      | cons x q => exact hnw ⟨by simp [hw, WPc.exited], fun _ => by simp [hq]⟩
    | _ => exact hnw ⟨by simp [hw, WPc.exited], fun h => by simp [hw, WPc.atRest] at h⟩
  | consumer =>
    simp only [Tid.act, stepB] at hstep
    cases ha : b.g.consumerAlive with
    | false => simp [consumerStep, ha] at hstep
    | true =>
      cases hq : b.g.bufq with
      | nil => simp [consumerStep, ha, hq] at hstep
      | cons x q => exact hnw ⟨ha, by simp [hq]⟩
  | client i =>
    simp only [Tid.act, stepB] at hstep
    cases hpc : b.cl[i]? with
    | none => simp [clientAct, hpc] at hstep
    | some pc =>
      cases pc with
      | idle => simp [clientAct, hpc] at hstep
      | _ => exact hnw ⟨_, hpc, rfl⟩

/-! ## 5  the command queue never holds more than `cmdCap` commands -/

/-- what a client action does to the command queue: nothing, or it is the `cmd.send` of a call, or the `cmd.send` of
    `shutdown()` (which found room) -/
theorem ctrans_queue {b b' : BState} {i : Nat} (h : CTrans b i b') :
    b'.g.queue = b.g.queue ∨ (∃ cmd, b.cl[i]? = some (.send cmd)) ∨
    (∃ c, b'.g.queue = b.g.queue ++ [c] ∧ b.g.queue.length < b.g.cfg.cmdCap) := by
  cases h
  case getPool hp => left; rw [poolAdd_frame hp]; rfl
  case refPool hp => left; rw [poolAdd_frame hp]; rfl
  case shutLocal hg => left; rw [hg]; rfl
  case mgetStep hg => left; rw [hg]; rfl
  case mgetFin hg => left; rw [hg]; rfl
  case sendOk cmd hpc => exact Or.inr (Or.inl ⟨_, hpc⟩)
  case shutSendCmd hpc hlt => exact Or.inr (Or.inr ⟨_, rfl, hlt⟩)
  case upAfterSame => left; rcases upAfterIndex_spec b i _ _ with ⟨_, h⟩ | ⟨_, _, h⟩ | h <;> rw [h] <;> rfl
  case upAfterPut id e uw _ _ _ =>
    left
    rcases upAfterIndex_spec { b with g := ttlPut b.g id e } i id uw with ⟨_, h⟩ | ⟨_, _, h⟩ | h <;> rw [h] <;> rfl
  case upAfterDelete id e uw _ _ =>
    left
    rcases upAfterIndex_spec { b with g := ttlDelete b.g id e } i id uw with ⟨_, h⟩ | ⟨_, _, h⟩ | h <;> rw [h] <;> rfl
  all_goals (left; rfl)

def QBound (b : BState) : Prop := b.g.queue.length ≤ b.g.cfg.cmdCap

theorem qbound_step {b b' : BState} {a : Act} {o o' : Oracle} (hd : QBound b) (h : stepB b a o = .ok (b', o')) :
    QBound b' := by
  have hcfg := stepB_cfg h
  unfold QBound at hd ⊢
  rw [hcfg]
  cases a with
  | issue i r =>
    simp only [stepB] at h
    split at h
    · rename_i b1 hi
      simp only [Except.ok.injEq, Prod.mk.injEq] at h; obtain ⟨rfl, rfl⟩ := h
      unfold issue at hi
      split at hi
      · simp only [Except.ok.injEq] at hi; subst hi; exact hd
      · cases hi
    · cases h
  | client i =>
    rcases ctrans_queue (clientAct_trans h) with e | ⟨cmd, hpc⟩ | ⟨c, e, hlt⟩
    · rw [e]; exact hd
    · simp only [stepB, clientAct, hpc] at h
      split at h
      · rename_i b1 hs
        simp only [Except.ok.injEq, Prod.mk.injEq] at h; obtain ⟨rfl, -⟩ := h
        unfold sendAct at hs
        simp only [] at hs
        split at hs
        · simp only [Except.ok.injEq] at hs; subst hs; exact hd
        · split at hs
          · cases hs
          · rename_i hq
            simp only [Except.ok.injEq] at hs; subst hs
            show (b.g.queue ++ [_]).length ≤ b.g.cfg.cmdCap
            simp only [List.length_append, List.length_singleton]
            omega
      · cases h
    · rw [e]
      simp only [List.length_append, List.length_singleton]
      omega
  | worker =>
    have ht := workerAct_trans h
    have hle : b'.g.queue.length ≤ b.g.queue.length := by
      cases ht <;> simp_all [finishCmd, rejectCmd, ttlPut, ttlDelete]
    omega
  | sweeper v =>
    simp only [stepB] at h
    split at h
    · rename_i b1 hs'
      simp only [Except.ok.injEq, Prod.mk.injEq] at h; obtain ⟨rfl, rfl⟩ := h
      rw [(strans_frame (sweeperAct_trans hs')).2.2.1]; exact hd
    · cases h
  | consumer =>
    simp only [stepB] at h
    split at h
    · rename_i g' out o1 hc
      simp only [Except.ok.injEq, Prod.mk.injEq] at h; obtain ⟨rfl, rfl⟩ := h
      show g'.queue.length ≤ b.g.cfg.cmdCap
      rw [consumerStep_frame hc]; exact hd
    · cases h
  | advance d =>
    simp only [stepB, Except.ok.injEq, Prod.mk.injEq] at h; obtain ⟨rfl, rfl⟩ := h
    exact hd

theorem qbound_reach {cfg : Cfg} {now : Nat} {seeds : List Nat} {clients : Nat} {b : BState}
    (h : Reach cfg now seeds clients b) : b.g.queue.length ≤ b.g.cfg.cmdCap := by
  induction h with
  | init _ => simp [BState.init, State.init]
  | step _ hs ih => exact qbound_step ih hs

/-! ## 6  a sweeper that has exited stands at `sweep.begin` -/

/-- `sweep.end` is the only action that assigns `sweeperAlive` (`step_background_alive`), and it moves the sweeper to
    `sweep.begin`, where an exited sweeper is not enabled: so "the sweeper stands at `sweep.begin`" in `Quiescent`
    covers the sweeper that has exited -/
theorem exited_sweeper_at_begin {cfg : Cfg} {now : Nat} {seeds : List Nat} {clients : Nat} {b : BState}
    (hr : Reach cfg now seeds clients b) : b.g.sweeperAlive = false → b.sw = .begin := by
  induction hr with
  | init _ => intro h; simp [BState.init, State.init] at h
  | @step b b' a o o' _ hs ih =>
    intro hf
    have h4 := (step_background_alive hs).1
    have other : (∀ v, a ≠ .sweeper v) → b'.sw = b.sw → b'.sw = .begin := by
      intro hne hsw
      rcases h4 with e | ⟨⟨v, hv⟩, _, _⟩
      · rw [hsw]; exact ih (by rw [← e]; exact hf)
      · exact absurd hv (hne v)
    cases a with
    | sweeper v =>
      simp only [stepB] at hs
      split at hs
      · rename_i b1 hs'
        simp only [Except.ok.injEq, Prod.mk.injEq] at hs; obtain ⟨rfl, rfl⟩ := hs
        rcases h4 with e | ⟨_, hfin, _⟩
        · have hal : b.g.sweeperAlive = false := by rw [← e]; exact hf
          have hb := ih hal
          simp [sweeperAct, hb, hal] at hs'
        · simp only [sweeperAct, hfin, Except.ok.injEq] at hs'
          rw [← hs']
      · cases hs
    | issue i r =>
      refine other (fun v e => by cases e) ?_
      simp only [stepB] at hs
      split at hs
      · rename_i b1 hi
        simp only [Except.ok.injEq, Prod.mk.injEq] at hs; obtain ⟨rfl, rfl⟩ := hs
        unfold issue at hi
        split at hi
        · simp only [Except.ok.injEq] at hi; subst hi; rfl
        · cases hi
      · cases hs
    | client i => exact other (fun v e => by cases e) (ctrans_frame (clientAct_trans hs)).2.1
    | worker =>
      refine other (fun v e => by cases e) ?_
      cases workerAct_trans hs <;> rfl
    | consumer =>
      refine other (fun v e => by cases e) ?_
      simp only [stepB] at hs
      split at hs
      · simp only [Except.ok.injEq, Prod.mk.injEq] at hs; obtain ⟨rfl, rfl⟩ := hs
        rfl
      · cases hs
    | advance d =>
      refine other (fun v e => by cases e) ?_
      simp only [stepB, Except.ok.injEq, Prod.mk.injEq] at hs; obtain ⟨rfl, rfl⟩ := hs
      rfl

end B
end Cached
