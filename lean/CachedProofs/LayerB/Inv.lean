/-
  The invariant `BInv` of the ACTION-GRANULARITY model (CachedModel/LayerB.lean) and its preservation by every
  atomic action of every thread (`binv_step`), hence at every reachable state of every interleaving (`binv_reach`).

  Layout
    1  definitions: `Reach`, `pendingSub`, `pendingAdd`, fresh / used ids, `BInv`
    2  the three programs as relations (`WTrans`, `STrans`, `CTrans`: one constructor per branch of `workerAct`,
       `sweeperAct`, `clientAct`) with `workerAct_trans`, `sweeperAct_trans`, `clientAct_trans`
    3  frame facts (`applyEvict`, `poolAdd`, `consumerStep`)
    4  `LockF`   the lock conjuncts in functional form: `wuOwner = lockOf w sw`, `ttlOwner = sw.shard?`
    5  `PosInv`  positive weights in queue / clients / worker locals
    6  `IdInv`   fresh ids (counted by `occ`) are distinct, below `nextId`, uncharged before `kw.insert`, and are
                 no thread's handle into `kw` (`usedIds`); `addCharged`
    7  `KwInv`   `kwNoDup`, `positive`, victims in hand (always);  `AcctInv`  the accounting identity `sum`,
                 `staleSpace` (while running);  `ShutF`  the shutdown flag;  `GuardInv`  the `get_ref` read guards
    8  `binv_iff : BInv b ↔ LockF b ∧ PosInv b ∧ IdInv b ∧ KwInv b ∧ (shutting = false → AcctInv b) ∧ maxFixed ∧
                 ShutF b ∧ GuardInv b`, `binv_init`, one lemma per thread
       (`binv_workerAct`, `binv_sweeperAct`, `binv_clientAct`, `binv_issue`, `binv_consumer`, `binv_advance`),
       `binv_step`, `binv_reach`

  Conjuncts of `BInv` beyond the ones asked for (each was needed):
    * `addCharged`  between `kw.insert` and `wu.add` the new id is still charged at the weight to be added — without
                    it the total could dip below zero (the sweeper could `wu.sub` the new key before its `wu.add`);
                    it holds because the id is FRESH: no store entry, expiry-index entry, sweeper or client local
                    names it (`freshIds`, the `usedIds` part);
    * `staleSpace`  the free space read at `wu.space` and compared later (`sampleInit`, `fill`) is still available;
    * `sweepEntry`  at `sweep.entry` there is an unvisited entry (else the shard lock would never be dropped).

  Extension (get_ref guards and `shutdown()` at action granularity):
    * the accounting group `BAcct` (`sum`, `addCharged`, `staleSpace`) is guarded by `b.g.shutting = false`:
      `shutdown()` clears `key_weights` and zeroes `weight_used` in two separate actions while the worker and the
      sweeper keep running; the flag is set by the first action of `shutdown()` and never reset
      (`stepB_shutting_mono`), `shutFlag` records that a shutdown past its CAS has set it;
    * the lock group is unconditional: no client ever owns `weight_used` across a schedule point;
    * `guards`: the read guards of `get_ref` (`GuardInv`); `stepB_storeShard`: the shard map never changes.

  Extension (multi-key reads `Req.mget`): the positions `.mgetFlag` (a load of the shutdown flag: an action of its own)
  / `.mgetStore` / `.mgetPool` hold no lock, no guard, no id and no weight; `CTrans.mgetStep` / `CTrans.mgetFin` (a flag
  load — `mgetFlagAct_spec` —, one key's `store.get` hit / miss and `pool.add`, the latter two followed by `mgetNext`:
  `mgetNext_spec`, `mgetNext_ctrans`) touch only the statistics, the pool and the buffer queue (a flag load: nothing);
  the first action of a `mget` (`mgetStart_spec`) is `CTrans.startPlain` (→ `.mgetFlag true …`, which is `CPc.plain`) or
  `CTrans.finish` (an iterator over no keys).
-/
import CachedModel.LayerB
import CachedProofs.Lemmas.Weights
import CachedProofs.Lemmas.EvictId
import CachedProofs.Lemmas.Admission

namespace Cached
namespace B

/-! ## 1  definitions -/

/-- every state some interleaving of clients, worker, sweeper and consumer can reach, whatever the (fixed) map of
    keys to store shards is -/
inductive Reach (cfg : Cfg) (now : Nat) (seeds : List Nat) (clients : Nat) : BState → Prop where
  | init (shardMap : List (Nat × Nat)) :
      Reach cfg now seeds clients { BState.init cfg now seeds clients with storeShard := shardMap }
  | step {b b' : BState} {a : Act} {o o' : Oracle} :
      Reach cfg now seeds clients b → stepB b a o = .ok (b', o') → Reach cfg now seeds clients b'

/-- weight that has been taken out of `kw` but not yet out of `used` (between `kw.remove` and `wu.sub`),
    summed over worker and sweeper -/
def pendingSub (b : BState) : Int :=
  (match b.w with
   | .evSub _ _ _ _ wk => wk.weight
   | .delSub _ wk _ _ => wk.weight
   | _ => 0) +
  (match b.sw with
   | .sub _ _ _ _ wk => wk.weight
   | _ => 0)

/-- weight that is already in `kw` but not yet in `used` (between `kw.insert` and `wu.add`) -/
def pendingAdd (b : BState) : Int :=
  match b.w with
  | .add c => c.w
  | _ => 0

/-- the put command the worker is executing -/
def WPc.cmd? : WPc → Option PutCmd
  | .present c | .space0 c | .sampleInit c _ _ | .evRemove c _ _ _ | .evSub c _ _ _ _ | .evStore c _ _ _ _
  | .evSpace c _ _ | .fill c _ _ _ | .emptySpace c | .insert c | .add c | .storePut c | .ttlPut c _ => some c
  | _ => none

/-- the charge the worker has taken out of `kw` and holds in a local -/
def WPc.victim? : WPc → Option WKey
  | .evSub _ _ _ _ wk | .evStore _ _ _ _ wk | .delSub _ wk _ _ => some wk
  | _ => none

/-- the charge the sweeper has taken out of `kw` and holds in a local -/
def SPc.victim? : SPc → Option WKey
  | .sub _ _ _ _ wk | .store _ _ _ _ wk => some wk
  | _ => none

/-- the expiry shard the sweeper is working on -/
def SPc.shard? : SPc → Option Nat
  | .entry _ sh _ | .kwRemove _ sh _ _ | .sub _ sh _ _ _ | .store _ sh _ _ _ => some sh
  | _ => none

/-- the free space the worker read earlier and will compare with the incoming weight -/
def WPc.space? : WPc → Option Int
  | .sampleInit _ space _ | .fill _ _ _ space => some space
  | _ => none

/-- the id a command will charge, if it is a put -/
def cmdId? : Cmd → Option Nat
  | .put id _ _ _ _ => some id
  | .putTtl id _ _ _ _ _ => some id
  | _ => none

/-- the weight carried by a command is positive -/
def cmdPos : Cmd → Prop
  | .put _ _ w _ _ => 0 < w
  | .putTtl _ _ w _ _ _ => 0 < w
  | .updateWeight _ w => 0 < w
  | _ => True

/-- the weight a client carries towards a command is positive -/
def CPc.pos : CPc → Prop
  | .putPresent _ _ w _ | .idNext _ _ w _ => 0 < w
  | .send cmd => cmdPos cmd
  | _ => True

/-- FRESH ids: the id of a put command that is on its way and whose entry is not in the store yet. -/
def CPc.freshId? : CPc → Option Nat
  | .send cmd => cmdId? cmd
  | _ => none

/-- the worker's put from `recv` up to (and including the position before) `store.put` -/
def WPc.freshId? : WPc → Option Nat
  | .present c | .space0 c | .sampleInit c _ _ | .evRemove c _ _ _ | .evSub c _ _ _ _ | .evStore c _ _ _ _
  | .evSpace c _ _ | .fill c _ _ _ | .emptySpace c | .insert c | .add c | .storePut c => some c.id
  | _ => none

/-- the worker's put up to (and including the position before) `kw.insert`: the id is not charged yet -/
def WPc.pendId? : WPc → Option Nat
  | .present c | .space0 c | .sampleInit c _ _ | .evRemove c _ _ _ | .evSub c _ _ _ _ | .evStore c _ _ _ _
  | .evSpace c _ _ | .fill c _ _ _ | .emptySpace c | .insert c => some c.id
  | _ => none

def qIds (q : List (Cmd × Option Nat)) : List Nat := q.filterMap (fun p => cmdId? p.1)
def cIds (cl : List CPc) : List Nat := cl.filterMap CPc.freshId?

/-- how often `f` occurs as a fresh id -/
def occ (b : BState) (f : Nat) : Nat :=
  (qIds b.g.queue).count f + (cIds b.cl).count f + b.w.freshId?.toList.count f

/-- USED ids: ids through which some thread may reach into `kw` to delete. -/
def SPc.ids : SPc → List Nat
  | .entry _ _ rest | .sub _ _ rest _ _ | .store _ _ rest _ _ => rest.map (·.1)
  | .kwRemove _ _ rest id => id :: rest.map (·.1)
  | _ => []

def CPc.usedId? : CPc → Option Nat
  | .upWeightOf id _ _ _ | .upTtlPut id _ _ | .upTtlDelete id _ _ | .upTtlRemove id _ _ _ | .upTtlInsert id _ _ => some id
  | _ => none

def WPc.usedId? : WPc → Option Nat
  | .ttlPut c _ => some c.id
  | _ => none

def usedIds (b : BState) : List Nat :=
  b.g.store.map (·.2.id) ++ b.g.ttl.map (·.1.2) ++ b.sw.ids ++ b.cl.filterMap CPc.usedId? ++ b.w.usedId?.toList

/-- client positions of `shutdown()` after its compare-and-swap has set the flag -/
def CPc.afterCas : CPc → Bool
  | .shutSendCmd | .shutSendBuf | .shutConsumerFlag | .shutTickerFlag | .shutStoreClear | .shutKwClear | .shutWuZero
  | .shutAfClear | .shutStatsClear | .shutTtlClear => true
  | _ => false

/-- The ACCOUNTING group of the invariant.  It holds only WHILE THE CACHE IS RUNNING: `shutdown()` is not atomic with
    respect to the worker (it clears `key_weights`, then zeroes `weight_used`, while the worker may stand between
    `kw.insert` and `wu.add`, or between a `kw.remove` and its `wu.sub`) — `layerB_accounting_void_after_shutdown`
    in Theorems.lean is a reachable state in which `sum` and `addCharged` fail.  (`staleSpace` is in the group because
    its preservation rests on `sum`; no reachable state violating it after a shutdown is known.) -/
structure BAcct (b : BState) : Prop where
  /-- the accounting identity, modulo the in-flight locals -/
  sum : b.g.adm.used = sumW b.g.adm.kw - pendingAdd b + pendingSub b
  /-- between `kw.insert` and `wu.add` the new id stays charged, at the weight that will be added -/
  addCharged : ∀ c, b.w = .add c → b.g.adm.kw.get? c.id = some { key := c.k, hash := c.hash, weight := c.w }
  /-- a free space read earlier is still available (everybody else only subtracts) -/
  staleSpace : ∀ space, b.w.space? = some space → space ≤ b.g.adm.max - b.g.adm.used

/-- The invariant of Layer B. -/
structure BInv (b : BState) : Prop where
  kwNoDup : AMap.NoDup b.g.adm.kw
  positive : ∀ id wk, b.g.adm.kw.get? id = some wk → 0 < wk.weight
  /-- the accounting group, guarded by the shutdown flag (set by the FIRST action of `shutdown()`, before anything
      is cleared, and never reset: `stepB_shutting_mono`) -/
  acct : b.g.shutting = false → BAcct b
  pendingPos : (∀ c, b.w = .add c → 0 < c.w) ∧
    (∀ c, b.w = .insert c → 0 < c.w ∧ b.g.adm.kw.get? c.id = none) ∧
    (∀ wk, b.w.victim? = some wk → 0 < wk.weight) ∧ (∀ wk, b.sw.victim? = some wk → 0 < wk.weight)
  /-- lock ownership: unconditional — it holds during and after a shutdown as well (`shutdown.wu_zero` takes and
      releases `weight_used` within one action, so no client ever owns it across a schedule point) -/
  wuWorker : b.wuOwner = some .worker ↔ (∃ c e s i wk, b.w = .evStore c e s i wk)
  wuSweeper : b.wuOwner = some .sweeper ↔ (∃ n sh r i wk, b.sw = .store n sh r i wk)
  wuClients : ∀ i, b.wuOwner ≠ some (.client i) ∧ b.wuOwner ≠ some .consumer
  ttlSweeper : (b.ttlOwner = none ↔ (b.sw = .begin ∨ b.sw = .fin)) ∧ (∀ sh, b.ttlOwner = some sh → b.sw.shard? = some sh)
  /-- at `sweep.entry` there is an entry left to visit (else the sweeper would hold the shard lock for ever) -/
  sweepEntry : ∀ now sh rest, b.sw = .entry now sh rest → rest ≠ []
  cmdsPositive : (∀ p ∈ b.g.queue, cmdPos p.1) ∧ (∀ (i : Nat) (pc : CPc), b.cl[i]? = some pc → pc.pos) ∧
    (∀ c, b.w.cmd? = some c → 0 < c.w) ∧ (∀ id w h, b.w = .update id w h → 0 < w)
  /-- fresh ids are pairwise distinct, below `nextId`, not charged before `kw.insert`, and nobody holds
      one of them as a handle into `kw` (store entry, expiry index, sweeper or client local) -/
  freshIds : (∀ f, occ b f ≤ 1) ∧ (∀ f, 0 < occ b f → f < b.g.nextId) ∧
    (∀ f, 0 < (qIds b.g.queue).count f + (cIds b.cl).count f → b.g.adm.kw.get? f = none) ∧
    (∀ f, b.w.pendId? = some f → b.g.adm.kw.get? f = none) ∧
    (∀ u ∈ usedIds b, occ b u = 0 ∧ u < b.g.nextId) ∧
    (∀ id wk, b.g.adm.kw.get? id = some wk → id < b.g.nextId)
  maxFixed : b.g.adm.max = b.g.cfg.maxWeight
  /-- a `shutdown()` that is past its compare-and-swap has set the flag -/
  shutFlag : ∀ (i : Nat) (pc : CPc), b.cl[i]? = some pc → pc.afterCas = true → b.g.shutting = true
  /-- the store read guards of `get_ref`: every guard belongs to a client standing at `pool.add` of a `get_ref(k)`
      and is a guard on the shard of `k`; at most one guard per client; and a client at that position holds it -/
  guards : (∀ p ∈ b.storeReaders, ∃ k v, b.cl[p.1]? = some (.refPool k v) ∧ p.2 = storeShardOf b k) ∧
    b.storeReaders.Pairwise (fun p q => p.1 ≠ q.1) ∧
    (∀ (i k v : Nat), b.cl[i]? = some (.refPool k v) → (i, storeShardOf b k) ∈ b.storeReaders)

/-! ## 2  the actions as relations

  `workerAct`, `sweeperAct` and `clientAct` are re-stated as inductive relations with one constructor per branch
  (`workerAct_trans`, …), so that every invariant below is proved by one `cases` over the branches. -/

/-- the ways `loopDecide` can end -/
theorem loopDecide_spec {b : BState} {c : PutCmd} {e : Nat} {s : List SKey} {space : Int} {o : Oracle}
    {b' : BState} {o' : Oracle} (h : loopDecide b c e s space o = .ok (b', o')) :
    (b' = { b with w := .insert c } ∧ space ≥ c.w) ∨ b' = { b with w := .emptySpace c } ∨
    b' = rejectCmd b c.h (.rejected .noSpace) ∨ ∃ s' k, b' = { b with w := .evRemove c e s' k } := by
  unfold loopDecide at h
  split at h
  · simp only [Except.ok.injEq, Prod.mk.injEq] at h
    exact Or.inl ⟨h.1.symm, by assumption⟩
  · split at h
    · cases h
    · split at h
      · cases h
      · simp only [Except.ok.injEq, Prod.mk.injEq] at h
        exact Or.inr (Or.inl h.1.symm)
    · split at h
      · cases h
      · split at h
        · cases h
        · split at h
          · simp only [Except.ok.injEq, Prod.mk.injEq] at h
            exact Or.inr (Or.inr (Or.inl h.1.symm))
          · simp only [Except.ok.injEq, Prod.mk.injEq] at h
            exact Or.inr (Or.inr (Or.inr ⟨_, _, h.1.symm⟩))

/-- One action of the command worker, as a relation: one constructor per branch of `workerAct`. -/
inductive WTrans (b : BState) : BState → Prop where
  | recvPut (c : PutCmd) (q) : b.w = .recv → b.g.queue = (cmdOfPut c, c.h) :: q →
      WTrans b { b with g := { b.g with queue := q }, w := .present c }
  | recvUpdate (id w h q) : b.w = .recv → b.g.queue = (.updateWeight id w, h) :: q →
      WTrans b { b with g := { b.g with queue := q }, w := .update id w h }
  | recvDelete (k h q) : b.w = .recv → b.g.queue = (.delete k, h) :: q →
      WTrans b { b with g := { b.g with queue := q }, w := .delStore k h }
  | recvShutdown (h q) : b.w = .recv → b.g.queue = (.shutdown, h) :: q →
      WTrans b { b with g := { b.g with queue := q, acks := setAck b.g.acks h .accepted, worker := .draining }, w := .drain }
  | drain (cmd h q) : b.w = .drain → b.g.queue = (cmd, h) :: q →
      WTrans b { b with g := { b.g with queue := q, acks := setAck b.g.acks h .shuttingDown }, w := .drain }
  | presentExists (c) : b.w = .present c → WTrans b (finishCmd b c.h (.rejected .keyAlreadyExists))
  | presentHeavy (c) : b.w = .present c → WTrans b (rejectCmd b c.h (.rejected .tooHeavy))
  | presentOk (c) : b.w = .present c → WTrans b { b with w := .space0 c }
  | space0Fits (c) : b.w = .space0 c → wuFree b .worker = true → b.g.adm.max - b.g.adm.used ≥ c.w →
      WTrans b { b with w := .insert c }
  | space0Sample (c e) : b.w = .space0 c → wuFree b .worker = true →
      WTrans b { b with w := .sampleInit c (b.g.adm.max - b.g.adm.used) e }
  | initInsert (c e space) : b.w = .sampleInit c space e → space ≥ c.w → WTrans b { b with w := .insert c }
  | initEmpty (c e space) : b.w = .sampleInit c space e → WTrans b { b with w := .emptySpace c }
  | initReject (c e space) : b.w = .sampleInit c space e → WTrans b (rejectCmd b c.h (.rejected .noSpace))
  | initVictim (c e space s' k) : b.w = .sampleInit c space e → WTrans b { b with w := .evRemove c e s' k }
  | fillInsert (c e s space) : b.w = .fill c e s space → space ≥ c.w → WTrans b { b with w := .insert c }
  | fillEmpty (c e s space) : b.w = .fill c e s space → WTrans b { b with w := .emptySpace c }
  | fillReject (c e s space) : b.w = .fill c e s space → WTrans b (rejectCmd b c.h (.rejected .noSpace))
  | fillVictim (c e s space s' k) : b.w = .fill c e s space → WTrans b { b with w := .evRemove c e s' k }
  | evRemoveSome (c e s victim wk) : b.w = .evRemove c e s victim → b.g.adm.kw.get? victim.id = some wk →
      WTrans b { b with g := { b.g with adm := { b.g.adm with kw := b.g.adm.kw.del victim.id } }, w := .evSub c e s victim.id wk }
  | evRemoveNone (c e s victim) : b.w = .evRemove c e s victim → b.g.adm.kw.get? victim.id = none →
      WTrans b { b with w := .evSpace c e s }
  | evSub (c e s id wk) : b.w = .evSub c e s id wk → wuFree b .worker = true →
      WTrans b { b with g := { b.g with adm := { b.g.adm with used := b.g.adm.used - wk.weight } }, wuOwner := some .worker, w := .evStore c e s id wk }
  | evStore (c e s id wk) : b.w = .evStore c e s id wk → storeWritable b wk.key none = true →
      WTrans b { b with g := applyEvict b.g (id, wk.key, wk.weight), wuOwner := none, w := .evSpace c e s }
  | evSpace (c e s) : b.w = .evSpace c e s → wuFree b .worker = true →
      WTrans b { b with w := .fill c e s (b.g.adm.max - b.g.adm.used) }
  | emptyFits (c) : b.w = .emptySpace c → wuFree b .worker = true → b.g.adm.max - b.g.adm.used ≥ c.w →
      WTrans b { b with w := .insert c }
  | emptyReject (c) : b.w = .emptySpace c → wuFree b .worker = true →
      WTrans b (rejectCmd b c.h (.rejected .noSpace))
  | insert (c) : b.w = .insert c →
      WTrans b { b with g := { b.g with adm := { b.g.adm with kw := b.g.adm.kw.set c.id { key := c.k, hash := c.hash, weight := c.w } } }, w := .add c }
  | add (c) : b.w = .add c → wuFree b .worker = true →
      WTrans b { b with g := { b.g with adm := { b.g.adm with used := b.g.adm.used + c.w }, stats := { b.g.stats with weightAdded := (b.g.stats.weightAdded + c.w.toNat) % u64Mod } }, w := .storePut c }
  | storePutPlain (c) : b.w = .storePut c → c.ttl = none → storeWritable b c.k none = true →
      WTrans b (finishCmd { b with g := { b.g with store := b.g.store.set c.k { value := c.v, id := c.id, expiry := none, soft := false }, stats := { b.g.stats with keysAdded := b.g.stats.keysAdded + 1 } } } c.h .accepted)
  | storePutPanic (c t) : b.w = .storePut c → c.ttl = some t → storeWritable b c.k none = true →
      WTrans b { b with w := .dead, g := { b.g with worker := .dead, queue := [] } }
  | storePutTtl (c t e) : b.w = .storePut c → c.ttl = some t → storeWritable b c.k none = true →
      WTrans b { b with g := { b.g with store := b.g.store.set c.k { value := c.v, id := c.id, expiry := some e, soft := false }, stats := { b.g.stats with keysAdded := b.g.stats.keysAdded + 1 } }, w := .ttlPut c e }
  | ttlPut (c e) : b.w = .ttlPut c e → ttlFree b (shardOf b.g.cfg e) = true →
      WTrans b (finishCmd { b with g := ttlPut b.g c.id e } c.h .accepted)
  | updateAbsent (id w h) : b.w = .update id w h → wuFree b .worker = true → b.g.adm.kw.get? id = none →
      WTrans b (finishCmd b h .accepted)
  | updateApplied (id w h wk) : b.w = .update id w h → wuFree b .worker = true → b.g.adm.kw.get? id = some wk →
      WTrans b (finishCmd { b with g := { b.g with adm := { b.g.adm with used := b.g.adm.used + (w - wk.weight), kw := b.g.adm.kw.set id { wk with weight := w } }, stats := updateWeightStats { b.g.stats with keysUpdated := b.g.stats.keysUpdated + 1 } w wk.weight } } h .accepted)
  | updatePanic (id w h) : b.w = .update id w h → wuFree b .worker = true →
      WTrans b { b with w := .dead, g := { b.g with worker := .dead, queue := [] } }
  /-- `is_space_available_for`: `max_weight - weight_used` is outside `i64` (the three `wu.space` positions of a put) -/
  | space0Overflow (c) : b.w = .space0 c → wuFree b .worker = true → b.g.adm.spaceOverflow = true →
      WTrans b { b with w := .dead, g := { b.g with worker := .dead, queue := [] } }
  | evSpaceOverflow (c e s) : b.w = .evSpace c e s → wuFree b .worker = true → b.g.adm.spaceOverflow = true →
      WTrans b { b with w := .dead, g := { b.g with worker := .dead, queue := [] } }
  | emptyOverflow (c) : b.w = .emptySpace c → wuFree b .worker = true → b.g.adm.spaceOverflow = true →
      WTrans b { b with w := .dead, g := { b.g with worker := .dead, queue := [] } }
  | delStoreNone (k h) : b.w = .delStore k h → storeWritable b k none = true → WTrans b (finishCmd b h (.rejected .keyDoesNotExist))
  | delStoreSome (k h e) : b.w = .delStore k h → b.g.store.get? k = some e → storeWritable b k none = true →
      WTrans b { b with g := { b.g with store := b.g.store.del k, stats := { b.g.stats with keysDeleted := b.g.stats.keysDeleted + 1 } }, w := .delKw e.id e.expiry h }
  | delKwSome (id exp h wk) : b.w = .delKw id exp h → b.g.adm.kw.get? id = some wk →
      WTrans b { b with g := { b.g with adm := { b.g.adm with kw := b.g.adm.kw.del id } }, w := .delSub id wk exp h }
  | delKwNoneTtl (id e h) : b.w = .delKw id (some e) h → WTrans b { b with w := .delTtl id e h }
  | delKwNoneDone (id h) : b.w = .delKw id none h → WTrans b (finishCmd b h .accepted)
  | delSubTtl (id wk e h) : b.w = .delSub id wk (some e) h → wuFree b .worker = true →
      WTrans b { b with g := { b.g with adm := { b.g.adm with used := b.g.adm.used - wk.weight }, stats := { b.g.stats with weightRemoved := (b.g.stats.weightRemoved + wk.weight.toNat) % u64Mod } }, w := .delTtl id e h }
  | delSubDone (id wk h) : b.w = .delSub id wk none h → wuFree b .worker = true →
      WTrans b (finishCmd { b with g := { b.g with adm := { b.g.adm with used := b.g.adm.used - wk.weight }, stats := { b.g.stats with weightRemoved := (b.g.stats.weightRemoved + wk.weight.toNat) % u64Mod } } } h .accepted)
  | delTtl (id e h) : b.w = .delTtl id e h → ttlFree b (shardOf b.g.cfg e) = true →
      WTrans b (finishCmd { b with g := ttlDelete b.g id e } h .accepted)

theorem workerAct_trans {b b' : BState} {o o' : Oracle} (h : workerAct b o = .ok (b', o')) : WTrans b b' := by
  cases hw : b.w with
  | dead => simp [workerAct, hw] at h
  | recv =>
    simp only [workerAct, hw] at h
    split at h
    · cases h
    · rename_i cmd hh q hq
      cases cmd <;> simp only [Except.ok.injEq, Prod.mk.injEq] at h <;> obtain ⟨rfl, rfl⟩ := h
      · exact .recvPut ⟨_, _, _, _, _, none, hh⟩ q hw hq
      · exact .recvPut ⟨_, _, _, _, _, some _, hh⟩ q hw hq
      · exact .recvDelete _ _ _ hw hq
      · exact .recvUpdate _ _ _ _ hw hq
      · exact .recvShutdown _ _ hw hq
  | drain =>
    simp only [workerAct, hw] at h
    split at h
    · cases h
    · rename_i cmd hh q hq
      simp only [Except.ok.injEq, Prod.mk.injEq] at h; obtain ⟨rfl, rfl⟩ := h
      exact .drain _ _ _ hw hq
  | present c =>
    simp only [workerAct, hw] at h
    split at h
    · simp only [Except.ok.injEq, Prod.mk.injEq] at h; obtain ⟨rfl, rfl⟩ := h
      exact .presentExists c hw
    · split at h
      all_goals simp only [Except.ok.injEq, Prod.mk.injEq] at h; obtain ⟨rfl, rfl⟩ := h
      · exact .presentHeavy c hw
      · exact .presentOk c hw
  | space0 c =>
    simp only [workerAct, hw] at h
    split at h
    · cases h
    · rename_i hfree
      simp only [Bool.not_eq_true, Bool.not_eq_false'] at hfree
      split at h
      · simp only [Except.ok.injEq, Prod.mk.injEq] at h; obtain ⟨rfl, rfl⟩ := h
        exact .space0Overflow c hw hfree (by assumption)
      split at h
      · simp only [Except.ok.injEq, Prod.mk.injEq] at h; obtain ⟨rfl, rfl⟩ := h
        exact .space0Fits c hw hfree (by assumption)
      · split at h
        · cases h
        · simp only [Except.ok.injEq, Prod.mk.injEq] at h; obtain ⟨rfl, rfl⟩ := h
          exact .space0Sample c _ hw hfree
  | sampleInit c space e =>
    simp only [workerAct, hw] at h
    split at h
    · cases h
    · rcases loopDecide_spec h with ⟨rfl, h1⟩ | rfl | rfl | ⟨_, _, rfl⟩
      · exact .initInsert c e space hw h1
      · exact .initEmpty c e space hw
      · exact .initReject c e space hw
      · exact .initVictim c e space _ _ hw
  | fill c e s space =>
    simp only [workerAct, hw] at h
    split at h
    · cases h
    · rcases loopDecide_spec h with ⟨rfl, h1⟩ | rfl | rfl | ⟨_, _, rfl⟩
      · exact .fillInsert c e s space hw h1
      · exact .fillEmpty c e s space hw
      · exact .fillReject c e s space hw
      · exact .fillVictim c e s space _ _ hw
  | evRemove c e s victim =>
    simp only [workerAct, hw] at h
    split at h
    all_goals simp only [Except.ok.injEq, Prod.mk.injEq] at h; obtain ⟨rfl, rfl⟩ := h
    · exact .evRemoveSome c e s victim _ hw (by assumption)
    · exact .evRemoveNone c e s victim hw (by assumption)
  | evSub c e s id wk =>
    simp only [workerAct, hw] at h
    split at h
    · cases h
    · rename_i hfree
      simp only [Bool.not_eq_true, Bool.not_eq_false'] at hfree
      simp only [Except.ok.injEq, Prod.mk.injEq] at h; obtain ⟨rfl, rfl⟩ := h
      exact .evSub c e s id wk hw hfree
  | evStore c e s id wk =>
    simp only [workerAct, hw] at h
    split at h
    · cases h
    · rename_i hwr
      simp only [Bool.not_eq_true, Bool.not_eq_false'] at hwr
      simp only [Except.ok.injEq, Prod.mk.injEq] at h; obtain ⟨rfl, rfl⟩ := h
      exact .evStore c e s id wk hw hwr
  | evSpace c e s =>
    simp only [workerAct, hw] at h
    split at h
    · cases h
    · rename_i hfree
      simp only [Bool.not_eq_true, Bool.not_eq_false'] at hfree
      split at h
      all_goals simp only [Except.ok.injEq, Prod.mk.injEq] at h; obtain ⟨rfl, rfl⟩ := h
      · exact .evSpaceOverflow c e s hw hfree (by assumption)
      · exact .evSpace c e s hw hfree
  | emptySpace c =>
    simp only [workerAct, hw] at h
    split at h
    · cases h
    · rename_i hfree
      simp only [Bool.not_eq_true, Bool.not_eq_false'] at hfree
      split at h
      · simp only [Except.ok.injEq, Prod.mk.injEq] at h; obtain ⟨rfl, rfl⟩ := h
        exact .emptyOverflow c hw hfree (by assumption)
      split at h
      all_goals simp only [Except.ok.injEq, Prod.mk.injEq] at h; obtain ⟨rfl, rfl⟩ := h
      · exact .emptyFits c hw hfree (by assumption)
      · exact .emptyReject c hw hfree
  | insert c =>
    simp only [workerAct, hw, Except.ok.injEq, Prod.mk.injEq] at h; obtain ⟨rfl, rfl⟩ := h
    exact .insert c hw
  | add c =>
    simp only [workerAct, hw] at h
    split at h
    · cases h
    · rename_i hfree
      simp only [Bool.not_eq_true, Bool.not_eq_false'] at hfree
      simp only [Except.ok.injEq, Prod.mk.injEq] at h; obtain ⟨rfl, rfl⟩ := h
      exact .add c hw hfree
  | storePut c =>
    simp only [workerAct, hw] at h
    split at h
    · cases h
    · rename_i hwr
      simp only [Bool.not_eq_true, Bool.not_eq_false'] at hwr
      split at h
      · simp only [Except.ok.injEq, Prod.mk.injEq] at h; obtain ⟨rfl, rfl⟩ := h
        exact .storePutPlain c hw (by assumption) hwr
      · split at h
        all_goals simp only [Except.ok.injEq, Prod.mk.injEq] at h; obtain ⟨rfl, rfl⟩ := h
        · exact .storePutPanic c _ hw (by assumption) hwr
        · exact .storePutTtl c _ _ hw (by assumption) hwr
  | ttlPut c e =>
    simp only [workerAct, hw] at h
    split at h
    · cases h
    · rename_i hfree
      simp only [Bool.not_eq_true, Bool.not_eq_false'] at hfree
      simp only [Except.ok.injEq, Prod.mk.injEq] at h; obtain ⟨rfl, rfl⟩ := h
      exact .ttlPut c e hw hfree
  | update id w hh =>
    simp only [workerAct, hw] at h
    split at h
    · cases h
    · rename_i hfree
      simp only [Bool.not_eq_true, Bool.not_eq_false'] at hfree
      unfold workerUpdateWeight at h
      cases hg : b.g.adm.kw.get? id with
      | none =>
        simp only [hg, Except.ok.injEq, Prod.mk.injEq] at h; obtain ⟨rfl, rfl⟩ := h
        exact .updateAbsent id w hh hw hfree hg
      | some wk =>
        by_cases hc : (!inI64 (w - wk.weight) || !inI64 (b.g.adm.used + (w - wk.weight))) = true
        · simp only [hg, hc, if_true, Except.ok.injEq, Prod.mk.injEq] at h; obtain ⟨rfl, rfl⟩ := h
          exact .updatePanic id w hh hw hfree
        · simp only [hg, hc] at h; obtain ⟨rfl, rfl⟩ := h
          exact .updateApplied id w hh wk hw hfree hg
  | delStore k hh =>
    simp only [workerAct, hw] at h
    split at h
    · cases h
    · rename_i hwr
      simp only [Bool.not_eq_true, Bool.not_eq_false'] at hwr
      split at h
      all_goals simp only [Except.ok.injEq, Prod.mk.injEq] at h; obtain ⟨rfl, rfl⟩ := h
      · exact .delStoreNone k hh hw hwr
      · exact .delStoreSome k hh _ hw (by assumption) hwr
  | delKw id exp hh =>
    simp only [workerAct, hw] at h
    split at h
    · simp only [Except.ok.injEq, Prod.mk.injEq] at h; obtain ⟨rfl, rfl⟩ := h
      exact .delKwSome id exp hh _ hw (by assumption)
    · split at h
      all_goals simp only [Except.ok.injEq, Prod.mk.injEq] at h; obtain ⟨rfl, rfl⟩ := h
      · exact .delKwNoneTtl id _ hh hw
      · exact .delKwNoneDone id hh hw
  | delSub id wk exp hh =>
    simp only [workerAct, hw] at h
    split at h
    · cases h
    · rename_i hfree
      simp only [Bool.not_eq_true, Bool.not_eq_false'] at hfree
      split at h
      all_goals simp only [Except.ok.injEq, Prod.mk.injEq] at h; obtain ⟨rfl, rfl⟩ := h
      · exact .delSubTtl id wk _ hh hw hfree
      · exact .delSubDone id wk hh hw hfree
  | delTtl id e hh =>
    simp only [workerAct, hw] at h
    split at h
    · cases h
    · rename_i hfree
      simp only [Bool.not_eq_true, Bool.not_eq_false'] at hfree
      simp only [Except.ok.injEq, Prod.mk.injEq] at h; obtain ⟨rfl, rfl⟩ := h
      exact .delTtl id e hh hw hfree



/-- One action of the sweeper, as a relation. -/
inductive STrans (b : BState) : BState → Prop where
  | begin : b.g.sweeperAlive = true → b.sw = .begin →
      STrans b (sweepNext { b with ttlOwner := some (secsOf b.g.now % b.g.cfg.shards) } b.g.now (secsOf b.g.now % b.g.cfg.shards) ((b.g.ttl.filter (fun p => p.1.1 == secsOf b.g.now % b.g.cfg.shards)).map (fun p => (p.1.2, p.2))))
  | entryExpired (now shard rest id p) : rest.find? (fun p => p.1 == id) = some p → b.sw = .entry now shard rest →
      STrans b { b with g := { b.g with ttl := b.g.ttl.del (shard, id) }, sw := .kwRemove now shard (rest.filter (fun p => p.1 != id)) id }
  | entryKeep (now shard rest id p) : rest.find? (fun p => p.1 == id) = some p → b.sw = .entry now shard rest →
      STrans b (sweepNext b now shard (rest.filter (fun p => p.1 != id)))
  | kwRemoveSome (now shard rest id wk) : b.g.adm.kw.get? id = some wk → b.sw = .kwRemove now shard rest id →
      unexpiredWithId b.g wk.key id = false →
      STrans b { b with g := { b.g with adm := { b.g.adm with kw := b.g.adm.kw.del id } }, sw := .sub now shard rest id wk }
  /-- the branch of fix 36c87dc: the key id is charged, but the value stored under its key (same id) has not itself
      expired — the sweeper leaves it and moves on; nothing changes but its position -/
  | kwRemoveSkip (now shard rest id wk) : b.g.adm.kw.get? id = some wk → b.sw = .kwRemove now shard rest id →
      unexpiredWithId b.g wk.key id = true →
      STrans b (sweepNext b now shard rest)
  | kwRemoveNone (now shard rest id) : b.g.adm.kw.get? id = none → b.sw = .kwRemove now shard rest id →
      STrans b (sweepNext b now shard rest)
  | sub (now shard rest id wk) : wuFree b .sweeper = true → b.sw = .sub now shard rest id wk →
      STrans b { b with g := { b.g with adm := { b.g.adm with used := b.g.adm.used - wk.weight } }, wuOwner := some .sweeper, sw := .store now shard rest id wk }
  | store (now shard rest id wk) : b.sw = .store now shard rest id wk → storeWritable b wk.key none = true →
      STrans b (sweepNext { b with g := applyEvictId b.g (id, wk.key, wk.weight), wuOwner := none } now shard rest)
  | fin : b.sw = .fin → STrans b { b with sw := .begin, g := { b.g with sweeperAlive := b.g.sweeperKeep } }

theorem sweeperAct_trans {b b' : BState} {v : Option Nat} (h : sweeperAct b v = .ok b') : STrans b b' := by
  cases hs : b.sw with
  | begin =>
    simp only [sweeperAct, hs] at h
    split at h
    · cases h
    · rename_i ha
      simp only [Bool.not_eq_true, Bool.not_eq_false'] at ha
      simp only [Except.ok.injEq] at h; subst h
      exact .begin ha hs
  | entry now shard rest =>
    simp only [sweeperAct, hs] at h
    split at h
    · cases h
    · split at h
      · cases h
      · split at h
        all_goals simp only [Except.ok.injEq] at h; subst h
        · exact .entryExpired now shard rest _ _ (by assumption) hs
        · exact .entryKeep now shard rest _ _ (by assumption) hs
  | kwRemove now shard rest id =>
    simp only [sweeperAct, hs] at h
    split at h
    · split at h
      all_goals simp only [Except.ok.injEq] at h; subst h
      · exact .kwRemoveSkip now shard rest id _ (by assumption) hs (by assumption)
      · rename_i hu
        exact .kwRemoveSome now shard rest id _ (by assumption) hs (by simpa using hu)
    · simp only [Except.ok.injEq] at h; subst h
      exact .kwRemoveNone now shard rest id (by assumption) hs
  | sub now shard rest id wk =>
    simp only [sweeperAct, hs] at h
    split at h
    · cases h
    · rename_i ha
      simp only [Bool.not_eq_true, Bool.not_eq_false'] at ha
      simp only [Except.ok.injEq] at h; subst h
      exact .sub now shard rest id wk ha hs
  | store now shard rest id wk =>
    simp only [sweeperAct, hs] at h
    split at h
    · cases h
    · rename_i hwr
      simp only [Bool.not_eq_true, Bool.not_eq_false'] at hwr
      simp only [Except.ok.injEq] at h; subst h
      exact .store now shard rest id wk hs hwr
  | fin =>
    simp only [sweeperAct, hs, Except.ok.injEq] at h; subst h
    exact .fin hs

/-- client positions reached from `start` that carry nothing the invariant talks about -/
def CPc.plain : CPc → Prop
  | .delMark _ | .getStore _ | .weightRead | .upUpdate _ _ _ _ _ | .refStore _ | .shutCas
  | .mgetStore _ _ _ _ | .mgetFlag _ _ _ _ => True
  | _ => False

/-- the ways the tail of `put_or_update` can end -/
theorem upAfterIndex_spec (b : BState) (i id : Nat) (uw : Option Int) :
    (∃ out, upAfterIndex b i id uw = finishCall b i out) ∨
    (∃ w, 0 < w ∧ upAfterIndex b i id uw = setClient b i (.send (.updateWeight id w))) ∨
    upAfterIndex b i id uw = spotFinish b i .accepted := by
  unfold upAfterIndex
  split
  · split
    · exact Or.inl ⟨_, rfl⟩
    · split
      · exact Or.inl ⟨_, rfl⟩
      · rename_i w _ hw
        exact Or.inr (Or.inl ⟨w, by omega, rfl⟩)
  · exact Or.inr (Or.inr rfl)

/-- the client holds a store read guard -/
def CPc.isRefPool : CPc → Bool
  | .refPool _ _ => true
  | _ => false

/-- `Pool::add` touches the pool, the buffer queue and the statistics only. -/
theorem poolAdd_frame {g g1 : State} {h : Nat} {o o' : Oracle} (hp : poolAdd g h o = .ok (g1, o')) :
    g1 = { g with pool := g1.pool, bufq := g1.bufq, stats := g1.stats } := by
  unfold poolAdd at hp
  split at hp
  · cases hp
  · split at hp
    · cases hp
    · simp only [] at hp
      split at hp
      · simp only [Except.ok.injEq, Prod.mk.injEq] at hp
        obtain ⟨rfl, _⟩ := hp
        unfold acceptBuffer
        split <;> rfl
      · simp only [Except.ok.injEq, Prod.mk.injEq] at hp
        obtain ⟨rfl, _⟩ := hp
        rfl

/-- the client stands inside a multi-key read (`multi_get` or one of the iterators) -/
def CPc.isMget : CPc → Bool
  | .mgetStore _ _ _ _ | .mgetPool _ _ _ _ _ | .mgetFlag _ _ _ _ => true
  | _ => false

/-- the ways a multi-key read moves on after a key: the call returns (no key left), or it stands before the next load
    of the shutdown flag (`next()`'s own load for the iterators, the load inside `get` for `multi_get`) with the results
    gathered so far; the shared state is not looked at -/
theorem mgetNext_spec (b : BState) (i : Nat) (ks : List Nat) (acc : List (Option Nat)) (iter : Bool) :
    (ks = [] ∧ mgetNext b i ks acc iter = finishCall b i (.values acc)) ∨
    (∃ k rest, ks = k :: rest ∧
      mgetNext b i ks acc iter = setClient b i (.mgetFlag iter (k :: rest) acc iter)) := by
  unfold mgetNext
  split
  · exact Or.inl ⟨rfl, rfl⟩
  · exact Or.inr ⟨_, _, rfl, rfl⟩

/-- the first step of a multi-key read: an iterator over no keys returns at once, everything else stands before the
    outer flag load; the shared state is not looked at -/
theorem mgetStart_spec (b : BState) (i : Nat) (ks : List Nat) (iter : Bool) :
    (iter = true ∧ ks = [] ∧ mgetStart b i ks iter = finishCall b i (.values [])) ∨
    ((iter = false ∨ ks ≠ []) ∧ mgetStart b i ks iter = setClient b i (.mgetFlag true ks [] iter)) := by
  unfold mgetStart
  cases iter <;> cases ks <;> simp

/-- the ways a flag load of a multi-key read ends: the call returns with what it has (outer load with the flag set; or
    no key at all), the read stands before the load inside `get` (outer load, flag clear), this key is answered `none`
    without a lookup and the read moves on (`get`'s load with the flag set), or the read stands at the lookup
    (`get`'s load, flag clear) -/
theorem mgetFlagAct_spec (b : BState) (i : Nat) (outer : Bool) (ks : List Nat) (acc : List (Option Nat)) (iter : Bool) :
    ((ks = [] ∨ (outer = true ∧ b.g.shutting = true)) ∧ mgetFlagAct b i outer ks acc iter = finishCall b i (.values acc)) ∨
    (∃ k rest, ks = k :: rest ∧ outer = true ∧ b.g.shutting = false ∧
      mgetFlagAct b i outer ks acc iter = setClient b i (.mgetFlag false (k :: rest) acc iter)) ∨
    (∃ k rest, ks = k :: rest ∧ outer = false ∧ b.g.shutting = true ∧
      mgetFlagAct b i outer ks acc iter = mgetNext b i rest (acc ++ [none]) iter) ∨
    (∃ k rest, ks = k :: rest ∧ outer = false ∧ b.g.shutting = false ∧
      mgetFlagAct b i outer ks acc iter = setClient b i (.mgetStore k rest acc iter)) := by
  unfold mgetFlagAct
  cases ks with
  | nil => exact Or.inl ⟨Or.inl rfl, rfl⟩
  | cons k rest =>
    cases outer <;> cases hs : b.g.shutting
    · exact Or.inr (Or.inr (Or.inr ⟨k, rest, rfl, rfl, rfl, by simp⟩))
    · exact Or.inr (Or.inr (Or.inl ⟨k, rest, rfl, rfl, rfl, by simp⟩))
    · exact Or.inr (Or.inl ⟨k, rest, rfl, rfl, rfl, by simp⟩)
    · exact Or.inl ⟨Or.inr ⟨rfl, rfl⟩, by simp⟩

/-- One action of client `i`, as a relation. -/
inductive CTrans (b : BState) (i : Nat) : BState → Prop where
  | finish (pc out) : b.cl[i]? = some pc → pc.isRefPool = false → CTrans b i (finishCall b i out)
  | finishStats (pc out st) : b.cl[i]? = some pc → pc.isRefPool = false →
      CTrans b i (finishCall { b with g := { b.g with stats := st } } i out)
  | spot (pc st) : b.cl[i]? = some pc → pc.isRefPool = false → CTrans b i (spotFinish b i st)
  | startPut (k v w ttl) : b.cl[i]? = some (.start (.putW k v w ttl)) → 0 < w → CTrans b i (setClient b i (.putPresent k v w ttl))
  | startPlain (r pc') : b.cl[i]? = some (.start r) → pc'.plain → CTrans b i (setClient b i pc')
  | putPresentOk (k v w ttl) : b.cl[i]? = some (.putPresent k v w ttl) → CTrans b i (setClient b i (.idNext k v w ttl))
  | idNext (k v w ttl) : b.cl[i]? = some (.idNext k v w ttl) →
      CTrans b i (setClient { b with g := { b.g with nextId := b.g.nextId + 1 } } i (.send (match ttl with | some t => Cmd.putTtl b.g.nextId (b.g.cfg.hashOf k) w k v t | none => Cmd.put b.g.nextId (b.g.cfg.hashOf k) w k v)))
  | sendOk (cmd) : b.cl[i]? = some (.send cmd) →
      CTrans b i (finishCall { b with g := { b.g with queue := b.g.queue ++ [(cmd, some b.g.acks.length)], acks := b.g.acks ++ [.pending] } } i (.ack b.g.acks.length .pending))
  | delMark (k) : b.cl[i]? = some (.delMark k) → storeWritable b k (some i) = true →
      CTrans b i (setClient { b with g := { b.g with store := match b.g.store.get? k with | some e => b.g.store.set k { e with soft := true } | none => b.g.store } } i (.send (.delete k)))
  | getHit (k e) : b.cl[i]? = some (.getStore k) → b.g.store.get? k = some e → e.alive b.g.now = true →
      CTrans b i (setClient { b with g := { b.g with stats := { b.g.stats with hits := b.g.stats.hits + 1 } } } i (.getPool k e.value))
  | getPool (k v g1 o o') : b.cl[i]? = some (.getPool k v) → poolAdd b.g (b.g.cfg.hashOf k) o = .ok (g1, o') →
      CTrans b i (finishCall { b with g := g1 } i (.value (some v)))
  | upPut (k v w ttl rm val weight) : b.cl[i]? = some (.upUpdate k v w ttl rm) → 0 < weight →
      storeWritable b k (some i) = true → CTrans b i (setClient b i (.idNext k val weight ttl))
  | upUpdate (k v w ttl rm e newExpiry uw) : b.cl[i]? = some (.upUpdate k v w ttl rm) → b.g.store.get? k = some e →
      storeWritable b k (some i) = true → CTrans b i (setClient { b with g := { b.g with store := b.g.store.set k { e with expiry := newExpiry, value := v.getD e.value } } } i (.upWeightOf e.id uw e.expiry newExpiry))
  | upWeightOfTtl (id uw old new pc') : b.cl[i]? = some (.upWeightOf id uw old new) →
      pc'.usedId? = some id → pc'.freshId? = none → pc'.pos → CTrans b i (setClient b i pc')
  | upAfterSame (id uw old new) : b.cl[i]? = some (.upWeightOf id uw old new) → CTrans b i (upAfterIndex b i id uw)
  | upAfterPut (pc id e uw) : b.cl[i]? = some pc → pc.usedId? = some id → ttlFree b (shardOf b.g.cfg e) = true →
      CTrans b i (upAfterIndex { b with g := ttlPut b.g id e } i id uw)
  | upAfterDelete (id e uw) : b.cl[i]? = some (.upTtlDelete id e uw) → ttlFree b (shardOf b.g.cfg e) = true →
      CTrans b i (upAfterIndex { b with g := ttlDelete b.g id e } i id uw)
  | upTtlRemove (id old new uw) : b.cl[i]? = some (.upTtlRemove id old new uw) → ttlFree b (shardOf b.g.cfg old) = true →
      CTrans b i (setClient { b with g := ttlDelete b.g id old } i (.upTtlInsert id new uw))
  | refHit (k e) : b.cl[i]? = some (.refStore k) → b.g.store.get? k = some e → e.alive b.g.now = true →
      CTrans b i (setClient { b with g := { b.g with stats := { b.g.stats with hits := b.g.stats.hits + 1 } }, storeReaders := (i, storeShardOf b k) :: b.storeReaders } i (.refPool k e.value))
  | refPool (k v g1 o o') : b.cl[i]? = some (.refPool k v) → poolAdd b.g (b.g.cfg.hashOf k) o = .ok (g1, o') →
      CTrans b i (finishCall { b with g := g1, storeReaders := b.storeReaders.filter (fun p => p.1 != i) } i (.value (some v)))
  | shutCas : b.cl[i]? = some .shutCas → b.g.shutting = false →
      CTrans b i (setClient { b with g := { b.g with shutting := true } } i .shutSendCmd)
  | shutSendCmd : b.cl[i]? = some .shutSendCmd → b.g.queue.length < b.g.cfg.cmdCap →
      CTrans b i (setClient { b with g := { b.g with queue := b.g.queue ++ [(.shutdown, none)] } } i .shutSendBuf)
  /-- the steps of `shutdown()` that touch only the buffer queue, the two keep-running flags, the sketch or the
      statistics: `cmd.send` to a dead worker, `buf.send_shutdown`, `consumer_flag`, `ticker_flag`, `af_clear`,
      `stats_clear` -/
  | shutLocal (pc pc' g') : b.cl[i]? = some pc → pc.afterCas = true → pc'.afterCas = true →
      g' = { b.g with bufq := g'.bufq, consumerKeep := g'.consumerKeep, sweeperKeep := g'.sweeperKeep, lfu := g'.lfu, stats := g'.stats } →
      CTrans b i (setClient { b with g := g' } i pc')
  | shutStoreClear : b.cl[i]? = some .shutStoreClear → b.storeReaders.any (fun p => p.1 != i) = false →
      CTrans b i (setClient { b with g := { b.g with store := [] } } i .shutKwClear)
  | shutKwClear : b.cl[i]? = some .shutKwClear →
      CTrans b i (setClient { b with g := { b.g with adm := { b.g.adm with kw := [] } } } i .shutWuZero)
  | shutWuZero : b.cl[i]? = some .shutWuZero → wuFree b (.client i) = true →
      CTrans b i (setClient { b with g := { b.g with adm := { b.g.adm with used := 0 } } } i .shutAfClear)
  | shutTtlClear : b.cl[i]? = some .shutTtlClear → b.ttlOwner = none →
      CTrans b i (finishCall { b with g := { b.g with ttl := [] } } i .none)
  /-- a multi-key read goes on: `store.get` of a key hits (→ `pool.add`) or misses (→ next key), or `pool.add` is done
      (→ next key); only the statistics, the pool and the buffer queue are touched -/
  | mgetStep (pc pc' g') : b.cl[i]? = some pc → pc.isMget = true → pc'.isMget = true →
      g' = { b.g with pool := g'.pool, bufq := g'.bufq, stats := g'.stats } →
      CTrans b i (setClient { b with g := g' } i pc')
  /-- a multi-key read returns after the `store.get` miss or the `pool.add` of its last key (or with the flag set) -/
  | mgetFin (pc g' out) : b.cl[i]? = some pc → pc.isMget = true →
      g' = { b.g with pool := g'.pool, bufq := g'.bufq, stats := g'.stats } →
      CTrans b i (finishCall { b with g := g' } i out)

/-- moving on to the next key of a multi-key read (or returning) is a client transition -/
theorem mgetNext_ctrans {b : BState} {i : Nat} {pc : CPc} {g' : State} {ks : List Nat} {acc : List (Option Nat)}
    {iter : Bool} (hpc : b.cl[i]? = some pc) (hm : pc.isMget = true)
    (hg : g' = { b.g with pool := g'.pool, bufq := g'.bufq, stats := g'.stats }) :
    CTrans b i (mgetNext { b with g := g' } i ks acc iter) := by
  rcases mgetNext_spec { b with g := g' } i ks acc iter with ⟨_, e⟩ | ⟨k, rest, _, e⟩ <;> rw [e]
  · exact .mgetFin _ _ _ hpc hm hg
  · exact .mgetStep _ _ _ hpc hm rfl hg

theorem clientAct_trans {b b' : BState} {i : Nat} {o o' : Oracle} (h : clientAct b i o = .ok (b', o')) :
    CTrans b i b' := by
  unfold clientAct at h
  simp only [] at h
  split at h
  · cases h
  · rename_i pc hpc
    cases pc with
    | idle => cases h
    | start r =>
      simp only [] at h
      split at h
      · cases r <;> simp only [Except.ok.injEq, Prod.mk.injEq] at h <;> obtain ⟨rfl, rfl⟩ := h
        · exact .finish _ _ hpc rfl
        · exact .finish _ _ hpc rfl
        · exact .finish _ _ hpc rfl
        · exact .startPlain _ _ hpc trivial
        · exact .finish _ _ hpc rfl
        · exact .finish _ _ hpc rfl
        · exact .startPlain _ _ hpc trivial
        · rename_i ks iter
          rcases mgetStart_spec b i ks iter with ⟨_, _, e⟩ | ⟨_, e⟩ <;> rw [e]
          · exact .finish _ _ hpc rfl
          · exact .startPlain _ _ hpc trivial
      · cases r <;> simp only [] at h
        · split at h
          all_goals simp only [Except.ok.injEq, Prod.mk.injEq] at h; obtain ⟨rfl, rfl⟩ := h
          · exact .finish _ _ hpc rfl
          · exact .startPut _ _ _ _ hpc (by omega)
        all_goals simp only [Except.ok.injEq, Prod.mk.injEq] at h; obtain ⟨rfl, rfl⟩ := h
        case mget ks iter =>
          rcases mgetStart_spec b i ks iter with ⟨_, _, e⟩ | ⟨_, e⟩ <;> rw [e]
          · exact .finish _ _ hpc rfl
          · exact .startPlain _ _ hpc trivial
        all_goals exact .startPlain _ _ hpc trivial
    | putPresent k v w ttl =>
      simp only [] at h
      split at h
      all_goals simp only [Except.ok.injEq, Prod.mk.injEq] at h; obtain ⟨rfl, rfl⟩ := h
      · exact .spot _ _ hpc rfl
      · exact .putPresentOk _ _ _ _ hpc
    | idNext k v w ttl =>
      simp only [Except.ok.injEq, Prod.mk.injEq] at h; obtain ⟨rfl, rfl⟩ := h
      exact .idNext _ _ _ _ hpc
    | send cmd =>
      simp only [] at h
      split at h
      · rename_i b1 hs
        simp only [Except.ok.injEq, Prod.mk.injEq] at h; obtain ⟨rfl, rfl⟩ := h
        unfold sendAct at hs
        simp only [] at hs
        split at hs
        · simp only [Except.ok.injEq] at hs; subst hs
          exact .finish _ _ hpc rfl
        · split at hs
          · cases hs
          · simp only [Except.ok.injEq] at hs; subst hs
            exact .sendOk _ hpc
      · cases h
    | delMark k =>
      simp only [] at h
      split at h
      · cases h
      · rename_i hwr
        simp only [Bool.not_eq_true, Bool.not_eq_false'] at hwr
        simp only [Except.ok.injEq, Prod.mk.injEq] at h; obtain ⟨rfl, rfl⟩ := h
        exact .delMark _ hpc hwr
    | getStore k =>
      simp only [] at h
      split at h
      · split at h
        all_goals simp only [Except.ok.injEq, Prod.mk.injEq] at h; obtain ⟨rfl, rfl⟩ := h
        · exact .getHit _ _ hpc (by assumption) (by assumption)
        · exact .finishStats _ _ _ hpc rfl
      · simp only [Except.ok.injEq, Prod.mk.injEq] at h; obtain ⟨rfl, rfl⟩ := h
        exact .finishStats _ _ _ hpc rfl
    | getPool k v =>
      simp only [] at h
      split at h
      · simp only [Except.ok.injEq, Prod.mk.injEq] at h; obtain ⟨rfl, rfl⟩ := h
        exact .getPool _ _ _ _ _ hpc (by assumption)
      · cases h
    | weightRead =>
      simp only [] at h
      split at h
      · cases h
      · simp only [Except.ok.injEq, Prod.mk.injEq] at h; obtain ⟨rfl, rfl⟩ := h
        exact .finish _ _ hpc rfl
    | upUpdate k v w ttl rm =>
      simp only [] at h
      split at h
      · cases h
      · rename_i hwr
        simp only [Bool.not_eq_true, Bool.not_eq_false'] at hwr
        split at h
        · split at h
          · split at h
            all_goals simp only [Except.ok.injEq, Prod.mk.injEq] at h; obtain ⟨rfl, rfl⟩ := h
            · exact .finish _ _ hpc rfl
            · exact .upPut _ _ _ _ _ _ _ hpc (by omega) hwr
          · simp only [Except.ok.injEq, Prod.mk.injEq] at h; obtain ⟨rfl, rfl⟩ := h
            exact .finish _ _ hpc rfl
        · split at h
          all_goals simp only [Except.ok.injEq, Prod.mk.injEq] at h; obtain ⟨rfl, rfl⟩ := h
          · exact .finish _ _ hpc rfl
          · exact .upUpdate _ _ _ _ _ _ _ _ hpc (by assumption) hwr
    | upWeightOf id uw old new =>
      simp only [] at h
      split at h
      all_goals simp only [Except.ok.injEq, Prod.mk.injEq] at h; obtain ⟨rfl, rfl⟩ := h
      · exact .upWeightOfTtl _ _ _ _ _ hpc rfl rfl trivial
      · exact .upWeightOfTtl _ _ _ _ _ hpc rfl rfl trivial
      · exact .upWeightOfTtl _ _ _ _ _ hpc rfl rfl trivial
      · exact .upAfterSame _ _ _ _ hpc
    | upTtlPut id e uw =>
      simp only [] at h
      split at h
      · cases h
      · rename_i ha
        simp only [Bool.not_eq_true, Bool.not_eq_false'] at ha
        simp only [Except.ok.injEq, Prod.mk.injEq] at h; obtain ⟨rfl, rfl⟩ := h
        exact .upAfterPut _ _ _ _ hpc rfl ha
    | upTtlDelete id e uw =>
      simp only [] at h
      split at h
      · cases h
      · rename_i ha
        simp only [Bool.not_eq_true, Bool.not_eq_false'] at ha
        simp only [Except.ok.injEq, Prod.mk.injEq] at h; obtain ⟨rfl, rfl⟩ := h
        exact .upAfterDelete _ _ _ hpc ha
    | upTtlRemove id old new uw =>
      simp only [] at h
      split at h
      · cases h
      · rename_i ha
        simp only [Bool.not_eq_true, Bool.not_eq_false'] at ha
        simp only [Except.ok.injEq, Prod.mk.injEq] at h; obtain ⟨rfl, rfl⟩ := h
        exact .upTtlRemove _ _ _ _ hpc ha
    | upTtlInsert id new uw =>
      simp only [] at h
      split at h
      · cases h
      · rename_i ha
        simp only [Bool.not_eq_true, Bool.not_eq_false'] at ha
        simp only [Except.ok.injEq, Prod.mk.injEq] at h; obtain ⟨rfl, rfl⟩ := h
        exact .upAfterPut _ _ _ _ hpc rfl ha
    | refStore k =>
      simp only [] at h
      split at h
      · split at h
        all_goals simp only [Except.ok.injEq, Prod.mk.injEq] at h; obtain ⟨rfl, rfl⟩ := h
        · exact .refHit _ _ hpc (by assumption) (by assumption)
        · exact .finishStats _ _ _ hpc rfl
      · simp only [Except.ok.injEq, Prod.mk.injEq] at h; obtain ⟨rfl, rfl⟩ := h
        exact .finishStats _ _ _ hpc rfl
    | refPool k v =>
      simp only [] at h
      split at h
      · simp only [Except.ok.injEq, Prod.mk.injEq] at h; obtain ⟨rfl, rfl⟩ := h
        exact .refPool _ _ _ _ _ hpc (by assumption)
      · cases h
    | shutCas =>
      simp only [] at h
      split at h
      all_goals simp only [Except.ok.injEq, Prod.mk.injEq] at h; obtain ⟨rfl, rfl⟩ := h
      · exact .finish _ _ hpc rfl
      · rename_i hsh
        exact .shutCas hpc (by simpa using hsh)
    | shutSendCmd =>
      simp only [] at h
      split at h
      · simp only [Except.ok.injEq, Prod.mk.injEq] at h; obtain ⟨rfl, rfl⟩ := h
        exact .shutLocal _ _ _ hpc rfl rfl rfl
      · split at h
        · cases h
        · rename_i hq
          simp only [Except.ok.injEq, Prod.mk.injEq] at h; obtain ⟨rfl, rfl⟩ := h
          exact .shutSendCmd hpc (by omega)
    | shutSendBuf =>
      simp only [] at h
      split at h
      · simp only [Except.ok.injEq, Prod.mk.injEq] at h; obtain ⟨rfl, rfl⟩ := h
        exact .shutLocal _ _ _ hpc rfl rfl rfl
      · split at h
        · cases h
        · simp only [Except.ok.injEq, Prod.mk.injEq] at h; obtain ⟨rfl, rfl⟩ := h
          exact .shutLocal _ _ _ hpc rfl rfl rfl
    | shutConsumerFlag =>
      simp only [Except.ok.injEq, Prod.mk.injEq] at h; obtain ⟨rfl, rfl⟩ := h
      exact .shutLocal _ _ _ hpc rfl rfl rfl
    | shutTickerFlag =>
      simp only [Except.ok.injEq, Prod.mk.injEq] at h; obtain ⟨rfl, rfl⟩ := h
      exact .shutLocal _ _ _ hpc rfl rfl rfl
    | shutStoreClear =>
      simp only [] at h
      split at h
      · cases h
      · rename_i hr
        simp only [Except.ok.injEq, Prod.mk.injEq] at h; obtain ⟨rfl, rfl⟩ := h
        exact .shutStoreClear hpc (by simpa using hr)
    | shutKwClear =>
      simp only [Except.ok.injEq, Prod.mk.injEq] at h; obtain ⟨rfl, rfl⟩ := h
      exact .shutKwClear hpc
    | shutWuZero =>
      simp only [] at h
      split at h
      · cases h
      · rename_i ha
        simp only [Bool.not_eq_true, Bool.not_eq_false'] at ha
        simp only [Except.ok.injEq, Prod.mk.injEq] at h; obtain ⟨rfl, rfl⟩ := h
        exact .shutWuZero hpc ha
    | shutAfClear =>
      simp only [Except.ok.injEq, Prod.mk.injEq] at h; obtain ⟨rfl, rfl⟩ := h
      exact .shutLocal _ _ _ hpc rfl rfl rfl
    | shutStatsClear =>
      simp only [Except.ok.injEq, Prod.mk.injEq] at h; obtain ⟨rfl, rfl⟩ := h
      exact .shutLocal _ _ _ hpc rfl rfl rfl
    | shutTtlClear =>
      simp only [] at h
      split at h
      · cases h
      · rename_i ha
        simp only [Except.ok.injEq, Prod.mk.injEq] at h; obtain ⟨rfl, rfl⟩ := h
        exact .shutTtlClear hpc (by simpa using ha)
    | mgetStore k ks acc iter =>
      simp only [] at h
      split at h
      · split at h
        all_goals simp only [Except.ok.injEq, Prod.mk.injEq] at h; obtain ⟨rfl, rfl⟩ := h
        · exact .mgetStep _ _ _ hpc rfl rfl rfl
        · exact mgetNext_ctrans hpc rfl rfl
      · simp only [Except.ok.injEq, Prod.mk.injEq] at h; obtain ⟨rfl, rfl⟩ := h
        exact mgetNext_ctrans hpc rfl rfl
    | mgetPool k v ks acc iter =>
      simp only [] at h
      split at h
      · rename_i g1 o1 hp
        simp only [Except.ok.injEq, Prod.mk.injEq] at h; obtain ⟨rfl, rfl⟩ := h
        exact mgetNext_ctrans hpc rfl (poolAdd_frame hp)
      · cases h
    | mgetFlag outer ks acc iter =>
      simp only [Except.ok.injEq, Prod.mk.injEq] at h; obtain ⟨rfl, rfl⟩ := h
      rcases mgetFlagAct_spec b i outer ks acc iter with ⟨_, e⟩ | ⟨k, rest, _, _, _, e⟩ | ⟨k, rest, _, _, _, e⟩ |
        ⟨k, rest, _, _, _, e⟩ <;> rw [e]
      · exact .mgetFin _ b.g _ hpc rfl rfl
      · exact .mgetStep _ _ b.g hpc rfl rfl rfl
      · exact mgetNext_ctrans (g' := b.g) hpc rfl rfl
      · exact .mgetStep _ _ b.g hpc rfl rfl rfl

/-! ## 3  frame facts -/

@[simp] theorem applyEvict_adm (g : State) (e : Evicted) : (applyEvict g e).adm = g.adm := by
  obtain ⟨i, k, w⟩ := e; simp only [applyEvict]; split <;> rfl
@[simp] theorem applyEvict_cfg (g : State) (e : Evicted) : (applyEvict g e).cfg = g.cfg := by
  obtain ⟨i, k, w⟩ := e; simp only [applyEvict]; split <;> rfl
@[simp] theorem applyEvict_queue (g : State) (e : Evicted) : (applyEvict g e).queue = g.queue := by
  obtain ⟨i, k, w⟩ := e; simp only [applyEvict]; split <;> rfl
@[simp] theorem applyEvict_nextId (g : State) (e : Evicted) : (applyEvict g e).nextId = g.nextId := by
  obtain ⟨i, k, w⟩ := e; simp only [applyEvict]; split <;> rfl
@[simp] theorem applyEvict_ttl (g : State) (e : Evicted) : (applyEvict g e).ttl = g.ttl := by
  obtain ⟨i, k, w⟩ := e; simp only [applyEvict]; split <;> rfl
@[simp] theorem applyEvict_now (g : State) (e : Evicted) : (applyEvict g e).now = g.now := by
  obtain ⟨i, k, w⟩ := e; simp only [applyEvict]; split <;> rfl
@[simp] theorem applyEvict_shutting (g : State) (e : Evicted) : (applyEvict g e).shutting = g.shutting := by
  obtain ⟨i, k, w⟩ := e; simp only [applyEvict]; split <;> rfl
theorem applyEvict_store (g : State) (e : Evicted) : (applyEvict g e).store = g.store.del e.2.1 := by
  obtain ⟨i, k, w⟩ := e
  simp only [applyEvict]
  split
  · rfl
  · rename_i h
    have h' : g.store.get? k = none := by simpa [AMap.contains] using h
    simp [AMap.del_of_get?_none h']

/-- The access consumer touches the buffer queue, the sketch and its own liveness flag only. -/
theorem consumerStep_frame {g g1 : State} {o o' : Oracle} {out : Out} (hc : consumerStep g o = .ok (g1, out, o')) :
    g1 = { g with bufq := g1.bufq, lfu := g1.lfu, consumerAlive := g1.consumerAlive } := by
  unfold consumerStep at hc
  split at hc
  · cases hc
  · split at hc
    · cases hc
    · simp only [Except.ok.injEq, Prod.mk.injEq] at hc
      obtain ⟨rfl, _⟩ := hc
      rfl
    · split at hc
      · cases hc
      · split at hc
        all_goals simp only [Except.ok.injEq, Prod.mk.injEq] at hc
        all_goals obtain ⟨rfl, _⟩ := hc
        all_goals rfl

/-! ## 4  the locks -/

def WPc.isEvStore : WPc → Bool
  | .evStore _ _ _ _ _ => true
  | _ => false

def SPc.isStore : SPc → Bool
  | .store _ _ _ _ _ => true
  | _ => false

/-- who owns `weight_used` across a schedule point, as a function of where worker and sweeper stand -/
def lockOf (w : WPc) (sw : SPc) : Option Tid :=
  if w.isEvStore then some .worker else if sw.isStore then some .sweeper else none

/-- the sweeper never stands at `sweep.entry` with nothing left to visit -/
def SPc.entryOk : SPc → Prop
  | .entry _ _ rest => rest ≠ []
  | _ => True

/-- the lock part of the invariant, in functional form -/
structure LockF (b : BState) : Prop where
  wu : b.wuOwner = lockOf b.w b.sw
  ttl : b.ttlOwner = b.sw.shard?
  excl : b.w.isEvStore = true → b.sw.isStore = false
  entry : b.sw.entryOk

theorem lockF_wtrans {b b' : BState} (hi : LockF b) (h : WTrans b b') : LockF b' := by
  obtain ⟨h1, h2, h3, h4⟩ := hi
  cases h
  all_goals constructor
  all_goals simp [finishCmd, rejectCmd, wuFree, lockOf, WPc.isEvStore, *] at *
  all_goals assumption

theorem lockF_strans {b b' : BState} (hi : LockF b) (h : STrans b b') : LockF b' := by
  obtain ⟨h1, h2, h3, h4⟩ := hi
  cases h
  all_goals (try unfold sweepNext)
  all_goals (try split)
  all_goals constructor
  all_goals simp [wuFree, lockOf, SPc.isStore, SPc.shard?, SPc.entryOk, *] at *
  all_goals assumption

/-- a client action moves that client and touches neither the other threads' positions, the locks, the weight limit,
    the configuration nor the map of keys to store shards -/
theorem ctrans_frame {b b' : BState} {i : Nat} (h : CTrans b i b') :
    b'.w = b.w ∧ b'.sw = b.sw ∧ b'.wuOwner = b.wuOwner ∧ b'.ttlOwner = b.ttlOwner ∧ b'.g.adm.max = b.g.adm.max ∧
    b'.g.cfg = b.g.cfg ∧ b'.storeShard = b.storeShard := by
  cases h
  case getPool hp => rw [poolAdd_frame hp]; simp [finishCall]
  case refPool hp => rw [poolAdd_frame hp]; simp [finishCall]
  case shutLocal hg => rw [hg]; simp [setClient]
  case mgetStep hg => rw [hg]; simp [setClient]
  case mgetFin hg => rw [hg]; simp [finishCall]
  case upAfterSame => rcases upAfterIndex_spec b i _ _ with ⟨_, h⟩ | ⟨_, _, h⟩ | h <;> rw [h] <;> simp [finishCall, setClient, spotFinish]
  case upAfterPut id e uw _ _ _ =>
    rcases upAfterIndex_spec { b with g := ttlPut b.g id e } i id uw with ⟨_, h⟩ | ⟨_, _, h⟩ | h <;> rw [h] <;>
      simp [finishCall, setClient, spotFinish, ttlPut]
  case upAfterDelete id e uw _ _ =>
    rcases upAfterIndex_spec { b with g := ttlDelete b.g id e } i id uw with ⟨_, h⟩ | ⟨_, _, h⟩ | h <;> rw [h] <;>
      simp [finishCall, setClient, spotFinish, ttlDelete]
  all_goals simp [finishCall, setClient, spotFinish, ttlDelete]

/-- the only client actions that touch the admission part are `shutdown.kw_clear` and `shutdown.wu_zero` -/
theorem ctrans_adm {b b' : BState} {i : Nat} (h : CTrans b i b') :
    b'.g.adm = b.g.adm ∨
    (∃ pc, b.cl[i]? = some pc ∧ pc.afterCas = true ∧ (b'.g.adm.kw = b.g.adm.kw ∨ b'.g.adm.kw = [])) := by
  cases h
  case getPool hp => rw [poolAdd_frame hp]; simp [finishCall]
  case refPool hp => rw [poolAdd_frame hp]; simp [finishCall]
  case shutLocal hg => rw [hg]; simp [setClient]
  case mgetStep hg => rw [hg]; simp [setClient]
  case mgetFin hg => rw [hg]; simp [finishCall]
  case shutKwClear hpc => exact Or.inr ⟨_, hpc, rfl, Or.inr rfl⟩
  case shutWuZero hpc _ => exact Or.inr ⟨_, hpc, rfl, Or.inl rfl⟩
  case upAfterSame => rcases upAfterIndex_spec b i _ _ with ⟨_, h⟩ | ⟨_, _, h⟩ | h <;> rw [h] <;> simp [finishCall, setClient, spotFinish]
  case upAfterPut id e uw _ _ _ =>
    rcases upAfterIndex_spec { b with g := ttlPut b.g id e } i id uw with ⟨_, h⟩ | ⟨_, _, h⟩ | h <;> rw [h] <;>
      simp [finishCall, setClient, spotFinish, ttlPut]
  case upAfterDelete id e uw _ _ =>
    rcases upAfterIndex_spec { b with g := ttlDelete b.g id e } i id uw with ⟨_, h⟩ | ⟨_, _, h⟩ | h <;> rw [h] <;>
      simp [finishCall, setClient, spotFinish, ttlDelete]
  all_goals simp [finishCall, setClient, spotFinish, ttlDelete]

/-- no client action resets the shutdown flag -/
theorem ctrans_shutting {b b' : BState} {i : Nat} (h : CTrans b i b') (hs : b.g.shutting = true) :
    b'.g.shutting = true := by
  cases h
  case getPool hp => rw [poolAdd_frame hp]; simpa [finishCall] using hs
  case refPool hp => rw [poolAdd_frame hp]; simpa [finishCall] using hs
  case shutLocal hg => rw [hg]; simpa [setClient] using hs
  case mgetStep hg => rw [hg]; simpa [setClient] using hs
  case mgetFin hg => rw [hg]; simpa [finishCall] using hs
  case upAfterSame => rcases upAfterIndex_spec b i _ _ with ⟨_, h⟩ | ⟨_, _, h⟩ | h <;> rw [h] <;> simpa [finishCall, setClient, spotFinish] using hs
  case upAfterPut id e uw _ _ _ =>
    rcases upAfterIndex_spec { b with g := ttlPut b.g id e } i id uw with ⟨_, h⟩ | ⟨_, _, h⟩ | h <;> rw [h] <;>
      simpa [finishCall, setClient, spotFinish, ttlPut] using hs
  case upAfterDelete id e uw _ _ =>
    rcases upAfterIndex_spec { b with g := ttlDelete b.g id e } i id uw with ⟨_, h⟩ | ⟨_, _, h⟩ | h <;> rw [h] <;>
      simpa [finishCall, setClient, spotFinish, ttlDelete] using hs
  all_goals simp [finishCall, setClient, spotFinish, ttlDelete, hs]

/-- what a client action does to that client's position and to the store read guards -/
theorem ctrans_cl {b b' : BState} {j : Nat} (h : CTrans b j b') :
    ∃ pc pc', b.cl[j]? = some pc ∧ b'.cl = b.cl.set j pc' ∧
      (pc'.afterCas = true → b'.g.shutting = true ∨ pc.afterCas = true) ∧
      ((pc.isRefPool = false ∧ pc'.isRefPool = false ∧ b'.storeReaders = b.storeReaders) ∨
       (∃ k v, pc = .refStore k ∧ pc' = .refPool k v ∧ b'.storeReaders = (j, storeShardOf b k) :: b.storeReaders) ∨
       (∃ k v, pc = .refPool k v ∧ pc' = .idle ∧ b'.storeReaders = b.storeReaders.filter (fun p => p.1 != j))) := by
  cases h
  case upAfterSame id uw old new hpc =>
    rcases upAfterIndex_spec b j id uw with ⟨_, h⟩ | ⟨_, _, h⟩ | h <;> rw [h] <;>
      exact ⟨_, _, hpc, rfl, by simp [CPc.afterCas], Or.inl ⟨rfl, rfl, rfl⟩⟩
  case upAfterPut pc id e uw hpc hu _ =>
    have hr : pc.isRefPool = false := by cases pc <;> simp_all [CPc.usedId?, CPc.isRefPool]
    rcases upAfterIndex_spec { b with g := ttlPut b.g id e } j id uw with ⟨_, h⟩ | ⟨_, _, h⟩ | h <;> rw [h] <;>
      exact ⟨_, _, hpc, rfl, by simp [CPc.afterCas], Or.inl ⟨hr, rfl, rfl⟩⟩
  case upAfterDelete id e uw hpc _ =>
    rcases upAfterIndex_spec { b with g := ttlDelete b.g id e } j id uw with ⟨_, h⟩ | ⟨_, _, h⟩ | h <;> rw [h] <;>
      exact ⟨_, _, hpc, rfl, by simp [CPc.afterCas], Or.inl ⟨rfl, rfl, rfl⟩⟩
  case refHit k e hpc _ _ =>
    exact ⟨_, _, hpc, rfl, by simp [CPc.afterCas], Or.inr (Or.inl ⟨k, e.value, rfl, rfl, rfl⟩)⟩
  case refPool k v g1 o o' hpc hp =>
    exact ⟨_, _, hpc, rfl, by simp [CPc.afterCas], Or.inr (Or.inr ⟨k, v, rfl, rfl, rfl⟩)⟩
  case shutCas hpc _ => exact ⟨_, _, hpc, rfl, fun _ => Or.inl rfl, Or.inl ⟨rfl, rfl, rfl⟩⟩
  case shutLocal pc pc' g' hpc h1 h2 hg =>
    exact ⟨pc, pc', hpc, rfl, fun _ => Or.inr h1, Or.inl ⟨by cases pc <;> simp_all [CPc.afterCas, CPc.isRefPool],
      by cases pc' <;> simp_all [CPc.afterCas, CPc.isRefPool], rfl⟩⟩
  case mgetStep pc pc' g' hpc h1 h2 hg =>
    have e1 : pc'.afterCas = false := by clear hg; cases pc' <;> simp_all [CPc.isMget, CPc.afterCas]
    have e2 : pc.isRefPool = false := by clear hg; cases pc <;> simp_all [CPc.isMget, CPc.isRefPool]
    have e3 : pc'.isRefPool = false := by clear hg; cases pc' <;> simp_all [CPc.isMget, CPc.isRefPool]
    exact ⟨pc, pc', hpc, rfl, (by rw [e1]; exact fun h => (by cases h)), Or.inl ⟨e2, e3, rfl⟩⟩
  case mgetFin pc g' out hpc h1 hg =>
    have e2 : pc.isRefPool = false := by clear hg; cases pc <;> simp_all [CPc.isMget, CPc.isRefPool]
    exact ⟨pc, _, hpc, rfl, by simp [CPc.afterCas], Or.inl ⟨e2, rfl, rfl⟩⟩
  case finish pc out hpc hr => exact ⟨_, _, hpc, rfl, by simp [CPc.afterCas], Or.inl ⟨hr, rfl, rfl⟩⟩
  case finishStats pc out st hpc hr => exact ⟨_, _, hpc, rfl, by simp [CPc.afterCas], Or.inl ⟨hr, rfl, rfl⟩⟩
  case spot pc st hpc hr => exact ⟨_, _, hpc, rfl, by simp [CPc.afterCas], Or.inl ⟨hr, rfl, rfl⟩⟩
  case startPlain r pc' hpc hp =>
    exact ⟨_, _, hpc, rfl, by cases pc' <;> simp_all [CPc.plain, CPc.afterCas],
      Or.inl ⟨rfl, by cases pc' <;> simp_all [CPc.plain, CPc.isRefPool], rfl⟩⟩
  case upWeightOfTtl id uw old new pc' hpc hu _ _ =>
    exact ⟨_, _, hpc, rfl, by cases pc' <;> simp_all [CPc.usedId?, CPc.afterCas],
      Or.inl ⟨rfl, by cases pc' <;> simp_all [CPc.usedId?, CPc.isRefPool], rfl⟩⟩
  all_goals first
    | exact ⟨_, _, by assumption, rfl, by simp [CPc.afterCas], Or.inl ⟨rfl, rfl, rfl⟩⟩
    | exact ⟨_, _, by assumption, rfl, fun _ => Or.inr rfl, Or.inl ⟨rfl, rfl, rfl⟩⟩

theorem LockF.frame {b b' : BState} (hi : LockF b) (h1 : b'.w = b.w) (h2 : b'.sw = b.sw)
    (h3 : b'.wuOwner = b.wuOwner) (h4 : b'.ttlOwner = b.ttlOwner) : LockF b' := by
  obtain ⟨a1, a2, a3, a4⟩ := hi
  exact ⟨by rw [h1, h2, h3, a1], by rw [h2, h4, a2], by rw [h1, h2]; exact a3, by rw [h2]; exact a4⟩

theorem lockF_init (cfg : Cfg) (now : Nat) (seeds : List Nat) (clients : Nat) :
    LockF (BState.init cfg now seeds clients) := ⟨rfl, rfl, fun h => (by cases h), trivial⟩

/-- the lock conjuncts of `BInv`, from the functional form -/
theorem LockF.wuWorker {b : BState} (h : LockF b) :
    b.wuOwner = some .worker ↔ (∃ c e s i wk, b.w = .evStore c e s i wk) := by
  rw [h.wu]
  cases hw : b.w <;> cases hs : b.sw <;> simp [lockOf, WPc.isEvStore, SPc.isStore]

theorem LockF.wuSweeper {b : BState} (h : LockF b) :
    b.wuOwner = some .sweeper ↔ (∃ n sh r i wk, b.sw = .store n sh r i wk) := by
  have := h.excl
  rw [h.wu]
  cases hw : b.w <;> cases hs : b.sw <;> simp_all [lockOf, WPc.isEvStore, SPc.isStore]

theorem LockF.wuClients {b : BState} (h : LockF b) (i : Nat) :
    b.wuOwner ≠ some (.client i) ∧ b.wuOwner ≠ some .consumer := by
  rw [h.wu]
  unfold lockOf
  constructor <;> split <;> (try split) <;> simp

theorem LockF.ttlSweeper {b : BState} (h : LockF b) :
    (b.ttlOwner = none ↔ (b.sw = .begin ∨ b.sw = .fin)) ∧ (∀ sh, b.ttlOwner = some sh → b.sw.shard? = some sh) := by
  rw [h.ttl]
  cases hs : b.sw <;> simp [SPc.shard?]

theorem LockF.sweepEntry {b : BState} (h : LockF b) (now sh : Nat) (rest : List (Nat × Nat))
    (hs : b.sw = .entry now sh rest) : rest ≠ [] := by
  have := h.entry
  rw [hs] at this
  exact this

theorem LockF.of {b : BState} (h1 : b.wuOwner = some .worker ↔ (∃ c e s i wk, b.w = .evStore c e s i wk))
    (h2 : b.wuOwner = some .sweeper ↔ (∃ n sh r i wk, b.sw = .store n sh r i wk))
    (h3 : ∀ i, b.wuOwner ≠ some (.client i) ∧ b.wuOwner ≠ some .consumer)
    (h4 : (b.ttlOwner = none ↔ (b.sw = .begin ∨ b.sw = .fin)) ∧ (∀ sh, b.ttlOwner = some sh → b.sw.shard? = some sh))
    (h5 : ∀ now sh rest, b.sw = .entry now sh rest → rest ≠ []) :
    LockF b := by
  have e1 : (∃ c e s i wk, b.w = .evStore c e s i wk) ↔ b.w.isEvStore = true := by
    cases b.w <;> simp [WPc.isEvStore]
  have e2 : (∃ n sh r i wk, b.sw = .store n sh r i wk) ↔ b.sw.isStore = true := by
    cases b.sw <;> simp [SPc.isStore]
  rw [e1] at h1
  rw [e2] at h2
  refine ⟨?_, ?_, ?_, ?_⟩
  rotate_left 3
  · cases hs : b.sw <;> simp only [SPc.entryOk]
    exact h5 _ _ _ hs
  · unfold lockOf
    cases ho : b.wuOwner with
    | none => simp_all
    | some t =>
      cases t with
      | worker => simp_all
      | sweeper =>
        have : b.w.isEvStore = false := by
          cases hb : b.w.isEvStore
          · rfl
          · rw [h1.mpr hb] at ho; cases ho
        simp_all
      | consumer => exact absurd ho (h3 0).2
      | client i => exact absurd ho (h3 i).1
  · cases ho : b.ttlOwner with
    | none =>
      rcases h4.1.mp ho with h | h <;> simp [h, SPc.shard?]
    | some sh => exact (h4.2 sh ho).symm
  · intro hw
    cases hb : b.sw.isStore
    · rfl
    · have := h1.mpr hw
      rw [h2.mpr hb] at this
      cases this

/-! ## 5  positive weights on the way to the worker -/

def WPc.updW? : WPc → Option Int
  | .update _ w _ => some w
  | _ => none

structure PosInv (b : BState) : Prop where
  queue : ∀ p ∈ b.g.queue, cmdPos p.1
  clients : ∀ (i : Nat) (pc : CPc), b.cl[i]? = some pc → pc.pos
  wcmd : ∀ c, b.w.cmd? = some c → 0 < c.w
  wupd : ∀ w, b.w.updW? = some w → 0 < w

@[simp] theorem cmdPos_cmdOfPut (c : PutCmd) : cmdPos (cmdOfPut c) ↔ 0 < c.w := by
  unfold cmdOfPut; split <;> simp [cmdPos]

@[simp] theorem cmdId?_cmdOfPut (c : PutCmd) : cmdId? (cmdOfPut c) = some c.id := by
  unfold cmdOfPut; split <;> simp [cmdId?]

@[simp] theorem cmdPos_update (id : Nat) (w : Int) : cmdPos (.updateWeight id w) ↔ 0 < w := Iff.rfl
@[simp] theorem cmdPos_delete (k : Nat) : cmdPos (.delete k) := trivial
@[simp] theorem cmdPos_shutdown : cmdPos .shutdown := trivial

theorem posInv_wtrans {b b' : BState} (hi : PosInv b) (h : WTrans b b') : PosInv b' := by
  obtain ⟨h1, h2, h3, h4⟩ := hi
  cases h
  all_goals constructor
  all_goals (try simp only [finishCmd, rejectCmd, ttlPut, ttlDelete])
  all_goals (try assumption)
  all_goals simp_all [WPc.cmd?, WPc.updW?]
  all_goals first | exact h1 | exact h1.2

theorem getElem?_set_pos {cl : List CPc} {i : Nat} {pc' : CPc}
    (h : ∀ (j : Nat) (pc : CPc), cl[j]? = some pc → pc.pos) (h' : pc'.pos) :
    ∀ (j : Nat) (pc : CPc), (cl.set i pc')[j]? = some pc → pc.pos := by
  intro j pc hj
  rw [List.getElem?_set] at hj
  split at hj
  · split at hj
    · cases hj; exact h'
    · cases hj
  · exact h j pc hj

theorem posInv_strans {b b' : BState} (hi : PosInv b) (h : STrans b b') : PosInv b' := by
  obtain ⟨h1, h2, h3, h4⟩ := hi
  cases h
  all_goals (try unfold sweepNext)
  all_goals (try split)
  all_goals exact ⟨by simpa using h1, h2, h3, h4⟩

/-- a client action that leaves the queue alone and moves client `i` to a position carrying a positive weight -/
theorem PosInv.client {b b' : BState} {i : Nat} {pc' : CPc} (hi : PosInv b) (hq : b'.g.queue = b.g.queue)
    (hw : b'.w = b.w) (hcl : b'.cl = b.cl.set i pc') (hp : pc'.pos) : PosInv b' := by
  obtain ⟨h1, h2, h3, h4⟩ := hi
  exact ⟨by rw [hq]; exact h1, by rw [hcl]; exact getElem?_set_pos h2 hp, by rw [hw]; exact h3, by rw [hw]; exact h4⟩

theorem PosInv.upAfter {b b0 : BState} {i id : Nat} {uw : Option Int} (hi : PosInv b) (hq : b0.g.queue = b.g.queue)
    (hw : b0.w = b.w) (hcl : b0.cl = b.cl) : PosInv (upAfterIndex b0 i id uw) := by
  rcases upAfterIndex_spec b0 i id uw with ⟨_, h⟩ | ⟨w, hw', h⟩ | h <;> rw [h]
  · exact hi.client (i := i) (pc' := .idle) hq hw (by simp [finishCall, hcl]) trivial
  · exact hi.client (i := i) (pc' := .send (.updateWeight id w)) hq hw (by simp [setClient, hcl]) hw'
  · exact hi.client (i := i) (pc' := .idle) hq hw (by simp [spotFinish, finishCall, hcl]) trivial

theorem posInv_ctrans {b b' : BState} {i : Nat} (hi : PosInv b) (h : CTrans b i b') : PosInv b' := by
  cases h with
  | finish pc out hpc => exact hi.client rfl rfl rfl trivial
  | finishStats pc out st hpc => exact hi.client rfl rfl rfl trivial
  | spot pc st hpc => exact hi.client rfl rfl rfl trivial
  | startPut k v w ttl hpc hw => exact hi.client rfl rfl rfl hw
  | startPlain r pc' hpc hp => exact hi.client rfl rfl rfl (by cases pc' <;> first | trivial | cases hp)
  | putPresentOk k v w ttl hpc => exact hi.client rfl rfl rfl (hi.clients i (.putPresent k v w ttl) hpc)
  | idNext k v w ttl hpc =>
    have := hi.clients i (.idNext k v w ttl) hpc
    exact hi.client rfl rfl rfl (by cases ttl <;> exact this)
  | sendOk cmd hpc =>
    have := hi.clients i _ hpc
    obtain ⟨h1, h2, h3, h4⟩ := hi
    refine ⟨?_, getElem?_set_pos h2 trivial, h3, h4⟩
    intro p hp
    simp only [finishCall, List.mem_append, List.mem_singleton] at hp
    rcases hp with hp | rfl
    · exact h1 p hp
    · exact this
  | delMark k hpc => exact hi.client rfl rfl rfl trivial
  | getHit k e hpc _ _ => exact hi.client rfl rfl rfl trivial
  | getPool k v g1 o o' hpc hp =>
    refine hi.client ?_ rfl rfl trivial
    rw [poolAdd_frame hp]; rfl
  | upPut k v w ttl rm val weight hpc hw => exact hi.client rfl rfl rfl hw
  | upUpdate k v w ttl rm e ne uw hpc _ => exact hi.client rfl rfl rfl trivial
  | upWeightOfTtl id uw old new pc' hpc _ _ hp => exact hi.client rfl rfl rfl hp
  | upAfterSame id uw old new hpc => exact hi.upAfter rfl rfl rfl
  | upAfterPut pc id e uw hpc _ _ => exact hi.upAfter rfl rfl rfl
  | upAfterDelete id e uw hpc _ => exact hi.upAfter rfl rfl rfl
  | upTtlRemove id old new uw hpc _ => exact hi.client rfl rfl rfl trivial
  | refHit k e hpc _ _ => exact hi.client rfl rfl rfl trivial
  | refPool k v g1 o o' hpc hp =>
    refine hi.client ?_ rfl rfl trivial
    rw [poolAdd_frame hp]; rfl
  | shutCas hpc _ => exact hi.client rfl rfl rfl trivial
  | shutSendCmd hpc _ =>
    obtain ⟨h1, h2, h3, h4⟩ := hi
    refine ⟨?_, getElem?_set_pos h2 trivial, h3, h4⟩
    intro p hp
    simp only [setClient, List.mem_append, List.mem_singleton] at hp
    rcases hp with hp | rfl
    · exact h1 p hp
    · trivial
  | shutLocal pc pc' g' hpc _ h2 hg =>
    refine hi.client (pc' := pc') ?_ rfl rfl (by cases pc' <;> simp_all [CPc.afterCas, CPc.pos])
    show g'.queue = b.g.queue
    rw [hg]
  | mgetStep pc pc' g' hpc _ h2 hg =>
    refine hi.client (pc' := pc') ?_ rfl rfl (by clear hg; cases pc' <;> simp_all [CPc.isMget, CPc.pos])
    show g'.queue = b.g.queue
    rw [hg]
  | mgetFin pc g' out hpc _ hg =>
    refine hi.client (pc' := .idle) ?_ rfl rfl trivial
    show g'.queue = b.g.queue
    rw [hg]
  | shutStoreClear hpc _ => exact hi.client rfl rfl rfl trivial
  | shutKwClear hpc => exact hi.client rfl rfl rfl trivial
  | shutWuZero hpc _ => exact hi.client rfl rfl rfl trivial
  | shutTtlClear hpc _ => exact hi.client rfl rfl rfl trivial

theorem PosInv.frame {b b' : BState} (hi : PosInv b) (hq : b'.g.queue = b.g.queue) (hw : b'.w = b.w)
    (hcl : b'.cl = b.cl) : PosInv b' := by
  obtain ⟨h1, h2, h3, h4⟩ := hi
  exact ⟨by rw [hq]; exact h1, by rw [hcl]; exact h2, by rw [hw]; exact h3, by rw [hw]; exact h4⟩

theorem posInv_issue {b b' : BState} {i : Nat} {r : Req} (hi : PosInv b) (h : issue b i r = .ok b') : PosInv b' := by
  unfold issue at h
  split at h
  · simp only [Except.ok.injEq] at h; subst h
    exact hi.client rfl rfl rfl trivial
  · cases h

theorem posInv_init (cfg : Cfg) (now : Nat) (seeds : List Nat) (clients : Nat) :
    PosInv (BState.init cfg now seeds clients) := by
  refine ⟨by simp [BState.init, State.init], ?_, by simp [BState.init, WPc.cmd?], by simp [BState.init, WPc.updW?]⟩
  intro i pc h
  simp only [BState.init, List.getElem?_replicate] at h
  split at h
  · cases h; trivial
  · cases h

/-! ## 6  fresh ids -/

theorem count_filterMap_set {α : Type} (g : α → Option Nat) (l : List α) (i : Nat) (old new : α)
    (h : l[i]? = some old) (f : Nat) :
    ((l.set i new).filterMap g).count f + (g old).toList.count f =
      (l.filterMap g).count f + (g new).toList.count f := by
  induction l generalizing i with
  | nil => simp at h
  | cons x xs ih =>
    cases i with
    | zero =>
      simp only [List.getElem?_cons_zero, Option.some.injEq] at h
      subst h
      simp only [List.set_cons_zero, List.filterMap_cons]
      cases g x <;> cases g new <;> simp [List.count_cons] <;> omega
    | succ i =>
      simp only [List.getElem?_cons_succ] at h
      have := ih i h
      simp only [List.set_cons_succ, List.filterMap_cons]
      cases g x <;> simp [List.count_cons] <;> omega

theorem mem_filterMap_set {α : Type} (g : α → Option Nat) (l : List α) (i : Nat) (new : α) (x : Nat)
    (h : x ∈ (l.set i new).filterMap g) : x ∈ l.filterMap g ∨ g new = some x := by
  rw [List.mem_filterMap] at h
  obtain ⟨a, ha, hg⟩ := h
  rcases List.mem_or_eq_of_mem_set ha with h | rfl
  · exact Or.inl (List.mem_filterMap.mpr ⟨a, h, hg⟩)
  · exact Or.inr hg

theorem AMap.mem_del' {α β : Type} [DecidableEq α] {m : AMap α β} {a : α} {p : α × β} (h : p ∈ AMap.del m a) : p ∈ m := by
  induction m with
  | nil => simp [AMap.del] at h
  | cons q rest ih =>
    obtain ⟨k, v⟩ := q
    by_cases hk : k = a
    · simp only [AMap.del, hk, if_true] at h
      exact List.mem_cons_of_mem _ (ih h)
    · simp only [AMap.del, hk, if_false, List.mem_cons] at h
      rcases h with h | h
      · subst h; simp
      · exact List.mem_cons_of_mem _ (ih h)

/-- occurrences among the queued and the about-to-be-sent commands -/
def qc (b : BState) (f : Nat) : Nat := (qIds b.g.queue).count f + (cIds b.cl).count f

theorem occ_eq (b : BState) (f : Nat) : occ b f = qc b f + b.w.freshId?.toList.count f := rfl

@[simp] theorem qIds_nil : qIds [] = [] := rfl
theorem qIds_cons (cmd : Cmd) (h : Option Nat) (q : List (Cmd × Option Nat)) :
    qIds ((cmd, h) :: q) = (cmdId? cmd).toList ++ qIds q := by
  simp only [qIds, List.filterMap_cons]
  cases cmdId? cmd <;> simp
theorem qIds_append (q q' : List (Cmd × Option Nat)) : qIds (q ++ q') = qIds q ++ qIds q' := by
  simp [qIds, List.filterMap_append]

/-- the id part of the invariant -/
structure IdInv (b : BState) : Prop where
  occLe : ∀ f, occ b f ≤ 1
  freshLt : ∀ f, 0 < occ b f → f < b.g.nextId
  pendQC : ∀ f, 0 < qc b f → b.g.adm.kw.get? f = none
  pendW : ∀ f, b.w.pendId? = some f → b.g.adm.kw.get? f = none
  used : ∀ u ∈ usedIds b, occ b u = 0 ∧ u < b.g.nextId
  kwLt : ∀ id wk, b.g.adm.kw.get? id = some wk → id < b.g.nextId
  /-- while the cache is running (see `BAcct`) -/
  addCharged : b.g.shutting = false →
    ∀ c, b.w = .add c → b.g.adm.kw.get? c.id = some { key := c.k, hash := c.hash, weight := c.w }

/-- Every action that creates no fresh id and only removes charges preserves `IdInv`. -/
theorem IdInv.transfer {b b' : BState} (hi : IdInv b) (hsh : b'.g.shutting = false → b.g.shutting = false)
    (hocc : ∀ f, occ b' f ≤ occ b f) (hqc : ∀ f, qc b' f ≤ qc b f) (hn : b.g.nextId ≤ b'.g.nextId)
    (hkw : ∀ f wk, b'.g.adm.kw.get? f = some wk → b.g.adm.kw.get? f = some wk)
    (hpend : ∀ f, b'.w.pendId? = some f → b.w.pendId? = some f ∨ 0 < qc b f)
    (hused : ∀ u ∈ usedIds b', u ∈ usedIds b ∨ (occ b' u = 0 ∧ 0 < occ b u))
    (hadd : b'.g.shutting = false → ∀ c, b'.w = .add c → b.w = .add c ∧ b'.g.adm.kw.get? c.id = b.g.adm.kw.get? c.id) :
    IdInv b' := by
  have hnone : ∀ f, b.g.adm.kw.get? f = none → b'.g.adm.kw.get? f = none := by
    intro f hf
    cases h : b'.g.adm.kw.get? f with
    | none => rfl
    | some wk => rw [hkw f wk h] at hf; cases hf
  refine ⟨?_, ?_, ?_, ?_, ?_, ?_, ?_⟩
  · intro f; exact Nat.le_trans (hocc f) (hi.occLe f)
  · intro f hf
    exact Nat.lt_of_lt_of_le (hi.freshLt f (Nat.lt_of_lt_of_le hf (hocc f))) hn
  · intro f hf
    exact hnone f (hi.pendQC f (Nat.lt_of_lt_of_le hf (hqc f)))
  · intro f hf
    rcases hpend f hf with h | h
    · exact hnone f (hi.pendW f h)
    · exact hnone f (hi.pendQC f h)
  · intro u hu
    rcases hused u hu with h | ⟨h1, h2⟩
    · have := hi.used u h
      have := hocc u
      exact ⟨by omega, by omega⟩
    · have := hi.freshLt u h2
      exact ⟨h1, by omega⟩
  · intro id wk h
    have := hi.kwLt id wk (hkw id wk h)
    omega
  · intro hs c hc
    obtain ⟨h1, h2⟩ := hadd hs c hc
    rw [h2]; exact hi.addCharged (hsh hs) c h1

theorem wtrans_shutting {b b' : BState} (h : WTrans b b') : b'.g.shutting = b.g.shutting := by
  cases h <;> simp [finishCmd, rejectCmd, ttlPut, ttlDelete]

/-- the worker touches neither the clients, the store read guards nor the map of keys to store shards -/
theorem wtrans_cl {b b' : BState} (h : WTrans b b') :
    b'.cl = b.cl ∧ b'.storeReaders = b.storeReaders ∧ b'.storeShard = b.storeShard := by
  cases h <;> simp [finishCmd, rejectCmd]

theorem wtrans_occ {b b' : BState} (h : WTrans b b') (f : Nat) : occ b' f ≤ occ b f := by
  cases h
  all_goals simp [occ, finishCmd, rejectCmd, WPc.freshId?, qIds_cons, ttlPut, ttlDelete, List.count_cons, *]
  all_goals (split <;> omega)

theorem wtrans_qc {b b' : BState} (h : WTrans b b') (f : Nat) : qc b' f ≤ qc b f := by
  cases h
  all_goals simp [qc, finishCmd, rejectCmd, qIds_cons, ttlPut, ttlDelete, List.count_cons, *]

theorem wtrans_nextId {b b' : BState} (h : WTrans b b') : b'.g.nextId = b.g.nextId := by
  cases h <;> simp [finishCmd, rejectCmd, ttlPut, ttlDelete]

theorem wtrans_cfg {b b' : BState} (h : WTrans b b') : b'.g.cfg = b.g.cfg := by
  cases h <;> simp [finishCmd, rejectCmd, ttlPut, ttlDelete]

theorem wtrans_max {b b' : BState} (h : WTrans b b') : b'.g.adm.max = b.g.adm.max := by
  cases h <;> simp [finishCmd, rejectCmd, ttlPut, ttlDelete]

/-- the worker never creates a pending id: a put that is pending after the action was pending or queued before -/
theorem wtrans_pend {b b' : BState} (h : WTrans b b') (f : Nat) (hf : b'.w.pendId? = some f) :
    b.w.pendId? = some f ∨ 0 < qc b f := by
  cases h
  all_goals simp [qc, finishCmd, rejectCmd, WPc.pendId?, qIds_cons, List.count_cons, *] at *
  all_goals (try subst hf)
  all_goals first | omega | (simp; try omega)

/-- apart from `kw.insert` and `kw.update` the worker only removes charges -/
theorem wtrans_kw {b b' : BState} (h : WTrans b b') (h1 : ∀ c, b.w ≠ .insert c)
    (h2 : ∀ id w hh, b.w = .update id w hh → b'.g.adm.kw = b.g.adm.kw)
    (f : Nat) (wk : WKey) (hf : b'.g.adm.kw.get? f = some wk) : b.g.adm.kw.get? f = some wk := by
  cases h
  case insert c hw => exact absurd hw (h1 c)
  case updateApplied id w hh wk' hw _ _ => rw [h2 id w hh hw] at hf; exact hf
  case evRemoveSome | delKwSome =>
    simp only [AMap.get?_del] at hf
    split at hf
    · cases hf
    · exact hf
  all_goals simpa [finishCmd, rejectCmd, ttlPut, ttlDelete] using hf

theorem wtrans_add {b b' : BState} (h : WTrans b b') (c : PutCmd) (hc : b'.w = .add c) :
    b.w = .insert c ∧ b'.g.adm.kw = b.g.adm.kw.set c.id { key := c.k, hash := c.hash, weight := c.w } := by
  cases h
  all_goals simp [finishCmd, rejectCmd] at hc
  subst hc
  exact ⟨by assumption, rfl⟩

theorem mem_usedIds {b : BState} {u : Nat} : u ∈ usedIds b ↔
    (∃ p ∈ b.g.store, p.2.id = u) ∨ (∃ p ∈ b.g.ttl, p.1.2 = u) ∨ u ∈ b.sw.ids ∨
    (∃ pc ∈ b.cl, pc.usedId? = some u) ∨ b.w.usedId? = some u := by
  simp only [usedIds, List.mem_append, List.mem_map, List.mem_filterMap, Option.mem_toList, or_assoc]

/-- the sweeper's hook only ever takes pairs out of the store -/
theorem applyEvictId_mem_store {g : State} {e : Evicted} {p : Nat × Entry} (h : p ∈ (applyEvictId g e).store) :
    p ∈ g.store := by
  rw [Cached.applyEvictId_store] at h
  split at h
  · exact AMap.mem_del' h
  · exact h

/-- the only id the worker makes "used" is the id of the put it is storing -/
theorem wtrans_used {b b' : BState} (h : WTrans b b') (u : Nat) (hu : u ∈ usedIds b') :
    u ∈ usedIds b ∨ ∃ c, b.w = .storePut c ∧ u = c.id := by
  rw [mem_usedIds] at hu ⊢
  cases h
  all_goals simp [finishCmd, rejectCmd, WPc.usedId?, ttlPut, ttlDelete, applyEvict_store, *] at *
  all_goals (try assumption)
  all_goals grind [AMap.mem_del', AMap.set]

/-- `store.put` uses up the fresh id of the worker's put -/
theorem wtrans_storePut_occ {b b' : BState} (h : WTrans b b') (c : PutCmd) (hw : b.w = .storePut c) :
    occ b' c.id + 1 ≤ occ b c.id := by
  cases h
  all_goals simp [occ, finishCmd, WPc.freshId?, *] at *

theorem idInv_wtrans {b b' : BState} (hi : IdInv b) (h : WTrans b b') : IdInv b' := by
  have h0 := h
  cases h with
  | insert c hw =>
    have hocc : ∀ f, occ { b with g := { b.g with adm := { b.g.adm with kw := b.g.adm.kw.set c.id { key := c.k, hash := c.hash, weight := c.w } } }, w := .add c } f = occ b f := by
      intro f; simp [occ, WPc.freshId?, hw]
    have hc1 : 0 < occ b c.id := by simp [occ, WPc.freshId?, hw]
    have hqc0 : qc b c.id = 0 := by
      have := hi.occLe c.id
      simp [occ_eq, WPc.freshId?, hw] at this
      exact this
    refine ⟨?_, ?_, ?_, ?_, ?_, ?_, ?_⟩
    · intro f; rw [hocc]; exact hi.occLe f
    · intro f hf; rw [hocc] at hf; exact hi.freshLt f hf
    · intro f hf
      have hf' : 0 < qc b f := hf
      have hne : c.id ≠ f := by intro e; subst e; omega
      show (b.g.adm.kw.set c.id _).get? f = none
      rw [AMap.get?_set_other _ _ hne]
      exact hi.pendQC f hf'
    · intro f hf; simp [WPc.pendId?] at hf
    · intro u hu
      have hu' : u ∈ usedIds b := by
        rw [mem_usedIds] at hu ⊢
        simpa [WPc.usedId?, hw] using hu
      rw [hocc]; exact hi.used u hu'
    · intro id wk hg
      have hg' : (b.g.adm.kw.set c.id _).get? id = some wk := hg
      rw [AMap.get?_set] at hg'
      split at hg'
      · rename_i e; subst e; exact hi.freshLt _ hc1
      · exact hi.kwLt id wk hg'
    · intro _ c' hc'
      simp only [WPc.add.injEq] at hc'
      subst hc'
      show (b.g.adm.kw.set c.id _).get? c.id = _
      rw [AMap.get?_set_same]
  | updateApplied id w hh wk hw hfree hg =>
    have hocc : ∀ f, occ (finishCmd { b with g := { b.g with adm := { b.g.adm with used := b.g.adm.used + (w - wk.weight), kw := b.g.adm.kw.set id { wk with weight := w } }, stats := updateWeightStats { b.g.stats with keysUpdated := b.g.stats.keysUpdated + 1 } w wk.weight } } hh .accepted) f = occ b f := by
      intro f; simp [occ, finishCmd, WPc.freshId?, hw]
    refine ⟨?_, ?_, ?_, ?_, ?_, ?_, ?_⟩
    · intro f; rw [hocc]; exact hi.occLe f
    · intro f hf; rw [hocc] at hf; exact hi.freshLt f hf
    · intro f hf
      have hf' : 0 < qc b f := hf
      have hnone := hi.pendQC f hf'
      have hne : id ≠ f := by intro e; subst e; rw [hg] at hnone; cases hnone
      show (b.g.adm.kw.set id _).get? f = none
      rw [AMap.get?_set_other _ _ hne]
      exact hnone
    · intro f hf; simp [finishCmd, WPc.pendId?] at hf
    · intro u hu
      have hu' : u ∈ usedIds b := by
        rw [mem_usedIds] at hu ⊢
        simpa [finishCmd, WPc.usedId?, hw] using hu
      rw [hocc]; exact hi.used u hu'
    · intro id' wk' hg'
      have hg'' : (b.g.adm.kw.set id _).get? id' = some wk' := hg'
      rw [AMap.get?_set] at hg''
      split at hg''
      · rename_i e; subst e; exact hi.kwLt _ _ hg
      · exact hi.kwLt id' wk' hg''
    · intro _ c' hc'; simp [finishCmd] at hc'
  | _ =>
    refine hi.transfer (fun hs => wtrans_shutting h0 ▸ hs) (wtrans_occ h0) (wtrans_qc h0) (by rw [wtrans_nextId h0]; exact Nat.le_refl _)
      (wtrans_kw h0 (by simp [*]) (by simp [finishCmd, *])) (wtrans_pend h0) ?_ ?_
    · intro u hu
      rcases wtrans_used h0 u hu with h | ⟨c, hw, rfl⟩
      · exact Or.inl h
      · have h1 := wtrans_storePut_occ h0 c hw
        have h2 := hi.occLe c.id
        exact Or.inr ⟨by omega, by omega⟩
    · intro _ c hc
      have := (wtrans_add h0 c hc).1
      simp_all

theorem occ_congr {b b' : BState} (hq : b'.g.queue = b.g.queue) (hcl : b'.cl = b.cl) (hw : b'.w = b.w) (f : Nat) :
    occ b' f = occ b f := by
  simp [occ, hq, hcl, hw]

theorem qc_congr {b b' : BState} (hq : b'.g.queue = b.g.queue) (hcl : b'.cl = b.cl) (f : Nat) :
    qc b' f = qc b f := by
  simp [qc, hq, hcl]

/-- the sweeper leaves the worker, the clients, the queue, the id counter and the configuration alone -/
theorem strans_frame {b b' : BState} (h : STrans b b') :
    b'.w = b.w ∧ b'.cl = b.cl ∧ b'.g.queue = b.g.queue ∧ b'.g.nextId = b.g.nextId ∧ b'.g.cfg = b.g.cfg ∧
    b'.g.adm.max = b.g.adm.max := by
  cases h
  all_goals (try unfold sweepNext)
  all_goals (try split)
  all_goals simp

/-- … nor the shutdown flag, the store read guards, the map of keys to store shards -/
theorem strans_frame2 {b b' : BState} (h : STrans b b') :
    b'.g.shutting = b.g.shutting ∧ b'.storeReaders = b.storeReaders ∧ b'.storeShard = b.storeShard := by
  cases h
  all_goals (try unfold sweepNext)
  all_goals (try split)
  all_goals simp

theorem strans_kw {b b' : BState} (h : STrans b b') (f : Nat) (wk : WKey) (hf : b'.g.adm.kw.get? f = some wk) :
    b.g.adm.kw.get? f = some wk := by
  cases h
  case kwRemoveSome =>
    simp only [AMap.get?_del] at hf
    split at hf
    · cases hf
    · exact hf
  all_goals (try unfold sweepNext at hf)
  all_goals (try split at hf)
  all_goals simpa using hf

/-- the sweeper reaches into `kw` through used ids only -/
theorem strans_kw_other {b b' : BState} (h : STrans b b') (f : Nat) (hf : f ∉ usedIds b) :
    b'.g.adm.kw.get? f = b.g.adm.kw.get? f := by
  cases h
  case kwRemoveSome now shard rest id wk hg hs hu =>
    have : id ≠ f := by
      intro e; subst e
      apply hf
      rw [mem_usedIds]
      simp [hs, SPc.ids]
    simp [AMap.get?_del_other _ this]
  all_goals (try unfold sweepNext)
  all_goals (try split)
  all_goals simp

theorem strans_used {b b' : BState} (h : STrans b b') (u : Nat) (hu : u ∈ usedIds b') : u ∈ usedIds b := by
  rw [mem_usedIds] at hu ⊢
  cases h
  all_goals (try unfold sweepNext at hu)
  all_goals (try split at hu)
  all_goals simp [SPc.ids, *] at *
  all_goals (try assumption)
  case entryExpired now shard rest id p hfind hs =>
    have h1 := List.mem_of_find?_eq_some hfind
    have h2 : p.1 = id := by simpa using List.find?_some hfind
    grind [AMap.mem_del']
  all_goals grind [AMap.mem_del', applyEvictId_mem_store]

theorem idInv_strans {b b' : BState} (hi : IdInv b) (h : STrans b b') : IdInv b' := by
  obtain ⟨hw, hcl, hq, hn, _, _⟩ := strans_frame h
  refine hi.transfer (fun hs => (strans_frame2 h).1 ▸ hs) (fun f => Nat.le_of_eq (occ_congr hq hcl hw f))
    (fun f => Nat.le_of_eq (qc_congr hq hcl f))
    (Nat.le_of_eq hn.symm) (strans_kw h) (fun f hf => Or.inl (hw ▸ hf)) (fun u hu => Or.inl (strans_used h u hu)) ?_
  intro _ c hc
  rw [hw] at hc
  refine ⟨hc, strans_kw_other h c.id ?_⟩
  intro hu
  have := (hi.used c.id hu).1
  simp [occ, hc, WPc.freshId?] at this

/-! clients -/

theorem mem_usedIds_client {b b' : BState} {i : Nat} {pc' : CPc} (hsw : b'.sw = b.sw) (hw : b'.w = b.w)
    (hcl : b'.cl = b.cl.set i pc') (hs : ∀ p ∈ b'.g.store, ∃ q ∈ b.g.store, q.2.id = p.2.id)
    (ht : ∀ p ∈ b'.g.ttl, p ∈ b.g.ttl ∨ p.1.2 ∈ usedIds b) (hpc : ∀ u, pc'.usedId? = some u → u ∈ usedIds b)
    (u : Nat) (hu : u ∈ usedIds b') : u ∈ usedIds b := by
  rw [mem_usedIds] at hu
  rcases hu with ⟨p, hp, rfl⟩ | ⟨p, hp, rfl⟩ | hu | ⟨pc, hp, hpu⟩ | hu
  · obtain ⟨q, hq, he⟩ := hs p hp
    rw [mem_usedIds]; exact Or.inl ⟨q, hq, he⟩
  · rcases ht p hp with h | h
    · rw [mem_usedIds]; exact Or.inr (Or.inl ⟨p, h, rfl⟩)
    · exact h
  · rw [mem_usedIds]; rw [hsw] at hu; exact Or.inr (Or.inr (Or.inl hu))
  · rw [hcl] at hp
    rcases List.mem_or_eq_of_mem_set hp with h | rfl
    · rw [mem_usedIds]; exact Or.inr (Or.inr (Or.inr (Or.inl ⟨pc, h, hpu⟩)))
    · exact hpc u hpu
  · rw [mem_usedIds]; rw [hw] at hu; exact Or.inr (Or.inr (Or.inr (Or.inr hu)))

theorem mem_usedIds_of_client {b : BState} {i : Nat} {pc : CPc} {u : Nat} (hpc : b.cl[i]? = some pc)
    (hu : pc.usedId? = some u) : u ∈ usedIds b := by
  rw [mem_usedIds]
  exact Or.inr (Or.inr (Or.inr (Or.inl ⟨pc, List.mem_of_getElem? hpc, hu⟩)))

/-- a client action that creates no fresh id, leaves queue, id counter and charges alone, and keeps the used ids -/
theorem IdInv.clientStep {b b' : BState} {i : Nat} {pc pc' : CPc} (hi : IdInv b) (hpc : b.cl[i]? = some pc)
    (hq : qIds b'.g.queue = qIds b.g.queue) (hn : b'.g.nextId = b.g.nextId) (hkw : b'.g.adm.kw = b.g.adm.kw)
    (hw : b'.w = b.w) (hcl : b'.cl = b.cl.set i pc') (hfresh : pc'.freshId? = none)
    (hused : ∀ u ∈ usedIds b', u ∈ usedIds b)
    (hsh : b'.g.shutting = false → b.g.shutting = false := by exact fun h => h) : IdInv b' := by
  have hc : ∀ f, (cIds b'.cl).count f ≤ (cIds b.cl).count f := by
    intro f
    have := count_filterMap_set CPc.freshId? b.cl i pc pc' hpc f
    rw [hfresh] at this
    simp only [cIds, hcl]
    simp at this
    omega
  refine hi.transfer hsh ?_ ?_ (Nat.le_of_eq hn.symm) (by rw [hkw]; exact fun _ _ h => h) (fun f hf => Or.inl (hw ▸ hf))
    (fun u hu => Or.inl (hused u hu)) (fun _ c hc => ⟨hw ▸ hc, by rw [hkw]⟩)
  · intro f; have := hc f; simp only [occ, hq, hw]; omega
  · intro f; have := hc f; simp only [qc, hq]; omega

/-- … and that moreover leaves store, expiry index and sweeper alone -/
theorem IdInv.clientLocal {b b' : BState} {i : Nat} {pc pc' : CPc} (hi : IdInv b) (hpc : b.cl[i]? = some pc)
    (hq : qIds b'.g.queue = qIds b.g.queue) (hn : b'.g.nextId = b.g.nextId) (hkw : b'.g.adm.kw = b.g.adm.kw)
    (hw : b'.w = b.w) (hcl : b'.cl = b.cl.set i pc') (hsw : b'.sw = b.sw) (hst : b'.g.store = b.g.store)
    (httl : b'.g.ttl = b.g.ttl) (hfresh : pc'.freshId? = none) (hu : ∀ u, pc'.usedId? = some u → u ∈ usedIds b)
    (hsh : b'.g.shutting = false → b.g.shutting = false := by exact fun h => h) :
    IdInv b' :=
  hi.clientStep hpc hq hn hkw hw hcl hfresh
    (mem_usedIds_client hsw hw hcl (by rw [hst]; exact fun p hp => ⟨p, hp, rfl⟩) (by rw [httl]; exact fun p hp => Or.inl hp) hu)
    hsh

theorem IdInv.upAfter {b b0 : BState} {i id : Nat} {uw : Option Int} {pc : CPc} (hi : IdInv b)
    (hpc : b.cl[i]? = some pc) (hq : b0.g.queue = b.g.queue) (hn : b0.g.nextId = b.g.nextId)
    (hkw : b0.g.adm.kw = b.g.adm.kw) (hw : b0.w = b.w) (hcl : b0.cl = b.cl) (hsw : b0.sw = b.sw)
    (hst : b0.g.store = b.g.store) (httl : ∀ p ∈ b0.g.ttl, p ∈ b.g.ttl ∨ p.1.2 ∈ usedIds b)
    (hsh : b0.g.shutting = b.g.shutting) :
    IdInv (upAfterIndex b0 i id uw) := by
  have hq : qIds b0.g.queue = qIds b.g.queue := by rw [hq]
  have hs : ∀ p ∈ b0.g.store, ∃ q ∈ b.g.store, q.2.id = p.2.id := by rw [hst]; exact fun p hp => ⟨p, hp, rfl⟩
  rcases upAfterIndex_spec b0 i id uw with ⟨_, h⟩ | ⟨w, _, h⟩ | h <;> rw [h]
  · exact hi.clientStep (i := i) (pc' := .idle) hpc hq hn hkw hw (by simp [finishCall, hcl]) rfl
      (mem_usedIds_client (i := i) (pc' := .idle) hsw hw (by simp [finishCall, hcl]) hs httl (fun u h => by cases h))
      (fun h => hsh ▸ h)
  · exact hi.clientStep (i := i) (pc' := .send (.updateWeight id w)) hpc hq hn hkw hw (by simp [setClient, hcl]) rfl
      (mem_usedIds_client (i := i) (pc' := .send (.updateWeight id w)) hsw hw (by simp [setClient, hcl]) hs httl (fun u h => by cases h))
      (fun h => hsh ▸ h)
  · exact hi.clientStep (i := i) (pc' := .idle) hpc (by simpa [spotFinish, finishCall] using hq) hn hkw hw (by simp [spotFinish, finishCall, hcl]) rfl
      (mem_usedIds_client (i := i) (pc' := .idle) hsw hw (by simp [spotFinish, finishCall, hcl]) hs httl (fun u h => by cases h))
      (fun h => hsh ▸ h)

theorem AMap.mem_set' {α β : Type} [DecidableEq α] {m : AMap α β} {a : α} {v : β} {p : α × β}
    (h : p ∈ AMap.set m a v) : p = (a, v) ∨ p ∈ m := by
  simp only [AMap.set, List.mem_cons] at h
  rcases h with h | h
  · exact Or.inl h
  · exact Or.inr (AMap.mem_del' h)

/-- `id.next`: the one action that creates a fresh id -/
theorem idInv_idNext {b : BState} {i k v : Nat} {w : Int} {ttl : Option Nat} (hi : IdInv b)
    (hpc : b.cl[i]? = some (.idNext k v w ttl)) (cmd : Cmd) (hid : cmdId? cmd = some b.g.nextId) :
    IdInv (setClient { b with g := { b.g with nextId := b.g.nextId + 1 } } i (.send cmd)) := by
  have hc : ∀ f, (cIds (b.cl.set i (.send cmd))).count f = (cIds b.cl).count f + [b.g.nextId].count f := by
    intro f
    have := count_filterMap_set CPc.freshId? b.cl i _ (.send cmd) hpc f
    simp only [CPc.freshId?, hid, Option.toList_some, Option.toList_none, List.count_nil] at this
    simp only [cIds]; omega
  have hocc : ∀ f, occ (setClient { b with g := { b.g with nextId := b.g.nextId + 1 } } i (.send cmd)) f
      = occ b f + [b.g.nextId].count f := by
    intro f; have := hc f; simp only [occ, setClient]; omega
  have hqc : ∀ f, qc (setClient { b with g := { b.g with nextId := b.g.nextId + 1 } } i (.send cmd)) f
      = qc b f + [b.g.nextId].count f := by
    intro f; have := hc f; simp only [qc, setClient]; omega
  have hnew : occ b b.g.nextId = 0 := by
    cases h : occ b b.g.nextId with
    | zero => rfl
    | succ n => have := hi.freshLt b.g.nextId (by omega); omega
  have hcnt : ∀ f, [b.g.nextId].count f = if b.g.nextId = f then 1 else 0 := by
    intro f; simp [List.count_cons]
  have hused : ∀ u ∈ usedIds (setClient { b with g := { b.g with nextId := b.g.nextId + 1 } } i (.send cmd)), u ∈ usedIds b :=
    mem_usedIds_client rfl rfl rfl (fun p hp => ⟨p, hp, rfl⟩) (fun p hp => Or.inl hp) (fun u h => by cases h)
  refine ⟨?_, ?_, ?_, ?_, ?_, ?_, ?_⟩
  · intro f
    rw [hocc, hcnt]
    split
    · rename_i e; subst e; omega
    · have := hi.occLe f; omega
  · intro f hf
    rw [hocc, hcnt] at hf
    show f < b.g.nextId + 1
    split at hf
    · rename_i e; subst e; omega
    · have := hi.freshLt f (by omega); omega
  · intro f hf
    rw [hqc, hcnt] at hf
    show b.g.adm.kw.get? f = none
    split at hf
    · rename_i e; subst e
      cases hg : b.g.adm.kw.get? b.g.nextId with
      | none => rfl
      | some wk => have := hi.kwLt _ _ hg; omega
    · exact hi.pendQC f (by omega)
  · exact hi.pendW
  · intro u hu
    have := hi.used u (hused u hu)
    rw [hocc, hcnt]
    show _ ∧ u < b.g.nextId + 1
    split
    · rename_i e; subst e; omega
    · omega
  · intro id wk hg
    have := hi.kwLt id wk hg
    show id < b.g.nextId + 1
    omega
  · exact hi.addCharged

/-- `shutdown.kw_clear`: nothing is charged any more; the flag is already set, so `addCharged` is void -/
theorem idInv_kwClear {b : BState} {i : Nat} (hi : IdInv b) (hpc : b.cl[i]? = some .shutKwClear)
    (hsh : b.g.shutting = true) :
    IdInv (setClient { b with g := { b.g with adm := { b.g.adm with kw := [] } } } i .shutWuZero) := by
  have hc : ∀ f, (cIds (b.cl.set i .shutWuZero)).count f = (cIds b.cl).count f := by
    intro f
    have := count_filterMap_set CPc.freshId? b.cl i _ .shutWuZero hpc f
    simp only [CPc.freshId?, Option.toList_none, List.count_nil] at this
    simp only [cIds]; omega
  refine hi.transfer (fun h => by simp [setClient, hsh] at h) ?_ ?_ (Nat.le_refl _) (fun f wk h => by simp [setClient] at h)
    (fun f hf => Or.inl hf) ?_ (fun h => by simp [setClient, hsh] at h)
  · intro f; have := hc f; simp only [occ, setClient]; omega
  · intro f; have := hc f; simp only [qc, setClient]; omega
  · intro u hu
    exact Or.inl (mem_usedIds_client (b := b)
      (b' := setClient { b with g := { b.g with adm := { b.g.adm with kw := [] } } } i .shutWuZero) (i := i)
      (pc' := .shutWuZero) rfl rfl rfl (fun p hp => ⟨p, hp, rfl⟩) (fun p hp => Or.inl hp) (fun u h => by cases h) u hu)

/-- `cmd.send`: the command moves from the client to the queue -/
theorem idInv_sendOk {b : BState} {i : Nat} {cmd : Cmd} (hi : IdInv b) (hpc : b.cl[i]? = some (.send cmd)) :
    IdInv (finishCall { b with g := { b.g with queue := b.g.queue ++ [(cmd, some b.g.acks.length)], acks := b.g.acks ++ [.pending] } } i (.ack b.g.acks.length .pending)) := by
  have hc : ∀ f, (cIds (b.cl.set i .idle)).count f + (cmdId? cmd).toList.count f = (cIds b.cl).count f := by
    intro f
    have := count_filterMap_set CPc.freshId? b.cl i _ .idle hpc f
    simp only [CPc.freshId?, Option.toList_none, List.count_nil] at this
    simp only [cIds]; omega
  have hq : ∀ f, (qIds (b.g.queue ++ [(cmd, some b.g.acks.length)])).count f
      = (qIds b.g.queue).count f + (cmdId? cmd).toList.count f := by
    intro f; simp [qIds_append, qIds_cons, List.count_append]
  refine hi.transfer (fun h => h) ?_ ?_ (Nat.le_refl _) (fun _ _ h => h) (fun f hf => Or.inl hf) ?_ (fun _ c hc => ⟨hc, rfl⟩)
  · intro f; have := hc f; have := hq f; simp only [occ, finishCall]; omega
  · intro f; have := hc f; have := hq f; simp only [qc, finishCall]; omega
  · intro u hu
    refine Or.inl (mem_usedIds_client (b := b) (i := i) (pc' := .idle) ?_ ?_ ?_ ?_ ?_ ?_ u hu)
    · rfl
    · rfl
    · rfl
    · exact fun p hp => ⟨p, hp, rfl⟩
    · exact fun p hp => Or.inl hp
    · exact fun u h => by cases h

theorem idInv_ctrans {b b' : BState} {i : Nat} (hi : IdInv b)
    (hsf : ∀ (i : Nat) (pc : CPc), b.cl[i]? = some pc → pc.afterCas = true → b.g.shutting = true)
    (h : CTrans b i b') : IdInv b' := by
  cases h with
  | finish pc out hpc => exact hi.clientLocal hpc rfl rfl rfl rfl rfl rfl rfl rfl rfl (fun u h => by cases h)
  | finishStats pc out st hpc => exact hi.clientLocal hpc rfl rfl rfl rfl rfl rfl rfl rfl rfl (fun u h => by cases h)
  | spot pc st hpc => exact hi.clientLocal hpc rfl rfl rfl rfl rfl rfl rfl rfl rfl (fun u h => by cases h)
  | startPut k v w ttl hpc hw => exact hi.clientLocal hpc rfl rfl rfl rfl rfl rfl rfl rfl rfl (fun u h => by cases h)
  | startPlain r pc' hpc hp =>
    exact hi.clientLocal hpc rfl rfl rfl rfl rfl rfl rfl rfl (by cases pc' <;> first | rfl | cases hp)
      (fun u h => by cases pc' <;> simp [CPc.plain, CPc.usedId?] at hp h)
  | putPresentOk k v w ttl hpc => exact hi.clientLocal hpc rfl rfl rfl rfl rfl rfl rfl rfl rfl (fun u h => by cases h)
  | idNext k v w ttl hpc => exact idInv_idNext hi hpc _ (by cases ttl <;> rfl)
  | sendOk cmd hpc => exact idInv_sendOk hi hpc
  | delMark k hpc =>
    refine hi.clientStep hpc rfl rfl rfl rfl rfl rfl
      (mem_usedIds_client rfl rfl rfl ?_ (fun p hp => Or.inl hp) (fun u h => by cases h))
    intro p hp
    simp only [setClient] at hp
    split at hp
    · rename_i e he
      rcases AMap.mem_set' hp with rfl | hp
      · exact ⟨(k, e), AMap.mem_of_get? he, rfl⟩
      · exact ⟨p, hp, rfl⟩
    · exact ⟨p, hp, rfl⟩
  | getHit k e hpc _ _ => exact hi.clientLocal hpc rfl rfl rfl rfl rfl rfl rfl rfl rfl (fun u h => by cases h)
  | getPool k v g1 o o' hpc hp =>
    have hf := poolAdd_frame hp
    exact hi.clientLocal (pc' := .idle) hpc (by rw [hf]; rfl) (by rw [hf]; rfl) (by rw [hf]; rfl) rfl rfl rfl
      (by rw [hf]; rfl) (by rw [hf]; rfl) rfl (fun u h => by cases h) (by rw [hf]; exact fun h => h)
  | refHit k e hpc _ _ => exact hi.clientLocal hpc rfl rfl rfl rfl rfl rfl rfl rfl rfl (fun u h => by cases h)
  | refPool k v g1 o o' hpc hp =>
    have hf := poolAdd_frame hp
    exact hi.clientLocal (pc' := .idle) hpc (by rw [hf]; rfl) (by rw [hf]; rfl) (by rw [hf]; rfl) rfl rfl rfl
      (by rw [hf]; rfl) (by rw [hf]; rfl) rfl (fun u h => by cases h) (by rw [hf]; exact fun h => h)
  | shutCas hpc _ =>
    exact hi.clientLocal hpc rfl rfl rfl rfl rfl rfl rfl rfl rfl (fun u h => by cases h)
      (fun h => by simp [setClient] at h)
  | shutSendCmd hpc _ =>
    exact hi.clientLocal hpc (by simp [setClient, qIds_append, qIds_cons, cmdId?]) rfl rfl rfl rfl rfl rfl rfl rfl
      (fun u h => by cases h)
  | shutLocal pc pc' g' hpc _ h2 hg =>
    exact hi.clientLocal (pc' := pc') hpc (by show qIds g'.queue = _; rw [hg]) (by show g'.nextId = _; rw [hg])
      (by show g'.adm.kw = _; rw [hg]) rfl rfl rfl (by show g'.store = _; rw [hg]) (by show g'.ttl = _; rw [hg])
      (by cases pc' <;> simp_all [CPc.afterCas, CPc.freshId?])
      (fun u h => by cases pc' <;> simp_all [CPc.afterCas, CPc.usedId?])
      (by show g'.shutting = false → _; rw [hg]; exact fun h => h)
  | mgetStep pc pc' g' hpc _ h2 hg =>
    exact hi.clientLocal (pc' := pc') hpc (by show qIds g'.queue = _; rw [hg]) (by show g'.nextId = _; rw [hg])
      (by show g'.adm.kw = _; rw [hg]) rfl rfl rfl (by show g'.store = _; rw [hg]) (by show g'.ttl = _; rw [hg])
      (by clear hg; cases pc' <;> simp_all [CPc.isMget, CPc.freshId?])
      (fun u h => by clear hg; cases pc' <;> simp_all [CPc.isMget, CPc.usedId?])
      (by show g'.shutting = false → _; rw [hg]; exact fun h => h)
  | mgetFin pc g' out hpc _ hg =>
    exact hi.clientLocal (pc' := .idle) hpc (by show qIds g'.queue = _; rw [hg]) (by show g'.nextId = _; rw [hg])
      (by show g'.adm.kw = _; rw [hg]) rfl rfl rfl (by show g'.store = _; rw [hg]) (by show g'.ttl = _; rw [hg])
      rfl (fun u h => by cases h)
      (by show g'.shutting = false → _; rw [hg]; exact fun h => h)
  | shutStoreClear hpc _ =>
    exact hi.clientStep hpc rfl rfl rfl rfl rfl rfl
      (mem_usedIds_client rfl rfl rfl (fun p hp => by cases hp) (fun p hp => Or.inl hp) (fun u h => by cases h))
  | shutKwClear hpc => exact idInv_kwClear hi hpc (hsf i _ hpc rfl)
  | shutWuZero hpc _ => exact hi.clientLocal hpc rfl rfl rfl rfl rfl rfl rfl rfl rfl (fun u h => by cases h)
  | shutTtlClear hpc _ =>
    exact hi.clientStep hpc rfl rfl rfl rfl rfl rfl
      (mem_usedIds_client rfl rfl rfl (fun p hp => ⟨p, hp, rfl⟩) (fun p hp => by cases hp) (fun u h => by cases h))
  | upPut k v w ttl rm val weight hpc hw =>
    exact hi.clientLocal hpc rfl rfl rfl rfl rfl rfl rfl rfl rfl (fun u h => by cases h)
  | upUpdate k v w ttl rm e ne uw hpc he =>
    refine hi.clientStep hpc rfl rfl rfl rfl rfl rfl
      (mem_usedIds_client rfl rfl rfl ?_ (fun p hp => Or.inl hp) ?_)
    · intro p hp
      rcases AMap.mem_set' hp with rfl | hp
      · exact ⟨(k, e), AMap.mem_of_get? he, rfl⟩
      · exact ⟨p, hp, rfl⟩
    · intro u hu
      simp only [CPc.usedId?, Option.some.injEq] at hu
      subst hu
      rw [mem_usedIds]
      exact Or.inl ⟨(k, e), AMap.mem_of_get? he, rfl⟩
  | upWeightOfTtl id uw old new pc' hpc hu hf hp =>
    refine hi.clientLocal hpc rfl rfl rfl rfl rfl rfl rfl rfl hf ?_
    intro u hu'
    rw [hu] at hu'
    cases hu'
    exact mem_usedIds_of_client hpc rfl
  | upAfterSame id uw old new hpc => exact hi.upAfter hpc rfl rfl rfl rfl rfl rfl rfl (fun p hp => Or.inl hp) rfl
  | upAfterPut pc id e uw hpc hu _ =>
    refine hi.upAfter hpc rfl rfl rfl rfl rfl rfl rfl ?_ rfl
    intro p hp
    rcases AMap.mem_set' hp with rfl | hp
    · exact Or.inr (mem_usedIds_of_client hpc hu)
    · exact Or.inl hp
  | upAfterDelete id e uw hpc _ =>
    exact hi.upAfter hpc rfl rfl rfl rfl rfl rfl rfl (fun p hp => Or.inl (AMap.mem_del' hp)) rfl
  | upTtlRemove id old new uw hpc _ =>
    refine hi.clientStep hpc rfl rfl rfl rfl rfl rfl
      (mem_usedIds_client rfl rfl rfl (fun p hp => ⟨p, hp, rfl⟩) (fun p hp => Or.inl (AMap.mem_del' hp)) ?_)
    intro u hu
    simp only [CPc.usedId?, Option.some.injEq] at hu
    subst hu
    exact mem_usedIds_of_client hpc rfl

theorem IdInv.frame {b b' : BState} (hi : IdInv b) (hq : b'.g.queue = b.g.queue) (hcl : b'.cl = b.cl)
    (hw : b'.w = b.w) (hsw : b'.sw = b.sw) (hn : b'.g.nextId = b.g.nextId) (hkw : b'.g.adm.kw = b.g.adm.kw)
    (hst : b'.g.store = b.g.store) (httl : b'.g.ttl = b.g.ttl) (hsh : b'.g.shutting = b.g.shutting) : IdInv b' := by
  have hu : usedIds b' = usedIds b := by simp [usedIds, hcl, hw, hsw, hst, httl]
  refine hi.transfer (fun h => hsh ▸ h) (fun f => Nat.le_of_eq (occ_congr hq hcl hw f)) (fun f => Nat.le_of_eq (qc_congr hq hcl f))
    (Nat.le_of_eq hn.symm) (by rw [hkw]; exact fun _ _ h => h) (fun f hf => Or.inl (hw ▸ hf))
    (fun u h => Or.inl (hu ▸ h)) (fun _ c hc => ⟨hw ▸ hc, by rw [hkw]⟩)

theorem idInv_issue {b b' : BState} {i : Nat} {r : Req} (hi : IdInv b) (h : issue b i r = .ok b') : IdInv b' := by
  unfold issue at h
  split at h
  · rename_i hpc
    simp only [Except.ok.injEq] at h; subst h
    exact hi.clientLocal hpc rfl rfl rfl rfl rfl rfl rfl rfl rfl (fun u h => by cases h)
  · cases h

theorem idInv_init (cfg : Cfg) (now : Nat) (seeds : List Nat) (clients : Nat) :
    IdInv (BState.init cfg now seeds clients) := by
  have hc : cIds (List.replicate clients CPc.idle) = [] := by
    simp only [cIds, List.filterMap_eq_nil_iff]
    intro a ha
    rw [List.eq_of_mem_replicate ha]; rfl
  have hu : (List.replicate clients CPc.idle).filterMap CPc.usedId? = [] := by
    simp only [List.filterMap_eq_nil_iff]
    intro a ha
    rw [List.eq_of_mem_replicate ha]; rfl
  have hocc : ∀ f, occ (BState.init cfg now seeds clients) f = 0 := by
    intro f; simp [occ, BState.init, State.init, hc, WPc.freshId?]
  refine ⟨?_, ?_, ?_, ?_, ?_, ?_, ?_⟩
  · intro f; rw [hocc]; omega
  · intro f hf; rw [hocc] at hf; omega
  · intro f hf; rfl
  · intro f hf; rfl
  · intro u hu'
    simp [usedIds, BState.init, State.init, hu, SPc.ids, WPc.usedId?] at hu'
  · intro id wk h; simp [BState.init, State.init] at h
  · intro _ c h; simp [BState.init] at h

/-! ## 7  the accounting identity

  `KwInv` holds at every state; `AcctInv` (the identity and the stale free space) while the cache is running. -/

structure KwInv (b : BState) : Prop where
  kwNoDup : AMap.NoDup b.g.adm.kw
  positive : ∀ id wk, b.g.adm.kw.get? id = some wk → 0 < wk.weight
  wvictim : ∀ wk, b.w.victim? = some wk → 0 < wk.weight
  svictim : ∀ wk, b.sw.victim? = some wk → 0 < wk.weight

structure AcctInv (b : BState) : Prop where
  sum : b.g.adm.used = sumW b.g.adm.kw - pendingAdd b + pendingSub b
  stale : ∀ space, b.w.space? = some space → space ≤ b.g.adm.max - b.g.adm.used

theorem positive_del {kw : AMap Nat WKey} (h : ∀ id wk, kw.get? id = some wk → 0 < wk.weight) (x : Nat) :
    ∀ id wk, (kw.del x).get? id = some wk → 0 < wk.weight := by
  intro id wk hg
  rw [AMap.get?_del] at hg
  split at hg
  · cases hg
  · exact h id wk hg

theorem positive_set {kw : AMap Nat WKey} (h : ∀ id wk, kw.get? id = some wk → 0 < wk.weight) (x : Nat) (v : WKey)
    (hv : 0 < v.weight) : ∀ id wk, (kw.set x v).get? id = some wk → 0 < wk.weight := by
  intro id wk hg
  rw [AMap.get?_set] at hg
  split at hg
  · cases hg; exact hv
  · exact h id wk hg

theorem kwInv_wtrans {b b' : BState} (hs : KwInv b) (hp : PosInv b) (h : WTrans b b') : KwInv b' := by
  obtain ⟨h1, h2, h4, h5⟩ := hs
  cases h
  case evRemoveSome c e s victim wk hw hg =>
    refine ⟨AMap.noDup_del h1 _, positive_del h2 _, ?_, h5⟩
    simp [WPc.victim?]; exact h2 _ _ hg
  case delKwSome id exp hh wk hw hg =>
    refine ⟨AMap.noDup_del h1 _, positive_del h2 _, ?_, h5⟩
    simp [WPc.victim?]; exact h2 _ _ hg
  case insert c hw =>
    have hcw : 0 < c.w := hp.wcmd c (by simp [WPc.cmd?, hw])
    refine ⟨AMap.noDup_set h1 _ _, positive_set h2 _ _ hcw, ?_, h5⟩
    simp [WPc.victim?]
  case updateApplied id w hh wk hw hfree hg =>
    have hcw : 0 < w := hp.wupd w (by simp [WPc.updW?, hw])
    refine ⟨AMap.noDup_set h1 _ _, positive_set h2 _ _ hcw, ?_, h5⟩
    simp [finishCmd, WPc.victim?]
  all_goals constructor
  all_goals (try simp only [finishCmd, rejectCmd, ttlPut, ttlDelete, applyEvict_adm])
  all_goals (try assumption)
  all_goals simp [WPc.victim?, *] at *
  all_goals (try assumption)

theorem acctInv_wtrans {b b' : BState} (hk : KwInv b) (hs : AcctInv b) (hi : IdInv b) (h : WTrans b b') :
    AcctInv b' := by
  obtain ⟨h1, h2, h4, h5⟩ := hk
  obtain ⟨h3, h6⟩ := hs
  cases h
  case evRemoveSome c e s victim wk hw hg =>
    refine ⟨?_, ?_⟩
    · simp [pendingAdd, pendingSub, hw, sumW_del h1 hg] at h3 ⊢; omega
    · simp [WPc.space?]
  case delKwSome id exp hh wk hw hg =>
    refine ⟨?_, ?_⟩
    · simp [pendingAdd, pendingSub, hw, sumW_del h1 hg] at h3 ⊢; omega
    · simp [WPc.space?]
  case insert c hw =>
    have hnone : b.g.adm.kw.get? c.id = none := hi.pendW c.id (by simp [WPc.pendId?, hw])
    refine ⟨?_, ?_⟩
    · simp [pendingAdd, pendingSub, hw, sumW_set, sumW_del_none hnone] at h3 ⊢; omega
    · simp [WPc.space?]
  case updateApplied id w hh wk hw hfree hg =>
    refine ⟨?_, ?_⟩
    · simp [pendingAdd, pendingSub, hw, finishCmd, sumW_set, sumW_del h1 hg] at h3 ⊢; omega
    · simp [finishCmd, WPc.space?]
  all_goals constructor
  all_goals (try simp only [finishCmd, rejectCmd, ttlPut, ttlDelete, applyEvict_adm])
  all_goals (try assumption)
  all_goals simp [pendingAdd, pendingSub, WPc.victim?, WPc.space?, *] at *
  all_goals (try assumption)
  all_goals omega

theorem kwInv_strans {b b' : BState} (hs : KwInv b) (h : STrans b b') : KwInv b' := by
  obtain ⟨h1, h2, h4, h5⟩ := hs
  cases h
  case kwRemoveSome now shard rest id wk hg hsw hu =>
    refine ⟨AMap.noDup_del h1 _, positive_del h2 _, h4, ?_⟩
    simp [SPc.victim?]; exact h2 _ _ hg
  all_goals (try unfold sweepNext)
  all_goals (try split)
  all_goals constructor
  all_goals (try simp only [applyEvictId_adm])
  all_goals (try assumption)
  all_goals simp [SPc.victim?, *] at *
  all_goals (try assumption)

theorem acctInv_strans {b b' : BState} (hk : KwInv b) (hs : AcctInv b) (h : STrans b b') : AcctInv b' := by
  obtain ⟨h1, h2, h4, h5⟩ := hk
  obtain ⟨h3, h6⟩ := hs
  cases h
  case kwRemoveSome now shard rest id wk hg hsw hu =>
    refine ⟨?_, h6⟩
    simp [pendingAdd, pendingSub, hsw, sumW_del h1 hg] at h3 ⊢; omega
  all_goals (try unfold sweepNext)
  all_goals (try split)
  all_goals constructor
  all_goals (try simp only [applyEvictId_adm])
  all_goals (try assumption)
  all_goals simp [pendingAdd, pendingSub, SPc.victim?, *] at *
  all_goals (try assumption)
  all_goals first | omega | (intro space hsp; have := h6 space hsp; omega)

/-- whoever leaves the charges (or clears them all) and the positions of worker and sweeper alone keeps `KwInv` -/
theorem KwInv.frame {b b' : BState} (hs : KwInv b) (hkw : b'.g.adm.kw = b.g.adm.kw ∨ b'.g.adm.kw = [])
    (hw : b'.w = b.w) (hsw : b'.sw = b.sw) : KwInv b' := by
  obtain ⟨h1, h2, h4, h5⟩ := hs
  rcases hkw with hkw | hkw
  · exact ⟨by rw [hkw]; exact h1, by rw [hkw]; exact h2, by rw [hw]; exact h4, by rw [hsw]; exact h5⟩
  · exact ⟨by rw [hkw]; exact AMap.noDup_nil, by rw [hkw]; intro id wk h; simp at h, by rw [hw]; exact h4,
      by rw [hsw]; exact h5⟩

/-- whoever leaves the admission part and the positions of worker and sweeper alone keeps `AcctInv` -/
theorem AcctInv.frame {b b' : BState} (hs : AcctInv b) (hadm : b'.g.adm = b.g.adm) (hw : b'.w = b.w) (hsw : b'.sw = b.sw) :
    AcctInv b' := by
  obtain ⟨h3, h6⟩ := hs
  refine ⟨?_, by rw [hw, hadm]; exact h6⟩
  simp only [pendingAdd, pendingSub, hadm, hw, hsw] at h3 ⊢
  exact h3

theorem kwInv_init (cfg : Cfg) (now : Nat) (seeds : List Nat) (clients : Nat) :
    KwInv (BState.init cfg now seeds clients) := by
  refine ⟨AMap.noDup_nil, ?_, ?_, ?_⟩ <;>
    simp [BState.init, State.init, WPc.victim?, SPc.victim?]

theorem acctInv_init (cfg : Cfg) (now : Nat) (seeds : List Nat) (clients : Nat) :
    AcctInv (BState.init cfg now seeds clients) := by
  refine ⟨?_, ?_⟩ <;>
    simp [BState.init, State.init, pendingAdd, pendingSub, WPc.space?]

/-! ## 7a  the shutdown flag -/

/-- a `shutdown()` past its compare-and-swap has set the flag -/
def ShutF (b : BState) : Prop :=
  ∀ (i : Nat) (pc : CPc), b.cl[i]? = some pc → pc.afterCas = true → b.g.shutting = true

theorem ShutF.frame {b b' : BState} (hs : ShutF b) (hcl : b'.cl = b.cl) (hsh : b'.g.shutting = b.g.shutting) : ShutF b' := by
  intro i pc h1 h2
  rw [hsh]; exact hs i pc (hcl ▸ h1) h2

theorem ShutF.client {b b' : BState} {i : Nat} {pc' : CPc} (hs : ShutF b) (hcl : b'.cl = b.cl.set i pc')
    (hmono : b.g.shutting = true → b'.g.shutting = true) (hnew : pc'.afterCas = true → b'.g.shutting = true) :
    ShutF b' := by
  intro j pc hj hpc
  rw [hcl, List.getElem?_set] at hj
  split at hj
  · split at hj
    · cases hj; exact hnew hpc
    · cases hj
  · exact hmono (hs j pc hj hpc)

theorem shutF_ctrans {b b' : BState} {i : Nat} (hs : ShutF b) (h : CTrans b i b') : ShutF b' := by
  obtain ⟨pc, pc', hpc, hcl, hnew, _⟩ := ctrans_cl h
  refine hs.client hcl (ctrans_shutting h) ?_
  intro ha
  rcases hnew ha with h' | h'
  · exact h'
  · exact ctrans_shutting h (hs i pc hpc h')

/-! ## 7b  the store read guards of `get_ref` -/

structure GuardInv (b : BState) : Prop where
  owner : ∀ p ∈ b.storeReaders, ∃ k v, b.cl[p.1]? = some (.refPool k v) ∧ p.2 = storeShardOf b k
  one : b.storeReaders.Pairwise (fun p q => p.1 ≠ q.1)
  held : ∀ (i k v : Nat), b.cl[i]? = some (.refPool k v) → (i, storeShardOf b k) ∈ b.storeReaders

theorem storeShardOf_congr {b b' : BState} (h : b'.storeShard = b.storeShard) (k : Nat) :
    storeShardOf b' k = storeShardOf b k := by
  simp [storeShardOf, h]

theorem GuardInv.frame {b b' : BState} (hg : GuardInv b) (hcl : b'.cl = b.cl) (hr : b'.storeReaders = b.storeReaders)
    (hs : b'.storeShard = b.storeShard) : GuardInv b' := by
  obtain ⟨h1, h2, h3⟩ := hg
  refine ⟨?_, by rw [hr]; exact h2, ?_⟩
  · intro p hp
    rw [hr] at hp
    obtain ⟨k, v, ha, hb⟩ := h1 p hp
    exact ⟨k, v, by rw [hcl]; exact ha, by rw [storeShardOf_congr hs]; exact hb⟩
  · intro i k v hi
    rw [hr, storeShardOf_congr hs]
    exact h3 i k v (hcl ▸ hi)

/-- client `i` moves between two positions that hold no guard; the guards stay -/
theorem GuardInv.client {b b' : BState} {i : Nat} {pc pc' : CPc} (hg : GuardInv b) (hpc : b.cl[i]? = some pc)
    (hn : pc.isRefPool = false) (hn' : pc'.isRefPool = false) (hcl : b'.cl = b.cl.set i pc')
    (hr : b'.storeReaders = b.storeReaders) (hs : b'.storeShard = b.storeShard) : GuardInv b' := by
  obtain ⟨h1, h2, h3⟩ := hg
  refine ⟨?_, by rw [hr]; exact h2, ?_⟩
  · intro p hp
    rw [hr] at hp
    obtain ⟨k, v, ha, hb⟩ := h1 p hp
    have hne : i ≠ p.1 := by
      intro e; subst e
      rw [hpc] at ha; cases ha
      simp [CPc.isRefPool] at hn
    exact ⟨k, v, by rw [hcl, List.getElem?_set_ne hne]; exact ha, by rw [storeShardOf_congr hs]; exact hb⟩
  · intro j k v hj
    rw [hcl, List.getElem?_set] at hj
    split at hj
    · split at hj
      · cases hj; simp [CPc.isRefPool] at hn'
      · cases hj
    · rw [hr, storeShardOf_congr hs]
      exact h3 j k v hj

theorem guardInv_ctrans {b b' : BState} {i : Nat} (hg : GuardInv b) (h : CTrans b i b') : GuardInv b' := by
  have hs : b'.storeShard = b.storeShard := (ctrans_frame h).2.2.2.2.2.2
  obtain ⟨pc, pc', hpc, hcl, _, hcase⟩ := ctrans_cl h
  have hlt : i < b.cl.length := by
    rcases Nat.lt_or_ge i b.cl.length with h | h
    · exact h
    · rw [List.getElem?_eq_none h] at hpc; cases hpc
  rcases hcase with ⟨hn, hn', hr⟩ | ⟨k, v, rfl, rfl, hr⟩ | ⟨k, v, rfl, rfl, hr⟩
  · exact hg.client hpc hn hn' hcl hr hs
  · -- `store.get` of `get_ref` hits: the guard is taken
    obtain ⟨h1, h2, h3⟩ := hg
    have hfresh : ∀ p ∈ b.storeReaders, i ≠ p.1 := by
      intro p hp e; subst e
      obtain ⟨_, _, ha, _⟩ := h1 p hp
      rw [hpc] at ha; cases ha
    refine ⟨?_, ?_, ?_⟩
    · intro p hp
      rw [hr, List.mem_cons] at hp
      rcases hp with rfl | hp
      · exact ⟨k, v, by rw [hcl, List.getElem?_set_self hlt], by rw [storeShardOf_congr hs]⟩
      · obtain ⟨k', v', ha, hb⟩ := h1 p hp
        exact ⟨k', v', by rw [hcl, List.getElem?_set_ne (hfresh p hp)]; exact ha, by rw [storeShardOf_congr hs]; exact hb⟩
    · rw [hr, List.pairwise_cons]
      exact ⟨fun p hp => hfresh p hp, h2⟩
    · intro j k' v' hj
      rw [hcl, List.getElem?_set] at hj
      rw [hr, storeShardOf_congr hs]
      split at hj
      · rename_i e; subst e
        cases hj; exact List.mem_cons_self
      · exact List.mem_cons_of_mem _ (h3 j k' v' hj)
  · -- `pool.add` of `get_ref`: the call returns, the guard is dropped
    obtain ⟨h1, h2, h3⟩ := hg
    refine ⟨?_, ?_, ?_⟩
    · intro p hp
      rw [hr, List.mem_filter] at hp
      obtain ⟨hp, hne⟩ := hp
      have hne : i ≠ p.1 := by intro e; subst e; simp at hne
      obtain ⟨k', v', ha, hb⟩ := h1 p hp
      exact ⟨k', v', by rw [hcl, List.getElem?_set_ne hne]; exact ha, by rw [storeShardOf_congr hs]; exact hb⟩
    · rw [hr]; exact h2.filter _
    · intro j k' v' hj
      rw [hcl, List.getElem?_set] at hj
      rw [hr, storeShardOf_congr hs, List.mem_filter]
      split at hj
      · cases hj
      · rename_i hne
        exact ⟨h3 j k' v' hj, by simpa using fun e => hne e.symm⟩

theorem guardInv_init (cfg : Cfg) (now : Nat) (seeds : List Nat) (clients : Nat) (shardMap : List (Nat × Nat)) :
    GuardInv { BState.init cfg now seeds clients with storeShard := shardMap } := by
  refine ⟨by simp [BState.init], by simp [BState.init], ?_⟩
  intro i k v h
  simp only [BState.init, List.getElem?_replicate] at h
  split at h <;> cases h

theorem shutF_init (cfg : Cfg) (now : Nat) (seeds : List Nat) (clients : Nat) (shardMap : List (Nat × Nat)) :
    ShutF { BState.init cfg now seeds clients with storeShard := shardMap } := by
  intro i pc h ha
  simp only [BState.init, List.getElem?_replicate] at h
  split at h
  · cases h; simp [CPc.afterCas] at ha
  · cases h

/-! ## 8  `BInv`: assembly -/

theorem binv_iff {b : BState} :
    BInv b ↔ LockF b ∧ PosInv b ∧ IdInv b ∧ KwInv b ∧ (b.g.shutting = false → AcctInv b) ∧
      b.g.adm.max = b.g.cfg.maxWeight ∧ ShutF b ∧ GuardInv b := by
  constructor
  · intro h
    refine ⟨LockF.of h.wuWorker h.wuSweeper h.wuClients h.ttlSweeper h.sweepEntry, ?_, ?_, ?_, ?_, h.maxFixed,
      h.shutFlag, ⟨h.guards.1, h.guards.2.1, h.guards.2.2⟩⟩
    · refine ⟨h.cmdsPositive.1, h.cmdsPositive.2.1, h.cmdsPositive.2.2.1, ?_⟩
      intro w hw
      cases hb : b.w <;> simp [hb, WPc.updW?] at hw
      subst hw
      exact h.cmdsPositive.2.2.2 _ _ _ hb
    · exact ⟨h.freshIds.1, h.freshIds.2.1, h.freshIds.2.2.1, h.freshIds.2.2.2.1, h.freshIds.2.2.2.2.1,
        h.freshIds.2.2.2.2.2, fun hs => (h.acct hs).addCharged⟩
    · exact ⟨h.kwNoDup, h.positive, h.pendingPos.2.2.1, h.pendingPos.2.2.2⟩
    · exact fun hs => ⟨(h.acct hs).sum, (h.acct hs).staleSpace⟩
  · intro ⟨hl, hp, hi, hk, hs, hm, hsf, hg⟩
    refine ⟨hk.kwNoDup, hk.positive, fun hsh => ⟨(hs hsh).sum, hi.addCharged hsh, (hs hsh).stale⟩,
      ⟨?_, ?_, hk.wvictim, hk.svictim⟩, hl.wuWorker,
      hl.wuSweeper, hl.wuClients, hl.ttlSweeper, hl.sweepEntry, ⟨hp.queue, hp.clients, hp.wcmd, ?_⟩,
      ⟨hi.occLe, hi.freshLt, hi.pendQC, hi.pendW, hi.used, hi.kwLt⟩, hm, hsf, ⟨hg.owner, hg.one, hg.held⟩⟩
    · intro c hc; exact hp.wcmd c (by simp [hc, WPc.cmd?])
    · intro c hc
      exact ⟨hp.wcmd c (by simp [hc, WPc.cmd?]), hi.pendW c.id (by simp [hc, WPc.pendId?])⟩
    · intro id w hh hc; exact hp.wupd w (by simp [hc, WPc.updW?])

theorem binv_init (cfg : Cfg) (now : Nat) (seeds : List Nat) (clients : Nat) (shardMap : List (Nat × Nat)) :
    BInv { BState.init cfg now seeds clients with storeShard := shardMap } :=
  binv_iff.mpr ⟨(lockF_init cfg now seeds clients).frame rfl rfl rfl rfl,
    (posInv_init cfg now seeds clients).frame rfl rfl rfl,
    (idInv_init cfg now seeds clients).frame rfl rfl rfl rfl rfl rfl rfl rfl rfl,
    (kwInv_init cfg now seeds clients).frame (Or.inl rfl) rfl rfl,
    fun _ => (acctInv_init cfg now seeds clients).frame rfl rfl rfl, rfl,
    shutF_init cfg now seeds clients shardMap, guardInv_init cfg now seeds clients shardMap⟩

theorem binv_workerAct {b b' : BState} {o o' : Oracle} (hb : BInv b) (h : workerAct b o = .ok (b', o')) : BInv b' := by
  obtain ⟨hl, hp, hi, hk, hs, hm, hsf, hg⟩ := binv_iff.mp hb
  have ht := workerAct_trans h
  obtain ⟨hcl, hr, hss⟩ := wtrans_cl ht
  have hsh := wtrans_shutting ht
  exact binv_iff.mpr ⟨lockF_wtrans hl ht, posInv_wtrans hp ht, idInv_wtrans hi ht, kwInv_wtrans hk hp ht,
    fun h' => acctInv_wtrans hk (hs (hsh ▸ h')) hi ht,
    by rw [wtrans_max ht, wtrans_cfg ht]; exact hm, hsf.frame hcl hsh, hg.frame hcl hr hss⟩

theorem binv_sweeperAct {b b' : BState} {v : Option Nat} (hb : BInv b) (h : sweeperAct b v = .ok b') : BInv b' := by
  obtain ⟨hl, hp, hi, hk, hs, hm, hsf, hg⟩ := binv_iff.mp hb
  have ht := sweeperAct_trans h
  obtain ⟨_, hcl, _, _, hcfg, hmax⟩ := strans_frame ht
  obtain ⟨hsh, hr, hss⟩ := strans_frame2 ht
  exact binv_iff.mpr ⟨lockF_strans hl ht, posInv_strans hp ht, idInv_strans hi ht, kwInv_strans hk ht,
    fun h' => acctInv_strans hk (hs (hsh ▸ h')) ht,
    by rw [hmax, hcfg]; exact hm, hsf.frame hcl hsh, hg.frame hcl hr hss⟩

theorem binv_clientAct {b b' : BState} {i : Nat} {o o' : Oracle} (hb : BInv b) (h : clientAct b i o = .ok (b', o')) :
    BInv b' := by
  obtain ⟨hl, hp, hi, hk, hs, hm, hsf, hg⟩ := binv_iff.mp hb
  have ht := clientAct_trans h
  obtain ⟨hw, hsw, hwu, httl, hmax, hcfg, _⟩ := ctrans_frame ht
  refine binv_iff.mpr ⟨hl.frame hw hsw hwu httl, posInv_ctrans hp ht, idInv_ctrans hi hsf ht, ?_, ?_,
    by rw [hmax, hcfg]; exact hm, shutF_ctrans hsf ht, guardInv_ctrans hg ht⟩
  · rcases ctrans_adm ht with hadm | ⟨_, _, _, hkw⟩
    · exact hk.frame (Or.inl (by rw [hadm])) hw hsw
    · exact hk.frame hkw hw hsw
  · intro hsh'
    have hsh : b.g.shutting = false := by
      cases hb' : b.g.shutting with
      | false => rfl
      | true => rw [ctrans_shutting ht hb'] at hsh'; cases hsh'
    rcases ctrans_adm ht with hadm | ⟨pc, hpc, ha, _⟩
    · exact (hs hsh).frame hadm hw hsw
    · rw [hsf i pc hpc ha] at hsh; cases hsh

theorem binv_issue {b b' : BState} {i : Nat} {r : Req} (hb : BInv b) (h : issue b i r = .ok b') : BInv b' := by
  obtain ⟨hl, hp, hi, hk, hs, hm, hsf, hg⟩ := binv_iff.mp hb
  have hp' := posInv_issue hp h
  have hi' := idInv_issue hi h
  unfold issue at h
  split at h
  · rename_i hpc
    simp only [Except.ok.injEq] at h; subst h
    exact binv_iff.mpr ⟨hl.frame rfl rfl rfl rfl, hp', hi', hk.frame (Or.inl rfl) rfl rfl,
      fun h' => (hs h').frame rfl rfl rfl, hm,
      hsf.client (i := i) (pc' := .start r) rfl (fun h => h) (fun h => by simp [CPc.afterCas] at h),
      hg.client (i := i) (pc' := .start r) hpc rfl rfl rfl rfl rfl⟩
  · cases h

theorem binv_consumer {b : BState} {g' : State} {out : Out} {o o' : Oracle} (hb : BInv b)
    (h : consumerStep b.g o = .ok (g', out, o')) : BInv { b with g := g' } := by
  obtain ⟨hl, hp, hi, hk, hs, hm, hsf, hg⟩ := binv_iff.mp hb
  have hf := consumerStep_frame h
  have hsh : g'.shutting = b.g.shutting := by rw [hf]
  exact binv_iff.mpr ⟨hl.frame rfl rfl rfl rfl, hp.frame (by show g'.queue = _; rw [hf]) rfl rfl,
    hi.frame (by show g'.queue = _; rw [hf]) rfl rfl rfl (by show g'.nextId = _; rw [hf])
      (by show g'.adm.kw = _; rw [hf]) (by show g'.store = _; rw [hf]) (by show g'.ttl = _; rw [hf]) hsh,
    hk.frame (Or.inl (by show g'.adm.kw = _; rw [hf])) rfl rfl,
    fun h' => (hs (hsh ▸ h')).frame (by show g'.adm = _; rw [hf]) rfl rfl,
    by show g'.adm.max = g'.cfg.maxWeight; rw [hf]; exact hm, hsf.frame rfl hsh, hg.frame rfl rfl rfl⟩

theorem binv_advance {b : BState} (d : Nat) (hb : BInv b) : BInv { b with g := { b.g with now := b.g.now + d } } := by
  obtain ⟨hl, hp, hi, hk, hs, hm, hsf, hg⟩ := binv_iff.mp hb
  exact binv_iff.mpr ⟨hl.frame rfl rfl rfl rfl, hp.frame rfl rfl rfl, hi.frame rfl rfl rfl rfl rfl rfl rfl rfl rfl,
    hk.frame (Or.inl rfl) rfl rfl, fun h' => (hs h').frame rfl rfl rfl, hm, hsf.frame rfl rfl, hg.frame rfl rfl rfl⟩

/-- every atomic action of every thread preserves the invariant -/
theorem binv_step {b b' : BState} {a : Act} {o o' : Oracle} (hb : BInv b) (h : stepB b a o = .ok (b', o')) :
    BInv b' := by
  cases a with
  | issue i r =>
    simp only [stepB] at h
    split at h
    · rename_i b1 hi
      simp only [Except.ok.injEq, Prod.mk.injEq] at h; obtain ⟨rfl, rfl⟩ := h
      exact binv_issue hb hi
    · cases h
  | client i => exact binv_clientAct hb h
  | worker => exact binv_workerAct hb h
  | sweeper v =>
    simp only [stepB] at h
    split at h
    · rename_i b1 hs
      simp only [Except.ok.injEq, Prod.mk.injEq] at h; obtain ⟨rfl, rfl⟩ := h
      exact binv_sweeperAct hb hs
    · cases h
  | consumer =>
    simp only [stepB] at h
    split at h
    · rename_i g' out o1 hc
      simp only [Except.ok.injEq, Prod.mk.injEq] at h; obtain ⟨rfl, rfl⟩ := h
      exact binv_consumer hb hc
    · cases h
  | advance d =>
    simp only [stepB, Except.ok.injEq, Prod.mk.injEq] at h; obtain ⟨rfl, rfl⟩ := h
    exact binv_advance d hb

/-- the invariant holds at every reachable state of every interleaving -/
theorem binv_reach {cfg : Cfg} {now : Nat} {seeds : List Nat} {clients : Nat} {b : BState}
    (h : Reach cfg now seeds clients b) : BInv b := by
  induction h with
  | init shardMap => exact binv_init cfg now seeds clients shardMap
  | step _ hs ih => exact binv_step ih hs

/-! ## 9  the shutdown flag is monotone, the shard map is constant -/

/-- The shutdown flag is never reset: no action of any thread takes it from `true` back to `false`. -/
theorem stepB_shutting_mono {b b' : BState} {a : Act} {o o' : Oracle} (h : stepB b a o = .ok (b', o'))
    (hs : b.g.shutting = true) : b'.g.shutting = true := by
  cases a with
  | issue i r =>
    simp only [stepB] at h
    split at h
    · rename_i b1 hi
      simp only [Except.ok.injEq, Prod.mk.injEq] at h; obtain ⟨rfl, rfl⟩ := h
      unfold issue at hi
      split at hi
      · simp only [Except.ok.injEq] at hi; subst hi; exact hs
      · cases hi
    · cases h
  | client i => exact ctrans_shutting (clientAct_trans h) hs
  | worker => rw [wtrans_shutting (workerAct_trans h)]; exact hs
  | sweeper v =>
    simp only [stepB] at h
    split at h
    · rename_i b1 hs'
      simp only [Except.ok.injEq, Prod.mk.injEq] at h; obtain ⟨rfl, rfl⟩ := h
      rw [(strans_frame2 (sweeperAct_trans hs')).1]; exact hs
    · cases h
  | consumer =>
    simp only [stepB] at h
    split at h
    · rename_i g' out o1 hc
      simp only [Except.ok.injEq, Prod.mk.injEq] at h; obtain ⟨rfl, rfl⟩ := h
      show g'.shutting = true
      rw [consumerStep_frame hc]; exact hs
    · cases h
  | advance d =>
    simp only [stepB, Except.ok.injEq, Prod.mk.injEq] at h; obtain ⟨rfl, rfl⟩ := h
    exact hs

/-- contrapositive: a state that is still running was reached through running states only -/
theorem stepB_running_before {b b' : BState} {a : Act} {o o' : Oracle} (h : stepB b a o = .ok (b', o'))
    (hs : b'.g.shutting = false) : b.g.shutting = false := by
  cases hb : b.g.shutting with
  | false => rfl
  | true => rw [stepB_shutting_mono h hb] at hs; cases hs

/-- The map of keys to store shards is a configuration input: no action changes it. -/
theorem stepB_storeShard {b b' : BState} {a : Act} {o o' : Oracle} (h : stepB b a o = .ok (b', o')) :
    b'.storeShard = b.storeShard := by
  cases a with
  | issue i r =>
    simp only [stepB] at h
    split at h
    · rename_i b1 hi
      simp only [Except.ok.injEq, Prod.mk.injEq] at h; obtain ⟨rfl, rfl⟩ := h
      unfold issue at hi
      split at hi
      · simp only [Except.ok.injEq] at hi; subst hi; rfl
      · cases hi
    · cases h
  | client i => exact (ctrans_frame (clientAct_trans h)).2.2.2.2.2.2
  | worker => exact (wtrans_cl (workerAct_trans h)).2.2
  | sweeper v =>
    simp only [stepB] at h
    split at h
    · rename_i b1 hs'
      simp only [Except.ok.injEq, Prod.mk.injEq] at h; obtain ⟨rfl, rfl⟩ := h
      exact (strans_frame2 (sweeperAct_trans hs')).2.2
    · cases h
  | consumer =>
    simp only [stepB] at h
    split at h
    · simp only [Except.ok.injEq, Prod.mk.injEq] at h; obtain ⟨rfl, rfl⟩ := h
      rfl
    · cases h
  | advance d =>
    simp only [stepB, Except.ok.injEq, Prod.mk.injEq] at h; obtain ⟨rfl, rfl⟩ := h
    rfl

end B
end Cached
