/-
  The invariant `BInv` of the ACTION-GRANULARITY model (CachedModel/LayerB.lean) and its preservation by every
  atomic action of every thread (`binv_step`), hence at every reachable state of every interleaving (`binv_reach`).
-/
import CachedModel.LayerB
import CachedProofs.Lemmas.Weights
import CachedProofs.Lemmas.Admission

namespace Cached
namespace B

/-! ## 1  definitions -/

/-- every state some interleaving of clients, worker, sweeper and consumer can reach -/
inductive Reach (cfg : Cfg) (now : Nat) (seeds : List Nat) (clients : Nat) : BState → Prop where
  | init : Reach cfg now seeds clients (BState.init cfg now seeds clients)
  | step {b b' : BState} {a : Act} {o o' : Oracle} :
      Reach cfg now seeds clients b → stepB b a o = .ok (b', o') → Reach cfg now seeds clients b'

/-- weight that has been taken out of `kw` but not yet out of `used` (between `kw.remove` and `wu.sub`),
    summed over worker and sweeper -/
def pendingSub (b : BState) : Int :=
  (match b.w with
   | .evSub _ _ _ _ wk => wk.weight
   | .delSub _ wk _ _ => wk.weight
   | _ => 0) +
  (match b.sw with
   | .sub _ _ _ _ wk => wk.weight
   | _ => 0)

/-- weight that is already in `kw` but not yet in `used` (between `kw.insert` and `wu.add`) -/
def pendingAdd (b : BState) : Int :=
  match b.w with
  | .add c => c.w
  | _ => 0

/-- the put command the worker is executing -/
def WPc.cmd? : WPc → Option PutCmd
  | .present c | .space0 c | .sampleInit c _ _ | .evRemove c _ _ _ | .evSub c _ _ _ _ | .evStore c _ _ _ _
  | .evSpace c _ _ | .fill c _ _ _ | .emptySpace c | .insert c | .add c | .storePut c | .ttlPut c _ => some c
  | _ => none

/-- the charge the worker has taken out of `kw` and holds in a local -/
def WPc.victim? : WPc → Option WKey
  | .evSub _ _ _ _ wk | .evStore _ _ _ _ wk | .delSub _ wk _ _ => some wk
  | _ => none

/-- the charge the sweeper has taken out of `kw` and holds in a local -/
def SPc.victim? : SPc → Option WKey
  | .sub _ _ _ _ wk | .store _ _ _ _ wk => some wk
  | _ => none

/-- the expiry shard the sweeper is working on -/
def SPc.shard? : SPc → Option Nat
  | .entry _ sh _ | .kwRemove _ sh _ _ | .sub _ sh _ _ _ | .store _ sh _ _ _ => some sh
  | _ => none

/-- the free space the worker read earlier and will compare with the incoming weight -/
def WPc.space? : WPc → Option Int
  | .sampleInit _ space _ | .fill _ _ _ space => some space
  | _ => none

/-- the id a command will charge, if it is a put -/
def cmdId? : Cmd → Option Nat
  | .put id _ _ _ _ => some id
  | .putTtl id _ _ _ _ _ => some id
  | _ => none

/-- the weight carried by a command is positive -/
def cmdPos : Cmd → Prop
  | .put _ _ w _ _ => 0 < w
  | .putTtl _ _ w _ _ _ => 0 < w
  | .updateWeight _ w => 0 < w
  | _ => True

/-- the weight a client carries towards a command is positive -/
def CPc.pos : CPc → Prop
  | .putPresent _ _ w _ | .idNext _ _ w _ => 0 < w
  | .send cmd => cmdPos cmd
  | _ => True

/-- FRESH ids: the id of a put command that is on its way and whose entry is not in the store yet. -/
def CPc.freshId? : CPc → Option Nat
  | .send cmd => cmdId? cmd
  | _ => none

/-- the worker's put from `recv` up to (and including the position before) `store.put` -/
def WPc.freshId? : WPc → Option Nat
  | .present c | .space0 c | .sampleInit c _ _ | .evRemove c _ _ _ | .evSub c _ _ _ _ | .evStore c _ _ _ _
  | .evSpace c _ _ | .fill c _ _ _ | .emptySpace c | .insert c | .add c | .storePut c => some c.id
  | _ => none

/-- the worker's put up to (and including the position before) `kw.insert`: the id is not charged yet -/
def WPc.pendId? : WPc → Option Nat
  | .present c | .space0 c | .sampleInit c _ _ | .evRemove c _ _ _ | .evSub c _ _ _ _ | .evStore c _ _ _ _
  | .evSpace c _ _ | .fill c _ _ _ | .emptySpace c | .insert c => some c.id
  | _ => none

def qIds (q : List (Cmd × Option Nat)) : List Nat := q.filterMap (fun p => cmdId? p.1)
def cIds (cl : List CPc) : List Nat := cl.filterMap CPc.freshId?

/-- how often `f` occurs as a fresh id -/
def occ (b : BState) (f : Nat) : Nat :=
  (qIds b.g.queue).count f + (cIds b.cl).count f + b.w.freshId?.toList.count f

/-- USED ids: ids through which some thread may reach into `kw` to delete. -/
def SPc.ids : SPc → List Nat
  | .entry _ _ rest | .sub _ _ rest _ _ | .store _ _ rest _ _ => rest.map (·.1)
  | .kwRemove _ _ rest id => id :: rest.map (·.1)
  | _ => []

def CPc.usedId? : CPc → Option Nat
  | .upWeightOf id _ _ _ | .upTtlPut id _ _ | .upTtlDelete id _ _ | .upTtlRemove id _ _ _ | .upTtlInsert id _ _ => some id
  | _ => none

def WPc.usedId? : WPc → Option Nat
  | .ttlPut c _ => some c.id
  | _ => none

def usedIds (b : BState) : List Nat :=
  b.g.store.map (·.2.id) ++ b.g.ttl.map (·.1.2) ++ b.sw.ids ++ b.cl.filterMap CPc.usedId? ++ b.w.usedId?.toList

/-- The invariant of Layer B. -/
structure BInv (b : BState) : Prop where
  kwNoDup : AMap.NoDup b.g.adm.kw
  positive : ∀ id wk, b.g.adm.kw.get? id = some wk → 0 < wk.weight
  /-- the accounting identity, modulo the in-flight locals -/
  sum : b.g.adm.used = sumW b.g.adm.kw - pendingAdd b + pendingSub b
  pendingPos : (∀ c, b.w = .add c → 0 < c.w) ∧
    (∀ c, b.w = .insert c → 0 < c.w ∧ b.g.adm.kw.get? c.id = none) ∧
    (∀ wk, b.w.victim? = some wk → 0 < wk.weight) ∧ (∀ wk, b.sw.victim? = some wk → 0 < wk.weight)
  /-- between `kw.insert` and `wu.add` the new id stays charged, at the weight that will be added -/
  addCharged : ∀ c, b.w = .add c → b.g.adm.kw.get? c.id = some { key := c.k, hash := c.hash, weight := c.w }
  /-- a free space read earlier is still available (everybody else only subtracts) -/
  staleSpace : ∀ space, b.w.space? = some space → space ≤ b.g.adm.max - b.g.adm.used
  wuWorker : b.wuOwner = some .worker ↔ (∃ c e s i wk, b.w = .evStore c e s i wk)
  wuSweeper : b.wuOwner = some .sweeper ↔ (∃ n sh r i wk, b.sw = .store n sh r i wk)
  wuClients : ∀ i, b.wuOwner ≠ some (.client i) ∧ b.wuOwner ≠ some .consumer
  ttlSweeper : (b.ttlOwner = none ↔ (b.sw = .begin ∨ b.sw = .fin)) ∧ (∀ sh, b.ttlOwner = some sh → b.sw.shard? = some sh)
  cmdsPositive : (∀ p ∈ b.g.queue, cmdPos p.1) ∧ (∀ (i : Nat) (pc : CPc), b.cl[i]? = some pc → pc.pos) ∧
    (∀ c, b.w.cmd? = some c → 0 < c.w) ∧ (∀ id w h, b.w = .update id w h → 0 < w)
  /-- fresh ids are pairwise distinct, below `nextId`, not charged before `kw.insert`, and nobody holds
      one of them as a handle into `kw` (store entry, expiry index, sweeper or client local) -/
  freshIds : (∀ f, occ b f ≤ 1) ∧ (∀ f, 0 < occ b f → f < b.g.nextId) ∧
    (∀ f, 0 < (qIds b.g.queue).count f + (cIds b.cl).count f → b.g.adm.kw.get? f = none) ∧
    (∀ f, b.w.pendId? = some f → b.g.adm.kw.get? f = none) ∧
    (∀ u ∈ usedIds b, occ b u = 0 ∧ u < b.g.nextId) ∧
    (∀ id wk, b.g.adm.kw.get? id = some wk → id < b.g.nextId)
  maxFixed : b.g.adm.max = b.g.cfg.maxWeight

/-! ## 2  the actions as relations

  `workerAct`, `sweeperAct` and `clientAct` are re-stated as inductive relations with one constructor per branch
  (`workerAct_trans`, …), so that every invariant below is proved by one `cases` over the branches. -/

/-- the ways `loopDecide` can end -/
theorem loopDecide_spec {b : BState} {c : PutCmd} {e : Nat} {s : List SKey} {space : Int} {o : Oracle}
    {b' : BState} {o' : Oracle} (h : loopDecide b c e s space o = .ok (b', o')) :
    (b' = { b with w := .insert c } ∧ space ≥ c.w) ∨ b' = { b with w := .emptySpace c } ∨
    b' = rejectCmd b c.h (.rejected .noSpace) ∨ ∃ s' k, b' = { b with w := .evRemove c e s' k } := by
  unfold loopDecide at h
  split at h
  · simp only [Except.ok.injEq, Prod.mk.injEq] at h
    exact Or.inl ⟨h.1.symm, by assumption⟩
  · split at h
    · cases h
    · split at h
      · cases h
      · simp only [Except.ok.injEq, Prod.mk.injEq] at h
        exact Or.inr (Or.inl h.1.symm)
    · split at h
      · cases h
      · split at h
        · cases h
        · split at h
          · simp only [Except.ok.injEq, Prod.mk.injEq] at h
            exact Or.inr (Or.inr (Or.inl h.1.symm))
          · simp only [Except.ok.injEq, Prod.mk.injEq] at h
            exact Or.inr (Or.inr (Or.inr ⟨_, _, h.1.symm⟩))

/-- One action of the command worker, as a relation: one constructor per branch of `workerAct`. -/
inductive WTrans (b : BState) : BState → Prop where
  | recvPut (c : PutCmd) (q) : b.w = .recv → b.g.queue = (cmdOfPut c, c.h) :: q →
      WTrans b { b with g := { b.g with queue := q }, w := .present c }
  | recvUpdate (id w h q) : b.w = .recv → b.g.queue = (.updateWeight id w, h) :: q →
      WTrans b { b with g := { b.g with queue := q }, w := .update id w h }
  | recvDelete (k h q) : b.w = .recv → b.g.queue = (.delete k, h) :: q →
      WTrans b { b with g := { b.g with queue := q }, w := .delStore k h }
  | recvShutdown (h q) : b.w = .recv → b.g.queue = (.shutdown, h) :: q →
      WTrans b { b with g := { b.g with queue := q, acks := setAck b.g.acks h .accepted }, w := .drain }
  | drain (cmd h q) : b.w = .drain → b.g.queue = (cmd, h) :: q →
      WTrans b { b with g := { b.g with queue := q, acks := setAck b.g.acks h .shuttingDown }, w := .drain }
  | presentExists (c) : b.w = .present c → WTrans b (finishCmd b c.h (.rejected .keyAlreadyExists))
  | presentHeavy (c) : b.w = .present c → WTrans b (rejectCmd b c.h (.rejected .tooHeavy))
  | presentOk (c) : b.w = .present c → WTrans b { b with w := .space0 c }
  | space0Fits (c) : b.w = .space0 c → wuFree b .worker = true → b.g.adm.max - b.g.adm.used ≥ c.w →
      WTrans b { b with w := .insert c }
  | space0Sample (c e) : b.w = .space0 c → wuFree b .worker = true →
      WTrans b { b with w := .sampleInit c (b.g.adm.max - b.g.adm.used) e }
  | initInsert (c e space) : b.w = .sampleInit c space e → space ≥ c.w → WTrans b { b with w := .insert c }
  | initEmpty (c e space) : b.w = .sampleInit c space e → WTrans b { b with w := .emptySpace c }
  | initReject (c e space) : b.w = .sampleInit c space e → WTrans b (rejectCmd b c.h (.rejected .noSpace))
  | initVictim (c e space s' k) : b.w = .sampleInit c space e → WTrans b { b with w := .evRemove c e s' k }
  | fillInsert (c e s space) : b.w = .fill c e s space → space ≥ c.w → WTrans b { b with w := .insert c }
  | fillEmpty (c e s space) : b.w = .fill c e s space → WTrans b { b with w := .emptySpace c }
  | fillReject (c e s space) : b.w = .fill c e s space → WTrans b (rejectCmd b c.h (.rejected .noSpace))
  | fillVictim (c e s space s' k) : b.w = .fill c e s space → WTrans b { b with w := .evRemove c e s' k }
  | evRemoveSome (c e s victim wk) : b.w = .evRemove c e s victim → b.g.adm.kw.get? victim.id = some wk →
      WTrans b { b with g := { b.g with adm := { b.g.adm with kw := b.g.adm.kw.del victim.id } }, w := .evSub c e s victim.id wk }
  | evRemoveNone (c e s victim) : b.w = .evRemove c e s victim → b.g.adm.kw.get? victim.id = none →
      WTrans b { b with w := .evSpace c e s }
  | evSub (c e s id wk) : b.w = .evSub c e s id wk → wuFree b .worker = true →
      WTrans b { b with g := { b.g with adm := { b.g.adm with used := b.g.adm.used - wk.weight } }, wuOwner := some .worker, w := .evStore c e s id wk }
  | evStore (c e s id wk) : b.w = .evStore c e s id wk →
      WTrans b { b with g := applyEvict b.g (id, wk.key, wk.weight), wuOwner := none, w := .evSpace c e s }
  | evSpace (c e s) : b.w = .evSpace c e s → wuFree b .worker = true →
      WTrans b { b with w := .fill c e s (b.g.adm.max - b.g.adm.used) }
  | emptyFits (c) : b.w = .emptySpace c → wuFree b .worker = true → b.g.adm.max - b.g.adm.used ≥ c.w →
      WTrans b { b with w := .insert c }
  | emptyReject (c) : b.w = .emptySpace c → wuFree b .worker = true →
      WTrans b (rejectCmd b c.h (.rejected .noSpace))
  | insert (c) : b.w = .insert c →
      WTrans b { b with g := { b.g with adm := { b.g.adm with kw := b.g.adm.kw.set c.id { key := c.k, hash := c.hash, weight := c.w } } }, w := .add c }
  | add (c) : b.w = .add c → wuFree b .worker = true →
      WTrans b { b with g := { b.g with adm := { b.g.adm with used := b.g.adm.used + c.w }, stats := { b.g.stats with weightAdded := (b.g.stats.weightAdded + c.w.toNat) % u64Mod } }, w := .storePut c }
  | storePutPlain (c) : b.w = .storePut c → c.ttl = none →
      WTrans b (finishCmd { b with g := { b.g with store := b.g.store.set c.k { value := c.v, id := c.id, expiry := none, soft := false }, stats := { b.g.stats with keysAdded := b.g.stats.keysAdded + 1 } } } c.h .accepted)
  | storePutPanic (c t) : b.w = .storePut c → c.ttl = some t →
      WTrans b { b with w := .dead, g := { b.g with worker := .dead, queue := [] } }
  | storePutTtl (c t e) : b.w = .storePut c → c.ttl = some t →
      WTrans b { b with g := { b.g with store := b.g.store.set c.k { value := c.v, id := c.id, expiry := some e, soft := false }, stats := { b.g.stats with keysAdded := b.g.stats.keysAdded + 1 } }, w := .ttlPut c e }
  | ttlPut (c e) : b.w = .ttlPut c e → ttlFree b (shardOf b.g.cfg e) = true →
      WTrans b (finishCmd { b with g := ttlPut b.g c.id e } c.h .accepted)
  | updateAbsent (id w h) : b.w = .update id w h → wuFree b .worker = true → b.g.adm.kw.get? id = none →
      WTrans b (finishCmd b h .accepted)
  | updateApplied (id w h wk) : b.w = .update id w h → wuFree b .worker = true → b.g.adm.kw.get? id = some wk →
      WTrans b (finishCmd { b with g := { b.g with adm := { b.g.adm with used := b.g.adm.used + (w - wk.weight), kw := b.g.adm.kw.set id { wk with weight := w } }, stats := updateWeightStats { b.g.stats with keysUpdated := b.g.stats.keysUpdated + 1 } w wk.weight } } h .accepted)
  | updatePanic (id w h) : b.w = .update id w h → wuFree b .worker = true →
      WTrans b { b with w := .dead, g := { b.g with worker := .dead, queue := [] } }
  | delStoreNone (k h) : b.w = .delStore k h → WTrans b (finishCmd b h (.rejected .keyDoesNotExist))
  | delStoreSome (k h e) : b.w = .delStore k h → b.g.store.get? k = some e →
      WTrans b { b with g := { b.g with store := b.g.store.del k, stats := { b.g.stats with keysDeleted := b.g.stats.keysDeleted + 1 } }, w := .delKw e.id e.expiry h }
  | delKwSome (id exp h wk) : b.w = .delKw id exp h → b.g.adm.kw.get? id = some wk →
      WTrans b { b with g := { b.g with adm := { b.g.adm with kw := b.g.adm.kw.del id } }, w := .delSub id wk exp h }
  | delKwNoneTtl (id e h) : b.w = .delKw id (some e) h → WTrans b { b with w := .delTtl id e h }
  | delKwNoneDone (id h) : b.w = .delKw id none h → WTrans b (finishCmd b h .accepted)
  | delSubTtl (id wk e h) : b.w = .delSub id wk (some e) h → wuFree b .worker = true →
      WTrans b { b with g := { b.g with adm := { b.g.adm with used := b.g.adm.used - wk.weight }, stats := { b.g.stats with weightRemoved := (b.g.stats.weightRemoved + wk.weight.toNat) % u64Mod } }, w := .delTtl id e h }
  | delSubDone (id wk h) : b.w = .delSub id wk none h → wuFree b .worker = true →
      WTrans b (finishCmd { b with g := { b.g with adm := { b.g.adm with used := b.g.adm.used - wk.weight }, stats := { b.g.stats with weightRemoved := (b.g.stats.weightRemoved + wk.weight.toNat) % u64Mod } } } h .accepted)
  | delTtl (id e h) : b.w = .delTtl id e h → ttlFree b (shardOf b.g.cfg e) = true →
      WTrans b (finishCmd { b with g := ttlDelete b.g id e } h .accepted)

theorem workerAct_trans {b b' : BState} {o o' : Oracle} (h : workerAct b o = .ok (b', o')) : WTrans b b' := by
  cases hw : b.w with
  | dead => simp [workerAct, hw] at h
  | recv =>
    simp only [workerAct, hw] at h
    split at h
    · cases h
    · rename_i cmd hh q hq
      cases cmd <;> simp only [Except.ok.injEq, Prod.mk.injEq] at h <;> obtain ⟨rfl, rfl⟩ := h
      · exact .recvPut ⟨_, _, _, _, _, none, hh⟩ q hw hq
      · exact .recvPut ⟨_, _, _, _, _, some _, hh⟩ q hw hq
      · exact .recvDelete _ _ _ hw hq
      · exact .recvUpdate _ _ _ _ hw hq
      · exact .recvShutdown _ _ hw hq
  | drain =>
    simp only [workerAct, hw] at h
    split at h
    · cases h
    · rename_i cmd hh q hq
      simp only [Except.ok.injEq, Prod.mk.injEq] at h; obtain ⟨rfl, rfl⟩ := h
      exact .drain _ _ _ hw hq
  | present c =>
    simp only [workerAct, hw] at h
    split at h
    · simp only [Except.ok.injEq, Prod.mk.injEq] at h; obtain ⟨rfl, rfl⟩ := h
      exact .presentExists c hw
    · split at h
      all_goals simp only [Except.ok.injEq, Prod.mk.injEq] at h; obtain ⟨rfl, rfl⟩ := h
      · exact .presentHeavy c hw
      · exact .presentOk c hw
  | space0 c =>
    simp only [workerAct, hw] at h
    split at h
    · cases h
    · rename_i hfree
      simp only [Bool.not_eq_true, Bool.not_eq_false'] at hfree
      split at h
      · simp only [Except.ok.injEq, Prod.mk.injEq] at h; obtain ⟨rfl, rfl⟩ := h
        exact .space0Fits c hw hfree (by assumption)
      · split at h
        · cases h
        · simp only [Except.ok.injEq, Prod.mk.injEq] at h; obtain ⟨rfl, rfl⟩ := h
          exact .space0Sample c _ hw hfree
  | sampleInit c space e =>
    simp only [workerAct, hw] at h
    split at h
    · cases h
    · rcases loopDecide_spec h with ⟨rfl, h1⟩ | rfl | rfl | ⟨_, _, rfl⟩
      · exact .initInsert c e space hw h1
      · exact .initEmpty c e space hw
      · exact .initReject c e space hw
      · exact .initVictim c e space _ _ hw
  | fill c e s space =>
    simp only [workerAct, hw] at h
    split at h
    · cases h
    · rcases loopDecide_spec h with ⟨rfl, h1⟩ | rfl | rfl | ⟨_, _, rfl⟩
      · exact .fillInsert c e s space hw h1
      · exact .fillEmpty c e s space hw
      · exact .fillReject c e s space hw
      · exact .fillVictim c e s space _ _ hw
  | evRemove c e s victim =>
    simp only [workerAct, hw] at h
    split at h
    all_goals simp only [Except.ok.injEq, Prod.mk.injEq] at h; obtain ⟨rfl, rfl⟩ := h
    · exact .evRemoveSome c e s victim _ hw (by assumption)
    · exact .evRemoveNone c e s victim hw (by assumption)
  | evSub c e s id wk =>
    simp only [workerAct, hw] at h
    split at h
    · cases h
    · rename_i hfree
      simp only [Bool.not_eq_true, Bool.not_eq_false'] at hfree
      simp only [Except.ok.injEq, Prod.mk.injEq] at h; obtain ⟨rfl, rfl⟩ := h
      exact .evSub c e s id wk hw hfree
  | evStore c e s id wk =>
    simp only [workerAct, hw, Except.ok.injEq, Prod.mk.injEq] at h; obtain ⟨rfl, rfl⟩ := h
    exact .evStore c e s id wk hw
  | evSpace c e s =>
    simp only [workerAct, hw] at h
    split at h
    · cases h
    · rename_i hfree
      simp only [Bool.not_eq_true, Bool.not_eq_false'] at hfree
      simp only [Except.ok.injEq, Prod.mk.injEq] at h; obtain ⟨rfl, rfl⟩ := h
      exact .evSpace c e s hw hfree
  | emptySpace c =>
    simp only [workerAct, hw] at h
    split at h
    · cases h
    · rename_i hfree
      simp only [Bool.not_eq_true, Bool.not_eq_false'] at hfree
      split at h
      all_goals simp only [Except.ok.injEq, Prod.mk.injEq] at h; obtain ⟨rfl, rfl⟩ := h
      · exact .emptyFits c hw hfree (by assumption)
      · exact .emptyReject c hw hfree
  | insert c =>
    simp only [workerAct, hw, Except.ok.injEq, Prod.mk.injEq] at h; obtain ⟨rfl, rfl⟩ := h
    exact .insert c hw
  | add c =>
    simp only [workerAct, hw] at h
    split at h
    · cases h
    · rename_i hfree
      simp only [Bool.not_eq_true, Bool.not_eq_false'] at hfree
      simp only [Except.ok.injEq, Prod.mk.injEq] at h; obtain ⟨rfl, rfl⟩ := h
      exact .add c hw hfree
  | storePut c =>
    simp only [workerAct, hw] at h
    split at h
    · simp only [Except.ok.injEq, Prod.mk.injEq] at h; obtain ⟨rfl, rfl⟩ := h
      exact .storePutPlain c hw (by assumption)
    · split at h
      all_goals simp only [Except.ok.injEq, Prod.mk.injEq] at h; obtain ⟨rfl, rfl⟩ := h
      · exact .storePutPanic c _ hw (by assumption)
      · exact .storePutTtl c _ _ hw (by assumption)
  | ttlPut c e =>
    simp only [workerAct, hw] at h
    split at h
    · cases h
    · rename_i hfree
      simp only [Bool.not_eq_true, Bool.not_eq_false'] at hfree
      simp only [Except.ok.injEq, Prod.mk.injEq] at h; obtain ⟨rfl, rfl⟩ := h
      exact .ttlPut c e hw hfree
  | update id w hh =>
    simp only [workerAct, hw] at h
    split at h
    · cases h
    · rename_i hfree
      simp only [Bool.not_eq_true, Bool.not_eq_false'] at hfree
      unfold workerUpdateWeight at h
      cases hg : b.g.adm.kw.get? id with
      | none =>
        simp only [hg, Except.ok.injEq, Prod.mk.injEq] at h; obtain ⟨rfl, rfl⟩ := h
        exact .updateAbsent id w hh hw hfree hg
      | some wk =>
        by_cases hc : (!inI64 (w - wk.weight) || !inI64 (b.g.adm.used + (w - wk.weight))) = true
        · simp only [hg, hc, if_true, Except.ok.injEq, Prod.mk.injEq] at h; obtain ⟨rfl, rfl⟩ := h
          exact .updatePanic id w hh hw hfree
        · simp only [hg, hc] at h; obtain ⟨rfl, rfl⟩ := h
          exact .updateApplied id w hh wk hw hfree hg
  | delStore k hh =>
    simp only [workerAct, hw] at h
    split at h
    all_goals simp only [Except.ok.injEq, Prod.mk.injEq] at h; obtain ⟨rfl, rfl⟩ := h
    · exact .delStoreNone k hh hw
    · exact .delStoreSome k hh _ hw (by assumption)
  | delKw id exp hh =>
    simp only [workerAct, hw] at h
    split at h
    · simp only [Except.ok.injEq, Prod.mk.injEq] at h; obtain ⟨rfl, rfl⟩ := h
      exact .delKwSome id exp hh _ hw (by assumption)
    · split at h
      all_goals simp only [Except.ok.injEq, Prod.mk.injEq] at h; obtain ⟨rfl, rfl⟩ := h
      · exact .delKwNoneTtl id _ hh hw
      · exact .delKwNoneDone id hh hw
  | delSub id wk exp hh =>
    simp only [workerAct, hw] at h
    split at h
    · cases h
    · rename_i hfree
      simp only [Bool.not_eq_true, Bool.not_eq_false'] at hfree
      split at h
      all_goals simp only [Except.ok.injEq, Prod.mk.injEq] at h; obtain ⟨rfl, rfl⟩ := h
      · exact .delSubTtl id wk _ hh hw hfree
      · exact .delSubDone id wk hh hw hfree
  | delTtl id e hh =>
    simp only [workerAct, hw] at h
    split at h
    · cases h
    · rename_i hfree
      simp only [Bool.not_eq_true, Bool.not_eq_false'] at hfree
      simp only [Except.ok.injEq, Prod.mk.injEq] at h; obtain ⟨rfl, rfl⟩ := h
      exact .delTtl id e hh hw hfree



/-- One action of the sweeper, as a relation. -/
inductive STrans (b : BState) : BState → Prop where
  | begin : b.g.sweeperAlive = true → b.sw = .begin →
      STrans b (sweepNext { b with ttlOwner := some (secsOf b.g.now % b.g.cfg.shards) } b.g.now (secsOf b.g.now % b.g.cfg.shards) ((b.g.ttl.filter (fun p => p.1.1 == secsOf b.g.now % b.g.cfg.shards)).map (fun p => (p.1.2, p.2))))
  | entryExpired (now shard rest id p) : rest.find? (fun p => p.1 == id) = some p → b.sw = .entry now shard rest →
      STrans b { b with g := { b.g with ttl := b.g.ttl.del (shard, id) }, sw := .kwRemove now shard (rest.filter (fun p => p.1 != id)) id }
  | entryKeep (now shard rest id) : b.sw = .entry now shard rest →
      STrans b (sweepNext b now shard (rest.filter (fun p => p.1 != id)))
  | kwRemoveSome (now shard rest id wk) : b.g.adm.kw.get? id = some wk → b.sw = .kwRemove now shard rest id →
      STrans b { b with g := { b.g with adm := { b.g.adm with kw := b.g.adm.kw.del id } }, sw := .sub now shard rest id wk }
  | kwRemoveNone (now shard rest id) : b.g.adm.kw.get? id = none → b.sw = .kwRemove now shard rest id →
      STrans b (sweepNext b now shard rest)
  | sub (now shard rest id wk) : wuFree b .sweeper = true → b.sw = .sub now shard rest id wk →
      STrans b { b with g := { b.g with adm := { b.g.adm with used := b.g.adm.used - wk.weight } }, wuOwner := some .sweeper, sw := .store now shard rest id wk }
  | store (now shard rest id wk) : b.sw = .store now shard rest id wk →
      STrans b (sweepNext { b with g := applyEvict b.g (id, wk.key, wk.weight), wuOwner := none } now shard rest)
  | fin : b.sw = .fin → STrans b { b with sw := .begin, g := { b.g with sweeperAlive := b.g.sweeperKeep } }

theorem sweeperAct_trans {b b' : BState} {v : Option Nat} (h : sweeperAct b v = .ok b') : STrans b b' := by
  cases hs : b.sw with
  | begin =>
    simp only [sweeperAct, hs] at h
    split at h
    · cases h
    · rename_i ha
      simp only [Bool.not_eq_true, Bool.not_eq_false'] at ha
      simp only [Except.ok.injEq] at h; subst h
      exact .begin ha hs
  | entry now shard rest =>
    simp only [sweeperAct, hs] at h
    split at h
    · cases h
    · split at h
      · cases h
      · split at h
        all_goals simp only [Except.ok.injEq] at h; subst h
        · exact .entryExpired now shard rest _ _ (by assumption) hs
        · exact .entryKeep now shard rest _ hs
  | kwRemove now shard rest id =>
    simp only [sweeperAct, hs] at h
    split at h
    all_goals simp only [Except.ok.injEq] at h; subst h
    · exact .kwRemoveSome now shard rest id _ (by assumption) hs
    · exact .kwRemoveNone now shard rest id (by assumption) hs
  | sub now shard rest id wk =>
    simp only [sweeperAct, hs] at h
    split at h
    · cases h
    · rename_i ha
      simp only [Bool.not_eq_true, Bool.not_eq_false'] at ha
      simp only [Except.ok.injEq] at h; subst h
      exact .sub now shard rest id wk ha hs
  | store now shard rest id wk =>
    simp only [sweeperAct, hs, Except.ok.injEq] at h; subst h
    exact .store now shard rest id wk hs
  | fin =>
    simp only [sweeperAct, hs, Except.ok.injEq] at h; subst h
    exact .fin hs

/-- client positions reached from `start` that carry nothing the invariant talks about -/
def CPc.plain : CPc → Prop
  | .delMark _ | .getStore _ | .weightRead | .upUpdate _ _ _ _ _ => True
  | _ => False

/-- the ways the tail of `put_or_update` can end -/
theorem upAfterIndex_spec (b : BState) (i id : Nat) (uw : Option Int) :
    (∃ out, upAfterIndex b i id uw = finishCall b i out) ∨
    (∃ w, 0 < w ∧ upAfterIndex b i id uw = setClient b i (.send (.updateWeight id w))) ∨
    upAfterIndex b i id uw = spotFinish b i .accepted := by
  unfold upAfterIndex
  split
  · split
    · exact Or.inl ⟨_, rfl⟩
    · split
      · exact Or.inl ⟨_, rfl⟩
      · rename_i w _ hw
        exact Or.inr (Or.inl ⟨w, by omega, rfl⟩)
  · exact Or.inr (Or.inr rfl)

/-- One action of client `i`, as a relation. -/
inductive CTrans (b : BState) (i : Nat) : BState → Prop where
  | finish (pc out) : b.cl[i]? = some pc → CTrans b i (finishCall b i out)
  | finishStats (pc out st) : b.cl[i]? = some pc → CTrans b i (finishCall { b with g := { b.g with stats := st } } i out)
  | spot (pc st) : b.cl[i]? = some pc → CTrans b i (spotFinish b i st)
  | startPut (k v w ttl) : b.cl[i]? = some (.start (.putW k v w ttl)) → 0 < w → CTrans b i (setClient b i (.putPresent k v w ttl))
  | startPlain (r pc') : b.cl[i]? = some (.start r) → pc'.plain → CTrans b i (setClient b i pc')
  | putPresentOk (k v w ttl) : b.cl[i]? = some (.putPresent k v w ttl) → CTrans b i (setClient b i (.idNext k v w ttl))
  | idNext (k v w ttl) : b.cl[i]? = some (.idNext k v w ttl) →
      CTrans b i (setClient { b with g := { b.g with nextId := b.g.nextId + 1 } } i (.send (match ttl with | some t => Cmd.putTtl b.g.nextId (b.g.cfg.hashOf k) w k v t | none => Cmd.put b.g.nextId (b.g.cfg.hashOf k) w k v)))
  | sendOk (cmd) : b.cl[i]? = some (.send cmd) →
      CTrans b i (finishCall { b with g := { b.g with queue := b.g.queue ++ [(cmd, some b.g.acks.length)], acks := b.g.acks ++ [.pending] } } i (.ack b.g.acks.length .pending))
  | delMark (k) : b.cl[i]? = some (.delMark k) →
      CTrans b i (setClient { b with g := { b.g with store := match b.g.store.get? k with | some e => b.g.store.set k { e with soft := true } | none => b.g.store } } i (.send (.delete k)))
  | getHit (k e) : b.cl[i]? = some (.getStore k) → b.g.store.get? k = some e → e.alive b.g.now = true →
      CTrans b i (setClient { b with g := { b.g with stats := { b.g.stats with hits := b.g.stats.hits + 1 } } } i (.getPool k e.value))
  | getPool (k v g1 o o') : b.cl[i]? = some (.getPool k v) → poolAdd b.g (b.g.cfg.hashOf k) o = .ok (g1, o') →
      CTrans b i (finishCall { b with g := g1 } i (.value (some v)))
  | upPut (k v w ttl rm val weight) : b.cl[i]? = some (.upUpdate k v w ttl rm) → 0 < weight →
      CTrans b i (setClient b i (.idNext k val weight ttl))
  | upUpdate (k v w ttl rm e newExpiry uw) : b.cl[i]? = some (.upUpdate k v w ttl rm) → b.g.store.get? k = some e →
      CTrans b i (setClient { b with g := { b.g with store := b.g.store.set k { e with expiry := newExpiry, value := v.getD e.value } } } i (.upWeightOf e.id uw e.expiry newExpiry))
  | upWeightOfTtl (id uw old new pc') : b.cl[i]? = some (.upWeightOf id uw old new) →
      pc'.usedId? = some id → pc'.freshId? = none → pc'.pos → CTrans b i (setClient b i pc')
  | upAfterSame (id uw old new) : b.cl[i]? = some (.upWeightOf id uw old new) → CTrans b i (upAfterIndex b i id uw)
  | upAfterPut (pc id e uw) : b.cl[i]? = some pc → pc.usedId? = some id → ttlFree b (shardOf b.g.cfg e) = true →
      CTrans b i (upAfterIndex { b with g := ttlPut b.g id e } i id uw)
  | upAfterDelete (id e uw) : b.cl[i]? = some (.upTtlDelete id e uw) → ttlFree b (shardOf b.g.cfg e) = true →
      CTrans b i (upAfterIndex { b with g := ttlDelete b.g id e } i id uw)
  | upTtlRemove (id old new uw) : b.cl[i]? = some (.upTtlRemove id old new uw) → ttlFree b (shardOf b.g.cfg old) = true →
      CTrans b i (setClient { b with g := ttlDelete b.g id old } i (.upTtlInsert id new uw))

theorem clientAct_trans {b b' : BState} {i : Nat} {o o' : Oracle} (h : clientAct b i o = .ok (b', o')) :
    CTrans b i b' := by
  unfold clientAct at h
  simp only [] at h
  split at h
  · cases h
  · rename_i pc hpc
    cases pc with
    | idle => cases h
    | start r =>
      simp only [] at h
      split at h
      · cases r <;> simp only [Except.ok.injEq, Prod.mk.injEq] at h <;> obtain ⟨rfl, rfl⟩ := h
        · exact .finish _ _ hpc
        · exact .finish _ _ hpc
        · exact .finish _ _ hpc
        · exact .startPlain _ _ hpc trivial
        · exact .finish _ _ hpc
      · cases r <;> simp only [] at h
        · split at h
          all_goals simp only [Except.ok.injEq, Prod.mk.injEq] at h; obtain ⟨rfl, rfl⟩ := h
          · exact .finish _ _ hpc
          · exact .startPut _ _ _ _ hpc (by omega)
        all_goals simp only [Except.ok.injEq, Prod.mk.injEq] at h; obtain ⟨rfl, rfl⟩ := h
        all_goals exact .startPlain _ _ hpc trivial
    | putPresent k v w ttl =>
      simp only [] at h
      split at h
      all_goals simp only [Except.ok.injEq, Prod.mk.injEq] at h; obtain ⟨rfl, rfl⟩ := h
      · exact .spot _ _ hpc
      · exact .putPresentOk _ _ _ _ hpc
    | idNext k v w ttl =>
      simp only [Except.ok.injEq, Prod.mk.injEq] at h; obtain ⟨rfl, rfl⟩ := h
      exact .idNext _ _ _ _ hpc
    | send cmd =>
      simp only [] at h
      split at h
      · rename_i b1 hs
        simp only [Except.ok.injEq, Prod.mk.injEq] at h; obtain ⟨rfl, rfl⟩ := h
        unfold sendAct at hs
        simp only [] at hs
        split at hs
        · simp only [Except.ok.injEq] at hs; subst hs
          exact .finish _ _ hpc
        · split at hs
          · cases hs
          · simp only [Except.ok.injEq] at hs; subst hs
            exact .sendOk _ hpc
      · cases h
    | delMark k =>
      simp only [Except.ok.injEq, Prod.mk.injEq] at h; obtain ⟨rfl, rfl⟩ := h
      exact .delMark _ hpc
    | getStore k =>
      simp only [] at h
      split at h
      · split at h
        all_goals simp only [Except.ok.injEq, Prod.mk.injEq] at h; obtain ⟨rfl, rfl⟩ := h
        · exact .getHit _ _ hpc (by assumption) (by assumption)
        · exact .finishStats _ _ _ hpc
      · simp only [Except.ok.injEq, Prod.mk.injEq] at h; obtain ⟨rfl, rfl⟩ := h
        exact .finishStats _ _ _ hpc
    | getPool k v =>
      simp only [] at h
      split at h
      · simp only [Except.ok.injEq, Prod.mk.injEq] at h; obtain ⟨rfl, rfl⟩ := h
        exact .getPool _ _ _ _ _ hpc (by assumption)
      · cases h
    | weightRead =>
      simp only [] at h
      split at h
      · cases h
      · simp only [Except.ok.injEq, Prod.mk.injEq] at h; obtain ⟨rfl, rfl⟩ := h
        exact .finish _ _ hpc
    | upUpdate k v w ttl rm =>
      simp only [] at h
      split at h
      · split at h
        · split at h
          all_goals simp only [Except.ok.injEq, Prod.mk.injEq] at h; obtain ⟨rfl, rfl⟩ := h
          · exact .finish _ _ hpc
          · exact .upPut _ _ _ _ _ _ _ hpc (by omega)
        · simp only [Except.ok.injEq, Prod.mk.injEq] at h; obtain ⟨rfl, rfl⟩ := h
          exact .finish _ _ hpc
      · split at h
        all_goals simp only [Except.ok.injEq, Prod.mk.injEq] at h; obtain ⟨rfl, rfl⟩ := h
        · exact .finish _ _ hpc
        · exact .upUpdate _ _ _ _ _ _ _ _ hpc (by assumption)
    | upWeightOf id uw old new =>
      simp only [] at h
      split at h
      all_goals simp only [Except.ok.injEq, Prod.mk.injEq] at h; obtain ⟨rfl, rfl⟩ := h
      · exact .upWeightOfTtl _ _ _ _ _ hpc rfl rfl trivial
      · exact .upWeightOfTtl _ _ _ _ _ hpc rfl rfl trivial
      · exact .upWeightOfTtl _ _ _ _ _ hpc rfl rfl trivial
      · exact .upAfterSame _ _ _ _ hpc
    | upTtlPut id e uw =>
      simp only [] at h
      split at h
      · cases h
      · rename_i ha
        simp only [Bool.not_eq_true, Bool.not_eq_false'] at ha
        simp only [Except.ok.injEq, Prod.mk.injEq] at h; obtain ⟨rfl, rfl⟩ := h
        exact .upAfterPut _ _ _ _ hpc rfl ha
    | upTtlDelete id e uw =>
      simp only [] at h
      split at h
      · cases h
      · rename_i ha
        simp only [Bool.not_eq_true, Bool.not_eq_false'] at ha
        simp only [Except.ok.injEq, Prod.mk.injEq] at h; obtain ⟨rfl, rfl⟩ := h
        exact .upAfterDelete _ _ _ hpc ha
    | upTtlRemove id old new uw =>
      simp only [] at h
      split at h
      · cases h
      · rename_i ha
        simp only [Bool.not_eq_true, Bool.not_eq_false'] at ha
        simp only [Except.ok.injEq, Prod.mk.injEq] at h; obtain ⟨rfl, rfl⟩ := h
        exact .upTtlRemove _ _ _ _ hpc ha
    | upTtlInsert id new uw =>
      simp only [] at h
      split at h
      · cases h
      · rename_i ha
        simp only [Bool.not_eq_true, Bool.not_eq_false'] at ha
        simp only [Except.ok.injEq, Prod.mk.injEq] at h; obtain ⟨rfl, rfl⟩ := h
        exact .upAfterPut _ _ _ _ hpc rfl ha

end B
end Cached
