/-
  The invariant `BInv` of the ACTION-GRANULARITY model (CachedModel/LayerB.lean) and its preservation by every
  atomic action of every thread (`binv_step`), hence at every reachable state of every interleaving (`binv_reach`).
-/
import CachedModel.LayerB
import CachedProofs.Lemmas.Weights
import CachedProofs.Lemmas.Admission

namespace Cached
namespace B

/-! ## 1  definitions -/

/-- every state some interleaving of clients, worker, sweeper and consumer can reach -/
inductive Reach (cfg : Cfg) (now : Nat) (seeds : List Nat) (clients : Nat) : BState → Prop where
  | init : Reach cfg now seeds clients (BState.init cfg now seeds clients)
  | step {b b' : BState} {a : Act} {o o' : Oracle} :
      Reach cfg now seeds clients b → stepB b a o = .ok (b', o') → Reach cfg now seeds clients b'

/-- weight that has been taken out of `kw` but not yet out of `used` (between `kw.remove` and `wu.sub`),
    summed over worker and sweeper -/
def pendingSub (b : BState) : Int :=
  (match b.w with
   | .evSub _ _ _ _ wk => wk.weight
   | .delSub _ wk _ _ => wk.weight
   | _ => 0) +
  (match b.sw with
   | .sub _ _ _ _ wk => wk.weight
   | _ => 0)

/-- weight that is already in `kw` but not yet in `used` (between `kw.insert` and `wu.add`) -/
def pendingAdd (b : BState) : Int :=
  match b.w with
  | .add c => c.w
  | _ => 0

/-- the put command the worker is executing -/
def WPc.cmd? : WPc → Option PutCmd
  | .present c | .space0 c | .sampleInit c _ _ | .evRemove c _ _ _ | .evSub c _ _ _ _ | .evStore c _ _ _ _
  | .evSpace c _ _ | .fill c _ _ _ | .emptySpace c | .insert c | .add c | .storePut c | .ttlPut c _ => some c
  | _ => none

/-- the charge the worker has taken out of `kw` and holds in a local -/
def WPc.victim? : WPc → Option WKey
  | .evSub _ _ _ _ wk | .evStore _ _ _ _ wk | .delSub _ wk _ _ => some wk
  | _ => none

/-- the charge the sweeper has taken out of `kw` and holds in a local -/
def SPc.victim? : SPc → Option WKey
  | .sub _ _ _ _ wk | .store _ _ _ _ wk => some wk
  | _ => none

/-- the expiry shard the sweeper is working on -/
def SPc.shard? : SPc → Option Nat
  | .entry _ sh _ | .kwRemove _ sh _ _ | .sub _ sh _ _ _ | .store _ sh _ _ _ => some sh
  | _ => none

/-- the free space the worker read earlier and will compare with the incoming weight -/
def WPc.space? : WPc → Option Int
  | .sampleInit _ space _ | .fill _ _ _ space => some space
  | _ => none

/-- the id a command will charge, if it is a put -/
def cmdId? : Cmd → Option Nat
  | .put id _ _ _ _ => some id
  | .putTtl id _ _ _ _ _ => some id
  | _ => none

/-- the weight carried by a command is positive -/
def cmdPos : Cmd → Prop
  | .put _ _ w _ _ => 0 < w
  | .putTtl _ _ w _ _ _ => 0 < w
  | .updateWeight _ w => 0 < w
  | _ => True

/-- the weight a client carries towards a command is positive -/
def CPc.pos : CPc → Prop
  | .putPresent _ _ w _ | .idNext _ _ w _ => 0 < w
  | .send cmd => cmdPos cmd
  | _ => True

/-- FRESH ids: the id of a put command that is on its way and whose entry is not in the store yet. -/
def CPc.freshId? : CPc → Option Nat
  | .send cmd => cmdId? cmd
  | _ => none

/-- the worker's put from `recv` up to (and including the position before) `store.put` -/
def WPc.freshId? : WPc → Option Nat
  | .present c | .space0 c | .sampleInit c _ _ | .evRemove c _ _ _ | .evSub c _ _ _ _ | .evStore c _ _ _ _
  | .evSpace c _ _ | .fill c _ _ _ | .emptySpace c | .insert c | .add c | .storePut c => some c.id
  | _ => none

/-- the worker's put up to (and including the position before) `kw.insert`: the id is not charged yet -/
def WPc.pendId? : WPc → Option Nat
  | .present c | .space0 c | .sampleInit c _ _ | .evRemove c _ _ _ | .evSub c _ _ _ _ | .evStore c _ _ _ _
  | .evSpace c _ _ | .fill c _ _ _ | .emptySpace c | .insert c => some c.id
  | _ => none

def qIds (q : List (Cmd × Option Nat)) : List Nat := q.filterMap (fun p => cmdId? p.1)
def cIds (cl : List CPc) : List Nat := cl.filterMap CPc.freshId?

/-- how often `f` occurs as a fresh id -/
def occ (b : BState) (f : Nat) : Nat :=
  (qIds b.g.queue).count f + (cIds b.cl).count f + b.w.freshId?.toList.count f

/-- USED ids: ids through which some thread may reach into `kw` to delete. -/
def SPc.ids : SPc → List Nat
  | .entry _ _ rest | .sub _ _ rest _ _ | .store _ _ rest _ _ => rest.map (·.1)
  | .kwRemove _ _ rest id => id :: rest.map (·.1)
  | _ => []

def CPc.usedId? : CPc → Option Nat
  | .upWeightOf id _ _ _ | .upTtlPut id _ _ | .upTtlDelete id _ _ | .upTtlRemove id _ _ _ | .upTtlInsert id _ _ => some id
  | _ => none

def WPc.usedId? : WPc → Option Nat
  | .ttlPut c _ => some c.id
  | _ => none

def usedIds (b : BState) : List Nat :=
  b.g.store.map (·.2.id) ++ b.g.ttl.map (·.1.2) ++ b.sw.ids ++ b.cl.filterMap CPc.usedId? ++ b.w.usedId?.toList

/-- The invariant of Layer B. -/
structure BInv (b : BState) : Prop where
  kwNoDup : AMap.NoDup b.g.adm.kw
  positive : ∀ id wk, b.g.adm.kw.get? id = some wk → 0 < wk.weight
  /-- the accounting identity, modulo the in-flight locals -/
  sum : b.g.adm.used = sumW b.g.adm.kw - pendingAdd b + pendingSub b
  pendingPos : (∀ c, b.w = .add c → 0 < c.w) ∧
    (∀ c, b.w = .insert c → 0 < c.w ∧ b.g.adm.kw.get? c.id = none) ∧
    (∀ wk, b.w.victim? = some wk → 0 < wk.weight) ∧ (∀ wk, b.sw.victim? = some wk → 0 < wk.weight)
  /-- between `kw.insert` and `wu.add` the new id stays charged, at the weight that will be added -/
  addCharged : ∀ c, b.w = .add c → b.g.adm.kw.get? c.id = some { key := c.k, hash := c.hash, weight := c.w }
  /-- a free space read earlier is still available (everybody else only subtracts) -/
  staleSpace : ∀ space, b.w.space? = some space → space ≤ b.g.adm.max - b.g.adm.used
  wuWorker : b.wuOwner = some .worker ↔ (∃ c e s i wk, b.w = .evStore c e s i wk)
  wuSweeper : b.wuOwner = some .sweeper ↔ (∃ n sh r i wk, b.sw = .store n sh r i wk)
  wuClients : ∀ i, b.wuOwner ≠ some (.client i) ∧ b.wuOwner ≠ some .consumer
  ttlSweeper : (b.ttlOwner = none ↔ (b.sw = .begin ∨ b.sw = .fin)) ∧ (∀ sh, b.ttlOwner = some sh → b.sw.shard? = some sh)
  cmdsPositive : (∀ p ∈ b.g.queue, cmdPos p.1) ∧ (∀ (i : Nat) (pc : CPc), b.cl[i]? = some pc → pc.pos) ∧
    (∀ c, b.w.cmd? = some c → 0 < c.w) ∧ (∀ id w h, b.w = .update id w h → 0 < w)
  /-- fresh ids are pairwise distinct, below `nextId`, not charged before `kw.insert`, and nobody holds
      one of them as a handle into `kw` (store entry, expiry index, sweeper or client local) -/
  freshIds : (∀ f, occ b f ≤ 1) ∧ (∀ f, 0 < occ b f → f < b.g.nextId) ∧
    (∀ f, 0 < (qIds b.g.queue).count f + (cIds b.cl).count f → b.g.adm.kw.get? f = none) ∧
    (∀ f, b.w.pendId? = some f → b.g.adm.kw.get? f = none) ∧
    (∀ u ∈ usedIds b, occ b u = 0 ∧ u < b.g.nextId) ∧
    (∀ id wk, b.g.adm.kw.get? id = some wk → id < b.g.nextId)
  maxFixed : b.g.adm.max = b.g.cfg.maxWeight

end B
end Cached
