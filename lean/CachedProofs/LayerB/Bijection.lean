/-
  C05 ("the set of charged key ids and the set of held keys are in bijection") at ACTION granularity: the link between
  the store and the weight ledger `kw` of Layer B (CachedModel/LayerB.lean), for every interleaving of clients, worker,
  sweeper and consumer WHILE THE CACHE IS RUNNING (`shutting = false`).

  Layout
    1  the in-flight positions (`WPc.evicting?`, `SPc.evicting?`, `WPc.putting?`, `WPc.deleting?`), `KwKeyInj`, and the
       invariant `BBij`: (a) `heldCharged`, (b) `chargedHeld`, (c1)–(c7) what makes them inductive
    2  `BBij.transfer` / `BBij.inPlace` (actions that touch neither ledger membership nor the ids stored under the keys)
    3  the worker's seven store / ledger actions (`bbij_insert`, `bbij_update`, `bbij_storePut`, `bbij_evRemove`,
       `bbij_evStore`, `bbij_delStore`, `bbij_delKw`), the sweeper's two (`bbij_sKwRemove`, `bbij_sStore`), one lemma
       each; `bbij_workerAct`, `bbij_sweeperAct`, `bbij_clientAct`; `bbij_init`, `bbij_step`, `bbij_reach`
    4  the property theorems
         `C05_layerB_held_charged`                    (a) with the exceptions spelled out by thread position
         `C05_layerB_charged_held`                    (b) with the exceptions spelled out by thread position
         `C05_layerB_bijection_nothing_in_flight`, `C05_layerB_bijection_at_rest`
         `C05_layerB_charged_keys_distinct` (`…_at_rest`), `C05_layerB_held_ids_distinct`
         `C05_layerB_worker_eviction_removes_own_id`, `C05_layerB_worker_eviction_step`
    5  concrete runs: non-vacuity (`bij_rest_witness`), every in-flight exception is needed
       (`bij_sweeper_in_flight_witness`, `bij_worker_evict_in_flight_witness`, `bij_put_in_flight_witness`,
       `bij_delete_in_flight_witness`), the dead-worker guard is needed (`bbij_dead_worker_leaks_charge`,
       `C05_layerB_charged_held_unguarded_false`)

  Hypotheses, and why:
    * `b.g.shutting = false` (the state BEFORE the action, in `bbij_step`; the state itself, in `bbij_reach` — the flag is
      monotone, `stepB_running_before`): `shutdown()` clears the store and the ledger in two separate actions, between
      them every charged id is held by nothing (`C03_layerB_evict_id_counterexample` of Entries.lean lives there).
      Only the client case of `bbij_step` uses it (to exclude `shutdown.store_clear` / `shutdown.kw_clear`): the worker's
      and the sweeper's actions preserve `BBij` unconditionally (`bbij_workerAct`, `bbij_sweeperAct`).
    * `b.w ≠ .dead` in clause `chargedHeld` ONLY: a put whose deadline is not representable makes the worker panic at
      `store.put`, AFTER `kw.insert` and `wu.add` — the id stays charged for ever and is never stored
      (`bbij_dead_worker_leaks_charge` below is such a reachable state).  `heldCharged` and (c1)–(c7) need no guard.
    * `BInv b`, `WAbsent b` in `bbij_step`: the existing invariants (fresh ids are nobody's handle; the key of the put
      being applied is absent).  Both hold at every reachable state (`binv_reach`, `wabsent_reach`).

  No counterexample to the sketched invariant was found: (a) and (b) hold with exactly the exceptions listed.
-/
import CachedProofs.LayerB.BijectionLemmas

namespace Cached
namespace B

/-! ## 1  the in-flight positions and the invariant -/

/-- the eviction the worker has in hand: the charge `(id, wk)` is out of `kw` (`kw.remove` done), the entry is not yet
    out of the store (`store.remove` not done): positions `wu.sub` and `store.remove` of `CacheWeight::delete` -/
def WPc.evicting? : WPc → Option (Nat × WKey)
  | .evSub _ _ _ id wk | .evStore _ _ _ id wk => some (id, wk)
  | _ => none

/-- the same for the sweeper: positions `wu.sub` and `store.remove` of the ticker's eviction -/
def SPc.evicting? : SPc → Option (Nat × WKey)
  | .sub _ _ _ id wk | .store _ _ _ id wk => some (id, wk)
  | _ => none

/-- the put whose charge is in `kw` (`kw.insert` done) and whose entry is not yet in the store (`store.put` not done):
    positions `wu.add` and `store.put` -/
def WPc.putting? : WPc → Option PutCmd
  | .add c | .storePut c => some c
  | _ => none

/-- the id of a `Delete` whose entry is out of the store (`store.remove` done) and whose charge may still be in `kw`
    (`kw.remove` not done): position `kw.remove` of the `Delete` command -/
def WPc.deleting? : WPc → Option Nat
  | .delKw id _ _ => some id
  | _ => none

/-- distinct charged ids are charged for distinct keys -/
def KwKeyInj (kw : AMap Nat WKey) : Prop :=
  ∀ id id' wk wk', kw.get? id = some wk → kw.get? id' = some wk' → wk.key = wk'.key → id = id'

/-- a ledger each of whose charges is, up to the weight, a charge of `kw` -/
theorem KwKeyInj.back {kw kw' : AMap Nat WKey} (h : KwKeyInj kw)
    (hback : ∀ id wk, kw'.get? id = some wk → ∃ wk1, kw.get? id = some wk1 ∧ wk1.key = wk.key) : KwKeyInj kw' := by
  intro id id' wk wk' hg hg' hkey
  obtain ⟨w1, h1, k1⟩ := hback id wk hg
  obtain ⟨w2, h2, k2⟩ := hback id' wk' hg'
  exact h id id' w1 w2 h1 h2 (by rw [k1, k2, hkey])

theorem KwKeyInj.del {kw : AMap Nat WKey} (h : KwKeyInj kw) (x : Nat) : KwKeyInj (kw.del x) := by
  refine h.back ?_
  intro id wk hg
  rw [AMap.get?_del] at hg
  split at hg
  · cases hg
  · exact ⟨wk, hg, rfl⟩

/-- The store ↔ ledger invariant of Layer B (while the cache is running). -/
structure BBij (b : BState) : Prop where
  /-- (a) HELD ⇒ CHARGED: the id of every stored entry is charged, for that very key — or it is being evicted: the
      worker / the sweeper has taken the charge out of `kw` and stands before `wu.sub` or `store.remove` with it -/
  heldCharged : ∀ k e, b.g.store.get? k = some e →
    (∃ wk, b.g.adm.kw.get? e.id = some wk ∧ wk.key = k) ∨
    (∃ wk, b.w.evicting? = some (e.id, wk) ∧ wk.key = k) ∨
    (∃ wk, b.sw.evicting? = some (e.id, wk) ∧ wk.key = k)
  /-- (b) CHARGED ⇒ HELD (worker not dead): every charged id is the id of the entry stored under the charged key — or
      it is the id of the put the worker is applying (between `kw.insert` and `store.put`), or the id of the entry a
      `Delete` has just removed (between `store.remove` and `kw.remove`) -/
  chargedHeld : b.w ≠ .dead → ∀ id wk, b.g.adm.kw.get? id = some wk →
    (∃ e, b.g.store.get? wk.key = some e ∧ e.id = id) ∨
    (∃ c, b.w.putting? = some c ∧ c.id = id) ∨
    b.w.deleting? = some id
  /-- (c1) between `kw.insert` and `store.put` the new id stays charged, for the key of the put -/
  putCharged : ∀ c, b.w.putting? = some c → ∃ wk, b.g.adm.kw.get? c.id = some wk ∧ wk.key = c.k
  /-- (c2) the id the worker is evicting is not charged (nobody re-inserts it) -/
  wEvictUncharged : ∀ id wk, b.w.evicting? = some (id, wk) → b.g.adm.kw.get? id = none
  /-- (c3) the worker's by-key delete hook will hit its own id: the entry stored under the victim's key, if any,
      carries the victim's id -/
  wEvictOwn : ∀ id wk, b.w.evicting? = some (id, wk) → ∀ e, b.g.store.get? wk.key = some e → e.id = id
  /-- (c4) the id the sweeper is evicting is not charged and is nobody's fresh id: it will not be inserted again -/
  sEvictStale : ∀ id wk, b.sw.evicting? = some (id, wk) →
    b.g.adm.kw.get? id = none ∧ occ b id = 0 ∧ id < b.g.nextId
  /-- (c5) the id a `Delete` has removed from the store is stored under no other key -/
  delNoEntry : ∀ id, b.w.deleting? = some id → ∀ k e, b.g.store.get? k = some e → e.id ≠ id
  /-- (c6) distinct keys are stored under distinct ids -/
  storeIdInj : ∀ k k' e e', b.g.store.get? k = some e → b.g.store.get? k' = some e' → e.id = e'.id → k = k'
  /-- (c7) distinct charged ids are charged for distinct keys (with a dead worker, and during a `Delete`, as well) -/
  kwKeyInj : KwKeyInj b.g.adm.kw

/-! ## 2  actions that leave ledger membership and the stored ids alone -/

@[simp] theorem WPc.putting?_dead : WPc.dead.putting? = none := rfl
@[simp] theorem WPc.deleting?_dead : WPc.dead.deleting? = none := rfl

theorem putting_fresh {b : BState} {c : PutCmd} (h : b.w.putting? = some c) : 0 < occ b c.id := by
  cases hw : b.w <;> simp only [hw, WPc.putting?, Option.some.injEq, reduceCtorEq] at h
  all_goals subst h
  all_goals simp [occ, WPc.freshId?, hw]

/-- `BBij` looks at the state only through: the id stored under each key, the ledger, what the worker and the sweeper
    have in flight, whether the worker is dead, and the fresh-id count of ids below the id counter. -/
theorem BBij.transfer {b b' : BState} (hi : BBij b)
    (hst : ∀ k, (b'.g.store.get? k).map (·.id) = (b.g.store.get? k).map (·.id))
    (hkw : b'.g.adm.kw = b.g.adm.kw) (hse : b'.sw.evicting? = b.sw.evicting?)
    (he : b'.w.evicting? = b.w.evicting?)
    (hpd : b'.w = .dead ∨ (b.w ≠ .dead ∧ b'.w.putting? = b.w.putting? ∧ b'.w.deleting? = b.w.deleting?))
    (hocc : ∀ f, f < b.g.nextId → occ b' f ≤ occ b f) (hn : b.g.nextId ≤ b'.g.nextId) : BBij b' := by
  have hput : ∀ c, b'.w.putting? = some c → b.w.putting? = some c := by
    intro c hc
    rcases hpd with h | ⟨_, h, _⟩
    · rw [h] at hc; cases hc
    · rw [← h]; exact hc
  have hdel : ∀ id, b'.w.deleting? = some id → b.w.deleting? = some id := by
    intro id hc
    rcases hpd with h | ⟨_, _, h⟩
    · rw [h] at hc; cases hc
    · rw [← h]; exact hc
  refine ⟨?_, ?_, ?_, ?_, ?_, ?_, ?_, ?_, ?_⟩
  · intro k e' hk
    obtain ⟨e, hk0, hid⟩ := idmap_fwd (hst k) hk
    rw [hkw, he, hse, ← hid]
    exact hi.heldCharged k e hk0
  · intro hd id wk hg
    rcases hpd with h | ⟨h0, h1, h2⟩
    · exact absurd h hd
    · rw [hkw] at hg
      rcases hi.chargedHeld h0 id wk hg with ⟨e, hk, hid⟩ | h | h
      · obtain ⟨e', hk', hid'⟩ := idmap_bwd (hst wk.key) hk
        exact Or.inl ⟨e', hk', hid'.trans hid⟩
      · exact Or.inr (Or.inl (by rw [h1]; exact h))
      · exact Or.inr (Or.inr (by rw [h2]; exact h))
  · intro c hc; rw [hkw]; exact hi.putCharged c (hput c hc)
  · intro id wk h; rw [hkw]; exact hi.wEvictUncharged id wk (by rw [← he]; exact h)
  · intro id wk h e' hk
    obtain ⟨e, hk0, hid⟩ := idmap_fwd (hst _) hk
    rw [← hid]; exact hi.wEvictOwn id wk (by rw [← he]; exact h) e hk0
  · intro id wk h
    obtain ⟨h1, h2, h3⟩ := hi.sEvictStale id wk (by rw [← hse]; exact h)
    refine ⟨by rw [hkw]; exact h1, ?_, by omega⟩
    have := hocc id h3; omega
  · intro id h k e' hk
    obtain ⟨e, hk0, hid⟩ := idmap_fwd (hst k) hk
    rw [← hid]; exact hi.delNoEntry id (hdel id h) k e hk0
  · intro k k' e1 e2 h1 h2 hid
    obtain ⟨a1, ha1, hi1⟩ := idmap_fwd (hst k) h1
    obtain ⟨a2, ha2, hi2⟩ := idmap_fwd (hst k') h2
    exact hi.storeIdInj k k' a1 a2 ha1 ha2 (by rw [hi1, hi2, hid])
  · rw [hkw]; exact hi.kwKeyInj

/-- the worker does not move, the sweeper's in-flight eviction stays -/
theorem BBij.inPlace {b b' : BState} (hi : BBij b)
    (hst : ∀ k, (b'.g.store.get? k).map (·.id) = (b.g.store.get? k).map (·.id))
    (hkw : b'.g.adm.kw = b.g.adm.kw) (hse : b'.sw.evicting? = b.sw.evicting?) (hw : b'.w = b.w)
    (hocc : ∀ f, f < b.g.nextId → occ b' f ≤ occ b f) (hn : b.g.nextId ≤ b'.g.nextId) : BBij b' := by
  refine hi.transfer hst hkw hse (by rw [hw]) ?_ hocc hn
  by_cases hd : b.w = .dead
  · exact Or.inl (by rw [hw]; exact hd)
  · exact Or.inr ⟨hd, by rw [hw], by rw [hw]⟩

/-! ## 3  the worker -/

/-- `kw.insert`: the new id is charged, the put is in flight -/
theorem bbij_insert {b b' : BState} (hb : BInv b) (ha : WAbsent b) (hi : BBij b) (c : PutCmd)
    (hw : b.w = .insert c)
    (hw' : b'.w = .add c)
    (hkw : b'.g.adm.kw = b.g.adm.kw.set c.id { key := c.k, hash := c.hash, weight := c.w })
    (hst : b'.g.store = b.g.store) (hsw : b'.sw = b.sw) (hocc : ∀ f, occ b' f ≤ occ b f)
    (hn : b'.g.nextId = b.g.nextId) : BBij b' := by
  have hfresh : 0 < occ b c.id := by simp [occ, WPc.freshId?, hw]
  have hE : b.w.evicting? = none := by rw [hw]; rfl
  have hE' : b'.w.evicting? = none := by rw [hw']; rfl
  have hP : b.w.putting? = none := by rw [hw]; rfl
  have hD : b.w.deleting? = none := by rw [hw]; rfl
  have hA : b.w ≠ .dead := by rw [hw]; intro h; cases h
  refine ⟨?_, ?_, ?_, ?_, ?_, ?_, ?_, ?_, ?_⟩
  · intro k e hk
    rw [hst] at hk
    have hne : c.id ≠ e.id := (used_ne_fresh hb (store_id_used hk) hfresh).symm
    rw [hkw, AMap.get?_set_other _ _ hne, hE', hsw]
    rcases hi.heldCharged k e hk with h | ⟨wk, h, _⟩ | h
    · exact Or.inl h
    · rw [hE] at h; cases h
    · exact Or.inr (Or.inr h)
  · intro _ id wk hg
    rw [hkw, AMap.get?_set] at hg
    split at hg
    · rename_i e; exact Or.inr (Or.inl ⟨c, by rw [hw']; rfl, e⟩)
    · rcases hi.chargedHeld hA id wk hg with h | ⟨c', h, _⟩ | h
      · exact Or.inl (by rw [hst]; exact h)
      · rw [hP] at h; cases h
      · rw [hD] at h; cases h
  · intro c' hc'
    rw [hw'] at hc'; simp only [WPc.putting?, Option.some.injEq] at hc'; subst hc'
    exact ⟨_, by rw [hkw, AMap.get?_set_same], rfl⟩
  · intro id wk h; rw [hE'] at h; cases h
  · intro id wk h; rw [hE'] at h; cases h
  · intro id wk h
    obtain ⟨h1, h2, h3⟩ := hi.sEvictStale id wk (by rw [← hsw]; exact h)
    have hne : c.id ≠ id := by intro e; subst e; omega
    refine ⟨by rw [hkw, AMap.get?_set_other _ _ hne]; exact h1, ?_, by omega⟩
    have := hocc id; omega
  · intro id h; rw [hw'] at h; cases h
  · rw [hst]; exact hi.storeIdInj
  · have habs : b.g.store.get? c.k = none := ha c (by rw [hw]; rfl)
    have hnew : ∀ id' wk', b.g.adm.kw.get? id' = some wk' → wk'.key ≠ c.k := by
      intro id' wk' hg' hkey
      rcases hi.chargedHeld hA id' wk' hg' with ⟨e, hk, _⟩ | ⟨c', h, _⟩ | h
      · rw [hkey, habs] at hk; cases hk
      · rw [hP] at h; cases h
      · rw [hD] at h; cases h
    intro id id' wk wk' hg hg' hkey
    rw [hkw, AMap.get?_set] at hg hg'
    split at hg <;> split at hg'
    · rename_i h1 h2; rw [← h1, ← h2]
    · cases hg; exact absurd hkey.symm (hnew id' wk' hg')
    · cases hg'; exact absurd hkey (hnew id wk hg)
    · exact hi.kwKeyInj id id' wk wk' hg hg' hkey

/-- `kw.update` of an `UpdateWeight` command: the charge keeps its key -/
theorem bbij_update {b b' : BState} (hi : BBij b) (id0 : Nat) (w : Int) (hh : Option Nat) (wk0 : WKey)
    (hw : b.w = .update id0 w hh) (hg0 : b.g.adm.kw.get? id0 = some wk0) (hw' : b'.w = .recv)
    (hkw : b'.g.adm.kw = b.g.adm.kw.set id0 { wk0 with weight := w })
    (hst : b'.g.store = b.g.store) (hsw : b'.sw = b.sw) (hocc : ∀ f, occ b' f ≤ occ b f)
    (hn : b'.g.nextId = b.g.nextId) : BBij b' := by
  have hE : b.w.evicting? = none := by rw [hw]; rfl
  have hE' : b'.w.evicting? = none := by rw [hw']; rfl
  have hP : b.w.putting? = none := by rw [hw]; rfl
  have hD : b.w.deleting? = none := by rw [hw]; rfl
  have hA : b.w ≠ .dead := by rw [hw]; intro h; cases h
  refine ⟨?_, ?_, ?_, ?_, ?_, ?_, ?_, ?_, ?_⟩
  · intro k e hk
    rw [hst] at hk
    rw [hkw, hE', hsw]
    rcases hi.heldCharged k e hk with ⟨wk, hg, hkey⟩ | ⟨wk, h, _⟩ | h
    · by_cases hid : id0 = e.id
      · subst hid
        rw [hg0] at hg; cases hg
        exact Or.inl ⟨_, AMap.get?_set_same _ _ _, hkey⟩
      · exact Or.inl ⟨wk, by rw [AMap.get?_set_other _ _ hid]; exact hg, hkey⟩
    · rw [hE] at h; cases h
    · exact Or.inr (Or.inr h)
  · intro _ id wk hg
    rw [hkw, AMap.get?_set] at hg
    rw [hst]
    split at hg
    · rename_i e; subst e
      cases hg
      rcases hi.chargedHeld hA id0 wk0 hg0 with h | ⟨c', h, _⟩ | h
      · exact Or.inl h
      · rw [hP] at h; cases h
      · rw [hD] at h; cases h
    · rcases hi.chargedHeld hA id wk hg with h | ⟨c', h, _⟩ | h
      · exact Or.inl h
      · rw [hP] at h; cases h
      · rw [hD] at h; cases h
  · intro c' hc'; rw [hw'] at hc'; cases hc'
  · intro id wk h; rw [hE'] at h; cases h
  · intro id wk h; rw [hE'] at h; cases h
  · intro id wk h
    obtain ⟨h1, h2, h3⟩ := hi.sEvictStale id wk (by rw [← hsw]; exact h)
    have hne : id0 ≠ id := by intro e; subst e; rw [hg0] at h1; cases h1
    refine ⟨by rw [hkw, AMap.get?_set_other _ _ hne]; exact h1, ?_, by omega⟩
    have := hocc id; omega
  · intro id h; rw [hw'] at h; cases h
  · rw [hst]; exact hi.storeIdInj
  · rw [hkw]
    refine hi.kwKeyInj.back ?_
    intro id wk hg
    rw [AMap.get?_set] at hg
    split at hg
    · rename_i e; subst e; cases hg; exact ⟨wk0, hg0, rfl⟩
    · exact ⟨wk, hg, rfl⟩

/-- `store.put`: the put in flight lands (on an absent key, under its fresh id) -/
theorem bbij_storePut {b b' : BState} (hb : BInv b) (ha : WAbsent b) (hi : BBij b) (c : PutCmd) (en : Entry)
    (hw : b.w = .storePut c) (hen : en.id = c.id) (hw' : b'.w = .recv ∨ ∃ e, b'.w = .ttlPut c e)
    (hkw : b'.g.adm.kw = b.g.adm.kw) (hst : b'.g.store = b.g.store.set c.k en) (hsw : b'.sw = b.sw)
    (hocc : ∀ f, occ b' f ≤ occ b f) (hn : b'.g.nextId = b.g.nextId) : BBij b' := by
  have hfresh : 0 < occ b c.id := by simp [occ, WPc.freshId?, hw]
  have habs : b.g.store.get? c.k = none := ha c (by rw [hw]; rfl)
  have hE : b.w.evicting? = none := by rw [hw]; rfl
  have hD : b.w.deleting? = none := by rw [hw]; rfl
  have hA : b.w ≠ .dead := by rw [hw]; intro h; cases h
  have hE' : b'.w.evicting? = none := by rcases hw' with h | ⟨e, h⟩ <;> rw [h] <;> rfl
  have hP' : b'.w.putting? = none := by rcases hw' with h | ⟨e, h⟩ <;> rw [h] <;> rfl
  have hD' : b'.w.deleting? = none := by rcases hw' with h | ⟨e, h⟩ <;> rw [h] <;> rfl
  obtain ⟨wkc, hgc, hkeyc⟩ := hi.putCharged c (by rw [hw]; rfl)
  refine ⟨?_, ?_, ?_, ?_, ?_, ?_, ?_, ?_, ?_⟩
  · intro k e hk
    rw [hst, AMap.get?_set] at hk
    rw [hkw, hE', hsw]
    split at hk
    · rename_i hkk; subst hkk
      cases hk
      exact Or.inl ⟨wkc, by rw [hen]; exact hgc, hkeyc⟩
    · rcases hi.heldCharged k e hk with h | ⟨wk, h, _⟩ | h
      · exact Or.inl h
      · rw [hE] at h; cases h
      · exact Or.inr (Or.inr h)
  · intro _ id wk hg
    rw [hkw] at hg
    rcases hi.chargedHeld hA id wk hg with ⟨e, hk, hid⟩ | ⟨c', h, hid⟩ | h
    · have hne : c.k ≠ wk.key := by intro e'; rw [← e', habs] at hk; cases hk
      exact Or.inl ⟨e, by rw [hst, AMap.get?_set_other _ _ hne]; exact hk, hid⟩
    · rw [hw] at h; simp only [WPc.putting?, Option.some.injEq] at h; subst h
      subst hid
      rw [hgc] at hg; cases hg
      exact Or.inl ⟨en, by rw [hst, hkeyc, AMap.get?_set_same], hen⟩
    · rw [hD] at h; cases h
  · intro c' hc'; rw [hP'] at hc'; cases hc'
  · intro id wk h; rw [hE'] at h; cases h
  · intro id wk h; rw [hE'] at h; cases h
  · intro id wk h
    obtain ⟨h1, h2, h3⟩ := hi.sEvictStale id wk (by rw [← hsw]; exact h)
    refine ⟨by rw [hkw]; exact h1, ?_, by omega⟩
    have := hocc id; omega
  · intro id h; rw [hD'] at h; cases h
  · intro k k' e e' hk hk' hid
    rw [hst, AMap.get?_set] at hk hk'
    split at hk <;> split at hk'
    · rename_i h1 h2; rw [← h1, ← h2]
    · cases hk
      exact absurd (hid.symm.trans hen) (used_ne_fresh hb (store_id_used hk') hfresh)
    · cases hk'
      exact absurd (hid.trans hen) (used_ne_fresh hb (store_id_used hk) hfresh)
    · exact hi.storeIdInj k k' e e' hk hk' hid
  · rw [hkw]; exact hi.kwKeyInj

/-- `kw.remove` of a victim: the eviction is in flight -/
theorem bbij_evRemove {b b' : BState} (hi : BBij b) (c : PutCmd) (e : Nat) (s : List SKey) (v : SKey) (wk0 : WKey)
    (hw : b.w = .evRemove c e s v) (hg0 : b.g.adm.kw.get? v.id = some wk0) (hw' : b'.w = .evSub c e s v.id wk0)
    (hkw : b'.g.adm.kw = b.g.adm.kw.del v.id) (hst : b'.g.store = b.g.store) (hsw : b'.sw = b.sw)
    (hocc : ∀ f, occ b' f ≤ occ b f) (hn : b'.g.nextId = b.g.nextId) : BBij b' := by
  have hE : b.w.evicting? = none := by rw [hw]; rfl
  have hE' : b'.w.evicting? = some (v.id, wk0) := by rw [hw']; rfl
  have hP : b.w.putting? = none := by rw [hw]; rfl
  have hD : b.w.deleting? = none := by rw [hw]; rfl
  have hA : b.w ≠ .dead := by rw [hw]; intro h; cases h
  refine ⟨?_, ?_, ?_, ?_, ?_, ?_, ?_, ?_, ?_⟩
  · intro k en hk
    rw [hst] at hk
    rw [hkw, hE', hsw]
    rcases hi.heldCharged k en hk with ⟨wk, hg, hkey⟩ | ⟨wk, h, _⟩ | h
    · by_cases hid : v.id = en.id
      · rw [← hid] at hg; rw [hg0] at hg; cases hg
        exact Or.inr (Or.inl ⟨wk0, by rw [hid], hkey⟩)
      · exact Or.inl ⟨wk, by rw [AMap.get?_del_other _ hid]; exact hg, hkey⟩
    · rw [hE] at h; cases h
    · exact Or.inr (Or.inr h)
  · intro _ id wk hg
    rw [hkw, AMap.get?_del] at hg
    split at hg
    · cases hg
    · rw [hst]
      rcases hi.chargedHeld hA id wk hg with h | ⟨c', h, _⟩ | h
      · exact Or.inl h
      · rw [hP] at h; cases h
      · rw [hD] at h; cases h
  · intro c' hc'; rw [hw'] at hc'; cases hc'
  · intro id wk h
    rw [hE'] at h; cases h
    rw [hkw]; exact AMap.get?_del_same _ _
  · intro id wk h en hk
    rw [hE'] at h; cases h
    rw [hst] at hk
    rcases hi.chargedHeld hA v.id wk0 hg0 with ⟨e1, hk1, hid⟩ | ⟨c', h, _⟩ | h
    · rw [hk1] at hk; cases hk; exact hid
    · rw [hP] at h; cases h
    · rw [hD] at h; cases h
  · intro id wk h
    obtain ⟨h1, h2, h3⟩ := hi.sEvictStale id wk (by rw [← hsw]; exact h)
    refine ⟨?_, ?_, by omega⟩
    · rw [hkw, AMap.get?_del]; split
      · rfl
      · exact h1
    · have := hocc id; omega
  · intro id h; rw [hw'] at h; cases h
  · rw [hst]; exact hi.storeIdInj
  · rw [hkw]; exact hi.kwKeyInj.del _

/-- `store.remove` of the worker's eviction (the by-key delete hook): it removes the entry of the id in flight -/
theorem bbij_evStore {b b' : BState} (hi : BBij b) (c : PutCmd) (e : Nat) (s : List SKey) (id0 : Nat) (wk0 : WKey)
    (hw : b.w = .evStore c e s id0 wk0) (hw' : b'.w = .evSpace c e s)
    (hkw : b'.g.adm.kw = b.g.adm.kw) (hst : b'.g.store = b.g.store.del wk0.key) (hsw : b'.sw = b.sw)
    (hocc : ∀ f, occ b' f ≤ occ b f) (hn : b'.g.nextId = b.g.nextId) : BBij b' := by
  have hE : b.w.evicting? = some (id0, wk0) := by rw [hw]; rfl
  have hE' : b'.w.evicting? = none := by rw [hw']; rfl
  have hP : b.w.putting? = none := by rw [hw]; rfl
  have hD : b.w.deleting? = none := by rw [hw]; rfl
  have hA : b.w ≠ .dead := by rw [hw]; intro h; cases h
  have hsub : ∀ k en, b'.g.store.get? k = some en → b.g.store.get? k = some en ∧ wk0.key ≠ k := by
    intro k en hk
    rw [hst, AMap.get?_del] at hk
    split at hk
    · cases hk
    · rename_i hne; exact ⟨hk, hne⟩
  refine ⟨?_, ?_, ?_, ?_, ?_, ?_, ?_, ?_, ?_⟩
  · intro k en hk
    obtain ⟨hk0, hne⟩ := hsub k en hk
    rw [hkw, hE', hsw]
    rcases hi.heldCharged k en hk0 with h | ⟨wk, h, hkey⟩ | h
    · exact Or.inl h
    · rw [hE] at h; cases h; exact absurd hkey hne
    · exact Or.inr (Or.inr h)
  · intro _ id wk hg
    rw [hkw] at hg
    rcases hi.chargedHeld hA id wk hg with ⟨e1, hk, hid⟩ | ⟨c', h, _⟩ | h
    · by_cases hkk : wk0.key = wk.key
      · rw [← hkk] at hk
        have := hi.wEvictOwn id0 wk0 hE e1 hk
        rw [← hid, this, hi.wEvictUncharged id0 wk0 hE] at hg; cases hg
      · exact Or.inl ⟨e1, by rw [hst, AMap.get?_del_other _ hkk]; exact hk, hid⟩
    · rw [hP] at h; cases h
    · rw [hD] at h; cases h
  · intro c' hc'; rw [hw'] at hc'; cases hc'
  · intro id wk h; rw [hE'] at h; cases h
  · intro id wk h; rw [hE'] at h; cases h
  · intro id wk h
    obtain ⟨h1, h2, h3⟩ := hi.sEvictStale id wk (by rw [← hsw]; exact h)
    refine ⟨by rw [hkw]; exact h1, ?_, by omega⟩
    have := hocc id; omega
  · intro id h; rw [hw'] at h; cases h
  · intro k k' e1 e2 h1 h2 hid
    exact hi.storeIdInj k k' e1 e2 (hsub k e1 h1).1 (hsub k' e2 h2).1 hid
  · rw [hkw]; exact hi.kwKeyInj

/-- `store.remove` of a `Delete` command that finds the key: the delete is in flight -/
theorem bbij_delStore {b b' : BState} (hi : BBij b) (k0 : Nat) (hh : Option Nat) (e0 : Entry)
    (hw : b.w = .delStore k0 hh) (hk0 : b.g.store.get? k0 = some e0) (hw' : b'.w = .delKw e0.id e0.expiry hh)
    (hkw : b'.g.adm.kw = b.g.adm.kw) (hst : b'.g.store = b.g.store.del k0) (hsw : b'.sw = b.sw)
    (hocc : ∀ f, occ b' f ≤ occ b f) (hn : b'.g.nextId = b.g.nextId) : BBij b' := by
  have hE : b.w.evicting? = none := by rw [hw]; rfl
  have hE' : b'.w.evicting? = none := by rw [hw']; rfl
  have hP : b.w.putting? = none := by rw [hw]; rfl
  have hD : b.w.deleting? = none := by rw [hw]; rfl
  have hA : b.w ≠ .dead := by rw [hw]; intro h; cases h
  have hsub : ∀ k en, b'.g.store.get? k = some en → b.g.store.get? k = some en ∧ k0 ≠ k := by
    intro k en hk
    rw [hst, AMap.get?_del] at hk
    split at hk
    · cases hk
    · rename_i hne; exact ⟨hk, hne⟩
  refine ⟨?_, ?_, ?_, ?_, ?_, ?_, ?_, ?_, ?_⟩
  · intro k en hk
    obtain ⟨hk1, hne⟩ := hsub k en hk
    rw [hkw, hE', hsw]
    rcases hi.heldCharged k en hk1 with h | ⟨wk, h, hkey⟩ | h
    · exact Or.inl h
    · rw [hE] at h; cases h
    · exact Or.inr (Or.inr h)
  · intro _ id wk hg
    rw [hkw] at hg
    rcases hi.chargedHeld hA id wk hg with ⟨e1, hk, hid⟩ | ⟨c', h, _⟩ | h
    · by_cases hkk : k0 = wk.key
      · rw [← hkk, hk0] at hk; cases hk
        exact Or.inr (Or.inr (by rw [hw', ← hid]; rfl))
      · exact Or.inl ⟨e1, by rw [hst, AMap.get?_del_other _ hkk]; exact hk, hid⟩
    · rw [hP] at h; cases h
    · rw [hD] at h; cases h
  · intro c' hc'; rw [hw'] at hc'; cases hc'
  · intro id wk h; rw [hE'] at h; cases h
  · intro id wk h; rw [hE'] at h; cases h
  · intro id wk h
    obtain ⟨h1, h2, h3⟩ := hi.sEvictStale id wk (by rw [← hsw]; exact h)
    refine ⟨by rw [hkw]; exact h1, ?_, by omega⟩
    have := hocc id; omega
  · intro id h k en hk hid
    rw [hw'] at h; simp only [WPc.deleting?, Option.some.injEq] at h; subst h
    obtain ⟨hk1, hne⟩ := hsub k en hk
    exact hne (hi.storeIdInj k k0 en e0 hk1 hk0 hid).symm
  · intro k k' e1 e2 h1 h2 hid
    exact hi.storeIdInj k k' e1 e2 (hsub k e1 h1).1 (hsub k' e2 h2).1 hid
  · rw [hkw]; exact hi.kwKeyInj

/-- `kw.remove` of a `Delete` command (whether or not it still finds the charge): nothing of it is in flight any more -/
theorem bbij_delKw {b b' : BState} (hi : BBij b) (id0 : Nat) (exp hh : Option Nat)
    (hw : b.w = .delKw id0 exp hh) (hE' : b'.w.evicting? = none) (hP' : b'.w.putting? = none)
    (hD' : b'.w.deleting? = none)
    (hkw : b'.g.adm.kw = b.g.adm.kw.del id0) (hst : b'.g.store = b.g.store) (hsw : b'.sw = b.sw)
    (hocc : ∀ f, occ b' f ≤ occ b f) (hn : b'.g.nextId = b.g.nextId) : BBij b' := by
  have hE : b.w.evicting? = none := by rw [hw]; rfl
  have hP : b.w.putting? = none := by rw [hw]; rfl
  have hD : b.w.deleting? = some id0 := by rw [hw]; rfl
  have hA : b.w ≠ .dead := by rw [hw]; intro h; cases h
  refine ⟨?_, ?_, ?_, ?_, ?_, ?_, ?_, ?_, ?_⟩
  · intro k en hk
    rw [hst] at hk
    have hne : id0 ≠ en.id := (hi.delNoEntry id0 hD k en hk).symm
    rw [hkw, AMap.get?_del_other _ hne, hE', hsw]
    rcases hi.heldCharged k en hk with h | ⟨wk, h, hkey⟩ | h
    · exact Or.inl h
    · rw [hE] at h; cases h
    · exact Or.inr (Or.inr h)
  · intro _ id wk hg
    rw [hkw, AMap.get?_del] at hg
    split at hg
    · cases hg
    · rename_i hne
      rw [hst]
      rcases hi.chargedHeld hA id wk hg with h | ⟨c', h, _⟩ | h
      · exact Or.inl h
      · rw [hP] at h; cases h
      · rw [hD] at h; cases h; exact absurd rfl hne
  · intro c' hc'; rw [hP'] at hc'; cases hc'
  · intro id wk h; rw [hE'] at h; cases h
  · intro id wk h; rw [hE'] at h; cases h
  · intro id wk h
    obtain ⟨h1, h2, h3⟩ := hi.sEvictStale id wk (by rw [← hsw]; exact h)
    refine ⟨?_, ?_, by omega⟩
    · rw [hkw, AMap.get?_del]; split
      · rfl
      · exact h1
    · have := hocc id; omega
  · intro id h; rw [hD'] at h; cases h
  · rw [hst]; exact hi.storeIdInj
  · rw [hkw]; exact hi.kwKeyInj.del _

/-- the worker's `kw.remove` action of a `Delete` command, as far as `BBij` looks at it -/
theorem bij_workerAct_delKw {b b' : BState} {o o' : Oracle} {id : Nat} {exp hh : Option Nat}
    (hw : b.w = .delKw id exp hh) (h : workerAct b o = .ok (b', o')) :
    b'.w.evicting? = none ∧ b'.w.putting? = none ∧ b'.w.deleting? = none ∧
    b'.g.adm.kw = b.g.adm.kw.del id ∧ b'.g.store = b.g.store ∧ b'.sw = b.sw := by
  simp only [workerAct, hw] at h
  split at h
  · simp only [Except.ok.injEq, Prod.mk.injEq] at h; obtain ⟨rfl, rfl⟩ := h
    exact ⟨rfl, rfl, rfl, rfl, rfl, rfl⟩
  · rename_i hnone
    split at h
    all_goals simp only [Except.ok.injEq, Prod.mk.injEq] at h; obtain ⟨rfl, rfl⟩ := h
    · exact ⟨rfl, rfl, rfl, (AMap.del_of_get?_none hnone).symm, rfl, rfl⟩
    · exact ⟨rfl, rfl, rfl, (AMap.del_of_get?_none hnone).symm, rfl, rfl⟩

/-- every action of the worker preserves `BBij` (whatever the shutdown flag says) -/
theorem bbij_workerAct {b b' : BState} {o o' : Oracle} (hb : BInv b) (ha : WAbsent b) (hi : BBij b)
    (h : workerAct b o = .ok (b', o')) : BBij b' := by
  have ht := workerAct_trans h
  have hocc := wtrans_occ ht
  have hn := wtrans_nextId ht
  by_cases hd : ∃ id exp hh, b.w = .delKw id exp hh
  · obtain ⟨id, exp, hh, hw⟩ := hd
    obtain ⟨h1, h2, h3, h4, h5, h6⟩ := bij_workerAct_delKw hw h
    exact bbij_delKw hi id exp hh hw h1 h2 h3 h4 h5 h6 hocc hn
  cases ht with
  | insert c hw => exact bbij_insert hb ha hi c hw rfl rfl rfl rfl hocc hn
  | updateApplied id w hh wk hw hfree hg => exact bbij_update hi id w hh wk hw hg rfl rfl rfl rfl hocc hn
  | storePutPlain c hw _ _ => exact bbij_storePut hb ha hi c _ hw rfl (Or.inl rfl) rfl rfl rfl hocc hn
  | storePutTtl c t e hw _ _ => exact bbij_storePut hb ha hi c _ hw rfl (Or.inr ⟨e, rfl⟩) rfl rfl rfl hocc hn
  | evRemoveSome c e s v wk hw hg => exact bbij_evRemove hi c e s v wk hw hg rfl rfl rfl rfl hocc hn
  | evStore c e s id wk hw _ =>
    exact bbij_evStore hi c e s id wk hw rfl (by simp) (applyEvict_store _ _) rfl hocc hn
  | delStoreSome k hh e hw hk _ => exact bbij_delStore hi k hh e hw hk rfl rfl rfl rfl hocc hn
  | delKwSome id exp hh wk hw _ => exact absurd ⟨_, _, _, hw⟩ hd
  | delKwNoneTtl id e hh hw => exact absurd ⟨_, _, _, hw⟩ hd
  | delKwNoneDone id hh hw => exact absurd ⟨_, _, _, hw⟩ hd
  | _ =>
    refine hi.transfer (fun k => ?_) ?_ ?_ ?_ ?_ (fun f _ => hocc f) (Nat.le_of_eq hn.symm)
    all_goals simp [finishCmd, rejectCmd, ttlPut, ttlDelete, WPc.evicting?, WPc.putting?, WPc.deleting?, *]

/-! ### the sweeper -/

@[simp] theorem sweepNext_evicting (b : BState) (n s : Nat) (r : List (Nat × Nat)) :
    (sweepNext b n s r).sw.evicting? = none := by
  unfold sweepNext; split <;> rfl

theorem occ_sweepNext (b : BState) (n s : Nat) (r : List (Nat × Nat)) (f : Nat) : occ (sweepNext b n s r) f = occ b f := by
  unfold sweepNext; split <;> rfl

/-- the sweeper's `kw.remove`: its eviction is in flight -/
theorem bbij_sKwRemove {b b' : BState} (hb : BInv b) (hi : BBij b) (now shard : Nat) (rest : List (Nat × Nat))
    (id0 : Nat) (wk0 : WKey) (hg0 : b.g.adm.kw.get? id0 = some wk0) (hs : b.sw = .kwRemove now shard rest id0)
    (hs' : b'.sw = .sub now shard rest id0 wk0) (hkw : b'.g.adm.kw = b.g.adm.kw.del id0)
    (hst : b'.g.store = b.g.store) (hw : b'.w = b.w) (hocc : ∀ f, occ b' f = occ b f)
    (hn : b'.g.nextId = b.g.nextId) : BBij b' := by
  have hS : b.sw.evicting? = none := by rw [hs]; rfl
  have hS' : b'.sw.evicting? = some (id0, wk0) := by rw [hs']; rfl
  have hused : id0 ∈ usedIds b := by rw [mem_usedIds]; simp [hs, SPc.ids]
  have hsub : ∀ id wk, b'.g.adm.kw.get? id = some wk → b.g.adm.kw.get? id = some wk := by
    intro id wk hg
    rw [hkw, AMap.get?_del] at hg
    split at hg
    · cases hg
    · exact hg
  have hnone : ∀ id, b.g.adm.kw.get? id = none → b'.g.adm.kw.get? id = none := by
    intro id hg
    rw [hkw, AMap.get?_del]; split
    · rfl
    · exact hg
  refine ⟨?_, ?_, ?_, ?_, ?_, ?_, ?_, ?_, ?_⟩
  · intro k en hk
    rw [hst] at hk
    rw [hkw, hS', hw]
    rcases hi.heldCharged k en hk with ⟨wk, hg, hkey⟩ | h | ⟨wk, h, _⟩
    · by_cases hid : id0 = en.id
      · rw [← hid] at hg; rw [hg0] at hg; cases hg
        exact Or.inr (Or.inr ⟨wk0, by rw [hid], hkey⟩)
      · exact Or.inl ⟨wk, by rw [AMap.get?_del_other _ hid]; exact hg, hkey⟩
    · exact Or.inr (Or.inl h)
    · rw [hS] at h; cases h
  · intro hd id wk hg
    rw [hw] at hd ⊢
    rw [hst]
    exact hi.chargedHeld hd id wk (hsub id wk hg)
  · intro c hc
    rw [hw] at hc
    obtain ⟨wk, hg, hkey⟩ := hi.putCharged c hc
    have hne : id0 ≠ c.id := used_ne_fresh hb hused (putting_fresh hc)
    exact ⟨wk, by rw [hkw, AMap.get?_del_other _ hne]; exact hg, hkey⟩
  · intro id wk h
    rw [hw] at h
    exact hnone id (hi.wEvictUncharged id wk h)
  · intro id wk h en hk
    rw [hw] at h; rw [hst] at hk
    exact hi.wEvictOwn id wk h en hk
  · intro id wk h
    rw [hS'] at h; cases h
    have := hb.freshIds.2.2.2.2.1 id0 hused
    exact ⟨by rw [hkw]; exact AMap.get?_del_same _ _, by rw [hocc]; exact this.1, by rw [hn]; exact this.2⟩
  · intro id h k en hk
    rw [hw] at h; rw [hst] at hk
    exact hi.delNoEntry id h k en hk
  · rw [hst]; exact hi.storeIdInj
  · rw [hkw]; exact hi.kwKeyInj.del _

/-- the sweeper's `store.remove` (the by-key-and-id delete hook): its eviction is over -/
theorem bbij_sStore {b b' : BState} (hi : BBij b) (now shard : Nat) (rest : List (Nat × Nat)) (id0 : Nat) (wk0 : WKey)
    (hs : b.sw = .store now shard rest id0 wk0) (hS' : b'.sw.evicting? = none)
    (hkw : b'.g.adm.kw = b.g.adm.kw) (hst : b'.g.store = (applyEvictId b.g (id0, wk0.key, wk0.weight)).store)
    (hw : b'.w = b.w) : BBij b' := by
  have hS : b.sw.evicting? = some (id0, wk0) := by rw [hs]; rfl
  have hsub : ∀ k en, b'.g.store.get? k = some en → b.g.store.get? k = some en := by
    intro k en hk
    rw [hst] at hk
    exact Cached.applyEvictId_get?_sub b.g _ hk
  refine ⟨?_, ?_, ?_, ?_, ?_, ?_, ?_, ?_, ?_⟩
  · intro k en hk
    have hk0 := hsub k en hk
    rw [hkw, hS', hw]
    rcases hi.heldCharged k en hk0 with h | h | ⟨wk, h, hkey⟩
    · exact Or.inl h
    · exact Or.inr (Or.inl h)
    · rw [hS] at h; cases h
      subst hkey
      have := Cached.applyEvictId_get?_of_matches b.g (en.id, wk0.key, wk0.weight) hk0 rfl
      rw [hst, this] at hk; cases hk
  · intro hd id wk hg
    rw [hw] at hd ⊢
    rw [hkw] at hg
    rcases hi.chargedHeld hd id wk hg with ⟨e1, hk, hid⟩ | h | h
    · by_cases hne : e1.id = id0
      · rw [← hid, hne, (hi.sEvictStale id0 wk0 hS).1] at hg; cases hg
      · exact Or.inl ⟨e1, by rw [hst]; exact Cached.applyEvictId_get?_of_id_ne b.g _ hk hne, hid⟩
    · exact Or.inr (Or.inl h)
    · exact Or.inr (Or.inr h)
  · intro c hc
    rw [hw] at hc; rw [hkw]
    exact hi.putCharged c hc
  · intro id wk h
    rw [hw] at h; rw [hkw]
    exact hi.wEvictUncharged id wk h
  · intro id wk h en hk
    rw [hw] at h
    exact hi.wEvictOwn id wk h en (hsub _ en hk)
  · intro id wk h; rw [hS'] at h; cases h
  · intro id h k en hk
    rw [hw] at h
    exact hi.delNoEntry id h k en (hsub k en hk)
  · intro k k' e1 e2 h1 h2 hid
    exact hi.storeIdInj k k' e1 e2 (hsub k e1 h1) (hsub k' e2 h2) hid
  · rw [hkw]; exact hi.kwKeyInj

/-- every action of the sweeper preserves `BBij` (whatever the shutdown flag says) -/
theorem bbij_sweeperAct {b b' : BState} {v : Option Nat} (hb : BInv b) (hi : BBij b)
    (h : sweeperAct b v = .ok b') : BBij b' := by
  have ht := sweeperAct_trans h
  obtain ⟨hw, hcl, hq, hn, _, _⟩ := strans_frame ht
  have hocc : ∀ f, occ b' f = occ b f := occ_congr hq hcl hw
  cases ht with
  | kwRemoveSome now shard rest id wk hg hs =>
    exact bbij_sKwRemove hb hi now shard rest id wk hg hs rfl rfl rfl rfl hocc hn
  | store now shard rest id wk hs _ =>
    exact bbij_sStore hi now shard rest id wk hs (by simp) (by simp) (by simp) hw
  | begin ha hs =>
    exact hi.inPlace (fun k => by simp) (by simp) (by rw [sweepNext_evicting, hs]; rfl) hw
      (fun f _ => Nat.le_of_eq (hocc f)) (Nat.le_of_eq hn.symm)
  | entryExpired now shard rest id p hf hs =>
    exact hi.inPlace (fun k => rfl) rfl (by rw [hs]; rfl) hw (fun f _ => Nat.le_of_eq (hocc f)) (Nat.le_of_eq hn.symm)
  | entryKeep now shard rest id p hf hs =>
    exact hi.inPlace (fun k => by simp) (by simp) (by rw [sweepNext_evicting, hs]; rfl) hw
      (fun f _ => Nat.le_of_eq (hocc f)) (Nat.le_of_eq hn.symm)
  | kwRemoveNone now shard rest id hg hs =>
    exact hi.inPlace (fun k => by simp) (by simp) (by rw [sweepNext_evicting, hs]; rfl) hw
      (fun f _ => Nat.le_of_eq (hocc f)) (Nat.le_of_eq hn.symm)
  | kwRemoveSkip now shard rest id wk hg hs hu =>
    -- fix 36c87dc: the stored value has not itself expired — nothing changes but the sweeper's position
    exact hi.inPlace (fun k => by simp) (by simp) (by rw [sweepNext_evicting, hs]; rfl) hw
      (fun f _ => Nat.le_of_eq (hocc f)) (Nat.le_of_eq hn.symm)
  | sub now shard rest id wk hfree hs =>
    exact hi.inPlace (fun k => rfl) rfl (by rw [hs]; rfl) hw (fun f _ => Nat.le_of_eq (hocc f)) (Nat.le_of_eq hn.symm)
  | fin hs =>
    exact hi.inPlace (fun k => rfl) rfl (by rw [hs]; rfl) hw (fun f _ => Nat.le_of_eq (hocc f)) (Nat.le_of_eq hn.symm)

/-! ### the clients, and every action -/

/-- every client action taken while the cache is running preserves `BBij`: no client action touches the ledger,
    `delete.mark` and `upsert.update` modify an entry in place (same key, same id), everything else leaves the store
    alone — except `shutdown()`'s `store.clear` / `kw.clear`, which come after the flag is set -/
theorem bbij_clientAct {b b' : BState} {i : Nat} {o o' : Oracle} (hb : BInv b) (hs : b.g.shutting = false)
    (hi : BBij b) (h : clientAct b i o = .ok (b', o')) : BBij b' := by
  have ht := clientAct_trans h
  obtain ⟨hw, hsw, _⟩ := ctrans_frame ht
  have hno : b.cl[i]? ≠ some .shutStoreClear := by
    intro hpc
    rw [hb.shutFlag i _ hpc rfl] at hs; cases hs
  exact hi.inPlace (storeEff_client_ids (ent_clientAct_storeEff h) hno) (by rw [ctrans_adm_running hb hs ht])
    (by rw [hsw]) hw (ctrans_occ ht) (ctrans_nextId ht)

theorem bbij_init (cfg : Cfg) (now : Nat) (seeds : List Nat) (clients : Nat) (shardMap : List (Nat × Nat)) :
    BBij { BState.init cfg now seeds clients with storeShard := shardMap } := by
  refine ⟨?_, ?_, ?_, ?_, ?_, ?_, ?_, ?_, ?_⟩
  · intro k e h; simp [BState.init, State.init] at h
  · intro _ id wk h; simp [BState.init, State.init] at h
  · intro c h; simp [BState.init, WPc.putting?] at h
  · intro id wk h; simp [BState.init, WPc.evicting?] at h
  · intro id wk h; simp [BState.init, WPc.evicting?] at h
  · intro id wk h; simp [BState.init, SPc.evicting?] at h
  · intro id h; simp [BState.init, WPc.deleting?] at h
  · intro k k' e e' h; simp [BState.init, State.init] at h
  · intro id id' wk wk' h; simp [BState.init, State.init] at h

/-- **`BBij` is inductive**: every atomic action of every thread taken while the cache is running (flag not set BEFORE
    the action; it may be the action that sets it) preserves it, given the existing invariants `BInv` and `WAbsent`. -/
theorem bbij_step {b b' : BState} {a : Act} {o o' : Oracle} (hb : BInv b) (ha : WAbsent b) (hi : BBij b)
    (hs : b.g.shutting = false) (h : stepB b a o = .ok (b', o')) : BBij b' := by
  cases a with
  | issue i r =>
    simp only [stepB] at h
    split at h
    · rename_i b1 hi'
      simp only [Except.ok.injEq, Prod.mk.injEq] at h; obtain ⟨rfl, rfl⟩ := h
      have hocc := issue_occ hi'
      unfold issue at hi'
      split at hi'
      · simp only [Except.ok.injEq] at hi'; subst hi'
        exact hi.inPlace (fun k => rfl) rfl rfl rfl (fun f _ => hocc f) (Nat.le_refl _)
      · cases hi'
    · cases h
  | client i => exact bbij_clientAct hb hs hi h
  | worker => exact bbij_workerAct hb ha hi h
  | sweeper v =>
    simp only [stepB] at h
    split at h
    · rename_i b1 hs'
      simp only [Except.ok.injEq, Prod.mk.injEq] at h; obtain ⟨rfl, rfl⟩ := h
      exact bbij_sweeperAct hb hi hs'
    · cases h
  | consumer =>
    simp only [stepB] at h
    split at h
    · rename_i g' out o1 hc
      simp only [Except.ok.injEq, Prod.mk.injEq] at h; obtain ⟨rfl, rfl⟩ := h
      have hf := consumerStep_frame hc
      have hq : ({ b with g := g' } : BState).g.queue = b.g.queue := by show g'.queue = _; rw [hf]
      exact hi.inPlace (fun k => by show (g'.store.get? k).map _ = _; rw [hf]) (by show g'.adm.kw = _; rw [hf]) rfl rfl
        (fun f _ => Nat.le_of_eq (occ_congr hq rfl rfl f))
        (by show b.g.nextId ≤ g'.nextId; rw [hf]; exact Nat.le_refl _)
    · cases h
  | advance d =>
    simp only [stepB, Except.ok.injEq, Prod.mk.injEq] at h; obtain ⟨rfl, rfl⟩ := h
    exact hi.inPlace (fun k => rfl) rfl rfl rfl (fun f _ => Nat.le_refl _) (Nat.le_refl _)

/-- `BBij` holds at every state any interleaving can reach while the cache is running -/
theorem bbij_reach {cfg : Cfg} {now : Nat} {seeds : List Nat} {clients : Nat} {b : BState}
    (h : Reach cfg now seeds clients b) (hs : b.g.shutting = false) : BBij b := by
  induction h with
  | init sm => exact bbij_init _ _ _ _ sm
  | step hr hstep ih =>
    have hs0 := stepB_running_before hstep hs
    exact bbij_step (binv_reach hr) (wabsent_reach hr) (ih hs0) hs0 hstep

/-! ## 4  the property theorems -/

theorem WPc.evicting?_some {w : WPc} {id : Nat} {wk : WKey} (h : w.evicting? = some (id, wk)) :
    ∃ c inc s, w = .evSub c inc s id wk ∨ w = .evStore c inc s id wk := by
  cases w <;> simp only [WPc.evicting?, Option.some.injEq, Prod.mk.injEq, reduceCtorEq] at h
  all_goals obtain ⟨rfl, rfl⟩ := h
  · exact ⟨_, _, _, Or.inl rfl⟩
  · exact ⟨_, _, _, Or.inr rfl⟩

theorem SPc.evicting?_some {sw : SPc} {id : Nat} {wk : WKey} (h : sw.evicting? = some (id, wk)) :
    ∃ n sh rest, sw = .sub n sh rest id wk ∨ sw = .store n sh rest id wk := by
  cases sw <;> simp only [SPc.evicting?, Option.some.injEq, Prod.mk.injEq, reduceCtorEq] at h
  all_goals obtain ⟨rfl, rfl⟩ := h
  · exact ⟨_, _, _, Or.inl rfl⟩
  · exact ⟨_, _, _, Or.inr rfl⟩

theorem WPc.putting?_some {w : WPc} {c : PutCmd} (h : w.putting? = some c) : w = .add c ∨ w = .storePut c := by
  cases w <;> simp only [WPc.putting?, Option.some.injEq, reduceCtorEq] at h
  all_goals subst h
  · exact Or.inl rfl
  · exact Or.inr rfl

theorem WPc.deleting?_some {w : WPc} {id : Nat} (h : w.deleting? = some id) : ∃ exp hh, w = .delKw id exp hh := by
  cases w <;> simp only [WPc.deleting?, Option.some.injEq, reduceCtorEq] at h
  subst h
  exact ⟨_, _, rfl⟩

/-- **C05 at action granularity, HELD ⇒ CHARGED.**  At every state any interleaving can reach while the cache is running:
    the id of every stored entry is charged in `key_weights`, and charged for the key it is stored under — unless that
    id is being evicted right now: the worker (positions `wu.sub` / `store.remove` of an eviction inside `create_space`)
    or the sweeper (positions `wu.sub` / `store.remove` of the ticker's eviction) has taken exactly this id's charge,
    for exactly this key, out of `key_weights` and has not yet removed the entry.  No other exception exists (whether
    the worker is dead or not). -/
theorem C05_layerB_held_charged {cfg : Cfg} {now : Nat} {seeds : List Nat} {clients : Nat} {b : BState}
    (hr : Reach cfg now seeds clients b) (hs : b.g.shutting = false) {k : Nat} {e : Entry}
    (hk : b.g.store.get? k = some e) :
    (∃ wk, b.g.adm.kw.get? e.id = some wk ∧ wk.key = k) ∨
    (∃ c inc s wk, (b.w = .evSub c inc s e.id wk ∨ b.w = .evStore c inc s e.id wk) ∧ wk.key = k) ∨
    (∃ n sh rest wk, (b.sw = .sub n sh rest e.id wk ∨ b.sw = .store n sh rest e.id wk) ∧ wk.key = k) := by
  rcases (bbij_reach hr hs).heldCharged k e hk with h | ⟨wk, h, hkey⟩ | ⟨wk, h, hkey⟩
  · exact Or.inl h
  · obtain ⟨c, inc, s, h'⟩ := WPc.evicting?_some h
    exact Or.inr (Or.inl ⟨c, inc, s, wk, h', hkey⟩)
  · obtain ⟨n, sh, rest, h'⟩ := SPc.evicting?_some h
    exact Or.inr (Or.inr ⟨n, sh, rest, wk, h', hkey⟩)

/-- **C05 at action granularity, CHARGED ⇒ HELD.**  At every state any interleaving can reach while the cache is running
    and the worker has not panicked: every charged id is the id of the entry stored under the charged key — unless the
    worker stands between `kw.insert` and `store.put` of the put of that id and key (positions `wu.add`, `store.put`),
    or between `store.remove` and `kw.remove` of a `Delete` that removed the entry of that id (position `kw.remove`). -/
theorem C05_layerB_charged_held {cfg : Cfg} {now : Nat} {seeds : List Nat} {clients : Nat} {b : BState}
    (hr : Reach cfg now seeds clients b) (hs : b.g.shutting = false) (hd : b.w ≠ .dead) {id : Nat} {wk : WKey}
    (hg : b.g.adm.kw.get? id = some wk) :
    (∃ e, b.g.store.get? wk.key = some e ∧ e.id = id) ∨
    (∃ c, (b.w = .add c ∨ b.w = .storePut c) ∧ c.id = id ∧ c.k = wk.key) ∨
    (∃ exp hh, b.w = .delKw id exp hh) := by
  have hi := bbij_reach hr hs
  rcases hi.chargedHeld hd id wk hg with h | ⟨c, h, hid⟩ | h
  · exact Or.inl h
  · obtain ⟨wk', hg', hkey⟩ := hi.putCharged c h
    rw [hid, hg] at hg'; cases hg'
    exact Or.inr (Or.inl ⟨c, WPc.putting?_some h, hid, hkey.symm⟩)
  · exact Or.inr (Or.inr (WPc.deleting?_some h))

/-- the bijection whenever NOTHING IS IN FLIGHT: the worker is alive and stands neither inside an eviction
    (`wu.sub`, `store.remove`), nor between `kw.insert` and `store.put`, nor at the `kw.remove` of a `Delete`; the
    sweeper does not stand inside an eviction.  Clients may stand anywhere. -/
theorem C05_layerB_bijection_nothing_in_flight {cfg : Cfg} {now : Nat} {seeds : List Nat} {clients : Nat} {b : BState}
    (hr : Reach cfg now seeds clients b) (hs : b.g.shutting = false) (hd : b.w ≠ .dead)
    (hwE : b.w.evicting? = none) (hwP : b.w.putting? = none) (hwD : b.w.deleting? = none)
    (hsE : b.sw.evicting? = none) :
    (∀ k e, b.g.store.get? k = some e → ∃ wk, b.g.adm.kw.get? e.id = some wk ∧ wk.key = k) ∧
    (∀ id wk, b.g.adm.kw.get? id = some wk → ∃ e, b.g.store.get? wk.key = some e ∧ e.id = id) := by
  have hi := bbij_reach hr hs
  constructor
  · intro k e hk
    rcases hi.heldCharged k e hk with h | ⟨wk, h, _⟩ | ⟨wk, h, _⟩
    · exact h
    · rw [hwE] at h; cases h
    · rw [hsE] at h; cases h
  · intro id wk hg
    rcases hi.chargedHeld hd id wk hg with h | ⟨c, h, _⟩ | h
    · exact h
    · rw [hwP] at h; cases h
    · rw [hwD] at h; cases h

/-- **C05 at action granularity, the bijection AT REST.**  At every state any interleaving can reach while the cache is
    running, with the worker at `worker.recv` (or draining) and the sweeper between two ticks (`sweep.begin` /
    `sweep.end`) — wherever the clients stand, whatever is queued —: the stored keys and the charged key ids are in
    bijection: `k ↦ (the id stored under k)` maps held keys to charged ids charged for `k`, `id ↦ (the key charged
    for id)` maps charged ids to held keys stored under `id`, and the two maps are inverse to each other. -/
theorem C05_layerB_bijection_at_rest {cfg : Cfg} {now : Nat} {seeds : List Nat} {clients : Nat} {b : BState}
    (hr : Reach cfg now seeds clients b) (hs : b.g.shutting = false) (hw : b.w = .recv ∨ b.w = .drain)
    (hsw : b.sw = .begin ∨ b.sw = .fin) :
    (∀ k e, b.g.store.get? k = some e → ∃ wk, b.g.adm.kw.get? e.id = some wk ∧ wk.key = k) ∧
    (∀ id wk, b.g.adm.kw.get? id = some wk → ∃ e, b.g.store.get? wk.key = some e ∧ e.id = id) := by
  refine C05_layerB_bijection_nothing_in_flight hr hs ?_ ?_ ?_ ?_ ?_
  · rcases hw with h | h <;> rw [h] <;> intro h' <;> cases h'
  · rcases hw with h | h <;> rw [h] <;> rfl
  · rcases hw with h | h <;> rw [h] <;> rfl
  · rcases hw with h | h <;> rw [h] <;> rfl
  · rcases hsw with h | h <;> rw [h] <;> rfl

/-- **Distinct charged ids carry distinct keys** — at EVERY state any interleaving can reach while the cache is running:
    wherever worker, sweeper and clients stand, worker dead or alive.  (`kw.insert` of a put of `k` runs in a state in
    which `k` is absent from the store, `C07_layerB_worker_key_absent`, hence — by CHARGED ⇒ HELD, nothing of the worker
    being in flight at that position — charged for no id.) -/
theorem C05_layerB_charged_keys_distinct {cfg : Cfg} {now : Nat} {seeds : List Nat} {clients : Nat} {b : BState}
    (hr : Reach cfg now seeds clients b) (hs : b.g.shutting = false)
    {id id' : Nat} {wk wk' : WKey} (hg : b.g.adm.kw.get? id = some wk) (hg' : b.g.adm.kw.get? id' = some wk')
    (hkey : wk.key = wk'.key) : id = id' :=
  (bbij_reach hr hs).kwKeyInj id id' wk wk' hg hg' hkey

/-- … in particular at rest -/
theorem C05_layerB_charged_keys_distinct_at_rest {cfg : Cfg} {now : Nat} {seeds : List Nat} {clients : Nat}
    {b : BState} (hr : Reach cfg now seeds clients b) (hs : b.g.shutting = false) (_hw : b.w = .recv ∨ b.w = .drain)
    (_hsw : b.sw = .begin ∨ b.sw = .fin)
    {id id' : Nat} {wk wk' : WKey} (hg : b.g.adm.kw.get? id = some wk) (hg' : b.g.adm.kw.get? id' = some wk')
    (hkey : wk.key = wk'.key) : id = id' :=
  C05_layerB_charged_keys_distinct hr hs hg hg' hkey

/-- … and distinct held keys are stored under distinct ids (every reachable running state) -/
theorem C05_layerB_held_ids_distinct {cfg : Cfg} {now : Nat} {seeds : List Nat} {clients : Nat} {b : BState}
    (hr : Reach cfg now seeds clients b) (hs : b.g.shutting = false)
    {k k' : Nat} {e e' : Entry} (hk : b.g.store.get? k = some e) (hk' : b.g.store.get? k' = some e')
    (hid : e.id = e'.id) : k = k' :=
  (bbij_reach hr hs).storeIdInj k k' e e' hk hk' hid

/-- **The worker's by-key delete hook removes its own incarnation while the cache is running.**  At every state any
    interleaving can reach with the flag not set: when the worker stands at `wu.sub` or `store.remove` of the eviction
    of `(id, wk)`, the entry stored under `wk.key` — if there is one — carries id `id`; the id is not charged any more.
    So `store.delete(&key)` at `evStore` never removes another incarnation of the key.
    (After `shutdown()` it can: `C03_layerB_evict_id_counterexample` of Entries.lean.) -/
theorem C05_layerB_worker_eviction_removes_own_id {cfg : Cfg} {now : Nat} {seeds : List Nat} {clients : Nat}
    {b : BState} (hr : Reach cfg now seeds clients b) (hs : b.g.shutting = false)
    {c : PutCmd} {inc : Nat} {s : List SKey} {id : Nat} {wk : WKey}
    (hw : b.w = .evStore c inc s id wk ∨ b.w = .evSub c inc s id wk) :
    (∀ e, b.g.store.get? wk.key = some e → e.id = id) ∧ b.g.adm.kw.get? id = none := by
  have hi := bbij_reach hr hs
  have hE : b.w.evicting? = some (id, wk) := by rcases hw with h | h <;> rw [h] <;> rfl
  exact ⟨hi.wEvictOwn id wk hE, hi.wEvictUncharged id wk hE⟩

/-- the same about the ACTION: the worker's `store.remove` at `evStore`, taken while the cache is running, removes no
    entry that carries another id than the one being evicted -/
theorem C05_layerB_worker_eviction_step {cfg : Cfg} {now : Nat} {seeds : List Nat} {clients : Nat}
    {b b' : BState} {o o' : Oracle} (hr : Reach cfg now seeds clients b) (hs : b.g.shutting = false)
    {c : PutCmd} {inc : Nat} {s : List SKey} {id : Nat} {wk : WKey} (hw : b.w = .evStore c inc s id wk)
    (h : stepB b .worker o = .ok (b', o')) {k : Nat} {e : Entry} (hk : b.g.store.get? k = some e)
    (hk' : b'.g.store.get? k = none) : k = wk.key ∧ e.id = id := by
  have he := stepB_storeEff h
  cases he
  case same hst => rw [hst, hk] at hk'; cases hk'
  case put c' exp hw' _ _ _ => rw [hw] at hw'; cases hw'
  case del k' hh e' hw' _ _ => rw [hw] at hw'; cases hw'
  case evict c' inc' s' id' wk' hw' hst =>
    rw [hw] at hw'; cases hw'
    rw [hst, AMap.get?_del] at hk'
    split at hk'
    · rename_i hkk; subst hkk
      exact ⟨rfl, (C05_layerB_worker_eviction_removes_own_id hr hs (Or.inl hw)).1 e hk⟩
    · rw [hk] at hk'; cases hk'

/-! ## 5  concrete runs (on `cfgEx`: weight limit 10, one expiry shard, two clients)

  Non-vacuity of the theorems above, the in-flight exceptions are NEEDED, the dead-worker guard is NEEDED. -/

/-- keys 1 (id 1, weight 3) and 2 (id 2, weight 4) are put and applied -/
def bijRestRun : List (Act × Oracle) :=
  call 0 (.putW 1 100 3 none) 4 ++ workerN 6 ++ call 1 (.putW 2 200 4 none) 4 ++ workerN 6

/-- **Non-vacuity, at rest:** a reachable running state, worker at `recv`, sweeper at `sweep.begin`, two keys held and
    charged, under ids 1 and 2 -/
theorem bij_rest_witness :
    ∃ b, Reach cfgEx 0 [1, 2, 3, 4] 2 b ∧ b.g.shutting = false ∧ b.w = .recv ∧ b.sw = .begin ∧
      b.g.store.get? 1 = some ⟨100, 1, none, false⟩ ∧ b.g.store.get? 2 = some ⟨200, 2, none, false⟩ ∧
      b.g.adm.kw.get? 1 = some ⟨1, 1, 3⟩ ∧ b.g.adm.kw.get? 2 = some ⟨2, 2, 4⟩ ∧ b.g.adm.used = 7 := by
  have hrun : ∃ b, runB entInit bijRestRun = .ok b ∧ b.g.shutting = false ∧ b.w = .recv ∧ b.sw = .begin ∧
      b.g.store.get? 1 = some ⟨100, 1, none, false⟩ ∧ b.g.store.get? 2 = some ⟨200, 2, none, false⟩ ∧
      b.g.adm.kw.get? 1 = some ⟨1, 1, 3⟩ ∧ b.g.adm.kw.get? 2 = some ⟨2, 2, 4⟩ ∧ b.g.adm.used = 7 :=
    ⟨_, rfl, rfl, rfl, rfl, by decide, by decide, by decide, by decide, by decide⟩
  obtain ⟨b, hr, hrest⟩ := hrun
  exact ⟨b, ent_reach_run hr, hrest⟩

/-- the hypotheses of `C05_layerB_bijection_at_rest` and `C05_layerB_charged_keys_distinct_at_rest` hold there, and
    the conclusions say something: key 2 is stored under a charged id charged for key 2, the id charged as 1 is the id
    stored under its key -/
example : ∃ b e wk, Reach cfgEx 0 [1, 2, 3, 4] 2 b ∧ b.g.store.get? 2 = some e ∧ b.g.adm.kw.get? 1 = some wk ∧
    (∃ wk', b.g.adm.kw.get? e.id = some wk' ∧ wk'.key = 2) ∧ (∃ e', b.g.store.get? wk.key = some e' ∧ e'.id = 1) := by
  obtain ⟨b, hr, hs, hw, hsw, _, h2, h1, _⟩ := bij_rest_witness
  have hbij := C05_layerB_bijection_at_rest hr hs (Or.inl hw) (Or.inl hsw)
  exact ⟨b, _, _, hr, h2, h1, hbij.1 2 _ h2, hbij.2 1 _ h1⟩

/-- `C05_layerB_charged_keys_distinct` there: two charged ids (1 and 2), and indeed two different keys -/
example : ∃ b wk wk', Reach cfgEx 0 [1, 2, 3, 4] 2 b ∧ b.g.adm.kw.get? 1 = some wk ∧ b.g.adm.kw.get? 2 = some wk' ∧
    wk.key ≠ wk'.key := by
  obtain ⟨b, hr, hs, _, _, _, _, h1, h2, _⟩ := bij_rest_witness
  exact ⟨b, _, _, hr, h1, h2, fun hkey => absurd (C05_layerB_charged_keys_distinct hr hs h1 h2 hkey) (by decide)⟩

/-- key 1 (id 1, deadline 5) expires; the sweeper takes its charge out of `kw` and stands before `wu.sub` -/
def bijSweepFlight : List (Act × Oracle) :=
  call 0 (.putW 1 100 3 (some 5)) 4 ++ workerN 7 ++
  [(.advance 10, noO), (.sweeper none, noO), (.sweeper (some 1), noO), (.sweeper none, noO)]

/-- **The sweeper exception of (a) is needed:** a reachable running state, worker at `recv`, in which key 1 is HELD
    (under id 1) and id 1 is NOT CHARGED — the sweeper stands at `wu.sub` of the eviction of id 1 for key 1 -/
theorem bij_sweeper_in_flight_witness :
    ∃ b, Reach cfgEx 0 [1, 2, 3, 4] 2 b ∧ b.g.shutting = false ∧ b.w = .recv ∧
      b.sw = .sub 10 0 [] 1 ⟨1, 1, 3⟩ ∧ b.g.store.get? 1 = some ⟨100, 1, some 5, false⟩ ∧
      b.g.adm.kw.get? 1 = none := by
  have hrun : ∃ b, runB entInit bijSweepFlight = .ok b ∧ b.g.shutting = false ∧ b.w = .recv ∧
      b.sw = .sub 10 0 [] 1 ⟨1, 1, 3⟩ ∧ b.g.store.get? 1 = some ⟨100, 1, some 5, false⟩ ∧
      b.g.adm.kw.get? 1 = none := ⟨_, rfl, rfl, rfl, rfl, by decide, by decide⟩
  obtain ⟨b, hr, hrest⟩ := hrun
  exact ⟨b, ent_reach_run hr, hrest⟩

/-- … and `C05_layerB_held_charged` holds there through exactly that disjunct -/
example : ∃ b e, Reach cfgEx 0 [1, 2, 3, 4] 2 b ∧ b.g.store.get? 1 = some e ∧
    ¬ (∃ wk, b.g.adm.kw.get? e.id = some wk ∧ wk.key = 1) ∧
    (∃ n sh rest wk, (b.sw = .sub n sh rest e.id wk ∨ b.sw = .store n sh rest e.id wk) ∧ wk.key = 1) := by
  obtain ⟨b, hr, hs, hw, hsw, hk, hg⟩ := bij_sweeper_in_flight_witness
  refine ⟨b, _, hr, hk, ?_, ?_⟩
  · rintro ⟨wk, h, _⟩
    rw [hg] at h; cases h
  · rcases C05_layerB_held_charged hr hs hk with ⟨wk, h, _⟩ | ⟨c, inc, s, wk, h, _⟩ | h
    · rw [hg] at h; cases h
    · rw [hw] at h; rcases h with h | h <;> cases h
    · exact h

/-- key 1 (weight 3) is in; a put of key 2 with weight 8 does not fit; the worker has taken the charge of id 1 out of
    `kw` and stands at the `store.remove` of the eviction (the run is `pressureRun` of Entries.lean) -/
theorem bij_worker_evict_in_flight_witness :
    ∃ b c, Reach cfgEx 0 [1, 2, 3, 4] 2 b ∧ b.g.shutting = false ∧ b.w = .evStore c 0 [] 1 ⟨1, 1, 3⟩ ∧ c.k = 2 ∧
      b.g.store.get? 1 = some ⟨100, 1, none, false⟩ ∧ b.g.adm.kw.get? 1 = none := by
  have hrun : ∃ b, runB entInit pressureRun = .ok b ∧ b.g.shutting = false ∧
      b.w = .evStore ⟨2, 2, 8, 2, 200, none, some 1⟩ 0 [] 1 ⟨1, 1, 3⟩ ∧
      b.g.store.get? 1 = some ⟨100, 1, none, false⟩ ∧ b.g.adm.kw.get? 1 = none :=
    ⟨_, rfl, rfl, rfl, by decide, by decide⟩
  obtain ⟨b, hr, hs, hw, hrest⟩ := hrun
  exact ⟨b, _, ent_reach_run hr, hs, hw, rfl, hrest⟩

/-- **Non-vacuity of `C05_layerB_worker_eviction_removes_own_id`:** in that state the worker stands at `evStore` for
    (id 1, key 1), the key IS stored, and the theorem says: under id 1 -/
example : ∃ b c e, Reach cfgEx 0 [1, 2, 3, 4] 2 b ∧ b.w = .evStore c 0 [] 1 ⟨1, 1, 3⟩ ∧
    b.g.store.get? 1 = some e ∧ e.id = 1 := by
  obtain ⟨b, c, hr, hs, hw, _, hk, _⟩ := bij_worker_evict_in_flight_witness
  exact ⟨b, c, _, hr, hw, hk, (C05_layerB_worker_eviction_removes_own_id hr hs (Or.inl hw)).1 _ hk⟩

/-- key 1 is in; the worker applies a put of key 2 (id 2) and stands at `wu.add`: `kw.insert` done, `store.put` not -/
def bijPutFlight : List (Act × Oracle) :=
  call 0 (.putW 1 100 3 none) 4 ++ workerN 6 ++ call 1 (.putW 2 200 4 none) 4 ++ workerN 4

/-- **The put exception of (b) is needed:** a reachable running state, sweeper at `sweep.begin`, in which id 2 is
    CHARGED (for key 2) and key 2 is NOT HELD — the worker stands at `wu.add` of the put of (id 2, key 2); one action
    later (at `store.put`) it is still so -/
theorem bij_put_in_flight_witness :
    (∃ b c, Reach cfgEx 0 [1, 2, 3, 4] 2 b ∧ b.g.shutting = false ∧ b.sw = .begin ∧ b.w = .add c ∧ c.id = 2 ∧ c.k = 2 ∧
      b.g.adm.kw.get? 2 = some ⟨2, 2, 4⟩ ∧ b.g.store.get? 2 = none) ∧
    (∃ b c, Reach cfgEx 0 [1, 2, 3, 4] 2 b ∧ b.g.shutting = false ∧ b.sw = .begin ∧ b.w = .storePut c ∧ c.id = 2 ∧
      c.k = 2 ∧ b.g.adm.kw.get? 2 = some ⟨2, 2, 4⟩ ∧ b.g.store.get? 2 = none) := by
  constructor
  · have hrun : ∃ b, runB entInit bijPutFlight = .ok b ∧ b.g.shutting = false ∧ b.sw = .begin ∧
        b.w = .add ⟨2, 2, 4, 2, 200, none, some 1⟩ ∧ b.g.adm.kw.get? 2 = some ⟨2, 2, 4⟩ ∧ b.g.store.get? 2 = none :=
      ⟨_, rfl, rfl, rfl, rfl, by decide, by decide⟩
    obtain ⟨b, hr, hs, hsw, hw, hrest⟩ := hrun
    exact ⟨b, _, ent_reach_run hr, hs, hsw, hw, rfl, rfl, hrest⟩
  · have hrun : ∃ b, runB entInit (bijPutFlight ++ workerN 1) = .ok b ∧ b.g.shutting = false ∧ b.sw = .begin ∧
        b.w = .storePut ⟨2, 2, 4, 2, 200, none, some 1⟩ ∧ b.g.adm.kw.get? 2 = some ⟨2, 2, 4⟩ ∧
        b.g.store.get? 2 = none := ⟨_, rfl, rfl, rfl, rfl, by decide, by decide⟩
    obtain ⟨b, hr, hs, hsw, hw, hrest⟩ := hrun
    exact ⟨b, _, ent_reach_run hr, hs, hsw, hw, rfl, rfl, hrest⟩

/-- … and `C05_layerB_charged_held` holds there through exactly that disjunct -/
example : ∃ b wk, Reach cfgEx 0 [1, 2, 3, 4] 2 b ∧ b.g.adm.kw.get? 2 = some wk ∧
    ¬ (∃ e, b.g.store.get? wk.key = some e ∧ e.id = 2) ∧
    (∃ c, (b.w = .add c ∨ b.w = .storePut c) ∧ c.id = 2 ∧ c.k = wk.key) := by
  obtain ⟨⟨b, c, hr, hs, hsw, hw, hid, hck, hg, hk⟩, _⟩ := bij_put_in_flight_witness
  refine ⟨b, _, hr, hg, ?_, ?_⟩
  · rintro ⟨e, h, _⟩
    rw [hk] at h; cases h
  · rcases C05_layerB_charged_held hr hs (by rw [hw]; intro h; cases h) hg with ⟨e, h, _⟩ | h | ⟨exp, hh, h⟩
    · rw [hk] at h; cases h
    · exact h
    · rw [hw] at h; cases h

/-- key 1 is in; `delete(1)`: the worker has removed the entry and stands at `kw.remove` -/
def bijDelFlight : List (Act × Oracle) :=
  call 0 (.putW 1 100 3 none) 4 ++ workerN 6 ++ call 1 (.delete 1) 3 ++ workerN 2

/-- **The delete exception of (b) is needed:** a reachable running state in which id 1 is CHARGED (for key 1) and key 1
    is NOT HELD — the worker stands at `kw.remove` of the `Delete` that removed the entry of id 1 -/
theorem bij_delete_in_flight_witness :
    ∃ b, Reach cfgEx 0 [1, 2, 3, 4] 2 b ∧ b.g.shutting = false ∧ b.sw = .begin ∧ b.w = .delKw 1 none (some 1) ∧
      b.g.adm.kw.get? 1 = some ⟨1, 1, 3⟩ ∧ b.g.store.get? 1 = none := by
  have hrun : ∃ b, runB entInit bijDelFlight = .ok b ∧ b.g.shutting = false ∧ b.sw = .begin ∧
      b.w = .delKw 1 none (some 1) ∧ b.g.adm.kw.get? 1 = some ⟨1, 1, 3⟩ ∧ b.g.store.get? 1 = none :=
    ⟨_, rfl, rfl, rfl, rfl, by decide, by decide⟩
  obtain ⟨b, hr, hrest⟩ := hrun
  exact ⟨b, ent_reach_run hr, hrest⟩

/-- a put of key 1 whose deadline `now + ttl` is not representable (seconds part above `i64::MAX`) -/
def bijDeadRun : List (Act × Oracle) :=
  call 0 (.putW 1 100 3 (some 9223372036854775808000000000)) 4 ++ workerN 6

/-- **The guard `b.w ≠ .dead` of (b) is needed** (a leak of the implementation, not of the proof): the put above passes
    `kw.insert` and `wu.add`; at `store.put` the worker panics on the deadline.  The reachable state — flag not set,
    sweeper at rest, no client busy — has id 1 CHARGED (weight 3 counted in `weight_used`) and key 1 NOT HELD, and
    nothing is in flight: nobody will ever take the charge out (the id is in neither the store nor the expiry index,
    so neither `delete` nor the sweeper reaches it; only `shutdown()` clears it). -/
theorem bbij_dead_worker_leaks_charge :
    ∃ b, Reach cfgEx 0 [1, 2, 3, 4] 2 b ∧ b.g.shutting = false ∧ b.w = .dead ∧ b.g.worker = .dead ∧ b.sw = .begin ∧
      b.cl = [.idle, .idle] ∧ b.g.adm.kw.get? 1 = some ⟨1, 1, 3⟩ ∧ b.g.adm.used = 3 ∧ b.g.store.get? 1 = none ∧
      b.g.store = [] ∧ b.g.ttl = [] ∧ b.g.queue = [] := by
  have hrun : ∃ b, runB entInit bijDeadRun = .ok b ∧ b.g.shutting = false ∧ b.w = .dead ∧ b.g.worker = .dead ∧
      b.sw = .begin ∧ b.cl = [.idle, .idle] ∧ b.g.adm.kw.get? 1 = some ⟨1, 1, 3⟩ ∧ b.g.adm.used = 3 ∧
      b.g.store.get? 1 = none ∧ b.g.store = [] ∧ b.g.ttl = [] ∧ b.g.queue = [] :=
    ⟨_, rfl, rfl, rfl, rfl, rfl, rfl, by decide, by decide, by decide, rfl, rfl, rfl⟩
  obtain ⟨b, hr, hrest⟩ := hrun
  exact ⟨b, ent_reach_run hr, hrest⟩

/-- hence (b) WITHOUT the guard is false of the model -/
theorem C05_layerB_charged_held_unguarded_false :
    ¬ (∀ (b : BState) (id : Nat) (wk : WKey), Reach cfgEx 0 [1, 2, 3, 4] 2 b → b.g.shutting = false →
        b.g.adm.kw.get? id = some wk →
        (∃ e, b.g.store.get? wk.key = some e ∧ e.id = id) ∨
        (∃ c, (b.w = .add c ∨ b.w = .storePut c) ∧ c.id = id ∧ c.k = wk.key) ∨
        (∃ exp hh, b.w = .delKw id exp hh)) := by
  intro hall
  obtain ⟨b, hr, hs, hw, _, _, _, hg, _, hk, _⟩ := bbij_dead_worker_leaks_charge
  rcases hall b 1 _ hr hs hg with ⟨e, h, _⟩ | ⟨c, h, _⟩ | ⟨exp, hh, h⟩
  · rw [hk] at h; cases h
  · rw [hw] at h; rcases h with h | h <;> cases h
  · rw [hw] at h; cases h

end B
end Cached
