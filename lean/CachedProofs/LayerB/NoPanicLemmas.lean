/-
  Definitions and helper lemmas for C17 at ACTION granularity (CachedProofs/LayerB/NoPanic.lean).

    1  `Out.isPanic`, `uwOk`, `timeOk`, `Req.wf`, `CPc.pre`, `WPc.pre`, `Act.pre` (all decidable)
    2  the worker: `workerAct_pre` (alive iff the side condition of the position holds)
    3  the sweeper and the consumer: frames, error messages
    4  the clients: `clientAct_res` (the result an action records, panic iff the side condition fails),
       `clientAct_gframe` (what a client action does to the liveness flags, the sketch, the buffer queue)
-/
import CachedProofs.LayerB.Theorems
import CachedProofs.Properties.C17
import CachedProofs.Lemmas.Queue   -- `DecidableEq Out` is derived there

namespace Cached

/-- the result of a call is a panic in the calling thread -/
def Out.isPanic : Out → Bool
  | .panic _ => true
  | _ => false


namespace B

deriving instance DecidableEq for Req
deriving instance DecidableEq for CPc
deriving instance DecidableEq for WPc
deriving instance DecidableEq for SPc

/-! ## 1  the preconditions -/

/-- the weight `put_or_update` asserts on before it sends `UpdateWeight`: an `i64` (`weight.try_into()`), positive
    (`assert!(weight > 0)`); `none` = no weight change, nothing is asserted -/
def uwOk : Option Int → Prop
  | some x => inI64 x = true ∧ 0 < x
  | none => True

instance : (u : Option Int) → Decidable (uwOk u)
  | some x => inferInstanceAs (Decidable (inI64 x = true ∧ 0 < x))
  | none => inferInstanceAs (Decidable True)

/-- `now + ttl` is representable (no time-to-live: nothing is added) -/
def timeOk (now : Nat) : Option Nat → Prop
  | some t => (addTime now t).isSome = true
  | none => True

instance (now : Nat) : (t : Option Nat) → Decidable (timeOk now t)
  | some t => inferInstanceAs (Decidable ((addTime now t).isSome = true))
  | none => inferInstanceAs (Decidable True)

/-- `PutOrUpdateRequest::updated_weight`: the explicit weight, else the weight function on the new value -/
def upsertW (cfg : Cfg) (v : Option Nat) (w : Option Int) (ttl : Option Nat) : Option Int :=
  match w with
  | some x => some x
  | none => v.map (fun val => cfg.weightOf val ttl.isSome)

/-- a weight, if there is one, is positive -/
def posW : Option Int → Prop
  | some x => 0 < x
  | none => True

instance : (u : Option Int) → Decidable (posW u)
  | some x => inferInstanceAs (Decidable (0 < x))
  | none => inferInstanceAs (Decidable True)

/-- The request is well formed — the DOCUMENTED precondition that depends on the request alone: weights are positive
    (the explicit one, else the one the weight function computes for the given value). -/
def Req.wf (cfg : Cfg) : Req → Prop
  | .putW _ _ w _ => 0 < w
  | .upsert _ v w ttl _ => posW (upsertW cfg v w ttl)
  | _ => True

instance (cfg : Cfg) : (r : Req) → Decidable (r.wf cfg)
  | .putW _ _ w _ => inferInstanceAs (Decidable (0 < w))
  | .upsert _ v w ttl _ => inferInstanceAs (Decidable (posW (upsertW cfg v w ttl)))
  | .delete _ | .get _ | .weight | .getRef _ | .shutdown | .mget _ _ => inferInstanceAs (Decidable True)

/-- the first action of a call: `put_with_weight(_and_ttl)` asserts `weight > 0` after the shutdown check -/
def Req.startPre (g : State) : Req → Prop
  | .putW _ _ w _ => g.shutting = false → 0 < w
  | _ => True

instance (g : State) : (r : Req) → Decidable (r.startPre g)
  | .putW _ _ w _ => inferInstanceAs (Decidable (g.shutting = false → 0 < w))
  | .upsert _ _ _ _ _ | .delete _ | .get _ | .weight | .getRef _ | .shutdown | .mget _ _ => inferInstanceAs (Decidable True)

/-- `upsert.update`: the key is ABSENT (`none`) — the documented preconditions: a value is given, and the weight to
    charge is positive; the key is PRESENT and a time-to-live is set — `now + ttl` is representable -/
def upUpdatePre (cfg : Cfg) (now : Nat) (v : Option Nat) (w : Option Int) (ttl : Option Nat) (rm : Bool) :
    Option Entry → Prop
  | none => v.isSome = true ∧ posW (upsertW cfg v w ttl)
  | some _ => rm = false → timeOk now ttl

instance (cfg : Cfg) (now : Nat) (v : Option Nat) (w : Option Int) (ttl : Option Nat) (rm : Bool) :
    (e : Option Entry) → Decidable (upUpdatePre cfg now v w ttl rm e)
  | none => inferInstanceAs (Decidable (v.isSome = true ∧ posW (upsertW cfg v w ttl)))
  | some _ => inferInstanceAs (Decidable (rm = false → timeOk now ttl))

/-- `kw.update` of a charged id (`some wk`): neither `new - charged` nor `used + (new - charged)` overflows `i64` -/
def updatePre (used w : Int) : Option WKey → Prop
  | some wk => inI64 (w - wk.weight) = true ∧ inI64 (used + (w - wk.weight)) = true
  | none => True

instance (used w : Int) : (x : Option WKey) → Decidable (updatePre used w x)
  | some wk => inferInstanceAs (Decidable (inI64 (w - wk.weight) = true ∧ inI64 (used + (w - wk.weight)) = true))
  | none => inferInstanceAs (Decidable True)

/-- The side condition of the action a client standing at `pc` is about to run, in the state `g` it runs in:
    exactly what the code between this schedule point and the next one asserts.
    * `start`: `put_with_weight`: the weight is positive (unless the cache is shutting down: the call returns `Err`);
    * `upsert.update`: the key is absent — a value is given and the weight to charge is positive (documented);
      the key is present and a time-to-live is set — `now + ttl` is representable, AT THE CLOCK OF THIS ACTION;
    * `upsert.weight_of` with no change of the expiry index, `ttl.put`, `ttl.delete`, `ttl.update.insert`: the tail of
      `put_or_update` runs in this action — the weight it carries (the explicit / computed one, or the
      `existing ± ttl_ticker_entry_size` that `upsert.weight_of` computed from a CHARGED id) is a positive `i64`;
      it carries none (`uwOk none`: nothing is asserted, nothing will be sent) when neither weight nor value is given
      and the id was not charged at `upsert.weight_of` (fix c86efeb) or the expiry index only moves. -/
def CPc.pre (g : State) : CPc → Prop
  | .start r => r.startPre g
  | .upUpdate k v w ttl rm =>
    upUpdatePre g.cfg g.now v w ttl rm (g.store.get? k)
  | .upWeightOf _ uw old new => typeOfExpiryUpdate old new = .nothing → uwOk uw
  | .upTtlPut _ _ uw => uwOk uw
  | .upTtlDelete _ _ uw => uwOk uw
  | .upTtlInsert _ _ uw => uwOk uw
  | _ => True

/-- The side condition of the action the worker standing at `w` is about to run, in the state `g` it runs in:
    * `store.put` of a put with time-to-live: `now + ttl` is representable AT THE WORKER'S CLOCK;
    * `kw.update` of a charged id: neither the difference to the charged weight nor the new total overflows `i64`;
    * `wu.space` (the three calls of `is_space_available_for` inside a put: the first one, the one after an eviction,
      the one when the sample ran dry): `max_weight - weight_used` is representable in `i64`, WITH THE TOTAL AS IT IS WHEN
      THIS ACTION RUNS. It is whenever the total is not negative (`C17_layerB_space_overflow_needs_negative_total`). -/
def WPc.pre (g : State) : WPc → Prop
  | .storePut c => timeOk g.now c.ttl
  | .update id w _ => updatePre g.adm.used w (g.adm.kw.get? id)
  | .space0 _ | .evSpace _ _ _ | .emptySpace _ => g.adm.spaceOverflow = false
  | _ => True

instance (g : State) (pc : CPc) : Decidable (pc.pre g) := by
  cases pc <;> (dsimp only [CPc.pre]; infer_instance)

instance (g : State) (w : WPc) : Decidable (w.pre g) := by
  cases w <;> (dsimp only [WPc.pre]; infer_instance)

/-- the side condition of the next action of the client at this index, if there is one -/
def clientPre (g : State) : Option CPc → Prop
  | some pc => pc.pre g
  | none => True

instance (g : State) : (x : Option CPc) → Decidable (clientPre g x)
  | some pc => inferInstanceAs (Decidable (pc.pre g))
  | none => inferInstanceAs (Decidable True)

/-- **The preconditions of one action**, evaluated in the state in which that action runs. -/
def Act.pre (b : BState) : Act → Prop
  | .issue _ r => r.wf b.g.cfg
  | .client i => clientPre b.g b.cl[i]?
  | .worker => b.w.pre b.g
  | .sweeper _ => True
  | .consumer => True
  | .advance _ => True

instance (b : BState) : (a : Act) → Decidable (a.pre b)
  | .issue _ r => inferInstanceAs (Decidable (r.wf b.g.cfg))
  | .client i => inferInstanceAs (Decidable (clientPre b.g b.cl[i]?))
  | .worker => inferInstanceAs (Decidable (b.w.pre b.g))
  | .sweeper _ => inferInstanceAs (Decidable True)
  | .consumer => inferInstanceAs (Decidable True)
  | .advance _ => inferInstanceAs (Decidable True)

example : Act.pre (BState.init c17Cfg 3000000000 [1, 2, 3, 4] 2) (.issue 0 (.putW 1 10 5 none)) := by decide
example : ¬ Act.pre (BState.init c17Cfg 3000000000 [1, 2, 3, 4] 2) (.issue 0 (.putW 1 10 0 none)) := by decide
example : ¬ Act.pre { BState.init c17Cfg 3000000000 [1, 2, 3, 4] 2 with cl := [.upUpdate 1 none none none true, .idle] } (.client 0) := by
  decide

/-! ## 2  the command worker -/

theorem timeOk_iff (now : Nat) (t : Nat) : timeOk now (some t) ↔ ∃ e, addTime now t = some e := by
  simp [timeOk, Option.isSome_iff_exists]

/-- `store.put`: the worker dies iff `now + ttl` overflows -/
theorem workerAct_storePut {b b' : BState} {o o' : Oracle} {c : PutCmd} (hw : b.w = .storePut c)
    (h : workerAct b o = .ok (b', o')) :
    (timeOk b.g.now c.ttl ∧ b'.w ≠ .dead ∧ b'.g.worker = b.g.worker) ∨
    (¬ timeOk b.g.now c.ttl ∧ b'.w = .dead ∧ b'.g.worker = .dead ∧ b'.g.queue = []) := by
  simp only [workerAct, hw] at h
  split at h
  · cases h
  · split at h
    · rename_i hc
      simp only [Except.ok.injEq, Prod.mk.injEq] at h; obtain ⟨rfl, rfl⟩ := h
      exact Or.inl ⟨by simp [hc, timeOk], by simp [finishCmd], rfl⟩
    · rename_i t hc
      split at h
      all_goals simp only [Except.ok.injEq, Prod.mk.injEq] at h; obtain ⟨rfl, rfl⟩ := h
      · rename_i hadd
        exact Or.inr ⟨by simp [hc, timeOk, hadd], rfl, rfl, rfl⟩
      · rename_i e hadd
        exact Or.inl ⟨by simp [hc, timeOk, hadd], by simp, rfl⟩

theorem workerUpdateWeight_cases (g : State) (id : Nat) (w : Int) :
    (updatePre g.adm.used w (g.adm.kw.get? id) ∧
      ∃ g1 st a b c, workerUpdateWeight g id w = .done g1 st a b c ∧ g1.worker = g.worker) ∨
    (¬ updatePre g.adm.used w (g.adm.kw.get? id) ∧ workerUpdateWeight g id w = .panicked g .weightOverflow) := by
  unfold workerUpdateWeight
  cases hk : g.adm.kw.get? id with
  | none => exact Or.inl ⟨trivial, _, _, _, _, _, rfl, rfl⟩
  | some wk =>
    simp only []
    split
    · rename_i hov
      refine Or.inr ⟨?_, rfl⟩
      intro hp
      simp only [updatePre] at hp
      simp [hp.1, hp.2] at hov
    · rename_i hov
      refine Or.inl ⟨?_, _, _, _, _, _, rfl, rfl⟩
      simp only [Bool.or_eq_true, Bool.not_eq_true', not_or, Bool.not_eq_false] at hov
      exact hov

/-- `kw.update`: the worker dies iff the `i64` arithmetic overflows -/
theorem np_workerAct_update {b b' : BState} {o o' : Oracle} {id : Nat} {w : Int} {hd : Option Nat}
    (hw : b.w = .update id w hd) (h : workerAct b o = .ok (b', o')) :
    (updatePre b.g.adm.used w (b.g.adm.kw.get? id) ∧ b'.w ≠ .dead ∧ b'.g.worker = b.g.worker) ∨
    (¬ updatePre b.g.adm.used w (b.g.adm.kw.get? id) ∧ b'.w = .dead ∧ b'.g.worker = .dead ∧ b'.g.queue = []) := by
  simp only [workerAct, hw] at h
  split at h
  · cases h
  · rcases workerUpdateWeight_cases b.g id w with ⟨hp, g1, st, x, y, z, he, hwk⟩ | ⟨hp, he⟩
    · rw [he] at h
      simp only [Except.ok.injEq, Prod.mk.injEq] at h; obtain ⟨rfl, rfl⟩ := h
      exact Or.inl ⟨hp, by simp [finishCmd], hwk⟩
    · rw [he] at h
      simp only [Except.ok.injEq, Prod.mk.injEq] at h; obtain ⟨rfl, rfl⟩ := h
      exact Or.inr ⟨hp, rfl, rfl, rfl⟩

/-- `wu.space`: the worker dies iff `max_weight - weight_used` is outside `i64` -/
theorem workerAct_wuSpace {b b' : BState} {o o' : Oracle}
    (hw : (∃ c, b.w = .space0 c) ∨ (∃ c e s, b.w = .evSpace c e s) ∨ (∃ c, b.w = .emptySpace c))
    (h : workerAct b o = .ok (b', o')) :
    (b.g.adm.spaceOverflow = false ∧ b'.w ≠ .dead ∧ b'.g.worker = b.g.worker) ∨
    (b.g.adm.spaceOverflow = true ∧ b'.w = .dead ∧ b'.g.worker = .dead ∧ b'.g.queue = []) := by
  rcases hw with ⟨c, hw⟩ | ⟨c, e, s, hw⟩ | ⟨c, hw⟩
  · simp only [workerAct, hw] at h
    split at h
    · cases h
    · split at h
      · rename_i hov
        simp only [Except.ok.injEq, Prod.mk.injEq] at h; obtain ⟨rfl, rfl⟩ := h
        exact Or.inr ⟨hov, rfl, rfl, rfl⟩
      · rename_i hov
        have hov : b.g.adm.spaceOverflow = false := by simpa using hov
        split at h
        · simp only [Except.ok.injEq, Prod.mk.injEq] at h; obtain ⟨rfl, rfl⟩ := h
          exact Or.inl ⟨hov, by simp, rfl⟩
        · split at h
          · cases h
          · simp only [Except.ok.injEq, Prod.mk.injEq] at h; obtain ⟨rfl, rfl⟩ := h
            exact Or.inl ⟨hov, by simp, rfl⟩
  · simp only [workerAct, hw] at h
    split at h
    · cases h
    · split at h
      · rename_i hov
        simp only [Except.ok.injEq, Prod.mk.injEq] at h; obtain ⟨rfl, rfl⟩ := h
        exact Or.inr ⟨hov, rfl, rfl, rfl⟩
      · rename_i hov
        simp only [Except.ok.injEq, Prod.mk.injEq] at h; obtain ⟨rfl, rfl⟩ := h
        exact Or.inl ⟨by simpa using hov, by simp, rfl⟩
  · simp only [workerAct, hw] at h
    split at h
    · cases h
    · split at h
      · rename_i hov
        simp only [Except.ok.injEq, Prod.mk.injEq] at h; obtain ⟨rfl, rfl⟩ := h
        exact Or.inr ⟨hov, rfl, rfl, rfl⟩
      · rename_i hov
        have hov : b.g.adm.spaceOverflow = false := by simpa using hov
        split at h
        all_goals simp only [Except.ok.injEq, Prod.mk.injEq] at h; obtain ⟨rfl, rfl⟩ := h
        · exact Or.inl ⟨hov, by simp, rfl⟩
        · exact Or.inl ⟨hov, by simp [rejectCmd, finishCmd], rfl⟩

/-- the positions of the worker that have a panic site -/
def WPc.risky : WPc → Bool
  | .storePut _ | .update _ _ _ | .space0 _ | .evSpace _ _ _ | .emptySpace _ => true
  | _ => false

/-- at every other position the worker survives, and only `recv` of `Shutdown` changes its mode (to `draining`) -/
theorem wtrans_alive {b b' : BState} (h : WTrans b b') (hr : b.w.risky = false) :
    b'.w ≠ .dead ∧ (b.g.worker ≠ .dead → b'.g.worker ≠ .dead) := by
  cases h
  all_goals first
    | (rename_i hw; rw [hw] at hr; cases hr; done)
    | (rename_i hw _; rw [hw] at hr; cases hr; done)
    | (rename_i hw _ _; rw [hw] at hr; cases hr; done)
    | simp [finishCmd, rejectCmd, ttlPut, ttlDelete]

/-- **The worker's action**: it survives iff the side condition of its position holds. -/
theorem workerAct_pre {b b' : BState} {o o' : Oracle} (h : workerAct b o = .ok (b', o')) :
    (b.w.pre b.g ∧ b'.w ≠ .dead ∧ (b.g.worker ≠ .dead → b'.g.worker ≠ .dead)) ∨
    (¬ b.w.pre b.g ∧ b'.w = .dead ∧ b'.g.worker = .dead ∧ b'.g.queue = []) := by
  cases hr : b.w.risky with
  | false =>
    have hp : b.w.pre b.g := by
      cases hw : b.w <;> simp_all [WPc.risky, WPc.pre]
    exact Or.inl ⟨hp, wtrans_alive (workerAct_trans h) hr⟩
  | true =>
    cases hw : b.w <;> simp only [hw, WPc.risky] at hr <;> try cases hr
    · rcases workerAct_wuSpace (Or.inl ⟨_, hw⟩) h with ⟨h1, h2, h3⟩ | ⟨h1, h2⟩
      · exact Or.inl ⟨by simpa [WPc.pre] using h1, h2, fun hne => by rw [h3]; exact hne⟩
      · exact Or.inr ⟨by simpa [WPc.pre] using h1, h2⟩
    · rcases workerAct_wuSpace (Or.inr (Or.inl ⟨_, _, _, hw⟩)) h with ⟨h1, h2, h3⟩ | ⟨h1, h2⟩
      · exact Or.inl ⟨by simpa [WPc.pre] using h1, h2, fun hne => by rw [h3]; exact hne⟩
      · exact Or.inr ⟨by simpa [WPc.pre] using h1, h2⟩
    · rcases workerAct_wuSpace (Or.inr (Or.inr ⟨_, hw⟩)) h with ⟨h1, h2, h3⟩ | ⟨h1, h2⟩
      · exact Or.inl ⟨by simpa [WPc.pre] using h1, h2, fun hne => by rw [h3]; exact hne⟩
      · exact Or.inr ⟨by simpa [WPc.pre] using h1, h2⟩
    · rcases workerAct_storePut hw h with ⟨h1, h2, h3⟩ | ⟨h1, h2⟩
      · exact Or.inl ⟨by simpa [WPc.pre] using h1, h2, fun hne => by rw [h3]; exact hne⟩
      · exact Or.inr ⟨by simpa [WPc.pre] using h1, h2⟩
    · rcases np_workerAct_update hw h with ⟨h1, h2, h3⟩ | ⟨h1, h2⟩
      · exact Or.inl ⟨by simpa [WPc.pre] using h1, h2, fun hne => by rw [h3]; exact hne⟩
      · exact Or.inr ⟨by simpa [WPc.pre] using h1, h2⟩

/-! ## 3  the sweeper and the access-count consumer -/

/-- the sweeper touches no result, not the worker, not the consumer, not the sketch; its own liveness flag changes
    only at `sweep.end`, where it takes the value of the keep-running flag -/
theorem strans_bg {b b' : BState} (h : STrans b b') :
    b'.res = b.res ∧ b'.w = b.w ∧ b'.g.worker = b.g.worker ∧ b'.g.consumerAlive = b.g.consumerAlive ∧
    b'.g.lfu = b.g.lfu ∧ b'.g.sweeperKeep = b.g.sweeperKeep ∧ b'.g.consumerKeep = b.g.consumerKeep ∧
    b'.g.bufq = b.g.bufq ∧
    (b'.g.sweeperAlive = b.g.sweeperAlive ∨ (b.sw = .fin ∧ b'.g.sweeperAlive = b.g.sweeperKeep)) := by
  cases h
  case fin hs => exact ⟨rfl, rfl, rfl, rfl, rfl, rfl, rfl, rfl, Or.inr ⟨hs, rfl⟩⟩
  all_goals (try unfold sweepNext)
  all_goals (try split)
  all_goals simp

/-- every way the sweeper's action can fail: it is not enabled, or the oracle value is not one the implementation
    can produce — there is no panic site -/
theorem sweeperAct_error {b : BState} {v : Option Nat} {m : String} (h : sweeperAct b v = .error m) :
    m = "not enabled: the sweeper has exited" ∨ m = "oracle: the visited id is missing" ∨
    m = "illegal oracle: the visited id is not an unvisited entry of the shard" ∨
    m = "not enabled: weight_used is locked" ∨ m = "not enabled: the store shard is read-locked" := by
  unfold sweeperAct at h
  simp only [] at h
  repeat' split at h
  all_goals first
    | (cases h; done)
    | (simp only [Except.error.injEq] at h; subst h; simp)

theorem incrementAll_wf : ∀ (hs : List Nat) (t t' : TinyLFU) (o o' : Oracle), t.fc.WF →
    incrementAll t hs o = .ok (t', o') → t'.fc.WF := by
  intro hs
  induction hs with
  | nil => intro t t' o o' wf h; simp only [incrementAll, Except.ok.injEq, Prod.mk.injEq] at h; rw [← h.1]; exact wf
  | cons x hs ih =>
    intro t t' o o' wf h
    unfold incrementAll at h
    split at h
    · cases h
    · split at h
      · cases h
      · split at h
        · rename_i t1 ht1
          exact ih _ _ _ _ (TinyLFU.incrementFor_wf wf ht1) h
        · cases h

/-- the consumer touches the buffer queue, the sketch and its own liveness flag; it exits only on a `Shutdown` event
    or with the keep-running flag cleared; it keeps the sketch well formed -/
theorem consumerStep_bg {g g1 : State} {o o' : Oracle} {out : Out} (h : consumerStep g o = .ok (g1, out, o')) :
    g1.worker = g.worker ∧ g1.sweeperAlive = g.sweeperAlive ∧ g1.sweeperKeep = g.sweeperKeep ∧
    g1.consumerKeep = g.consumerKeep ∧ g1.shutting = g.shutting ∧
    (g1.consumerAlive = false → g.consumerKeep = false ∨ g.bufq.head? = some .shutdown) ∧
    (∀ x ∈ g1.bufq, x ∈ g.bufq) ∧ (g.lfu.fc.WF → g1.lfu.fc.WF) := by
  unfold consumerStep at h
  split at h
  · cases h
  · rename_i hal
    simp only [Bool.not_eq_true, Bool.not_eq_false'] at hal
    split at h
    · cases h
    · rename_i hq
      simp only [Except.ok.injEq, Prod.mk.injEq] at h
      obtain ⟨rfl, _⟩ := h
      simp [hq]
    · rename_i hs q hq
      split at h
      · cases h
      · rename_i t o1 hinc
        split at h
        · simp only [Except.ok.injEq, Prod.mk.injEq] at h
          obtain ⟨rfl, -⟩ := h
          refine ⟨rfl, rfl, rfl, rfl, rfl, ?_, ?_, fun wf => incrementAll_wf _ _ _ _ _ wf hinc⟩
          · simp [hal]
          · intro x hx; rw [hq]; exact List.mem_cons_of_mem _ hx
        · rename_i hk
          simp only [Except.ok.injEq, Prod.mk.injEq] at h
          obtain ⟨rfl, -⟩ := h
          refine ⟨rfl, rfl, rfl, rfl, rfl, ?_, ?_, fun wf => incrementAll_wf _ _ _ _ _ wf hinc⟩
          · intro _; exact Or.inl (by simpa using hk)
          · simp

/-! ## 4  the clients -/

/-- What a client action does to the recorded results, given the side condition `ok` of its position:
    with `ok` it records nothing or one result that is not a panic; without `ok` it records a panic. -/
def ResStep (b : BState) (i : Nat) (ok : Prop) (b' : BState) : Prop :=
  (ok ∧ (b'.res = b.res ∨ ∃ out, out.isPanic = false ∧ b'.res = b.res.set i (out :: b.res.getD i []))) ∨
  (¬ ok ∧ ∃ p, b'.res = b.res.set i (.panic p :: b.res.getD i []))

theorem ResStep.move {b b' : BState} {i : Nat} {ok : Prop} (h : ok) (hr : b'.res = b.res) : ResStep b i ok b' :=
  Or.inl ⟨h, Or.inl hr⟩

theorem ResStep.ret {b b' : BState} {i : Nat} {ok : Prop} {out : Out} (h : ok) (ho : out.isPanic = false)
    (hr : b'.res = b.res.set i (out :: b.res.getD i [])) : ResStep b i ok b' :=
  Or.inl ⟨h, Or.inr ⟨out, ho, hr⟩⟩

theorem ResStep.panic {b b' : BState} {i : Nat} {ok : Prop} {p : Panic} (h : ¬ ok)
    (hr : b'.res = b.res.set i (.panic p :: b.res.getD i [])) : ResStep b i ok b' :=
  Or.inr ⟨h, p, hr⟩

theorem ResStep.congr {b b' : BState} {i : Nat} {ok ok' : Prop} (h : ResStep b i ok b') (e : ok ↔ ok') :
    ResStep b i ok' b' := by
  rcases h with ⟨h1, h2⟩ | ⟨h1, h2⟩
  · exact Or.inl ⟨e.mp h1, h2⟩
  · exact Or.inr ⟨fun h => h1 (e.mpr h), h2⟩

theorem ResStep.fin {b b0 : BState} {i : Nat} {ok : Prop} {out : Out} (h : ok) (hr : b0.res = b.res)
    (ho : out.isPanic = false) : ResStep b i ok (finishCall b0 i out) :=
  .ret h ho (by simp [finishCall, hr])

theorem ResStep.finPanic {b b0 : BState} {i : Nat} {ok : Prop} {p : Panic} (h : ¬ ok) (hr : b0.res = b.res) :
    ResStep b i ok (finishCall b0 i (.panic p)) :=
  .panic (p := p) h (by simp [finishCall, hr])

theorem ResStep.set {b b0 : BState} {i : Nat} {ok : Prop} {pc : CPc} (h : ok) (hr : b0.res = b.res) :
    ResStep b i ok (setClient b0 i pc) :=
  .move h (by simp [setClient, hr])

/-- the tail of `put_or_update`: it panics iff the weight it carries is not a positive `i64` -/
theorem upAfterIndex_resStep {b b0 : BState} (i id : Nat) (uw : Option Int) (hr : b0.res = b.res) :
    ResStep b i (uwOk uw) (upAfterIndex b0 i id uw) := by
  unfold upAfterIndex
  split
  · rename_i weight
    split
    · rename_i h1
      refine .finPanic ?_ hr
      intro hk; simp [uwOk] at hk; simp [hk.1] at h1
    · rename_i h1
      split
      · rename_i h2
        refine .finPanic ?_ hr
        intro hk; simp only [uwOk] at hk; omega
      · rename_i h2
        refine .set ?_ hr
        simp only [Bool.not_eq_true, Bool.not_eq_false'] at h1
        exact ⟨h1, by omega⟩
  · exact .fin trivial (b0 := { b0 with g := { b0.g with acks := b0.g.acks ++ [.accepted] } }) hr rfl

/-- moving on in a multi-key read never panics -/
theorem mgetNext_resStep {b b0 : BState} (i : Nat) (ks : List Nat) (acc : List (Option Nat)) (iter : Bool)
    (hr : b0.res = b.res) : ResStep b i True (mgetNext b0 i ks acc iter) := by
  unfold mgetNext
  split
  · exact .fin trivial hr rfl
  · exact .set trivial hr

/-- the first action of a multi-key read never panics -/
theorem mgetStart_resStep {b b0 : BState} {ok : Prop} (i : Nat) (ks : List Nat) (iter : Bool) (h : ok)
    (hr : b0.res = b.res) : ResStep b i ok (mgetStart b0 i ks iter) := by
  unfold mgetStart
  split
  · exact .fin h hr rfl
  · exact .set h hr

/-- a load of the shutdown flag inside a multi-key read never panics -/
theorem mgetFlagAct_resStep {b b0 : BState} (i : Nat) (outer : Bool) (ks : List Nat) (acc : List (Option Nat))
    (iter : Bool) (hr : b0.res = b.res) : ResStep b i True (mgetFlagAct b0 i outer ks acc iter) := by
  rcases mgetFlagAct_spec b0 i outer ks acc iter with ⟨_, e⟩ | ⟨_, _, _, _, _, e⟩ | ⟨_, _, _, _, _, e⟩ |
    ⟨_, _, _, _, _, e⟩ <;> rw [e]
  · exact .fin trivial hr rfl
  · exact .set trivial hr
  · exact mgetNext_resStep _ _ _ _ hr
  · exact .set trivial hr

/-- closes a leaf of the case analysis of `clientAct` at a position without a panic site -/
macro "res_leaf" : tactic => `(tactic| first
  | exact ResStep.move trivial rfl
  | exact ResStep.ret trivial rfl rfl
  | exact mgetNext_resStep _ _ _ _ rfl
  | exact mgetStart_resStep _ _ _ trivial rfl
  | exact mgetFlagAct_resStep _ _ _ _ _ rfl)

set_option hygiene false in
/-- the whole case analysis at a position without a panic site -/
macro "res_pos" h:ident : tactic => `(tactic| (
  try simp only [] at $h:ident
  repeat' split at $h:ident
  all_goals first
    | (cases $h:ident; done)
    | (simp only [Except.ok.injEq, Prod.mk.injEq] at $h:ident; obtain ⟨rfl, rfl⟩ := $h:ident; res_leaf)))

/-- **A client's action**: it records a panic iff the side condition of the client's position fails; otherwise it
    records nothing or one result that is not a panic. -/
theorem clientAct_res {b b' : BState} {i : Nat} {o o' : Oracle} (h : clientAct b i o = .ok (b', o')) :
    ∃ pc, b.cl[i]? = some pc ∧ ResStep b i (pc.pre b.g) b' := by
  unfold clientAct at h
  simp only [] at h
  split at h
  · cases h
  · rename_i pc hpc
    refine ⟨pc, hpc, ?_⟩
    cases pc with
    | idle => cases h
    | start r =>
      simp only [] at h
      split at h
      · rename_i hsh
        have hok : CPc.pre b.g (.start r) := by cases r <;> simp [CPc.pre, Req.startPre, hsh]
        cases r <;> simp only [Except.ok.injEq, Prod.mk.injEq] at h <;> obtain ⟨rfl, rfl⟩ := h
        all_goals first
          | exact ResStep.move hok rfl
          | exact ResStep.ret hok rfl rfl
          | exact mgetStart_resStep _ _ _ hok rfl
      · rename_i hsh
        simp only [Bool.not_eq_true] at hsh
        cases r <;> simp only [] at h
        case putW k v w ttl =>
          split at h
          all_goals simp only [Except.ok.injEq, Prod.mk.injEq] at h; obtain ⟨rfl, rfl⟩ := h
          · rename_i hw
            exact ResStep.panic (by simp only [CPc.pre, Req.startPre]; intro hk; have := hk hsh; omega) rfl
          · rename_i hw
            exact ResStep.move (by simp only [CPc.pre, Req.startPre]; intro _; omega) rfl
        all_goals simp only [Except.ok.injEq, Prod.mk.injEq] at h; obtain ⟨rfl, rfl⟩ := h
        all_goals res_leaf
    | putPresent k v w ttl => res_pos h
    | idNext k v w ttl => res_pos h
    | send cmd =>
      simp only [] at h
      split at h
      · rename_i b1 hs
        simp only [Except.ok.injEq, Prod.mk.injEq] at h; obtain ⟨rfl, rfl⟩ := h
        unfold sendAct at hs
        res_pos hs
      · cases h
    | delMark k => res_pos h
    | getStore k => res_pos h
    | getPool k v => res_pos h
    | weightRead => res_pos h
    | upUpdate k v w ttl rm =>
      simp only [] at h
      split at h
      · cases h
      · cases hk : b.g.store.get? k with
        | none =>
          simp only [hk] at h
          cases v with
          | none =>
            simp only [Except.ok.injEq, Prod.mk.injEq] at h; obtain ⟨rfl, rfl⟩ := h
            exact ResStep.finPanic (by simp [CPc.pre, hk, upUpdatePre]) rfl
          | some val =>
            cases w with
            | some x =>
              simp only [] at h
              split at h
              all_goals simp only [Except.ok.injEq, Prod.mk.injEq] at h; obtain ⟨rfl, rfl⟩ := h
              · rename_i hw
                refine ResStep.finPanic ?_ rfl
                simp only [CPc.pre, hk, upUpdatePre, upsertW, posW]
                omega
              · rename_i hw
                refine ResStep.set ?_ rfl
                simp only [CPc.pre, hk, upUpdatePre, upsertW, posW]
                exact ⟨rfl, by omega⟩
            | none =>
              simp only [Option.map_some] at h
              split at h
              all_goals simp only [Except.ok.injEq, Prod.mk.injEq] at h; obtain ⟨rfl, rfl⟩ := h
              · rename_i hw
                refine ResStep.finPanic ?_ rfl
                simp only [CPc.pre, hk, upUpdatePre, upsertW, posW, Option.map_some]
                omega
              · rename_i hw
                refine ResStep.set ?_ rfl
                simp only [CPc.pre, hk, upUpdatePre, upsertW, posW, Option.map_some]
                exact ⟨rfl, by omega⟩
        | some e =>
          simp only [hk] at h
          cases rm with
          | true =>
            simp only [if_true] at h
            simp only [Except.ok.injEq, Prod.mk.injEq] at h; obtain ⟨rfl, rfl⟩ := h
            exact ResStep.set (by simp [CPc.pre, hk, upUpdatePre]) rfl
          | false =>
            cases ttl with
            | none =>
              simp only [Bool.false_eq_true, if_false] at h
              simp only [Except.ok.injEq, Prod.mk.injEq] at h; obtain ⟨rfl, rfl⟩ := h
              exact ResStep.set (by simp [CPc.pre, hk, upUpdatePre, timeOk]) rfl
            | some t =>
              cases hadd : addTime b.g.now t with
              | none =>
                simp only [Bool.false_eq_true, if_false, hadd] at h
                simp only [Except.ok.injEq, Prod.mk.injEq] at h; obtain ⟨rfl, rfl⟩ := h
                exact ResStep.finPanic (by simp [CPc.pre, hk, upUpdatePre, timeOk, hadd]) rfl
              | some x =>
                simp only [Bool.false_eq_true, if_false, hadd] at h
                simp only [Except.ok.injEq, Prod.mk.injEq] at h; obtain ⟨rfl, rfl⟩ := h
                exact ResStep.set (by simp [CPc.pre, hk, upUpdatePre, timeOk, hadd]) rfl
    | upWeightOf id uw old new =>
      simp only [] at h
      cases ht : typeOfExpiryUpdate old new with
      | nothing =>
        simp only [ht, Except.ok.injEq, Prod.mk.injEq] at h; obtain ⟨rfl, rfl⟩ := h
        exact (upAfterIndex_resStep _ _ _ rfl).congr (by simp [CPc.pre, ht])
      | added n =>
        simp only [ht, Except.ok.injEq, Prod.mk.injEq] at h; obtain ⟨rfl, rfl⟩ := h
        exact ResStep.set (by simp [CPc.pre, ht]) rfl
      | deleted e =>
        simp only [ht, Except.ok.injEq, Prod.mk.injEq] at h; obtain ⟨rfl, rfl⟩ := h
        exact ResStep.set (by simp [CPc.pre, ht]) rfl
      | updated e n =>
        simp only [ht, Except.ok.injEq, Prod.mk.injEq] at h; obtain ⟨rfl, rfl⟩ := h
        exact ResStep.set (by simp [CPc.pre, ht]) rfl
    | upTtlPut id e uw =>
      simp only [] at h
      split at h
      · cases h
      · simp only [Except.ok.injEq, Prod.mk.injEq] at h; obtain ⟨rfl, rfl⟩ := h
        exact upAfterIndex_resStep _ _ _ rfl
    | upTtlDelete id e uw =>
      simp only [] at h
      split at h
      · cases h
      · simp only [Except.ok.injEq, Prod.mk.injEq] at h; obtain ⟨rfl, rfl⟩ := h
        exact upAfterIndex_resStep _ _ _ rfl
    | upTtlRemove id old new uw => res_pos h
    | upTtlInsert id new uw =>
      simp only [] at h
      split at h
      · cases h
      · simp only [Except.ok.injEq, Prod.mk.injEq] at h; obtain ⟨rfl, rfl⟩ := h
        exact upAfterIndex_resStep _ _ _ rfl
    | refStore k => res_pos h
    | refPool k v => res_pos h
    | shutCas => res_pos h
    | shutSendCmd => res_pos h
    | shutSendBuf => res_pos h
    | shutConsumerFlag => res_pos h
    | shutTickerFlag => res_pos h
    | shutStoreClear => res_pos h
    | shutKwClear => res_pos h
    | shutWuZero => res_pos h
    | shutAfClear => res_pos h
    | shutStatsClear => res_pos h
    | shutTtlClear => res_pos h
    | mgetStore k ks acc iter => res_pos h
    | mgetPool k v ks acc iter => res_pos h
    | mgetFlag outer ks acc iter => res_pos h

/-- What a client action does to the liveness flags, the sketch and the buffer queue (`ac`: the client stands inside
    `shutdown()`, past its compare-and-swap): it never touches the worker's mode or the liveness flags of the sweeper
    and the consumer; only `shutdown()` clears the sketch, resets the keep-running flags or queues a `Shutdown`
    event for the consumer. -/
structure GFrame (g g' : State) (ac : Bool) : Prop where
  worker : g'.worker = g.worker
  sweeperAlive : g'.sweeperAlive = g.sweeperAlive
  consumerAlive : g'.consumerAlive = g.consumerAlive
  lfu : g'.lfu = g.lfu ∨ g'.lfu = g.lfu.clear
  sweeperKeep : g'.sweeperKeep = g.sweeperKeep ∨ ac = true
  consumerKeep : g'.consumerKeep = g.consumerKeep ∨ ac = true
  bufq : BufEvent.shutdown ∈ g'.bufq → BufEvent.shutdown ∈ g.bufq ∨ ac = true

theorem GFrame.refl (g : State) (ac : Bool) : GFrame g g ac :=
  ⟨rfl, rfl, rfl, Or.inl rfl, Or.inl rfl, Or.inl rfl, fun h => Or.inl h⟩

theorem GFrame.same {g g' : State} {ac : Bool} (h1 : g'.worker = g.worker) (h2 : g'.sweeperAlive = g.sweeperAlive)
    (h3 : g'.consumerAlive = g.consumerAlive) (h4 : g'.lfu = g.lfu) (h5 : g'.sweeperKeep = g.sweeperKeep)
    (h6 : g'.consumerKeep = g.consumerKeep) (h7 : g'.bufq = g.bufq) : GFrame g g' ac :=
  ⟨h1, h2, h3, Or.inl h4, Or.inl h5, Or.inl h6, fun h => Or.inl (h7 ▸ h)⟩

theorem GFrame.acks {g g' : State} {ac : Bool} (h : GFrame g g' ac) (a : List Status) :
    GFrame g { g' with acks := a } ac :=
  ⟨h.1, h.2, h.3, h.4, h.5, h.6, h.7⟩

theorem poolAdd_gframe {g g1 : State} {hh : Nat} {o o' : Oracle} (ac : Bool) (hp : poolAdd g hh o = .ok (g1, o')) :
    GFrame g g1 ac := by
  unfold poolAdd at hp
  split at hp
  · cases hp
  · split at hp
    · cases hp
    · simp only [] at hp
      split at hp
      · simp only [Except.ok.injEq, Prod.mk.injEq] at hp
        obtain ⟨rfl, _⟩ := hp
        unfold acceptBuffer
        split <;> constructor <;> (try simp) <;> (intro hx; exact Or.inl hx)
      · simp only [Except.ok.injEq, Prod.mk.injEq] at hp
        obtain ⟨rfl, _⟩ := hp
        constructor <;> (try simp) <;> (intro hx; exact Or.inl hx)

theorem upAfterIndex_gframe {g : State} {b0 : BState} {ac : Bool} (i id : Nat) (uw : Option Int)
    (hg : GFrame g b0.g ac) : GFrame g (upAfterIndex b0 i id uw).g ac := by
  unfold upAfterIndex
  split
  · split
    · exact hg
    · split <;> exact hg
  · exact hg.acks _

theorem mgetNext_gframe {g : State} {b0 : BState} {ac : Bool} (i : Nat) (ks : List Nat) (acc : List (Option Nat))
    (iter : Bool) (hg : GFrame g b0.g ac) : GFrame g (mgetNext b0 i ks acc iter).g ac := by
  rw [mgetNext_g]; exact hg

theorem mgetStart_gframe {g : State} {b0 : BState} {ac : Bool} (i : Nat) (ks : List Nat) (iter : Bool)
    (hg : GFrame g b0.g ac) : GFrame g (mgetStart b0 i ks iter).g ac := by
  rw [mgetStart_g]; exact hg

theorem mgetFlagAct_gframe {g : State} {b0 : BState} {ac : Bool} (i : Nat) (outer : Bool) (ks : List Nat)
    (acc : List (Option Nat)) (iter : Bool) (hg : GFrame g b0.g ac) :
    GFrame g (mgetFlagAct b0 i outer ks acc iter).g ac := by
  rw [mgetFlagAct_g]; exact hg

set_option hygiene false in
/-- closes a leaf of the case analysis of `clientAct` for `clientAct_gframe` -/
macro "gf_leaf" : tactic => `(tactic| first
  | exact GFrame.refl _ _
  | exact poolAdd_gframe _ (by assumption)
  | exact mgetNext_gframe _ _ _ _ (GFrame.refl _ _)
  | exact mgetNext_gframe _ _ _ _ (poolAdd_gframe _ (by assumption))
  | exact mgetStart_gframe _ _ _ (GFrame.refl _ _)
  | exact mgetFlagAct_gframe _ _ _ _ _ (GFrame.refl _ _)
  | exact upAfterIndex_gframe _ _ _ (GFrame.refl _ _)
  | exact GFrame.same rfl rfl rfl rfl rfl rfl rfl
  | exact upAfterIndex_gframe _ _ _ (GFrame.same rfl rfl rfl rfl rfl rfl rfl)
  | (constructor <;> simp [finishCall, setClient, spotFinish, ttlPut, ttlDelete, CPc.afterCas]))

set_option hygiene false in
macro "gf_pos" h:ident : tactic => `(tactic| (
  try simp only [] at $h:ident
  repeat' split at $h:ident
  all_goals first
    | (cases $h:ident; done)
    | (simp only [Except.ok.injEq, Prod.mk.injEq] at $h:ident; obtain ⟨rfl, rfl⟩ := $h:ident; gf_leaf)))

theorem clientAct_gframe {b b' : BState} {i : Nat} {o o' : Oracle} (h : clientAct b i o = .ok (b', o')) :
    ∃ pc, b.cl[i]? = some pc ∧ GFrame b.g b'.g pc.afterCas := by
  unfold clientAct at h
  simp only [] at h
  split at h
  · cases h
  · rename_i pc hpc
    refine ⟨pc, hpc, ?_⟩
    cases pc with
    | idle => cases h
    | start r =>
      simp only [] at h
      split at h
      · cases r <;> simp only [Except.ok.injEq, Prod.mk.injEq] at h <;> obtain ⟨rfl, rfl⟩ := h <;> gf_leaf
      · cases r <;> gf_pos h
    | send cmd =>
      simp only [] at h
      split at h
      · rename_i b1 hs
        simp only [Except.ok.injEq, Prod.mk.injEq] at h; obtain ⟨rfl, rfl⟩ := h
        unfold sendAct at hs
        gf_pos hs
      · cases h
    | upUpdate k v w ttl rm =>
      simp only [] at h
      split at h
      · cases h
      · split at h
        · gf_pos h
        · split at h
          all_goals simp only [Except.ok.injEq, Prod.mk.injEq] at h; obtain ⟨rfl, rfl⟩ := h
          all_goals gf_leaf
    | _ => gf_pos h

/-! ## 5  the sketch -/

theorem TinyLFU.clear_wf {t : TinyLFU} (wf : t.fc.WF) : t.clear.fc.WF := by
  obtain ⟨⟨h1, h2, h3⟩, h4⟩ := wf
  refine ⟨⟨h1, h2, ?_⟩, ?_⟩
  · intro p hp
    simp only [TinyLFU.clear, FreqCounter.clear, List.mem_map] at hp
    obtain ⟨q, hq, rfl⟩ := hp
    simp [Row.clear, h3 q hq, TinyLFU.clear, FreqCounter.clear]
  · simp only [TinyLFU.clear, FreqCounter.clear]
    intro hnil
    exact h4 (by simpa using hnil)

/-- the worker never writes the sketch -/
theorem wtrans_lfu {b b' : BState} (h : WTrans b b') : b'.g.lfu = b.g.lfu := by
  cases h
  case evStore => exact (applyEvict_rest _ _).2.2.2.2.2.2.2.1
  all_goals simp [finishCmd, rejectCmd, ttlPut, ttlDelete]

theorem loopDecide_no_sketch_panic (b : BState) (c : PutCmd) (e : Nat) (s : List SKey) (space : Int) (o : Oracle) :
    loopDecide b c e s space o ≠ .error sketchPanic := by
  unfold loopDecide
  repeat' split
  all_goals simp [sketchPanic]

/-- with a well-formed sketch no action of the worker fails with the sketch's index-out-of-bounds panic -/
theorem workerAct_no_sketch_panic (b : BState) (o : Oracle) (wf : b.g.lfu.fc.WF) :
    workerAct b o ≠ .error sketchPanic := by
  intro h
  unfold workerAct at h
  simp only [] at h
  repeat' split at h
  all_goals first
    | (cases h; done)
    | (simp [sketchPanic] at h; done)
    | exact loopDecide_no_sketch_panic _ _ _ _ _ _ h
    | (simp only [Except.error.injEq] at h; subst h
       first
         | exact estimateO_no_sketch_panic _ wf _ _ (by assumption)
         | exact fillSample_no_sketch_panic _ wf _ _ _ _ (by assumption))

/-- no action of a client fails with the sketch's panic (clients never index the sketch) -/
theorem clientAct_no_sketch_panic (b : BState) (i : Nat) (o : Oracle) : clientAct b i o ≠ .error sketchPanic := by
  intro h
  unfold clientAct at h
  simp only [] at h
  split at h
  · simp [sketchPanic] at h
  · rename_i pc hpc
    cases pc
    case send cmd =>
      simp only [] at h
      split at h
      · cases h
      · rename_i m hs
        simp only [Except.error.injEq] at h; subst h
        unfold sendAct at hs
        simp only [] at hs
        repeat' split at hs
        all_goals first
          | (cases hs; done)
          | (simp [sketchPanic] at hs; done)
    all_goals try simp only [] at h
    all_goals repeat' split at h
    all_goals first
      | (cases h; done)
      | (simp [sketchPanic] at h; done)
      | (simp only [Except.error.injEq] at h; subst h
         exact poolAdd_no_sketch_panic _ _ _ (by assumption))

end B
end Cached
